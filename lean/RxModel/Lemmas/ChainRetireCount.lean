import RxModel.Lemmas.ChainRetireFresh
import RxModel.Ops.Init
/-
  C16 over the chain model, part 15: observables used by the statements of
  Props/C16C.lean (live `interval_task`s, their pending timers, user-closure call
  counters), the counting form of the retirement theorem, and the closing
  behaviour of the early-terminating observers.
-/
namespace Rx.T
open Rx Rx.Spec

/-! ### observables -/

/-- Number of unfinished tasks whose body satisfies `p`. -/
def Sched.liveWith (p : Body → Bool) (s : Sched) : Nat :=
  (s.tasks.filter fun t => p t.body && !t.done).length

/-- Number of pending (unexpired) timers awaited by a task whose body satisfies `p`. -/
def Sched.pendingWith (p : Body → Bool) (s : Sched) : Nat :=
  (s.timers.filter fun tm => !tm.fired &&
    (match s.tasks[tm.owner]? with | some t => p t.body | none => false)).length

def Body.isTick : Body → Bool
  | .tick => true
  | _ => false

/-- Live `interval_task`s of the source. -/
def TW.liveTicks (w : TW) : Nat := w.sched.liveWith Body.isTick
/-- Pending period timers of the source's `interval_task`s. -/
def TW.pendingTickTimers (w : TW) : Nat := w.sched.pendingWith Body.isTick
/-- All live tasks. -/
def TW.liveCount (w : TW) : Nat := w.sched.liveTasks.length

/-- The call counter of a user closure (`tap`, `on_complete`, `on_error`). -/
def Stage.calls : Stage → Nat
  | .op1 (.tap c) => c
  | .op1 (.onComplete c) => c
  | .op1 (.onError c) => c
  | _ => 0

def TW.callsAt (w : TW) (j : Nat) : Nat :=
  match w.stages[j]? with
  | some st => st.calls
  | none => 0

theorem Body.isTick_iff (b : Body) : b.isTick = true ↔ b = .tick := by
  cases b <;> simp [Body.isTick]

theorem liveWith_zero (p : Body → Bool) (s : Sched)
    (h : ∀ (k : Nat) (t : Task), s.tasks[k]? = some t → p t.body = true → t.done = true) :
    s.liveWith p = 0 := by
  unfold Sched.liveWith
  rw [List.length_eq_zero_iff, List.filter_eq_nil_iff]
  intro t ht
  obtain ⟨k, hk, rfl⟩ := List.mem_iff_getElem.mp ht
  have := h k _ (List.getElem?_eq_getElem hk)
  cases hp : p s.tasks[k].body with
  | false => simp
  | true => simp [this hp]

theorem pendingWith_zero (p : Body → Bool) (s : Sched)
    (h : ∀ (k : Nat) (t : Task), s.tasks[k]? = some t → p t.body = true → TimersFired s k) :
    s.pendingWith p = 0 := by
  unfold Sched.pendingWith
  rw [List.length_eq_zero_iff, List.filter_eq_nil_iff]
  intro tm htm
  obtain ⟨i, hi, rfl⟩ := List.mem_iff_getElem.mp htm
  cases ho : s.tasks[s.timers[i].owner]? with
  | none => simp
  | some t =>
    cases hp : p t.body with
    | false => simp [hp]
    | true =>
      have := h _ t ho hp i _ (List.getElem?_eq_getElem hi) rfl
      simp [this]

/-- The two-input cells whose second-input observer does NOT forward the downstream
    answer: skip_until while it is still skipping and its main stream is alive. -/
def skipping : St2 → Bool
  | .skipUntil true true => true
  | _ => false

/-! ### the counting form -/

/-- Source subscribed, observer finished: after `adv d; run` (`d ≥ bound`) and whatever
    follows, every `interval_task` is finished and awaits no timer. -/
theorem ticks_all_retired {w : TW} (h : Sub w) (hfin : fin w.stages = true) (d : Nat)
    (hd : w.src.bound ≤ d) (post : List TW.Ev) (k : Nat) (t : Task)
    (ht : (w.runEvs ([.adv d, .run] ++ post)).sched.tasks[k]? = some t) (hb : t.body = .tick) :
    t.done = true ∧ TimersFired (w.runEvs ([.adv d, .run] ++ post)).sched k := by
  have hnn := (runEvs_sub ([.adv d, .run] ++ post) h).2
  have hk : k < w.sched.tasks.length := hnn.old k t ht (by rw [hb]; rfl)
  obtain ⟨t0, ht0, hb0⟩ := hnn.fwd.back ht hk
  have hr := tick_retired h.wi hfin d hd ht0 (by rw [← hb0]; exact hb)
  have hI2 : WI ((w.step (.adv d)).step .run) := (step_ok (step_ok h.wi (.adv d)).1 .run).1
  have hf := retired_forever hI2 hr.1 hr.2 post
  have heq : w.runEvs ([.adv d, .run] ++ post) = ((w.step (.adv d)).step .run).runEvs post := rfl
  rw [heq] at ht ⊢
  obtain ⟨t', ht', hd'⟩ := hf.1
  rw [ht] at ht'; cases ht'
  exact ⟨hd', hf.2⟩

theorem ticks_count_zero {w : TW} (h : Sub w) (hfin : fin w.stages = true) (d : Nat)
    (hd : w.src.bound ≤ d) (post : List TW.Ev) :
    (w.runEvs ([.adv d, .run] ++ post)).liveTicks = 0 ∧
    (w.runEvs ([.adv d, .run] ++ post)).pendingTickTimers = 0 := by
  constructor
  · refine liveWith_zero _ _ ?_
    intro k t ht hp
    exact (ticks_all_retired h hfin d hd post k t ht ((Body.isTick_iff _).mp hp)).1
  · refine pendingWith_zero _ _ ?_
    intro k t ht hp
    exact (ticks_all_retired h hfin d hd post k t ht ((Body.isTick_iff _).mp hp)).2

/-! ### the early-terminating observers close -/

theorem take_run_closes (n : Nat) : ∀ (vs : List Val) (h : Nat), vs ≠ [] → h + vs.length = n →
    ((St1.take n h true).run (vs.map .next)).1 = .take n n false
  | [], _, hne, _ => absurd rfl hne
  | [v], h, _, hl => by
    simp only [List.length_cons, List.length_nil] at hl
    have h1 : h < n := by omega
    have h2 : h + 1 = n := by omega
    simp [St1.run, St1.step, St1.onNext, h1, h2]
  | v :: v' :: r, h, _, hl => by
    simp only [List.length_cons] at hl
    have h1 : h < n := by omega
    have h2 : ¬ h + 1 = n := by omega
    have ih := take_run_closes n (v' :: r) (h + 1) (by simp) (by simp only [List.length_cons]; omega)
    simp only [List.map_cons, St1.run, St1.step, St1.onNext, h1, h2, if_true, if_false] at ih ⊢
    exact ih

/-- Skipping `k` items, then the next one comes through. -/
theorem skip_run (k : Nat) : ∀ (vs : List Val) (h : Nat), h + vs.length = k →
    (St1.skip k h).run (vs.map .next) = (.skip k k, [])
  | [], h, hl => by simp at hl; subst hl; rfl
  | v :: r, h, hl => by
    simp only [List.length_cons] at hl
    have ih := skip_run k r (h + 1) (by omega)
    have h1 : ¬ h + 1 > k := by omega
    simp only [List.map_cons, St1.run, St1.step, St1.onNext, h1, if_false, ih, List.nil_append]

end Rx.T
