import RxModel.Lemmas.ChainRetireMain
/-
  C16 over the chain model, part 13: a retired task stays retired and owns no
  pending timer.

  `Ripe w k` (finished, or about to decline) is kept by every move of the model,
  and while it holds no timer is created for task `k` (`KeepT`).  Hence: once all
  timers of `k` have expired they stay expired, for every continuation.
-/
namespace Rx.T
open Rx

theorem pollTask_done_eq (w : TW) (k : TaskId) (t : Task) (ht : w.sched.tasks[k]? = some t)
    (hd : t.done = true) : w.pollTask k = w := by
  unfold TW.pollTask
  simp [Sched.pollPre, ht, hd]

theorem finishOnce_timers (s : Sched) (k : TaskId) : (s.finishOnce k).timers = s.timers := by
  unfold Sched.finishOnce; split <;> rfl

theorem stayPending_timers (s : Sched) (k : TaskId) (wk : Bool) : (s.stayPending k wk).timers = s.timers := by
  unfold Sched.stayPending; split <;> rfl

/-- Polling a ripe task creates no timer for it. -/
theorem pollTask_self_keepT {w : TW} (hI : WI w) {k : TaskId} (hr : Ripe w k) :
    KeepT k w.sched (w.pollTask k).sched := by
  have hlt := hr.lt
  -- finished already: the poll does nothing
  have hdone : ∀ t : Task, w.sched.tasks[k]? = some t → t.done = true →
      KeepT k w.sched (w.pollTask k).sched := by
    intro t ht hd; rw [pollTask_done_eq w k t ht hd]; exact KeepT.refl _ _
  rcases hr with ⟨t, ht, hd⟩ | ⟨t, fur, iv, seq, ht, hrep, hf, hobs⟩ | ⟨t, ht, hb, hfin⟩
  · exact hdone t ht hd
  · cases hd : t.done with
    | true => exact hdone t ht hd
    | false =>
      obtain ⟨hod, hot, _⟩ := hI.rep k t fur iv seq ht hrep
      unfold TW.pollTask
      cases hk : t.keepRunning with
      | false =>
        rw [pollPre_cancelled_eq _ k t ht hd hk]
        exact KeepT.of_timers rfl
      | true =>
        rw [pollPre_tick_eq _ k t fur iv seq ht hd hk hod hot hrep hf]
        dsimp only
        have hobs' : TW.obsFin ({ w with sched := w.sched.setTask k { t with woken := false, outerTimer := none } } : TW)
            t.body = true := hobs
        rw [runTick_declines _ _ _ hobs']
        dsimp only
        simp only [Bool.false_eq_true, if_false]
        exact KeepT.of_timers (finishOnce_timers _ _)
  · cases hd : t.done with
    | true => exact hdone t ht hd
    | false =>
      obtain ⟨hr, hod, hot⟩ := hI.async k t ht (by rw [hb]; rfl)
      have hpre := pollPre_plain _ k t ht hd hod hot hr
      unfold TW.pollTask
      cases hk : t.keepRunning with
      | false =>
        rw [hpre]
        simp only [hk, Bool.false_eq_true, if_false]
        exact KeepT.of_timers rfl
      | true =>
        simp only [hk, if_true] at hpre
        generalize w.sched.pollPre k = r at hpre
        obtain ⟨s1, p⟩ := r
        obtain ⟨hs1, hp⟩ := Prod.mk.inj hpre
        subst hp
        have hT1 : KeepT k w.sched s1 := by rw [hs1]; exact KeepT.of_timers rfl
        have hlt1 : k < s1.tasks.length := by rw [hs1]; simpa using hlt
        clear hs1 hpre
        dsimp only
        rw [hb]
        simp only [Body.isAsync, if_true]
        have e := runAsync_eff ({ w with sched := s1 } : TW) .streamSrc
        generalize TW.runAsync ({ w with sched := s1 } : TW) .streamSrc = ra at e
        obtain ⟨w1, o⟩ := ra
        dsimp only at e
        have hT2 : KeepT k s1 w1.sched := KeepT.of_frame e.sch.frame hlt1
        cases o with
        | pending wk => exact (hT1.trans hT2).trans (KeepT.of_timers (stayPending_timers _ _ _))
        | done => exact (hT1.trans hT2).trans (KeepT.of_timers (finishOnce_timers _ _))
        | exhausted => exact (hT1.trans hT2).trans (KeepT.of_timers (finishOnce_timers _ _))

/-- A ripe task stays ripe (it is finished once it has been polled) and no timer
    is created for it — by a poll of any task. -/
theorem pollTask_stay {w : TW} (hI : WI w) {k : TaskId} (hr : Ripe w k) (j : TaskId) :
    Ripe (w.pollTask j) k ∧ KeepT k w.sched (w.pollTask j).sched := by
  by_cases e : j = k
  · subst e
    refine ⟨Or.inl ?_, pollTask_self_keepT hI hr⟩
    rcases hr with hd | ⟨t, fur, iv, seq, ht, hrep, hf, hobs⟩ | ⟨t, ht, hb, hfin⟩
    · exact hd.fwd (pollTask_ok hI j).2.fwd
    · exact pollTask_retires hI ht hrep hf hobs
    · exact pollTask_stream_retires hI ht hb hfin
  · have hk := pollTask_keep w e hr.lt
    have ok := pollTask_ok hI j
    exact ⟨hr.keep hk ok.2.stg ok.2.fwd, hk.timers⟩

theorem pollAll_stay (l : List TaskId) : ∀ {w : TW}, WI w → ∀ {k : TaskId}, Ripe w k →
    Ripe (w.pollAll l) k ∧ KeepT k w.sched (w.pollAll l).sched := by
  induction l with
  | nil => intro w _ k hr; exact ⟨hr, KeepT.refl _ _⟩
  | cons j r ih =>
    intro w hI k hr
    rcases pollAll_cons_cases w j r with ⟨heq, _⟩ | ⟨heq, _⟩
    · rw [heq]
      have h1 := pollTask_stay hI hr j
      have h2 := ih (pollTask_ok hI j).1 h1.1
      exact ⟨h2.1, h1.2.trans h2.2⟩
    · rw [heq]; exact ih hI hr

theorem fireAll_stay {w : TW} (hI : WI w) {k : TaskId} (hr : Ripe w k) (l : List TimerId) :
    Ripe { w with sched := l.foldl Sched.fire w.sched } k ∧ KeepT k w.sched (l.foldl Sched.fire w.sched) := by
  have hk := fireAll_keep l k w.sched
  have ok := fireAll_ok hI l
  exact ⟨hr.keep hk ok.2.stg ok.2.fwd, hk.timers⟩

theorem runLoop_stay (fuel : Nat) : ∀ {w : TW}, WI w → ∀ {k : TaskId}, Ripe w k →
    Ripe (TW.runLoop fuel w) k ∧ KeepT k w.sched (TW.runLoop fuel w).sched := by
  induction fuel with
  | zero => intro w _ k hr; exact ⟨hr, KeepT.refl _ _⟩
  | succ f ih =>
    intro w hI k hr
    simp only [TW.runLoop]
    have h1 := fireAll_stay hI hr w.sched.dueTimers
    have ok1 := fireAll_ok hI w.sched.dueTimers
    split
    · exact h1
    · exact ⟨(ih (pollAll_ok _ ok1.1).1 (pollAll_stay _ ok1.1 h1.1).1).1,
        (h1.2.trans (pollAll_stay _ ok1.1 h1.1).2).trans
          (ih (pollAll_ok _ ok1.1).1 (pollAll_stay _ ok1.1 h1.1).1).2⟩

/-- Every move of the model. -/
theorem step_stay {w : TW} (hI : WI w) {k : TaskId} (hr : Ripe w k) (e : TW.Ev) :
    Ripe (w.step e) k ∧ KeepT k w.sched (w.step e).sched := by
  have viaEff : ∀ {a : Bool} {w' : TW}, Eff a w w' → Ripe w' k ∧ KeepT k w.sched w'.sched := by
    intro a w' ef
    have hk : Keep k w.sched w'.sched := Keep.of_frame ef.sch.frame hr.lt
    exact ⟨hr.keep hk ef.stg (Fwd.of_frame ef.sch.frame), hk.timers⟩
  cases e with
  | sub => exact viaEff (step_sub_eff w)
  | emit i n => exact viaEff (step_emit_eff w i n)
  | unsub => exact viaEff (step_unsub_eff w)
  | adv d =>
    have hk : Keep k w.sched { w.sched with now := w.sched.now + d } :=
      ⟨fun t h => ⟨t, h, rfl, rfl, rfl, id⟩, fun _ h => h, KeepT.of_timers rfl⟩
    exact ⟨hr.keep hk (SLe.refl _) (Fwd.of_tasks rfl), hk.timers⟩
  | fire i =>
    simp only [TW.step]
    split
    · exact fireAll_stay hI hr [_]
    · exact ⟨hr, KeepT.refl _ _⟩
  | poll i =>
    simp only [TW.step]
    split
    · exact pollTask_stay hI hr _
    · exact ⟨hr, KeepT.refl _ _⟩
  | run => exact runLoop_stay _ hI hr

theorem runEvs_stay (evs : List TW.Ev) : ∀ {w : TW}, WI w → ∀ {k : TaskId}, Ripe w k →
    Ripe (w.runEvs evs) k ∧ KeepT k w.sched (w.runEvs evs).sched := by
  induction evs with
  | nil => intro w _ k hr; exact ⟨hr, KeepT.refl _ _⟩
  | cons e r ih =>
    intro w hI k hr
    have h1 := step_stay hI hr e
    have h2 := ih (step_ok hI e).1 h1.1
    exact ⟨h2.1, h1.2.trans h2.2⟩

/-- Every timer awaited by task `k` has expired. -/
def TimersFired (s : Sched) (k : TaskId) : Prop :=
  ∀ (i : Nat) (tm : Timer), s.timers[i]? = some tm → tm.owner = k → tm.fired = true

theorem TimersFired.keep {s s' : Sched} {k : TaskId} (h : TimersFired s k) (hk : KeepT k s s') :
    TimersFired s' k := by
  intro i tm' h' ho
  obtain ⟨tm, h0, ho0, hf⟩ := hk i tm' h' ho
  exact hf (h i tm h0 ho0)

/-- When the period timer of a RepeatTask has expired, all its timers have. -/
theorem timersFired_of_cur {src : TSrc} {x : Option TaskId} {s : Sched} (hI : SInvX src x s) {k : TaskId} {t : Task}
    {fur iv seq : Nat} (ht : s.tasks[k]? = some t) (hrep : t.rep = some (fur, iv, seq))
    (hf : s.timerFired fur = true) : TimersFired s k := by
  intro i tm hi ho
  cases hfi : tm.fired with
  | true => rfl
  | false =>
    have := hI.cur i tm t fur iv seq hi hfi (by rw [ho]; exact ht) hrep
    subst this
    unfold Sched.timerFired at hf; rw [hi] at hf
    simp only at hf
    rw [hf] at hfi; cases hfi

theorem runLoop_succ_keepT (f : Nat) {w : TW} (hI : WI w) {k : TaskId}
    (hr : Ripe { w with sched := w.sched.dueTimers.foldl Sched.fire w.sched } k) :
    KeepT k (w.sched.dueTimers.foldl Sched.fire w.sched) (TW.runLoop (f + 1) w).sched := by
  simp only [TW.runLoop]
  have ok1 := fireAll_ok hI w.sched.dueTimers
  split
  · exact KeepT.refl _ _
  · exact (pollAll_stay _ ok1.1 hr).2.trans
      (runLoop_stay f (pollAll_ok _ ok1.1).1 (pollAll_stay _ ok1.1 hr).1).2

/-- The interval source after `adv d` with `d ≥ bound`, once the due timers have
    fired: the task is ripe, marked ready, and all its timers have expired. -/
theorem tick_ripe {w : TW} (hI : WI w) (hfin : fin w.stages = true) (d : Nat) (hd : w.src.bound ≤ d)
    {k : TaskId} {t : Task} (ht : w.sched.tasks[k]? = some t) (hb : t.body = .tick) :
    Ripe { (w.step (.adv d)) with sched :=
        (w.step (.adv d)).sched.dueTimers.foldl Sched.fire (w.step (.adv d)).sched } k ∧
    TimersFired ((w.step (.adv d)).sched.dueTimers.foldl Sched.fire (w.step (.adv d)).sched) k ∧
    (∀ t' : Task, ((w.step (.adv d)).sched.dueTimers.foldl Sched.fire (w.step (.adv d)).sched).tasks[k]? = some t' →
      t'.done = false → t'.woken = true) := by
  have hIa : WI (w.step (.adv d)) := (step_ok hI (.adv d)).1
  obtain ⟨fur, iv, seq, hrep⟩ : ∃ fur iv seq, t.rep = some (fur, iv, seq) := by
    have := hI.tickRep k t ht hb
    cases hr : t.rep with
    | none => exact absurd hr this
    | some r => exact ⟨r.1, r.2.1, r.2.2, rfl⟩
  obtain ⟨_, _, tm, htm, _, _, hbound⟩ := hI.rep k t fur iv seq ht hrep
  have hdue : tm.due ≤ w.sched.now + d :=
    Nat.le_trans (hI.due fur tm htm) (Nat.add_le_add_left (Nat.le_trans (hbound hb).2 hd) _)
  generalize hwa : w.step (.adv d) = wa at hIa
  have hsa : wa.sched = { w.sched with now := w.sched.now + d } := by rw [← hwa]; rfl
  have hstages : wa.stages = w.stages := by rw [← hwa]; rfl
  have hta : wa.sched.tasks[k]? = some t := by rw [hsa]; exact ht
  have htma : wa.sched.timers[fur]? = some tm := by rw [hsa]; exact htm
  have hnow : wa.sched.now = w.sched.now + d := by rw [hsa]
  have hk := fireAll_keep wa.sched.dueTimers k wa.sched
  obtain ⟨t1, ht1, hr1, hb1, _, _⟩ := hk.task t hta
  have hfired : (wa.sched.dueTimers.foldl Sched.fire wa.sched).timerFired fur = true := by
    cases hf : tm.fired with
    | true =>
      refine fireAll_fired_mono _ _ _ ?_
      unfold Sched.timerFired; rw [htma]; exact hf
    | false =>
      exact fireAll_fires _ _ _ (mem_dueTimers wa.sched fur tm htma hf (by rw [hnow]; exact hdue))
        (Sched.get_lt htma)
  have hI1 : SInvX wa.src none (wa.sched.dueTimers.foldl Sched.fire wa.sched) :=
    (fireAll_ok hIa wa.sched.dueTimers).1
  refine ⟨?_, timersFired_of_cur hI1 ht1 (hr1.trans hrep) hfired, ?_⟩
  · refine Or.inr (Or.inl ⟨t1, fur, iv, seq, ht1, hr1.trans hrep, hfired, ?_⟩)
    rw [hb1, hb]
    show fin wa.stages = true
    rw [hstages]; exact hfin
  · intro t' ht' hd'
    rw [ht1] at ht'; cases ht'
    obtain ⟨_, _, tm1, htm1, _, hw1, _⟩ := hI1.rep k t1 fur iv seq ht1 (hr1.trans hrep)
    rcases hw1 hd' (by simp) with h | h
    · exact h
    · have : tm1.fired = true := by
        have hx := hfired
        unfold Sched.timerFired at hx
        rw [htm1] at hx
        exact hx
      rw [this] at h; cases h.2

/-- … so after `adv d; run` the task is finished, stays ripe, and owns no pending timer. -/
theorem tick_retired {w : TW} (hI : WI w) (hfin : fin w.stages = true) (d : Nat) (hd : w.src.bound ≤ d)
    {k : TaskId} {t : Task} (ht : w.sched.tasks[k]? = some t) (hb : t.body = .tick) :
    doneAt ((w.step (.adv d)).step .run).sched k ∧ TimersFired ((w.step (.adv d)).step .run).sched k := by
  have hIa : WI (w.step (.adv d)) := (step_ok hI (.adv d)).1
  obtain ⟨hr, hT, hw⟩ := tick_ripe hI hfin d hd ht hb
  rw [step_run_eq]
  exact ⟨runLoop_retires 9999 hIa hr hw, hT.keep (runLoop_succ_keepT 9999 hIa hr)⟩

/-- Any RepeatTask whose observer is finished and whose period timer is due, once
    the due timers have fired. -/
theorem rep_ripe {w : TW} (hI : WI w) {k : TaskId} {t : Task} {fur iv seq : Nat} {tm : Timer}
    (ht : w.sched.tasks[k]? = some t) (hrep : t.rep = some (fur, iv, seq))
    (htm : w.sched.timers[fur]? = some tm) (hdue : tm.due ≤ w.sched.now)
    (hobs : w.obsFin t.body = true) :
    Ripe { w with sched := w.sched.dueTimers.foldl Sched.fire w.sched } k ∧
    TimersFired (w.sched.dueTimers.foldl Sched.fire w.sched) k ∧
    (∀ t' : Task, (w.sched.dueTimers.foldl Sched.fire w.sched).tasks[k]? = some t' →
      t'.done = false → t'.woken = true) := by
  have hk := fireAll_keep w.sched.dueTimers k w.sched
  obtain ⟨t1, ht1, hr1, hb1, _, _⟩ := hk.task t ht
  have hfired : (w.sched.dueTimers.foldl Sched.fire w.sched).timerFired fur = true := by
    cases hf : tm.fired with
    | true =>
      refine fireAll_fired_mono _ _ _ ?_
      unfold Sched.timerFired; rw [htm]; exact hf
    | false => exact fireAll_fires _ _ _ (mem_dueTimers w.sched fur tm htm hf hdue) (Sched.get_lt htm)
  have hI1 : SInvX w.src none (w.sched.dueTimers.foldl Sched.fire w.sched) :=
    (fireAll_ok hI w.sched.dueTimers).1
  refine ⟨?_, timersFired_of_cur hI1 ht1 (hr1.trans hrep) hfired, ?_⟩
  · refine Or.inr (Or.inl ⟨t1, fur, iv, seq, ht1, hr1.trans hrep, hfired, ?_⟩)
    rw [hb1]; exact hobs
  · intro t' ht' hd'
    rw [ht1] at ht'; cases ht'
    obtain ⟨_, _, tm1, htm1, _, hw1, _⟩ := hI1.rep k t1 fur iv seq ht1 (hr1.trans hrep)
    rcases hw1 hd' (by simp) with h | h
    · exact h
    · have : tm1.fired = true := by
        have hx := hfired
        unfold Sched.timerFired at hx
        rw [htm1] at hx
        exact hx
      rw [this] at h; cases h.2

theorem repeat_retired {w : TW} (hI : WI w) {k : TaskId} {t : Task} {fur iv seq : Nat} {tm : Timer}
    (ht : w.sched.tasks[k]? = some t) (hrep : t.rep = some (fur, iv, seq))
    (htm : w.sched.timers[fur]? = some tm) (hdue : tm.due ≤ w.sched.now)
    (hobs : w.obsFin t.body = true) :
    doneAt (w.step .run).sched k ∧ TimersFired (w.step .run).sched k := by
  obtain ⟨hr, hT, hw⟩ := rep_ripe hI ht hrep htm hdue hobs
  rw [step_run_eq]
  exact ⟨runLoop_retires 9999 hI hr hw, hT.keep (runLoop_succ_keepT 9999 hI hr)⟩

/-- A finished task that owns no pending timer: for ever. -/
theorem retired_forever {w : TW} (hI : WI w) {k : TaskId} (hd : doneAt w.sched k)
    (hT : TimersFired w.sched k) (evs : List TW.Ev) :
    doneAt (w.runEvs evs).sched k ∧ TimersFired (w.runEvs evs).sched k :=
  ⟨hd.fwd (runEvs_ok evs hI).2.fwd, hT.keep (runEvs_stay evs hI (Or.inl hd)).2⟩

end Rx.T
