import RxModel.Lemmas.MergeAllOrderHotStep
/-
  C05O — terminals.  Shape of the log with respect to the terminal delivered
  downstream (at most one, and it is the last entry of the whole log: after it
  nothing is delivered, started or accepted), and where an error can come from.
-/
namespace Rx.MergeAll

/-! ### A dead cell is silent -/

theorem completeAll_dead (f : Bool) (ts : List (Nat × Nat)) (s : St) (ha : s.alive = false) :
    completeAll f s ts = (s, []) ∧ completeAllL f s ts = [] := by
  have h1 : innerComplete f s = (s, []) := by simp [innerComplete, ha]
  have h2 : innerCompleteL f s = [] := by simp [innerCompleteL, ha]
  induction ts with
  | nil => exact ⟨rfl, rfl⟩
  | cons p r ih =>
    simp only [completeAll, completeAllL, h1, h2, ih.1, ih.2]
    constructor
    · split <;> rfl
    · split <;> rfl

/-- Once the data has been taken out of the cell, no event delivers, starts
    or accepts anything, and the cell stays empty. -/
theorem stepG_deadO (f : Bool) (s : St) (ev : Ev) (ha : s.alive = false) :
    stepL f s ev = [] ∧ (stepG f s ev).2 = [] ∧ (stepG f s ev).1.alive = false := by
  unfold stepL stepG
  split
  · exact ⟨rfl, rfl, ha⟩
  · cases ev with
    | outerNext k =>
      simp only [outerNextL, outerNext]
      split
      · exact ⟨rfl, rfl, ha⟩
      · simp [ha]
    | outerError e => simp only [outerError]; split <;> simp [ha]
    | outerComplete => simp only [outerComplete]; split <;> simp [ha]
    | innerNext j v => simp only [hotNext]; split <;> simp [ha]
    | innerError j e =>
      simp only [hotError]
      split
      · exact ⟨rfl, rfl, ha⟩
      · have ho := errorAll_out e (targets s j)
          { s with dead := j :: s.dead, subs := s.subs.filter (fun p => !(p.1 == j)) }
        rw [ho.1, ho.2.1]; simp [ha]
    | innerComplete j =>
      simp only [hotCompleteL, hotComplete]
      split
      · exact ⟨rfl, rfl, ha⟩
      · have := completeAll_dead f (targets s j)
          { s with dead := j :: s.dead, subs := s.subs.filter (fun p => !(p.1 == j)) } ha
        rw [this.1, this.2]; exact ⟨rfl, rfl, ha⟩
    | unsub => exact ⟨rfl, rfl, ha⟩

theorem runG_deadO (f : Bool) (evs : List Ev) : ∀ s : St, s.alive = false →
    runL f s evs = [] ∧ (runG f s evs).2 = [] ∧ (runG f s evs).1.alive = false := by
  induction evs with
  | nil => intro s ha; exact ⟨rfl, rfl, ha⟩
  | cons ev r ih =>
    intro s ha
    have h1 := stepG_deadO f s ev ha
    have h2 := ih _ h1.2.2
    simp only [runL, runG, h1.1, h1.2.1, h2.1, h2.2.1, List.append_nil]
    exact ⟨trivial, trivial, h2.2.2⟩

/-! ### At most one terminal, and it is last -/

/-- Either no terminal and `alive` untouched, or the log ends with its only
    terminal and the cell is empty afterwards. -/
def LogShape (s s' : St) (l : List Lab) : Prop :=
  (hasTerm l = false ∧ s'.alive = s.alive) ∨
  (∃ l' x, l = l' ++ [x] ∧ x.isTerm = true ∧ hasTerm l' = false ∧ s'.alive = false)

theorem LogShape.comp {s s1 s2 : St} {l1 l2 : List Lab} (h1 : LogShape s s1 l1)
    (hq : s1.alive = false → l2 = []) (h2 : LogShape s1 s2 l2) : LogShape s s2 (l1 ++ l2) := by
  rcases h1 with ⟨a1, b1⟩ | ⟨l', x, e1, hx, a1, b1⟩
  · rcases h2 with ⟨a2, b2⟩ | ⟨l'', y, e2, hy, a2, b2⟩
    · exact Or.inl ⟨by rw [hasTerm_append, a1, a2]; rfl, b2.trans b1⟩
    · refine Or.inr ⟨l1 ++ l'', y, by rw [e2, List.append_assoc], hy, ?_, b2⟩
      rw [hasTerm_append, a1, a2]; rfl
  · have hl2 := hq b1
    subst hl2
    rcases h2 with ⟨_, b2⟩ | ⟨l'', y, e2, _, _, _⟩
    · exact Or.inr ⟨l', x, by rw [List.append_nil]; exact e1, hx, a1, b2.trans b1⟩
    · have := congrArg List.length e2
      simp at this

theorem LogShape.congr_alive {s s0 s' : St} {l : List Lab} (h : s0.alive = s.alive)
    (hs : LogShape s0 s' l) : LogShape s s' l := by
  rcases hs with ⟨a, b⟩ | hs
  · exact Or.inl ⟨a, b.trans h⟩
  · exact Or.inr hs

theorem LogShape.nil (s : St) : LogShape s s [] := Or.inl ⟨rfl, rfl⟩

theorem LogShape.prepend {s s' : St} {l : List Lab} (a : List Lab) (ha : hasTerm a = false)
    (h : LogShape s s' l) : LogShape s s' (a ++ l) := by
  rcases h with ⟨a1, b1⟩ | ⟨l', x, e1, hx, a1, b1⟩
  · exact Or.inl ⟨by rw [hasTerm_append, ha, a1]; rfl, b1⟩
  · exact Or.inr ⟨a ++ l', x, by rw [e1, List.append_assoc], hx, by rw [hasTerm_append, ha, a1]; rfl, b1⟩

theorem drain_shape (f : Bool) (q : List Inst) : ∀ s : St,
    LogShape s (drain f s q).1 (drainL f s q) := by
  induction q with
  | nil =>
    intro s
    simp only [drain, drainL]
    split
    · exact Or.inr ⟨[], .out .complete, rfl, rfl, rfl, rfl⟩
    · exact Or.inl ⟨rfl, rfl⟩
  | cons i rest ih =>
    intro s
    simp only [drain, drainL]
    cases s.inner i.k with
    | hot j => exact Or.inl ⟨by simp [hasTerm_cons, Lab.isTerm], rfl⟩
    | cold xs fin =>
      simp only
      by_cases hc : (!f && (Inner.cold xs fin).touches) = true
      · simp only [hc, if_true]
        exact Or.inl ⟨by simp [hasTerm_cons, Lab.isTerm], rfl⟩
      · simp only [hc, Bool.false_eq_true, if_false]
        cases fin with
        | open_ => exact Or.inl ⟨by simp [hasTerm_cons, Lab.isTerm], rfl⟩
        | error e =>
          exact Or.inr ⟨.start i :: itemsL i.tag xs, .out (.error e), rfl, rfl,
            by simp [hasTerm_cons, Lab.isTerm], rfl⟩
        | complete =>
          have := ih { s with completed := s.completed + 1, started := s.started + 1 }
          exact LogShape.congr_alive rfl (LogShape.prepend (Lab.start i :: itemsL i.tag xs)
            (by simp [hasTerm_cons, Lab.isTerm]) this)

theorem innerComplete_shape (f : Bool) (s : St) :
    LogShape s (innerComplete f s).1 (innerCompleteL f s) := by
  unfold innerComplete innerCompleteL
  split
  · exact drain_shape f s.queue s
  · exact LogShape.nil s

theorem completeAll_shape (f : Bool) (ts : List (Nat × Nat)) : ∀ s : St,
    LogShape s (completeAll f s ts).1 (completeAllL f s ts) := by
  induction ts with
  | nil => intro s; exact LogShape.nil s
  | cons p r ih =>
    intro s
    simp only [completeAll, completeAllL]
    have h1 := innerComplete_shape f s
    split
    · exact h1
    · exact h1.comp (fun ha => (completeAll_dead f r _ ha).2) (ih _)

theorem startTop_shape (f : Bool) (s : St) (i : Inst) :
    LogShape s (startTop f s i).1 (startTopL f s i) := by
  simp only [startTop, startTopL]
  cases St.inner { s with started := s.started + 1 } i.k with
  | hot j => exact Or.inl ⟨by simp [hasTerm_cons, Lab.isTerm], rfl⟩
  | cold xs fin =>
    simp only
    cases fin with
    | open_ => exact Or.inl ⟨by simp [hasTerm_cons, Lab.isTerm], rfl⟩
    | error e =>
      exact Or.inr ⟨.start i :: itemsL i.tag xs, .out (.error e), rfl, rfl,
        by simp [hasTerm_cons, Lab.isTerm], rfl⟩
    | complete =>
      have := drain_shape f s.queue { s with started := s.started + 1 }
      exact LogShape.congr_alive rfl (LogShape.prepend (Lab.start i :: itemsL i.tag xs)
        (by simp [hasTerm_cons, Lab.isTerm]) this)

theorem stepG_shape (f : Bool) (s : St) (ev : Ev) : LogShape s (stepG f s ev).1 (stepL f s ev) := by
  unfold stepG stepL
  split
  · exact LogShape.nil s
  · cases ev with
    | outerNext k =>
      simp only [outerNext, outerNextL]
      split
      · exact LogShape.nil s
      · split
        · exact Or.inl ⟨rfl, rfl⟩
        · split
          · have := startTop_shape f
              { s with arrivals := s.arrivals + 1, subscribed := s.subscribed + 1 } ⟨s.arrivals, k⟩
            exact LogShape.prepend [Lab.arrive ⟨s.arrivals, k⟩] rfl this
          · exact Or.inl ⟨rfl, rfl⟩
    | outerError e =>
      simp only [outerError]
      split
      · exact LogShape.nil s
      · split
        · exact Or.inr ⟨[], .out (.error e), rfl, rfl, rfl, rfl⟩
        · rename_i ha; exact Or.inl ⟨rfl, rfl⟩
    | outerComplete =>
      simp only [outerComplete]
      split
      · exact LogShape.nil s
      · split
        · split
          · exact Or.inr ⟨[], .out .complete, rfl, rfl, rfl, rfl⟩
          · exact Or.inl ⟨rfl, rfl⟩
        · exact Or.inl ⟨rfl, rfl⟩
    | innerNext j v =>
      simp only [hotNext]
      split
      · exact LogShape.nil s
      · split
        · exact Or.inl ⟨hasTerm_map_items _ _, rfl⟩
        · exact Or.inl ⟨rfl, rfl⟩
    | innerError j e =>
      simp only [hotError]
      split
      · exact LogShape.nil s
      · have ho := errorAll_out e (targets s j)
          { s with dead := j :: s.dead, subs := s.subs.filter (fun p => !(p.1 == j)) }
        rw [ho.1]
        by_cases hc : s.alive = true ∧ targets s j ≠ []
        · rw [if_pos hc]
          refine Or.inr ⟨[], .out (.error e), rfl, rfl, rfl, ?_⟩
          rw [ho.2.1]
          cases htt : targets s j with
          | nil => exact absurd htt hc.2
          | cons a b => simp
        · rw [if_neg hc]
          refine Or.inl ⟨rfl, ?_⟩
          rw [ho.2.1]
          by_cases ha : s.alive = true
          · have : targets s j = [] := by
              cases htt : targets s j with
              | nil => rfl
              | cons a b => exact absurd ⟨ha, by simp [htt]⟩ hc
            simp [this]
          · simp [ha]
    | innerComplete j =>
      simp only [hotComplete, hotCompleteL]
      split
      · exact LogShape.nil s
      · exact completeAll_shape f _ _
    | unsub => exact Or.inl ⟨rfl, rfl⟩

theorem runG_shape (f : Bool) (evs : List Ev) : ∀ s : St,
    LogShape s (runG f s evs).1 (runL f s evs) := by
  induction evs with
  | nil => intro s; exact LogShape.nil s
  | cons ev r ih =>
    intro s
    simp only [runG, runL]
    exact (stepG_shape f s ev).comp (fun ha => (runG_deadO f r _ ha).1) (ih _)

/-! ### Where an error can come from -/

/-- Instance `i` is a cold inner whose script ends with the error `e`. -/
def ColdErr (s : St) (i : Inst) (e : Err) : Prop := ∃ xs, s.inner i.k = .cold xs (.error e)

theorem mem_itemsL_ne_error (tag : Nat) (xs : List Val) (e : Err) :
    Lab.out (.error e) ∉ itemsL tag xs := by
  unfold itemsL; simp

theorem drain_err_src (f : Bool) (e : Err) (q : List Inst) : ∀ s : St,
    Lab.out (.error e) ∈ drainL f s q → ∃ i, Lab.start i ∈ drainL f s q ∧ ColdErr s i e := by
  induction q with
  | nil => intro s; simp only [drainL]; split <;> simp
  | cons i rest ih =>
    intro s
    simp only [drainL]
    cases hin : s.inner i.k with
    | hot j => simp
    | cold xs fin =>
      simp only
      by_cases hc : (!f && (Inner.cold xs fin).touches) = true
      · simp [hc]
      · simp only [hc, Bool.false_eq_true, if_false]
        cases fin with
        | open_ => simp [mem_itemsL_ne_error]
        | error e' =>
          intro h
          have : e = e' := by simpa [mem_itemsL_ne_error] using h
          subst this
          exact ⟨i, List.mem_cons_self .., xs, hin⟩
        | complete =>
          intro h
          have h' : Lab.out (.error e) ∈ drainL f
              { s with completed := s.completed + 1, started := s.started + 1 } rest := by
            simpa [mem_itemsL_ne_error] using h
          obtain ⟨i', hi', hc'⟩ := ih _ h'
          exact ⟨i', List.mem_cons_of_mem _ (List.mem_append_right _ hi'), hc'⟩

theorem completeAll_err_src (f : Bool) (e : Err) (ts : List (Nat × Nat)) : ∀ s : St,
    Lab.out (.error e) ∈ completeAllL f s ts →
    ∃ i, Lab.start i ∈ completeAllL f s ts ∧ ColdErr s i e := by
  have hic : ∀ s : St, Lab.out (.error e) ∈ innerCompleteL f s →
      ∃ i, Lab.start i ∈ innerCompleteL f s ∧ ColdErr s i e := by
    intro s
    unfold innerCompleteL
    split
    · exact drain_err_src f e s.queue s
    · simp
  induction ts with
  | nil => intro s h; simp [completeAllL] at h
  | cons p r ih =>
    intro s
    simp only [completeAllL]
    split
    · exact hic s
    · intro h
      rw [List.mem_append] at h
      rcases h with h | h
      · obtain ⟨i, hi, hc⟩ := hic s h
        exact ⟨i, List.mem_append_left _ hi, hc⟩
      · obtain ⟨i, hi, xs, hc⟩ := ih _ h
        refine ⟨i, List.mem_append_right _ hi, xs, ?_⟩
        rw [← inner_of_inners (innerComplete_frame f s).1]; exact hc

theorem stepG_err_src (f : Bool) (e : Err) (s : St) (ev : Ev)
    (h : Lab.out (.error e) ∈ stepL f s ev) :
    ev = .outerError e ∨ (∃ j, ev = .innerError j e) ∨
      ∃ i, Lab.start i ∈ stepL f s ev ∧ ColdErr s i e := by
  unfold stepL at h ⊢
  by_cases hst : s.stuck = true
  · rw [if_pos hst] at h; simp at h
  · rw [if_neg hst] at h ⊢
    cases ev with
    | outerNext k =>
      refine Or.inr (Or.inr ?_)
      simp only [outerNextL] at h ⊢
      by_cases ho : (!s.outerOpen) = true
      · rw [if_pos ho] at h; simp at h
      · rw [if_neg ho] at h ⊢
        by_cases ha : (!s.alive) = true
        · rw [if_pos ha] at h; simp at h
        · rw [if_neg ha] at h ⊢
          by_cases hlt : s.subscribed < s.concurrent
          · rw [if_pos hlt] at h ⊢
            simp only [startTopL, List.mem_cons] at h ⊢
            have hinner : St.inner
                { s with arrivals := s.arrivals + 1, subscribed := s.subscribed + 1,
                         started := s.started + 1 } k = s.inner k := rfl
            simp only [hinner] at h ⊢
            rcases h with h | h | h
            · cases h
            · cases h
            · cases hin : s.inner k with
              | hot j => simp [hin] at h
              | cold xs fin =>
                simp only [hin] at h ⊢
                cases fin with
                | open_ => simp [mem_itemsL_ne_error] at h
                | error e' =>
                  simp only at h ⊢
                  have : e = e' := by simpa [mem_itemsL_ne_error] using h
                  subst this
                  exact ⟨⟨s.arrivals, k⟩, by simp, xs, hin⟩
                | complete =>
                  simp only at h ⊢
                  have h' : Lab.out (.error e) ∈ drainL f
                      { s with arrivals := s.arrivals + 1, subscribed := s.subscribed + 1,
                               started := s.started + 1 } s.queue := by
                    simpa [mem_itemsL_ne_error] using h
                  obtain ⟨i', hi', hc'⟩ := drain_err_src f e s.queue _ h'
                  exact ⟨i', by simp [hi'], hc'⟩
          · rw [if_neg hlt] at h; simp at h
    | outerError e' =>
      left
      simp only [outerError] at h
      split at h
      · simp at h
      · split at h
        · have : e = e' := by simpa using h
          rw [this]
        · simp at h
    | outerComplete =>
      simp only [outerComplete] at h
      split at h
      · simp at h
      · split at h
        · split at h <;> simp at h
        · simp at h
    | innerNext j v =>
      simp only [hotNext] at h
      split at h
      · simp at h
      · split at h <;> simp at h
    | innerError j e' =>
      right; left
      simp only [hotError] at h
      split at h
      · simp at h
      · have ho := errorAll_out e' (targets s j)
          { s with dead := j :: s.dead, subs := s.subs.filter (fun p => !(p.1 == j)) }
        rw [ho.1] at h
        split at h
        · have : e = e' := by simpa using h
          exact ⟨j, by rw [this]⟩
        · simp at h
    | innerComplete j =>
      refine Or.inr (Or.inr ?_)
      simp only [hotCompleteL] at h ⊢
      by_cases hd : s.dead.contains j = true
      · rw [if_pos hd] at h; simp at h
      · rw [if_neg hd] at h ⊢
        exact completeAll_err_src f e (targets s j)
          { s with dead := j :: s.dead, subs := s.subs.filter (fun p => !(p.1 == j)) } h
    | unsub => simp at h

theorem runG_err_src (f : Bool) (e : Err) (evs : List Ev) : ∀ s : St,
    Lab.out (.error e) ∈ runL f s evs →
    .outerError e ∈ evs ∨ (∃ j, .innerError j e ∈ evs) ∨
      ∃ i, Lab.start i ∈ runL f s evs ∧ ColdErr s i e := by
  induction evs with
  | nil => intro s h; simp [runL] at h
  | cons ev r ih =>
    intro s h
    simp only [runL, List.mem_append] at h ⊢
    rcases h with h | h
    · rcases stepG_err_src f e s ev h with h | ⟨j, h⟩ | ⟨i, hi, hc⟩
      · exact Or.inl (by rw [h]; exact List.mem_cons_self ..)
      · exact Or.inr (Or.inl ⟨j, by rw [h]; exact List.mem_cons_self ..⟩)
      · exact Or.inr (Or.inr ⟨i, Or.inl hi, hc⟩)
    · rcases ih _ h with h | ⟨j, h⟩ | ⟨i, hi, xs, hc⟩
      · exact Or.inl (List.mem_cons_of_mem _ h)
      · exact Or.inr (Or.inl ⟨j, List.mem_cons_of_mem _ h⟩)
      · refine Or.inr (Or.inr ⟨i, Or.inr hi, xs, ?_⟩)
        rw [← inner_of_inners (stepG_frame f s ev).1]; exact hc

theorem mem_outs_iff (o : Out) (l : List Lab) : o ∈ outs l ↔ Lab.out o ∈ l := by
  induction l with
  | nil => simp [outs]
  | cons x r ih => cases x <;> simp [outs, ih]

end Rx.MergeAll
