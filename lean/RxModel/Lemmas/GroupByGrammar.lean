import RxModel.Lemmas.GroupBy
import RxModel.Lemmas.St1WF
/-
  Helper lemmas for C01M / C02M (group_by): projections of the suite world's
  log to the outer stream and to each group, counting of live subscribers.
-/
namespace Rx
namespace GroupBy

/-- What the outer probe receives. -/
def outerLog : List Out → List Notif
  | [] => []
  | .outer n :: r => n :: outerLog r
  | .grp _ _ :: r => outerLog r

/-- What the subscriber(s) of group `k` receive. -/
def grpLog (k : Val) : List Out → List Notif
  | [] => []
  | .grp k' n :: r => if k' = k then n :: grpLog k r else grpLog k r
  | .outer _ :: r => grpLog k r

theorem outerLog_append (a b : List Out) : outerLog (a ++ b) = outerLog a ++ outerLog b := by
  induction a with
  | nil => rfl
  | cons x r ih => cases x <;> simp [outerLog, ih]

theorem grpLog_append (k : Val) (a b : List Out) : grpLog k (a ++ b) = grpLog k a ++ grpLog k b := by
  induction a with
  | nil => rfl
  | cons x r ih =>
    cases x with
    | outer n => simp [grpLog, ih]
    | grp k' n => by_cases h : k' = k <;> simp [grpLog, h, ih]

theorem outerLog_map_outer (ns : List Notif) : outerLog (ns.map Out.outer) = ns := by
  induction ns with
  | nil => rfl
  | cons n r ih => simp [outerLog, ih]

theorem outerLog_map_grp (k : Val) (ns : List Notif) : outerLog (ns.map (Out.grp k)) = [] := by
  induction ns with
  | nil => rfl
  | cons n r ih => simp [outerLog, ih]

theorem grpLog_map_outer (k : Val) (ns : List Notif) : grpLog k (ns.map Out.outer) = [] := by
  induction ns with
  | nil => rfl
  | cons n r ih => simp [grpLog, ih]

theorem grpLog_map_grp (k k' : Val) (ns : List Notif) :
    grpLog k (ns.map (Out.grp k')) = if k' = k then ns else [] := by
  induction ns with
  | nil => simp [grpLog]
  | cons n r ih => by_cases h : k' = k <;> simp_all [grpLog]

/-! ### the outer operators -/

theorem pushOuter_outer (o : List Out) : ∀ ch : List St1,
    (pushOuter ch o).1 = (runChain ch (outerLog o)).1 ∧
    outerLog (pushOuter ch o).2 = (runChain ch (outerLog o)).2 := by
  induction o with
  | nil => intro ch; simp [pushOuter, outerLog, runChain_nil]
  | cons x r ih =>
    intro ch
    cases x with
    | outer n =>
      have h := ih (runChain ch [n]).1
      have happ := runChain_append ch [n] (outerLog r)
      simp only [List.singleton_append] at happ
      simp only [pushOuter, outerLog, outerLog_append, outerLog_map_outer, happ, h.1, h.2,
        and_self]
    | grp k n =>
      have h := ih ch
      simp only [pushOuter, outerLog, h.1, h.2, and_self]

theorem pushOuter_grp (k : Val) (o : List Out) : ∀ ch : List St1,
    grpLog k (pushOuter ch o).2 = grpLog k o := by
  induction o with
  | nil => intro ch; simp [pushOuter]
  | cons x r ih =>
    intro ch
    cases x with
    | outer n => simp [pushOuter, grpLog, grpLog_append, grpLog_map_outer, ih]
    | grp k' n => by_cases h : k' = k <;> simp [pushOuter, grpLog, h, ih]

/-! ### live subscribers of a group subject -/

def liveCnt : List Slot → Nat
  | [] => 0
  | sl :: r => (if sl.alive then 1 else 0) + liveCnt r

theorem liveCnt_append (a b : List Slot) : liveCnt (a ++ b) = liveCnt a + liveCnt b := by
  induction a with
  | nil => simp [liveCnt]
  | cons x r ih => simp [liveCnt, ih]; omega

theorem liveCnt_map_dead (l : List Slot) : liveCnt (l.map fun _ => (⟨false⟩ : Slot)) = 0 := by
  induction l with
  | nil => rfl
  | cons x r ih => simp [liveCnt, ih]

/-- Subscribers of the subject that a broadcast reaches (after `load`). -/
def Subj.live (s : Subj) : Nat :=
  match s.observers with
  | some os => liveCnt (os ++ s.chamber)
  | none => 0

theorem deliver_eq (v : Val) (l : List Slot) :
    Subj.deliver v l = List.replicate (liveCnt l) (.next v) := by
  induction l with
  | nil => rfl
  | cons sl r ih =>
    cases h : sl.alive
    · simp [Subj.deliver, liveCnt, h, ih]
    · simp only [Subj.deliver, liveCnt, h, ih, if_true, Nat.add_comm 1, List.replicate_succ,
        List.singleton_append]

theorem deliverTerm_eq (t : Notif) (l : List Slot) :
    Subj.deliverTerm t l = List.replicate (liveCnt l) t := by
  induction l with
  | nil => rfl
  | cons sl r ih =>
    cases h : sl.alive
    · simp [Subj.deliverTerm, liveCnt, h, ih]
    · simp only [Subj.deliverTerm, liveCnt, h, ih, if_true, Nat.add_comm 1, List.replicate_succ,
        List.singleton_append]

theorem Subj.next_out (s : Subj) (v : Val) : (s.next v).2 = List.replicate s.live (.next v) := by
  cases s with
  | mk obs ch =>
    cases obs with
    | none => simp [Subj.next, Subj.load, Subj.live]
    | some os => simp [Subj.next, Subj.load, Subj.live, deliver_eq]

theorem Subj.next_live (s : Subj) (v : Val) : (s.next v).1.live = s.live := by
  cases s with
  | mk obs ch =>
    cases obs with
    | none => simp [Subj.next, Subj.load, Subj.live]
    | some os => simp [Subj.next, Subj.load, Subj.live]

theorem Subj.term_out (s : Subj) (t : Notif) : (s.term t).2 = List.replicate s.live t := by
  cases s with
  | mk obs ch =>
    cases obs with
    | none => simp [Subj.term, Subj.load, Subj.live]
    | some os => simp [Subj.term, Subj.load, Subj.live, deliverTerm_eq]

theorem Subj.unsubAll_live (s : Subj) : s.unsubAll.live = 0 := by
  cases s with
  | mk obs ch =>
    cases obs with
    | none => simp [Subj.unsubAll, Subj.live]
    | some os =>
      simp only [Subj.unsubAll, Subj.live, Option.map_some, ← List.map_append]
      exact liveCnt_map_dead _

theorem Subj.new_live : Subj.new.live = 0 := rfl
theorem Subj.new_subscribe_live : Subj.new.subscribe.live = 1 := rfl

/-- Live subscribers registered under key `k` in the map. -/
def total (k : Val) : List (Val × Subj) → Nat
  | [] => 0
  | ks :: r => (if ks.1 = k then ks.2.live else 0) + total k r

theorem total_append (k : Val) (a b : List (Val × Subj)) :
    total k (a ++ b) = total k a + total k b := by
  induction a with
  | nil => simp [total]
  | cons x r ih => simp [total, ih]; omega

theorem total_perm (k : Val) {a b : List (Val × Subj)} (h : a.Perm b) : total k a = total k b := by
  induction h with
  | nil => rfl
  | cons x _ ih => simp [total, ih]
  | swap x y l => simp [total]; omega
  | trans _ _ ih1 ih2 => exact ih1.trans ih2

theorem find_none_total (k : Val) (l : List (Val × Subj)) (h : find k l = none) : total k l = 0 := by
  induction l with
  | nil => rfl
  | cons x r ih =>
    obtain ⟨k', s⟩ := x
    by_cases hk : k' = k
    · simp [find, hk] at h
    · simp only [find, hk, if_false] at h
      simp [total, hk, ih h]

theorem total_replace (k k' : Val) (s s' : Subj) (l : List (Val × Subj))
    (h : find k l = some s) (hl : s'.live ≤ s.live) :
    total k' (replace k s' l) ≤ total k' l := by
  induction l with
  | nil => simp [find] at h
  | cons x r ih =>
    obtain ⟨k1, s1⟩ := x
    by_cases hk : k1 = k
    · simp only [find, hk, if_true, Option.some.injEq] at h
      subst h
      simp only [replace, hk, if_true, total]
      split <;> omega
    · simp only [find, hk, if_false] at h
      simp only [replace, hk, if_false, total]
      have := ih h
      omega

theorem find_replace_self (k : Val) (s s' : Subj) (l : List (Val × Subj))
    (h : find k l = some s) : find k (replace k s' l) = some s' := by
  induction l with
  | nil => simp [find] at h
  | cons x r ih =>
    obtain ⟨k1, s1⟩ := x
    by_cases hk : k1 = k
    · simp [replace, find, hk]
    · simp only [find, hk, if_false] at h
      simp [replace, find, hk, ih h]

theorem drainOut_cons (t : Notif) (x : Val × Subj) (r : List (Val × Subj)) :
    drainOut t (x :: r) = (x.2.term t).2.map (Out.grp x.1) ++ drainOut t r := by
  simp [drainOut]

theorem grpLog_drainOut (k : Val) (t : Notif) (l : List (Val × Subj)) :
    grpLog k (drainOut t l) = List.replicate (total k l) t := by
  induction l with
  | nil => rfl
  | cons x r ih =>
    rw [drainOut_cons, grpLog_append, grpLog_map_grp, ih, Subj.term_out, total]
    split <;> simp [List.replicate_append_replicate]

theorem outerLog_drainOut (t : Notif) (l : List (Val × Subj)) : outerLog (drainOut t l) = [] := by
  induction l with
  | nil => rfl
  | cons x r ih => rw [drainOut_cons, outerLog_append, outerLog_map_grp, ih]; rfl

/-! ### the observer -/

/-- Every key has at most one live subscriber. -/
def GI (st : St) : Prop := ∀ k, total k st.subjects ≤ 1

theorem GI_init : GI St.init := fun _ => Nat.zero_le _

theorem onNext_GI (key : Val → Val) (attach : Bool) (st : St) (v : Val) (h : GI st) :
    GI (st.onNext key attach v).1 := by
  intro k'
  simp only [St.onNext]
  split
  · rename_i subj hf
    have := total_replace (key v) k' subj (subj.next v).1 st.subjects hf
      (Nat.le_of_eq (Subj.next_live subj v))
    exact Nat.le_trans this (h k')
  · rename_i hf
    simp only [total_append, total]
    by_cases hk : key v = k'
    · subst hk
      have h0 := find_none_total _ _ hf
      cases attach <;> simp [h0, Subj.next_live, Subj.new_live, Subj.new_subscribe_live]
    · have := h k'
      simp [hk]; exact this

theorem onNext_grpLog (key : Val → Val) (attach : Bool) (st : St) (v : Val) (k : Val) :
    ∃ m, grpLog k (st.onNext key attach v).2 = List.replicate m (.next v) := by
  simp only [St.onNext]
  split
  · simp only [grpLog_map_grp, Subj.next_out]
    split
    · exact ⟨_, rfl⟩
    · exact ⟨0, rfl⟩
  · simp only [grpLog, grpLog_map_grp, Subj.next_out]
    split
    · exact ⟨_, rfl⟩
    · exact ⟨0, rfl⟩

theorem onNext_outerLog (key : Val → Val) (attach : Bool) (st : St) (v : Val) :
    ∃ m, outerLog (st.onNext key attach v).2 = List.replicate m (.next (key v)) := by
  simp only [St.onNext]
  split
  · exact ⟨0, by simp [outerLog_map_grp]⟩
  · exact ⟨1, by simp [outerLog, outerLog_map_grp]⟩

theorem unsubGroup_GI (st : St) (k : Val) (h : GI st) : GI (st.unsubGroup k) := by
  intro k'
  simp only [St.unsubGroup]
  split
  · rename_i s hf
    have := total_replace k k' s s.unsubAll st.subjects hf (by rw [Subj.unsubAll_live]; exact Nat.zero_le _)
    exact Nat.le_trans this (h k')
  · exact h k'

theorem WF_replicate_next (m : Nat) (v : Val) (r : List Notif) :
    WF (List.replicate m (.next v) ++ r) ↔ WF r := by
  induction m with
  | zero => simp
  | succ m ih => simpa [List.replicate_succ] using ih

theorem replicate_next_eq (m : Nat) (v : Val) :
    List.replicate m (Notif.next v) = (List.replicate m v).map Notif.next := by
  simp

theorem WF_replicate_le_one (m : Nat) (t : Notif) (h : m ≤ 1) : WF (List.replicate m t) := by
  match m, h with
  | 0, _ => simp
  | 1, _ => exact WF_single t

end GroupBy
end Rx
