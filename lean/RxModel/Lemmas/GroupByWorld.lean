import RxModel.Lemmas.GroupByGrammar
/-
  Helper lemmas for C01M / C02M (group_by): the suite world, all histories.
-/
namespace Rx
namespace GroupBy

variable (key : Val → Val) (ord : List (Val × Subj) → List (Val × Subj))

theorem World.run_append (a b : List Ev) : ∀ w : World,
    World.run key ord w (a ++ b) =
      ((World.run key ord (World.run key ord w a).1 b).1,
       (World.run key ord w a).2 ++ (World.run key ord (World.run key ord w a).1 b).2) := by
  induction a with
  | nil => intro w; simp [World.run]
  | cons e r ih => intro w; simp [World.run, ih, List.append_assoc]

/-- An emptied `Subscriber` slot: nothing is delivered any more. -/
theorem step_dead (w : World) (h : w.slot = none) (e : Ev) :
    (w.step key ord e).2 = [] ∧ (w.step key ord e).1.slot = none := by
  cases e with
  | emit n =>
    cases n <;> (simp only [World.step, h]; split <;> simp [h])
  | unsub => simp [World.step]
  | gunsub k => simp [World.step, h]

theorem run_dead (evs : List Ev) : ∀ w : World, w.slot = none →
    (World.run key ord w evs).2 = [] := by
  induction evs with
  | nil => intro w _; rfl
  | cons e r ih =>
    intro w h
    have := step_dead key ord w h e
    simp only [World.run, this.1, ih _ this.2, List.append_nil]

/-! ### groups -/

theorem world_grp_wf (hord : ∀ l, (ord l).Perm l) (k : Val) (evs : List Ev) : ∀ w : World,
    (∀ st, w.slot = some st → GI st) → WF (grpLog k (World.run key ord w evs).2) := by
  induction evs with
  | nil => intro w _; simp [World.run, grpLog]
  | cons e r ih =>
    intro w hw
    simp only [World.run, grpLog_append]
    obtain ⟨sd, sl, ch, sk⟩ := w
    cases sl with
    | none =>
      have h1 := step_dead key ord ⟨sd, none, ch, sk⟩ rfl e
      have h2 := run_dead key ord r _ h1.2
      simp [h1.1, h2, grpLog]
    | some st =>
      have hst : GI st := hw st rfl
      cases e with
      | emit n =>
        cases n with
        | next v =>
          simp only [World.step]
          split
          · exact (by simpa [grpLog] using ih _ hw)
          · simp only [pushOuter_grp]
            obtain ⟨m, hm⟩ := onNext_grpLog key
              ((runChain ch [.next (key v)]).2.contains (.next (key v)) && !sk.contains (key v))
              st v k
            rw [hm, WF_replicate_next]
            apply ih
            intro st' h'
            simp only [Option.some.injEq] at h'
            subst h'
            exact onNext_GI key _ st v hst
        | error err =>
          simp only [World.step]
          split
          · exact (by simpa [grpLog] using ih _ hw)
          · rw [run_dead key ord r _ rfl]
            simp only [pushOuter_grp, St.onTerm, grpLog_append, grpLog_drainOut, grpLog,
              List.append_nil, total_perm k (hord st.subjects)]
            exact WF_replicate_le_one _ _ (hst k)
        | complete =>
          simp only [World.step]
          split
          · exact (by simpa [grpLog] using ih _ hw)
          · rw [run_dead key ord r _ rfl]
            simp only [pushOuter_grp, St.onTerm, grpLog_append, grpLog_drainOut, grpLog,
              List.append_nil, total_perm k (hord st.subjects)]
            exact WF_replicate_le_one _ _ (hst k)
      | unsub =>
        simp only [World.step]
        rw [run_dead key ord r _ rfl]
        simp [grpLog]
      | gunsub k' =>
        simp only [World.step, grpLog, List.nil_append]
        apply ih
        intro st' h'
        simp only [Option.map_some, Option.some.injEq] at h'
        subst h'
        exact unsubGroup_GI st k' hst

/-! ### outer stream -/

/-- The outer probe's log is what the outer operators make of a well-formed
    stream of announcements. -/
theorem world_outer (evs : List Ev) : ∀ w : World,
    ∃ X, WF X ∧ outerLog (World.run key ord w evs).2 = (runChain w.outer X).2 := by
  induction evs with
  | nil => intro w; exact ⟨[], by simp, by simp [World.run, outerLog, runChain_nil]⟩
  | cons e r ih =>
    intro w
    simp only [World.run, outerLog_append]
    obtain ⟨sd, sl, ch, sk⟩ := w
    cases sl with
    | none =>
      have h1 := step_dead key ord ⟨sd, none, ch, sk⟩ rfl e
      have h2 := run_dead key ord r _ h1.2
      exact ⟨[], by simp, by simp [h1.1, h2, outerLog, runChain_nil]⟩
    | some st =>
      cases e with
      | emit n =>
        cases n with
        | next v =>
          simp only [World.step]
          split
          · simpa [outerLog] using ih ⟨sd, some st, ch, sk⟩
          · generalize ((runChain ch [.next (key v)]).2.contains (.next (key v)) &&
              !sk.contains (key v)) = att
            obtain ⟨m, hm⟩ := onNext_outerLog key att st v
            have hp := pushOuter_outer (st.onNext key att v).2 ch
            obtain ⟨X, hX, hrun⟩ := ih ⟨sd, some (st.onNext key att v).1,
              (pushOuter ch (st.onNext key att v).2).1, sk⟩
            refine ⟨List.replicate m (.next (key v)) ++ X, (WF_replicate_next m _ X).2 hX, ?_⟩
            simp only at hrun ⊢
            rw [hrun, hp.2, hp.1, hm, runChain_append]
        | error err =>
          simp only [World.step]
          split
          · simpa [outerLog] using ih ⟨sd, some st, ch, sk⟩
          · rw [run_dead key ord r _ rfl]
            refine ⟨[.error err], by simp, ?_⟩
            simp only [St.onTerm]
            rw [(pushOuter_outer _ ch).2]
            simp [outerLog_append, outerLog_drainOut, outerLog]
        | complete =>
          simp only [World.step]
          split
          · simpa [outerLog] using ih ⟨sd, some st, ch, sk⟩
          · rw [run_dead key ord r _ rfl]
            refine ⟨[.complete], by simp, ?_⟩
            simp only [St.onTerm]
            rw [(pushOuter_outer _ ch).2]
            simp [outerLog_append, outerLog_drainOut, outerLog]
      | unsub =>
        simp only [World.step]
        rw [run_dead key ord r _ rfl]
        exact ⟨[], by simp, by simp [outerLog, runChain_nil]⟩
      | gunsub k' =>
        simp only [World.step, outerLog, List.nil_append]
        exact ih _

theorem world_outer_wf (evs : List Ev) (w : World) :
    WF (outerLog (World.run key ord w evs).2) := by
  obtain ⟨X, hX, h⟩ := world_outer key ord evs w
  rw [h]
  exact runChain_wf _ _ hX

end GroupBy
end Rx
