import RxModel.Sched.Chain
import RxModel.Lemmas.SchedStep
/-
  C02 / C17 over the chain (time) model, part 1: vocabulary.

  * `Task.live`: the task may still run its body; `Body.level`: the stage a task
    belongs to (`j + 1` for stage `j`, `0` for the source);
  * `Stage.handles`: the task handles a stage holds; `Stage.subH`: the handle of a
    subscribe_on stage; `Stage.n2`: the notifier part of a two-input stage;
  * `Good r a stages s`: the invariant of a subscribed, not yet unsubscribed world:
    every live task is held by a handle of its stage (`own`), and below a
    subscribe_on whose task has not run nothing is subscribed yet (`prist`).
    `r` = the subscribe task whose body is running right now (if any).
-/
namespace Rx.T
open Rx

def Task.live (t : Task) : Bool := !t.done && t.keepRunning

def Body.level : Body → Nat
  | .emit j _ => j + 1
  | .debounce j => j + 1
  | .throttle j => j + 1
  | .subscribe j => j + 1
  | .bufTick j => j + 1
  | .tickN j => j + 1
  | .timerSrc _ => 0
  | .tick => 0
  | .futureSrc => 0
  | .streamSrc => 0

def Body.isSub : Body → Bool
  | .subscribe _ => true
  | _ => false

/-- Sources that are driven by a scheduler task. -/
def TSrc.hasTask : TSrc → Bool
  | .hot _ => false
  | .cold _ => false
  | .iterc _ => false
  | _ => true

def TSrc.isHot : TSrc → Bool
  | .hot _ => true
  | _ => false

namespace Stage

/-- The task handles a stage holds. -/
def handles : Stage → List TaskId
  | .op1 _ => []
  | .delay _ _ m => m.getD []
  | .observeOn _ m => m.getD []
  | .subscribeOn _ t => t.toList
  | .debounce _ _ _ h => h.toList
  | .throttle _ _ _ _ h => h.toList
  | .throttleW _ _ _ _ => []
  | .bufTime _ _ _ _ t => t.toList
  | .op2n _ _ _ nt => nt.toList

/-- The handle of a subscribe_on / delay_subscription stage. -/
def subH : Stage → Option TaskId
  | .subscribeOn _ t => t
  | _ => none

def isSubOn : Stage → Bool
  | .subscribeOn _ _ => true
  | _ => false

/-- The second-input part of a two-input stage. -/
def n2 : Stage → Option (TSrc × Bool × Option TaskId)
  | .op2n _ ns na nt => some (ns, na, nt)
  | _ => none

def naOn : Stage → Bool
  | .op2n _ _ na _ => na
  | _ => false

/-- Shape facts of a stage of a not yet unsubscribed chain. -/
def wf : Stage → Prop
  | .delay _ _ m => m.isSome = true
  | .observeOn _ m => m.isSome = true
  | .op2n _ ns _ nt => nt.isSome = true → ns.hasTask = true
  | _ => True

/-- Initial per-subscription state of a stage (what `Driver/SuiteTime.lean` builds,
    with arbitrary operator parameters / cell contents). -/
def Initial : Stage → Prop
  | .op1 _ => True
  | .delay _ _ m => m = some []
  | .observeOn _ m => m = some []
  | .subscribeOn _ t => t = none
  | .debounce _ _ _ h => h = none
  | .throttle _ _ _ _ h => h = none
  | .throttleW _ _ _ _ => False
  | .bufTime _ _ _ _ t => t = none
  | .op2n _ _ na nt => na = false ∧ nt = none

end Stage

/-- The source part of a world. -/
structure Info where
  src : TSrc
  srcTask : Option TaskId
  srcAlive : Bool

def TW.info (w : TW) : Info := ⟨w.src, w.srcTask, w.srcAlive⟩

/-- Task `k` with body `b` is held by a handle of the stage it belongs to. -/
def Owned (a : Info) (stages : List Stage) (k : TaskId) (b : Body) : Prop :=
  match b.level with
  | 0 => a.srcTask = some k
  | j + 1 => ∃ st, stages[j]? = some st ∧ k ∈ st.handles

/-- Nothing below stage `i` (and the source) has been subscribed. -/
def PristineBelow (a : Info) (stages : List Stage) (i : Nat) : Prop :=
  a.srcTask = none ∧ a.srcAlive = false ∧
    ∀ (j : Nat) (st : Stage), j < i → stages[j]? = some st → st.handles = [] ∧ st.naOn = false

/-- The subscribe task `h` has run (or is the one running right now). -/
def ran (r : Option TaskId) (s : Sched) (h : TaskId) : Prop :=
  s.handleClosed h = true ∨ r = some h

/-- Every subscribe_on stage at index ≥ `l` has subscribed its upstream. -/
def Reached (r : Option TaskId) (stages : List Stage) (s : Sched) (l : Nat) : Prop :=
  ∀ (i : Nat) (st : Stage) (h : Nat), l ≤ i → stages[i]? = some st → st.subH = some h → ran r s h

structure Good (r : Option TaskId) (a : Info) (stages : List Stage) (s : Sched) : Prop where
  hv : ∀ (k : Nat) (t : Task), s.tasks[k]? = some t → t.hasValue = true → t.done = true
  own : ∀ (k : Nat) (t : Task), s.tasks[k]? = some t → t.live = true → Owned a stages k t.body
  hk : ∀ (j : Nat) (st : Stage) (h : Nat), stages[j]? = some st → h ∈ st.handles →
    ∃ t, s.tasks[h]? = some t ∧ t.body.level = j + 1 ∧ t.body.isSub = st.isSubOn
  hks : ∀ (h : Nat), a.srcTask = some h → ∃ t, s.tasks[h]? = some t ∧ t.body.level = 0
  prist : ∀ (i : Nat) (st : Stage) (h : Nat), stages[i]? = some st → st.subH = some h → ¬ ran r s h → PristineBelow a stages i
  wf : ∀ (j : Nat) (st : Stage), stages[j]? = some st → st.wf
  swf : a.srcTask.isSome = true → a.src.hasTask = true

/-- Tasks with a `subscribe` body are left alone. -/
def SubKeep (s s' : Sched) : Prop :=
  ∀ (k : Nat) (t : Task), s.tasks[k]? = some t → t.body.isSub = true → s'.tasks[k]? = some t

theorem SubKeep.refl (s : Sched) : SubKeep s s := fun _ _ h _ => h
theorem SubKeep.trans {a b c : Sched} (h1 : SubKeep a b) (h2 : SubKeep b c) : SubKeep a c :=
  fun k t h hb => h2 k t (h1 k t h hb) hb

theorem Reached.mono {r stages s l l'} (h : Reached r stages s l) (hl : l ≤ l') :
    Reached r stages s l' :=
  fun i st hh hi => h i st hh (Nat.le_trans hl hi)

theorem subH_mem_handles {st : Stage} {h} (e : st.subH = some h) : h ∈ st.handles ∧ st.isSubOn = true := by
  cases st <;> simp [Stage.subH] at e
  subst e; simp [Stage.handles, Stage.isSubOn]

theorem handleClosed_iff (s : Sched) (h : TaskId) :
    s.handleClosed h = true ↔ ∃ t, s.tasks[h]? = some t ∧ t.hasValue = true := by
  unfold Sched.handleClosed
  cases s.tasks[h]? <;> simp

/-- `ran` survives a sched change that leaves subscribe tasks alone. -/
theorem Good.ran_keep {r a stages s s'} (g : Good r a stages s) (hk : SubKeep s s')
    {i : Nat} {st : Stage} {h : Nat} (hs : stages[i]? = some st) (e : st.subH = some h) (hr : ran r s h) : ran r s' h := by
  rcases hr with hr | hr
  · left
    obtain ⟨t, ht, hv⟩ := (handleClosed_iff s h).1 hr
    obtain ⟨t', ht', _, hsub⟩ := g.hk i st h hs (subH_mem_handles e).1
    rw [ht] at ht'; cases ht'
    rw [(subH_mem_handles e).2] at hsub
    exact (handleClosed_iff s' h).2 ⟨t, hk h t ht hsub, hv⟩
  · right; exact hr

/-- A live task certifies that every subscribe_on above its stage has run. -/
theorem Good.reached_of_live {r a stages s} (g : Good r a stages s) {k : Nat} {t : Task}
    (ht : s.tasks[k]? = some t) (hl : t.live = true) : Reached r stages s t.body.level := by
  intro i st h hi hs e
  apply Classical.byContradiction
  intro hn
  obtain ⟨h1, _, h3⟩ := g.prist i st h hs e hn
  have ho := g.own k t ht hl
  unfold Owned at ho
  cases hlv : t.body.level with
  | zero => rw [hlv] at ho; simp only at ho; rw [h1] at ho; cases ho
  | succ j =>
    rw [hlv] at ho hi; simp only at ho
    obtain ⟨st', hs', hm⟩ := ho
    rw [(h3 j st' (by omega) hs').1] at hm; cases hm

theorem Good.reached_of_alive {r a stages s} (g : Good r a stages s) (h : a.srcAlive = true) :
    Reached r stages s 0 := by
  intro i st hh _ hs e
  apply Classical.byContradiction
  intro hn
  obtain ⟨_, h2, _⟩ := g.prist i st hh hs e hn
  rw [h] at h2; cases h2

theorem Good.reached_of_na {r a stages s} (g : Good r a stages s) {j : Nat} {st : Stage}
    (hs : stages[j]? = some st) (h : st.naOn = true) : Reached r stages s (j + 1) := by
  intro i st' hh hi hs' e
  apply Classical.byContradiction
  intro hn
  obtain ⟨_, _, h3⟩ := g.prist i st' hh hs' e hn
  rw [(h3 j st (by omega) hs).2] at h; cases h

end Rx.T
