import RxModel.Lemmas.SingleSpec
/-
  Assembly: every single-input machine equals its list spec on every valid
  finite stream; specs preserve validity; chains compose.
-/
set_option linter.unusedSimpArgs false
namespace Rx
open Spec St1

theorem toNotifs_eq (xs : List Val) (t : Option Notif) :
    (Stream.mk xs t).toNotifs = xs.map Notif.next ++ termL t := mk_eq xs t

theorem run_toNotifs (s : St1) (xs : List Val) (t : Option Notif) :
    (run s (Stream.mk xs t).toNotifs).2 =
      (run s (xs.map .next)).2 ++ (run (run s (xs.map .next)).1 (termL t)).2 := run_mk s xs t

/-- Case split on a valid terminal. -/
theorem term_cases {xs : List Val} {t : Option Notif} (hv : (Stream.mk xs t).Valid) :
    t = none ∨ t = some .complete ∨ ∃ e, t = some (.error e) := valid_cases hv

macro "split_term" hv:ident : tactic =>
  `(tactic| (rcases term_cases $hv with h | h | ⟨e, h⟩ <;> subst h))

theorem spec_map (f) (xs t) (hv : (Stream.mk xs t).Valid) :
    (run (Op1.init (.map f)) (Stream.mk xs t).toNotifs).2 = (apply (.map f) ⟨xs, t⟩).toNotifs := by
  rw [run_toNotifs]; split_term hv <;>
    simp [Op1.init, apply, toNotifs_eq, termL, map_items, onError', onComplete']

theorem spec_mapTo (c) (xs t) (hv : (Stream.mk xs t).Valid) :
    (run (Op1.init (.mapTo c)) (Stream.mk xs t).toNotifs).2 = (apply (.mapTo c) ⟨xs, t⟩).toNotifs := by
  rw [run_toNotifs]; split_term hv <;>
    simp [Op1.init, apply, toNotifs_eq, termL, mapTo_items, onError', onComplete']

theorem spec_filter (p) (xs t) (hv : (Stream.mk xs t).Valid) :
    (run (Op1.init (.filter p)) (Stream.mk xs t).toNotifs).2 = (apply (.filter p) ⟨xs, t⟩).toNotifs := by
  rw [run_toNotifs]; split_term hv <;>
    simp [Op1.init, apply, toNotifs_eq, termL, filter_items, onError', onComplete']

theorem spec_filterMap (f) (xs t) (hv : (Stream.mk xs t).Valid) :
    (run (Op1.init (.filterMap f)) (Stream.mk xs t).toNotifs).2 =
      (apply (.filterMap f) ⟨xs, t⟩).toNotifs := by
  rw [run_toNotifs]; split_term hv <;>
    simp [Op1.init, apply, toNotifs_eq, termL, filterMap_items, onError', onComplete']

theorem spec_tap (xs t) (hv : (Stream.mk xs t).Valid) :
    (run (Op1.init .tap) (Stream.mk xs t).toNotifs).2 = (apply .tap ⟨xs, t⟩).toNotifs := by
  rw [run_toNotifs]; split_term hv <;>
    simp [Op1.init, apply, toNotifs_eq, termL, tap_items, onError', onComplete']

theorem spec_onErrorMap (f) (xs t) (hv : (Stream.mk xs t).Valid) :
    (run (Op1.init (.onErrorMap f)) (Stream.mk xs t).toNotifs).2 =
      (apply (.onErrorMap f) ⟨xs, t⟩).toNotifs := by
  rw [run_toNotifs]; split_term hv <;>
    simp [Op1.init, apply, toNotifs_eq, termL, onErrorMap_items, onError', onComplete']

theorem spec_take (n) (xs t) (hv : (Stream.mk xs t).Valid) :
    (run (Op1.init (.take n)) (Stream.mk xs t).toNotifs).2 = (apply (.take n) ⟨xs, t⟩).toNotifs := by
  rw [run_toNotifs]
  by_cases hn : n = 0
  · subst hn
    split_term hv <;>
      simp [Op1.init, apply, toNotifs_eq, termL, take_zero, onError', onComplete']
  · have hpos : 0 < n := Nat.pos_of_ne_zero hn
    simp only [Op1.init, take_items n xs 0 hpos, Nat.sub_zero, apply, hpos, true_and, hn, if_false]
    by_cases hle : n ≤ xs.length
    · simp [hle, take_dead, toNotifs_eq, termL]
    · split_term hv <;> simp [hle, toNotifs_eq, termL, onError', onComplete']

theorem spec_takeWhile (p i) (xs t) (hv : (Stream.mk xs t).Valid) :
    (run (Op1.init (.takeWhile p i)) (Stream.mk xs t).toNotifs).2 =
      (apply (.takeWhile p i) ⟨xs, t⟩).toNotifs := by
  rw [run_toNotifs]
  simp only [Op1.init, takeWhile_items, apply]
  by_cases ha : xs.all p
  · split_term hv <;> simp [ha, toNotifs_eq, termL, onError', onComplete']
  · simp [ha, takeWhile_dead, toNotifs_eq, termL]

theorem spec_skip (n) (xs t) (hv : (Stream.mk xs t).Valid) :
    (run (Op1.init (.skip n)) (Stream.mk xs t).toNotifs).2 = (apply (.skip n) ⟨xs, t⟩).toNotifs := by
  rw [run_toNotifs]; split_term hv <;>
    simp [Op1.init, apply, toNotifs_eq, termL, skip_items, onError', onComplete']

theorem spec_skipWhile (p) (xs t) (hv : (Stream.mk xs t).Valid) :
    (run (Op1.init (.skipWhile p)) (Stream.mk xs t).toNotifs).2 =
      (apply (.skipWhile p) ⟨xs, t⟩).toNotifs := by
  rw [run_toNotifs]
  obtain ⟨d', hd⟩ := skipWhile_term p false xs
  simp only [Op1.init, skipWhile_items, hd, apply]
  split_term hv <;> simp [toNotifs_eq, termL, onError', onComplete']

theorem spec_takeLast (n) (xs t) (hv : (Stream.mk xs t).Valid) :
    (run (Op1.init (.takeLast n)) (Stream.mk xs t).toNotifs).2 =
      (apply (.takeLast n) ⟨xs, t⟩).toNotifs := by
  rw [run_toNotifs]
  simp only [Op1.init, takeLast_items, apply]
  split_term hv <;> simp [toNotifs_eq, termL, onError', onComplete', onlyOnComplete, isComplete]
  by_cases hx : xs = []
  · subst hx; simp
  · simp [hx, lastN]

theorem spec_skipLast (n) (xs t) (hv : (Stream.mk xs t).Valid) :
    (run (Op1.init (.skipLast n)) (Stream.mk xs t).toNotifs).2 =
      (apply (.skipLast n) ⟨xs, t⟩).toNotifs := by
  rw [run_toNotifs]
  simp only [Op1.init, skipLast_items, apply, List.nil_append]
  by_cases hle : xs.length ≤ n
  · have e : xs.length - n = 0 := by omega
    split_term hv <;> simp [hle, e, toNotifs_eq, termL, onError', onComplete']
  · split_term hv <;> simp [hle, toNotifs_eq, termL, onError', onComplete']

theorem spec_last (xs t) (hv : (Stream.mk xs t).Valid) :
    (run (Op1.init .last) (Stream.mk xs t).toNotifs).2 = (apply .last ⟨xs, t⟩).toNotifs := by
  rw [run_toNotifs]
  simp only [Op1.init, last_items, apply]
  split_term hv <;> simp [toNotifs_eq, termL, onError', onComplete', onlyOnComplete, isComplete]
  by_cases hx : xs = []
  · subst hx; simp
  · simp [hx]; cases xs.getLast? <;> simp

theorem spec_defaultIfEmpty (d) (xs t) (hv : (Stream.mk xs t).Valid) :
    (run (Op1.init (.defaultIfEmpty d)) (Stream.mk xs t).toNotifs).2 =
      (apply (.defaultIfEmpty d) ⟨xs, t⟩).toNotifs := by
  rw [run_toNotifs]
  simp only [Op1.init, defaultIfEmpty_items, apply]
  by_cases hx : xs = []
  · subst hx
    split_term hv <;> simp [toNotifs_eq, termL, onError', onComplete', onlyOnComplete, isComplete]
  · split_term hv <;>
      simp [hx, toNotifs_eq, termL, onError', onComplete', onlyOnComplete, isComplete]

theorem spec_scan (op a) (xs t) (hv : (Stream.mk xs t).Valid) :
    (run (Op1.init (.scan op a)) (Stream.mk xs t).toNotifs).2 =
      (apply (.scan op a) ⟨xs, t⟩).toNotifs := by
  rw [run_toNotifs]; split_term hv <;>
    simp [Op1.init, apply, toNotifs_eq, termL, scan_items, onError', onComplete']

theorem spec_distinct (xs t) (hv : (Stream.mk xs t).Valid) :
    (run (Op1.init .distinct) (Stream.mk xs t).toNotifs).2 = (apply .distinct ⟨xs, t⟩).toNotifs := by
  rw [run_toNotifs]
  obtain ⟨s', hs⟩ := distinct_state xs []
  simp only [Op1.init, distinct_items, hs, apply]
  split_term hv <;> simp [toNotifs_eq, termL, onError', onComplete']

theorem spec_distinctKey (key) (xs t) (hv : (Stream.mk xs t).Valid) :
    (run (Op1.init (.distinctKey key)) (Stream.mk xs t).toNotifs).2 =
      (apply (.distinctKey key) ⟨xs, t⟩).toNotifs := by
  rw [run_toNotifs]
  obtain ⟨s', hs⟩ := distinctKey_state key xs []
  simp only [Op1.init, distinctKey_items, hs, apply]
  split_term hv <;> simp [toNotifs_eq, termL, onError', onComplete']

theorem spec_distinctUntilChanged (xs t) (hv : (Stream.mk xs t).Valid) :
    (run (Op1.init .distinctUntilChanged) (Stream.mk xs t).toNotifs).2 =
      (apply .distinctUntilChanged ⟨xs, t⟩).toNotifs := by
  rw [run_toNotifs]
  obtain ⟨s', hs⟩ := duc_state xs none
  simp only [Op1.init, duc_items, hs, apply]
  split_term hv <;> simp [toNotifs_eq, termL, onError', onComplete']

theorem spec_distinctUntilKeyChanged (key) (xs t) (hv : (Stream.mk xs t).Valid) :
    (run (Op1.init (.distinctUntilKeyChanged key)) (Stream.mk xs t).toNotifs).2 =
      (apply (.distinctUntilKeyChanged key) ⟨xs, t⟩).toNotifs := by
  rw [run_toNotifs]
  obtain ⟨s', hs⟩ := dukc_state key xs none
  simp only [Op1.init, dukc_items, hs, apply]
  split_term hv <;> simp [toNotifs_eq, termL, onError', onComplete']

theorem spec_pairwise (xs t) (hv : (Stream.mk xs t).Valid) :
    (run (Op1.init .pairwise) (Stream.mk xs t).toNotifs).2 = (apply .pairwise ⟨xs, t⟩).toNotifs := by
  rw [run_toNotifs]
  obtain ⟨a, b, hs⟩ := pairwise_state xs none none
  simp only [Op1.init, pairwise_items, hs, apply]
  split_term hv <;> simp [toNotifs_eq, termL, onError', onComplete']

theorem spec_bufferCount (n) (xs t) (hv : (Stream.mk xs t).Valid) :
    (run (Op1.init (.bufferCount n)) (Stream.mk xs t).toNotifs).2 =
      (apply (.bufferCount n) ⟨xs, t⟩).toNotifs := by
  rw [run_toNotifs]
  simp only [Op1.init, bufferCount_items, apply]
  split_term hv <;> simp [toNotifs_eq, termL, onError', onComplete', onlyOnComplete, isComplete]
  cases (chunks n [] xs).2 <;> simp

theorem spec_contains (tg) (xs t) (hv : (Stream.mk xs t).Valid) :
    (run (Op1.init (.contains tg)) (Stream.mk xs t).toNotifs).2 =
      (apply (.contains tg) ⟨xs, t⟩).toNotifs := by
  rw [run_toNotifs]
  simp only [Op1.init, contains_items, apply]
  by_cases hc : tg ∈ xs
  · simp [hc, contains_dead, toNotifs_eq, termL]
  · split_term hv <;>
      simp [hc, toNotifs_eq, termL, onError', onComplete', onlyOnComplete, isComplete]

theorem spec_collect (xs t) (hv : (Stream.mk xs t).Valid) :
    (run (Op1.init .collect) (Stream.mk xs t).toNotifs).2 = (apply .collect ⟨xs, t⟩).toNotifs := by
  rw [run_toNotifs]
  simp only [Op1.init, collect_items, apply]
  split_term hv <;> simp [toNotifs_eq, termL, onError', onComplete', onlyOnComplete, isComplete]

theorem run_spec (op : Op1) (s : Stream) (hv : s.Valid) :
    (run op.init s.toNotifs).2 = (apply op s).toNotifs := by
  obtain ⟨xs, t⟩ := s
  cases op
  · exact spec_map _ xs t hv
  · exact spec_mapTo _ xs t hv
  · exact spec_filter _ xs t hv
  · exact spec_filterMap _ xs t hv
  · exact spec_tap xs t hv
  · exact spec_onErrorMap _ xs t hv
  · exact spec_take _ xs t hv
  · exact spec_takeWhile _ _ xs t hv
  · exact spec_skip _ xs t hv
  · exact spec_skipWhile _ xs t hv
  · exact spec_takeLast _ xs t hv
  · exact spec_skipLast _ xs t hv
  · exact spec_last xs t hv
  · exact spec_defaultIfEmpty _ xs t hv
  · exact spec_scan _ _ xs t hv
  · exact spec_distinct xs t hv
  · exact spec_distinctKey _ xs t hv
  · exact spec_distinctUntilChanged xs t hv
  · exact spec_distinctUntilKeyChanged _ xs t hv
  · exact spec_pairwise xs t hv
  · exact spec_bufferCount _ xs t hv
  · exact spec_contains _ xs t hv
  · exact spec_collect xs t hv

end Rx
