import RxModel.Lemmas.CompositeKill
/-
  Worlds reached by histories that never put a composite into a composite are flat.
-/
namespace Rx.Comp

/-- every composite is as it was, or gone -/
def CellLe (w' w : W) : Prop := ∀ j, w'.cell j = w.cell j ∨ w'.cell j = none

theorem CellLe.refl (w : W) : CellLe w w := fun _ => Or.inl rfl
theorem CellLe.trans {a b c : W} (h₁ : CellLe a b) (h₂ : CellLe b c) : CellLe a c := by
  intro j
  cases h₁ j with
  | inr e => exact Or.inr e
  | inl e =>
    cases h₂ j with
    | inl e' => exact Or.inl (e.trans e')
    | inr e' => exact Or.inr (e.trans e')

theorem cellLe_of_eq {w' w : W} (h : ∀ j, w'.cell j = w.cell j) : CellLe w' w := fun j => Or.inl (h j)

theorem cellLe_setCell_none (w : W) (j : Nat) : CellLe (w.setCell j none) w := by
  intro j'
  by_cases hj : j' = j
  · subst hj
    by_cases h2 : j' < 2
    · exact Or.inr (cell_setCell_same w j' none h2)
    · exact Or.inr (cell_ge2 _ _ (by omega))
  · exact Or.inl (cell_setCell_ne w j j' none hj)

theorem unsubAt_cellLe (k : Nat → W → W) (hk : ∀ j w, CellLe (k j w) w) :
    ∀ (s : Sub) (w : W), CellLe (unsubAt k s w) w
  | .unit, w => CellLe.refl w
  | .leaf i, w => cellLe_of_eq (cell_kill w i)
  | .multi j, w => hk j w
  | .zip a b, w => (unsubAt_cellLe k hk b _).trans (unsubAt_cellLe k hk a w)

theorem foldl_cellLe (u : Sub → W → W) (hu : ∀ s w, CellLe (u s w) w) :
    ∀ (cs : List Child) (w : W), CellLe (cs.foldl (fun w c => unsubChild u c w) w) w
  | [], w => CellLe.refl w
  | c :: cs, w => by
    refine (foldl_cellLe u hu cs _).trans ?_
    cases c with
    | sub s => exact hu s w
    | task t => exact CellLe.refl w

theorem takeCell_cellLe (u : Sub → W → W) (hu : ∀ s w, CellLe (u s w) w) (j : Nat) (w : W) :
    CellLe (takeCell u j w) w := by
  unfold takeCell
  cases h : w.cell j with
  | none => exact CellLe.refl w
  | some cs => exact (foldl_cellLe u hu cs _).trans (cellLe_setCell_none w j)

theorem unsub_cellLe (s : Sub) (w : W) : CellLe (unsub s w) w :=
  unsubAt_cellLe _ (takeCell_cellLe _ (unsubAt_cellLe _ (takeCell_cellLe _
    (unsubAt_cellLe _ (fun _ w => CellLe.refl w))))) s w

theorem Flat.of_cellLe {w' w : W} (hw : Flat w) (h : CellLe w' w) : Flat w' := by
  intro j cs hc
  cases h j with
  | inl e => exact hw j cs (e ▸ hc)
  | inr e => rw [e] at hc; exact absurd hc (by simp)

/-- the operation puts no composite into a composite -/
def FlatOp : Op → Prop
  | .append _ s => s.flat = true
  | _ => True

theorem mem_markRan (s : Sub) : ∀ (cs : List Child), Child.sub s ∈ markRan cs → Child.sub s ∈ cs
  | [], h => by simp [markRan] at h
  | .task t :: cs, h => by
    simp only [markRan, List.mem_cons] at h
    cases h with
    | inl e => cases e
    | inr e => exact List.mem_cons_of_mem _ (mem_markRan s cs e)
  | .sub s' :: cs, h => by
    simp only [markRan, List.mem_cons] at h
    cases h with
    | inl e => rw [e]; exact List.mem_cons_self ..
    | inr e => exact List.mem_cons_of_mem _ (mem_markRan s cs e)

theorem appendChild_flat (m : Model) (j : Nat) (c : Child) (w : W) (hw : Flat w)
    (hc : ∀ s, c = .sub s → s.flat = true) : Flat (appendChild m j c w) := by
  unfold appendChild
  cases h : w.cell j with
  | some cs =>
    intro j' cs' hc'
    by_cases hj : j' = j
    · subst hj
      have h2 : j' < 2 := by
        by_cases h2 : j' < 2
        · exact h2
        · rw [cell_ge2 w j' (by omega)] at h; exact absurd h (by simp)
      rw [cell_setCell_same w j' _ h2] at hc'
      cases hc'
      intro s hs
      simp only [List.mem_append, List.mem_singleton] at hs
      cases hs with
      | inl e => exact hw j' cs h s e
      | inr e => exact hc s e.symm
    · rw [cell_setCell_ne w j j' _ hj] at hc'
      exact hw j' cs' hc'
  | none =>
    cases m <;> cases c <;> first
      | exact hw
      | exact hw.of_cellLe (unsub_cellLe _ w)
      | exact hw.of_cellLe (cellLe_of_eq (fun j => by
          match j with
          | 0 => rfl
          | 1 => rfl
          | (n + 2) => rfl))

theorem flat_of_cells_eq {w' w : W} (hw : Flat w) (h0 : w'.c0 = w.c0) (h1 : w'.c1 = w.c1) : Flat w' :=
  hw.of_cellLe (cellLe_of_eq (fun j => by
    match j with
    | 0 => exact h0
    | 1 => exact h1
    | (n + 2) => rfl))

theorem step_flat (m : Model) (w : W) (e : Op) (hw : Flat w) (he : FlatOp e) : Flat (step m w e).1 := by
  cases e with
  | append j s => exact appendChild_flat m j _ w hw (fun s' e => by cases e; exact he)
  | appendTask j tag =>
    exact appendChild_flat m j _ _ (flat_of_cells_eq hw rfl rfl) (fun s' e => by cases e)
  | unsub s => exact hw.of_cellLe (unsub_cellLe s w)
  | closed s => exact hw
  | retain j => exact hw
  | size j => exact hw
  | clone j =>
    match j with
    | 0 => exact flat_of_cells_eq hw rfl rfl
    | 1 => exact flat_of_cells_eq hw rfl rfl
    | (n + 2) => exact hw
  | guard s => exact flat_of_cells_eq hw rfl rfl
  | dropGuard k =>
    simp only [step]
    split
    · exact (flat_of_cells_eq hw rfl rfl).of_cellLe (unsub_cellLe _ _)
    · exact hw
  | emit v => exact hw
  | run =>
    intro j cs hc
    match j with
    | 0 =>
      have hc' : Option.map markRan w.c0 = some cs := hc
      cases h0 : w.c0 with
      | none => rw [h0] at hc'; cases hc'
      | some cs0 =>
        rw [h0] at hc'
        cases hc'
        exact fun s hs => hw 0 cs0 h0 s (mem_markRan s cs0 hs)
    | 1 =>
      have hc' : Option.map markRan w.c1 = some cs := hc
      cases h1 : w.c1 with
      | none => rw [h1] at hc'; cases hc'
      | some cs1 =>
        rw [h1] at hc'
        cases hc'
        exact fun s hs => hw 1 cs1 h1 s (mem_markRan s cs1 hs)
    | (n + 2) => exact absurd hc (by simp [W.cell])
  | unsubReapp j s =>
    cases m with
    | fixed => exact (hw.of_cellLe (unsub_cellLe (.multi j) w)).of_cellLe (unsub_cellLe s _)
    | code => exact hw.of_cellLe (unsub_cellLe (.multi j) w)

theorem run_flat (m : Model) : ∀ (es : List Op) (w : W), Flat w → (∀ e ∈ es, FlatOp e) → Flat (run m w es).1
  | [], _, hw, _ => hw
  | e :: es, w, hw, he => by
    simp only [run]
    exact run_flat m es _ (step_flat m w e hw (he e (List.mem_cons_self ..)))
      (fun e' h' => he e' (List.mem_cons_of_mem _ h'))

theorem flat_init (n : Nat) : Flat (init n) := by
  intro j cs hc
  match j with
  | 0 => cases hc; intro s hs; simp at hs
  | 1 => cases hc; intro s hs; simp at hs
  | (n + 2) => exact absurd hc (by simp [W.cell])

end Rx.Comp
