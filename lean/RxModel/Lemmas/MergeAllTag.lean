import RxModel.Lemmas.MergeAllStuck
/-
  Provenance: what the downstream receives from one cold inner instance
  (arrival tag `t`, table index `k`, script `xs`): nothing before it is
  dequeued, exactly `xs` (in order, once) from the moment it is.
-/
namespace Rx.MergeAll

/-- The items of the output that carry tag `t`. -/
def restrict (t : Nat) : List Out → List Val
  | [] => []
  | .item t' v :: r => if t' = t then v :: restrict t r else restrict t r
  | _ :: r => restrict t r

theorem restrict_append (t : Nat) (a b : List Out) :
    restrict t (a ++ b) = restrict t a ++ restrict t b := by
  induction a with
  | nil => rfl
  | cons o r ih =>
    cases o with
    | item t' v => by_cases h : t' = t <;> simp [restrict, h, ih]
    | error e => simp [restrict, ih]
    | complete => simp [restrict, ih]

theorem restrict_items_same (t : Nat) (xs : List Val) : restrict t (xs.map (Out.item t)) = xs := by
  induction xs with
  | nil => rfl
  | cons x r ih => simp [restrict, ih]

theorem restrict_items_ne (t t' : Nat) (xs : List Val) (h : t' ≠ t) :
    restrict t (xs.map (Out.item t')) = [] := by
  induction xs with
  | nil => rfl
  | cons x r ih => simp [restrict, h, ih]

theorem restrict_targets (t : Nat) (v : Val) (ts : List (Nat × Nat)) (h : ∀ p ∈ ts, p.2 ≠ t) :
    restrict t (ts.map (fun p => Out.item p.2 v)) = [] := by
  induction ts with
  | nil => rfl
  | cons p r ih =>
    have hp := h p (List.mem_cons_self ..)
    simp [restrict, hp, ih (fun q hq => h q (List.mem_cons_of_mem _ hq))]

/-- Number of queue entries with tag `t`. -/
def nTag (q : List Inst) (t : Nat) : Nat := (q.filter (fun i => i.tag == t)).length

theorem nTag_cons_same (i : Inst) (q : List Inst) (t : Nat) (h : i.tag = t) :
    nTag (i :: q) t = nTag q t + 1 := by simp [nTag, h]

theorem nTag_cons_ne (i : Inst) (q : List Inst) (t : Nat) (h : i.tag ≠ t) :
    nTag (i :: q) t = nTag q t := by simp [nTag, h]

theorem nTag_append (q : List Inst) (i : Inst) (t : Nat) :
    nTag (q ++ [i]) t = nTag q t + (if i.tag = t then 1 else 0) := by
  unfold nTag
  rw [List.filter_append, List.length_append]
  by_cases h : i.tag = t <;> simp [h]

/-- What is known about tag `t` (a cold instance of table entry `k`). -/
structure TagInv (s : St) (q : List Inst) (t k : Nat) : Prop where
  subs : ∀ p ∈ s.subs, p.2 ≠ t
  key : ∀ i ∈ q, i.tag = t → i.k = k
  cnt : nTag q t ≤ 1

/-- Effect of a piece of work on tag `t`: still known, not re-queued, and the
    script is delivered exactly if the instance left the queue. -/
def TagPost (xs : List Val) (t k : Nat) (q0 : List Inst) (r : St × List Out) : Prop :=
  TagInv r.1 r.1.queue t k ∧ nTag r.1.queue t ≤ nTag q0 t ∧
    restrict t r.2 = (if nTag q0 t = 1 ∧ nTag r.1.queue t = 0 then xs else [])

theorem tag_combine (xs : List Val) (n0 n1 n2 : Nat) (h0 : n0 ≤ 1) (h1 : n1 ≤ n0) (h2 : n2 ≤ n1) :
    (if n0 = 1 ∧ n1 = 0 then xs else []) ++ (if n1 = 1 ∧ n2 = 0 then xs else [])
      = if n0 = 1 ∧ n2 = 0 then xs else [] := by
  have : n0 = 0 ∨ n0 = 1 := by omega
  rcases this with rfl | rfl
  · have : n1 = 0 := by omega
    subst this
    have : n2 = 0 := by omega
    subst this; simp
  · have : n1 = 0 ∨ n1 = 1 := by omega
    rcases this with rfl | rfl
    · have : n2 = 0 := by omega
      subst this; simp
    · simp

theorem drain_tag (f : Bool) (xs : List Val) (fin : Fin) (t k : Nat) (q : List Inst) : ∀ s : St,
    TagInv s q t k → s.inner k = .cold xs fin → (drain f s q).1.stuck = false →
    TagPost xs t k q (drain f s q) := by
  induction q with
  | nil =>
    intro s h _ _
    simp only [drain]
    split
    · exact ⟨⟨h.subs, by simp, by simp [nTag]⟩, by simp [nTag], by simp [restrict, nTag]⟩
    · exact ⟨⟨h.subs, by simp, by simp [nTag]⟩, by simp [nTag], by simp [restrict, nTag]⟩
  | cons i rest ih =>
    intro s h hk hs
    have hcnt := h.cnt
    have hkey' : ∀ j ∈ rest, j.tag = t → j.k = k := fun j hj => h.key j (List.mem_cons_of_mem _ hj)
    have hinner : ∀ (c st : Nat) (kk : Nat),
        St.inner { s with completed := c, started := st } kk = s.inner kk := fun _ _ _ => rfl
    by_cases hi : i.tag = t
    · -- the instance itself is dequeued
      have hik : s.inner i.k = .cold xs fin := by rw [h.key i (List.mem_cons_self ..) hi]; exact hk
      rw [nTag_cons_same _ _ _ hi] at hcnt
      have hr0 : nTag rest t = 0 := by omega
      simp only [drain, hik] at hs ⊢
      split at hs
      · simp at hs
      · rename_i hnt
        rw [if_neg hnt]
        have hq1 : nTag (i :: rest) t = 1 := by rw [nTag_cons_same _ _ _ hi]; omega
        cases fin with
        | open_ =>
          simp only
          exact ⟨⟨h.subs, hkey', by show nTag rest t ≤ 1; omega⟩, by show nTag rest t ≤ nTag (i :: rest) t; omega,
            by simp only [hq1, hr0, and_self, if_true]; rw [hi]; exact restrict_items_same t xs⟩
        | error e =>
          simp only
          exact ⟨⟨h.subs, hkey', by show nTag rest t ≤ 1; omega⟩, by show nTag rest t ≤ nTag (i :: rest) t; omega,
            by simp only [hq1, hr0, and_self, if_true]; rw [hi, restrict_append, restrict_items_same]
               simp [restrict]⟩
        | complete =>
          simp only at hs ⊢
          have hp : TagInv { s with completed := s.completed + 1, started := s.started + 1 } rest t k :=
            ⟨h.subs, hkey', by omega⟩
          have := ih _ hp (by rw [hinner]; exact hk) hs
          have hle := this.2.1
          refine ⟨this.1, Nat.le_trans hle (by omega), ?_⟩
          rw [restrict_append, this.2.2, hi, restrict_items_same]
          have hz : nTag (drain f { s with completed := s.completed + 1, started := s.started + 1 }
              rest).1.queue t = 0 := by omega
          simp [hq1, hr0, hz]
    · -- another instance is dequeued
      rw [nTag_cons_ne _ _ _ hi] at hcnt
      have hq1 : nTag (i :: rest) t = nTag rest t := nTag_cons_ne _ _ _ hi
      simp only [drain] at hs ⊢
      split at hs
      · rename_i j hin
        refine ⟨⟨?_, hkey', hcnt⟩, by show nTag rest t ≤ nTag (i :: rest) t; omega, ?_⟩
        · intro p hp
          simp only [List.mem_append, List.mem_singleton] at hp
          rcases hp with hp | rfl
          · exact h.subs p hp
          · exact hi
        · simp only [restrict, hq1]
          split
          · omega
          · rfl
      · rename_i ys fin' hin
        split at hs
        · simp at hs
        · rename_i hnt
          rw [if_neg hnt]
          cases fin' with
          | open_ =>
            simp only
            refine ⟨⟨h.subs, hkey', hcnt⟩, by show nTag rest t ≤ nTag (i :: rest) t; omega, ?_⟩
            simp only [hq1, restrict_items_ne t i.tag ys hi]
            split
            · omega
            · rfl
          | error e =>
            simp only
            refine ⟨⟨h.subs, hkey', hcnt⟩, by show nTag rest t ≤ nTag (i :: rest) t; omega, ?_⟩
            simp only [hq1, restrict_append, restrict_items_ne t i.tag ys hi, restrict, List.append_nil]
            split
            · omega
            · rfl
          | complete =>
            simp only at hs ⊢
            have hp : TagInv { s with completed := s.completed + 1, started := s.started + 1 } rest t k :=
              ⟨h.subs, hkey', hcnt⟩
            have := ih _ hp (by rw [hinner]; exact hk) hs
            refine ⟨this.1, Nat.le_trans this.2.1 (by omega), ?_⟩
            rw [restrict_append, restrict_items_ne t i.tag ys hi, hq1]
            exact this.2.2

end Rx.MergeAll
