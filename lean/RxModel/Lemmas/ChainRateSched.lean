import RxModel.Sched.Chain
import RxModel.Lemmas.Sched
/-
  C09 (chain model): which task bodies can sit in the scheduler of a chain made
  of rate-limiting stages over a hot source.  A body is *benign* when running it
  can only touch the stage that scheduled it (debounce_task, throttle_task,
  emit_buffer, the slot calls of delay/observe_on, the notifier tick): it never
  feeds new items into the chain and never subscribes anything.  Every scheduler
  operation keeps the set of bodies, so "all bodies are benign" is an invariant
  of arbitrary executor behaviour.
-/
namespace Rx.T

/-- Bodies that do not feed the head of the chain and do not subscribe. -/
def Body.benign : Body → Bool
  | .subscribe _ => false
  | .timerSrc _ => false
  | .tick => false
  | .futureSrc => false
  | .streamSrc => false
  | _ => true

namespace Sched

/-- Every task of the scheduler carries a benign body. -/
def Benign (s : Sched) : Prop := ∀ t ∈ s.tasks, t.body.benign = true

theorem Benign.get {s : Sched} (h : s.Benign) {k : TaskId} {t : Task} (ht : s.tasks[k]? = some t) :
    t.body.benign = true := h t (List.mem_of_getElem? ht)

theorem Benign.setTask {s : Sched} (h : s.Benign) (k : TaskId) (t : Task)
    (ht : t.body.benign = true) : (s.setTask k t).Benign := by
  intro t' ht'
  rcases List.mem_or_eq_of_mem_set ht' with h' | h'
  · exact h t' h'
  · subst h'; exact ht

theorem Benign.of_tasks {s s' : Sched} (h : s.Benign) (e : s'.tasks = s.tasks) : s'.Benign := by
  intro t ht; rw [e] at ht; exact h t ht

theorem Benign.registerTimer {s : Sched} (h : s.Benign) (tm) : (s.registerTimer tm).Benign :=
  h.of_tasks (registerTimer_tasks s tm)

theorem Benign.newTimer {s : Sched} (h : s.Benign) (d k) : (s.newTimer d k).1.Benign :=
  h.of_tasks rfl

theorem Benign.now {s : Sched} (h : s.Benign) (n : Nat) : ({ s with now := n } : Sched).Benign :=
  h.of_tasks rfl

theorem Benign.cancel {s : Sched} (h : s.Benign) (k) : (s.cancel k).Benign := by
  unfold Sched.cancel
  split
  · next t ht => exact h.setTask k _ (h.get (t := t) ht)
  · exact h

theorem Benign.cancelOpt {s : Sched} (h : s.Benign) (o : Option TaskId) :
    (match o with | some k => s.cancel k | none => s).Benign := by
  cases o
  · exact h
  · exact h.cancel _

theorem Benign.finishOnce {s : Sched} (h : s.Benign) (k) : (s.finishOnce k).Benign := by
  unfold Sched.finishOnce
  split
  · next t ht => exact h.setTask k _ (h.get (t := t) ht)
  · exact h

theorem Benign.continueRepeat {s : Sched} (h : s.Benign) (k) : (s.continueRepeat k).Benign := by
  unfold Sched.continueRepeat
  split
  · next t ht =>
    split
    · exact ((h.newTimer _ _).registerTimer _).setTask k _ (h.get (t := t) ht)
    · exact h
  · exact h

theorem Benign.fire {s : Sched} (h : s.Benign) (tm) : (s.fire tm).Benign := by
  unfold Sched.fire
  split
  · exact h
  · next t ht =>
    have h1 : (s.setTimer tm { t with fired := true }).Benign := h.of_tasks rfl
    dsimp only
    split
    · split
      · next tk htk => exact h1.setTask _ _ (h1.get (t := tk) htk)
      · exact h1
    · exact h1

theorem Benign.fireAll {s : Sched} (h : s.Benign) (l : List TimerId) :
    (l.foldl Sched.fire s).Benign := by
  induction l generalizing s with
  | nil => exact h
  | cons a r ih => exact ih (h.fire a)

theorem Benign.scheduleOnce {s : Sched} (h : s.Benign) (b : Body) (d) (hb : b.benign = true) :
    (s.scheduleOnce b d).1.Benign := by
  intro t ht
  simp only [Sched.scheduleOnce, List.mem_append, List.mem_singleton] at ht
  rcases ht with ht | ht
  · exact h t ht
  · subst ht; exact hb

theorem Benign.scheduleRepeat {s : Sched} (h : s.Benign) (b : Body) (p d f) (hb : b.benign = true) :
    (s.scheduleRepeat b p d f).1.Benign := by
  intro t ht
  simp only [Sched.scheduleRepeat, Sched.newTimer, List.mem_append, List.mem_singleton] at ht
  rcases ht with ht | ht
  · exact h t ht
  · subst ht; exact hb

/-- What `pollPre` hands to the stage layer is benign again. -/
def Poll.benign : Poll → Bool
  | .none => true
  | .runOnce b => b.benign
  | .runTick b _ => b.benign

theorem Benign.pollPre {s : Sched} (h : s.Benign) (k) :
    (s.pollPre k).1.Benign ∧ Poll.benign (s.pollPre k).2 = true := by
  refine pollPre_elim s k (motive := fun r => r.1.Benign ∧ Poll.benign r.2 = true)
    ?_ ?_ ?_ ?_ ?_ ?_ ?_ ?_
  · intro _; exact ⟨h, rfl⟩
  · intro t _ _; exact ⟨h, rfl⟩
  · intro t ht _ _; exact ⟨h.setTask k _ (h.get (t := t) ht), rfl⟩
  · intro t d ht _ _ _; exact ⟨((h.newTimer _ _).registerTimer _).setTask k _ (h.get (t := t) ht), rfl⟩
  · intro t tm ht _ _ _ _ _; exact ⟨(h.registerTimer _).setTask k _ (h.get (t := t) ht), rfl⟩
  · intro t ht _ _ _ _ _; exact ⟨h.setTask k _ (h.get (t := t) ht), h.get (t := t) ht⟩
  · intro t fur iv seq ht _ _ _ _ _ _; exact ⟨(h.registerTimer _).setTask k _ (h.get (t := t) ht), rfl⟩
  · intro t fur iv seq ht _ _ _ _ _ _; exact ⟨h.setTask k _ (h.get (t := t) ht), h.get (t := t) ht⟩

end Sched
end Rx.T
