import RxModel.Ops.MergeAll
/-
  Helper lemmas for C01M / C02M (merge_all): the downstream log of the
  operator is well-formed for every history, and silent after `unsub`.
  Everything is generic in `fixed` (code as it is / repaired code) and holds
  from EVERY state, reachable or not.
-/
namespace Rx.MergeAll

/-- The notifications the downstream observer receives. -/
def notifs (o : List Out) : List Notif := o.map Out.toNotif

@[simp] theorem notifs_nil : notifs [] = [] := rfl
@[simp] theorem notifs_append (a b : List Out) : notifs (a ++ b) = notifs a ++ notifs b := by
  simp [notifs]
@[simp] theorem notifs_items (tag : Nat) (xs : List Val) :
    notifs (xs.map (Out.item tag)) = xs.map Notif.next := by
  simp [notifs, Out.toNotif]
@[simp] theorem notifs_error (e : Err) : notifs [.error e] = [.error e] := rfl
@[simp] theorem notifs_complete : notifs [.complete] = [.complete] := rfl

theorem notifs_map_item (v : Val) (ts : List (Nat × Nat)) :
    notifs (ts.map fun p => Out.item p.2 v) = ts.map fun _ => Notif.next v := by
  simp [notifs, Out.toNotif]

theorem WF_const_next (v : Val) {α : Type} (ts : List α) :
    WF (ts.map fun _ => Notif.next v) ∧ terminated (ts.map fun _ => Notif.next v) = false := by
  induction ts with
  | nil => simp [terminated]
  | cons _ r ih => simpa [terminated] using ih

/-- One transition, seen from the downstream observer: the output is
    well-formed, a terminal in it kills the cell (`alive = false`), and a dead
    cell stays dead and silent. -/
structure Tr (s : St) (r : St × List Out) : Prop where
  wf : WF (notifs r.2)
  term : terminated (notifs r.2) = true → r.1.alive = false
  dead : s.alive = false → r.2 = [] ∧ r.1.alive = false

theorem Tr.comp {s s1 s2 : St} {o1 o2 : List Out}
    (h1 : Tr s (s1, o1)) (h2 : Tr s1 (s2, o2)) : Tr s (s2, o1 ++ o2) := by
  refine ⟨?_, ?_, ?_⟩
  · simp only [notifs_append]
    rw [WF_append_iff]
    refine ⟨h1.wf, ?_, h2.wf⟩
    intro ht
    have := (h2.dead (h1.term ht)).1
    simp at this
    simp [this]
  · simp only [notifs_append, terminated_append, Bool.or_eq_true]
    rintro (ht | ht)
    · exact (h2.dead (h1.term ht)).2
    · exact h2.term ht
  · intro hd
    have a := h1.dead hd
    have b := h2.dead a.2
    simp only at a b
    simp [a.1, b.1, b.2]

theorem Tr.silent (s : St) (h : s.alive = false → s'.alive = false) : Tr s (s', []) :=
  ⟨by simp, by simp [terminated], fun hd => ⟨rfl, h hd⟩⟩

/-- `drain` (the body of `InnerObserver::complete`): well-formed output, and a
    terminal in it takes the data out of the cell. -/
theorem drain_wf (f : Bool) (q : List Inst) : ∀ s : St,
    WF (notifs (drain f s q).2) ∧
    (terminated (notifs (drain f s q).2) = true → (drain f s q).1.alive = false) := by
  induction q with
  | nil =>
    intro s
    simp only [drain]
    split <;> simp [terminated]
  | cons i rest ih =>
    intro s
    simp only [drain]
    split
    · simp [terminated]
    · split
      · simp [terminated]
      · split
        · simp [WF_nexts]
        · simp [WF_nexts_append, terminated_append, terminated]
        · have := ih { s with completed := s.completed + 1, started := s.started + 1 }
          simpa [WF_nexts_append, terminated_append] using this

theorem innerComplete_tr (f : Bool) (s : St) : Tr s (innerComplete f s) := by
  unfold innerComplete
  cases ha : s.alive
  · simp only [Bool.false_eq_true, if_false]
    exact Tr.silent s (fun h => h)
  · simp only [if_true]
    have := drain_wf f s.queue s
    exact ⟨this.1, this.2, fun hd => by simp [ha] at hd⟩

theorem innerError_tr (s : St) (e : Err) : Tr s (innerError s e) := by
  unfold innerError
  cases ha : s.alive
  · simp only [Bool.false_eq_true, if_false]
    exact Tr.silent s (fun h => h)
  · simp only [if_true]
    exact ⟨by simp, by simp, fun hd => by simp [ha] at hd⟩

theorem completeAll_tr (f : Bool) (ts : List (Nat × Nat)) : ∀ s : St, Tr s (completeAll f s ts) := by
  induction ts with
  | nil => intro s; exact Tr.silent s (fun h => h)
  | cons t r ih =>
    intro s
    simp only [completeAll]
    have h1 := innerComplete_tr f s
    split
    · exact h1
    · have h2 := ih (innerComplete f s).1
      exact Tr.comp (s1 := (innerComplete f s).1) h1 h2

theorem errorAll_tr (e : Err) (ts : List (Nat × Nat)) : ∀ s : St, Tr s (errorAll s e ts) := by
  induction ts with
  | nil => intro s; exact Tr.silent s (fun h => h)
  | cons t r ih =>
    intro s
    simp only [errorAll]
    exact Tr.comp (s1 := (innerError s e).1) (innerError_tr s e) (ih _)

theorem startTop_wf (f : Bool) (s : St) (i : Inst) :
    WF (notifs (startTop f s i).2) ∧
    (terminated (notifs (startTop f s i).2) = true → (startTop f s i).1.alive = false) := by
  simp only [startTop]
  split
  · simp [terminated]
  · split
    · simp [WF_nexts]
    · simp [WF_nexts_append, terminated_append, terminated]
    · have := drain_wf f { s with started := s.started + 1 }.queue { s with started := s.started + 1 }
      simpa [WF_nexts_append, terminated_append] using this

theorem outerNext_tr (f : Bool) (s : St) (k : Nat) : Tr s (outerNext f s k) := by
  unfold outerNext
  cases ho : s.outerOpen
  · simp only [Bool.not_false, if_true]
    exact Tr.silent s (fun h => h)
  · simp only [Bool.not_true, Bool.false_eq_true, if_false]
    cases ha : s.alive
    · simp only [Bool.not_false, if_true]
      exact Tr.silent s (fun _ => rfl)
    · simp only [Bool.not_true, Bool.false_eq_true, if_false]
      split
      · have := startTop_wf f { s with arrivals := s.arrivals + 1, subscribed := s.subscribed + 1 }
          ⟨s.arrivals, k⟩
        simp only [ha, ho] at this
        exact ⟨this.1, this.2, fun hd => by simp [ha] at hd⟩
      · exact Tr.silent s (fun hd => by simp [ha] at hd)

theorem outerError_tr (s : St) (e : Err) : Tr s (outerError s e) := by
  unfold outerError
  cases ho : s.outerOpen
  · simp only [Bool.not_false, if_true]
    exact Tr.silent s (fun h => h)
  · simp only [Bool.not_true, Bool.false_eq_true, if_false]
    cases ha : s.alive
    · simp only [Bool.false_eq_true, if_false]
      exact Tr.silent s (fun _ => rfl)
    · simp only [if_true]
      exact ⟨by simp, by simp, fun hd => by simp [ha] at hd⟩

theorem outerComplete_tr (s : St) : Tr s (outerComplete s) := by
  unfold outerComplete
  cases ho : s.outerOpen
  · simp only [Bool.not_false, if_true]
    exact Tr.silent s (fun h => h)
  · simp only [Bool.not_true, Bool.false_eq_true, if_false]
    cases ha : s.alive
    · simp only [Bool.false_eq_true, if_false]
      exact Tr.silent s (fun _ => rfl)
    · simp only [if_true]
      split
      · exact ⟨by simp, by simp, fun hd => by simp [ha] at hd⟩
      · exact Tr.silent s (fun hd => by simp [ha] at hd)

theorem hotNext_tr (s : St) (j : Nat) (v : Val) : Tr s (hotNext s j v) := by
  unfold hotNext
  split
  · exact Tr.silent s (fun h => h)
  · cases ha : s.alive
    · simp only [Bool.false_eq_true, if_false]
      exact Tr.silent s (fun _ => ha)
    · simp only [if_true]
      have := WF_const_next v (targets s j)
      refine ⟨?_, ?_, fun hd => by simp [ha] at hd⟩
      · simp only [notifs_map_item]; exact this.1
      · simp only [notifs_map_item, this.2]; simp

theorem stepG_tr (f : Bool) (s : St) (ev : Ev) : Tr s (stepG f s ev) := by
  unfold stepG
  split
  · exact Tr.silent s (fun h => h)
  · cases ev with
    | outerNext k => exact outerNext_tr f s k
    | outerError e => exact outerError_tr s e
    | outerComplete => exact outerComplete_tr s
    | innerNext j v => exact hotNext_tr s j v
    | innerError j e =>
      simp only [hotError]
      split
      · exact Tr.silent s (fun h => h)
      · have := errorAll_tr e (targets s j)
          { s with dead := j :: s.dead, subs := s.subs.filter (fun p => !(p.1 == j)) }
        exact ⟨this.wf, this.term, this.dead⟩
    | innerComplete j =>
      simp only [hotComplete]
      split
      · exact Tr.silent s (fun h => h)
      · have := completeAll_tr f (targets s j)
          { s with dead := j :: s.dead, subs := s.subs.filter (fun p => !(p.1 == j)) }
        exact ⟨this.wf, this.term, this.dead⟩
    | unsub => exact Tr.silent s (fun h => h)

theorem runG_tr (f : Bool) (evs : List Ev) : ∀ s : St, Tr s (runG f s evs) := by
  induction evs with
  | nil => intro s; exact Tr.silent s (fun h => h)
  | cons ev r ih =>
    intro s
    simp only [runG]
    exact Tr.comp (s1 := (stepG f s ev).1) (stepG_tr f s ev) (ih _)

/-- Append law of the run. -/
theorem runG_append (f : Bool) (a b : List Ev) : ∀ s : St,
    runG f s (a ++ b) =
      ((runG f (runG f s a).1 b).1, (runG f s a).2 ++ (runG f (runG f s a).1 b).2) := by
  induction a with
  | nil => intro s; simp [runG]
  | cons e r ih => intro s; simp [runG, ih, List.append_assoc]

/-! ### Silence after `unsub` -/

/-- What `unsubscribe()` establishes: nobody holds a path to the cell (or the
    operator is stuck in a panic, which is silent too). -/
def Cut (s : St) : Prop := s.stuck = true ∨ (s.outerOpen = false ∧ s.subs = [])

theorem completeAll_nil (f : Bool) (s : St) : completeAll f s [] = (s, []) := rfl
theorem errorAll_nil (s : St) (e : Err) : errorAll s e [] = (s, []) := rfl

theorem targets_nil {s : St} (h : s.subs = []) (j : Nat) : targets s j = [] := by
  simp [targets, h]

theorem stepG_cut (f : Bool) (s : St) (ev : Ev) (h : Cut s) :
    (stepG f s ev).2 = [] ∧ Cut (stepG f s ev).1 := by
  unfold stepG
  rcases h with h | ⟨ho, hs⟩
  · rw [if_pos h]
    exact ⟨rfl, Or.inl h⟩
  · split
    · exact ⟨rfl, Or.inr ⟨ho, hs⟩⟩
    · cases ev with
      | outerNext k => simp [outerNext, ho, Cut, hs]
      | outerError e => simp [outerError, ho, Cut, hs]
      | outerComplete => simp [outerComplete, ho, Cut, hs]
      | innerNext j v =>
        simp only [hotNext, targets_nil hs]
        split
        · exact ⟨rfl, Or.inr ⟨ho, hs⟩⟩
        · exact ⟨by simp, Or.inr ⟨ho, hs⟩⟩
      | innerError j e =>
        simp only [hotError, targets_nil hs, errorAll_nil]
        split
        · exact ⟨rfl, Or.inr ⟨ho, hs⟩⟩
        · exact ⟨rfl, Or.inr ⟨ho, by simp [hs]⟩⟩
      | innerComplete j =>
        simp only [hotComplete, targets_nil hs, completeAll_nil]
        split
        · exact ⟨rfl, Or.inr ⟨ho, hs⟩⟩
        · exact ⟨rfl, Or.inr ⟨ho, by simp [hs]⟩⟩
      | unsub => simp [unsub, Cut]

theorem runG_cut (f : Bool) (evs : List Ev) : ∀ s : St, Cut s → (runG f s evs).2 = [] := by
  induction evs with
  | nil => intro s _; rfl
  | cons ev r ih =>
    intro s h
    have := stepG_cut f s ev h
    simp only [runG, this.1, ih _ this.2, List.append_nil]

theorem stepG_unsub_cut (f : Bool) (s : St) : Cut (stepG f s .unsub).1 := by
  unfold stepG
  split
  · rename_i h; exact Or.inl h
  · exact Or.inr ⟨rfl, rfl⟩

theorem runG_unsub (f : Bool) (s : St) (post : List Ev) : (runG f s (.unsub :: post)).2 = [] := by
  have h1 : (stepG f s .unsub).2 = [] := by
    unfold stepG
    split <;> rfl
  simp only [runG, h1, runG_cut f post _ (stepG_unsub_cut f s), List.append_nil]

end Rx.MergeAll
