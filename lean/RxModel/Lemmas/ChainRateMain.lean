import RxModel.Lemmas.ChainRateOps
/-
  C09 (chain model): the initial worlds satisfy the invariants; what the
  invariants say about the final probe log.
-/
namespace Rx.T
open Rx Rx.Spec

theorem init_debounce (d : Nat) :
    Inv PTrail [] false (TW.step { src := .hot 0, stages := [.debounce d true none none] } .sub) := by
  refine ⟨rfl, rfl, rfl, rfl, rfl, ?_, _, rfl, rfl, ?_⟩
  · intro t ht; simp [TW.step, TW.subscribeFrom, TW.subscribeSource] at ht
  · exact PTrail.intro true none rfl (List.Sublist.refl _) trivial (fun _ => rfl)

theorem init_throttle (d : Nat) (e : Edge) :
    Inv PTrail [] false (TW.step { src := .hot 0, stages := [.throttle d e true none none] } .sub) := by
  refine ⟨rfl, rfl, rfl, rfl, rfl, ?_, _, rfl, rfl, ?_⟩
  · intro t ht; simp [TW.step, TW.subscribeFrom, TW.subscribeSource] at ht
  · exact PTrail.intro true none rfl (List.Sublist.refl _) trivial (fun _ => rfl)

theorem init_buf (d : Nat) (cnt : Option Nat) (hc : ∀ c, cnt = some c → 1 ≤ c) :
    Inv (PBuf cnt) [] false (TW.step { src := .hot 0, stages := [.bufTime d cnt true [] none] } .sub) := by
  refine ⟨rfl, rfl, rfl, rfl, rfl, ?_, _, rfl, rfl, ?_⟩
  · intro t ht
    simp [TW.step, TW.subscribeFrom, TW.subscribeSource, TW.setStage, Sched.scheduleRepeat,
      Sched.newTimer] at ht
    subst ht; rfl
  · refine ⟨d, true, [], some 0, rfl, ⟨?_, fun _ _ => ⟨rfl, rfl⟩, ?_, trivial, fun _ => rfl, ?_⟩, ?_⟩
    · exact List.prefix_refl _
    · intro b hb; simp [TW.step, TW.subscribeFrom, TW.subscribeSource, TW.setStage, items] at hb
    · intro h; simp [TW.step, TW.subscribeFrom, TW.subscribeSource, TW.setStage] at h
    · intro c h; have := hc c h; simp; omega

/-- debounce / throttle: the invariant at the end of any event list. -/
theorem trail_final (st : Stage)
    (h0 : Inv PTrail [] false (TW.step { src := .hot 0, stages := [st] } .sub)) (evs : List TW.Ev) :
    (items (rateRun st evs).log).Sublist (itemsEmitted evs) ∧ WF (rateRun st evs).log := by
  obtain ⟨T, I⟩ := Inv.run PTrail.spec _ h0 evs
  obtain ⟨st', _, _, alive, tr, _, hs, hw, _⟩ := I.stage
  exact ⟨sub_left hs, hw⟩

/-- buffers: the invariant at the end of any event list. -/
theorem buf_final (d : Nat) (cnt : Option Nat) (hc : ∀ c, cnt = some c → 1 ≤ c) (evs : List TW.Ev) :
    ∃ alive data a T,
      BufCore cnt alive data (rateRun (.bufTime d cnt true [] none) evs).log (itemsEmitted evs) a T := by
  obtain ⟨T, I⟩ := Inv.run (PBuf.spec cnt) _ (init_buf d cnt hc) evs
  obtain ⟨st', _, _, d', alive, data, task, _, hI, _⟩ := I.stage
  exact ⟨alive, data, _, T, hI⟩

theorem prefix_left {l t E : List Val} (h : (l ++ t) <+: E) : l <+: E :=
  (List.prefix_append l t).trans h

end Rx.T
