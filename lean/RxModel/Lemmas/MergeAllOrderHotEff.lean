import RxModel.Lemmas.MergeAllOrderFifo
/-
  C05O — hot inner instances.  The exact effect of the queue-driven pieces of
  work (`drain`, `innerComplete`, `completeAll`) on the bookkeeping of ONE
  instance `t` of hot subject `j`:

    * how often subject `j` holds an `InnerObserver` of instance `t`
      (`subs.count (j, t)`),
    * how often `t` is waiting in the queue (`nTag queue t`),
    * how often `t` was started in this piece of work (`nTag (startsOf log) t`),
    * whether the piece of work delivered a terminal downstream.
-/
namespace Rx.MergeAll

theorem nTag_app (a b : List Inst) (t : Nat) : nTag (a ++ b) t = nTag a t + nTag b t := by
  unfold nTag; rw [List.filter_append, List.length_append]

theorem nTag_nil (t : Nat) : nTag [] t = 0 := rfl

theorem nTag_single (i : Inst) (t : Nat) : nTag [i] t = if i.tag = t then 1 else 0 := by
  by_cases h : i.tag = t <;> simp [nTag, h]

/-- Is the entry a terminal delivered downstream? -/
def Lab.isTerm : Lab → Bool
  | .out (.error _) => true
  | .out .complete => true
  | _ => false

/-- Does the log contain a terminal delivered downstream? -/
def hasTerm (l : List Lab) : Bool := l.any Lab.isTerm

theorem hasTerm_append (a b : List Lab) : hasTerm (a ++ b) = (hasTerm a || hasTerm b) := by
  unfold hasTerm; exact List.any_append

@[simp] theorem hasTerm_nil : hasTerm [] = false := rfl

theorem hasTerm_cons (x : Lab) (l : List Lab) : hasTerm (x :: l) = (x.isTerm || hasTerm l) := by
  unfold hasTerm; rfl

@[simp] theorem hasTerm_itemsL (tag : Nat) (xs : List Val) : hasTerm (itemsL tag xs) = false := by
  induction xs with
  | nil => rfl
  | cons x r ih =>
    have : itemsL tag (x :: r) = Lab.out (.item tag x) :: itemsL tag r := rfl
    rw [this, hasTerm_cons, ih]; rfl

theorem hasTerm_map_items (ts : List (Nat × Nat)) (v : Val) :
    hasTerm ((ts.map (fun p => Out.item p.2 v)).map Lab.out) = false := by
  induction ts with
  | nil => rfl
  | cons x r ih => simp only [List.map_cons, hasTerm_cons, ih]; rfl

/-- A terminal in the log kills the cell; without one, `alive` is untouched. -/
def TermEff (s s' : St) (l : List Lab) : Prop :=
  (hasTerm l = true → s'.alive = false) ∧ (hasTerm l = false → s'.alive = s.alive)

theorem TermEff.comp {s s1 s2 : St} {l1 l2 : List Lab} (h1 : TermEff s s1 l1)
    (h2 : TermEff s1 s2 l2) : TermEff s s2 (l1 ++ l2) := by
  rw [TermEff, hasTerm_append]
  cases ha : hasTerm l1 <;> cases hb : hasTerm l2
  · exact ⟨by simp, fun _ => (h2.2 hb).trans (h1.2 ha)⟩
  · exact ⟨fun _ => h2.1 hb, by simp⟩
  · exact ⟨fun _ => (h2.2 hb).trans (h1.1 ha), by simp⟩
  · exact ⟨fun _ => h2.1 hb, by simp⟩

theorem TermEff.refl (s : St) : TermEff s s [] := ⟨by simp, fun _ => rfl⟩

/-- What is known about instance `t` of subject `j` before a queue-driven piece of work. -/
structure QPre (j t : Nat) (s : St) (q : List Inst) : Prop where
  own : ∀ p ∈ s.subs, p.2 = t → p.1 = j
  key : ∀ i ∈ q, i.tag = t → s.inner i.k = .hot j
  qlt : ∀ i ∈ q, i.tag < s.arrivals
  slt : ∀ p ∈ s.subs, p.2 < s.arrivals

/-- … and its exact effect. -/
structure QEff (j t : Nat) (s : St) (q : List Inst) (r : St × List Out) (l : List Lab) : Prop where
  res : restrict t r.2 = []
  cnt : r.1.subs.count (j, t) = s.subs.count (j, t) + nTag (startsOf l) t
  que : nTag r.1.queue t + nTag (startsOf l) t = nTag q t
  own : ∀ p ∈ r.1.subs, p.2 = t → p.1 = j
  sub : ∀ i ∈ r.1.queue, i ∈ q
  slt : ∀ p ∈ r.1.subs, p.2 < s.arrivals
  term : TermEff s r.1 l
  inn : r.1.inners = s.inners
  arr : r.1.arrivals = s.arrivals
  dead : r.1.dead = s.dead
  oo : r.1.outerOpen = s.outerOpen

theorem drain_eff (f : Bool) (j t : Nat) (q : List Inst) : ∀ s : St, QPre j t s q →
    QEff j t s q (drain f s q) (drainL f s q) := by
  induction q with
  | nil =>
    intro s h
    simp only [drain, drainL]
    split
    · exact ⟨rfl, by simp [startsOf, nTag], by simp [startsOf, nTag], h.own, by simp, h.slt,
        ⟨fun _ => rfl, by simp [hasTerm, Lab.isTerm]⟩, rfl, rfl, rfl, rfl⟩
    · exact ⟨rfl, by simp [startsOf, nTag], by simp [startsOf, nTag], h.own, by simp, h.slt,
        ⟨by simp, fun _ => rfl⟩, rfl, rfl, rfl, rfl⟩
  | cons i rest ih =>
    intro s h
    have hsub : ∀ a ∈ rest, a ∈ i :: rest := fun a ha => List.mem_cons_of_mem _ ha
    simp only [drain, drainL]
    cases hin : s.inner i.k with
    | hot j' =>
      simp only
      have hcase : (i.tag = t ∧ j' = j) ∨ i.tag ≠ t := by
        by_cases hi : i.tag = t
        · have := h.key i (List.mem_cons_self ..) hi
          rw [hin] at this
          injection this with this
          exact Or.inl ⟨hi, this⟩
        · exact Or.inr hi
      refine ⟨rfl, ?_, ?_, ?_, hsub, ?_, ⟨by simp [hasTerm_cons, Lab.isTerm], fun _ => rfl⟩,
        rfl, rfl, rfl, rfl⟩
      · simp only [startsOf, List.count_append, List.count_singleton, nTag_single]
        rcases hcase with ⟨hi, hj⟩ | hi
        · simp [hi, hj]
        · have : ¬ ((j', i.tag) == (j, t)) = true := by simp; intro _; exact hi
          simp [hi, this]
      · simp only [startsOf, nTag_single]
        rcases hcase with ⟨hi, _⟩ | hi
        · rw [nTag_cons_same _ _ _ hi]; simp [hi]
        · rw [nTag_cons_ne _ _ _ hi]; simp [hi]
      · intro p hp hpt
        simp only [List.mem_append, List.mem_singleton] at hp
        rcases hp with hp | rfl
        · exact h.own p hp hpt
        · rcases hcase with ⟨_, hj⟩ | hi
          · exact hj
          · exact absurd hpt hi
      · intro p hp
        simp only [List.mem_append, List.mem_singleton] at hp
        rcases hp with hp | rfl
        · exact h.slt p hp
        · exact h.qlt i (List.mem_cons_self ..)
    | cold xs fin =>
      simp only
      have hi : i.tag ≠ t := by
        intro hi
        have := h.key i (List.mem_cons_self ..) hi
        rw [hin] at this; cases this
      have hn1 : nTag [i] t = 0 := by rw [nTag_single]; simp [hi]
      have hn2 : nTag (i :: rest) t = nTag rest t := nTag_cons_ne _ _ _ hi
      by_cases hc : (!f && (Inner.cold xs fin).touches) = true
      · simp only [hc, if_true]
        exact ⟨rfl, by simp [startsOf, hn1], by simp [startsOf, hn1, hn2], h.own, hsub, h.slt,
          ⟨by simp [hasTerm_cons, Lab.isTerm], fun _ => rfl⟩, rfl, rfl, rfl, rfl⟩
      · simp only [hc, Bool.false_eq_true, if_false]
        cases fin with
        | open_ =>
          simp only
          exact ⟨restrict_items_ne t _ xs hi, by simp [startsOf, hn1],
            by simp [startsOf, hn1, hn2], h.own, hsub, h.slt,
            ⟨by simp [hasTerm_cons, Lab.isTerm], fun _ => rfl⟩, rfl, rfl, rfl, rfl⟩
        | error e =>
          simp only
          exact ⟨by simp [restrict_append, restrict_items_ne t _ xs hi, restrict],
            by simp [startsOf, startsOf_append, hn1],
            by simp [startsOf, startsOf_append, hn1, hn2], h.own, hsub, h.slt,
            ⟨fun _ => rfl, by simp [hasTerm_cons, hasTerm_append, Lab.isTerm]⟩, rfl, rfl, rfl, rfl⟩
        | complete =>
          simp only
          have hp : QPre j t { s with completed := s.completed + 1, started := s.started + 1 } rest :=
            ⟨h.own, fun a ha => h.key a (hsub a ha), fun a ha => h.qlt a (hsub a ha), h.slt⟩
          have := ih _ hp
          refine ⟨?_, ?_, ?_, this.own, fun a ha => hsub a (this.sub a ha), this.slt, ?_, this.inn,
            this.arr, this.dead, this.oo⟩
          · rw [restrict_append, restrict_items_ne t _ xs hi, this.res]; rfl
          · have hc := this.cnt
            simp only [startsOf, startsOf_append, startsOf_itemsL, List.nil_append] at hc ⊢
            rw [hc]
            have : nTag (i :: startsOf (drainL f
                { s with completed := s.completed + 1, started := s.started + 1 } rest)) t
                = nTag (startsOf (drainL f
                { s with completed := s.completed + 1, started := s.started + 1 } rest)) t :=
              nTag_cons_ne _ _ _ hi
            rw [this]
          · have hq := this.que
            simp only [startsOf, startsOf_append, startsOf_itemsL, List.nil_append] at hq ⊢
            rw [nTag_cons_ne _ _ _ hi, hn2]; exact hq
          · have ht := this.term
            refine ⟨?_, ?_⟩
            · intro hh
              apply ht.1
              simpa [hasTerm_cons, hasTerm_append, Lab.isTerm] using hh
            · intro hh
              have := ht.2 (by simpa [hasTerm_cons, hasTerm_append, Lab.isTerm] using hh)
              exact this

theorem QEff.idle (j t : Nat) (s : St) (h : ∀ p ∈ s.subs, p.2 = t → p.1 = j)
    (hs : ∀ p ∈ s.subs, p.2 < s.arrivals) : QEff j t s s.queue (s, []) [] :=
  ⟨rfl, by simp [startsOf, nTag], by simp [startsOf, nTag], h, fun _ hi => hi, hs, TermEff.refl s,
    rfl, rfl, rfl, rfl⟩

theorem innerComplete_eff (f : Bool) (j t : Nat) (s : St) (h : QPre j t s s.queue) :
    QEff j t s s.queue (innerComplete f s) (innerCompleteL f s) := by
  unfold innerComplete innerCompleteL
  by_cases ha : s.alive = true
  · rw [if_pos ha, if_pos ha]; exact drain_eff f j t s.queue s h
  · rw [if_neg ha, if_neg ha]; exact QEff.idle j t s h.own h.slt

theorem QEff.pre {j t : Nat} {s : St} {q : List Inst} {r : St × List Out} {l : List Lab}
    (h : QPre j t s q) (e : QEff j t s q r l) : QPre j t r.1 r.1.queue :=
  ⟨e.own, fun i hi => by rw [inner_of_inners e.inn]; exact h.key i (e.sub i hi),
    fun i hi => by rw [e.arr]; exact h.qlt i (e.sub i hi), fun p hp => by rw [e.arr]; exact e.slt p hp⟩

theorem QEff.comp {j t : Nat} {s : St} {q : List Inst} {s1 s2 : St} {o1 o2 : List Out}
    {l1 l2 : List Lab} (e1 : QEff j t s q (s1, o1) l1) (e2 : QEff j t s1 s1.queue (s2, o2) l2) :
    QEff j t s q (s2, o1 ++ o2) (l1 ++ l2) := by
  refine ⟨?_, ?_, ?_, e2.own, fun i hi => e1.sub i (e2.sub i hi), ?_, e1.term.comp e2.term,
    e2.inn.trans e1.inn, e2.arr.trans e1.arr, e2.dead.trans e1.dead, e2.oo.trans e1.oo⟩
  · have a := e1.res; have b := e2.res
    simp only at a b ⊢
    rw [restrict_append, a, b]; rfl
  · have a := e1.cnt; have b := e2.cnt
    simp only at a b ⊢
    rw [startsOf_append, nTag_app, b, a]; omega
  · have a := e1.que; have b := e2.que
    simp only at a b ⊢
    rw [startsOf_append, nTag_app]; omega
  · intro p hp
    have := e2.slt p hp
    rw [show s1.arrivals = s.arrivals from e1.arr] at this
    exact this

theorem completeAll_eff (f : Bool) (j t : Nat) (ts : List (Nat × Nat)) : ∀ s : St,
    QPre j t s s.queue → QEff j t s s.queue (completeAll f s ts) (completeAllL f s ts) := by
  induction ts with
  | nil => intro s h; exact QEff.idle j t s h.own h.slt
  | cons p r ih =>
    intro s h
    simp only [completeAll, completeAllL]
    have h1 := innerComplete_eff f j t s h
    by_cases hst : (innerComplete f s).1.stuck = true
    · rw [if_pos hst, if_pos hst]; exact h1
    · rw [if_neg hst, if_neg hst]
      have h2 := ih _ (h1.pre h)
      exact QEff.comp (s1 := (innerComplete f s).1) (o1 := (innerComplete f s).2) h1 h2

end Rx.MergeAll
