import RxModel.Lemmas.SchedInv
/-
  Helper lemmas for C19, part 5: the per-task invariants (cancelled/finished,
  OnceTask, outer delay, period timer) as instances of `TaskInv`.
-/

namespace Rx.T
namespace Sched


/-! ### Dead: cancelled or finished tasks never run -/
def deadP (_ : Sched) (t : Task) : Prop := t.keepRunning = false ∨ t.done = true

theorem dead_inv (k : TaskId) : TaskInv k deadP (fun _ => False) := by
  constructor
  · rintro s s' t t' _ ⟨w, rfl⟩ h; exact h
  · intro s t h; exact Or.inl rfl
  · intro s c t wf ht hp
    refine poll_task_elim s k c t ht (motive := fun s' t' runs => deadP s' t' ∧ ∀ r ∈ runs, False)
      ?_ ?_ ?_ ?_ ?_ ?_ ?_ ?_
    · intro _; exact ⟨hp, by simp⟩
    · intro _ _; exact ⟨Or.inr rfl, by simp⟩
    all_goals
      intros
      rcases hp with hp | hp <;> simp_all

/-! ### OnceTy: a OnceTask stays a OnceTask and its runs carry no sequence number -/
def onceP (_ : Sched) (t : Task) : Prop := t.rep = none

theorem once_inv (k : TaskId) : TaskInv k onceP (fun r => r.seq = none) := by
  constructor
  · rintro s s' t t' _ ⟨w, rfl⟩ h; exact h
  · intro s t h; exact h
  · intro s c t wf ht hp
    refine poll_task_elim s k c t ht (motive := fun s' t' runs => onceP s' t' ∧ ∀ r ∈ runs, r.seq = none)
      ?_ ?_ ?_ ?_ ?_ ?_ ?_ ?_
    all_goals
      intros
      simp_all [onceP]

/-! ### Early: the outer delay -/
/-- `lo` is a lower bound for the moment the outer delay of `t` is over. -/
def earlyP (lo : Nat) (s : Sched) (t : Task) : Prop :=
  t.done = true ∨
    match t.outerDelay with
    | some d => lo ≤ s.now + d
    | none =>
      match t.outerTimer with
      | some tm => ∃ due, s.tdue tm = some due ∧ lo ≤ due
      | none => lo ≤ s.now

theorem early_ready {lo : Nat} {s : Sched} {t : Task} (wf : WF s) (h : earlyP lo s t)
    (hd : t.done = false) (hod : t.outerDelay = none) (hr : s.outerReady t) : lo ≤ s.now := by
  rcases h with h | h
  · rw [hd] at h; cases h
  · rw [hod] at h; simp only at h
    cases hot : t.outerTimer with
    | none => rw [hot] at h; exact h
    | some tm =>
      rw [hot] at h; simp only at h
      obtain ⟨due, h1, h2⟩ := h
      obtain ⟨d, h3, h4⟩ := wf.fired_due tm (hr tm hot)
      rw [h1] at h3; cases h3; omega

theorem early_inv (k : TaskId) (lo : Nat) : TaskInv k (earlyP lo) (fun r => lo ≤ r.time) := by
  constructor
  · rintro s s' t t' fr ⟨w, rfl⟩ h
    rcases h with h | h
    · exact Or.inl h
    · right; simp only
      cases hod : t.outerDelay with
      | some d => rw [hod] at h; simp only at h ⊢; have := fr.now_le; omega
      | none =>
        rw [hod] at h; simp only at h ⊢
        cases hot : t.outerTimer with
        | some tm =>
          rw [hot] at h; simp only at h ⊢
          obtain ⟨due, h1, h2⟩ := h
          exact ⟨due, fr.tdue tm due h1, h2⟩
        | none => rw [hot] at h; simp only at h ⊢; have := fr.now_le; omega
  · intro s t h; exact h
  · intro s c t wf ht hp
    refine poll_task_elim s k c t ht
      (motive := fun s' t' runs => earlyP lo s' t' ∧ ∀ r ∈ runs, lo ≤ r.time) ?_ ?_ ?_ ?_ ?_ ?_ ?_ ?_
    · intro _; exact ⟨hp, by simp⟩
    · intro _ _; exact ⟨Or.inl rfl, by simp⟩
    · intro d hd hk hod
      refine ⟨Or.inr ?_, by simp⟩
      rcases hp with hp | hp
      · rw [hd] at hp; cases hp
      · rw [hod] at hp; simp only at hp
        simp only [setTask_tdue, registerTimer_tdue, newTimer_tdue_new]
        exact ⟨_, rfl, hp⟩
    · intro tm hd hk hod hot hf
      refine ⟨?_, by simp⟩
      rcases hp with hp | hp
      · exact Or.inl hp
      · right; rw [hod, hot] at hp; simp only [hod, hot] at hp ⊢
        simpa using hp
    · intro hd hk hod hr hrep
      have := early_ready wf hp hd hod hr
      exact ⟨Or.inl rfl, by simpa using this⟩
    · intro fur iv seq hd hk hod hr hrep hf
      have := early_ready wf hp hd hod hr
      refine ⟨Or.inr ?_, by simp⟩
      simp only [hod]; simpa using this
    · intro fur iv seq hd hk hod hr hrep hf hc
      have := early_ready wf hp hd hod hr
      exact ⟨Or.inl rfl, by simpa using this⟩
    · intro fur iv seq hd hk hod hr hrep hf hc
      have := early_ready wf hp hd hod hr
      refine ⟨Or.inr ?_, by simpa using this⟩
      simp only [hod]; simpa using this



/-! ### RepLo: the period timer -/
/-- `L` is a lower bound for the due time of the period timer task `t` awaits; its period is `p`. -/
def repLoP (L p : Nat) (s : Sched) (t : Task) : Prop :=
  t.done = true ∨ ∃ fur seq due, t.rep = some (fur, p, seq) ∧ s.tdue fur = some due ∧ L ≤ due

theorem repLo_fired {L p : Nat} {s : Sched} {t : Task} {fur iv seq} (wf : WF s) (h : repLoP L p s t)
    (hd : t.done = false) (hrep : t.rep = some (fur, iv, seq)) (hf : s.timerFired fur = true) :
    iv = p ∧ L ≤ s.now := by
  rcases h with h | ⟨fur', seq', due, h1, h2, h3⟩
  · rw [hd] at h; cases h
  · rw [hrep] at h1; cases h1
    obtain ⟨d, h4, h5⟩ := wf.fired_due fur hf
    rw [h2] at h4; cases h4
    exact ⟨rfl, by omega⟩

theorem repLo_inv (k : TaskId) (L p : Nat) : TaskInv k (repLoP L p) (fun r => L ≤ r.time) := by
  constructor
  · rintro s s' t t' fr ⟨w, rfl⟩ h
    rcases h with h | ⟨fur, seq, due, h1, h2, h3⟩
    · exact Or.inl h
    · exact Or.inr ⟨fur, seq, due, h1, fr.tdue fur due h2, h3⟩
  · intro s t h; exact h
  · intro s c t wf ht hp
    refine poll_task_elim s k c t ht
      (motive := fun s' t' runs => repLoP L p s' t' ∧ ∀ r ∈ runs, L ≤ r.time) ?_ ?_ ?_ ?_ ?_ ?_ ?_ ?_
    · intro _; exact ⟨hp, by simp⟩
    · intro _ _; exact ⟨Or.inl rfl, by simp⟩
    · intro d hd hk hod
      refine ⟨?_, by simp⟩
      rcases hp with h | ⟨fur, seq, due, h1, h2, h3⟩
      · rw [hd] at h; cases h
      · refine Or.inr ⟨fur, seq, due, h1, ?_, h3⟩
        simp only [setTask_tdue, registerTimer_tdue]
        exact newTimer_tdue_old _ _ _ _ _ h2
    · intro tm hd hk hod hot hf
      refine ⟨?_, by simp⟩
      rcases hp with h | ⟨fur, seq, due, h1, h2, h3⟩
      · exact Or.inl h
      · exact Or.inr ⟨fur, seq, due, h1, by simpa using h2, h3⟩
    · intro hd hk hod hr hrep
      rcases hp with h | ⟨fur, seq, due, h1, h2, h3⟩
      · rw [hd] at h; cases h
      · rw [hrep] at h1; cases h1
    · intro fur iv seq hd hk hod hr hrep hf
      refine ⟨?_, by simp⟩
      rcases hp with h | ⟨fur', seq', due, h1, h2, h3⟩
      · rw [hd] at h; cases h
      · exact Or.inr ⟨fur', seq', due, h1, by simpa using h2, h3⟩
    · intro fur iv seq hd hk hod hr hrep hf hc
      have := repLo_fired wf hp hd hrep hf
      exact ⟨Or.inl rfl, by simpa using this.2⟩
    · intro fur iv seq hd hk hod hr hrep hf hc
      obtain ⟨e, hl⟩ := repLo_fired wf hp hd hrep hf
      subst e
      refine ⟨Or.inr ⟨s.timers.length, seq + 1, s.now + iv, rfl, ?_, by omega⟩, by simpa using hl⟩
      simp only [setTask_tdue, registerTimer_tdue, newTimer_tdue_new]

/-! ### RepEarly: the n-th tick -/
/-- Bounds for the period timer in terms of the sequence number: `A` = end of the outer delay,
    `B` = scheduling time + period. -/
def repSeqLoP (A B p : Nat) (s : Sched) (t : Task) : Prop :=
  t.done = true ∨ ∃ fur seq due, t.rep = some (fur, p, seq) ∧ s.tdue fur = some due ∧
    B + seq * p ≤ due ∧ (0 < seq → A + seq * p ≤ due)

def repEarlyP (A B p : Nat) (s : Sched) (t : Task) : Prop := earlyP A s t ∧ repSeqLoP A B p s t

def repEarlyQ (A B p : Nat) (r : Run) : Prop :=
  ∀ n, r.seq = some n → A + n * p ≤ r.time ∧ B + n * p ≤ r.time

theorem repSeqLo_fired {A B p : Nat} {s : Sched} {t : Task} {fur iv seq} (wf : WF s)
    (he : earlyP A s t) (h : repSeqLoP A B p s t)
    (hd : t.done = false) (hod : t.outerDelay = none) (hr : s.outerReady t)
    (hrep : t.rep = some (fur, iv, seq)) (hf : s.timerFired fur = true) :
    iv = p ∧ A + seq * p ≤ s.now ∧ B + seq * p ≤ s.now := by
  have hA := early_ready wf he hd hod hr
  rcases h with h | ⟨fur', seq', due, h1, h2, h3, h4⟩
  · rw [hd] at h; cases h
  · rw [hrep] at h1; cases h1
    obtain ⟨d, h5, h6⟩ := wf.fired_due fur hf
    rw [h2] at h5; cases h5
    refine ⟨rfl, ?_, by omega⟩
    cases seq with
    | zero => simpa using hA
    | succ n => have := h4 (Nat.succ_pos n); omega

theorem repEarly_inv (k : TaskId) (A B p : Nat) : TaskInv k (repEarlyP A B p) (repEarlyQ A B p) := by
  constructor
  · rintro s s' t t' fr hc ⟨h0, h⟩
    refine ⟨(early_inv k A).frame s s' t t' fr hc h0, ?_⟩
    obtain ⟨w, rfl⟩ := hc
    rcases h with h | ⟨fur, seq, due, h1, h2, h3⟩
    · exact Or.inl h
    · exact Or.inr ⟨fur, seq, due, h1, fr.tdue fur due h2, h3⟩
  · intro s t h; exact h
  · intro s c t wf ht ⟨he, hp⟩
    obtain ⟨t1, ht1, he1, _⟩ := (early_inv k A).poll s c t wf ht he
    obtain ⟨t2, ht2, h2⟩ := poll_task_elim s k c t ht
      (motive := fun s' t' runs => repSeqLoP A B p s' t' ∧ ∀ r ∈ runs, repEarlyQ A B p r)
      (by intro _; exact ⟨hp, by simp⟩)
      (by intro _ _; exact ⟨Or.inl rfl, by simp⟩)
      (by
        intro d hd hk hod
        refine ⟨?_, by simp⟩
        rcases hp with h | ⟨fur, seq, due, h1, h2, h3⟩
        · rw [hd] at h; cases h
        · refine Or.inr ⟨fur, seq, due, h1, ?_, h3⟩
          simp only [setTask_tdue, registerTimer_tdue]
          exact newTimer_tdue_old _ _ _ _ _ h2)
      (by
        intro tm hd hk hod hot hf
        refine ⟨?_, by simp⟩
        rcases hp with h | ⟨fur, seq, due, h1, h2, h3⟩
        · exact Or.inl h
        · exact Or.inr ⟨fur, seq, due, h1, by simpa using h2, h3⟩)
      (by
        intro hd hk hod hr hrep
        rcases hp with h | ⟨fur, seq, due, h1, h2, h3⟩
        · rw [hd] at h; cases h
        · rw [hrep] at h1; cases h1)
      (by
        intro fur iv seq hd hk hod hr hrep hf
        refine ⟨?_, by simp⟩
        rcases hp with h | ⟨fur', seq', due, h1, h2, h3⟩
        · rw [hd] at h; cases h
        · exact Or.inr ⟨fur', seq', due, h1, by simpa using h2, h3⟩)
      (by
        intro fur iv seq hd hk hod hr hrep hf hc
        have := repSeqLo_fired wf he hp hd hod hr hrep hf
        refine ⟨Or.inl rfl, ?_⟩
        intro r hr n hn
        simp only [List.mem_singleton] at hr; subst hr
        simp only [Option.some.injEq] at hn; subst hn
        exact this.2)
      (by
        intro fur iv seq hd hk hod hr hrep hf hc
        obtain ⟨e, hA, hB⟩ := repSeqLo_fired wf he hp hd hod hr hrep hf
        subst e
        have hm : (seq + 1) * iv = seq * iv + iv := Nat.succ_mul seq iv
        refine ⟨Or.inr ⟨s.timers.length, seq + 1, s.now + iv, rfl, ?_, by omega, fun _ => by omega⟩, ?_⟩
        · simp only [setTask_tdue, registerTimer_tdue, newTimer_tdue_new]
        · intro r hr n hn
          simp only [List.mem_singleton] at hr; subst hr
          simp only [Option.some.injEq] at hn; subst hn
          exact ⟨hA, hB⟩)
    rw [ht1] at ht2; cases ht2
    exact ⟨t1, ht1, ⟨he1, h2.1⟩, h2.2⟩

end Sched
end Rx.T
