import RxModel.Lemmas.ChainQuietDefs
/-
  C02 / C17 over the chain model, part 2: how `Good` survives the elementary
  changes of a world: a pointwise change of the tasks (`Good.sched`), a change of
  one stage possibly together with freshly spawned tasks (`Good.stage`), and the
  two changes of the source part (`Good.srcAlive`, `Good.srcTask`).
-/
namespace Rx.T
open Rx

/-! ### pointwise change of the tasks -/

def TRel (t t' : Task) : Prop :=
  t'.body = t.body ∧ (t'.live = true → t.live = true) ∧ (t'.hasValue = true → t'.done = true)

structure SRel (s s' : Sched) : Prop where
  len : s'.tasks.length = s.tasks.length
  rel : ∀ (k : Nat) (t : Task), s.tasks[k]? = some t → ∃ t', s'.tasks[k]? = some t' ∧ TRel t t'

theorem SRel.back {s s' : Sched} (h : SRel s s') {k : Nat} {t' : Task} (ht : s'.tasks[k]? = some t') :
    ∃ t, s.tasks[k]? = some t ∧ TRel t t' := by
  have hk : k < s.tasks.length := by rw [← h.len]; exact Sched.get_lt ht
  obtain ⟨t, hteq⟩ : ∃ t, s.tasks[k]? = some t := ⟨s.tasks[k], List.getElem?_eq_getElem hk⟩
  obtain ⟨t'', h1, h2⟩ := h.rel k t hteq
  rw [ht] at h1; cases h1
  exact ⟨t, hteq, h2⟩

theorem Good.sched {r r' : Option TaskId} {a : Info} {stages : List Stage} {s s' : Sched}
    (g : Good r a stages s) (h : SRel s s')
    (hran : ∀ (i : Nat) (st : Stage) (h : Nat), stages[i]? = some st → st.subH = some h →
      ran r s h → ran r' s' h) : Good r' a stages s' where
  hv := by
    intro k t' ht' hv
    obtain ⟨t, _, h2⟩ := h.back ht'
    exact h2.2.2 hv
  own := by
    intro k t' ht' hl
    obtain ⟨t, ht, h2⟩ := h.back ht'
    rw [h2.1]; exact g.own k t ht (h2.2.1 hl)
  hk := by
    intro j st hh hs hm
    obtain ⟨t, ht, h1, h2⟩ := g.hk j st hh hs hm
    obtain ⟨t', ht', h3⟩ := h.rel hh t ht
    exact ⟨t', ht', by rw [h3.1]; exact h1, by rw [h3.1]; exact h2⟩
  hks := by
    intro hh e
    obtain ⟨t, ht, h1⟩ := g.hks hh e
    obtain ⟨t', ht', h3⟩ := h.rel hh t ht
    exact ⟨t', ht', by rw [h3.1]; exact h1⟩
  prist := by
    intro i st hh hs e hn
    exact g.prist i st hh hs e (fun hr => hn (hran i st hh hs e hr))
  wf := g.wf
  swf := g.swf

/-- `hasValue` is never cleared. -/
def HVMono (s s' : Sched) : Prop :=
  ∀ (k : Nat) (t : Task), s.tasks[k]? = some t → t.hasValue = true →
    ∃ t', s'.tasks[k]? = some t' ∧ t'.hasValue = true

theorem ran_mono {r : Option TaskId} {s s' : Sched} (h : HVMono s s') {k : Nat} (hr : ran r s k) :
    ran r s' k := by
  rcases hr with hr | hr
  · left
    obtain ⟨t, ht, hv⟩ := (handleClosed_iff s k).1 hr
    exact (handleClosed_iff s' k).2 (h k t ht hv)
  · right; exact hr

theorem Good.sched_mono {r : Option TaskId} {a : Info} {stages : List Stage} {s s' : Sched}
    (g : Good r a stages s) (h : SRel s s') (hm : HVMono s s') : Good r a stages s' :=
  g.sched h (fun _ _ _ _ _ hr => ran_mono hm hr)

/-- The same tasks: nothing to show. -/
theorem Good.of_tasks_eq {r : Option TaskId} {a : Info} {stages : List Stage} {s s' : Sched}
    (g : Good r a stages s) (e : s'.tasks = s.tasks) : Good r a stages s' := by
  apply g.sched_mono
  · exact ⟨by rw [e], fun k t ht => ⟨t, by rw [e]; exact ht, rfl, id, g.hv k t ht⟩⟩
  · intro k t ht hv; exact ⟨t, by rw [e]; exact ht, hv⟩

/-- A relation on single tasks lifts to `setTask`. -/
theorem SRel.setTask {s : Sched} {k : Nat} {t t' : Task} (ht : s.tasks[k]? = some t)
    (hr : TRel t t') (hv : ∀ (j : Nat) (u : Task), s.tasks[j]? = some u → u.hasValue = true → u.done = true) :
    SRel s (s.setTask k t') := by
  refine ⟨by simp, ?_⟩
  intro j u hu
  by_cases e : j = k
  · subst e
    rw [ht] at hu; cases hu
    exact ⟨t', Sched.setTask_get_self _ _ _ _ ht, hr⟩
  · exact ⟨u, by rw [Sched.setTask_get_ne _ _ _ _ e]; exact hu, rfl, id, hv j u hu⟩

theorem HVMono.setTask {s : Sched} {k : Nat} {t t' : Task} (ht : s.tasks[k]? = some t)
    (hr : t.hasValue = true → t'.hasValue = true) : HVMono s (s.setTask k t') := by
  intro j u hu hv
  by_cases e : j = k
  · subst e
    rw [ht] at hu; cases hu
    exact ⟨t', Sched.setTask_get_self _ _ _ _ ht, hr hv⟩
  · exact ⟨u, by rw [Sched.setTask_get_ne _ _ _ _ e]; exact hu, hv⟩

/-! ### `PristineBelow`, `Owned` and the stage list -/

theorem PristineBelow.of_low {a : Info} {stages stages' : List Stage} {i : Nat}
    (h : PristineBelow a stages i) (hl : ∀ j, j < i → stages'[j]? = stages[j]?) :
    PristineBelow a stages' i :=
  ⟨h.1, h.2.1, fun j st hj hs => h.2.2 j st hj (by rw [← hl j hj]; exact hs)⟩

theorem PristineBelow.mono {a : Info} {stages : List Stage} {i i' : Nat}
    (h : PristineBelow a stages i) (hl : i' ≤ i) : PristineBelow a stages i' :=
  ⟨h.1, h.2.1, fun j st hj hs => h.2.2 j st (Nat.lt_of_lt_of_le hj hl) hs⟩

/-! ### one stage changes, tasks are spawned -/

theorem append_get_old {α} (l new : List α) {k : Nat} {t : α} (h : l[k]? = some t) :
    (l ++ new)[k]? = some t := by
  rw [List.getElem?_append_left (Sched.get_lt h)]; exact h

theorem append_get_cases {α} (l new : List α) {k : Nat} {t : α} (h : (l ++ new)[k]? = some t) :
    l[k]? = some t ∨ (l.length ≤ k ∧ new[k - l.length]? = some t) := by
  by_cases hk : k < l.length
  · left; rw [List.getElem?_append_left hk] at h; exact h
  · right
    have hk' : l.length ≤ k := Nat.le_of_not_lt hk
    rw [List.getElem?_append_right hk'] at h
    exact ⟨hk', h⟩

theorem Good.stage {r : Option TaskId} {a : Info} {stages stages' : List Stage} {s s' : Sched}
    {j : Nat} {st st1 : Stage} {new : List Task}
    (g : Good r a stages s)
    (hj : stages[j]? = some st) (hj' : stages'[j]? = some st1)
    (hne : ∀ i, i ≠ j → stages'[i]? = stages[i]?)
    (hs : s'.tasks = s.tasks ++ new)
    (hnew : ∀ t ∈ new, t.done = false ∧ t.hasValue = false ∧ t.body.level = j + 1 ∧
      t.body.isSub = st1.isSubOn)
    (hnewown : ∀ m, m < new.length → s.tasks.length + m ∈ st1.handles)
    (hsub : ∀ h : Nat, h ∈ st1.handles → h ∈ st.handles ∨ (s.tasks.length ≤ h ∧ h < s.tasks.length + new.length))
    (hkeep : ∀ h : Nat, h ∈ st.handles → ∀ t : Task, s.tasks[h]? = some t → t.live = true → h ∈ st1.handles)
    (hsubOn : st1.isSubOn = st.isSubOn)
    (hwf : st1.wf)
    (hprist : (st.handles = [] ∧ st.naOn = false → st1.handles = [] ∧ st1.naOn = false) ∨
      Reached r stages s (j + 1))
    (hsubH : st1.subH = st.subH ∨ PristineBelow a stages j) :
    Good r a stages' s' := by
  have f1 : ∀ (k : Nat) (t : Task), s.tasks[k]? = some t → s'.tasks[k]? = some t := by
    intro k t h; rw [hs]; exact append_get_old _ _ h
  have f2 : ∀ (k : Nat) (t : Task), s'.tasks[k]? = some t →
      s.tasks[k]? = some t ∨ (s.tasks.length ≤ k ∧ new[k - s.tasks.length]? = some t) := by
    intro k t h; rw [hs] at h; exact append_get_cases _ _ h
  have fran : ∀ h, ran r s h → ran r s' h := by
    intro h hr
    apply ran_mono (s := s) _ hr
    intro k t ht hv; exact ⟨t, f1 k t ht, hv⟩
  refine ⟨?_, ?_, ?_, ?_, ?_, ?_, g.swf⟩
  · intro k t ht hv
    rcases f2 k t ht with h | ⟨_, h⟩
    · exact g.hv k t h hv
    · have := (hnew t (List.mem_of_getElem? h)).2.1
      rw [this] at hv; cases hv
  · intro k t ht hl
    rcases f2 k t ht with h | ⟨hk, h⟩
    · have ho := g.own k t h hl
      unfold Owned at ho ⊢
      cases hlv : t.body.level with
      | zero => rw [hlv] at ho; exact ho
      | succ i =>
        rw [hlv] at ho; simp only at ho ⊢
        obtain ⟨st0, hs0, hm⟩ := ho
        by_cases e : i = j
        · subst e
          rw [hj] at hs0; cases hs0
          exact ⟨st1, hj', hkeep k hm t h hl⟩
        · exact ⟨st0, by rw [hne i e]; exact hs0, hm⟩
    · have hn := hnew t (List.mem_of_getElem? h)
      unfold Owned
      rw [hn.2.2.1]; simp only
      refine ⟨st1, hj', ?_⟩
      have hlt : k - s.tasks.length < new.length := Sched.get_lt h
      have := hnewown (k - s.tasks.length) hlt
      have e : s.tasks.length + (k - s.tasks.length) = k := by omega
      rw [e] at this; exact this
  · intro i sti h hsi hm
    by_cases e : i = j
    · subst e
      rw [hj'] at hsi; cases hsi
      rcases hsub h hm with h1 | ⟨h1, h2⟩
      · obtain ⟨t, ht, hl, hb⟩ := g.hk i st h hj h1
        exact ⟨t, f1 h t ht, hl, by rw [hsubOn]; exact hb⟩
      · have hlt : h - s.tasks.length < new.length := by omega
        refine ⟨new[h - s.tasks.length], ?_, ?_⟩
        · rw [hs, List.getElem?_append_right h1]; exact List.getElem?_eq_getElem hlt
        · have := hnew _ (List.getElem_mem hlt)
          exact ⟨this.2.2.1, this.2.2.2⟩
    · rw [hne i e] at hsi
      obtain ⟨t, ht, hl, hb⟩ := g.hk i sti h hsi hm
      exact ⟨t, f1 h t ht, hl, hb⟩
  · intro h e
    obtain ⟨t, ht, hl⟩ := g.hks h e
    exact ⟨t, f1 h t ht, hl⟩
  · intro i sti h hsi e hn
    have hn' : ¬ ran r s h := fun hr => hn (fran h hr)
    by_cases ei : i = j
    · subst ei
      rw [hj'] at hsi; cases hsi
      have hp : PristineBelow a stages i := by
        rcases hsubH with h1 | h1
        · exact g.prist i st h hj (by rw [← h1]; exact e) hn'
        · exact h1
      exact hp.of_low (fun j' hj'' => hne j' (by omega))
    · rw [hne i ei] at hsi
      have hp := g.prist i sti h hsi e hn'
      refine ⟨hp.1, hp.2.1, ?_⟩
      intro j' st' hj'' hs'
      by_cases ej : j' = j
      · subst ej
        rw [hj'] at hs'; cases hs'
        rcases hprist with h1 | h1
        · exact h1 (hp.2.2 j' st hj'' hj)
        · exact absurd (h1 i sti h (by omega) hsi e) hn'
      · rw [hne j' ej] at hs'
        exact hp.2.2 j' st' hj'' hs'
  · intro i sti hsi
    by_cases e : i = j
    · subst e; rw [hj'] at hsi; cases hsi; exact hwf
    · rw [hne i e] at hsi; exact g.wf i sti hsi

/-- The stage changes, the scheduler does not. -/
theorem Good.stage0 {r : Option TaskId} {a : Info} {stages stages' : List Stage} {s : Sched}
    {j : Nat} {st st1 : Stage}
    (g : Good r a stages s)
    (hj : stages[j]? = some st) (hj' : stages'[j]? = some st1)
    (hne : ∀ i, i ≠ j → stages'[i]? = stages[i]?)
    (hsub : ∀ h : Nat, h ∈ st1.handles → h ∈ st.handles)
    (hkeep : ∀ h : Nat, h ∈ st.handles → ∀ t : Task, s.tasks[h]? = some t → t.live = true → h ∈ st1.handles)
    (hsubOn : st1.isSubOn = st.isSubOn)
    (hwf : st1.wf)
    (hprist : (st.handles = [] ∧ st.naOn = false → st1.handles = [] ∧ st1.naOn = false) ∨
      Reached r stages s (j + 1))
    (hsubH : st1.subH = st.subH) :
    Good r a stages' s :=
  g.stage (new := []) hj hj' hne (by simp) (by simp) (by simp) (fun h hm => Or.inl (hsub h hm))
    hkeep hsubOn hwf hprist (Or.inl hsubH)

/-! ### the source part -/

theorem Good.srcAlive {r : Option TaskId} {a : Info} {stages : List Stage} {s : Sched}
    (g : Good r a stages s) (b : Bool) (hb : b = false ∨ Reached r stages s 0) :
    Good r ⟨a.src, a.srcTask, b⟩ stages s where
  hv := g.hv
  own := g.own
  hk := g.hk
  hks := g.hks
  prist := by
    intro i st h hs e hn
    have hp := g.prist i st h hs e hn
    refine ⟨hp.1, ?_, hp.2.2⟩
    rcases hb with hb | hb
    · exact hb
    · exact absurd (hb i st h (Nat.zero_le _) hs e) hn
  wf := g.wf
  swf := g.swf

theorem Good.srcTask {r : Option TaskId} {a : Info} {stages : List Stage} {s s' : Sched} {t : Task}
    (g : Good r a stages s) (hs : s'.tasks = s.tasks ++ [t])
    (hd : t.done = false) (hv : t.hasValue = false) (hl : t.body.level = 0)
    (hnone : a.srcTask = none) (hsrc : a.src.hasTask = true) (hr : Reached r stages s 0) :
    Good r ⟨a.src, some s.tasks.length, a.srcAlive⟩ stages s' := by
  have f1 : ∀ (k : Nat) (u : Task), s.tasks[k]? = some u → s'.tasks[k]? = some u := by
    intro k u h; rw [hs]; exact append_get_old _ _ h
  have f2 : ∀ (k : Nat) (u : Task), s'.tasks[k]? = some u →
      s.tasks[k]? = some u ∨ (s.tasks.length ≤ k ∧ [t][k - s.tasks.length]? = some u) := by
    intro k u h; rw [hs] at h; exact append_get_cases _ _ h
  have fran : ∀ h, ran r s h → ran r s' h := by
    intro h hr
    apply ran_mono (s := s) _ hr
    intro k u ht hv; exact ⟨u, f1 k u ht, hv⟩
  refine ⟨?_, ?_, ?_, ?_, ?_, g.wf, fun _ => hsrc⟩
  · intro k u hu hvu
    rcases f2 k u hu with h | ⟨_, h⟩
    · exact g.hv k u h hvu
    · have : u = t := by
        have := List.mem_of_getElem? h; simpa using this
      subst this; rw [hv] at hvu; cases hvu
  · intro k u hu hlu
    rcases f2 k u hu with h | ⟨hk, h⟩
    · have ho := g.own k u h hlu
      unfold Owned at ho ⊢
      cases hlv : u.body.level with
      | zero => rw [hlv] at ho; simp only at ho; rw [hnone] at ho; cases ho
      | succ i => rw [hlv] at ho; exact ho
    · have hut : u = t := by
        have := List.mem_of_getElem? h; simpa using this
      subst hut
      have hk2 : k - s.tasks.length < 1 := by
        have := Sched.get_lt h; simpa using this
      have hk3 : s.tasks.length = k := by omega
      unfold Owned; rw [hl]; simp only
      rw [hk3]
  · intro j st h hsj hm
    obtain ⟨u, hu, h1, h2⟩ := g.hk j st h hsj hm
    exact ⟨u, f1 h u hu, h1, h2⟩
  · intro h e
    simp only at e; cases e
    refine ⟨t, ?_, hl⟩
    rw [hs]; simp
  · intro i st h hsi e hn
    exact absurd (fran h (hr i st h (Nat.zero_le _) hsi e)) hn

end Rx.T
