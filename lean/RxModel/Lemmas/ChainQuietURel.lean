import RxModel.Lemmas.ChainQuietUnsub
/-
  C02 / C17 over the chain model, part 17: what `unsubFrom` never does (`URel`).
-/
namespace Rx.T
open Rx

structure URel (j : Nat) (w w' : TW) : Prop where
  sched : CRel w.sched w'.sched
  alive : w'.srcAlive = true → w.srcAlive = true
  ge : ∀ i, j ≤ i → w'.stages[i]? = w.stages[i]?
  na : ∀ (i : Nat) (st' : Stage), w'.stages[i]? = some st' →
    ∃ st, w.stages[i]? = some st ∧ (st'.naHot = true → st.naHot = true)
  log : w'.log = w.log
  src : w'.src = w.src
  srcTask : w'.srcTask = w.srcTask
  subscribed : w'.subscribed = w.subscribed
  unsubscribed : w'.unsubscribed = w.unsubscribed
  len : w'.stages.length = w.stages.length

theorem URel.refl (j : Nat) (w : TW) : URel j w w :=
  ⟨CRel.refl _, id, fun _ _ => rfl, fun _ st h => ⟨st, h, id⟩, rfl, rfl, rfl, rfl, rfl, rfl⟩

theorem URel.trans {j : Nat} {a b c : TW} (h1 : URel j a b) (h2 : URel j b c) : URel j a c := by
  refine ⟨h1.sched.trans h2.sched, fun h => h1.alive (h2.alive h),
    fun i hi => (h2.ge i hi).trans (h1.ge i hi), ?_, h2.log.trans h1.log, h2.src.trans h1.src,
    h2.srcTask.trans h1.srcTask, h2.subscribed.trans h1.subscribed,
    h2.unsubscribed.trans h1.unsubscribed, h2.len.trans h1.len⟩
  intro i st'' hs
  obtain ⟨st', hs', hn'⟩ := h2.na i st'' hs
  obtain ⟨st, hs0, hn⟩ := h1.na i st' hs'
  exact ⟨st, hs0, fun h => hn (hn' h)⟩

theorem URel.mono {j j' : Nat} {a b : TW} (h : URel j a b) (hj : j ≤ j') : URel j' a b :=
  { h with ge := fun i hi => h.ge i (Nat.le_trans hj hi) }

theorem URel.cancelAll (j : Nat) (w : TW) (cs : List TaskId) : URel j w (w.cancelAll cs) :=
  ⟨CRel.cancelAll cs _, id, fun _ _ => rfl, fun _ st h => ⟨st, h, id⟩, rfl, rfl, rfl, rfl, rfl, rfl⟩

theorem URel.setStage (j : Nat) (w : TW) (st1 : Stage) (h : st1.naHot = false) :
    URel (j + 1) w (w.setStage j st1) := by
  refine ⟨CRel.refl _, id, fun i hi => set_get_ne _ _ _ _ (by omega), ?_, rfl, rfl, rfl, rfl, rfl, ?_⟩
  · intro i st' hs
    by_cases e : i = j
    · subst e
      have hlt : i < w.stages.length := by
        have := Sched.get_lt hs; simpa using this
      simp only [setStage_stages] at hs
      rw [List.getElem?_set_self hlt] at hs
      cases hs
      exact ⟨w.stages[i], List.getElem?_eq_getElem hlt, fun h' => by rw [h] at h'; cases h'⟩
    · rw [setStage_low _ _ _ _ e] at hs
      exact ⟨st', hs, id⟩
  · simp

theorem unsubFrom_urel (j : Nat) : ∀ w : TW, URel j w (w.unsubFrom j) := by
  induction j with
  | zero =>
    intro w
    rw [TW.unsubFrom]
    have h1 : URel 0 w ({ w with srcAlive := false } : TW) :=
      ⟨CRel.refl _, (fun h => by cases h), fun _ _ => rfl, fun _ st h => ⟨st, h, id⟩, rfl, rfl, rfl, rfl,
        rfl, rfl⟩
    split
    · rename_i h _
      exact h1.trans (URel.cancelAll 0 _ [h])
    · exact h1
  | succ j ih =>
    intro w
    cases hst : w.stages[j]? with
    | none => rw [unsubFrom_none w j hst]; exact (ih w).mono (Nat.le_succ _)
    | some st =>
      have sh := unsubFrom_shape w j st hst
      generalize w.unsubFrom (j + 1) = w' at sh
      cases sh with
      | stop h hs hc hh => exact URel.cancelAll _ _ _
      | go cs0 cs1 st1 hran hcov h0 hna =>
        exact ((((URel.cancelAll j w cs0).trans (ih _)).trans (URel.cancelAll j _ cs1)).mono
          (Nat.le_succ _)).trans (URel.setStage j _ st1 (st1.naHot_le hna))
      | goKeep cs0 hran hcov h0 hna =>
        exact ((URel.cancelAll j w cs0).trans (ih _)).mono (Nat.le_succ _)

end Rx.T
