import RxModel.Lemmas.ChainQuietStep
/-
  C02 / C17 over the chain model, part 15: a world nobody emits into
  (before `sub`, after `unsub`, once closed): `emit` only records terminations.
  `PreSub`: the world before `sub`; `sub` establishes `Good`.
-/
namespace Rx.T
open Rx

/-- The Subscriber slot a subject holds for the second input of a two-input stage. -/
def Stage.naHot : Stage → Bool
  | .op2n _ (.hot _) na _ => na
  | _ => false

theorem Stage.naHot_le (st : Stage) (h : st.naOn = false) : st.naHot = false := by
  cases st with
  | op2n o ns na nt => cases ns <;> simp_all [Stage.naHot, Stage.naOn]
  | _ => rfl

/-- No subject holds a slot of the chain. -/
def Detached (w : TW) : Prop :=
  (w.src.isHot = true → w.srcAlive = false) ∧
    ∀ (j : Nat) (st : Stage), w.stages[j]? = some st → st.naHot = false

theorem deliverNotifiers_idle (i : Nat) (n : Notif) (k : Nat) (w : TW)
    (h : ∀ (j : Nat) (st : Stage), w.stages[j]? = some st → st.naHot = false) :
    TW.deliverNotifiers w i n k = w := by
  induction k with
  | zero => rfl
  | succ k ih =>
    simp only [TW.deliverNotifiers, ih]
    split
    · rename_i st j na nt hk
      have := h k _ hk
      simp only [Stage.naHot] at this
      subst this
      simp
    · rfl

theorem step_emit_idle (w : TW) (i : Nat) (n : Notif) (h : Detached w) :
    w.step (.emit i n) =
      if w.terminated.contains i then w
      else if n.isTerm then { w with terminated := i :: w.terminated } else w := by
  rw [step_emit_eq]
  have h1 : ∀ w1 : TW, emitSrc w w1 i n = w1 := by
    intro w1
    unfold emitSrc
    split
    · rename_i j hsrc
      have := h.1 (by rw [hsrc]; rfl)
      simp [this]
    · rfl
  rw [h1]
  split
  · rfl
  · split
    · exact deliverNotifiers_idle i n _ _ h.2
    · exact deliverNotifiers_idle i n _ _ h.2

/-- The world before `sub`. -/
structure PreSub (w : TW) : Prop where
  tasks : w.sched.tasks = []
  timers : w.sched.timers = []
  prist : PristineBelow w.info w.stages w.stages.length
  wf : ∀ (j : Nat) (st : Stage), w.stages[j]? = some st → st.wf
  unsub : w.unsubscribed = false

theorem PreSub.good {w : TW} (r : Option TaskId) (p : PreSub w) : GoodW r w := by
  have hh : ∀ (j : Nat) (st : Stage), w.stages[j]? = some st → st.handles = [] := fun j st hs =>
    (p.prist.2.2 j st (Sched.get_lt hs) hs).1
  refine ⟨?_, ?_, ?_, ?_, ?_, p.wf, ?_⟩
  · intro k t ht; rw [p.tasks] at ht; simp at ht
  · intro k t ht; rw [p.tasks] at ht; simp at ht
  · intro j st h hs hm; rw [hh j st hs] at hm; cases hm
  · intro h e; rw [show w.info.srcTask = none from p.prist.1] at e; cases e
  · intro i st h hs e
    have := (subH_mem_handles e).1
    rw [hh i st hs] at this; cases this
  · intro e; rw [show w.info.srcTask = none from p.prist.1] at e; cases e

theorem PreSub.detached {w : TW} (p : PreSub w) : Detached w :=
  ⟨fun _ => p.prist.2.1, fun j st hs => st.naHot_le (p.prist.2.2 j st (Sched.get_lt hs) hs).2⟩

theorem step_sub_good {w : TW} (p : PreSub w) (hs : w.subscribed = false) :
    GoodW none (w.step .sub) ∧ (w.step .sub).subscribed = true ∧ (w.step .sub).unsubscribed = false := by
  simp only [TW.step, hs]
  have g0 : GoodW none ({ w with subscribed := true } : TW) := p.good none
  have hr : ReachedW none ({ w with subscribed := true } : TW) w.stages.length := by
    intro i st h hi hst _
    have := Sched.get_lt hst
    exact absurd this (by simp only at hi ⊢; omega)
  obtain ⟨g1, f1⟩ := subscribeFrom_good w.stages.length _ g0 p.prist hr
  exact ⟨g1, f1.fl.1, f1.fl.2.trans p.unsub⟩

/-- Events other than `sub` do nothing to a world that has not been subscribed. -/
theorem PreSub.step {w : TW} (p : PreSub w) (hs : w.subscribed = false) (e : TW.Ev) :
    PreSub (w.step e) ∧ (w.step e).subscribed = w.subscribed ∨
      e = .sub := by
  cases e with
  | sub => right; rfl
  | emit i n =>
    left
    rw [step_emit_idle w i n p.detached]
    split
    · exact ⟨p, rfl⟩
    · split
      · exact ⟨⟨p.tasks, p.timers, p.prist, p.wf, p.unsub⟩, rfl⟩
      · exact ⟨p, rfl⟩
  | unsub =>
    left
    simp only [TW.step, hs]
    exact ⟨p, hs⟩
  | adv d =>
    left
    exact ⟨⟨p.tasks, p.timers, p.prist, p.wf, p.unsub⟩, rfl⟩
  | fire i =>
    left
    have : w.sched.dueTimers = [] := by simp [Sched.dueTimers, p.timers]
    simp only [TW.step, this]
    exact ⟨p, rfl⟩
  | poll i =>
    left
    have : w.sched.liveTasks = [] := by simp [Sched.liveTasks, p.tasks]
    simp only [TW.step, this]
    exact ⟨p, rfl⟩
  | run =>
    left
    have h1 : w.sched.dueTimers = [] := by simp [Sched.dueTimers, p.timers]
    have h2 : w.sched.liveTasks = [] := by simp [Sched.liveTasks, p.tasks]
    have : TW.runLoop (9999 + 1) w = w := by
      rw [TW.runLoop]
      simp [h1, h2]
    have hstep : w.step .run = TW.runLoop (9999 + 1) w := rfl
    rw [hstep, this]
    exact ⟨p, rfl⟩

end Rx.T
