import RxModel.Lemmas.ChainRateMain
/-
  C09 (chain model), beyond the safety clause: debounce — and throttle with a
  trailing edge — never lose the FINAL item of a source that completes: once
  `complete` is at the probe, the last item at the probe is the last item the
  source emitted.
-/
namespace Rx.T
open Rx Rx.Spec

/-- Stages whose trailing cell always holds the newest undelivered item. -/
def Stage.keepsLast : Stage → Bool
  | .debounce _ _ _ _ => true
  | .throttle _ e _ _ _ => e.hasTrailing
  | _ => false

/-- While the subject feeds the stage, log ++ trailing candidate ends with the newest
    emitted item; a logged `complete` freezes this with an empty cell. -/
def PLast : RatePred := fun st log E a T =>
  ∃ alive tr, st.trail = some (alive, tr) ∧ st.keepsLast = true ∧
    (a = true → T = false → alive = true ∧ (items log ++ tr.toList).getLast? = E.getLast?) ∧
    (Notif.complete ∈ log → alive = false ∧ T = true ∧ (items log).getLast? = E.getLast?)

theorem PLast.intro {st : Stage} {log : List Notif} {E : List Val} {a T : Bool} (alive : Bool)
    (tr : Option Val) (h1 : st.trail = some (alive, tr)) (h2 : st.keepsLast = true)
    (h3 : a = true → T = false → alive = true ∧ (items log ++ tr.toList).getLast? = E.getLast?)
    (h4 : Notif.complete ∈ log → alive = false ∧ T = true ∧ (items log).getLast? = E.getLast?) :
    PLast st log E a T := ⟨alive, tr, h1, h2, h3, h4⟩

theorem mem_snoc_next {log : List Notif} {v : Val} (h : Notif.complete ∈ log ++ [Notif.next v]) :
    Notif.complete ∈ log := by simpa using h

theorem PLast.spec : RateSpec PLast where
  next := by
    rintro st log E v s ⟨alive, tr, ht, hk, hfull, hc⟩
    have hnc : Notif.complete ∉ log := fun h => absurd (hc h).2.1 (by simp)
    obtain ⟨hal, _⟩ := hfull rfl rfl
    subst hal
    cases st with
    | debounce d al tr' hd =>
      simp only [Stage.trail, Option.some.injEq, Prod.mk.injEq] at ht; obtain ⟨rfl, rfl⟩ := ht
      simp only [Stage.feed, Stage.onNotif, Stage.afterEmit, List.append_nil]
      exact PLast.intro true (some v) rfl rfl (fun _ _ => ⟨rfl, by simp⟩) (fun h => absurd h hnc)
    | throttle d e al tr' hd =>
      simp only [Stage.trail, Option.some.injEq, Prod.mk.injEq] at ht; obtain ⟨rfl, rfl⟩ := ht
      have closedCase : PLast (.throttle d e true (if e.hasLeading then none else if e.hasTrailing then some v else tr')
            (some (s.scheduleOnce (.throttle 0) (some d)).2))
          (log ++ if (e.hasLeading && true) = true then [Notif.next v] else []) (E ++ [v]) true false := by
        cases e <;> simp only [Stage.keepsLast, Edge.hasTrailing, Bool.false_eq_true] at hk <;>
          simp only [Edge.hasLeading, Edge.hasTrailing, Bool.and_true, if_true,
            Bool.false_eq_true, if_false, List.append_nil]
        · exact PLast.intro true (some v) rfl rfl (fun _ _ => ⟨rfl, by simp⟩) (fun h => absurd h hnc)
        · exact PLast.intro true none rfl rfl (fun _ _ => ⟨rfl, by simp [items_snoc_next]⟩)
            (fun h => absurd (mem_snoc_next h) hnc)
      have openCase : ∀ k, PLast (.throttle d e true (if e.hasTrailing then some v else tr') (some k))
          (log ++ []) (E ++ [v]) true false := by
        intro k
        cases e <;> simp only [Stage.keepsLast, Edge.hasTrailing, Bool.false_eq_true] at hk <;>
          simp only [Edge.hasTrailing, if_true, List.append_nil]
        · exact PLast.intro true (some v) rfl rfl (fun _ _ => ⟨rfl, by simp⟩) (fun h => absurd h hnc)
        · exact PLast.intro true (some v) rfl rfl (fun _ _ => ⟨rfl, by simp⟩) (fun h => absurd h hnc)
      cases hd with
      | none =>
        simp only [Stage.feed, Stage.onNotif, if_true, Stage.afterEmit]
        exact closedCase
      | some k =>
        cases hcl : s.handleClosed k
        · simp only [Stage.feed, Stage.onNotif, hcl, Bool.false_eq_true, if_false, Stage.afterEmit]
          exact openCase k
        · simp only [Stage.feed, Stage.onNotif, hcl, if_true, Stage.afterEmit]
          exact closedCase
    | _ => simp [Stage.trail] at ht
  skip := by
    rintro st log E v ⟨alive, tr, ht, hk, _, hc⟩
    exact ⟨alive, tr, ht, hk, fun h => by simp at h, fun h => absurd (hc h).2.1 (by simp)⟩
  term := by
    rintro st log E n s hn ⟨alive, tr, ht, hk, hfull, hc⟩
    have hnc : Notif.complete ∉ log := fun h => absurd (hc h).2.1 (by simp)
    obtain ⟨hal, hlast⟩ := hfull rfl rfl
    subst hal
    have key : ∀ tr' : Option Val, (items log ++ tr'.toList).getLast? = E.getLast? →
        (items (log ++ ((match tr' with | some v => [Notif.next v] | none => []) ++ [Notif.complete]))).getLast?
          = E.getLast? := by
      intro tr' h
      cases tr' with
      | none => simpa [items_append, items] using h
      | some v => simpa [items_append, items] using h
    cases st with
    | debounce d al tr' hd =>
      simp only [Stage.trail, Option.some.injEq, Prod.mk.injEq] at ht; obtain ⟨rfl, rfl⟩ := ht
      cases n with
      | next v => simp [Notif.isTerm] at hn
      | error er =>
        simp only [Stage.feed, Stage.onNotif, Stage.afterEmit, if_true]
        exact PLast.intro false tr' rfl rfl (fun h => by simp at h)
          (fun h => absurd (by simpa using h) hnc)
      | complete =>
        simp only [Stage.feed, Stage.onNotif, Stage.afterEmit, if_true]
        exact PLast.intro false none rfl rfl (fun h => by simp at h) (fun _ => ⟨rfl, rfl, key tr' hlast⟩)
    | throttle d e al tr' hd =>
      simp only [Stage.trail, Option.some.injEq, Prod.mk.injEq] at ht; obtain ⟨rfl, rfl⟩ := ht
      cases n with
      | next v => simp [Notif.isTerm] at hn
      | error er =>
        simp only [Stage.feed, Stage.onNotif, Stage.afterEmit, if_true]
        exact PLast.intro false tr' rfl hk (fun h => by simp at h)
          (fun h => absurd (by simpa using h) hnc)
      | complete =>
        simp only [Stage.feed, Stage.onNotif, Stage.afterEmit, if_true]
        exact PLast.intro false none rfl hk (fun h => by simp at h) (fun _ => ⟨rfl, rfl, key tr' hlast⟩)
    | _ => simp [Stage.trail] at ht
  termDead := by
    rintro st log E ⟨alive, tr, ht, hk, _, hc⟩
    exact ⟨alive, tr, ht, hk, fun h => by simp at h, fun h => absurd (hc h).2.1 (by simp)⟩
  unsub := by
    rintro st log E a T ⟨alive, tr, ht, hk, _, hc⟩
    cases st with
    | debounce d al tr' hd => exact ⟨alive, tr, ht, hk, fun h => by simp at h, hc⟩
    | throttle d e al tr' hd => exact ⟨alive, tr, ht, hk, fun h => by simp at h, hc⟩
    | _ => simp [Stage.trail] at ht
  body := by
    rintro st log E a T ⟨alive, tr, ht, hk, hfull, hc⟩
    have key : ∀ (al : Bool) (v : Val), (some (alive, tr) = some (al, some v)) →
        (a = true → T = false → al = true ∧
          (items (log ++ if al = true then [Notif.next v] else []) ++ []).getLast? = E.getLast?) ∧
        (Notif.complete ∈ (log ++ if al = true then [Notif.next v] else []) →
          al = false ∧ T = true ∧
            (items (log ++ if al = true then [Notif.next v] else [])).getLast? = E.getLast?) := by
      intro al v h
      simp only [Option.some.injEq, Prod.mk.injEq] at h; obtain ⟨rfl, rfl⟩ := h
      cases alive with
      | false =>
        refine ⟨fun h1 h2 => ?_, fun h => ?_⟩
        · exact absurd (hfull h1 h2).1 (by simp)
        · simpa using hc (by simpa using h)
      | true =>
        refine ⟨fun h1 h2 => ⟨rfl, ?_⟩, fun h => ?_⟩
        · simpa [items_snoc_next] using (hfull h1 h2).2
        · exact absurd (hc (mem_snoc_next h)).1 (by simp)
    cases st with
    | debounce d al tr' hd =>
      have ht0 := ht
      simp only [Stage.trail] at ht
      cases tr' with
      | none =>
        show PLast (Stage.debounce d al none hd) (log ++ []) E a T
        rw [List.append_nil]
        exact ⟨alive, tr, ht0, hk, hfull, hc⟩
      | some v =>
        obtain ⟨h1, h2⟩ := key al v ht.symm
        exact PLast.intro al none rfl rfl h1 h2
    | throttle d e al tr' hd =>
      have ht0 := ht
      simp only [Stage.trail] at ht
      cases tr' with
      | none =>
        show PLast (Stage.throttle d e al none hd) (log ++ []) E a T
        rw [List.append_nil]
        exact ⟨alive, tr, ht0, hk, hfull, hc⟩
      | some v =>
        obtain ⟨h1, h2⟩ := key al v ht.symm
        exact PLast.intro al none rfl hk h1 h2
    | _ => simp [Stage.trail] at ht

theorem init_last (st : Stage) (h : st.trail = some (true, none)) (hk : st.keepsLast = true)
    (hr : st.isRate = true) :
    Inv PLast [] false (TW.step { src := .hot 0, stages := [st] } .sub) := by
  cases st with
  | debounce d al tr hd =>
    refine ⟨rfl, rfl, rfl, rfl, rfl, ?_, _, rfl, rfl, ?_⟩
    · intro t ht; simp [TW.step, TW.subscribeFrom, TW.subscribeSource] at ht
    · simp only [Stage.trail, Option.some.injEq, Prod.mk.injEq] at h; obtain ⟨rfl, rfl⟩ := h
      exact PLast.intro true none rfl rfl (fun _ _ => ⟨rfl, rfl⟩)
        (fun hc => by simp [TW.step, TW.subscribeFrom, TW.subscribeSource] at hc)
  | throttle d e al tr hd =>
    refine ⟨rfl, rfl, rfl, rfl, rfl, ?_, _, rfl, rfl, ?_⟩
    · intro t ht; simp [TW.step, TW.subscribeFrom, TW.subscribeSource] at ht
    · simp only [Stage.trail, Option.some.injEq, Prod.mk.injEq] at h; obtain ⟨rfl, rfl⟩ := h
      exact PLast.intro true none rfl hk (fun _ _ => ⟨rfl, rfl⟩)
        (fun hc => by simp [TW.step, TW.subscribeFrom, TW.subscribeSource] at hc)
  | _ => simp [Stage.trail] at h

theorem last_final (st : Stage) (h : st.trail = some (true, none)) (hk : st.keepsLast = true)
    (hr : st.isRate = true) (evs : List TW.Ev) (hc : Notif.complete ∈ (rateRun st evs).log) :
    (items (rateRun st evs).log).getLast? = (itemsEmitted evs).getLast? := by
  obtain ⟨T, I⟩ := Inv.run PLast.spec _ (init_last st h hk hr) evs
  obtain ⟨st', _, _, alive, tr, _, _, _, hcl⟩ := I.stage
  exact (hcl hc).2.2

end Rx.T
