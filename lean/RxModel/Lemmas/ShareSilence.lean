import RxModel.Lemmas.ShareLinear
/-
  Helper lemmas for C02M (share): a subscription whose cell has been emptied
  never receives anything again; a label without live cell receives nothing
  until it is subscribed again.
-/
namespace Rx.Share
namespace W

theorem bcast_mem {cells : List (Option Nat)} {obs : List Nat} {n : Notif} {x : IDlv}
    (h : x ∈ bcastI cells obs n) : (cells[x.1]?).join = some x.2.1 := by
  simp only [bcastI, List.mem_filterMap] at h
  obtain ⟨id, _, hid⟩ := h
  cases hc : (cells[id]?).join with
  | none => simp [hc] at hid
  | some l =>
    simp only [hc, Option.map_some, Option.some.injEq] at hid
    subst hid
    exact hc

theorem subjCallI_mem {w : W} {n : Notif} {x : IDlv} (h : x ∈ subjCallI w n) :
    (w.cells[x.1]?).join = some x.2.1 := by
  simp only [subjCallI] at h
  split at h
  · exact bcast_mem h
  · cases h

/-! ### per subscription -/

/-- Cells are only appended or emptied. -/
def Mono (w w' : W) : Prop :=
  w.cells.length ≤ w'.cells.length ∧
    ∀ id l : Nat, id < w.cells.length → (w'.cells[id]?).join = some l → (w.cells[id]?).join = some l

/-- Deliveries go to cells that are live (or did not exist yet) at `w`. -/
def DlvLive (w : W) (d : List IDlv) : Prop :=
  ∀ x ∈ d, x.1 < w.cells.length → (w.cells[x.1]?).join = some x.2.1

def R (w w' : W) (d : List IDlv) : Prop := Mono w w' ∧ DlvLive w d

theorem R.comp {w w1 w2 : W} {d1 d2 : List IDlv} (h1 : R w w1 d1) (h2 : R w1 w2 d2) :
    R w w2 (d1 ++ d2) := by
  refine ⟨⟨Nat.le_trans h1.1.1 h2.1.1, ?_⟩, ?_⟩
  · intro id l hlt hc
    exact h1.1.2 id l hlt (h2.1.2 id l (Nat.lt_of_lt_of_le hlt h1.1.1) hc)
  · intro x hx hlt
    rcases List.mem_append.1 hx with hx | hx
    · exact h1.2 x hx hlt
    · exact h1.1.2 _ _ hlt (h2.2 x hx (Nat.lt_of_lt_of_le hlt h1.1.1))

theorem R.silent {w w' : W} (h : Mono w w') : R w w' [] := ⟨h, fun _ hx => by cases hx⟩

theorem Mono.refl (w : W) : Mono w w := ⟨Nat.le_refl _, fun _ _ _ h => h⟩

theorem length_foldl_none (obs : List Nat) : ∀ cs : List (Option Nat),
    (obs.foldl (fun cs id => cs.set id none) cs).length = cs.length := by
  induction obs with
  | nil => intro cs; rfl
  | cons o r ih => intro cs; simp [ih]

theorem tapCall_mono (w : W) (n : Notif) : Mono w (w.tapCall n).1 := by
  have hs := tapCall_shrink w n
  refine ⟨?_, fun id l _ h => hs.2 id l h⟩
  cases n with
  | next v => rw [tapCall_next_fst]; exact Nat.le_refl _
  | error e =>
    rw [tapCall_term_eq w _ rfl]
    simp only [subjTerminal]
    split
    · simp [length_foldl_none]
    · exact Nat.le_refl _
  | complete =>
    rw [tapCall_term_eq w _ rfl]
    simp only [subjTerminal]
    split
    · simp [length_foldl_none]
    · exact Nat.le_refl _

theorem tapCall_R (w : W) (n : Notif) : R w (w.tapCall n).1 (subjCallI w n) :=
  ⟨tapCall_mono w n, fun _ hx _ => subjCallI_mem hx⟩

theorem coldEmit_R (xs : List Val) : ∀ w : W, R w (w.coldEmit xs).1 (coldEmitI w xs) := by
  induction xs with
  | nil => intro w; exact tapCall_R w _
  | cons v r ih =>
    intro w
    simp only [coldEmit, coldEmitI]
    exact R.comp (tapCall_R w _) (ih _)

theorem doConnect_R (w : W) (keep : Bool) : R w (w.doConnect keep).1 (doConnectI w) := by
  cases hc : w.cold with
  | none =>
    simp only [doConnect, doConnectI, hc]
    exact R.silent ⟨Nat.le_refl _, fun _ _ _ h => h⟩
  | some xs =>
    have := coldEmit_R xs { w with connected := true, srcSubs := w.srcSubs + 1 }
    simp only [hc] at this
    simp only [doConnect, doConnectI, hc]
    exact ⟨⟨this.1.1, this.1.2⟩, this.2⟩

theorem attach_mono (w : W) (k : Nat) : Mono w (w.attach k) := by
  obtain ⟨_, x, hc, _⟩ := attach_cells_handles w k
  rw [Mono, hc]
  refine ⟨by simp, ?_⟩
  intro id l hlt h
  rw [List.getElem?_append_left hlt] at h
  exact h

theorem subscribe_R (w : W) (k : Nat) : R w (w.subscribe k).1 (subscribeI w k) := by
  have ha : R w (w.attach k) [] := R.silent (attach_mono w k)
  simp only [subscribe, subscribeI]
  cases hk : w.kind with
  | publish => exact ha
  | share =>
    simp only
    cases hc : w.connected with
    | true => simpa using ha
    | false =>
      simp only [Bool.false_eq_true, if_false]
      simpa using R.comp ha (doConnect_R (w.attach k) (keepConn w.model))

theorem unsubscribe_mono (w : W) (k : Nat) : Mono w (w.unsubscribe k) := by
  cases hk : (w.handles[k]?).join with
  | none => rw [unsubscribe_none w k hk]; exact Mono.refl w
  | some id =>
    obtain ⟨hc, _⟩ := unsubscribe_cells_handles w k id hk
    rw [Mono, hc]
    exact ⟨by simp, fun _ _ _ h => cell_set_none h⟩

theorem hotEmit_R (w : W) (n : Notif) : R w (w.hotEmit n).1 (hotEmitI w n) := by
  cases n with
  | next v =>
    simp only [hotEmit, hotEmitI]
    split
    · exact tapCall_R w _
    · exact R.silent (Mono.refl w)
  | error e =>
    simp only [hotEmit, hotEmitI]
    split
    · split
      · have := tapCall_R { w with hotOpen := false, connCell := false } (.error e)
        exact ⟨⟨this.1.1, this.1.2⟩, this.2⟩
      · exact R.silent ⟨Nat.le_refl _, fun _ _ _ h => h⟩
    · exact R.silent (Mono.refl w)
  | complete =>
    simp only [hotEmit, hotEmitI]
    split
    · split
      · have := tapCall_R { w with hotOpen := false, connCell := false } .complete
        exact ⟨⟨this.1.1, this.1.2⟩, this.2⟩
      · exact R.silent ⟨Nat.le_refl _, fun _ _ _ h => h⟩
    · exact R.silent (Mono.refl w)

theorem step_R (w : W) (e : Ev) : R w (w.step e).1 (stepI w e) := by
  cases e with
  | sub k => simpa [step, stepI] using subscribe_R w k
  | unsub k => simpa [step, stepI] using R.silent (unsubscribe_mono w k)
  | emit n => simpa [step, stepI] using hotEmit_R w n
  | connect =>
    simp only [step, stepI]
    cases hk : w.kind with
    | publish =>
      simp only
      cases hc : w.connected with
      | true => simpa using R.silent (Mono.refl w)
      | false => simpa using doConnect_R w true
    | share => exact R.silent (Mono.refl w)
  | q => exact R.silent (Mono.refl w)

theorem run_R (es : List Ev) : ∀ w : W, R w (w.run es).1 (runI w es) := by
  induction es with
  | nil => intro w; exact R.silent (Mono.refl w)
  | cons e r ih =>
    intro w
    rw [run_fst_cons]
    exact R.comp (step_R w e) (ih _)

/-- An allocated, emptied cell. -/
def DeadCell (id : Nat) (w : W) : Prop := id < w.cells.length ∧ (w.cells[id]?).join = none

theorem run_deadCell (es : List Ev) (w : W) (id : Nat) (h : DeadCell id w) :
    ∀ x ∈ runI w es, x.1 ≠ id := by
  intro x hx e
  subst e
  have := (run_R es w).2 x hx h.1
  rw [h.2] at this
  cases this

/-- Handles point to allocated cells. -/
def HB (w : W) : Prop := ∀ k id : Nat, (w.handles[k]?).join = some id → id < w.cells.length

theorem HB.shrink {w w' : W} (h : HB w) (hs : Shrink w w') (hm : Mono w w') : HB w' := by
  intro k id hk
  rw [hs.1] at hk
  exact Nat.lt_of_lt_of_le (h k id hk) hm.1

theorem attach_HB (w : W) (k : Nat) (h : HB w) : HB (w.attach k) := by
  obtain ⟨hh, x, hc, _⟩ := attach_cells_handles w k
  intro k' id hk
  rw [hh, List.getElem?_set] at hk
  rw [hc]
  simp only [List.length_append, List.length_singleton]
  split at hk
  · split at hk
    · simp only [Option.join_some, Option.some.injEq] at hk; omega
    · cases hk
  · have := h k' id hk; omega

theorem step_HB (w : W) (e : Ev) (h : HB w) : HB (w.step e).1 := by
  cases e with
  | sub k =>
    have ha := attach_HB w k h
    simp only [step, subscribe]
    cases hkind : w.kind with
    | publish => exact ha
    | share =>
      simp only
      split
      · exact ha
      · exact ha.shrink (doConnect_shrink _ _) (doConnect_R _ _).1
  | unsub k =>
    simp only [step]
    cases hk : (w.handles[k]?).join with
    | none => rw [unsubscribe_none w k hk]; exact h
    | some id =>
      obtain ⟨hc, hh⟩ := unsubscribe_cells_handles w k id hk
      intro k' id' hk'
      rw [hh, List.getElem?_set] at hk'
      rw [hc, List.length_set]
      split at hk'
      · split at hk' <;> cases hk'
      · exact h k' id' hk'
  | emit n => exact h.shrink (hotEmit_shrink w n) (hotEmit_R w n).1
  | connect =>
    simp only [step]
    cases hkind : w.kind with
    | publish =>
      simp only
      split
      · exact h
      · exact h.shrink (doConnect_shrink _ _) (doConnect_R _ _).1
    | share => exact h
  | q => exact h

theorem run_HB (es : List Ev) : ∀ w : W, HB w → HB (w.run es).1 := by
  induction es with
  | nil => intro w h; exact h
  | cons e r ih => intro w h; rw [run_fst_cons]; exact ih _ (step_HB w e h)

theorem init_HB (m : Model) (k : Kind) (cold : Option (List Val)) : HB (init m k cold) := by
  intro l id h
  simp only [init] at h
  match l, h with
  | 0, h => simp at h
  | 1, h => simp at h
  | 2, h => simp at h
  | n + 3, h => simp at h

theorem unsubscribe_deadCell (w : W) (k id : Nat) (hb : HB w)
    (hk : (w.handles[k]?).join = some id) : DeadCell id (w.unsubscribe k) := by
  obtain ⟨hc, _⟩ := unsubscribe_cells_handles w k id hk
  rw [DeadCell, hc]
  exact ⟨by simpa using hb k id hk, cell_set_self _ _⟩

/-! ### per label -/

/-- No live cell carries label `k`. -/
def NoLive (k : Nat) (w : W) : Prop := ∀ id l : Nat, (w.cells[id]?).join = some l → l ≠ k

theorem NoLive.shrink {k : Nat} {w w' : W} (h : NoLive k w) (hs : Shrink w w') : NoLive k w' :=
  fun id l hc => h id l (hs.2 id l hc)

def Lab (k : Nat) (w w' : W) (d : List IDlv) : Prop :=
  NoLive k w → NoLive k w' ∧ ∀ x ∈ d, x.2.1 ≠ k

theorem Lab.comp {k : Nat} {w w1 w2 : W} {d1 d2 : List IDlv} (h1 : Lab k w w1 d1)
    (h2 : Lab k w1 w2 d2) : Lab k w w2 (d1 ++ d2) := by
  intro h
  obtain ⟨a1, a2⟩ := h1 h
  obtain ⟨b1, b2⟩ := h2 a1
  refine ⟨b1, ?_⟩
  intro x hx
  rcases List.mem_append.1 hx with hx | hx
  · exact a2 x hx
  · exact b2 x hx

theorem tapCall_Lab (k : Nat) (w : W) (n : Notif) : Lab k w (w.tapCall n).1 (subjCallI w n) :=
  fun h => ⟨h.shrink (tapCall_shrink w n), fun _ hx => h _ _ (subjCallI_mem hx)⟩

theorem coldEmit_Lab (k : Nat) (xs : List Val) : ∀ w : W, Lab k w (w.coldEmit xs).1 (coldEmitI w xs) := by
  induction xs with
  | nil => intro w; exact tapCall_Lab k w _
  | cons v r ih =>
    intro w
    simp only [coldEmit, coldEmitI]
    exact Lab.comp (tapCall_Lab k w _) (ih _)

theorem doConnect_Lab (k : Nat) (w : W) (keep : Bool) : Lab k w (w.doConnect keep).1 (doConnectI w) := by
  cases hc : w.cold with
  | none =>
    simp only [doConnect, doConnectI, hc]
    exact fun h => ⟨h, fun _ hx => by cases hx⟩
  | some xs =>
    have := coldEmit_Lab k xs { w with connected := true, srcSubs := w.srcSubs + 1 }
    simp only [hc] at this
    simp only [doConnect, doConnectI, hc]
    exact fun h => this h

theorem attach_noLive (k k' : Nat) (w : W) (hne : k' ≠ k) (h : NoLive k w) : NoLive k (w.attach k') := by
  obtain ⟨_, x, hc, hx⟩ := attach_cells_handles w k'
  intro id l hl
  rw [hc] at hl
  rcases cell_append hl with a | ⟨_, a⟩
  · exact h id l a
  · rcases hx with hx | hx
    · rw [hx] at a; cases a
    · rw [hx] at a
      simp only [Option.some.injEq] at a
      subst a
      exact hne

theorem unsubscribe_cells_sub (w : W) (k : Nat) : ∀ id l : Nat,
    ((w.unsubscribe k).cells[id]?).join = some l → (w.cells[id]?).join = some l := by
  intro id l hl
  cases hk : (w.handles[k]?).join with
  | none => rw [unsubscribe_none w k hk] at hl; exact hl
  | some id0 =>
    rw [(unsubscribe_cells_handles w k id0 hk).1] at hl
    exact cell_set_none hl

theorem step_Lab (k : Nat) (w : W) (e : Ev) (hne : e ≠ .sub k) : Lab k w (w.step e).1 (stepI w e) := by
  cases e with
  | sub k' =>
    have hk : k' ≠ k := fun e => hne (by rw [e])
    have ha : Lab k w (w.attach k') [] := fun h => ⟨attach_noLive k k' w hk h, fun _ hx => by cases hx⟩
    simp only [step, stepI, subscribe, subscribeI]
    cases hkind : w.kind with
    | publish => exact ha
    | share =>
      simp only
      cases hc : w.connected with
      | true => simpa using ha
      | false =>
        simp only [Bool.false_eq_true, if_false]
        simpa using Lab.comp ha (doConnect_Lab k (w.attach k') (keepConn w.model))
  | unsub k' =>
    intro h
    exact ⟨fun id l hl => h id l (unsubscribe_cells_sub w k' id l hl), fun _ hx => by cases hx⟩
  | emit n =>
    cases n with
    | next v =>
      simp only [step, stepI, hotEmit, hotEmitI]
      split
      · exact tapCall_Lab k w _
      · exact fun h => ⟨h, fun _ hx => by cases hx⟩
    | error err =>
      simp only [step, stepI, hotEmit, hotEmitI]
      split
      · split
        · have := tapCall_Lab k { w with hotOpen := false, connCell := false } (.error err)
          exact fun h => this h
        · exact fun h => ⟨h, fun _ hx => by cases hx⟩
      · exact fun h => ⟨h, fun _ hx => by cases hx⟩
    | complete =>
      simp only [step, stepI, hotEmit, hotEmitI]
      split
      · split
        · have := tapCall_Lab k { w with hotOpen := false, connCell := false } .complete
          exact fun h => this h
        · exact fun h => ⟨h, fun _ hx => by cases hx⟩
      · exact fun h => ⟨h, fun _ hx => by cases hx⟩
  | connect =>
    simp only [step, stepI]
    cases hkind : w.kind with
    | publish =>
      simp only
      cases hc : w.connected with
      | true =>
        simp only [↓reduceIte]
        exact fun h => ⟨h, fun _ hx => by cases hx⟩
      | false => simpa using doConnect_Lab k w true
    | share => exact fun h => ⟨h, fun _ hx => by cases hx⟩
  | q => exact fun h => ⟨h, fun _ hx => by cases hx⟩

theorem run_Lab (k : Nat) (es : List Ev) : ∀ w : W, (∀ e ∈ es, e ≠ .sub k) →
    Lab k w (w.run es).1 (runI w es) := by
  induction es with
  | nil => intro w _ h; exact ⟨h, fun _ hx => by cases hx⟩
  | cons e r ih =>
    intro w hes
    rw [run_fst_cons]
    exact Lab.comp (step_Lab k w e (hes e List.mem_cons_self))
      (ih _ (fun e' he' => hes e' (List.mem_cons_of_mem _ he')))

end W
end Rx.Share
