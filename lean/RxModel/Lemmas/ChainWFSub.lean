import RxModel.Lemmas.ChainWFSrc
/-
  C01 over the chain model, part 7: subscription (`subscribeSource`,
  `subscribeFrom`) from a world whose source has not been subscribed yet.
-/
namespace Rx.T
open Rx Rx.Spec

namespace TW

theorem loop_inv {r : Option TaskId} (n : Nat) (fuel : Nat) : ∀ (k : Nat) (w : TW) (up : List Notif),
    WInvU r w up → Rx.terminated up = false → Only r w → w.srcSubscribed = true →
    (∀ i, w.src ≠ .hot i) → (∀ d p, w.src ≠ .interval d p) →
    WInv r (subscribeSource.loop n fuel k w) := by
  induction fuel with
  | zero => intro k w up h _ _ _ _ _; exact ⟨up, h⟩
  | succ f ih =>
    intro k w up h hnt ho hss hh hiv
    unfold subscribeSource.loop
    split
    · exact ⟨up, h⟩
    · split
      · have h1 : WInvU r { w with pulls := w.pulls + 1 } up := h.ofEq rfl rfl rfl rfl rfl rfl rfl
        have h2 := h1.pushNext (.int k) hnt
        exact ih _ _ _ h2.1 h2.2 (Only.mono ho (push_ext _ 0 _).le) hss hh hiv
      · exact ⟨_, h.pushLast [.complete] hnt (by simp) ho hss (fun i hi => absurd hi (hh i)) hiv⟩

theorem subscribeSource_inv {r : Option TaskId} (w : TW) (h : WInv r w) (ho : Only r w)
    (hss : w.srcSubscribed = false) (hsub : w.subscribed = true) : WInv r w.subscribeSource := by
  obtain ⟨up, hc, hs⟩ := h
  have hnt := (hs.nosrc hss).1
  have hs0 : SrcOK r { w with srcSubscribed := true } up := hs.subscribed0 ho hsub
  have h0 : WInvU r { w with srcSubscribed := true } up := ⟨hc, hs0⟩
  have ho0 : Only r { w with srcSubscribed := true } := ho
  obtain ⟨sched, src, stages, sa, ss, st, term, sub, unsub, pulls, rest, log⟩ := w
  cases src with
  | hot i =>
    simp only [subscribeSource]
    exact ⟨up, h0.ofEq rfl rfl rfl rfl rfl rfl rfl⟩
  | cold s =>
    simp only [subscribeSource]
    have h1 := h0.pushLast s.emit hnt (emit_wf s) ho0 rfl (fun i hi => by cases hi)
      (fun d p hi => by cases hi)
    split
    · exact ⟨_, h1.ofEq rfl rfl rfl rfl rfl rfl rfl⟩
    · exact ⟨_, h1⟩
  | interval d p =>
    simp only [subscribeSource]
    have hs1 := hs0.addTask (sched.scheduleRepeat .tick p none (d.getD p)).1 _ rfl rfl ⟨d, p, rfl⟩
    exact ⟨up, (hs1.invU hc).ofEq rfl rfl rfl rfl rfl rfl rfl⟩
  | timer v dur =>
    simp only [subscribeSource]
    have hs1 := hs0.addCrit ho0 hnt hsub (sched.scheduleOnce (.timerSrc v) (some dur)).1 _ rfl
      ⟨v, dur, rfl⟩ (fun h => by cases h) (fun _ => rfl)
    exact ⟨up, (hs1.invU hc).ofEq rfl rfl rfl rfl rfl rfl rfl⟩
  | iterc n =>
    simp only [subscribeSource]
    exact loop_inv n _ 0 _ up h0 hnt ho0 rfl (fun i hi => by cases hi) (fun d p hi => by cases hi)
  | future res sc =>
    simp only [subscribeSource]
    have hs1 := hs0.addCrit ho0 hnt hsub (sched.scheduleOnce .futureSrc none).1 _ rfl
      ⟨res, sc, rfl⟩ (fun h => by cases h) (fun _ => rfl)
    exact ⟨up, (hs1.invU hc).ofEq rfl rfl rfl rfl rfl rfl rfl⟩
  | stream res sc cyc =>
    simp only [subscribeSource]
    have hs1 := hs0.addCrit ho0 hnt hsub (sched.scheduleOnce .streamSrc none).1 _ rfl
      ⟨res, sc, cyc, rfl⟩ (fun h => by cases h) (fun _ => rfl)
    exact ⟨up, (hs1.invU hc).ofEq rfl rfl rfl rfl rfl rfl rfl⟩

theorem subscribeFrom_inv {r : Option TaskId} (j : Nat) : ∀ (w : TW), WInv r w → Only r w →
    w.srcSubscribed = false → w.subscribed = true → WInv r (subscribeFrom w j) := by
  induction j with
  | zero => intro w h ho hss hsub; exact subscribeSource_inv w h ho hss hsub
  | succ j ih =>
    intro w h ho hss hsub
    unfold subscribeFrom
    split
    · next d cnt alive data t hj =>
      have q : Quiet w (({ w with sched := (w.sched.scheduleRepeat (.bufTick j) d none).1 } : TW).setStage j
          (.bufTime d cnt alive data (some (w.sched.scheduleRepeat (.bufTick j) d none).2))) :=
        (Quiet.ofSched w _ (Sched.Ext.scheduleRepeat _ _ _ _ _ rfl)).trans
          (setStage_quiet _ j _ _ hj (fun _ _ h => h))
      exact ih _ (q.inv h) (q.only ho) (q.srcSubscribed.trans hss) (q.subscribed.trans hsub)
    · next delay t hj =>
      obtain ⟨up, hc, hs⟩ := h
      have hnt := (hs.nosrc hss).1
      have hs1 := hs.addCrit ho hnt hsub (w.sched.scheduleOnce (.subscribe j) delay).1 _ rfl
        trivial (fun _ => rfl) (fun h => by rw [hss] at h; cases h)
      have h1 : WInv r { w with sched := (w.sched.scheduleOnce (.subscribe j) delay).1 } := ⟨up, hc, hs1⟩
      exact (setStage_quiet ({ w with sched := (w.sched.scheduleOnce (.subscribe j) delay).1 } : TW)
        j _ (.subscribeOn delay (some (w.sched.scheduleOnce (.subscribe j) delay).2)) hj
        (fun _ _ h => h)).inv h1
    · next st nsrc na nt hj =>
      split
      · exact (subscribeNotifier_quiet _ j).inv (ih w h ho hss hsub)
      · have q := subscribeNotifier_quiet w j
        exact ih _ (q.inv h) (q.only ho) (q.srcSubscribed.trans hss) (q.subscribed.trans hsub)
    · exact ih w h ho hss hsub

end TW
end Rx.T
