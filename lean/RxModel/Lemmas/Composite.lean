import RxModel.Sub.Composite
/-
  Helper lemmas for RxModel/Props/C17S.lean: leaves never come back to life,
  an unsubscribed composite stays unsubscribed, `is_closed = true` implies that
  every reachable leaf is dead.
-/
namespace Rx.Comp

/-! ### cells -/

theorem cell_ge2 (w : W) (j : Nat) (h : 2 ≤ j) : w.cell j = none := by
  match j, h with
  | (n + 2), _ => rfl

theorem cell_setCell_same (w : W) (j : Nat) (v : Option (List Child)) (h : j < 2) :
    (w.setCell j v).cell j = v := by
  match j, h with
  | 0, _ => rfl
  | 1, _ => rfl

theorem cell_setCell_ne (w : W) (j j' : Nat) (v : Option (List Child)) (h : j' ≠ j) :
    (w.setCell j v).cell j' = w.cell j' := by
  match j, j', h with
  | 0, 0, h => exact absurd rfl h
  | 0, 1, _ => rfl
  | 0, (n + 2), _ => rfl
  | 1, 0, _ => rfl
  | 1, 1, h => exact absurd rfl h
  | 1, (n + 2), _ => rfl
  | (n + 2), _, _ => rfl

theorem alive_setCell (w : W) (j : Nat) (v : Option (List Child)) : (w.setCell j v).alive = w.alive := by
  match j with
  | 0 => rfl
  | 1 => rfl
  | (n + 2) => rfl

theorem cell_kill (w : W) (i j : Nat) : (w.kill i).cell j = w.cell j := by
  match j with
  | 0 => rfl
  | 1 => rfl
  | (n + 2) => rfl

theorem setCell_none_cell_none (w : W) (j j' : Nat) (h : w.cell j' = none) :
    (w.setCell j none).cell j' = none := by
  by_cases hj : j' = j
  · subst hj
    by_cases h2 : j' < 2
    · exact cell_setCell_same w j' none h2
    · exact cell_ge2 _ _ (by omega)
  · rw [cell_setCell_ne w j j' none hj]; exact h

/-! ### leaves never come back to life -/

/-- `w'` has no more live leaves than `w`. -/
def AliveLe (w' w : W) : Prop := ∀ i, w'.alive i = true → w.alive i = true

theorem AliveLe.refl (w : W) : AliveLe w w := fun _ h => h
theorem AliveLe.trans {a b c : W} (h₁ : AliveLe a b) (h₂ : AliveLe b c) : AliveLe a c :=
  fun i h => h₂ i (h₁ i h)

theorem AliveLe.dead {w' w : W} (h : AliveLe w' w) {i : Nat} (hd : w.alive i = false) :
    w'.alive i = false := by
  cases h' : w'.alive i with
  | false => rfl
  | true => rw [h i h'] at hd; exact absurd hd (by decide)

theorem aliveLe_kill (w : W) (i : Nat) : AliveLe (w.kill i) w := by
  intro k h
  simp only [W.kill] at h
  by_cases hk : k = i
  · rw [if_pos hk] at h; exact absurd h (by decide)
  · rw [if_neg hk] at h; exact h

theorem alive_kill_self (w : W) (i : Nat) : (w.kill i).alive i = false := by
  simp [W.kill]

theorem aliveLe_setCell (w : W) (j : Nat) (v : Option (List Child)) : AliveLe (w.setCell j v) w := by
  intro i h; rw [alive_setCell] at h; exact h

theorem unsubAt_aliveLe (k : Nat → W → W) (hk : ∀ j w, AliveLe (k j w) w) :
    ∀ (s : Sub) (w : W), AliveLe (unsubAt k s w) w
  | .unit, w => AliveLe.refl w
  | .leaf i, w => aliveLe_kill w i
  | .multi j, w => hk j w
  | .zip a b, w => (unsubAt_aliveLe k hk b _).trans (unsubAt_aliveLe k hk a w)

theorem foldl_aliveLe (u : Sub → W → W) (hu : ∀ s w, AliveLe (u s w) w) :
    ∀ (cs : List Child) (w : W), AliveLe (cs.foldl (fun w c => unsubChild u c w) w) w
  | [], w => AliveLe.refl w
  | c :: cs, w => by
    refine (foldl_aliveLe u hu cs _).trans ?_
    cases c with
    | sub s => exact hu s w
    | task t => exact AliveLe.refl w

theorem takeCell_aliveLe (u : Sub → W → W) (hu : ∀ s w, AliveLe (u s w) w) (j : Nat) (w : W) :
    AliveLe (takeCell u j w) w := by
  unfold takeCell
  cases h : w.cell j with
  | none => exact AliveLe.refl w
  | some cs => exact (foldl_aliveLe u hu cs _).trans (aliveLe_setCell w j none)

theorem unsub2_aliveLe (s : Sub) (w : W) : AliveLe (unsub2 s w) w :=
  unsubAt_aliveLe _ (fun _ w => AliveLe.refl w) s w
theorem unsub1_aliveLe (s : Sub) (w : W) : AliveLe (unsub1 s w) w :=
  unsubAt_aliveLe _ (takeCell_aliveLe _ unsub2_aliveLe) s w
theorem unsub_aliveLe (s : Sub) (w : W) : AliveLe (unsub s w) w :=
  unsubAt_aliveLe _ (takeCell_aliveLe _ unsub1_aliveLe) s w

theorem appendChild_aliveLe (m : Model) (j : Nat) (c : Child) (w : W) :
    AliveLe (appendChild m j c w) w := by
  unfold appendChild
  cases h : w.cell j with
  | some cs => exact aliveLe_setCell w j _
  | none =>
    cases m <;> cases c <;> first
      | exact AliveLe.refl w
      | exact unsub_aliveLe _ w
      | (intro i hi; exact hi)

theorem step_aliveLe (m : Model) (w : W) (e : Op) : AliveLe (step m w e).1 w := by
  cases e with
  | append j s => exact appendChild_aliveLe m j _ w
  | appendTask j tag =>
    exact (appendChild_aliveLe m j _ _).trans (fun i hi => hi)
  | unsub s => exact unsub_aliveLe s w
  | closed s => exact AliveLe.refl w
  | retain j => exact AliveLe.refl w
  | size j => exact AliveLe.refl w
  | clone j =>
    match j with
    | 0 => exact fun i hi => hi
    | 1 => exact fun i hi => hi
    | (n + 2) => exact AliveLe.refl w
  | guard s => exact fun i hi => hi
  | dropGuard k =>
    simp only [step]
    split
    · exact (unsub_aliveLe _ _).trans (fun i hi => hi)
    · exact AliveLe.refl w
  | emit v => exact AliveLe.refl w
  | run => exact fun i hi => hi
  | unsubReapp j s =>
    cases m with
    | fixed => exact (unsub_aliveLe s _).trans (unsub_aliveLe (.multi j) w)
    | code => exact unsub_aliveLe (.multi j) w

theorem run_aliveLe (m : Model) : ∀ (es : List Op) (w : W), AliveLe (run m w es).1 w
  | [], w => AliveLe.refl w
  | e :: es, w => by
    simp only [run]
    exact (run_aliveLe m es _).trans (step_aliveLe m w e)

/-! ### an unsubscribed composite stays unsubscribed -/

/-- every composite that is gone in `w` is gone in `w'` -/
def NoneLe (w' w : W) : Prop := ∀ j, w.cell j = none → w'.cell j = none

theorem NoneLe.refl (w : W) : NoneLe w w := fun _ h => h
theorem NoneLe.trans {a b c : W} (h₁ : NoneLe a b) (h₂ : NoneLe b c) : NoneLe a c :=
  fun j h => h₁ j (h₂ j h)

theorem noneLe_kill (w : W) (i : Nat) : NoneLe (w.kill i) w := by
  intro j h; rw [cell_kill]; exact h

theorem noneLe_setCell_none (w : W) (j : Nat) : NoneLe (w.setCell j none) w :=
  fun j' h => setCell_none_cell_none w j j' h

theorem unsubAt_noneLe (k : Nat → W → W) (hk : ∀ j w, NoneLe (k j w) w) :
    ∀ (s : Sub) (w : W), NoneLe (unsubAt k s w) w
  | .unit, w => NoneLe.refl w
  | .leaf i, w => noneLe_kill w i
  | .multi j, w => hk j w
  | .zip a b, w => (unsubAt_noneLe k hk b _).trans (unsubAt_noneLe k hk a w)

theorem foldl_noneLe (u : Sub → W → W) (hu : ∀ s w, NoneLe (u s w) w) :
    ∀ (cs : List Child) (w : W), NoneLe (cs.foldl (fun w c => unsubChild u c w) w) w
  | [], w => NoneLe.refl w
  | c :: cs, w => by
    refine (foldl_noneLe u hu cs _).trans ?_
    cases c with
    | sub s => exact hu s w
    | task t => exact NoneLe.refl w

theorem takeCell_noneLe (u : Sub → W → W) (hu : ∀ s w, NoneLe (u s w) w) (j : Nat) (w : W) :
    NoneLe (takeCell u j w) w := by
  unfold takeCell
  cases h : w.cell j with
  | none => exact NoneLe.refl w
  | some cs => exact (foldl_noneLe u hu cs _).trans (noneLe_setCell_none w j)

theorem unsub2_noneLe (s : Sub) (w : W) : NoneLe (unsub2 s w) w :=
  unsubAt_noneLe _ (fun _ w => NoneLe.refl w) s w
theorem unsub1_noneLe (s : Sub) (w : W) : NoneLe (unsub1 s w) w :=
  unsubAt_noneLe _ (takeCell_noneLe _ unsub2_noneLe) s w
theorem unsub_noneLe (s : Sub) (w : W) : NoneLe (unsub s w) w :=
  unsubAt_noneLe _ (takeCell_noneLe _ unsub1_noneLe) s w

/-- `takeCell` leaves the cell empty-handed. -/
theorem takeCell_cell_none (u : Sub → W → W) (hu : ∀ s w, NoneLe (u s w) w) (j : Nat) (w : W) :
    (takeCell u j w).cell j = none := by
  unfold takeCell
  cases h : w.cell j with
  | none => exact h
  | some cs =>
    refine foldl_noneLe u hu cs _ j ?_
    by_cases h2 : j < 2
    · exact cell_setCell_same w j none h2
    · exact cell_ge2 _ _ (by omega)

theorem unsub_multi_cell_none (j : Nat) (w : W) : (unsub (.multi j) w).cell j = none :=
  takeCell_cell_none _ unsub1_noneLe j w

theorem appendChild_noneLe (m : Model) (j : Nat) (c : Child) (w : W) :
    NoneLe (appendChild m j c w) w := by
  unfold appendChild
  cases h : w.cell j with
  | some cs =>
    intro j' hj'
    have hne : j' ≠ j := by intro e; subst e; rw [h] at hj'; exact absurd hj' (by simp)
    rw [cell_setCell_ne w j j' _ hne]; exact hj'
  | none =>
    cases m <;> cases c <;> first
      | exact NoneLe.refl w
      | exact unsub_noneLe _ w
      | (intro j' hj'; match j' with
          | 0 => exact hj'
          | 1 => exact hj'
          | (n + 2) => rfl)

theorem noneLe_of_cells {w' w : W} (h0 : w.c0 = none → w'.c0 = none) (h1 : w.c1 = none → w'.c1 = none) :
    NoneLe w' w := by
  intro j hj
  match j with
  | 0 => exact h0 hj
  | 1 => exact h1 hj
  | (n + 2) => rfl

theorem step_noneLe (m : Model) (w : W) (e : Op) : NoneLe (step m w e).1 w := by
  cases e with
  | append j s => exact appendChild_noneLe m j _ w
  | appendTask j tag =>
    exact (appendChild_noneLe m j _ _).trans (noneLe_of_cells (fun h => h) (fun h => h))
  | unsub s => exact unsub_noneLe s w
  | closed s => exact NoneLe.refl w
  | retain j => exact NoneLe.refl w
  | size j => exact NoneLe.refl w
  | clone j =>
    match j with
    | 0 => exact noneLe_of_cells (fun h => h) (fun h => h)
    | 1 => exact noneLe_of_cells (fun h => h) (fun h => h)
    | (n + 2) => exact NoneLe.refl w
  | guard s => exact noneLe_of_cells (fun h => h) (fun h => h)
  | dropGuard k =>
    simp only [step]
    split
    · exact (unsub_noneLe _ _).trans (noneLe_of_cells (fun h => h) (fun h => h))
    · exact NoneLe.refl w
  | emit v => exact NoneLe.refl w
  | run =>
    refine noneLe_of_cells (fun h => ?_) (fun h => ?_)
    · show Option.map markRan w.c0 = none
      rw [h]; rfl
    · show Option.map markRan w.c1 = none
      rw [h]; rfl
  | unsubReapp j s =>
    cases m with
    | fixed => exact (unsub_noneLe s _).trans (unsub_noneLe (.multi j) w)
    | code => exact unsub_noneLe (.multi j) w

theorem run_noneLe (m : Model) : ∀ (es : List Op) (w : W), NoneLe (run m w es).1 w
  | [], w => NoneLe.refl w
  | e :: es, w => by
    simp only [run]
    exact (run_noneLe m es _).trans (step_noneLe m w e)

theorem isClosed_multi_of_none (w : W) (j : Nat) (h : w.cell j = none) : isClosed w (.multi j) = true := by
  simp only [isClosed, isClosedAt, cellClosed, h]

/-! ### is_closed = true: every reachable leaf is dead -/

theorem isClosedAt_sound (look : Nat → Bool) (r : Nat → List Nat) (w : W)
    (hl : ∀ j, look j = true → ∀ i ∈ r j, w.alive i = false) :
    ∀ (s : Sub), isClosedAt look w s = true → ∀ i ∈ reachAt r s, w.alive i = false
  | .unit, _, i, hi => by simp [reachAt] at hi
  | .leaf k, h, i, hi => by
    simp only [reachAt, List.mem_singleton] at hi
    subst hi
    simpa [isClosedAt] using h
  | .multi j, h, i, hi => hl j h i hi
  | .zip a b, h, i, hi => by
    simp only [isClosedAt, Bool.and_eq_true] at h
    simp only [reachAt, List.mem_append] at hi
    cases hi with
    | inl ha => exact isClosedAt_sound look r w hl a h.1 i ha
    | inr hb => exact isClosedAt_sound look r w hl b h.2 i hb

theorem cellClosed_sound (f : Sub → Bool) (g : Sub → List Nat) (w : W)
    (hf : ∀ s, f s = true → ∀ i ∈ g s, w.alive i = false) (j : Nat)
    (h : cellClosed f w j = true) : ∀ i ∈ cellReach g w j, w.alive i = false := by
  intro i hi
  unfold cellReach at hi
  unfold cellClosed at h
  cases hc : w.cell j with
  | none => rw [hc] at hi; simp at hi
  | some cs =>
    rw [hc] at hi h
    simp only [List.mem_flatMap] at hi
    obtain ⟨c, hcs, hic⟩ := hi
    have hcl := List.all_eq_true.mp h c hcs
    cases c with
    | sub s => exact hf s hcl i hic
    | task t => simp [childReach] at hic

theorem isClosed2_sound (w : W) (s : Sub) (h : isClosed2 w s = true) :
    ∀ i ∈ reach2 s, w.alive i = false :=
  isClosedAt_sound _ _ w (fun _ _ i hi => by simp at hi) s h

theorem isClosed1_sound (w : W) (s : Sub) (h : isClosed1 w s = true) :
    ∀ i ∈ reach1 w s, w.alive i = false :=
  isClosedAt_sound _ _ w (fun j hj => cellClosed_sound _ _ w (isClosed2_sound w) j hj) s h

theorem isClosed_sound (w : W) (s : Sub) (h : isClosed w s = true) :
    ∀ i ∈ reach w s, w.alive i = false :=
  isClosedAt_sound _ _ w (fun j hj => cellClosed_sound _ _ w (isClosed1_sound w) j hj) s h

end Rx.Comp
