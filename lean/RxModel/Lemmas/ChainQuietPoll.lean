import RxModel.Lemmas.ChainQuietBody
/-
  C02 / C17 over the chain model, part 12: `pollTask`, `pollAll`, `runLoop`.
-/
namespace Rx.T
open Rx

theorem Good.setLike {r : Option TaskId} {a : Info} {stages : List Stage} {s s' : Sched}
    {k : Nat} {t t' : Task} (g : Good r a stages s) (ht : s.tasks[k]? = some t)
    (hs : s'.tasks = s.tasks.set k t') (hb : t'.body = t.body)
    (hl : t'.live = true → t.live = true) (hv : t'.hasValue = true → t'.done = true)
    (hm : t.hasValue = true → t'.hasValue = true) : Good r a stages s' := by
  have g1 : Good r a stages (s.setTask k t') :=
    g.sched_mono (SRel.setTask ht ⟨hb, hl, hv⟩ g.hv) (HVMono.setTask ht hm)
  exact g1.of_tasks_eq hs

theorem Good.weaken {r : Option TaskId} {a : Info} {stages : List Stage} {s : Sched}
    (g : Good none a stages s) : Good r a stages s := by
  apply g.sched (s' := s)
  · exact ⟨rfl, fun k t ht => ⟨t, ht, rfl, id, g.hv k t ht⟩⟩
  · intro i st h _ _ hr
    rcases hr with hr | hr
    · exact Or.inl hr
    · cases hr

theorem finish_good {r : Option TaskId} {a : Info} {stages : List Stage} {s : Sched} (k : Nat)
    (g : Good r a stages s) : Good r a stages (s.finishOnce k) := by
  unfold Sched.finishOnce
  cases ht : s.tasks[k]? with
  | none => exact g
  | some t => exact g.setLike ht rfl rfl (by simp [Task.live]) (fun _ => rfl) (fun _ => rfl)

theorem finish_good_sub {a : Info} {stages : List Stage} {s : Sched} (k : Nat) {t : Task}
    (ht : s.tasks[k]? = some t) (g : Good (some k) a stages s) : Good none a stages (s.finishOnce k) := by
  have hf : s.finishOnce k = s.setTask k { t with done := true, hasValue := true } := by
    unfold Sched.finishOnce; rw [ht]
  rw [hf]
  apply g.sched
  · exact SRel.setTask ht ⟨rfl, by simp [Task.live], fun _ => rfl⟩ g.hv
  · intro i st h _ _ hr
    left
    rcases hr with hr | hr
    · obtain ⟨u, hu, hv⟩ := (handleClosed_iff s h).1 hr
      obtain ⟨u', hu', hv'⟩ := HVMono.setTask (t' := { t with done := true, hasValue := true }) ht
        (fun _ => rfl) h u hu hv
      exact (handleClosed_iff _ h).2 ⟨u', hu', hv'⟩
    · cases hr
      exact (handleClosed_iff _ k).2 ⟨_, Sched.setTask_get_self _ _ _ _ ht, rfl⟩

theorem stay_good {r : Option TaskId} {a : Info} {stages : List Stage} {s : Sched} (k : Nat) (wk : Bool)
    (g : Good r a stages s) : Good r a stages (s.stayPending k wk) := by
  unfold Sched.stayPending
  cases ht : s.tasks[k]? with
  | none => exact g
  | some t => exact g.setLike ht rfl rfl id (g.hv k t ht) id

theorem cont_good {r : Option TaskId} {a : Info} {stages : List Stage} {s : Sched} (k : Nat)
    (g : Good r a stages s) : Good r a stages (s.continueRepeat k) := by
  unfold Sched.continueRepeat
  cases ht : s.tasks[k]? with
  | none => exact g
  | some t =>
    simp only
    cases hrep : t.rep with
    | none => exact g
    | some p =>
      obtain ⟨fur, iv, seq⟩ := p
      simp only
      refine g.setLike (t' := { t with rep := some (s.timers.length, iv, seq + 1) }) ht ?_ rfl id
        (g.hv k t ht) id
      simp [Sched.setTask, Sched.newTimer]

/-- What `pollPre` does to the tasks. -/
def PreRel (k : Nat) (s s1 : Sched) : Prop :=
  s1.tasks = s.tasks ∨ ∃ t t' : Task, s.tasks[k]? = some t ∧ s1.tasks = s.tasks.set k t' ∧
    t'.body = t.body ∧ t'.keepRunning = t.keepRunning ∧ t'.hasValue = t.hasValue ∧
    (t.done = true → t'.done = true)

def PreRun (k : Nat) (s1 : Sched) (b : Body) : Prop :=
  ∃ t1 : Task, s1.tasks[k]? = some t1 ∧ t1.live = true ∧ t1.body = b

theorem pollPre_spec (s : Sched) (k : Nat) :
    PreRel k s (s.pollPre k).1 ∧
      (∀ b, (s.pollPre k).2 = .runOnce b → PreRun k (s.pollPre k).1 b) ∧
      (∀ b q, (s.pollPre k).2 = .runTick b q → PreRun k (s.pollPre k).1 b) := by
  apply Sched.pollPre_elim s k
    (motive := fun p => PreRel k s p.1 ∧ (∀ b, p.2 = .runOnce b → PreRun k p.1 b) ∧
      (∀ b q, p.2 = .runTick b q → PreRun k p.1 b))
  · intro _; exact ⟨Or.inl rfl, (fun _ h => by cases h), (fun _ _ h => by cases h)⟩
  · intro t _ _; exact ⟨Or.inl rfl, (fun _ h => by cases h), (fun _ _ h => by cases h)⟩
  · intro t ht _ _
    exact ⟨Or.inr ⟨t, _, ht, rfl, rfl, rfl, rfl, fun _ => rfl⟩, (fun _ h => by cases h),
      (fun _ _ h => by cases h)⟩
  · intro t d ht _ _ _
    refine ⟨Or.inr ⟨t, { t with woken := false, outerDelay := none, outerTimer := some s.timers.length }, ht, ?_, rfl, rfl, rfl, id⟩, (fun _ h => by cases h), (fun _ _ h => by cases h)⟩
    simp [Sched.setTask, Sched.newTimer]
  · intro t tm ht _ _ _ _ _
    refine ⟨Or.inr ⟨t, { t with woken := false }, ht, ?_, rfl, rfl, rfl, id⟩, (fun _ h => by cases h), (fun _ _ h => by cases h)⟩
    simp [Sched.setTask]
  · intro t ht hd hk _ _ _
    refine ⟨Or.inr ⟨t, _, ht, rfl, rfl, rfl, rfl, id⟩, ?_, (fun _ _ h => by cases h)⟩
    intro b hb; cases hb
    exact ⟨_, Sched.setTask_get_self _ _ _ _ ht, by simp [Task.live, hd, hk], rfl⟩
  · intro t fur iv seq ht _ _ _ _ _ _
    refine ⟨Or.inr ⟨t, { t with woken := false, outerTimer := none }, ht, ?_, rfl, rfl, rfl, id⟩, (fun _ h => by cases h), (fun _ _ h => by cases h)⟩
    simp [Sched.setTask]
  · intro t fur iv seq ht hd hk _ _ _ _
    refine ⟨Or.inr ⟨t, _, ht, rfl, rfl, rfl, rfl, id⟩, (fun _ h => by cases h), ?_⟩
    intro b q hb; cases hb
    exact ⟨_, Sched.setTask_get_self _ _ _ _ ht, by simp [Task.live, hd, hk], rfl⟩

theorem Good.preRel {r : Option TaskId} {a : Info} {stages : List Stage} {s s1 : Sched} {k : Nat}
    (g : Good r a stages s) (h : PreRel k s s1) : Good r a stages s1 := by
  rcases h with h | ⟨t, t', ht, hs, hb, hk, hv, hd⟩
  · exact g.of_tasks_eq h
  · refine g.setLike ht hs hb ?_ ?_ (by rw [hv]; exact id)
    · intro hl
      simp only [Task.live, Bool.and_eq_true, Bool.not_eq_true'] at hl ⊢
      refine ⟨?_, by rw [← hk]; exact hl.2⟩
      cases hdd : t.done with
      | false => rfl
      | true => rw [hd hdd] at hl; cases hl.1
    · intro hv'
      rw [hv] at hv'
      exact hd (g.hv k t ht hv')

end Rx.T
