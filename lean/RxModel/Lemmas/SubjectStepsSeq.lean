import RxModel.Lemmas.SubjectSteps
import RxModel.Subject.Subject
/-
  Helper lemmas for Props/C06S.lean, part 4: without preemption the step model IS
  the sequential subject model `Rx.Subj` (Subject/Subject.lean) restricted to
  plain probes (no action inside callbacks): same lists, same slots, same
  deliveries in the same order, same `len` / `is_empty`.
-/
namespace Rx.Conc.SS
open Rx
open Rx.Subj (State Slot SubjOp modSlot aliveAt)

/-- The sequential operation an operation of the step model stands for (`size` only asks). -/
def Op.toSubj : Op → SubjOp
  | .next v => .next v
  | .error e => .error e
  | .complete => .complete
  | .unsubAll => .unsubscribe
  | .subscribe => .subscribe []
  | .unsub u => .unsubOne u
  | .retain => .retain
  | .size => .clone

/-- Operations back to back. -/
def St.runOps (s : St) (ops : List Op) : St := ops.foldl St.runOp s

/-- All deliveries of a sequential history, in order. -/
def delivs : State → List SubjOp → List Subj.Delivery
  | _, [] => []
  | j, op :: r => (j.apply op).2 ++ delivs (j.apply op).1 r

def Plain (j : State) : Prop := ∀ sl ∈ j.slots, sl.script = []

structure Rel (s : St) (j : State) : Prop where
  obs : s.obs = j.observers
  ch : s.chamber = j.chamber
  slots : s.slots = j.slots.map (·.alive)
  plain : Plain j
  oc : j.observers = none ∨ j.chamber ≠ none
  np : s.panicked = false
  jnp : j.panicked = false

theorem aliveAt_eq (js : List Slot) : aliveAt js = isOpenIn (js.map (·.alive)) := by
  funext u
  unfold aliveAt isOpenIn
  rw [List.getD_eq_getElem?_getD, List.getElem?_map]
  cases js[u]? <;> rfl

theorem modSlot_map_alive (f : Slot → Slot) (hf : ∀ x, (f x).alive = x.alive) :
    ∀ (l : List Slot) (i : Nat), (modSlot f l i).map (·.alive) = l.map (·.alive)
  | [], _ => rfl
  | x :: r, 0 => by simp [modSlot, hf]
  | x :: r, i + 1 => by simp [modSlot, modSlot_map_alive f hf r i]

theorem modSlot_map_dead (f : Slot → Slot) (hf : ∀ x, (f x).alive = false) :
    ∀ (l : List Slot) (i : Nat), (modSlot f l i).map (·.alive) = (l.map (·.alive)).set i false
  | [], _ => rfl
  | x :: r, 0 => by simp [modSlot, hf]
  | x :: r, i + 1 => by simp [modSlot, modSlot_map_dead f hf r i]

theorem modSlot_plain (f : Slot → Slot) (hf : ∀ x, x.script = [] → (f x).script = []) :
    ∀ (l : List Slot) (i : Nat), (∀ sl ∈ l, sl.script = []) → ∀ sl ∈ modSlot f l i, sl.script = []
  | [], _, _ => by simp [modSlot]
  | x :: r, 0, h => by
    intro sl hsl
    simp only [modSlot, List.mem_cons] at hsl
    rcases hsl with rfl | hsl
    · exact hf x (h x (List.mem_cons_self ..))
    · exact h sl (List.mem_cons_of_mem _ hsl)
  | x :: r, i + 1, h => by
    intro sl hsl
    simp only [modSlot, List.mem_cons] at hsl
    rcases hsl with rfl | hsl
    · exact h sl (List.mem_cons_self ..)
    · exact modSlot_plain f hf r i (fun y hy => h y (List.mem_cons_of_mem _ hy)) sl hsl

/-- one plain callback -/
theorem callNext_plain (j : State) (hp : Plain j) (i : Nat) (v : Val) :
    j.callNext none i v =
      if aliveAt j.slots i then
        ({ j with slots := modSlot (Slot.recv v) j.slots i }, [(i, Notif.next v)])
      else (j, []) := by
  unfold State.callNext aliveAt
  cases hi : j.slots[i]? with
  | none => simp
  | some sl =>
    have hm : sl ∈ j.slots := List.mem_of_getElem? hi
    simp only
    by_cases ha : sl.alive = true
    · simp [ha, hp sl hm, State.act]
    · simp [ha]

/-- the item broadcast of the sequential model with plain probes -/
theorem bcast_plain (v : Val) : ∀ (l : List Nat) (j : State), Plain j → j.panicked = false →
    (Subj.bcast none v j l).2 = (l.filter (aliveAt j.slots)).map (·, Notif.next v) ∧
      (Subj.bcast none v j l).1.observers = j.observers ∧
      (Subj.bcast none v j l).1.chamber = j.chamber ∧
      (Subj.bcast none v j l).1.slots.map (·.alive) = j.slots.map (·.alive) ∧
      Plain (Subj.bcast none v j l).1 ∧ (Subj.bcast none v j l).1.panicked = false := by
  intro l
  induction l with
  | nil => intro j hp hn; exact ⟨rfl, rfl, rfl, rfl, hp, hn⟩
  | cons i r ih =>
    intro j hp hn
    obtain ⟨jo, jc, js, jp⟩ := j
    simp only at hn
    subst hn
    unfold Subj.bcast
    rw [callNext_plain _ hp]
    cases ha : aliveAt js i
    · simp only [Bool.false_eq_true, if_false, List.nil_append]
      have := ih _ hp rfl
      rw [List.filter_cons_of_neg (by simp [ha])]
      exact this
    · simp only [if_true, Bool.false_eq_true, if_false]
      have hal : (modSlot (Slot.recv v) js i).map (·.alive) = js.map (·.alive) :=
        modSlot_map_alive (Slot.recv v) (fun _ => rfl) _ _
      have hp' : Plain ⟨jo, jc, modSlot (Slot.recv v) js i, false⟩ :=
        modSlot_plain (Slot.recv v) (fun x hx => by simp [Slot.recv, hx]) _ _ hp
      have := ih _ hp' rfl
      simp only at this
      rw [aliveAt_eq, hal, ← aliveAt_eq] at this
      rw [List.filter_cons_of_pos ha]
      exact ⟨by simp [this.1], this.2.1, this.2.2.1, this.2.2.2.1, this.2.2.2.2⟩

/-- the terminal broadcast of the sequential model is `termLoop` on the alive flags -/
theorem term_plain (n : Notif) : ∀ (l : List Nat) (j : State),
    (Subj.term n j l).2 = (termLoop n (j.slots.map (·.alive)) l).2 ∧
      (Subj.term n j l).1.slots.map (·.alive) = (termLoop n (j.slots.map (·.alive)) l).1 ∧
      (Subj.term n j l).1.observers = j.observers ∧ (Subj.term n j l).1.chamber = j.chamber ∧
      (Subj.term n j l).1.panicked = j.panicked ∧ (Plain j → Plain (Subj.term n j l).1) := by
  intro l
  induction l with
  | nil => intro j; exact ⟨rfl, rfl, rfl, rfl, rfl, id⟩
  | cons i r ih =>
    intro j
    unfold Subj.term termLoop
    rw [← aliveAt_eq]
    cases ha : aliveAt j.slots i
    · simp only [Bool.false_eq_true, if_false]
      exact ih j
    · simp only [if_true]
      have hd : (modSlot (Slot.finish n) j.slots i).map (·.alive) = (j.slots.map (·.alive)).set i false :=
        modSlot_map_dead (Slot.finish n) (fun _ => rfl) _ _
      have := ih { j with slots := modSlot (Slot.finish n) j.slots i }
      simp only [hd] at this
      refine ⟨by rw [this.1], this.2.1, this.2.2.1, this.2.2.2.1, this.2.2.2.2.1, fun hp => ?_⟩
      exact this.2.2.2.2.2 (modSlot_plain (Slot.finish n) (fun x hx => by simp [Slot.finish, hx]) _ _ hp)

theorem runOps_eq_runSteps (ops : List Op) : ∀ (s : St), s.runOps ops = s.runSteps (ops.flatMap Op.steps) := by
  induction ops with
  | nil => intro s; rfl
  | cons op r ih =>
    intro s
    show St.runOps (s.runOp op) r = _
    rw [ih, List.flatMap_cons]
    simp [St.runSteps, St.runOp, List.foldl_append]

/-- A single thread under its only schedule runs its operations back to back. -/
theorem exec_single : ∀ (n : Nat) (s : St) (cur : List Step) (rest : List Op),
    n = cur.length + (rest.flatMap Op.steps).length →
    (exec Op.steps ⟨s, [⟨cur, rest⟩]⟩ (List.replicate n 0)).st = s.runSteps (cur ++ rest.flatMap Op.steps) := by
  intro n
  induction n with
  | zero =>
    intro s cur rest h
    have h1 : cur = [] := List.eq_nil_of_length_eq_zero (by omega)
    have h2 : rest.flatMap Op.steps = [] := List.eq_nil_of_length_eq_zero (by omega)
    rw [h1, h2]; rfl
  | succ n ih =>
    intro s cur rest h
    cases cur with
    | cons x cur' =>
      have e : Cfg.sched1 Op.steps ⟨s, [⟨x :: cur', rest⟩]⟩ 0 = ⟨s.step x, [⟨cur', rest⟩]⟩ := by
        simp [Cfg.sched1, Thread.pick]
      show (exec Op.steps (Cfg.sched1 Op.steps _ 0) (List.replicate n 0)).st = _
      rw [e, ih _ _ _ (by simp at h ⊢; omega)]
      rfl
    | nil =>
      cases rest with
      | nil => simp at h
      | cons op rest' =>
        obtain ⟨x, tl, hx⟩ : ∃ x tl, Op.steps op = x :: tl := by cases op <;> exact ⟨_, _, rfl⟩
        have e : Cfg.sched1 Op.steps ⟨s, [⟨[], op :: rest'⟩]⟩ 0 = ⟨s.step x, [⟨tl, rest'⟩]⟩ := by
          simp [Cfg.sched1, Thread.pick, pickOps, hx]
        show (exec Op.steps (Cfg.sched1 Op.steps _ 0) (List.replicate n 0)).st = _
        rw [e, ih _ _ _ (by simp [hx] at h ⊢; omega)]
        simp [List.flatMap_cons, hx, St.runSteps]

end Rx.Conc.SS
