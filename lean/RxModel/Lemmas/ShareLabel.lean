import RxModel.Lemmas.ShareSilence
/-
  Per-label view of the share model's own output (no ghost tags), and the
  bridge from the tagged log.
-/
namespace Rx.Share
namespace W

/-- What the probe(s) labelled `k` received. -/
def labelLog (k : Nat) (ds : List Dlv) : List Notif :=
  ds.filterMap fun d => if d.1 == k then some d.2 else none

theorem labelLog_erase (k : Nat) (ds : List IDlv) :
    labelLog k (ds.map eraseId) = sel (byLabel k) ds := by
  simp only [labelLog, sel, List.filterMap_map, byLabel]
  rfl

theorem run_label_wf (m : Model) (kind : Kind) (cold : Option (List Val)) (es : List Ev) (k : Nat)
    (h : linear [] es = true) : WF (labelLog k (dlvs ((init m kind cold).run es).2)) := by
  rw [← runI_erase, labelLog_erase]
  exact (run_inv es _ (init_inv _ m kind cold)
    (freshRun_linear k es _ [] (init_J m kind cold) h)).2.wf

theorem run_cell_wf (m : Model) (kind : Kind) (cold : Option (List Val)) (es : List Ev) (i : Nat) :
    WF (sel (byCell i) (runI (init m kind cold) es)) :=
  (run_inv es _ (init_inv _ m kind cold) (freshRun_byCell i es _)).2.wf

theorem unsub_cell_silent (m : Model) (kind : Kind) (cold : Option (List Val)) (pre post : List Ev)
    (k id : Nat) (hk : (((init m kind cold).run pre).1.handles[k]?).join = some id) :
    ∀ x ∈ runI ((init m kind cold).run pre).1 (.unsub k :: post), x.1 ≠ id := by
  have hb := run_HB pre _ (init_HB m kind cold)
  have hd := unsubscribe_deadCell _ k id hb hk
  intro x hx
  simp only [runI, stepI, List.nil_append] at hx
  exact run_deadCell post _ id hd x hx

theorem unsub_label_silent (m : Model) (kind : Kind) (cold : Option (List Val)) (pre post : List Ev)
    (k : Nat) (hl : linear [] pre = true) (hp : ∀ e ∈ post, e ≠ .sub k) :
    ∀ d ∈ dlvs (((init m kind cold).run pre).1.run (.unsub k :: post)).2, d.1 ≠ k := by
  obtain ⟨held, hj⟩ := run_J pre _ [] (init_J m kind cold) hl
  have hn : NoLive k (((init m kind cold).run pre).1.unsubscribe k) := (unsubscribe_J _ k held hj).2
  have := (run_Lab k post _ hp hn).2
  intro d hd
  rw [← runI_erase] at hd
  simp only [runI, stepI, List.nil_append, List.mem_map] at hd
  obtain ⟨x, hx, rfl⟩ := hd
  exact this x hx

end W
end Rx.Share
