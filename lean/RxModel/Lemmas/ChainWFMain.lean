import RxModel.Lemmas.ChainWFPoll
/-
  C01 over the chain model, part 9: every event keeps the invariant; the initial
  world satisfies it.
-/
namespace Rx.T
open Rx Rx.Spec

namespace TW

theorem pollTask_inv {w : TW} (h : WInv none w) (k : TaskId) : WInv none (w.pollTask k) := by
  have hle := Sched.Le.pollPre w.sched k
  have hlive := Sched.pollPre_live w.sched k
  unfold pollTask
  rcases hp : w.sched.pollPre k with ⟨s1, p⟩
  rw [hp] at hle hlive
  have I1 : WInv none { w with sched := s1 } := h.le s1 hle
  cases p with
  | none => exact I1
  | runOnce b =>
    have hl : ({ w with sched := s1 } : TW).sched.Live k b := hlive.1 b rfl
    dsimp only
    split
    · next hb =>
      have ha := runAsync_inv I1 hl hb
      split
      · next w1 wk hr =>
        rw [hr] at ha
        exact (Quiet.ofSched w1 _ (Sched.Ext.stayPending _ _ _)).inv (ha.2 wk rfl)
      · next w1 o _ hr =>
        rw [hr] at ha
        exact ha.1.finish
    · next hb =>
      cases hc : b.critical with
      | false =>
        have I2 := (runBody_quiet _ b hc).inv I1
        exact I2.le _ (Sched.Le.finishOnce _ _)
      | true =>
        cases b with
        | subscribe j => exact (subscribeBody_inv I1 hl).finish
        | timerSrc v => exact (timerSrc_inv I1 hl).finish
        | futureSrc => simp [Body.isAsync] at hb
        | streamSrc => simp [Body.isAsync] at hb
        | _ => simp [Body.critical] at hc
  | runTick b seq =>
    have hl : ({ w with sched := s1 } : TW).sched.Live k b := hlive.2 b seq rfl
    have I2 : WInv none (({ w with sched := s1 } : TW).runTick b seq).1 := by
      by_cases hb : b = .tick
      · subst hb; exact tick_inv seq I1 hl
      · exact (runTick_quiet _ b seq hb).inv I1
    dsimp only
    split
    · exact I2.le _ (Sched.Ext.continueRepeat _ _).le
    · exact I2.le _ (Sched.Le.finishOnce _ _)

theorem pollAll_inv (l : List TaskId) : ∀ {w : TW}, WInv none w → WInv none (w.pollAll l) := by
  induction l with
  | nil => intro w h; exact h
  | cons k r ih =>
    intro w h
    unfold pollAll
    dsimp only
    repeat' split
    all_goals first | exact ih (pollTask_inv h k) | exact ih h

theorem runLoop_inv (fuel : Nat) : ∀ {w : TW}, WInv none w → WInv none (runLoop fuel w) := by
  induction fuel with
  | zero => intro w h; exact h
  | succ f ih =>
    intro w h
    unfold runLoop
    dsimp only
    have I1 : WInv none { w with sched := w.sched.dueTimers.foldl Sched.fire w.sched } :=
      h.le _ (Sched.Ext.fireAll _ _).le
    split
    · exact I1
    · exact ih (pollAll_inv _ I1)

/-- While the hot source is subscribed there is no live critical task. -/
theorem only_none_of_hot {w : TW} {up : List Notif} (hs : SrcOK none w up) {j : Nat}
    (hsrc : w.src = .hot j) (hss : w.srcSubscribed = true) : Only none w := by
  intro k b hl hc
  have hok := hs.okFor_of_live hl
  cases b with
  | subscribe i => exact hs.subd hss k _ hl rfl
  | timerSrc v => obtain ⟨_, _, e⟩ := hok; rw [hsrc] at e; cases e
  | futureSrc => obtain ⟨_, _, e⟩ := hok; rw [hsrc] at e; cases e
  | streamSrc => obtain ⟨_, _, _, e⟩ := hok; rw [hsrc] at e; cases e
  | _ => simp [Body.critical] at hc

/-- The terminal of the hot source reaches stage 0. -/
theorem hot_term_inv {w : TW} {up : List Notif} {i : Nat} (n : Notif) (h : WInvU none w up)
    (hsrc : w.src = .hot i) (hss : w.srcSubscribed = true) (hnt : Rx.terminated up = false)
    (hmem : i ∈ w.terminated) : WInv none (({ w with srcAlive := false } : TW).push 0 [n]) := by
  have h' : WInvU none { w with srcAlive := false } up := h.ofEq rfl rfl rfl rfl rfl rfl rfl
  have ho : Only none { w with srcAlive := false } := only_none_of_hot h'.2 hsrc hss
  refine ⟨_, h'.pushLast [n] hnt (WF_single n) ho hss ?_ ?_⟩
  · intro i' hi
    have : w.src = .hot i' := hi
    rw [hsrc] at this; cases this; exact hmem
  · intro d p hi
    have : w.src = .interval d p := hi
    rw [hsrc] at this; cases this

theorem mark_quiet (w : TW) (i : Nat) : Quiet w { w with terminated := i :: w.terminated } :=
  ⟨rfl, rfl, rfl, fun _ hj => List.mem_cons_of_mem _ hj, Sched.Ext.refl _, fun _ h => h⟩

/-- The part of `emit` that concerns the chain's own source. -/
theorem emit_src_inv {w : TW} (h : WInv none w) (i : Nat) (n : Notif) (hni : ¬ i ∈ w.terminated) :
    WInv none (
      let w1 := if n.isTerm then { w with terminated := i :: w.terminated } else w
      match w.src with
      | .hot j =>
        if i = j && w.srcSubscribed && w.srcAlive then
          match n with
          | .next _ => w1.push 0 [n]
          | _ => { w1 with srcAlive := false }.push 0 [n]
        else w1
      | _ => w1) := by
  have hot_ctx : ∀ j, w.src = .hot j → (i = j && w.srcSubscribed && w.srcAlive) = true →
      ∀ up, WInvU none w up → w.src = .hot i ∧ w.srcSubscribed = true ∧ Rx.terminated up = false := by
    intro j hsrc hcond up hu
    simp only [Bool.and_eq_true, decide_eq_true_eq] at hcond
    obtain ⟨⟨hij, hss⟩, _⟩ := hcond
    subst hij
    refine ⟨hsrc, hss, ?_⟩
    cases ht : Rx.terminated up with
    | false => rfl
    | true => exact absurd (hu.2.hot i hsrc ht) hni
  have I1 : WInv none { w with terminated := i :: w.terminated } := (mark_quiet w i).inv h
  cases n with
  | next v =>
    simp only [Notif.isTerm, Bool.false_eq_true, if_false]
    split
    · next j hsrc =>
      split
      · next hcond =>
        obtain ⟨up, hu⟩ := h
        obtain ⟨_, _, hnt⟩ := hot_ctx j hsrc hcond up hu
        exact ⟨_, (hu.pushNext v hnt).1⟩
      · exact h
    · exact h
  | error e =>
    simp only [Notif.isTerm, if_true]
    split
    · next j hsrc =>
      split
      · next hcond =>
        obtain ⟨up, hu⟩ := h
        obtain ⟨hsrc', hss, hnt⟩ := hot_ctx j hsrc hcond up hu
        have hu1 : WInvU none { w with terminated := i :: w.terminated } up := (mark_quiet w i).invU hu
        exact hot_term_inv (.error e) hu1 hsrc' hss hnt (List.mem_cons_self ..)
      · exact I1
    · exact I1
  | complete =>
    simp only [Notif.isTerm, if_true]
    split
    · next j hsrc =>
      split
      · next hcond =>
        obtain ⟨up, hu⟩ := h
        obtain ⟨hsrc', hss, hnt⟩ := hot_ctx j hsrc hcond up hu
        have hu1 : WInvU none { w with terminated := i :: w.terminated } up := (mark_quiet w i).invU hu
        exact hot_term_inv .complete hu1 hsrc' hss hnt (List.mem_cons_self ..)
      · exact I1
    · exact I1

theorem step_inv {w : TW} (h : WInv none w) (ev : Ev) : WInv none (w.step ev) := by
  cases ev with
  | sub =>
    simp only [step]
    split
    · exact h
    · next hsub =>
      obtain ⟨up, hc, hs⟩ := h
      have hsub : w.subscribed = false := by simpa using hsub
      have hu := hs.unsubd hsub
      have ho : Only none { w with subscribed := true } := by
        intro k b hl hcb
        have := hu.2 k b hl
        rw [hcb] at this; cases this
      have hs' : SrcOK none { w with subscribed := true } up :=
        ⟨hs.wf, hs.bodies, hs.uniq, fun hx => (by cases hx), hs.nosrc, hs.subd, hs.term, hs.hot,
          hs.interval⟩
      exact subscribeFrom_inv _ _ ⟨up, hc, hs'⟩ ho hu.1 rfl
  | emit i n =>
    simp only [step]
    split
    · exact h
    · next hni =>
      have hni : ¬ i ∈ w.terminated := by simpa using hni
      exact (deliverNotifiers_quiet _ i n _).inv (emit_src_inv h i n hni)
  | unsub =>
    simp only [step]
    split
    · have q2 : Quiet (unsubFrom w w.stages.length)
          { unsubFrom w w.stages.length with unsubscribed := true } :=
        Quiet.ofEq rfl rfl rfl rfl rfl rfl rfl
      exact (Quiet.trans (unsubFrom_quiet _ w) q2).inv h
    · exact h
  | adv d => exact h.le _ (Sched.Ext.of_tasks rfl).le
  | fire i =>
    simp only [step]
    split
    · exact h.le _ (Sched.Ext.fire _ _).le
    · exact h
  | poll i =>
    simp only [step]
    split
    · exact pollTask_inv h _
    · exact h
  | run => exact runLoop_inv _ h

theorem fold_inv (evs : List Ev) : ∀ {w : TW}, WInv none w → WInv none (evs.foldl step w) := by
  induction evs with
  | nil => intro w h; exact h
  | cons e r ih => intro w h; exact ih (step_inv h e)

/-- A world nobody has touched yet: no task, nothing subscribed, every stage consistent
    with the empty history. -/
theorem init_inv (src : TSrc) (stages : List Stage) (hs : ∀ st ∈ stages, st.OK [] []) :
    WInv none { src := src, stages := stages } := by
  have hc : Chain [] stages [] := by
    induction stages with
    | nil => exact List.Sublist.refl _
    | cons st r ih =>
      exact ⟨[], [], List.Sublist.refl _, hs st (by simp), ih (fun s h => hs s (by simp [h]))⟩
  have nl : ∀ k b, ¬ ({ src := src, stages := stages } : TW).sched.Live k b := by
    rintro k b ⟨t, ht, _⟩
    simp at ht
  refine ⟨[], hc, trivial, ?_, ?_, ?_, ?_, ?_, ?_, ?_, ?_⟩
  · intro t ht; simp at ht
  · intro k1 b1 k2 b2 l1; exact absurd l1 (nl _ _)
  · intro _; exact ⟨rfl, fun k b hl => absurd hl (nl _ _)⟩
  · intro _; exact ⟨rfl, fun k b hl => absurd hl (nl _ _)⟩
  · intro _ k b hl; exact absurd hl (nl _ _)
  · intro ht; simp [Rx.terminated] at ht
  · intro i _ ht; simp [Rx.terminated] at ht
  · intro _ _ _; rfl

theorem WInv.wf_log {r : Option TaskId} {w : TW} (h : WInv r w) : WF w.log := by
  obtain ⟨up, hc, hs⟩ := h
  exact hc.wf hs.wf

end TW

/-- Only the single-input observers carry state that must be fresh; a slot-owning stage is a
    gate in whatever state it starts. -/
def Stage.Fresh : Stage → Prop
  | .op1 st => ∃ o : Op1, st = o.init
  | _ => True

theorem Stage.Fresh.ok {st : Stage} (h : st.Fresh) : st.OK [] [] := by
  cases st with
  | op1 o => obtain ⟨op, rfl⟩ := h; exact ⟨op, rfl, rfl⟩
  | subscribeOn d t => rfl
  | _ => exact Gate.nil _

theorem Stage.Initial.fresh {st : Stage} (h : st.Initial) : st.Fresh := by
  cases st with
  | op1 o => exact h
  | _ => trivial

end Rx.T
