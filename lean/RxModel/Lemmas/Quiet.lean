import RxModel.Lemmas.WorldWF
/-
  Silence after unsubscription / closure (helper lemmas for C02 and C17).
-/
set_option linter.unusedSimpArgs false
namespace Rx
open Node

namespace Node

/-- Every source side has been subscribed. -/
def allStarted : Node → Bool
  | hot _ _ => true
  | cold _ started _ => started
  | n1 _ c => c.allStarted
  | startWith _ started c => started && c.allStarted
  | n2 _ a b => a.allStarted && b.allStarted

/-- No upstream handle can reach the observers any more: every subscriber slot
    at a leaf is empty (and every cold source has already run). -/
def quiet : Node → Bool
  | hot _ alive => !alive
  | cold _ started _ => started
  | n1 _ c => c.quiet
  | startWith _ started c => started && c.quiet
  | n2 _ a b => a.quiet && b.quiet

end Node

@[simp] theorem St1.run_nil' (s : St1) : s.run [] = (s, []) := rfl
@[simp] theorem St2.run_nil' (s : St2) (sd : Side) : s.run sd [] = (s, []) := rfl

theorem quiet_start (nd : Node) (h : nd.quiet = true) :
    nd.start.2 = [] ∧ nd.start.1.quiet = true := by
  induction nd with
  | hot i al => simpa [Node.start, Node.quiet] using h
  | cold s st al => simp_all [Node.start, Node.quiet]
  | n1 st c ih => have := ih h; simp_all [Node.start, Node.quiet]
  | startWith vs st c ih =>
    simp only [Node.quiet, Bool.and_eq_true] at h
    have := ih h.2
    simp_all [Node.start, Node.quiet]
  | n2 st a b iha ihb =>
    simp only [Node.quiet, Bool.and_eq_true] at h
    have ha := iha h.1; have hb := ihb h.2
    cases hf : st.firstSide <;> simp_all [Node.start, Node.quiet]

theorem quiet_deliver (nd : Node) (p : Path) (df : Bool) (n : Notif) (h : nd.quiet = true) :
    (nd.deliver p df n).2 = [] ∧ (nd.deliver p df n).1.quiet = true := by
  induction nd generalizing p df with
  | hot i al =>
    simp only [Node.quiet, Bool.not_eq_true'] at h; subst h
    cases p <;> cases n <;> simp [Node.deliver, hotDeliver, Node.quiet]
  | cold s st al => simp_all [Node.deliver, Node.quiet]
  | n1 st c ih =>
    cases p with
    | nil => simpa [Node.deliver, Node.quiet] using h
    | cons d q =>
      cases d with
      | down =>
        have := ih q (st.finished df) h
        simp [Node.deliver, Node.quiet, this.1, this.2]
      | left => simpa [Node.deliver, Node.quiet] using h
      | right => simpa [Node.deliver, Node.quiet] using h
  | startWith vs st c ih =>
    simp only [Node.quiet, Bool.and_eq_true] at h
    cases p with
    | nil => simp [Node.deliver, Node.quiet, h.1, h.2]
    | cons d q =>
      cases d with
      | down =>
        have := ih q df h.2
        simp [Node.deliver, Node.quiet, h.1, this.1, this.2]
      | left => simp [Node.deliver, Node.quiet, h.1, h.2]
      | right => simp [Node.deliver, Node.quiet, h.1, h.2]
  | n2 st a b iha ihb =>
    simp only [Node.quiet, Bool.and_eq_true] at h
    cases p with
    | nil => simp [Node.deliver, Node.quiet, h.1, h.2]
    | cons d q =>
      cases d with
      | down => simp [Node.deliver, Node.quiet, h.1, h.2]
      | left =>
        have := iha q (st.finished .a df) h.1
        simp [Node.deliver, Node.quiet, this.1, this.2, h.2]
      | right =>
        have := ihb q (st.finished .b df) h.2
        simp [Node.deliver, Node.quiet, this.1, this.2, h.1]

theorem quiet_unsub (nd : Node) (h : nd.quiet = true) : nd.unsub.quiet = true := by
  induction nd with
  | hot i al => rfl
  | cold s st al => cases s <;> simpa [Node.unsub, Node.quiet] using h
  | n1 st c ih => exact ih h
  | startWith vs st c ih =>
    simp only [Node.quiet, Bool.and_eq_true] at h
    simp [Node.unsub, Node.quiet, h.1, ih h.2]
  | n2 st a b iha ihb =>
    simp only [Node.quiet, Bool.and_eq_true] at h
    simp [Node.unsub, Node.quiet, iha h.1, ihb h.2]

/-- A quiet pipeline stays quiet and delivers nothing, whatever happens. -/
theorem quiet_runActs (nd : Node) (acts : List Act) (h : nd.quiet = true) :
    (nd.runActs acts).2 = [] ∧ (nd.runActs acts).1.quiet = true := by
  induction acts generalizing nd with
  | nil => simp [h]
  | cons a r ih =>
    cases a with
    | start =>
      have := quiet_start nd h
      have := ih _ this.2
      simp_all [Node.act]
    | deliver p df n =>
      have := quiet_deliver nd p df n h
      have := ih _ this.2
      simp_all [Node.act]
    | unsub =>
      have := ih _ (quiet_unsub nd h)
      simp_all [Node.act]

theorem allStarted_start (nd : Node) : nd.start.1.allStarted = true := by
  induction nd with
  | hot i al => rfl
  | cold s st al => cases st <;> simp [Node.start, Node.allStarted]
  | n1 st c ih => simpa [Node.start, Node.allStarted] using ih
  | startWith vs st c ih => cases st <;> simp [Node.start, Node.allStarted, ih]
  | n2 st a b iha ihb => cases hf : st.firstSide <;> simp [Node.start, hf, Node.allStarted, iha, ihb]

theorem allStarted_deliver (nd : Node) (p : Path) (df : Bool) (n : Notif)
    (h : nd.allStarted = true) : (nd.deliver p df n).1.allStarted = true := by
  induction nd generalizing p df with
  | hot i al => cases p <;> rfl
  | cold s st al => simpa [Node.deliver] using h
  | n1 st c ih =>
    cases p with
    | nil => simpa [Node.deliver] using h
    | cons d q =>
      cases d with
      | down => simpa [Node.deliver, Node.allStarted] using ih q (st.finished df) h
      | left => simpa [Node.deliver] using h
      | right => simpa [Node.deliver] using h
  | startWith vs st c ih =>
    simp only [Node.allStarted, Bool.and_eq_true] at h
    cases p with
    | nil => simp [Node.deliver, Node.allStarted, h.1, h.2]
    | cons d q =>
      cases d with
      | down => simp [Node.deliver, Node.allStarted, h.1, ih q df h.2]
      | left => simp [Node.deliver, Node.allStarted, h.1, h.2]
      | right => simp [Node.deliver, Node.allStarted, h.1, h.2]
  | n2 st a b iha ihb =>
    simp only [Node.allStarted, Bool.and_eq_true] at h
    cases p with
    | nil => simp [Node.deliver, Node.allStarted, h.1, h.2]
    | cons d q =>
      cases d with
      | down => simp [Node.deliver, Node.allStarted, h.1, h.2]
      | left => simp [Node.deliver, Node.allStarted, iha q (st.finished .a df) h.1, h.2]
      | right => simp [Node.deliver, Node.allStarted, ihb q (st.finished .b df) h.2, h.1]

theorem allStarted_unsub (nd : Node) (h : nd.allStarted = true) : nd.unsub.allStarted = true := by
  induction nd with
  | hot i al => rfl
  | cold s st al => cases s <;> simpa [Node.unsub, Node.allStarted] using h
  | n1 st c ih => exact ih h
  | startWith vs st c ih =>
    simp only [Node.allStarted, Bool.and_eq_true] at h
    simp [Node.unsub, Node.allStarted, h.1, ih h.2]
  | n2 st a b iha ihb =>
    simp only [Node.allStarted, Bool.and_eq_true] at h
    simp [Node.unsub, Node.allStarted, iha h.1, ihb h.2]

theorem allStarted_runActs (nd : Node) (acts : List Act) (h : nd.allStarted = true) :
    (nd.runActs acts).1.allStarted = true := by
  induction acts generalizing nd with
  | nil => simpa using h
  | cons a r ih =>
    cases a with
    | start => exact ih _ (allStarted_start nd)
    | deliver p df n => exact ih _ (allStarted_deliver nd p df n h)
    | unsub => exact ih _ (allStarted_unsub nd h)

/-- Unsubscribing a started pipeline makes it quiet. -/
theorem unsub_quiet (nd : Node) (h : nd.allStarted = true) : nd.unsub.quiet = true := by
  induction nd with
  | hot i al => rfl
  | cold s st al => cases s <;> simpa [Node.unsub, Node.quiet, Node.allStarted] using h
  | n1 st c ih => exact ih h
  | startWith vs st c ih =>
    simp only [Node.allStarted, Bool.and_eq_true] at h
    simp [Node.unsub, Node.quiet, h.1, ih h.2]
  | n2 st a b iha ihb =>
    simp only [Node.allStarted, Bool.and_eq_true] at h
    simp [Node.unsub, Node.quiet, iha h.1, ihb h.2]

namespace World

/-- Reachable worlds: a subscribed root has been started. -/
def Inv (w : World) : Prop := ∀ nd, w.root = some nd → nd.allStarted = true

theorem inv_init (p : Pipe) : (World.init p).Inv := by intro nd h; cases h

theorem inv_step (w : World) (e : Ext) (h : w.Inv) : (w.step e).1.Inv := by
  intro nd hn
  cases e with
  | sub =>
    cases hr : w.root with
    | some r => simp only [step, hr] at hn; exact h nd (by rw [hr]; exact hn)
    | none =>
      simp only [step, hr, World.acts] at hn
      cases hn
      exact allStarted_start _
  | emit i n =>
    cases hr : w.root with
    | none => simp only [step, hr] at hn; split at hn <;> simp [hr] at hn
    | some r =>
      simp only [step, hr] at hn
      cases hn
      exact allStarted_runActs _ _ (h r hr)
  | unsub =>
    cases hr : w.root with
    | none => simp only [step, hr] at hn; simp [hr] at hn
    | some r =>
      simp only [step, hr] at hn
      cases hn
      exact allStarted_runActs _ _ (h r hr)
  | qClosed => exact h nd hn
  | qTap => exact h nd hn

theorem inv_run (w : World) (es : List Ext) (h : w.Inv) : (w.run es).1.Inv := by
  induction es generalizing w with
  | nil => exact h
  | cons e r ih => rw [run_cons]; exact ih _ (inv_step w e h)

end World
end Rx

namespace Rx
open Node

theorem closed_quiet (nd : Node) (hs : nd.allStarted = true) (hc : nd.isClosed = true) :
    nd.quiet = true := by
  induction nd with
  | hot i al => simpa [Node.isClosed, Node.quiet] using hc
  | cold s st al => simpa [Node.quiet, Node.allStarted] using hs
  | n1 st c ih => exact ih hs hc
  | startWith vs st c ih =>
    simp only [Node.allStarted, Bool.and_eq_true] at hs
    simp [Node.quiet, hs.1, ih hs.2 hc]
  | n2 st a b iha ihb =>
    simp only [Node.allStarted, Bool.and_eq_true] at hs
    simp only [Node.isClosed, Bool.and_eq_true] at hc
    simp [Node.quiet, iha hs.1 hc.1, ihb hs.2 hc.2]

theorem isClosed_unsub (nd : Node) : nd.unsub.isClosed = true := by
  induction nd with
  | hot i al => rfl
  | cold s st al => cases s <;> rfl
  | n1 st c ih => exact ih
  | startWith vs st c ih => exact ih
  | n2 st a b iha ihb => simp [Node.unsub, Node.isClosed, iha, ihb]

theorem isClosed_start (nd : Node) (h : nd.isClosed = true) : nd.start.1.isClosed = true := by
  induction nd with
  | hot i al => exact h
  | cold s st al =>
    cases s <;> cases st <;> simp_all [Node.start, Node.isClosed]
  | n1 st c ih => simpa [Node.start, Node.isClosed] using ih h
  | startWith vs st c ih => cases st <;> simpa [Node.start, Node.isClosed] using ih h
  | n2 st a b iha ihb =>
    simp only [Node.isClosed, Bool.and_eq_true] at h
    cases hf : st.firstSide <;> simp [Node.start, hf, Node.isClosed, iha h.1, ihb h.2]

theorem isClosed_deliver (nd : Node) (p : Path) (df : Bool) (n : Notif) (h : nd.isClosed = true) :
    (nd.deliver p df n).1.isClosed = true := by
  induction nd generalizing p df with
  | hot i al =>
    simp only [Node.isClosed, Bool.not_eq_true'] at h; subst h
    cases p <;> cases n <;> simp [Node.deliver, hotDeliver, Node.isClosed]
  | cold s st al => simpa [Node.deliver] using h
  | n1 st c ih =>
    cases p with
    | nil => simpa [Node.deliver] using h
    | cons d q =>
      cases d with
      | down => simpa [Node.deliver, Node.isClosed] using ih q (st.finished df) h
      | left => simpa [Node.deliver] using h
      | right => simpa [Node.deliver] using h
  | startWith vs st c ih =>
    cases p with
    | nil => simpa [Node.deliver] using h
    | cons d q =>
      cases d with
      | down => cases st <;> simp [Node.deliver, Node.isClosed, ih q df h] <;> exact h
      | left => simpa [Node.deliver] using h
      | right => simpa [Node.deliver] using h
  | n2 st a b iha ihb =>
    simp only [Node.isClosed, Bool.and_eq_true] at h
    cases p with
    | nil => simp [Node.deliver, Node.isClosed, h.1, h.2]
    | cons d q =>
      cases d with
      | down => simp [Node.deliver, Node.isClosed, h.1, h.2]
      | left => simp [Node.deliver, Node.isClosed, iha q (st.finished .a df) h.1, h.2]
      | right => simp [Node.deliver, Node.isClosed, ihb q (st.finished .b df) h.2, h.1]

theorem isClosed_runActs (nd : Node) (acts : List Act) (h : nd.isClosed = true) :
    (nd.runActs acts).1.isClosed = true := by
  induction acts generalizing nd with
  | nil => simpa using h
  | cons a r ih =>
    cases a with
    | start => exact ih _ (isClosed_start nd h)
    | deliver p df n => exact ih _ (isClosed_deliver nd p df n h)
    | unsub => exact ih _ (isClosed_unsub nd)

end Rx
