import RxModel.Lemmas.MergeAllOrderErr
/-
  C05O — a started cold inner whose script ends with an error (repaired code):
  the log ends with its start, its items and exactly that error.
-/
namespace Rx.MergeAll

theorem mem_startsOf {i : Inst} {l : List Lab} : i ∈ startsOf l ↔ Lab.start i ∈ l := by
  induction l with
  | nil => simp [startsOf]
  | cons x r ih => cases x <;> simp [startsOf, ih]

/-- The log ends with the block of instance `i`: start, items `xs`, error `e`. -/
def EndsWithErrBlock (i : Inst) (xs : List Val) (e : Err) (l : List Lab) : Prop :=
  ∃ L1, l = L1 ++ Lab.start i :: (itemsL i.tag xs ++ [Lab.out (.error e)])

theorem EndsWithErrBlock.hasTerm {i : Inst} {xs : List Val} {e : Err} {l : List Lab}
    (h : EndsWithErrBlock i xs e l) : hasTerm l = true := by
  obtain ⟨L1, rfl⟩ := h
  simp [hasTerm_append, hasTerm_cons, Lab.isTerm]

theorem EndsWithErrBlock.prepend {i : Inst} {xs : List Val} {e : Err} {l : List Lab} (a : List Lab)
    (h : EndsWithErrBlock i xs e l) : EndsWithErrBlock i xs e (a ++ l) := by
  obtain ⟨L1, rfl⟩ := h
  exact ⟨a ++ L1, by simp⟩

theorem LogShape.dead_of_term {s s' : St} {l : List Lab} (h : LogShape s s' l)
    (ht : hasTerm l = true) : s'.alive = false := by
  rcases h with ⟨a, _⟩ | ⟨_, _, _, _, _, b⟩
  · rw [a] at ht; cases ht
  · exact b

theorem not_start_mem_itemsL (i : Inst) (tag : Nat) (xs : List Val) :
    Lab.start i ∉ itemsL tag xs := by
  unfold itemsL; simp

theorem drain_errblock (i : Inst) (xs : List Val) (e : Err) (q : List Inst) : ∀ s : St,
    Lab.start i ∈ drainL true s q → s.inner i.k = .cold xs (.error e) →
    EndsWithErrBlock i xs e (drainL true s q) := by
  induction q with
  | nil => intro s h; simp only [drainL] at h; split at h <;> simp at h
  | cons i0 rest ih =>
    intro s h hk
    simp only [drainL] at h ⊢
    by_cases hi : i = i0
    · subst hi
      rw [hk]
      simp only [Bool.not_true, Bool.false_and, Bool.false_eq_true, if_false]
      exact ⟨[], rfl⟩
    · cases hin : s.inner i0.k with
      | hot j =>
        simp only [hin, List.mem_cons, Lab.start.injEq, hi, false_or] at h
        simp at h
      | cold ys fin =>
        simp only [hin, Bool.not_true, Bool.false_and, Bool.false_eq_true, if_false, List.mem_cons,
          Lab.start.injEq, hi, false_or] at h ⊢
        cases fin with
        | open_ => simp [not_start_mem_itemsL] at h
        | error e' => simp [not_start_mem_itemsL] at h
        | complete =>
          simp only [List.mem_append, not_start_mem_itemsL, false_or] at h
          have := ih _ h (by exact hk)
          exact EndsWithErrBlock.prepend (Lab.start i0 :: itemsL i0.tag ys) this

theorem completeAll_errblock (i : Inst) (xs : List Val) (e : Err) (ts : List (Nat × Nat)) :
    ∀ s : St, Lab.start i ∈ completeAllL true s ts → s.inner i.k = .cold xs (.error e) →
    EndsWithErrBlock i xs e (completeAllL true s ts) := by
  have hic : ∀ s : St, Lab.start i ∈ innerCompleteL true s → s.inner i.k = .cold xs (.error e) →
      EndsWithErrBlock i xs e (innerCompleteL true s) := by
    intro s
    unfold innerCompleteL
    split
    · exact drain_errblock i xs e s.queue s
    · intro h; simp at h
  induction ts with
  | nil => intro s h; simp [completeAllL] at h
  | cons p r ih =>
    intro s h hk
    simp only [completeAllL] at h ⊢
    by_cases hst : (innerComplete true s).1.stuck = true
    · rw [if_pos hst] at h ⊢; exact hic s h hk
    · rw [if_neg hst] at h ⊢
      rw [List.mem_append] at h
      rcases h with h | h
      · have hb := hic s h hk
        have hd := (innerComplete_shape true s).dead_of_term hb.hasTerm
        rw [(completeAll_dead true r _ hd).2, List.append_nil]
        exact hb
      · have hk' : (innerComplete true s).1.inner i.k = .cold xs (.error e) := by
          rw [inner_of_inners (innerComplete_frame true s).1]; exact hk
        exact EndsWithErrBlock.prepend _ (ih _ h hk')

theorem stepG_errblock (i : Inst) (xs : List Val) (e : Err) (s : St) (ev : Ev)
    (h : Lab.start i ∈ stepL true s ev) (hk : s.inner i.k = .cold xs (.error e)) :
    EndsWithErrBlock i xs e (stepL true s ev) := by
  unfold stepL at h ⊢
  by_cases hst : s.stuck = true
  · rw [if_pos hst] at h; simp at h
  · rw [if_neg hst] at h ⊢
    cases ev with
    | outerNext k =>
      simp only [outerNextL] at h ⊢
      by_cases ho : (!s.outerOpen) = true
      · rw [if_pos ho] at h; simp at h
      · rw [if_neg ho] at h ⊢
        by_cases ha : (!s.alive) = true
        · rw [if_pos ha] at h; simp at h
        · rw [if_neg ha] at h ⊢
          by_cases hlt : s.subscribed < s.concurrent
          · rw [if_pos hlt] at h ⊢
            refine EndsWithErrBlock.prepend [Lab.arrive ⟨s.arrivals, k⟩] ?_
            simp only [List.mem_cons, reduceCtorEq, false_or] at h
            simp only [startTopL] at h ⊢
            have hinner : St.inner
                { s with arrivals := s.arrivals + 1, subscribed := s.subscribed + 1,
                         started := s.started + 1 } k = s.inner k := rfl
            simp only [hinner] at h ⊢
            by_cases hi : i = ⟨s.arrivals, k⟩
            · subst hi
              simp only at hk
              rw [hk]
              exact ⟨[], rfl⟩
            · cases hin : s.inner k with
              | hot j => simp [hin, hi] at h
              | cold ys fin =>
                simp only [hin, List.mem_cons, Lab.start.injEq, hi, false_or] at h ⊢
                cases fin with
                | open_ => simp [not_start_mem_itemsL] at h
                | error e' => simp [not_start_mem_itemsL] at h
                | complete =>
                  simp only [List.mem_append, not_start_mem_itemsL, false_or] at h
                  have := drain_errblock i xs e s.queue _ h (by exact hk)
                  exact EndsWithErrBlock.prepend (Lab.start ⟨s.arrivals, k⟩ :: itemsL s.arrivals ys) this
          · rw [if_neg hlt] at h; simp at h
    | outerError e' =>
      have := startsOf_map_out (outerError s e').2
      exfalso
      have hm : i ∈ startsOf ((outerError s e').2.map Lab.out) := mem_startsOf.mpr h
      rw [this] at hm; cases hm
    | outerComplete =>
      have := startsOf_map_out (outerComplete s).2
      exfalso
      have hm : i ∈ startsOf ((outerComplete s).2.map Lab.out) := mem_startsOf.mpr h
      rw [this] at hm; cases hm
    | innerNext j v =>
      have := startsOf_map_out (hotNext s j v).2
      exfalso
      have hm : i ∈ startsOf ((hotNext s j v).2.map Lab.out) := mem_startsOf.mpr h
      rw [this] at hm; cases hm
    | innerError j e' =>
      have := startsOf_map_out (hotError s j e').2
      exfalso
      have hm : i ∈ startsOf ((hotError s j e').2.map Lab.out) := mem_startsOf.mpr h
      rw [this] at hm; cases hm
    | innerComplete j =>
      simp only [hotCompleteL] at h ⊢
      by_cases hd : s.dead.contains j = true
      · rw [if_pos hd] at h; simp at h
      · rw [if_neg hd] at h ⊢
        exact completeAll_errblock i xs e (targets s j)
          { s with dead := j :: s.dead, subs := s.subs.filter (fun p => !(p.1 == j)) } h hk
    | unsub => simp at h

theorem runG_errblock (i : Inst) (xs : List Val) (e : Err) (evs : List Ev) : ∀ s : St,
    Lab.start i ∈ runL true s evs → s.inner i.k = .cold xs (.error e) →
    EndsWithErrBlock i xs e (runL true s evs) := by
  induction evs with
  | nil => intro s h; simp [runL] at h
  | cons ev r ih =>
    intro s h hk
    simp only [runL, List.mem_append] at h ⊢
    rcases h with h | h
    · have hb := stepG_errblock i xs e s ev h hk
      have hd := (stepG_shape true s ev).dead_of_term hb.hasTerm
      rw [(runG_deadO true r _ hd).1, List.append_nil]
      exact hb
    · have hk' : (stepG true s ev).1.inner i.k = .cold xs (.error e) := by
        rw [inner_of_inners (stepG_frame true s ev).1]; exact hk
      exact EndsWithErrBlock.prepend _ (ih _ h hk')

end Rx.MergeAll
