import RxModel.Lemmas.TimeSteps
/-
  Helper lemmas for Props/C02S.lean, part 2 (every operator kind): how one step changes the
  observables the invariants talk about — keyed on the cell the step acquires / the cells it holds,
  so that the lock discipline decides which thread can interfere with which.
-/
namespace Rx.Conc.TS
open Rx

/-- the task may still run its body: not cancelled, the body not yet returned -/
def St.armed (s : St) (k : Nat) : Bool :=
  match s.tasks[k]? with
  | some t => t.keep && !t.value
  | none => false

/-- the operators whose subscription is `ZipSubscription(source, handler cell)` -/
def Kind.isH : Kind → Bool
  | .debounce _ | .throttle _ _ => true
  | _ => false

/-- program counters that occur with debounce / throttle in the original order -/
def Pc.okH : Pc → Bool
  | .dl_retain _ | .dl_append _ | .dl_late _ | .p_emit _ _ _ | .u_multi _ | .u_mc _ _ => false
  | .u_slot b => b
  | .u_hcell b => !b
  | .u_cancel _ b => !b
  | _ => true

/-- inside a poll of task `k` (between taking its future out of the queue and putting it back) -/
def Pc.inPoll (k : Nat) : Pc → Bool
  | .p_handle k' _ | .p_trail k' _ | .p_down k' _ _ | .p_emit k' _ _ | .p_fin k' _ _ => k' == k
  | _ => false

/-- past `SubscriberThreads::unsubscribe` of the source half -/
def Pc.uLate : Pc → Bool
  | .u_hcell _ | .u_cancel _ _ | .u_end => true
  | _ => false


@[simp] theorem deliver_hcell (s : St) (n : Notif) : (s.deliver n).hcell = s.hcell := by
  unfold St.deliver; split <;> rfl
@[simp] theorem deliver_slotOpen (s : St) (n : Notif) : (s.deliver n).slotOpen = s.slotOpen := by
  unfold St.deliver; split <;> rfl
@[simp] theorem deliver_tasks (s : St) (n : Notif) : (s.deliver n).tasks = s.tasks := by
  unfold St.deliver; split <;> rfl
@[simp] theorem fireTimer_hcell (s : St) (j : Nat) : (s.fireTimer j).hcell = s.hcell := by
  unfold St.fireTimer; split
  · rfl
  · split <;> rfl
@[simp] theorem fireTimer_slotOpen (s : St) (j : Nat) : (s.fireTimer j).slotOpen = s.slotOpen := by
  unfold St.fireTimer; split
  · rfl
  · split <;> rfl
@[simp] theorem fireTimer_tasks (s : St) (j : Nat) : (s.fireTimer j).tasks = s.tasks := by
  unfold St.fireTimer; split
  · rfl
  · split <;> rfl
@[simp] theorem fireTimer_log (s : St) (j : Nat) : (s.fireTimer j).log = s.log := by
  unfold St.fireTimer; split
  · rfl
  · split <;> rfl

theorem foldl_fire (P : St → Prop) (hP : ∀ s j, P s → P (s.fireTimer j)) (l : List Nat) :
    ∀ s, P s → P (l.foldl St.fireTimer s) := by
  induction l with
  | nil => intro s h; exact h
  | cons j r ih => intro s h; exact ih _ (hP s j h)

@[simp] theorem foldl_fire_hcell (l : List Nat) (s : St) : (l.foldl St.fireTimer s).hcell = s.hcell :=
  foldl_fire (fun x => x.hcell = s.hcell) (fun x j h => by simp [h]) l s rfl
@[simp] theorem foldl_fire_slotOpen (l : List Nat) (s : St) : (l.foldl St.fireTimer s).slotOpen = s.slotOpen :=
  foldl_fire (fun x => x.slotOpen = s.slotOpen) (fun x j h => by simp [h]) l s rfl
@[simp] theorem foldl_fire_tasks (l : List Nat) (s : St) : (l.foldl St.fireTimer s).tasks = s.tasks :=
  foldl_fire (fun x => x.tasks = s.tasks) (fun x j h => by simp [h]) l s rfl
@[simp] theorem foldl_fire_log (l : List Nat) (s : St) : (l.foldl St.fireTimer s).log = s.log :=
  foldl_fire (fun x => x.log = s.log) (fun x j h => by simp [h]) l s rfl

/-- the slot never re-opens -/
theorem ev_slot (K : Conf) (s : St) (p : Pc) (h : (step K s p).1.slotOpen = true) : s.slotOpen = true := by
  revert h
  cases p <;> simp only [step, thOver] <;> (repeat' split) <;> simp [St.upd, St.spawn, St.beginPoll] <;> try assumption

/-- only a step that acquires the handler cell changes its content -/
theorem ev_hcell (K : Conf) (s : St) (p : Pc) : (step K s p).1.hcell = s.hcell ∨ p.cell = some .hcell := by
  cases p <;> simp only [step, thOver] <;> (repeat' split) <;> simp [St.upd, St.spawn, St.beginPoll, Pc.cell]

theorem ev_hcell_some (K : Conf) (s : St) (p : Pc) (k : Nat) (h : (step K s p).1.hcell = some k) :
    s.hcell = some k ∨ p = .hc_store k := by
  revert h
  cases p <;> simp only [step, thOver] <;> (repeat' split) <;> simp [St.upd, St.spawn, St.beginPoll] <;> try (intro h; simp_all)

theorem getElem?_updT (ts : List Task) (h k : Nat) (f : Task → Task) :
    (updT ts h f)[k]? = if h = k then ts[k]?.map f else ts[k]? := by
  unfold updT
  cases hh : ts[h]? with
  | none =>
    simp only []
    split
    · next e => subst e; simp [hh]
    · rfl
  | some t =>
    simp only []
    by_cases e : h = k
    · subst e; simp [hh, List.getElem?_set]
      have : h < ts.length := (List.getElem?_eq_some_iff.mp hh).1
      simp [this]
    · simp [e, List.getElem?_set_ne e]

@[simp] theorem length_updT (ts : List Task) (h : Nat) (f : Task → Task) : (updT ts h f).length = ts.length := by
  unfold updT; split <;> simp

theorem getElem_updT (ts : List Task) (h k : Nat) (f : Task → Task) (hk : k < (updT ts h f).length) :
    (updT ts h f)[k] = if h = k then f (ts[k]'(by simpa using hk)) else ts[k]'(by simpa using hk) := by
  have hk' : k < ts.length := by simpa using hk
  have := getElem?_updT ts h k f
  rw [List.getElem?_eq_getElem hk, List.getElem?_eq_getElem hk'] at this
  split
  · next e => simpa [e] using this
  · next e => simpa [e] using this

theorem task_eq (s : St) (k : Nat) : s.task k = (s.tasks[k]?).getD default := by
  unfold St.task; simp [List.getD]

theorem live_spec (s : St) (j k : Nat) (h : s.live[j]? = some k) :
    ∃ t, s.tasks[k]? = some t ∧ t.done = false ∧ t.running = false := by
  have hm : k ∈ s.live := List.mem_of_getElem? h
  unfold St.live at hm
  simp only [List.mem_filter, List.mem_range, Bool.and_eq_true, Bool.not_eq_true'] at hm
  obtain ⟨hk, hd, hr⟩ := hm
  refine ⟨s.tasks[k], by simp [hk], ?_, ?_⟩
  · rw [task_eq] at hd; simpa [hk] using hd
  · rw [task_eq] at hr; simpa [hk] using hr

theorem isLive_spec (s : St) (k : Nat) (h : s.isLive k = true) :
    ∃ t, s.tasks[k]? = some t ∧ t.done = false ∧ t.running = false := by
  unfold St.isLive at h
  simp only [Bool.and_eq_true, decide_eq_true_eq, Bool.not_eq_true'] at h
  obtain ⟨⟨hk, hd⟩, hr⟩ := h
  refine ⟨s.tasks[k], by simp [hk], ?_, ?_⟩
  · rw [task_eq] at hd; simpa [hk] using hd
  · rw [task_eq] at hr; simpa [hk] using hr

theorem beginPoll_old (s : St) (k' k : Nat) (t : Task) (ht : s.tasks[k]? = some t)
    (hl : ∃ t0, s.tasks[k']? = some t0 ∧ t0.done = false ∧ t0.running = false) :
    ∃ t', (s.beginPoll k').tasks[k]? = some t' ∧ t'.body = t.body ∧ t'.keep = t.keep ∧
      ((t'.running = t.running ∧ t'.done = t.done) ∨
        (t.running = false ∧ t.done = false ∧ t'.running = true ∧ t'.done = false)) ∧ t'.value = t.value := by
  obtain ⟨t0, h0, hd, hr⟩ := hl
  simp only [St.beginPoll, St.upd, getElem?_updT]
  by_cases e : k' = k
  · subst e
    rw [ht] at h0; cases h0
    simp [ht, hd, hr]
  · simp [e, ht]

/-- What a step does to an existing task `k`: the body stays; `keep` changes only in a step that acquires the
    task's handle; `running` / `done` change only when a poll of the task begins or ends. -/
theorem ev_old (K : Conf) (s : St) (p : Pc) (k : Nat) (t : Task) (ht : s.tasks[k]? = some t) :
    ∃ t', (step K s p).1.tasks[k]? = some t' ∧ t'.body = t.body ∧
      (t'.keep = t.keep ∨ (t'.keep = false ∧ p.cell = some (.handle k))) ∧
      ((t'.running = t.running ∧ t'.done = t.done) ∨ (∃ r ret, p = .p_fin k r ret) ∨
        (t.running = false ∧ t.done = false ∧ t'.running = true ∧ t'.done = false)) ∧
      (t'.value = t.value ∨ (t'.value = false ∧ t'.keep = false) ∨
        (t'.value = true ∧ Cell.handle k ∈ p.holds)) := by
  obtain ⟨hk, rfl⟩ := List.getElem?_eq_some_iff.mp ht
  cases p
  case p_begin j =>
    simp only [step]
    split
    · next k' hl =>
      obtain ⟨t', h1, h2, h3, h4, h5⟩ := beginPoll_old s _ k _ ht (live_spec s _ _ hl)
      exact ⟨t', h1, h2, Or.inl h3, by rcases h4 with h | h; exact Or.inl h; exact Or.inr (Or.inr h), Or.inl h5⟩
    · exact ⟨_, ht, rfl, Or.inl rfl, Or.inl ⟨rfl, rfl⟩, Or.inl rfl⟩
  case run_polls ks pr =>
    simp only [step]
    split
    · exact ⟨_, ht, rfl, Or.inl rfl, Or.inl ⟨rfl, rfl⟩, Or.inl rfl⟩
    · split
      · next hl =>
        obtain ⟨t', h1, h2, h3, h4, h5⟩ := beginPoll_old s _ k _ ht (isLive_spec s _ hl)
        exact ⟨t', h1, h2, Or.inl h3, by rcases h4 with h | h; exact Or.inl h; exact Or.inr (Or.inr h), Or.inl h5⟩
      · exact ⟨_, ht, rfl, Or.inl rfl, Or.inl ⟨rfl, rfl⟩, Or.inl rfl⟩
  all_goals
    simp only [step, thOver] <;> (repeat' split) <;>
    simp [St.upd, St.spawn, getElem_updT, hk, List.getElem?_append_left, Pc.cell, Pc.holds, cancel, finished]
  all_goals (try split) <;> simp_all

theorem append_one_get (ts : List Task) (x t' : Task) (k : Nat) (hk : ts.length ≤ k)
    (h : (ts ++ [x])[k]? = some t') : k = ts.length ∧ t' = x := by
  have hlt : k < (ts ++ [x]).length := (List.getElem?_eq_some_iff.mp h).1
  simp only [List.length_append, List.length_cons, List.length_nil] at hlt
  have e : k = ts.length := by omega
  subst e
  simp at h
  exact ⟨rfl, h.symm⟩

/-- A task that exists after a step existed before, or is the fresh one a step inside the slot section spawned. -/
theorem ev_new (K : Conf) (s : St) (p : Pc) (k : Nat) (t' : Task) (h : (step K s p).1.tasks[k]? = some t') :
    (∃ t, s.tasks[k]? = some t) ∨
      (Cell.slot ∈ p.holds ∧ k = s.tasks.length ∧ t'.keep = true ∧ t'.done = false ∧ t'.running = false ∧
        t'.value = false ∧ (t'.body = .trailing ∨ ∃ n, p = .dl_retain n)) := by
  by_cases hk : k < s.tasks.length
  · exact Or.inl ⟨_, List.getElem?_eq_getElem hk⟩
  · right
    have hk' : s.tasks.length ≤ k := Nat.le_of_not_lt hk
    revert h
    cases p <;> simp only [step, thOver] <;> (repeat' split) <;>
      simp [St.upd, St.spawn, St.beginPoll, hk, Pc.holds]
    all_goals
      intro h
      obtain ⟨e1, e2⟩ := append_one_get _ _ _ _ (by simpa using hk') h
      subst e2
      simp [e1]

@[simp] theorem deliver_log (s : St) (n : Notif) :
    (s.deliver n).log = if s.downOpen then s.log ++ [.n n] else s.log := by
  unfold St.deliver; split <;> rfl

/-- The log grows by one delivery (in a step that acquires the downstream slot), by the marker (the last step
    of `unsubscribe`), or not at all. -/
theorem ev_log (K : Conf) (s : St) (p : Pc) :
    (step K s p).1.log = s.log ∨ (p = .u_end ∧ (step K s p).1.log = s.log ++ [.R]) ∨
      (p.cell = some .down ∧ ∃ n, (step K s p).1.log = s.log ++ [.n n]) := by
  cases p <;> simp only [step, thOver] <;> (repeat' split) <;>
    simp [St.upd, St.spawn, St.beginPoll, Pc.cell]
  all_goals (cases hd : s.downOpen <;> simp)

/-- The slot section is entered only through an open slot. -/
theorem ev_enter (K : Conf) (s : St) (p : Pc) (h : Cell.slot ∈ (step K s p).2.holds) :
    Cell.slot ∈ p.holds ∨ s.slotOpen = true := by
  revert h
  cases p <;> simp only [step, nextEntry, termEntry, afterTrail, thOver, uSecond, uAfter, retPc] <;>
    (repeat' split) <;> simp_all [Pc.holds]

theorem ev_uLate (K : Conf) (hK : K.order = .original) (s : St) (p : Pc) (h : (step K s p).2.uLate = true) :
    p.uLate = true ∨ (∃ b, p = .u_slot b) ∨ p.okH = false := by
  revert h
  cases p <;> simp only [step, nextEntry, termEntry, afterTrail, thOver, uSecond, uAfter, retPc] <;>
    (repeat' split) <;> simp_all [Pc.uLate, Pc.okH]

theorem armed_iff (s : St) (k : Nat) :
    s.armed k = true ↔ ∃ t, s.tasks[k]? = some t ∧ t.keep = true ∧ t.value = false := by
  unfold St.armed
  cases s.tasks[k]? with
  | none => simp
  | some t => simp

/-- No step re-arms a task: an armed task was armed, or has just been spawned inside the slot section. -/
theorem ev_armed (K : Conf) (s : St) (p : Pc) (k : Nat) (h : (step K s p).1.armed k = true) :
    s.armed k = true ∨ (s.tasks[k]? = none ∧ Cell.slot ∈ p.holds) := by
  obtain ⟨t', ht', hk', hv'⟩ := (armed_iff _ _).mp h
  cases ht0 : s.tasks[k]? with
  | some t =>
    obtain ⟨t'', ht'', _, hkeep, _, hval⟩ := ev_old K s p k t ht0
    rw [ht'] at ht''
    cases ht''
    have hk : t.keep = true := by
      rcases hkeep with e | ⟨e, _⟩
      · rw [← e]; exact hk'
      · rw [hk'] at e; cases e
    have hv : t.value = false := by
      rcases hval with e | ⟨_, e⟩ | ⟨e, _⟩
      · rw [← e]; exact hv'
      · rw [hk'] at e; cases e
      · rw [hv'] at e; cases e
    exact Or.inl ((armed_iff _ _).mpr ⟨t, ht0, hk, hv⟩)
  | none =>
    rcases ev_new K s p k t' ht' with ⟨t, ht⟩ | ⟨hs, _⟩
    · rw [ht0] at ht; cases ht
    · exact Or.inr ⟨rfl, hs⟩

/-- the end of a poll says whether the future left the queue -/
theorem fin_done (K : Conf) (s : St) (k : Nat) (r : Bool) (ret : Ret) (t' : Task)
    (h : (step K s (.p_fin k r ret)).1.tasks[k]? = some t') : t'.done = r := by
  simp only [step, St.upd, getElem?_updT, if_true] at h
  cases h0 : s.tasks[k]? with
  | none => rw [h0] at h; cases h
  | some t => rw [h0] at h; cases h; rfl

/-- a step of the thread that holds the handle of task `k` (it is inside the body) leaves the tasks alone or
    ends the body and goes on to put the future back -/
theorem ev_finish (K : Conf) (s : St) (p : Pc) (k : Nat) (h : Cell.handle k ∈ p.holds) :
    (∃ ret, (step K s p).2 = .p_fin k true ret) ∨ (step K s p).1.tasks = s.tasks := by
  cases p <;> simp [Pc.holds] at h <;> subst h <;> simp only [step] <;> (repeat' split) <;> simp

theorem len_mono (K : Conf) (s : St) (p : Pc) : s.tasks.length ≤ (step K s p).1.tasks.length := by
  rcases Nat.eq_zero_or_pos s.tasks.length with h | h
  · omega
  · have hk : s.tasks.length - 1 < s.tasks.length := by omega
    obtain ⟨t', ht', _⟩ := ev_old K s p _ _ (List.getElem?_eq_getElem hk)
    have := (List.getElem?_eq_some_iff.mp ht').1
    omega

theorem beginPoll_self (s : St) (k : Nat) (t : Task) (ht : s.tasks[k]? = some t) (hd : t.done = false) :
    ∃ t', (s.beginPoll k).tasks[k]? = some t' ∧ t'.running = true ∧ t'.done = false := by
  simp [St.beginPoll, St.upd, getElem?_updT, ht, hd]

theorem retPc_inPoll (ret : Ret) (k : Nat) : (retPc ret).inPoll k = false := by
  cases ret <;> rfl

/-- A thread is inside a poll of task `k` after a step: it was before (and the step was not the end of the
    poll), or the step took the task — which was in the queue — out of it. -/
theorem ev_inPoll (K : Conf) (s : St) (p : Pc) (k : Nat) (h : (step K s p).2.inPoll k = true) :
    (p.inPoll k = true ∧ ∀ r ret, p ≠ .p_fin k r ret) ∨
      ∃ t, s.tasks[k]? = some t ∧ t.running = false ∧ t.done = false ∧
        ∃ t', (step K s p).1.tasks[k]? = some t' ∧ t'.running = true ∧ t'.done = false := by
  revert h
  cases p
  case p_begin j =>
    simp only [step]
    split
    · next k' hl =>
      intro h
      simp only [Pc.inPoll, beq_iff_eq] at h
      subst h
      exact Or.inr (by obtain ⟨t, a, b, c⟩ := live_spec s _ _ hl; exact ⟨t, a, c, b, beginPoll_self s _ t a b⟩)
    · simp [Pc.inPoll]
  case run_polls ks pr =>
    simp only [step]
    split
    · split <;> simp [Pc.inPoll]
    · split
      · next hl =>
        intro h
        simp only [Pc.inPoll, beq_iff_eq] at h
        subst h
        exact Or.inr (by obtain ⟨t, a, b, c⟩ := isLive_spec s _ hl; exact ⟨t, a, c, b, beginPoll_self s _ t a b⟩)
      · simp [Pc.inPoll]
  case p_fin k' r ret => simp [step, retPc_inPoll]
  all_goals
    simp only [step, nextEntry, termEntry, afterTrail, thOver, uSecond, uAfter] <;>
    (repeat' split) <;> simp_all [Pc.inPoll]

/-- with debounce / throttle the only fresh tasks are those about to be stored in the handler cell -/
theorem ev_fresh (K : Conf) (s : St) (p : Pc) (k : Nat) (t' : Task)
    (h : (step K s p).1.tasks[k]? = some t') (h0 : s.tasks[k]? = none)
    (ok : p.okH = true) : (step K s p).2 = .hc_store k := by
  have hk : s.tasks.length ≤ k := by
    rcases Nat.lt_or_ge k s.tasks.length with h | h
    · rw [List.getElem?_eq_getElem h] at h0; cases h0
    · exact h
  revert h
  cases p <;> simp only [step, thOver] <;> (repeat' split) <;>
    simp_all [St.upd, St.spawn, St.beginPoll, Pc.okH]
  all_goals
    intro h
    obtain ⟨e1, _⟩ := append_one_get _ _ _ _ (by simpa using hk) h
    simp [e1]

/-- a step that acquires the handler cell while it holds task `k`: it leaves it there, takes `k` out to cancel
    it, or it is a store -/
theorem ev_take (K : Conf) (s : St) (p : Pc) (k : Nat) (hc : p.cell = some .hcell) (ok : p.okH = true)
    (hk : s.hcell = some k) :
    (step K s p).1.hcell = some k ∨ (step K s p).2 = .db_cancel k ∨ (step K s p).2 = .u_cancel k false ∨
      (step K s p).2 = .tc_cancel k ∨ (step K s p).2 = .te_cancel k ∨ ∃ k', p = .hc_store k' := by
  cases p <;> simp_all [Pc.cell, Pc.okH, step]

theorem cancel_unarmed (K : Conf) (s : St) (p : Pc) (k : Nat)
    (hp : p = .db_cancel k ∨ p = .tc_cancel k ∨ p = .te_cancel k ∨ ∃ b, p = .u_cancel k b)
    (hlt : k < s.tasks.length) : (step K s p).1.armed k = false := by
  cases hx : (step K s p).1.armed k with
  | false => rfl
  | true =>
    obtain ⟨t', ht', hk', _⟩ := (armed_iff _ _).mp hx
    rcases hp with rfl | rfl | rfl | ⟨b, rfl⟩
    · simp only [step, St.spawn, St.upd] at ht'
      rw [List.getElem?_append_left (by simpa using hlt), getElem?_updT] at ht'
      simp only [if_true] at ht'
      cases h0 : s.tasks[k]? with
      | none => rw [h0] at ht'; cases ht'
      | some t => rw [h0] at ht'; cases ht'; simp [cancel] at hk'
    all_goals
      simp only [step, St.upd, getElem?_updT, if_true] at ht'
      cases h0 : s.tasks[k]? with
      | none => rw [h0] at ht'; cases ht'
      | some t => rw [h0] at ht'; cases ht'; simp [cancel] at hk'

/-- who can call the probe -/
theorem down_cases (p : Pc) (h : p.cell = some .down) :
    Cell.slot ∈ p.holds ∨ (∃ k v ret, p = .p_down k v ret) ∨ p.okH = false := by
  cases p <;> simp_all [Pc.cell, Pc.holds, Pc.okH]

theorem quiet_append_R (l : List Item) : quietAfterR (l ++ [.R]) = quietAfterR l := by
  induction l with
  | nil => rfl
  | cons x r ih => cases x <;> simp [quietAfterR, ih]

theorem quiet_append_n (l : List Item) (x : Notif) (h : Item.R ∉ l) : quietAfterR (l ++ [.n x]) = true := by
  induction l with
  | nil => rfl
  | cons y r ih =>
    cases y with
    | R => simp at h
    | n z => simp only [List.cons_append, quietAfterR]; exact ih (fun m => h (List.mem_cons_of_mem _ m))

theorem after_eq {p q r : Pc} (ha : After p q) (hp : p = r) (hr : r ≠ .fin) : q = r := by
  rcases ha with rfl | ⟨e, _⟩
  · exact hp
  · rw [hp] at e; exact absurd e hr

theorem entry_inPoll {q : Pc} (h : q.isEntry = true) (k : Nat) : q.inPoll k = false := by
  cases q <;> simp_all [Pc.isEntry, Pc.inPoll]

/-! ### the executor protocol (every operator kind): one poller per task -/

structure PollInv (s : St) (f : Nat → Pc) : Prop where
  /-- one poller per task, and the task is out of the queue meanwhile -/
  p1 : ∀ k j j', (f j).inPoll k = true → (f j').inPoll k = true → j = j'
  p2 : ∀ k j, (f j).inPoll k = true → ∃ t, s.tasks[k]? = some t ∧ t.running = true ∧ t.done = false
  /-- a task whose body has returned has left the queue, or its poller is about to say so -/
  v : ∀ k t, s.tasks[k]? = some t → t.value = true → t.done = true ∨ ∃ j ret, f j = .p_fin k true ret

theorem PollInv.preserved {K : Conf} {s : St} {f : Nat → Pc} {i : Nat} (h : PollInv s f) {q : Pc}
    (ha : After (step K s (f i)).2 q) :
    PollInv (step K s (f i)).1 (fun j => if j = i then q else f j) := by
  have hq_poll : ∀ k, q.inPoll k = true → ((f i).inPoll k = true ∧ ∀ r ret, f i ≠ .p_fin k r ret) ∨
      ∃ t, s.tasks[k]? = some t ∧ t.running = false ∧ t.done = false ∧
        ∃ t', (step K s (f i)).1.tasks[k]? = some t' ∧ t'.running = true ∧ t'.done = false := by
    intro k hk
    rcases ha with rfl | ⟨_, hent⟩
    · exact ev_inPoll _ _ _ _ hk
    · rw [entry_inPoll hent] at hk; cases hk
  refine ⟨?_, ?_, ?_⟩
  · -- p1
    intro k j j' h1 h2
    by_cases hj : j = i <;> by_cases hj' : j' = i
    · rw [hj, hj']
    · simp only [hj, hj', if_true, if_false] at h1 h2
      rcases hq_poll k h1 with ⟨e, _⟩ | ⟨t, ht, hr, _⟩
      · exact hj ▸ (h.p1 k i j' e h2)
      · obtain ⟨t2, ht2, hr2, _⟩ := h.p2 k j' h2
        rw [ht] at ht2; cases ht2; rw [hr] at hr2; cases hr2
    · simp only [hj, hj', if_true, if_false] at h1 h2
      rcases hq_poll k h2 with ⟨e, _⟩ | ⟨t, ht, hr, _⟩
      · exact hj' ▸ (h.p1 k j i h1 e)
      · obtain ⟨t2, ht2, hr2, _⟩ := h.p2 k j h1
        rw [ht] at ht2; cases ht2; rw [hr] at hr2; cases hr2
    · simp only [hj, hj', if_false] at h1 h2
      exact h.p1 k j j' h1 h2
  · -- p2
    intro k j hjp
    by_cases hj : j = i
    · simp only [hj, if_true] at hjp
      rcases hq_poll k hjp with ⟨e, hne⟩ | ⟨t, ht, hr, hd⟩
      · obtain ⟨t, ht, hr, hd⟩ := h.p2 k i e
        obtain ⟨t', ht', _, _, hrd, _⟩ := ev_old K s (f i) k t ht
        rcases hrd with ⟨e1, e2⟩ | ⟨r, ret, e1⟩ | ⟨e1, _⟩
        · exact ⟨t', ht', by rw [e1, hr], by rw [e2, hd]⟩
        · exact absurd e1 (hne r ret)
        · rw [hr] at e1; cases e1
      · exact hd.2
    · simp only [hj, if_false] at hjp
      obtain ⟨t, ht, hr, hd⟩ := h.p2 k j hjp
      obtain ⟨t', ht', _, _, hrd, _⟩ := ev_old K s (f i) k t ht
      rcases hrd with ⟨e1, e2⟩ | ⟨r, ret, e1⟩ | ⟨e1, _⟩
      · exact ⟨t', ht', by rw [e1, hr], by rw [e2, hd]⟩
      · exact absurd (h.p1 k j i hjp (by rw [e1]; simp [Pc.inPoll])) hj
      · rw [hr] at e1; cases e1
  · -- v
    intro k t' ht' hv'
    rcases ev_new K s (f i) k t' ht' with ⟨t, ht⟩ | ⟨_, _, _, _, _, e, _⟩
    · obtain ⟨t'', ht'', _, _, hrd, hval⟩ := ev_old K s (f i) k t ht
      rw [ht'] at ht''; cases ht''
      rcases hval with e | ⟨e, _⟩ | ⟨_, e⟩
      · -- the value was there before
        rw [hv'] at e
        rcases h.v k t ht e.symm with hd | ⟨j, ret, hj⟩
        · left
          rcases hrd with ⟨_, e2⟩ | ⟨r, ret, e1⟩ | ⟨_, e2, _⟩
          · rw [e2, hd]
          · obtain ⟨t2, ht2, _, hd2⟩ := h.p2 k i (by rw [e1]; simp [Pc.inPoll])
            rw [ht] at ht2; cases ht2; rw [hd] at hd2; cases hd2
          · rw [hd] at e2; cases e2
        · by_cases hji : j = i
          · subst hji
            left
            rw [hj] at ht'
            exact fin_done K s k true ret t' ht'
          · exact Or.inr ⟨j, ret, by simp only [hji, if_false]; exact hj⟩
      · rw [hv'] at e; cases e
      · -- the body has just returned: the thread goes on to put the future back
        rcases ev_finish K s (f i) k e with ⟨ret, e1⟩ | e1
        · exact Or.inr ⟨i, ret, by simp only [if_true]; exact after_eq ha e1 (by simp)⟩
        · rw [e1] at ht'
          rw [ht] at ht'; cases ht'
          rcases h.v k t' ht hv' with hd | ⟨j, ret, hj⟩
          · exact Or.inl hd
          · by_cases hji : j = i
            · subst hji; rw [hj] at e; simp [Pc.holds] at e
            · exact Or.inr ⟨j, ret, by simp only [hji, if_false]; exact hj⟩
    · rw [hv'] at e; cases e

theorem PollInv.init (live : Bool) (progs : List (List Op)) :
    PollInv (St.subscribed live) (Cfg.init (St.subscribed live) progs).pcOf := by
  have hpc := init_pcOf (St.subscribed live) progs
  refine ⟨?_, ?_, ?_⟩
  · intro k j j' h1; rcases hpc j with e | e
    · rw [e] at h1; cases h1
    · rw [entry_inPoll e] at h1; cases h1
  · intro k j h1; rcases hpc j with e | e
    · rw [e] at h1; cases h1
    · rw [entry_inPoll e] at h1; cases h1
  · intro k t ht; cases ht

/-- the task a poll is about to run the body of is armed: kept (checked under the handle) and its body has not
    returned yet (else the task would have left the queue, or its only poller would be putting it back) -/
theorem armed_at_body {s : St} {f : Nat → Pc} {i : Nat} (h : PollInv s f) {k : Nat} {ret : Ret}
    (hp : f i = .p_handle k ret) (hk : (s.task k).keep = true) : s.armed k = true := by
  obtain ⟨t, ht, _, hd⟩ := h.p2 k i (by rw [hp]; simp [Pc.inPoll])
  have e : s.task k = t := by rw [task_eq, ht]; rfl
  rw [e] at hk
  refine (armed_iff _ _).mpr ⟨t, ht, hk, ?_⟩
  cases hv : t.value with
  | false => rfl
  | true =>
    rcases h.v k t ht hv with e1 | ⟨j, ret', e1⟩
    · rw [hd] at e1; cases e1
    · have := h.p1 k j i (by rw [e1]; simp [Pc.inPoll]) (by rw [hp]; simp [Pc.inPoll])
      subst this
      rw [hp] at e1; cases e1

end Rx.Conc.TS
