import RxModel.Lemmas.ChainSubStage
import RxModel.Lemmas.ChainWFOps
/-
  C09 over whole chains, part 4: the world-level moves keep `Chain9`.

  `Keep9 w w'`: for every ghost upstream history `up`, `Chain9 up` of `w` gives
  `Chain9 up` of `w'` (the move does not involve the source).  Task bodies of the
  stages (debounce_task, throttle_task, emit_buffer), `unsubscribe`, and — since a
  `Chain9` world has no delay / observe_on / subscribe_on / two-input stage — every
  other benign body, the notifier deliveries and `actual_subscribe` of the stages.
  Everything else about those moves (source fields, scheduler only extended by
  benign tasks) is taken from the `Quiet` lemmas of ChainWFOps.lean.
-/
namespace Rx.T
open Rx Rx.Spec

namespace TW

def Keep9 (w w' : TW) : Prop :=
  ∀ ks up, Chain9K ks up w.stages w.log → Chain9K ks up w'.stages w'.log

theorem Keep9.refl (w : TW) : Keep9 w w := fun _ _ h => h

theorem Keep9.trans {a b c : TW} (h1 : Keep9 a b) (h2 : Keep9 b c) : Keep9 a c :=
  fun ks up h => h2 ks up (h1 ks up h)

theorem Keep9.ofEq {w w' : TW} (h1 : w'.stages = w.stages) (h2 : w'.log = w.log) : Keep9 w w' :=
  fun ks up h => by rw [h1, h2]; exact h

/-- A world without a stage of a kind that `Sub9` knows: vacuous. -/
theorem Keep9.ofBad {w w' : TW} {j : Nat} {st : Stage} (hj : w.stages[j]? = some st)
    (hbad : ∀ inp out, ¬ st.Sub9 inp out) : Keep9 w w' := by
  intro ks up h
  obtain ⟨inp, out, hs⟩ := h.2.get hj
  exact absurd hs (hbad inp out)

/-- The source hands `ns` to stage 0. -/
theorem push_zero_chain9 (w : TW) (ns : List Notif) (ks : List Bool) (up : List Notif)
    (h : Chain9K ks up w.stages w.log) :
    Chain9K ks (up ++ ns) (w.push 0 ns).stages (w.push 0 ns).log := by
  have := cascade_sub9 (w.stages.drop 0) 0 ns w.sched up w.log (by simpa using h.2)
  have hk := cascade_kinds (w.stages.drop 0) 0 ns w.sched
  refine ⟨?_, by simpa [push_eq] using this⟩
  rw [← h.1]
  simpa [push_eq] using hk

theorem kinds_replace {stages : List Stage} {j : Nat} {st st' : Stage} {post' : List Stage}
    (hj : stages[j]? = some st) (hk : st'.isBuf = st.isBuf)
    (hp : post'.map Stage.isBuf = (stages.drop (j + 1)).map Stage.isBuf) :
    (stages.take j ++ st' :: post').map Stage.isBuf = stages.map Stage.isBuf := by
  conv => rhs; rw [split_at hj]
  simp only [List.map_append, List.map_cons, hk, hp]

/-- Stage `j` changes its state to `st'` and emits `ns`. -/
theorem push_keep9 (w : TW) (j : Nat) (st st' : Stage) (ns : List Notif)
    (hj : w.stages[j]? = some st) (hk : st'.isBuf = st.isBuf)
    (hok : ∀ inp out, st.Sub9 inp out → st'.Sub9 inp (out ++ ns)) :
    Keep9 w ((w.setStage j st').push (j + 1) ns) := by
  have hlt : j < w.stages.length := Sched.get_lt hj
  intro ks up h
  have hd : (w.stages.set j st').drop (j + 1) = w.stages.drop (j + 1) := by
    rw [List.drop_set]; simp
  have ht : (w.stages.set j st').take (j + 1) = w.stages.take j ++ [st'] :=
    take_succ_set _ j st' hlt
  have key := Chain9.modify (st' := st') (ns := ns)
    (post' := (cascade (w.stages.drop (j + 1)) (j + 1) ns w.sched).1)
    (log' := w.log ++ (cascade (w.stages.drop (j + 1)) (j + 1) ns w.sched).2.1)
    h.2 hj hok (fun out hc => cascade_sub9 _ (j + 1) ns w.sched out w.log hc)
  have kk := kinds_replace (st' := st') hj hk (cascade_kinds (w.stages.drop (j + 1)) (j + 1) ns w.sched)
  rw [push_eq]
  simp only [setStage_stages, hd, ht, List.append_assoc, List.singleton_append]
  exact ⟨kk.trans h.1, key⟩

/-- Stage `j` changes its state silently. -/
theorem setStage_keep9 (w : TW) (j : Nat) (st st' : Stage)
    (hj : w.stages[j]? = some st) (hk : st'.isBuf = st.isBuf)
    (hok : ∀ inp out, st.Sub9 inp out → st'.Sub9 inp out) :
    Keep9 w (w.setStage j st') := by
  have hlt : j < w.stages.length := Sched.get_lt hj
  intro ks up h
  have kk := kinds_replace (st' := st') (post' := w.stages.drop (j + 1)) hj hk rfl
  have key := Chain9.modify (st' := st') (ns := []) (post' := w.stages.drop (j + 1)) (log' := w.log)
    h.2 hj (fun inp out ho => by simpa using hok inp out ho) (fun out hc => by simpa using hc)
  have e : w.stages.set j st' = w.stages.take j ++ st' :: w.stages.drop (j + 1) := by
    rw [List.set_eq_take_append_cons_drop, if_pos hlt]
  rw [setStage_stages, e]
  exact ⟨kk.trans h.1, key⟩

/-! ### task bodies -/

theorem runBody_keep9 (w : TW) (b : Body) (hb : b.benign = true) : Keep9 w (w.runBody b) := by
  cases b with
  | emit j n =>
    simp only [runBody]
    split
    · next d alive multi hj => exact Keep9.ofBad hj (fun _ _ h => h)
    · next alive multi hj => exact Keep9.ofBad hj (fun _ _ h => h)
    · exact Keep9.refl w
  | debounce j =>
    simp only [runBody]
    split
    · next d alive v h hj =>
      split
      · exact push_keep9 w j _ _ [Notif.next v] hj rfl
          (fun inp out (h : (items out ++ [v]).Sublist (items inp)) =>
            show (items (out ++ [Notif.next v]) ++ []).Sublist (items inp) by
              simpa [items_append, items] using h)
      · exact setStage_keep9 w j _ _ hj rfl
          (fun inp out (h : (items out ++ [v]).Sublist (items inp)) =>
            show (items out ++ []).Sublist (items inp) by simpa using sub_left h)
    · exact Keep9.refl w
  | throttle j =>
    simp only [runBody]
    split
    · next d e alive v h hj =>
      split
      · exact push_keep9 w j _ _ [Notif.next v] hj rfl
          (fun inp out (h : (items out ++ [v]).Sublist (items inp)) =>
            show (items (out ++ [Notif.next v]) ++ []).Sublist (items inp) by
              simpa [items_append, items] using h)
      · exact setStage_keep9 w j _ _ hj rfl
          (fun inp out (h : (items out ++ [v]).Sublist (items inp)) =>
            show (items out ++ []).Sublist (items inp) by simpa using sub_left h)
    · exact Keep9.refl w
  | subscribe j => simp [Body.benign] at hb
  | timerSrc v => simp [Body.benign] at hb
  | tick => exact Keep9.refl w
  | bufTick j => exact Keep9.refl w
  | tickN j => exact Keep9.refl w
  | futureSrc => exact Keep9.refl w
  | streamSrc => exact Keep9.refl w

theorem runTick_keep9 (w : TW) (b : Body) (seq : Nat) (hb : b.benign = true) :
    Keep9 w (w.runTick b seq).1 := by
  cases b with
  | tick => simp [Body.benign] at hb
  | tickN j =>
    simp only [runTick]
    split
    · next st nsrc na nt hj => exact Keep9.ofBad hj (fun _ _ h => h)
    · exact Keep9.refl w
  | bufTick j =>
    simp only [runTick]
    split
    · next d cnt alive data t hj =>
      split
      · exact Keep9.refl w
      · dsimp only
        exact push_keep9 w j _ _ _ hj rfl
          (fun inp out (h : (released out ++ data).Sublist (items inp)) =>
            show (released (out ++ flushBuf data) ++ []).Sublist (items inp) by
              simpa [released_append, released_flushBuf] using h)
    · exact Keep9.refl w
  | _ => exact Keep9.refl w

/-! ### the notifier inputs: there are none -/

theorem deliverNotifiers_keep9 (w : TW) (i : Nat) (n : Notif) (k : Nat) :
    Keep9 w (deliverNotifiers w i n k) := by
  induction k with
  | zero => exact Keep9.refl w
  | succ k ih =>
    unfold deliverNotifiers
    refine Keep9.trans ih ?_
    dsimp only
    split
    · next st j na nt hj => exact Keep9.ofBad hj (fun _ _ h => h)
    · exact Keep9.refl _

/-! ### unsubscription -/

theorem unsubFrom_keep9 (j : Nat) : ∀ (w : TW), Keep9 w (unsubFrom w j) := by
  induction j with
  | zero =>
    intro w
    unfold unsubFrom
    split
    · exact Keep9.ofEq rfl rfl
    · exact Keep9.ofEq rfl rfl
  | succ j ih =>
    intro w
    have hst := unsubFrom_stages_ge j w j (Nat.le_refl j)
    unfold unsubFrom
    split
    · next d alive multi hj => exact Keep9.ofBad hj (fun _ _ h => h)
    · next alive multi hj => exact Keep9.ofBad hj (fun _ _ h => h)
    · next d h hj => exact Keep9.ofBad hj (fun _ _ h => h)
    · next d alive tr handler hj =>
      rw [hj] at hst
      exact (ih w).trans (Keep9.trans (Keep9.ofEq rfl rfl) (setStage_keep9 _ j _ _ hst rfl (fun _ _ h => h)))
    · next d e alive tr handler hj =>
      rw [hj] at hst
      exact (ih w).trans (Keep9.trans (Keep9.ofEq rfl rfl) (setStage_keep9 _ j _ _ hst rfl (fun _ _ h => h)))
    · next h hj =>
      exact Keep9.trans (Keep9.ofEq (w' := { w with sched := w.sched.cancel h }) rfl rfl) (ih _)
    · next st nsrc na nt hj => exact Keep9.ofBad hj (fun _ _ h => h)
    · exact ih w

/-! ### subscription -/

/-- What `actual_subscribe` of the stages and of the hot source leaves unchanged. -/
structure Subscribed (w w' : TW) : Prop where
  src : w'.src = w.src
  subscribed : w'.subscribed = w.subscribed
  srcSubscribed : w'.srcSubscribed = true
  terminated : w'.terminated = w.terminated
  sched : w.sched.Ext w'.sched

theorem subscribeFrom_9 (ks : List Bool) (j : Nat) : ∀ (w : TW) (up : List Notif), w.src = .hot 0 →
    Chain9K ks up w.stages w.log →
    Subscribed w (subscribeFrom w j) ∧ Chain9K ks up (subscribeFrom w j).stages (subscribeFrom w j).log := by
  induction j with
  | zero =>
    intro w up hsrc h
    obtain ⟨sched, src, stages, sa, ss, st, term, sub, unsub, pulls, rest, log⟩ := w
    simp only at hsrc
    subst hsrc
    simp only [subscribeFrom, subscribeSource]
    exact ⟨⟨rfl, rfl, rfl, rfl, Sched.Ext.refl _⟩, h⟩
  | succ j ih =>
    intro w up hsrc h
    unfold subscribeFrom
    split
    · next d cnt alive data t hj =>
      have k : Keep9 w (({ w with sched := (w.sched.scheduleRepeat (.bufTick j) d none).1 } : TW).setStage j
          (.bufTime d cnt alive data (some (w.sched.scheduleRepeat (.bufTick j) d none).2))) :=
        Keep9.trans (Keep9.ofEq (w' := { w with sched := (w.sched.scheduleRepeat (.bufTick j) d none).1 }) rfl rfl)
          (setStage_keep9 _ j _ _ hj rfl (fun _ _ h => h))
      obtain ⟨r, c⟩ := ih (({ w with sched := (w.sched.scheduleRepeat (.bufTick j) d none).1 } : TW).setStage j
          (.bufTime d cnt alive data (some (w.sched.scheduleRepeat (.bufTick j) d none).2))) up hsrc (k ks up h)
      exact ⟨⟨r.src, r.subscribed, r.srcSubscribed, r.terminated,
        (Sched.Ext.scheduleRepeat w.sched (.bufTick j) d none d rfl).trans r.sched⟩, c⟩
    · next delay t hj =>
      obtain ⟨_, _, hs⟩ := h.2.get hj
      exact hs.elim
    · next st nsrc na nt hj =>
      obtain ⟨_, _, hs⟩ := h.2.get hj
      exact hs.elim
    · exact ih w up hsrc h

end TW
end Rx.T
