import RxModel.Lemmas.ChainQuietPollTask
/-
  C02 / C17 over the chain model, part 14: the events `emit` and `sub` keep `Good`.
-/
namespace Rx.T
open Rx

theorem deliverNotifiers_good (i : Nat) (n : Notif) (k : Nat) : ∀ w : TW, GoodW none w →
    GoodW none (TW.deliverNotifiers w i n k) ∧ Fl w (TW.deliverNotifiers w i n k) := by
  induction k with
  | zero => intro w g; exact ⟨g, Fl.refl _⟩
  | succ k ih =>
    intro w g
    obtain ⟨g1, f1⟩ := ih w g
    simp only [TW.deliverNotifiers]
    generalize TW.deliverNotifiers w i n k = w1 at g1 f1 ⊢
    split
    · rename_i st j na nt hk
      split
      · rename_i hc
        have hna : na = true := by
          simp only [Bool.and_eq_true] at hc; exact hc.2
        subst hna
        have hr : ReachedW none w1 (k + 1) := g1.reached_of_na hk rfl
        split
        · obtain ⟨g2, f2⟩ := pushB_good k _ g1 hr
          exact ⟨g2, f1.trans f2.fl⟩
        · have hwf : Stage.wf (.op2n st (.hot j) true nt) := g1.wf k _ hk
          have g2 : GoodW none (w1.setStage k (.op2n st (.hot j) false nt)) :=
            Good.stage_same g1 hk (fun h hm => hm) (fun h hm _ _ _ => hm) rfl hwf
              (Or.inr hr) rfl
          have hr2 : ReachedW none (w1.setStage k (.op2n st (.hot j) false nt)) (k + 1) :=
            Reached.frame hr g1 (map_set_same _ _ _ _ _ hk rfl) (SubKeep.refl _)
          have f2 : Fl w1 (w1.setStage k (.op2n st (.hot j) false nt)) := ⟨rfl, rfl, rfl⟩
          obtain ⟨g3, f3⟩ := pushB_good k _ g2 hr2
          exact ⟨g3, (f1.trans f2).trans f3.fl⟩
      · exact ⟨g1, f1⟩
    · exact ⟨g1, f1⟩

/-- The part of `emit` that concerns the chain's own source. -/
def emitSrc (w w1 : TW) (i : Nat) (n : Notif) : TW :=
  match w.src with
  | .hot j =>
    if i = j && w.srcSubscribed && w.srcAlive then
      match n with
      | .next _ => w1.push 0 [n]
      | _ => { w1 with srcAlive := false }.push 0 [n]
    else w1
  | _ => w1

theorem step_emit_eq (w : TW) (i : Nat) (n : Notif) :
    w.step (.emit i n) =
      if w.terminated.contains i then w
      else TW.deliverNotifiers
        (emitSrc w (if n.isTerm then { w with terminated := i :: w.terminated } else w) i n) i n
        (emitSrc w (if n.isTerm then { w with terminated := i :: w.terminated } else w) i n).stages.length :=
  rfl

theorem emitSrc_good {w w1 : TW} (i : Nat) (n : Notif) (g : GoodW none w) (g1 : GoodW none w1)
    (f1 : Fl w w1) (hst : w1.stages = w.stages) (hsc : w1.sched = w.sched) :
    GoodW none (emitSrc w w1 i n) ∧ Fl w (emitSrc w w1 i n) := by
  unfold emitSrc
  split
  · rename_i j hsrc
    split
    · rename_i hc
      have hal : w.srcAlive = true := by
        simp only [Bool.and_eq_true] at hc; exact hc.2
      have hr : ReachedW none w1 0 := by
        unfold ReachedW; rw [hst, hsc]
        exact g.reached_of_alive hal
      split
      · obtain ⟨g2, f2⟩ := push_good 0 _ g1 hr
        exact ⟨g2, f1.trans f2.fl⟩
      · have g2 : GoodW none ({ w1 with srcAlive := false } : TW) :=
          Good.srcAlive g1 false (Or.inl rfl)
        have f2 : Fl w1 ({ w1 with srcAlive := false } : TW) := ⟨rfl, rfl, rfl⟩
        obtain ⟨g3, f3⟩ := push_good (w := { w1 with srcAlive := false }) 0 _ g2 hr
        exact ⟨g3, (f1.trans f2).trans f3.fl⟩
    · exact ⟨g1, f1⟩
  · exact ⟨g1, f1⟩

theorem step_emit_good {w : TW} (i : Nat) (n : Notif) (g : GoodW none w) :
    GoodW none (w.step (.emit i n)) ∧ Fl w (w.step (.emit i n)) := by
  rw [step_emit_eq]
  split
  · exact ⟨g, Fl.refl _⟩
  · have h1 : GoodW none (if n.isTerm then { w with terminated := i :: w.terminated } else w) ∧
        Fl w (if n.isTerm then { w with terminated := i :: w.terminated } else w) ∧
        (if n.isTerm then { w with terminated := i :: w.terminated } else w).stages = w.stages ∧
        (if n.isTerm then { w with terminated := i :: w.terminated } else w).sched = w.sched := by
      split
      · exact ⟨g, ⟨rfl, rfl, rfl⟩, rfl, rfl⟩
      · exact ⟨g, Fl.refl _, rfl, rfl⟩
    obtain ⟨g1, f1, hst, hsc⟩ := h1
    obtain ⟨g2, f2⟩ := emitSrc_good i n g g1 f1 hst hsc
    obtain ⟨g3, f3⟩ := deliverNotifiers_good i n _ _ g2
    exact ⟨g3, f2.trans f3⟩

end Rx.T
