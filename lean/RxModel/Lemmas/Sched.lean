import RxModel.Sched.Exec
/-
  Helper lemmas for C19, part 1: the "views" of a `Sched` that the properties
  talk about (`now`, `tasks[k]?`, the due time of a timer, `timerFired`), how each
  primitive of Sched/Core.lean changes them, and a case description of
  `Sched.poll` on the polled task (`PollCase`).
-/
namespace Rx.T
namespace Sched

/-- The due time of timer `tm`, if it exists. -/
def tdue (s : Sched) (tm : TimerId) : Option Nat := (s.timers[tm]?).map (·.due)

theorem get_lt {α} {l : List α} {i a} (h : l[i]? = some a) : i < l.length :=
  (List.getElem?_eq_some_iff.mp h).1

/-! ### setTask -/
@[simp] theorem setTask_now (s : Sched) (k t) : (s.setTask k t).now = s.now := rfl
@[simp] theorem setTask_timers (s : Sched) (k t) : (s.setTask k t).timers = s.timers := rfl
@[simp] theorem setTask_tdue (s : Sched) (k t tm) : (s.setTask k t).tdue tm = s.tdue tm := rfl
@[simp] theorem setTask_timerFired (s : Sched) (k t tm) :
    (s.setTask k t).timerFired tm = s.timerFired tm := rfl
@[simp] theorem setTask_length (s : Sched) (k t) :
    (s.setTask k t).tasks.length = s.tasks.length := by simp [setTask]
theorem setTask_get (s : Sched) (k t j) :
    (s.setTask k t).tasks[j]? =
      if k = j then (if k < s.tasks.length then some t else none) else s.tasks[j]? := by
  simp [setTask, List.getElem?_set]
theorem setTask_get_self (s : Sched) (k t t0) (h : s.tasks[k]? = some t0) :
    (s.setTask k t).tasks[k]? = some t := by
  rw [setTask_get]; simp [get_lt h]
theorem setTask_get_ne (s : Sched) (k t j) (h : j ≠ k) :
    (s.setTask k t).tasks[j]? = s.tasks[j]? := by
  rw [setTask_get]; simp [Ne.symm h]

/-! ### registerTimer -/
theorem registerTimer_get (s : Sched) (tm i) :
    (s.registerTimer tm).timers[i]? =
      (s.timers[i]?).map (fun t => if tm = i then { t with registered := true } else t) := by
  unfold registerTimer
  cases h : s.timers[tm]? with
  | none =>
    simp only
    by_cases e : tm = i
    · subst e; simp [h]
    · simp [e]
  | some t =>
    simp only [setTimer, List.getElem?_set]
    by_cases e : tm = i
    · subst e
      rw [if_pos rfl, if_pos (get_lt h), h]; simp
    · simp [e]
@[simp] theorem registerTimer_now (s : Sched) (tm) : (s.registerTimer tm).now = s.now := by
  unfold registerTimer; split <;> rfl
@[simp] theorem registerTimer_tasks (s : Sched) (tm) : (s.registerTimer tm).tasks = s.tasks := by
  unfold registerTimer; split <;> rfl
@[simp] theorem registerTimer_length (s : Sched) (tm) :
    (s.registerTimer tm).timers.length = s.timers.length := by
  unfold registerTimer; split <;> simp [setTimer]
@[simp] theorem registerTimer_tdue (s : Sched) (tm i) : (s.registerTimer tm).tdue i = s.tdue i := by
  simp only [tdue, registerTimer_get]
  cases s.timers[i]? with
  | none => rfl
  | some t => simp only [Option.map]; split <;> rfl
@[simp] theorem registerTimer_timerFired (s : Sched) (tm i) :
    (s.registerTimer tm).timerFired i = s.timerFired i := by
  simp only [timerFired, registerTimer_get]
  cases s.timers[i]? with
  | none => rfl
  | some t => simp only [Option.map]; split <;> rfl

/-! ### newTimer -/
theorem newTimer_get (s : Sched) (d k i) :
    (s.newTimer d k).1.timers[i]? =
      if i = s.timers.length then some { dur := d, due := s.now + d, owner := k }
      else s.timers[i]? := by
  simp only [newTimer]
  by_cases e : i = s.timers.length
  · subst e; simp
  · simp only [e, if_false]
    by_cases l : i < s.timers.length
    · simp [List.getElem?_append_left l]
    · rw [List.getElem?_eq_none (by simp; omega), List.getElem?_eq_none (by omega)]
@[simp] theorem newTimer_now (s : Sched) (d k) : (s.newTimer d k).1.now = s.now := rfl
@[simp] theorem newTimer_tasks (s : Sched) (d k) : (s.newTimer d k).1.tasks = s.tasks := rfl
@[simp] theorem newTimer_id (s : Sched) (d k) : (s.newTimer d k).2 = s.timers.length := rfl
@[simp] theorem newTimer_length (s : Sched) (d k) :
    (s.newTimer d k).1.timers.length = s.timers.length + 1 := by simp [newTimer]
theorem newTimer_tdue (s : Sched) (d k i) :
    (s.newTimer d k).1.tdue i = if i = s.timers.length then some (s.now + d) else s.tdue i := by
  simp only [tdue, newTimer_get]; split <;> rfl
theorem newTimer_tdue_new (s : Sched) (d k) :
    (s.newTimer d k).1.tdue s.timers.length = some (s.now + d) := by
  rw [newTimer_tdue]; simp

theorem timerFired_lt (s : Sched) (tm) (h : s.timerFired tm = true) : tm < s.timers.length := by
  unfold timerFired at h
  cases ht : s.timers[tm]? with
  | none => rw [ht] at h; cases h
  | some t => exact get_lt ht
theorem tdue_lt (s : Sched) (tm d) (h : s.tdue tm = some d) : tm < s.timers.length := by
  unfold tdue at h
  cases ht : s.timers[tm]? with
  | none => rw [ht] at h; cases h
  | some t => exact get_lt ht
theorem timerFired_ge (s : Sched) (tm) (h : s.timers.length ≤ tm) : s.timerFired tm = false := by
  cases hf : s.timerFired tm with
  | false => rfl
  | true => exact absurd (timerFired_lt s tm hf) (Nat.not_lt.mpr h)
theorem tdue_ge (s : Sched) (tm) (h : s.timers.length ≤ tm) : s.tdue tm = none := by
  cases hf : s.tdue tm with
  | none => rfl
  | some d => exact absurd (tdue_lt s tm d hf) (Nat.not_lt.mpr h)

@[simp] theorem newTimer_timerFired (s : Sched) (d k i) :
    (s.newTimer d k).1.timerFired i = s.timerFired i := by
  by_cases e : i = s.timers.length
  · subst e
    rw [timerFired_ge s _ (Nat.le_refl _)]
    simp only [timerFired, newTimer_get, if_true]
  · simp only [timerFired, newTimer_get, e, if_false]
theorem newTimer_tdue_old (s : Sched) (d k tm due) (h : s.tdue tm = some due) :
    (s.newTimer d k).1.tdue tm = some due := by
  rw [newTimer_tdue, if_neg (Nat.ne_of_lt (tdue_lt s tm due h)), h]

/-! ### finishOnce -/
@[simp] theorem finishOnce_now (s : Sched) (k) : (s.finishOnce k).now = s.now := by
  unfold finishOnce; split <;> rfl
@[simp] theorem finishOnce_tdue (s : Sched) (k tm) : (s.finishOnce k).tdue tm = s.tdue tm := by
  unfold finishOnce; split <;> rfl
@[simp] theorem finishOnce_timerFired (s : Sched) (k tm) :
    (s.finishOnce k).timerFired tm = s.timerFired tm := by
  unfold finishOnce; split <;> rfl
@[simp] theorem finishOnce_length (s : Sched) (k) :
    (s.finishOnce k).tasks.length = s.tasks.length := by
  unfold finishOnce; split <;> simp
theorem finishOnce_get_ne (s : Sched) (k j) (h : j ≠ k) :
    (s.finishOnce k).tasks[j]? = s.tasks[j]? := by
  unfold finishOnce; split
  · exact setTask_get_ne _ _ _ _ h
  · rfl
theorem finishOnce_get_self (s : Sched) (k t) (h : s.tasks[k]? = some t) :
    (s.finishOnce k).tasks[k]? = some { t with done := true, hasValue := true } := by
  unfold finishOnce; rw [h]; exact setTask_get_self _ _ _ _ h

/-! ### continueRepeat -/
@[simp] theorem continueRepeat_now (s : Sched) (k) : (s.continueRepeat k).now = s.now := by
  unfold continueRepeat; split
  · split <;> simp
  · rfl
theorem continueRepeat_tdue (s : Sched) (k tm d) (h : s.tdue tm = some d) :
    (s.continueRepeat k).tdue tm = some d := by
  unfold continueRepeat; split
  · split
    · simp [newTimer_tdue_old _ _ _ _ _ h]
    · exact h
  · exact h
@[simp] theorem continueRepeat_timerFired (s : Sched) (k tm) :
    (s.continueRepeat k).timerFired tm = s.timerFired tm := by
  unfold continueRepeat; split
  · split <;> simp
  · rfl
@[simp] theorem continueRepeat_length (s : Sched) (k) :
    (s.continueRepeat k).tasks.length = s.tasks.length := by
  unfold continueRepeat; split
  · split <;> simp
  · rfl
theorem continueRepeat_get_ne (s : Sched) (k j) (h : j ≠ k) :
    (s.continueRepeat k).tasks[j]? = s.tasks[j]? := by
  unfold continueRepeat; split
  · split
    · rw [setTask_get_ne _ _ _ _ h]; simp
    · rfl
  · rfl
theorem continueRepeat_get_self (s : Sched) (k t fur iv seq) (h : s.tasks[k]? = some t)
    (hr : t.rep = some (fur, iv, seq)) :
    (s.continueRepeat k).tasks[k]? = some { t with rep := some (s.timers.length, iv, seq + 1) } ∧
    (s.continueRepeat k).tdue s.timers.length = some (s.now + iv) := by
  unfold continueRepeat; rw [h]; simp only [hr]
  constructor
  · rw [setTask_get_self _ _ _ t (by simpa using h)]; simp
  · simp [newTimer_tdue_new]


/-! ### pollPre -/
/-- The outer delay of `t` is over. -/
def outerReady (s : Sched) (t : Task) : Prop := ∀ tm, t.outerTimer = some tm → s.timerFired tm = true

/-- Case analysis of `pollPre`, in closed form. -/
theorem pollPre_elim (s : Sched) (k : TaskId) {motive : Sched × Poll → Prop}
    (absent : s.tasks[k]? = none → motive (s, .none))
    (finished : ∀ t, s.tasks[k]? = some t → t.done = true → motive (s, .none))
    (cancelled : ∀ t, s.tasks[k]? = some t → t.done = false → t.keepRunning = false →
      motive (s.setTask k { t with woken := false, done := true }, .none))
    (arm : ∀ t d, s.tasks[k]? = some t → t.done = false → t.keepRunning = true →
      t.outerDelay = some d →
      motive (((s.newTimer d k).1.registerTimer s.timers.length).setTask k
        { t with woken := false, outerDelay := none, outerTimer := some s.timers.length }, .none))
    (waitOuter : ∀ t tm, s.tasks[k]? = some t → t.done = false → t.keepRunning = true →
      t.outerDelay = none → t.outerTimer = some tm → s.timerFired tm = false →
      motive ((s.registerTimer tm).setTask k { t with woken := false }, .none))
    (once : ∀ t, s.tasks[k]? = some t → t.done = false → t.keepRunning = true →
      t.outerDelay = none → s.outerReady t → t.rep = none →
      motive (s.setTask k { t with woken := false, outerTimer := none }, .runOnce t.body))
    (waitPeriod : ∀ t fur iv seq, s.tasks[k]? = some t → t.done = false → t.keepRunning = true →
      t.outerDelay = none → s.outerReady t → t.rep = some (fur, iv, seq) → s.timerFired fur = false →
      motive ((s.registerTimer fur).setTask k { t with woken := false, outerTimer := none }, .none))
    (tick : ∀ t fur iv seq, s.tasks[k]? = some t → t.done = false → t.keepRunning = true →
      t.outerDelay = none → s.outerReady t → t.rep = some (fur, iv, seq) → s.timerFired fur = true →
      motive (s.setTask k { t with woken := false, outerTimer := none }, .runTick t.body seq)) :
    motive (s.pollPre k) := by
  cases ht : s.tasks[k]? with
  | none => simpa [pollPre, ht] using absent ht
  | some t =>
    cases hd : t.done with
    | true => simpa [pollPre, ht, hd] using finished t ht hd
    | false =>
      cases hk : t.keepRunning with
      | false => simpa [pollPre, ht, hd, hk] using cancelled t ht hd hk
      | true =>
        cases hod : t.outerDelay with
        | some d => simpa [pollPre, ht, hd, hk, hod] using arm t d ht hd hk hod
        | none =>
          cases hot : t.outerTimer with
          | some tm =>
            cases hf : s.timerFired tm with
            | false =>
              have := waitOuter t tm ht hd hk hod hot hf
              simpa [pollPre, ht, hd, hk, hod, hot, hf] using this
            | true =>
              have hr : s.outerReady t := by
                intro tm' h; rw [hot] at h; cases h; exact hf
              cases hrep : t.rep with
              | none =>
                have := once t ht hd hk hod hr hrep
                simpa [pollPre, ht, hd, hk, hod, hot, hf, hrep] using this
              | some r =>
                obtain ⟨fur, iv, seq⟩ := r
                cases hff : s.timerFired fur with
                | false =>
                  have := waitPeriod t fur iv seq ht hd hk hod hr hrep hff
                  simpa [pollPre, ht, hd, hk, hod, hot, hf, hrep, hff] using this
                | true =>
                  have := tick t fur iv seq ht hd hk hod hr hrep hff
                  simpa [pollPre, ht, hd, hk, hod, hot, hf, hrep, hff] using this
          | none =>
            have hr : s.outerReady t := by
              intro tm' h; rw [hot] at h; cases h
            cases hrep : t.rep with
            | none =>
              have := once t ht hd hk hod hr hrep
              simpa [pollPre, ht, hd, hk, hod, hot, hrep] using this
            | some r =>
              obtain ⟨fur, iv, seq⟩ := r
              cases hff : s.timerFired fur with
              | false =>
                have := waitPeriod t fur iv seq ht hd hk hod hr hrep hff
                simpa [pollPre, ht, hd, hk, hod, hot, hrep, hff] using this
              | true =>
                have := tick t fur iv seq ht hd hk hod hr hrep hff
                simpa [pollPre, ht, hd, hk, hod, hot, hrep, hff] using this


end Sched
end Rx.T
