import RxModel.Lemmas.ChainQuietSubscribe
/-
  C02 / C17 over the chain model, part 11: the bodies of the tasks
  (`runBody`, `runTick`, `runAsync`).
-/
namespace Rx.T
open Rx

theorem Fr.toFl {w w' : TW} (f : Fr w w') : Fl w w' := f.fl

theorem field_good {r : Option TaskId} {w w' : TW} (g : GoodW r w)
    (h1 : w'.info = w.info) (h2 : w'.stages = w.stages) (h3 : w'.sched = w.sched)
    (h4 : w'.subscribed = w.subscribed) (h5 : w'.unsubscribed = w.unsubscribed) :
    GoodW r w' ∧ Fr w w' := by
  refine ⟨?_, ?_⟩
  · unfold GoodW; rw [h1, h2, h3]; exact g
  · have h6 : w'.src = w.src := congrArg Info.src h1
    exact ⟨by rw [h2], by rw [h2], by rw [h3]; exact SubKeep.refl _, h1, ⟨h4, h5, h6⟩⟩

/-- `runBody` of the bodies that only push (everything but `subscribe`). -/
theorem runBody_emit_good {r : Option TaskId} {w : TW} (j : Nat) (n : Notif) (g : GoodW r w)
    (hr : ReachedW r w (j + 1)) :
    GoodW r (w.runBody (.emit j n)) ∧ Fr w (w.runBody (.emit j n)) := by
  unfold TW.runBody
  simp only
  split
  · rename_i d alive multi hj
    split
    · have hwf : Stage.wf (.delay d alive multi) := g.wf j _ hj
      split
      · have g1 : GoodW r (w.setStage j (.delay d false multi)) :=
          Good.stage_same g hj (fun h hm => hm) (fun h hm _ _ _ => hm) rfl hwf
            (Or.inl (fun h => by simpa [Stage.handles, Stage.naOn] using h)) rfl
        have f1 := setStage_fr w j _ (.delay d false multi) hj rfl rfl
        obtain ⟨g2, f2⟩ := push_good (j + 1) [n] g1 (hr.frame g f1)
        exact ⟨g2, f1.trans f2⟩
      · exact push_good (j + 1) [n] g hr
    · exact ⟨g, Fr.refl _⟩
  · rename_i alive multi hj
    split
    · have hwf : Stage.wf (.observeOn alive multi) := g.wf j _ hj
      split
      · have g1 : GoodW r (w.setStage j (.observeOn false multi)) :=
          Good.stage_same g hj (fun h hm => hm) (fun h hm _ _ _ => hm) rfl hwf
            (Or.inl (fun h => by simpa [Stage.handles, Stage.naOn] using h)) rfl
        have f1 := setStage_fr w j _ (.observeOn false multi) hj rfl rfl
        obtain ⟨g2, f2⟩ := push_good (j + 1) [n] g1 (hr.frame g f1)
        exact ⟨g2, f1.trans f2⟩
      · exact push_good (j + 1) [n] g hr
    · exact ⟨g, Fr.refl _⟩
  · exact ⟨g, Fr.refl _⟩

theorem runBody_debounce_good {r : Option TaskId} {w : TW} (j : Nat) (g : GoodW r w)
    (hr : ReachedW r w (j + 1)) :
    GoodW r (w.runBody (.debounce j)) ∧ Fr w (w.runBody (.debounce j)) := by
  unfold TW.runBody
  simp only
  split
  · rename_i d alive v h hj
    have g1 : GoodW r (w.setStage j (.debounce d alive none h)) :=
      Good.stage_same g hj (fun h hm => hm) (fun h hm _ _ _ => hm) rfl trivial
        (Or.inl (fun h => by simpa [Stage.handles, Stage.naOn] using h)) rfl
    have f1 := setStage_fr w j _ (.debounce d alive none h) hj rfl rfl
    split
    · obtain ⟨g2, f2⟩ := push_good (j + 1) [.next v] g1 (hr.frame g f1)
      exact ⟨g2, f1.trans f2⟩
    · exact ⟨g1, f1⟩
  · exact ⟨g, Fr.refl _⟩

theorem runBody_throttle_good {r : Option TaskId} {w : TW} (j : Nat) (g : GoodW r w)
    (hr : ReachedW r w (j + 1)) :
    GoodW r (w.runBody (.throttle j)) ∧ Fr w (w.runBody (.throttle j)) := by
  unfold TW.runBody
  simp only
  split
  · rename_i d e alive v h hj
    have g1 : GoodW r (w.setStage j (.throttle d e alive none h)) :=
      Good.stage_same g hj (fun h hm => hm) (fun h hm _ _ _ => hm) rfl trivial
        (Or.inl (fun h => by simpa [Stage.handles, Stage.naOn] using h)) rfl
    have f1 := setStage_fr w j _ (.throttle d e alive none h) hj rfl rfl
    split
    · obtain ⟨g2, f2⟩ := push_good (j + 1) [.next v] g1 (hr.frame g f1)
      exact ⟨g2, f1.trans f2⟩
    · exact ⟨g1, f1⟩
  · exact ⟨g, Fr.refl _⟩

/-- Every body except `subscribe`: the level of the body has been reached. -/
theorem runBody_good {r : Option TaskId} {w : TW} (b : Body) (hb : b.isSub = false) (g : GoodW r w)
    (hr : ReachedW r w b.level) : GoodW r (w.runBody b) ∧ Fr w (w.runBody b) := by
  cases b with
  | emit j n => exact runBody_emit_good j n g hr
  | debounce j => exact runBody_debounce_good j g hr
  | throttle j => exact runBody_throttle_good j g hr
  | subscribe j => cases hb
  | timerSrc v =>
    show GoodW r (w.push 0 [.next v, .complete]) ∧ Fr w (w.push 0 [.next v, .complete])
    exact push_good 0 [.next v, .complete] g hr
  | tick => unfold TW.runBody; exact ⟨g, Fr.refl _⟩
  | bufTick j => unfold TW.runBody; exact ⟨g, Fr.refl _⟩
  | tickN j => unfold TW.runBody; exact ⟨g, Fr.refl _⟩
  | futureSrc => unfold TW.runBody; exact ⟨g, Fr.refl _⟩
  | streamSrc => unfold TW.runBody; exact ⟨g, Fr.refl _⟩

theorem runTick_good {r : Option TaskId} {w : TW} (b : Body) (seq : Nat) (g : GoodW r w)
    (hr : ReachedW r w b.level) : GoodW r (w.runTick b seq).1 ∧ Fr w (w.runTick b seq).1 := by
  cases b with
  | tick =>
    simp only [TW.runTick]
    split
    · exact ⟨g, Fr.refl _⟩
    · show GoodW r (w.push 0 [.next (.int seq)]) ∧ Fr w (w.push 0 [.next (.int seq)])
      exact push_good 0 _ g hr
  | tickN j =>
    simp only [TW.runTick]
    split
    · split
      · exact ⟨g, Fr.refl _⟩
      · show GoodW r (w.pushB j [.next (.int seq)]) ∧ Fr w (w.pushB j [.next (.int seq)])
        exact pushB_good j _ g hr
    · exact ⟨g, Fr.refl _⟩
  | bufTick j =>
    simp only [TW.runTick]
    split
    · rename_i d cnt alive data t hj
      split
      · exact ⟨g, Fr.refl _⟩
      · have g1 : GoodW r (w.setStage j (.bufTime d cnt alive [] t)) :=
          Good.stage_same g hj (fun h hm => hm) (fun h hm _ _ _ => hm) rfl trivial
            (Or.inl (fun h => by simpa [Stage.handles, Stage.naOn] using h)) rfl
        have f1 := setStage_fr w j _ (.bufTime d cnt alive [] t) hj rfl rfl
        obtain ⟨g2, f2⟩ := push_good (j + 1) (flushBuf data) g1 (hr.frame g f1)
        exact ⟨g2, f1.trans f2⟩
    · exact ⟨g, Fr.refl _⟩
  | _ => simp only [TW.runTick]; exact ⟨g, Fr.refl _⟩

theorem srcRest_good {r : Option TaskId} {w : TW} (l : List AStep) (g : GoodW r w) :
    GoodW r { w with srcRest := l } ∧ Fr w { w with srcRest := l } :=
  field_good g rfl rfl rfl rfl rfl

theorem pollFuture_good {r : Option TaskId} {w : TW} (res : Bool) (g : GoodW r w)
    (hr : ReachedW r w 0) : GoodW r (w.pollFuture res).1 ∧ Fr w (w.pollFuture res).1 := by
  unfold TW.pollFuture
  split
  · exact ⟨g, Fr.refl _⟩
  · exact ⟨g, Fr.refl _⟩
  · exact srcRest_good _ g
  · rename_i v rest _
    obtain ⟨g0, f0⟩ := srcRest_good rest g
    obtain ⟨g1, f1⟩ := push_good 0 [.next v, .complete] g0 (hr.frame g f0)
    exact ⟨g1, f0.trans f1⟩
  · rename_i e rest _
    obtain ⟨g0, f0⟩ := srcRest_good rest g
    simp only
    split
    · obtain ⟨g1, f1⟩ := push_good 0 [.error e] g0 (hr.frame g f0)
      exact ⟨g1, f0.trans f1⟩
    · obtain ⟨g1, f1⟩ := push_good 0 [.next (.int e), .complete] g0 (hr.frame g f0)
      exact ⟨g1, f0.trans f1⟩

theorem streamLap_good {r : Option TaskId} (res : Bool) (l : List AStep) :
    ∀ w : TW, GoodW r w → ReachedW r w 0 →
      GoodW r (TW.streamLap res l w).1 ∧ Fr w (TW.streamLap res l w).1 := by
  induction l with
  | nil => intro w g _; unfold TW.streamLap; exact srcRest_good _ g
  | cons st rest ih =>
    intro w g hr
    unfold TW.streamLap
    split
    · exact srcRest_good _ g
    · split
      · rename_i v
        obtain ⟨g0, f0⟩ := pulls_good (w.pulls + 1) g
        obtain ⟨g1, f1⟩ := push_good 0 [.next v] g0 (hr.frame g f0)
        obtain ⟨g2, f2⟩ := ih _ g1 (hr.frame g (f0.trans f1))
        exact ⟨g2, (f0.trans f1).trans f2⟩
      · rename_i e
        split
        · obtain ⟨g0, f0⟩ := field_good (w' := { w with pulls := w.pulls + 1, srcRest := rest }) g
            rfl rfl rfl rfl rfl
          obtain ⟨g1, f1⟩ := push_good 0 [.error e] g0 (hr.frame g f0)
          exact ⟨g1, f0.trans f1⟩
        · obtain ⟨g0, f0⟩ := pulls_good (w.pulls + 1) g
          obtain ⟨g1, f1⟩ := push_good 0 [.next (.int e)] g0 (hr.frame g f0)
          obtain ⟨g2, f2⟩ := ih _ g1 (hr.frame g (f0.trans f1))
          exact ⟨g2, (f0.trans f1).trans f2⟩
      · exact srcRest_good _ g
      · exact srcRest_good _ g

theorem pollStream_good {r : Option TaskId} (res : Bool) (script : List AStep) (cyc : Bool) (f : Nat) :
    ∀ w : TW, GoodW r w → ReachedW r w 0 →
      GoodW r (TW.pollStream res script cyc f w).1 ∧ Fr w (TW.pollStream res script cyc f w).1 := by
  induction f with
  | zero => intro w g _; exact ⟨g, Fr.refl _⟩
  | succ f ih =>
    intro w g hr
    unfold TW.pollStream
    obtain ⟨g1, f1⟩ := streamLap_good (r := r) res w.srcRest w g hr
    generalize TW.streamLap res w.srcRest w = lap at g1 f1 ⊢
    obtain ⟨w1, o⟩ := lap
    simp only at g1 f1
    split
    · rename_i w1' heq
      cases heq
      split
      · obtain ⟨g0, f0⟩ := srcRest_good script g1
        obtain ⟨g2, f2⟩ := ih _ g0 (hr.frame g (f1.trans f0))
        exact ⟨g2, (f1.trans f0).trans f2⟩
      · obtain ⟨g2, f2⟩ := push_good 0 [.complete] g1 (hr.frame g f1)
        exact ⟨g2, f1.trans f2⟩
    · exact ⟨g1, f1⟩

theorem runAsync_good {r : Option TaskId} {w : TW} (b : Body) (g : GoodW r w)
    (hr : ReachedW r w 0) : GoodW r (w.runAsync b).1 ∧ Fr w (w.runAsync b).1 := by
  unfold TW.runAsync
  split
  · exact pollFuture_good _ g hr
  · exact pollStream_good _ _ _ _ w g hr
  · exact ⟨g, Fr.refl _⟩

end Rx.T
