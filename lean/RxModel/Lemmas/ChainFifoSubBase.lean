import RxModel.Lemmas.ChainFifoBase
import RxModel.Lemmas.ChainSubOps
import RxModel.Lemmas.ChainCompMain
import RxModel.Lemmas.ChainWFOps
import RxModel.Lemmas.SchedStep
/-
  C07 over chains with SEVERAL time stages (FIFO executor), part 1: vocabulary.

  * `Elig j t` / `pend j s`: the notifications a mover at position `j`
    (observe_on / delay) has handed to the scheduler and that are still going to be
    delivered (task not finished, not cancelled), in spawn order;
  * `PwLe i s s'`: pointwise, every pending notification of position `i` in `s'` was
    pending (same task) in `s`; it gives `pend i s' ⊑ pend i s`;
  * `Frame kd j s s'`: what a cascade starting at position `j` may do to the scheduler:
    clock and timers untouched, existing tasks only lose `keepRunning`, new tasks are
    appended fresh (`kd i` = the outer delay of the mover at position `i`);
  * `SubF p st inp out`, `ChainF P j up stages log`: ghost histories as in
    ChainSubBase.lean, the relation of a mover mentions its pending list `P j`.
-/
namespace Rx.T
open Rx Rx.Spec

/-! ### list facts -/

theorem items_sublistF {a b : List Notif} (h : a.Sublist b) : (items a).Sublist (items b) := by
  induction h with
  | slnil => exact List.Sublist.refl _
  | cons x _ ih => cases x <;> simp only [items] <;> first | exact ih | exact ih.trans (List.sublist_cons_self _ _)
  | cons_cons x _ ih => cases x <;> simp only [items] <;> first | exact ih | exact ih.cons_cons _

theorem subF_left {l t E : List Val} (h : (l ++ t).Sublist E) : l.Sublist E :=
  (List.sublist_append_left l t).trans h

/-- Pointwise domination gives a sublist of the `filterMap`s. -/
theorem filterMap_sublist_of_pw {α β} (f : α → Option β) : ∀ (l' l : List α),
    (∀ (k : Nat) a' b, l'[k]? = some a' → f a' = some b → ∃ a, l[k]? = some a ∧ f a = some b) →
    (l'.filterMap f).Sublist (l.filterMap f) := by
  intro l'
  induction l' with
  | nil => intro l _; simp
  | cons a' r' ih =>
    intro l h
    cases l with
    | nil =>
      have h0 : f a' = none := by
        cases hf : f a' with
        | none => rfl
        | some b =>
          obtain ⟨a, ha, _⟩ := h 0 a' b (by simp) hf
          simp at ha
      have := ih [] (fun k a b hk hb => by
        obtain ⟨a2, ha2, _⟩ := h (k + 1) a b (by simpa using hk) hb
        simp at ha2)
      rw [List.filterMap_cons_none h0]
      exact this
    | cons a r =>
      have hr := ih r (fun k a2 b hk hb => by
        obtain ⟨a3, ha3, hb3⟩ := h (k + 1) a2 b (by simpa using hk) hb
        exact ⟨a3, by simpa using ha3, hb3⟩)
      cases hf : f a' with
      | none =>
        rw [List.filterMap_cons_none hf]
        cases hfa : f a with
        | none => rw [List.filterMap_cons_none hfa]; exact hr
        | some b => rw [List.filterMap_cons_some hfa]; exact hr.trans (List.sublist_cons_self _ _)
      | some b =>
        obtain ⟨a2, ha2, hb2⟩ := h 0 a' b (by simp) hf
        simp only [List.getElem?_cons_zero, Option.some.injEq] at ha2
        subst ha2
        rw [List.filterMap_cons_some hf, List.filterMap_cons_some hb2]
        exact hr.cons_cons _

/-! ### pending notifications of a mover -/

/-- The notification task `t` is going to hand to the slot of position `j`. -/
def Elig (j : Nat) (t : Task) : Option Notif :=
  match t.body with
  | .emit i n => if i = j ∧ t.done = false ∧ t.keepRunning = true then some n else none
  | _ => none

theorem Elig_eq_some {j : Nat} {t : Task} {n : Notif} :
    Elig j t = some n ↔ t.body = .emit j n ∧ t.done = false ∧ t.keepRunning = true := by
  unfold Elig
  cases hb : t.body with
  | emit i m =>
    simp only
    by_cases h : i = j ∧ t.done = false ∧ t.keepRunning = true
    · rw [if_pos h]
      obtain ⟨rfl, h2, h3⟩ := h
      constructor
      · intro e; cases e; exact ⟨rfl, h2, h3⟩
      · rintro ⟨e, _, _⟩; cases e; rfl
    · rw [if_neg h]
      constructor
      · intro e; cases e
      · rintro ⟨e, h2, h3⟩; cases e; exact absurd ⟨rfl, h2, h3⟩ h
  | _ => simp

/-- `Elig` only looks at body, `done` and `keepRunning`. -/
theorem Elig_congr {j : Nat} {t t' : Task} (hb : t'.body = t.body) (hd : t'.done = t.done)
    (hk : t'.keepRunning = t.keepRunning) : Elig j t' = Elig j t := by
  unfold Elig; rw [hb, hd, hk]

def pend (j : Nat) (s : Sched) : List Notif := s.tasks.filterMap (Elig j)

def pendOf (s : Sched) : Nat → List Notif := fun j => pend j s

def PwLe (i : Nat) (s s' : Sched) : Prop :=
  ∀ (k : Nat) t' n, s'.tasks[k]? = some t' → Elig i t' = some n → ∃ t, s.tasks[k]? = some t ∧ Elig i t = some n

theorem PwLe.refl (i : Nat) (s : Sched) : PwLe i s s := fun _ t' _ h1 h2 => ⟨t', h1, h2⟩

theorem PwLe.trans {i : Nat} {a b c : Sched} (h1 : PwLe i a b) (h2 : PwLe i b c) : PwLe i a c := by
  intro k t'' n hk he
  obtain ⟨t', hk', he'⟩ := h2 k t'' n hk he
  exact h1 k t' n hk' he'

theorem PwLe.sublist {i : Nat} {s s' : Sched} (h : PwLe i s s') : (pend i s').Sublist (pend i s) :=
  filterMap_sublist_of_pw _ _ _ h

theorem PwLe.of_tasks {i : Nat} {s s' : Sched} (e : s'.tasks = s.tasks) : PwLe i s s' := by
  intro k t' n hk he; rw [e] at hk; exact ⟨t', hk, he⟩

/-- Task `k` is replaced by a task that is not pending any more (or pending the same). -/
theorem PwLe.setTask (i : Nat) (s : Sched) (k : TaskId) (t0 t1 : Task) (h0 : s.tasks[k]? = some t0)
    (h : ∀ n, Elig i t1 = some n → Elig i t0 = some n) : PwLe i s (s.setTask k t1) := by
  intro k' t' n hk he
  by_cases e : k' = k
  · subst e
    rw [Sched.setTask_get_self _ _ _ _ h0] at hk
    cases hk
    exact ⟨t0, h0, h n he⟩
  · rw [Sched.setTask_get_ne _ _ _ _ e] at hk
    exact ⟨t', hk, he⟩

theorem PwLe.cancel (i : Nat) (s : Sched) (k : TaskId) : PwLe i s (s.cancel k) := by
  unfold Sched.cancel
  split
  · next t ht =>
    refine PwLe.setTask i s k t _ ht ?_
    intro n hn
    have := (Elig_eq_some.mp hn).2.2
    simp at this
  · exact PwLe.refl _ _

theorem PwLe.cancelOpt (i : Nat) (s : Sched) (o : Option TaskId) :
    PwLe i s (match o with | some h => s.cancel h | none => s) := by
  cases o
  · exact PwLe.refl _ _
  · exact PwLe.cancel _ _ _

theorem PwLe.finishOnce (i : Nat) (s : Sched) (k : TaskId) : PwLe i s (s.finishOnce k) := by
  unfold Sched.finishOnce
  split
  · next t ht =>
    refine PwLe.setTask i s k t _ ht ?_
    intro n hn
    have := (Elig_eq_some.mp hn).2.1
    simp at this
  · exact PwLe.refl _ _

/-- Scheduling a task that is not an `emit i`. -/
theorem PwLe.scheduleOnce (i : Nat) (s : Sched) (b : Body) (d : Option Nat)
    (hb : ∀ n, b ≠ .emit i n) : PwLe i s (s.scheduleOnce b d).1 := by
  intro k t' n hk he
  by_cases hlt : k < s.tasks.length
  · simp only [Sched.scheduleOnce, List.getElem?_append_left hlt] at hk
    exact ⟨t', hk, he⟩
  · simp only [Sched.scheduleOnce] at hk
    rw [List.getElem?_append_right (Nat.le_of_not_lt hlt)] at hk
    cases hk' : k - s.tasks.length with
    | zero =>
      rw [hk'] at hk
      simp only [List.getElem?_cons_zero, Option.some.injEq] at hk
      subst hk
      exact absurd (Elig_eq_some.mp he).1 (hb n)
    | succ m => rw [hk'] at hk; simp at hk

theorem pend_scheduleOnce_emit (j : Nat) (s : Sched) (n : Notif) (d : Option Nat) :
    pend j (s.scheduleOnce (.emit j n) d).1 = pend j s ++ [n] := by
  simp [pend, Sched.scheduleOnce, List.filterMap_append, Elig]

theorem pend_empty (j : Nat) : pend j {} = [] := rfl

/-- Task `k` is the first pending one of position `j`: finishing it removes the head. -/
theorem pend_finish_first (j : Nat) (s : Sched) (k : TaskId) (t : Task) (n : Notif)
    (hk : s.tasks[k]? = some t) (he : Elig j t = some n)
    (hfirst : ∀ (k' : Nat) t', k' < k → s.tasks[k']? = some t' → Elig j t' = none) :
    pend j s = n :: pend j (s.finishOnce k) := by
  have hlt : k < s.tasks.length := Sched.get_lt hk
  have hsplit : s.tasks = s.tasks.take k ++ t :: s.tasks.drop (k + 1) := by
    have h1 : s.tasks.drop k = t :: s.tasks.drop (k + 1) := by
      rw [List.drop_eq_getElem_cons hlt]
      congr 1
      rw [List.getElem?_eq_getElem hlt] at hk
      exact Option.some.inj hk
    conv => lhs; rw [← List.take_append_drop k s.tasks, h1]
  have hpre : (s.tasks.take k).filterMap (Elig j) = [] := by
    rw [List.filterMap_eq_nil_iff]
    intro a ha
    obtain ⟨i, hi, e⟩ := List.mem_iff_getElem.mp ha
    have hi' : i < k := by simp at hi; omega
    have : s.tasks[i]? = some a := by
      rw [← e, List.getElem_take]; exact List.getElem?_eq_getElem _
    exact hfirst i a hi' this
  have hfin : (s.finishOnce k).tasks =
      s.tasks.take k ++ { t with done := true, hasValue := true } :: s.tasks.drop (k + 1) := by
    unfold Sched.finishOnce
    rw [hk]
    simp only [Sched.setTask]
    rw [List.set_eq_take_append_cons_drop, if_pos hlt]
  have hnone : Elig j { t with done := true, hasValue := true } = none := by
    cases h : Elig j { t with done := true, hasValue := true } with
    | none => rfl
    | some m => have := (Elig_eq_some.mp h).2.1; simp at this
  unfold pend
  rw [hfin]
  conv => lhs; rw [hsplit]
  simp only [List.filterMap_append, hpre, List.nil_append, List.filterMap_cons_some he,
    List.filterMap_cons_none hnone]

/-! ### what a cascade may do to the scheduler -/

/-- Bodies of the tasks of the stages considered here. -/
def Body.rate : Body → Bool
  | .emit _ _ => true
  | .debounce _ => true
  | .throttle _ => true
  | _ => false

/-- `t'` is `t` except for `hasValue`, and `keepRunning` may have been cleared. -/
def Task.Keeps (t t' : Task) : Prop :=
  t'.body = t.body ∧ t'.done = t.done ∧ t'.woken = t.woken ∧ t'.outerDelay = t.outerDelay ∧
    t'.outerTimer = t.outerTimer ∧ t'.rep = t.rep ∧ (t'.keepRunning = true → t.keepRunning = true)

theorem Task.Keeps.refl (t : Task) : Task.Keeps t t := ⟨rfl, rfl, rfl, rfl, rfl, rfl, fun h => h⟩

theorem Task.Keeps.trans {a b c : Task} (h1 : Task.Keeps a b) (h2 : Task.Keeps b c) : Task.Keeps a c := by
  obtain ⟨a1, a2, a3, a4, a5, a6, a7⟩ := h1
  obtain ⟨b1, b2, b3, b4, b5, b6, b7⟩ := h2
  exact ⟨b1.trans a1, b2.trans a2, b3.trans a3, b4.trans a4, b5.trans a5, b6.trans a6, fun h => a7 (b7 h)⟩

/-- A task as `scheduleOnce` creates it, possibly cancelled since. -/
def Task.New (kd : Nat → Option (Option Nat)) (j : Nat) (t : Task) : Prop :=
  t.done = false ∧ t.woken = true ∧ t.outerTimer = none ∧ t.rep = none ∧ t.body.rate = true ∧
    (∀ i n, t.body = .emit i n → j ≤ i ∧ kd i = some t.outerDelay)

theorem Task.New.keeps {kd : Nat → Option (Option Nat)} {j : Nat} {t t' : Task}
    (h : Task.New kd j t) (k : Task.Keeps t t') : Task.New kd j t' := by
  obtain ⟨a1, a2, a3, a4, a5, a6, _⟩ := k
  obtain ⟨b1, b2, b3, b4, b5, b6⟩ := h
  exact ⟨a2.trans b1, a3.trans b2, a5.trans b3, a6.trans b4, by rw [a1]; exact b5,
    fun i n e => by rw [a4]; exact b6 i n (a1 ▸ e)⟩

structure Frame (kd : Nat → Option (Option Nat)) (j : Nat) (s s' : Sched) : Prop where
  now : s'.now = s.now
  timers : s'.timers = s.timers
  len : s.tasks.length ≤ s'.tasks.length
  old : ∀ (k : Nat) t, s.tasks[k]? = some t → ∃ t', s'.tasks[k]? = some t' ∧ Task.Keeps t t'
  new : ∀ (k : Nat) t', s'.tasks[k]? = some t' → s.tasks.length ≤ k → Task.New kd j t'

variable {kd : Nat → Option (Option Nat)}

theorem Frame.refl (j : Nat) (s : Sched) : Frame kd j s s :=
  ⟨rfl, rfl, Nat.le_refl _, fun _ t h => ⟨t, h, Task.Keeps.refl t⟩,
    fun _ _ h hk => absurd (Sched.get_lt h) (Nat.not_lt.mpr hk)⟩

theorem Frame.trans {j : Nat} {a b c : Sched} (h1 : Frame kd j a b) (h2 : Frame kd j b c) :
    Frame kd j a c := by
  refine ⟨h2.now.trans h1.now, h2.timers.trans h1.timers, Nat.le_trans h1.len h2.len, ?_, ?_⟩
  · intro k t hk
    obtain ⟨t', hk', k1⟩ := h1.old k t hk
    obtain ⟨t'', hk'', k2⟩ := h2.old k t' hk'
    exact ⟨t'', hk'', k1.trans k2⟩
  · intro k t'' hk hge
    by_cases hlt : k < b.tasks.length
    · obtain ⟨t', ht'⟩ : ∃ t', b.tasks[k]? = some t' := ⟨_, List.getElem?_eq_getElem hlt⟩
      obtain ⟨t2, hk2, k2⟩ := h2.old k t' ht'
      rw [hk] at hk2; cases hk2
      exact (h1.new k t' ht' hge).keeps k2
    · exact h2.new k t'' hk (Nat.le_of_not_lt hlt)

theorem Frame.mono {j j' : Nat} {s s' : Sched} (h : Frame kd j' s s') (hj : j ≤ j') : Frame kd j s s' :=
  ⟨h.now, h.timers, h.len, h.old, fun k t' hk hge => by
    obtain ⟨b1, b2, b3, b4, b5, b6⟩ := h.new k t' hk hge
    exact ⟨b1, b2, b3, b4, b5, fun i n e => ⟨Nat.le_trans hj (b6 i n e).1, (b6 i n e).2⟩⟩⟩

theorem Frame.setTask (j : Nat) (s : Sched) (k : TaskId) (t0 t1 : Task) (h0 : s.tasks[k]? = some t0)
    (hk : Task.Keeps t0 t1) : Frame kd j s (s.setTask k t1) := by
  refine ⟨rfl, rfl, by simp, ?_, ?_⟩
  · intro k' t hk'
    by_cases e : k' = k
    · subst e
      rw [h0] at hk'; cases hk'
      exact ⟨t1, Sched.setTask_get_self _ _ _ _ h0, hk⟩
    · exact ⟨t, by rw [Sched.setTask_get_ne _ _ _ _ e]; exact hk', Task.Keeps.refl t⟩
  · intro k' t' hk' hge
    have := Sched.get_lt hk'
    simp at this
    omega

theorem Frame.cancel (j : Nat) (s : Sched) (k : TaskId) : Frame kd j s (s.cancel k) := by
  unfold Sched.cancel
  split
  · next t ht =>
    exact Frame.setTask j s k t _ ht ⟨rfl, rfl, rfl, rfl, rfl, rfl, fun h => by simp at h⟩
  · exact Frame.refl _ _

theorem Frame.cancelOpt (j : Nat) (s : Sched) (o : Option TaskId) :
    Frame kd j s (match o with | some h => s.cancel h | none => s) := by
  cases o
  · exact Frame.refl _ _
  · exact Frame.cancel _ _ _

theorem Frame.scheduleOnce (j : Nat) (s : Sched) (b : Body) (d : Option Nat) (hb : b.rate = true)
    (he : ∀ i n, b = .emit i n → j ≤ i ∧ kd i = some d) : Frame kd j s (s.scheduleOnce b d).1 := by
  refine ⟨rfl, rfl, by simp, ?_, ?_⟩
  · intro k t hk
    exact ⟨t, Sched.scheduleOnce_get_old s b d k t hk, Task.Keeps.refl t⟩
  · intro k t' hk hge
    simp only [Sched.scheduleOnce] at hk
    rw [List.getElem?_append_right hge] at hk
    cases hk' : k - s.tasks.length with
    | zero =>
      rw [hk'] at hk
      simp only [List.getElem?_cons_zero, Option.some.injEq] at hk
      subst hk
      exact ⟨rfl, rfl, rfl, rfl, hb, he⟩
    | succ m => rw [hk'] at hk; simp at hk

/-- A cascade starting at position `j` leaves the pending lists of the positions before `j` alone. -/
theorem Frame.pwLe {j : Nat} {s s' : Sched} (h : Frame kd j s s') (i : Nat) (hi : i < j) : PwLe i s s' := by
  intro k t' n hk he
  by_cases hlt : k < s.tasks.length
  · obtain ⟨t, ht⟩ : ∃ t, s.tasks[k]? = some t := ⟨_, List.getElem?_eq_getElem hlt⟩
    obtain ⟨t2, hk2, a1, a2, _, _, _, _, a7⟩ := h.old k t ht
    rw [hk] at hk2; cases hk2
    obtain ⟨e1, e2, e3⟩ := Elig_eq_some.mp he
    exact ⟨t, ht, Elig_eq_some.mpr ⟨a1 ▸ e1, a2 ▸ e2, a7 e3⟩⟩
  · obtain ⟨_, _, _, _, _, b6⟩ := h.new k t' hk (Nat.le_of_not_lt hlt)
    have := (b6 i n (Elig_eq_some.mp he).1).1
    omega

/-- Every task: a once-task of one of the stages. -/
def GoodS (s : Sched) : Prop := ∀ (k : Nat) t, s.tasks[k]? = some t → t.rep = none ∧ t.body.rate = true

theorem GoodS.of_pw {s s' : Sched} (h : GoodS s)
    (hp : ∀ (k : Nat) t', s'.tasks[k]? = some t' →
      (∃ t, s.tasks[k]? = some t ∧ t'.body = t.body ∧ t'.rep = t.rep) ∨ (t'.rep = none ∧ t'.body.rate = true)) :
    GoodS s' := by
  intro k t' hk
  rcases hp k t' hk with ⟨t, ht, e1, e2⟩ | h'
  · rw [e1, e2]; exact h k t ht
  · exact h'

theorem GoodS.frame {j : Nat} {s s' : Sched} (h : GoodS s) (f : Frame kd j s s') : GoodS s' := by
  refine h.of_pw (fun k t' hk => ?_)
  by_cases hlt : k < s.tasks.length
  · obtain ⟨t, ht⟩ : ∃ t, s.tasks[k]? = some t := ⟨_, List.getElem?_eq_getElem hlt⟩
    obtain ⟨t2, hk2, a1, _, _, _, _, a6, _⟩ := f.old k t ht
    rw [hk] at hk2; cases hk2
    exact Or.inl ⟨t, ht, a1, a6⟩
  · obtain ⟨_, _, _, b4, b5, _⟩ := f.new k t' hk (Nat.le_of_not_lt hlt)
    exact Or.inr ⟨b4, b5⟩

theorem GoodS.of_tasks {s s' : Sched} (h : GoodS s) (e : s'.tasks = s.tasks) : GoodS s' := by
  intro k t hk; rw [e] at hk; exact h k t hk

theorem GoodS.setTask {s : Sched} (h : GoodS s) (k : TaskId) (t0 t1 : Task) (h0 : s.tasks[k]? = some t0)
    (hb : t1.body = t0.body) (hr : t1.rep = t0.rep) : GoodS (s.setTask k t1) := by
  refine h.of_pw (fun k' t' hk' => ?_)
  by_cases e : k' = k
  · subst e
    rw [Sched.setTask_get_self _ _ _ _ h0] at hk'; cases hk'
    exact Or.inl ⟨t0, h0, hb, hr⟩
  · rw [Sched.setTask_get_ne _ _ _ _ e] at hk'
    exact Or.inl ⟨t', hk', rfl, rfl⟩

theorem GoodS.finishOnce {s : Sched} (h : GoodS s) (k : TaskId) : GoodS (s.finishOnce k) := by
  unfold Sched.finishOnce
  split
  · next t ht => exact h.setTask k t _ ht rfl rfl
  · exact h

/-! ### stages -/

/-- Consistency of a stage with its ghost input / output histories; `p`: the
    notifications the stage (if it is a mover) has pending in the scheduler. -/
def SubF (p : List Notif) : Stage → List Notif → List Notif → Prop
  | .op1 o, inp, out => o.filtering = true ∧ (items out ++ o.held).Sublist (items inp)
  | .debounce _ _ tr _, inp, out => (items out ++ tr.toList).Sublist (items inp)
  | .throttle _ _ _ tr _, inp, out => (items out ++ tr.toList).Sublist (items inp)
  | .throttleW _ _ _ tr, inp, out => (items out ++ tr.toList).Sublist (items inp)
  | .observeOn _ _, inp, out => (items out ++ items p).Sublist (items inp)
  | .delay _ _ _, inp, out => (items out ++ items p).Sublist (items inp)
  | _, _, _ => False

theorem SubF.items {p : List Notif} {st : Stage} {inp out : List Notif} (h : SubF p st inp out) :
    (items out).Sublist (items inp) := by
  cases st with
  | op1 o => exact subF_left h.2
  | debounce d a tr hd => exact subF_left h
  | throttle d e a tr hd => exact subF_left h
  | throttleW d e a tr => exact subF_left h
  | observeOn a m => exact subF_left h
  | delay d a m => exact subF_left h
  | _ => exact h.elim

theorem SubF.mono {p p' : List Notif} {st : Stage} {inp out : List Notif} (h : SubF p st inp out)
    (hp : p'.Sublist p) : SubF p' st inp out := by
  cases st with
  | observeOn a m =>
    exact (List.Sublist.append (List.Sublist.refl _) (items_sublistF hp)).trans h
  | delay d a m =>
    exact (List.Sublist.append (List.Sublist.refl _) (items_sublistF hp)).trans h
  | _ => exact h

/-- The outer delay of a mover. -/
def dlOf : Stage → Option (Option Nat)
  | .delay d _ _ => some (some d)
  | .observeOn _ _ => some none
  | _ => none

/-- `kd` describes the movers of `stages`, which start at position `j`. -/
def Kinds (kd : Nat → Option (Option Nat)) (j : Nat) (stages : List Stage) : Prop :=
  ∀ (i : Nat) st, stages[i]? = some st → dlOf st = kd (j + i)

theorem Kinds.of_map {j : Nat} {stages stages' : List Stage} (h : Kinds kd j stages)
    (e : stages'.map dlOf = stages.map dlOf) : Kinds kd j stages' := by
  intro i st' hi
  have h1 : (stages'.map dlOf)[i]? = some (dlOf st') := by simp [hi]
  rw [e] at h1
  simp only [List.getElem?_map, Option.map_eq_some_iff] at h1
  obtain ⟨st, hst, e2⟩ := h1
  rw [← e2]; exact h i st hst

theorem Kinds.tail {j : Nat} {st : Stage} {rest : List Stage} (h : Kinds kd j (st :: rest)) :
    Kinds kd (j + 1) rest := by
  intro i s hi
  have := h (i + 1) s (by simpa using hi)
  rw [this]; congr 1; omega

theorem Kinds.head {j : Nat} {st : Stage} {rest : List Stage} (h : Kinds kd j (st :: rest)) :
    dlOf st = kd j := h 0 st rfl

theorem Kinds.drop {stages : List Stage} (h : Kinds kd 0 stages) (j : Nat) : Kinds kd j (stages.drop j) := by
  intro i st hi
  rw [List.getElem?_drop] at hi
  simpa using h (j + i) st hi

/-! ### chains -/

/-- `up`: everything handed to the head of `stages` (position `j`) so far; `log`: what
    reached the probe; `P i`: the pending list of position `i`. -/
def ChainF (P : Nat → List Notif) : Nat → List Notif → List Stage → List Notif → Prop
  | _, up, [], log => log.Sublist up
  | j, up, st :: r, log => ∃ inp out, inp.Sublist up ∧ SubF (P j) st inp out ∧ ChainF P (j + 1) out r log

variable {P P' : Nat → List Notif}

theorem ChainF.mono {j : Nat} {up up' : List Notif} {stages : List Stage} {log : List Notif}
    (h : ChainF P j up stages log) (hs : up.Sublist up') : ChainF P j up' stages log := by
  cases stages with
  | nil => exact List.Sublist.trans h hs
  | cons st r =>
    obtain ⟨inp, out, h1, h2, h3⟩ := h
    exact ⟨inp, out, h1.trans hs, h2, h3⟩

/-- The pending lists may shrink. -/
theorem ChainF.anti {j : Nat} {up : List Notif} {stages : List Stage} {log : List Notif}
    (h : ChainF P j up stages log) (hp : ∀ i, j ≤ i → (P' i).Sublist (P i)) :
    ChainF P' j up stages log := by
  induction stages generalizing j up with
  | nil => exact h
  | cons st r ih =>
    obtain ⟨inp, out, h1, h2, h3⟩ := h
    exact ⟨inp, out, h1, h2.mono (hp j (Nat.le_refl _)),
      ih h3 (fun i hi => hp i (by omega))⟩

theorem ChainF.initial (P : Nat → List Notif) (hP : ∀ i, P i = []) (j : Nat) (stages : List Stage)
    (h : ∀ st ∈ stages, SubF [] st [] []) : ChainF P j [] stages [] := by
  induction stages generalizing j with
  | nil => exact List.Sublist.refl _
  | cons st r ih =>
    exact ⟨[], [], List.Sublist.refl _, by rw [hP j]; exact h st (by simp),
      ih (j + 1) (fun s hs => h s (by simp [hs]))⟩

theorem ChainF.append_iff (j : Nat) (up : List Notif) (pre post : List Stage) (log : List Notif) :
    ChainF P j up (pre ++ post) log ↔
      ∃ mid, ChainF P j up pre mid ∧ ChainF P (j + pre.length) mid post log := by
  induction pre generalizing j up with
  | nil =>
    constructor
    · intro h; exact ⟨up, List.Sublist.refl _, h⟩
    · rintro ⟨mid, h1, h2⟩; exact h2.mono h1
  | cons st r ih =>
    have e : j + (st :: r).length = j + 1 + r.length := by simp; omega
    constructor
    · rintro ⟨inp, out, h1, h2, h3⟩
      obtain ⟨mid, h4, h5⟩ := (ih (j + 1) out).mp h3
      exact ⟨mid, ⟨inp, out, h1, h2, h4⟩, by rw [e]; exact h5⟩
    · rintro ⟨mid, ⟨inp, out, h1, h2, h4⟩, h5⟩
      exact ⟨inp, out, h1, h2, (ih (j + 1) out).mpr ⟨mid, h4, by rw [← e]; exact h5⟩⟩

theorem split_atF {stages : List Stage} {j : Nat} {st : Stage} (hj : stages[j]? = some st) :
    stages = stages.take j ++ st :: stages.drop (j + 1) := by
  have hlt : j < stages.length := Sched.get_lt hj
  have h1 : stages.drop j = st :: stages.drop (j + 1) := by
    rw [List.drop_eq_getElem_cons hlt]
    congr 1
    rw [List.getElem?_eq_getElem hlt] at hj
    exact Option.some.inj hj
  conv => lhs; rw [← List.take_append_drop j stages, h1]

/-- Every stage of a chain is one of the kinds that have a relation. -/
theorem ChainF.get {up : List Notif} {stages : List Stage} {log : List Notif} {j : Nat} {st : Stage}
    (h : ChainF P 0 up stages log) (hj : stages[j]? = some st) : ∃ p inp out, SubF p st inp out := by
  rw [split_atF hj] at h
  obtain ⟨mid, _, inp, out, _, h3, _⟩ := (ChainF.append_iff 0 up _ _ log).mp h
  exact ⟨_, inp, out, h3⟩

/-- Replace the stage at position `j` by one that has emitted `ns` more, let the stages
    behind it absorb that, and let the pending lists shrink. -/
theorem ChainF.modify {up : List Notif} {stages : List Stage} {log : List Notif} {j : Nat}
    {st st' : Stage} {ns : List Notif} {post' : List Stage} {log' : List Notif}
    (h : ChainF P 0 up stages log) (hj : stages[j]? = some st)
    (hpre : ∀ i, i < j → (P' i).Sublist (P i))
    (hok : ∀ inp out, SubF (P j) st inp out → SubF (P' j) st' inp (out ++ ns))
    (hpost : ∀ out, ChainF P (j + 1) out (stages.drop (j + 1)) log → ChainF P' (j + 1) (out ++ ns) post' log') :
    ChainF P' 0 up (stages.take j ++ st' :: post') log' := by
  have hlt : j < stages.length := Sched.get_lt hj
  rw [split_atF hj] at h
  obtain ⟨mid, h1, inp, out, h2, h3, h4⟩ := (ChainF.append_iff 0 up _ _ log).mp h
  have hl : (stages.take j).length = j := by simp; omega
  rw [hl, Nat.zero_add] at h3 h4
  refine (ChainF.append_iff 0 up _ _ log').mpr ⟨mid, ?_, inp, out ++ ns, h2, ?_, ?_⟩
  · -- the stages before `j`: only their own pending lists matter
    have : ∀ (pre : List Stage) (k : Nat) (u m : List Notif), k + pre.length ≤ j →
        ChainF P k u pre m → ChainF P' k u pre m := by
      intro pre
      induction pre with
      | nil => intro k u m _ h; exact h
      | cons s r ih =>
        intro k u m hk h
        obtain ⟨i1, o1, a1, a2, a3⟩ := h
        simp only [List.length_cons] at hk
        exact ⟨i1, o1, a1, a2.mono (hpre k (by omega)), ih (k + 1) o1 m (by omega) a3⟩
    exact this _ 0 up mid (by omega) h1
  · rw [hl, Nat.zero_add]; exact hok inp out h3
  · rw [hl, Nat.zero_add]; exact hpost out h4

/-- The items at the probe are a sublist of the items handed to the head of the chain. -/
theorem ChainF.items_sublist {j : Nat} {up : List Notif} {stages : List Stage} {log : List Notif}
    (h : ChainF P j up stages log) : (items log).Sublist (items up) := by
  induction stages generalizing j up with
  | nil => exact items_sublistF h
  | cons st r ih =>
    obtain ⟨inp, out, h1, h2, h3⟩ := h
    exact ((ih h3).trans h2.items).trans (items_sublistF h1)

end Rx.T
