import RxModel.Lemmas.ChainCompFeed
/-
  C07C, part 5: the simulation theorem.  For every FIFO history `evs`, the probe log of the
  world `pre ++ [T] ++ post` is what `post` makes of the probe log of the one-stage world `[T]`
  driven by `feedEvs pre evs`.
-/
set_option linter.unusedSimpArgs false
namespace Rx.T
open Rx Rx.Spec

/-! ### the worlds -/

/-- hot subject 0 → `pre` → `T` → `post` → probe, nothing subscribed yet. -/
def chainW (pre : List St1) (T : Stage) (post : List St1) : TW :=
  { src := .hot 0, stages := pre.map .op1 ++ T :: post.map .op1 }

def Stage.plain : Stage → Bool
  | .op1 _ => true
  | .delay _ _ _ => true
  | .observeOn _ _ => true
  | _ => false

theorem subscribeFrom_plain : ∀ (j : Nat) (w : TW), (∀ k, k < j → ∃ st, w.stages[k]? = some st ∧ st.plain = true) →
    TW.subscribeFrom w j = w.subscribeSource := by
  intro j
  induction j with
  | zero => intro w _; rfl
  | succ j ih =>
    intro w h
    obtain ⟨st, hst, hp⟩ := h j (Nat.lt_succ_self j)
    have : TW.subscribeFrom w (j + 1) = TW.subscribeFrom w j := by
      cases st <;> simp_all [TW.subscribeFrom, Stage.plain]
    rw [this]
    exact ih w (fun k hk => h k (Nat.lt_succ_of_lt hk))

theorem chainW_plain (pre : List St1) (T : Stage) (hT : T.isMover = true) (post : List St1) :
    ∀ k, k < (chainW pre T post).stages.length → ∃ st, (chainW pre T post).stages[k]? = some st ∧ st.plain = true := by
  intro k hk
  refine ⟨(chainW pre T post).stages[k], List.getElem?_eq_getElem hk, ?_⟩
  have hm : (chainW pre T post).stages[k] ∈ (chainW pre T post).stages := List.getElem_mem hk
  generalize (chainW pre T post).stages[k] = st at hm
  simp only [chainW, List.mem_append, List.mem_map, List.mem_cons] at hm
  rcases hm with ⟨o, _, rfl⟩ | rfl | ⟨o, _, rfl⟩
  · rfl
  · cases st <;> simp_all [Stage.isMover, Stage.plain]
  · rfl

theorem chainW_sub (pre : List St1) (T : Stage) (hT : T.isMover = true) (post : List St1) :
    (chainW pre T post).step .sub =
      { chainW pre T post with subscribed := true, srcSubscribed := true, srcAlive := true } := by
  have h := subscribeFrom_plain (chainW pre T post).stages.length
    { chainW pre T post with subscribed := true } (chainW_plain pre T hT post)
  simp only [TW.step, chainW, Bool.false_eq_true, if_false] at h ⊢
  rw [h]
  rfl

/-- The one-stage world of `T`, subscribed. -/
def oneW (T : Stage) : TW := { src := .hot 0, stages := [T], subscribed := true, srcSubscribed := true, srcAlive := true }

theorem oneW_sub (T : Stage) (hT : T.isMover = true) : ({ src := .hot 0, stages := [T] } : TW).step .sub = oneW T := by
  have := chainW_sub [] T hT []
  simpa [chainW, oneW] using this

theorem chainW_sub_lift (pre : List St1) (T : Stage) (hT : T.isMover = true) (post : List St1) :
    (chainW pre T post).step .sub =
      lift post pre.length
        { chainW pre T post with subscribed := true, srcSubscribed := true, srcAlive := true } pre (oneW T) := by
  rw [chainW_sub pre T hT post]
  simp [lift, oneW, chainW, runChain_nil_input, Sched.shift]

/-! ### steps of the lifted world -/

/-- No two-input cell in the chain. -/
def NoOp2n (stages : List Stage) : Prop :=
  ∀ (k : Nat) (st : Stage), stages[k]? = some st → ∀ a b c d, st ≠ Stage.op2n a b c d

theorem deliverNotifiers_noop (w : TW) (i : Nat) (n : Notif) (hno : NoOp2n w.stages) :
    ∀ k, TW.deliverNotifiers w i n k = w := by
  intro k
  induction k with
  | zero => rfl
  | succ k ih =>
    simp only [TW.deliverNotifiers, ih]
    split
    · next st nsrc na nt heq => exact absurd rfl (hno k _ heq _ _ _ _)
    · rfl

theorem lift_no_op2n (post0 : List St1) (j : Nat) (base : TW) (preS : List St1) (w1 : TW)
    (h : One1 w1) : NoOp2n (lift post0 j base preS w1).stages := by
  obtain ⟨T, hs, hT⟩ := h.stage
  intro k st hk a b c d e
  have hm : st ∈ (lift post0 j base preS w1).stages := List.mem_of_getElem? hk
  rw [lift_stages _ _ _ _ _ T hs] at hm
  simp only [List.mem_append, List.mem_map, List.mem_cons] at hm
  subst e
  rcases hm with ⟨o, _, ho⟩ | rfl | ⟨o, _, ho⟩
  · cases ho
  · simp [Stage.isMover] at hT
  · cases ho

theorem step_emit_other_gen (w : TW) (i : Nat) (n : Notif) (hsrc : w.src = .hot 0) (hi : i ≠ 0)
    (hno : NoOp2n w.stages) :
    w.step (.emit i n) =
      if w.terminated.contains i then w
      else if n.isTerm then { w with terminated := i :: w.terminated } else w := by
  cases hc : w.terminated.contains i with
  | true => simp [TW.step_emit_ignored w i n hc]
  | false =>
    have h' : i ∉ w.terminated := by simpa using hc
    have hno' : NoOp2n ({ w with terminated := i :: w.terminated } : TW).stages := hno
    cases hn : n.isTerm
    · simpa [TW.step, h', hsrc, hi, hn] using deliverNotifiers_noop w i n hno _
    · simpa [TW.step, h', hsrc, hi, hn] using deliverNotifiers_noop _ i n hno' _

theorem fin_lift (post0 : List St1) (j : Nat) (base : TW) (preS : List St1) (w1 : TW) (T : Stage)
    (hs : w1.stages = [T]) (hT : T.isMover = true) :
    fin (lift post0 j base preS w1).stages =
      (deadSt preS || (!T.mAlive || deadSt (runChain post0 w1.log).1)) := by
  rw [lift_stages _ _ _ _ _ T hs, fin_op1_append, T.fin_mover hT, fin_op1]

/-! ### the invariant -/

/-- Phase A: the world is the lift of the one-stage world driven by the feed.
    Phase B (never entered since `fix: Subject::error/complete hand the terminal to every
    subscriber`, kept because it costs nothing): the source's terminal was withheld because `post`
    had finished (its slot is empty since the one-stage log was `L0`); the world is the lift of SOME
    one-stage world whose log extends `L0`, and so does the log of the one driven by the feed. -/
def MainInv (pre0 post0 : List St1) (j : Nat) (w0s : TW) (evs : List TW.Ev) (W : TW) : Prop :=
  (∃ base preS, W = lift post0 j base preS ((feedEvs pre0 evs).foldl TW.step w0s) ∧
      base.src = .hot 0 ∧ base.srcSubscribed = true ∧
      base.terminated.contains 0 = (feedSt pre0 evs).t ∧
      ((feedSt pre0 evs).t = false → base.srcAlive = true ∧ preS = (feedSt pre0 evs).ps) ∧
      preS.length = j ∧ calmSt preS) ∨
  (∃ base preS, ∃ (evsA : List TW.Ev), ∃ L0, W = lift post0 j base preS (evsA.foldl TW.step w0s) ∧
      (∀ e ∈ evsA, FifoEv e) ∧ base.src = .hot 0 ∧ base.terminated.contains 0 = true ∧
      (feedSt pre0 evs).t = true ∧
      L0 <+: (evsA.foldl TW.step w0s).log ∧ L0 <+: ((feedEvs pre0 evs).foldl TW.step w0s).log ∧
      deadSt (runChain post0 L0).1 = true ∧ preS.length = j)

theorem runChain_dead_prefix (post0 : List St1) (L0 L : List Notif) (h : L0 <+: L)
    (hd : deadSt (runChain post0 L0).1 = true) : (runChain post0 L).2 = (runChain post0 L0).2 := by
  obtain ⟨x, rfl⟩ := h
  rw [runChain_append, (deadSt_run _ x hd).1, List.append_nil]

/-- What the invariant says about the probe log. -/
theorem MainInv.log {pre0 post0 : List St1} {j : Nat} {w0s : TW} {evs : List TW.Ev} {W : TW}
    (h : MainInv pre0 post0 j w0s evs W) :
    W.log = (runChain post0 ((feedEvs pre0 evs).foldl TW.step w0s).log).2 := by
  rcases h with ⟨base, preS, rfl, _⟩ | ⟨base, preS, evsA, L0, rfl, _, _, _, _, h1, h2, hd, _⟩
  · rfl
  · show (runChain post0 (evsA.foldl TW.step w0s).log).2 = _
    rw [runChain_dead_prefix post0 L0 _ h1 hd, runChain_dead_prefix post0 L0 _ h2 hd]

theorem lift_adv (post0 : List St1) (j : Nat) (base : TW) (preS : List St1) (w1 : TW) (k : Nat) :
    (lift post0 j base preS w1).step (.adv k) = lift post0 j base preS (w1.step (.adv k)) := rfl

theorem lift_run (post0 : List St1) (hc : calmSt post0) (j : Nat) (base : TW) (preS : List St1) (w1 : TW)
    (h : One1 w1) (hj : preS.length = j) :
    (lift post0 j base preS w1).step .run = lift post0 j base preS (w1.step .run) :=
  runLoop_lift post0 hc j base preS hj 10000 w1 h

theorem foldl_snoc (w0s : TW) (evs : List TW.Ev) (e : TW.Ev) :
    (evs ++ [e]).foldl TW.step w0s = (evs.foldl TW.step w0s).step e := by
  simp [List.foldl_append]

/-- Feeding the head of the lifted world = extending the one-stage history by the emissions of
    what `pre` outputs. -/
theorem Kind.push_head {w0s : TW} (K : Kind w0s) (post0 : List St1) (hc : calmSt post0) (j : Nat) (base : TW)
    (preS : List St1) (hcp : calmSt preS) (hj : preS.length = j) (evs' : List TW.Ev) (hall : ∀ e ∈ evs', FifoEv e)
    (n : Notif) (hwf : WF (script evs' ++ (runChain preS [n]).2)) :
    (lift post0 j base preS (evs'.foldl TW.step w0s)).push 0 [n] =
      lift post0 j base (runChain preS [n]).1
        ((evs' ++ (runChain preS [n]).2.map (TW.Ev.emit 0)).foldl TW.step w0s) := by
  obtain ⟨T, hs, hT⟩ := (K evs' hall).one.stage
  rw [push_lift_head post0 hc j base preS hcp _ T hs hT hj n]
  exact ((K.feed_steps _ evs' hall hwf).lift post0 j base _).symm

theorem fifo_append {a b : List TW.Ev} (ha : ∀ e ∈ a, FifoEv e) (hb : ∀ e ∈ b, FifoEv e) :
    ∀ e ∈ a ++ b, FifoEv e := by
  intro e he
  rcases List.mem_append.mp he with he | he
  · exact ha e he
  · exact hb e he

theorem fifo_single {e : TW.Ev} (he : FifoEv e) : ∀ x ∈ [e], FifoEv x := by
  intro x hx; simp only [List.mem_singleton] at hx; subst hx; exact he

end Rx.T
