import RxModel.Lemmas.ChainSources
/-
  Helper lemmas for C08, part 2: scheduler-level facts shared by the invariants
  of the `interval` and `timer` worlds: "a fired timer was due" (`FiredDue`),
  the single task of such a world (`tasks.length = 1`), and the generic
  one-task invariant `OneTask` / the frozen-log invariant `DeadInv` behind
  "after `unsub` the log never grows".
-/
namespace Rx.T
open Rx

namespace TW
open Sched

/-- Every fired timer exists and was due. -/
def FiredDue (s : Sched) : Prop := ∀ tm, s.timerFired tm = true → Due s tm

theorem firedDue_frame {s s' : Sched} (f : Frame s s') (h : FiredDue s) : FiredDue s' := by
  intro tm hf
  rcases f.fired_inv tm hf with h1 | ⟨d, hd, hle⟩
  · obtain ⟨d, hd, hle⟩ := h tm h1
    exact ⟨d, f.tdue tm d hd, Nat.le_trans hle f.now_le⟩
  · exact ⟨d, f.tdue tm d hd, Nat.le_trans hle f.now_le⟩

theorem firedDue_adv (s : Sched) (d : Nat) (h : FiredDue s) : FiredDue { s with now := s.now + d } :=
  firedDue_frame (exec_frame s (.adv d)) h

theorem firedDue_cancel (s : Sched) (k : Nat) (h : FiredDue s) : FiredDue (s.cancel k) :=
  firedDue_frame (exec_frame s (.cancel k)) h

theorem firedDue_poll (s : Sched) (k : Nat) (c : Bool) (h : FiredDue s) : FiredDue (s.poll k c).1 :=
  firedDue_frame (poll_frame s k c) h

theorem firedDue_fire (s : Sched) (tm : Nat) (hd : Due s tm) (h : FiredDue s) : FiredDue (s.fire tm) := by
  intro i hf
  rw [fire_timerFired] at hf
  apply due_fire
  cases h1 : s.timerFired i with
  | true => exact h i h1
  | false =>
    rw [h1] at hf
    simp at hf
    rw [← hf.1]; exact hd

theorem firedDue_empty (c : Nat) : FiredDue { now := c } := by
  intro tm h; simp [timerFired] at h

/-- With one task, every other index is empty. -/
theorem single_absent (s : Sched) (hl : s.tasks.length = 1) (k : Nat) (hk : k ≠ 0) :
    s.tasks[k]? = none := by
  apply List.getElem?_eq_none; omega

theorem fire_single (s : Sched) (tm : Nat) (t : Task) (ht : s.tasks[0]? = some t) :
    ∃ w, (s.fire tm).tasks[0]? = some { t with woken := w } := by
  obtain ⟨t', h1, w, h2⟩ := fire_get s tm 0 t ht
  exact ⟨w, by rw [h1, h2]⟩

/-! ### one source task; dead tasks stay silent -/

/-- A task that will never run its body again. -/
def dead (t : Task) : Prop := t.keepRunning = false ∨ t.done = true

/-- Polling a task keeps its body; a dead task stays dead and logs nothing. -/
theorem poll_keeps (s : Sched) (c : Bool) (t : Task) (ht : s.tasks[0]? = some t) :
    ∃ t', (s.poll 0 c).1.tasks[0]? = some t' ∧ t'.body = t.body ∧
      (dead t → dead t' ∧ (s.poll 0 c).2 = []) := by
  obtain ⟨t', h1, h2⟩ := poll_task_elim s 0 c t ht
    (motive := fun _ t' runs => t'.body = t.body ∧ (dead t → dead t' ∧ runs = []))
    (fun hd => ⟨rfl, fun h => ⟨h, rfl⟩⟩)
    (fun _ _ => ⟨rfl, fun _ => ⟨Or.inr rfl, rfl⟩⟩)
    (fun _ hd hk _ => ⟨rfl, fun h => by rcases h with h | h <;> simp_all⟩)
    (fun _ hd hk _ _ _ => ⟨rfl, fun h => by rcases h with h | h <;> simp_all⟩)
    (fun hd hk _ _ _ => ⟨rfl, fun h => by rcases h with h | h <;> simp_all⟩)
    (fun _ _ _ hd hk _ _ _ _ => ⟨rfl, fun h => by rcases h with h | h <;> simp_all⟩)
    (fun _ _ _ hd hk _ _ _ _ _ => ⟨rfl, fun h => by rcases h with h | h <;> simp_all⟩)
    (fun _ _ _ hd hk _ _ _ _ _ => ⟨rfl, fun h => by rcases h with h | h <;> simp_all⟩)
  exact ⟨t', h1, h2⟩

/-- The world has exactly one task, the source task; once `unsub` has happened it is dead. -/
structure OneTask (w : TW) : Prop where
  bare : Bare w
  len : w.sched.tasks.length = 1
  task : ∃ t, w.sched.tasks[0]? = some t ∧ srcBody t.body ∧ (w.unsubscribed = true → dead t)

theorem pollTask_one (w : TW) (k : Nat) (hs : w.stages = []) (hl : w.sched.tasks.length = 1)
    (t : Task) (ht : w.sched.tasks[0]? = some t) (hb : srcBody t.body) :
    w.pollTask k = w ∨ (k = 0 ∧
      w.pollTask k = { w with sched := (w.sched.poll 0 (contOf t.body)).1,
                              log := w.log ++ (w.sched.poll 0 (contOf t.body)).2.flatMap (emitOf t.body) }) := by
  by_cases hk : k = 0
  · subst hk; exact Or.inr ⟨rfl, pollTask_src w hs 0 t ht hb⟩
  · exact Or.inl (pollTask_absent w k (single_absent _ hl k hk))

theorem oneTask_run (evs : List Ev) (w : TW) (h : OneTask w) : OneTask (run w evs) := by
  refine run_induction OneTask (fun w h => h.bare) ?_ ?_ ?_ ?_ ?_ evs w h
  · intro w term h; exact ⟨⟨h.bare.1, h.bare.2, h.bare.3, h.bare.4⟩, h.len, h.task⟩
  · intro w d h; exact ⟨⟨h.bare.1, h.bare.2, h.bare.3, h.bare.4⟩, h.len, h.task⟩
  · intro w tm h _
    obtain ⟨t, ht, hb, hu⟩ := h.task
    obtain ⟨wk, hw⟩ := fire_single w.sched tm t ht
    exact ⟨⟨h.bare.1, h.bare.2, h.bare.3, h.bare.4⟩, by simpa using h.len, _, hw, hb, hu⟩
  · intro w k h
    obtain ⟨t, ht, hb, hu⟩ := h.task
    rcases pollTask_one w k h.bare.stages h.len t ht hb with e | ⟨_, e⟩
    · rw [e]; exact h
    · rw [e]
      obtain ⟨t', h1, h2, h3⟩ := poll_keeps w.sched (contOf t.body) t ht
      exact ⟨⟨h.bare.1, h.bare.2, h.bare.3, h.bare.4⟩, by simpa [poll_length] using h.len,
        t', h1, by rw [h2]; exact hb, fun hun => (h3 (hu hun)).1⟩
  · intro w h _
    obtain ⟨t, ht, hb, hu⟩ := h.task
    exact ⟨⟨h.bare.1, h.bare.2, h.bare.3, h.bare.4⟩, by simpa using h.len,
      _, cancel_get_self _ _ _ ht, hb, fun _ => Or.inl rfl⟩

/-- The source task is dead and the log is `L`. -/
structure DeadInv (L : List Notif) (w : TW) : Prop where
  bare : Bare w
  len : w.sched.tasks.length = 1
  log : w.log = L
  task : ∃ t, w.sched.tasks[0]? = some t ∧ srcBody t.body ∧ dead t

theorem deadInv_run (L : List Notif) (evs : List Ev) (w : TW) (h : DeadInv L w) :
    DeadInv L (run w evs) := by
  refine run_induction (DeadInv L) (fun w h => h.bare) ?_ ?_ ?_ ?_ ?_ evs w h
  · intro w term h; exact ⟨⟨h.bare.1, h.bare.2, h.bare.3, h.bare.4⟩, h.len, h.log, h.task⟩
  · intro w d h; exact ⟨⟨h.bare.1, h.bare.2, h.bare.3, h.bare.4⟩, h.len, h.log, h.task⟩
  · intro w tm h _
    obtain ⟨t, ht, hb, hu⟩ := h.task
    obtain ⟨wk, hw⟩ := fire_single w.sched tm t ht
    exact ⟨⟨h.bare.1, h.bare.2, h.bare.3, h.bare.4⟩, by simpa using h.len, h.log, _, hw, hb, hu⟩
  · intro w k h
    obtain ⟨t, ht, hb, hu⟩ := h.task
    rcases pollTask_one w k h.bare.stages h.len t ht hb with e | ⟨_, e⟩
    · rw [e]; exact h
    · rw [e]
      obtain ⟨t', h1, h2, h3⟩ := poll_keeps w.sched (contOf t.body) t ht
      refine ⟨⟨h.bare.1, h.bare.2, h.bare.3, h.bare.4⟩, by simpa [poll_length] using h.len, ?_,
        t', h1, by rw [h2]; exact hb, (h3 hu).1⟩
      simp [(h3 hu).2, h.log]
  · intro w h _
    obtain ⟨t, ht, hb, hu⟩ := h.task
    exact ⟨⟨h.bare.1, h.bare.2, h.bare.3, h.bare.4⟩, by simpa using h.len, h.log,
      _, cancel_get_self _ _ _ ht, hb, Or.inl rfl⟩

/-- After `unsub` on a one-task world the log never grows. -/
theorem unsub_freezes (w : TW) (h : OneTask w) (post : List Ev) :
    (run w (.unsub :: post)).log = w.log := by
  rw [run_cons]
  have : DeadInv w.log (step w .unsub) := by
    obtain ⟨t, ht, hb, hu⟩ := h.task
    rw [step_unsub w h.bare]
    split
    · rename_i hun
      exact ⟨h.bare, h.len, rfl, t, ht, hb, hu hun⟩
    · exact ⟨⟨h.bare.1, h.bare.2, h.bare.3, h.bare.4⟩, by simpa using h.len, rfl,
        _, cancel_get_self _ _ _ ht, hb, Or.inl rfl⟩
  exact (deadInv_run _ post _ this).log

end TW
end Rx.T
