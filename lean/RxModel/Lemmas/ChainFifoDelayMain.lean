import RxModel.Lemmas.ChainFifoDelaySpec
/-
  C07 (FIFO clause), part 2d: `delay d` — the theorems about the chain model.
-/
namespace Rx.T.Del
open Rx Rx.T

/-- The world of the statement: `delay d` over the hot subject 0. -/
def w₀ (d : Nat) : TW := { src := .hot 0, stages := [.delay d true (some [])] }

/-- The closed-form description after a list of events. -/
def ghost (evs : List TW.Ev) : Ghost := evs.foldl Ghost.step {}

theorem RD_init (d : Nat) : RD d {} ((w₀ d).step .sub) :=
  ⟨(w₀ d).step .sub, some [], rfl, rfl, rfl, fun _ => rfl, rfl⟩

theorem fold_sim (d : Nat) : ∀ (evs : List TW.Ev) (a : DA) (w : TW) (g : Ghost),
    RD d a w → GInv d g a → (∀ e ∈ evs, FifoEv e) →
    RD d (evs.foldl (DA.step d) a) (evs.foldl TW.step w) ∧
      GInv d (evs.foldl Ghost.step g) (evs.foldl (DA.step d) a) := by
  intro evs
  induction evs with
  | nil => intro a w g hr hi _; exact ⟨hr, hi⟩
  | cons e r ih =>
    intro a w g hr hi hall
    have he := hall e (List.mem_cons_self ..)
    exact ih (a.step d e) (w.step e) (g.step e) (step_sim d a w e he hr) (GInv_step d g a e he hi)
      (fun x hx => hall x (List.mem_cons_of_mem _ hx))

theorem delay_main (d : Nat) (evs : List TW.Ev) (hall : ∀ e ∈ evs, FifoEv e) :
    ∃ a : DA, RD d a (evs.foldl TW.step ((w₀ d).step .sub)) ∧ GInv d (ghost evs) a := by
  have := fold_sim d evs {} _ {} (RD_init d) (GInv_init d) hall
  exact ⟨_, this.1, this.2⟩

theorem RD_log {d : Nat} {a : DA} {w : TW} (h : RD d a w) : w.log = a.log := by
  obtain ⟨base, m, rfl, _⟩ := h; rfl
theorem RD_now {d : Nat} {a : DA} {w : TW} (h : RD d a w) : w.sched.now = a.now := by
  obtain ⟨base, m, rfl, _⟩ := h; rfl

/-- The model delivers exactly what the closed form says, and its clock is the ghost clock. -/
theorem delay_log (d : Nat) (evs : List TW.Ev) (hall : ∀ e ∈ evs, FifoEv e) :
    (evs.foldl TW.step ((w₀ d).step .sub)).log = (ghost evs).log d ∧
    (evs.foldl TW.step ((w₀ d).step .sub)).sched.now = (ghost evs).clock := by
  obtain ⟨a, hr, hi⟩ := delay_main d evs hall
  exact ⟨by rw [RD_log hr]; exact log_of_GInv d _ a hi, by rw [RD_now hr]; exact hi.1⟩

/-! ### facts about the closed form alone -/

structure GI (g : Ghost) (s : List Notif) : Prop where
  gate : g.q.map (·.n) ++ g.errPart = gate s
  term : g.term = terminated s
  errT : g.err.isSome = true → g.term = true
  times : ∀ st ∈ g.q, st.te ≤ g.clock ∧ ∀ a, st.ta = some a → st.te ≤ a ∧ a ≤ g.horizon
  hc : g.horizon ≤ g.clock

theorem GI_step (g : Ghost) (s : List Notif) (ev : TW.Ev) (hev : FifoEv ev) (h : GI g s) :
    GI (g.step ev) (s ++ scriptOf ev) := by
  cases hev with
  | adv k =>
    simp only [scriptOf, List.append_nil]
    exact ⟨h.gate, h.term, h.errT,
      fun st hst => ⟨Nat.le_trans (h.times st hst).1 (Nat.le_add_right _ _), (h.times st hst).2⟩,
      Nat.le_trans h.hc (Nat.le_add_right _ _)⟩
  | run =>
    simp only [scriptOf, List.append_nil, Ghost.step]
    split
    · exact h
    · refine ⟨?_, h.term, h.errT, ?_, Nat.le_refl _⟩
      · show (g.q.map (Stamp.arm g.clock)).map (·.n) ++ _ = _
        rw [map_arm_n]; exact h.gate
      · intro st hst
        simp only [List.mem_map] at hst
        obtain ⟨st0, hst0, rfl⟩ := hst
        obtain ⟨h1, h2⟩ := h.times st0 hst0
        refine ⟨h1, ?_⟩
        intro a ha
        simp only [Stamp.arm, Option.some.injEq] at ha
        cases hta : st0.ta with
        | none => rw [hta] at ha; simp at ha; subst ha; exact ⟨h1, Nat.le_refl _⟩
        | some b =>
          rw [hta] at ha; simp at ha; subst ha
          exact ⟨(h2 b hta).1, Nat.le_trans (h2 b hta).2 h.hc⟩
  | emit i n =>
    by_cases hi : i = 0
    · subst hi
      cases hT : g.term with
      | true =>
        have h1 : g.step (.emit 0 n) = g := by simp [Ghost.step, hT]
        have hts : terminated s = true := by rw [← h.term, hT]
        rw [h1]
        exact ⟨by simp [scriptOf, gate_append_of_terminated _ _ hts, h.gate],
          by simp [scriptOf, terminated_append, hts, hT], h.errT, h.times, h.hc⟩
      | false =>
        have hts : terminated s = false := by rw [← h.term, hT]
        have hgs : Rx.gate s = s := gate_eq_self_of_not_terminated s hts
        have herr : g.err = none := by
          cases he : g.err with
          | none => rfl
          | some e => have := h.errT (by simp [he]); rw [hT] at this; cases this
        have hq : g.q.map (·.n) = s := by
          have := h.gate; simpa [Ghost.errPart, herr, hgs] using this
        have hgate : ∀ n : Notif, Rx.gate (s ++ [n]) = s ++ [n] := by
          intro n; rw [gate_append_of_not_terminated _ _ hts]; cases n <;> rfl
        cases n with
        | error e =>
          have h1 : g.step (.emit 0 (.error e)) = { g with term := true, err := some e } := by
            simp [Ghost.step, hT]
          rw [h1]
          refine ⟨?_, ?_, fun _ => rfl, h.times, h.hc⟩
          · simp [scriptOf, hgate, Ghost.errPart, hq]
          · simp [scriptOf, terminated_append, hts, terminated]
        | next v =>
          have h1 : g.step (.emit 0 (.next v)) =
              { g with term := false, q := g.q ++ [⟨.next v, g.clock, none⟩] } := by
            simp [Ghost.step, hT, Notif.isTerm]
          rw [h1]
          refine ⟨?_, ?_, ?_, ?_, h.hc⟩
          · simp [scriptOf, hgate, Ghost.errPart, herr, hq]
          · simp [scriptOf, terminated_append, hts, terminated]
          · intro he; simp [herr] at he
          · intro st hst
            rcases List.mem_append.mp hst with hst | hst
            · exact h.times st hst
            · simp only [List.mem_singleton] at hst; subst hst
              exact ⟨Nat.le_refl _, fun a ha => by cases ha⟩
        | complete =>
          have h1 : g.step (.emit 0 .complete) =
              { g with term := true, q := g.q ++ [⟨.complete, g.clock, none⟩] } := by
            simp [Ghost.step, hT, Notif.isTerm]
          rw [h1]
          refine ⟨?_, ?_, fun _ => rfl, ?_, h.hc⟩
          · simp [scriptOf, hgate, Ghost.errPart, herr, hq]
          · simp [scriptOf, terminated_append, hts, terminated]
          · intro st hst
            rcases List.mem_append.mp hst with hst | hst
            · exact h.times st hst
            · simp only [List.mem_singleton] at hst; subst hst
              exact ⟨Nat.le_refl _, fun a ha => by cases ha⟩
    · have h1 : g.step (.emit i n) = g := by simp [Ghost.step, hi]
      rw [h1]; simpa [scriptOf, hi] using h

theorem GI_fold : ∀ (evs : List TW.Ev) (g : Ghost) (s : List Notif), GI g s → (∀ e ∈ evs, FifoEv e) →
    GI (evs.foldl Ghost.step g) (s ++ script evs) := by
  intro evs
  induction evs with
  | nil => intro g s h _; simpa [script] using h
  | cons e r ih =>
    intro g s h hall
    have := ih (g.step e) (s ++ scriptOf e) (GI_step g s e (hall e (List.mem_cons_self ..)) h)
      (fun x hx => hall x (List.mem_cons_of_mem _ hx))
    simpa [script, List.flatMap_cons, List.append_assoc] using this

theorem GI_ghost (evs : List TW.Ev) (hall : ∀ e ∈ evs, FifoEv e) : GI (ghost evs) (script evs) := by
  have := GI_fold evs {} [] ⟨rfl, rfl, by simp, by simp, Nat.le_refl _⟩ hall
  simpa [ghost] using this

/-- Never early: a delivered notification was emitted at least `d` before the current clock. -/
theorem never_early (d : Nat) (evs : List TW.Ev) (hall : ∀ e ∈ evs, FifoEv e) :
    ∀ st ∈ (ghost evs).q, st.delivered d (ghost evs).horizon = true → st.te + d ≤ (ghost evs).clock := by
  intro st hst hd
  have hg := GI_ghost evs hall
  obtain ⟨_, h2⟩ := hg.times st hst
  cases hta : st.ta with
  | none => simp [Stamp.delivered, hta] at hd
  | some a =>
    simp only [Stamp.delivered, hta, decide_eq_true_eq] at hd
    have := h2 a hta
    have := hg.hc
    omega

/-- Order: the log is a prefix of the gated script, or (the source has failed) a prefix of it
    followed by the script's error. -/
theorem delay_order (d : Nat) (evs : List TW.Ev) (hall : ∀ e ∈ evs, FifoEv e) :
    ∃ pre, pre <+: Rx.gate (script evs) ∧
      ((evs.foldl TW.step ((w₀ d).step .sub)).log = pre ∨
       ∃ e, (Rx.gate (script evs)).getLast? = some (.error e) ∧
         (evs.foldl TW.step ((w₀ d).step .sub)).log = pre ++ [.error e]) := by
  obtain ⟨a, hr, hi⟩ := delay_main d evs hall
  have hg := GI_ghost evs hall
  rw [RD_log hr]
  obtain ⟨_, _, h | h⟩ := hi
  · obtain ⟨he, D, A, hq⟩ := h
    refine ⟨a.log, ?_, Or.inl rfl⟩
    rw [← hg.gate, hq.core.log, hq.core.gqe]
    simp only [List.map_append, List.append_assoc]
    have : (D.map stD).map (·.n) = D.map (·.n) := by simp [stD, Function.comp_def]
    rw [this]; exact List.prefix_append _ _
  · obtain ⟨e, pre, he, _, _, _, hp, hl⟩ := h
    refine ⟨pre, ?_, Or.inr ⟨e, ?_, hl⟩⟩
    · rw [← hg.gate]; exact List.IsPrefix.trans hp (List.prefix_append _ _)
    · rw [← hg.gate]; simp [Ghost.errPart, he]

/-- After a `run`, while the source has not failed: every stamp is armed and the horizon is the clock. -/
theorem after_run (evs : List TW.Ev) (he : (ghost (evs ++ [TW.Ev.run])).err = none) :
    (ghost (evs ++ [TW.Ev.run])).horizon = (ghost (evs ++ [TW.Ev.run])).clock ∧
    ∀ st ∈ (ghost (evs ++ [TW.Ev.run])).q, st.ta ≠ none := by
  have hstep : ghost (evs ++ [TW.Ev.run]) = (ghost evs).step .run := by
    simp [ghost, List.foldl_append]
  rw [hstep] at he ⊢
  cases hE : (ghost evs).err with
  | some e => simp [Ghost.step, hE] at he
  | none =>
    simp only [Ghost.step, hE, Option.isSome_none, Bool.false_eq_true, if_false]
    refine ⟨trivial, ?_⟩
    intro st hst
    simp only [List.mem_map] at hst
    obtain ⟨s0, _, rfl⟩ := hst
    simp [Stamp.arm]

/-- `delay 0` after a `run`, source not failed: everything emitted has been delivered. -/
theorem delay0_all (evs : List TW.Ev) (hall : ∀ e ∈ evs, FifoEv e)
    (he : (ghost (evs ++ [TW.Ev.run])).err = none) :
    ((evs ++ [TW.Ev.run]).foldl TW.step ((w₀ 0).step .sub)).log = Rx.gate (script (evs ++ [TW.Ev.run])) := by
  have hall' : ∀ e ∈ evs ++ [TW.Ev.run], FifoEv e := by
    intro e h
    rcases List.mem_append.mp h with h | h
    · exact hall e h
    · simp only [List.mem_singleton] at h; subst h; exact .run
  have hg := GI_ghost _ hall'
  obtain ⟨_, harmed⟩ := after_run evs he
  rw [(delay_log 0 _ hall').1, ← hg.gate]
  simp only [Ghost.log]
  congr 2
  rw [List.filter_eq_self]
  intro st hst
  cases hta : st.ta with
  | none => exact absurd hta (harmed st hst)
  | some a =>
    have := ((hg.times st hst).2 a hta).2
    simp [Stamp.delivered, hta, this]

/-! ### prompt executors: the delay counts from the emission -/

/-- A prompt executor: every emission is immediately followed by a `run` (so each task is
    polled, and its delay timer armed, at the clock value of its emission). -/
inductive Prompt : List TW.Ev → Prop
  | nil : Prompt []
  | adv (k r) : Prompt r → Prompt (.adv k :: r)
  | run (r) : Prompt r → Prompt (.run :: r)
  | emit (i n r) : Prompt r → Prompt (.emit i n :: .run :: r)

theorem Prompt.fifo : ∀ {evs : List TW.Ev}, Prompt evs → ∀ e ∈ evs, FifoEv e := by
  intro evs h
  induction h with
  | nil => intro e he; cases he
  | adv k r _ ih =>
    intro e he
    rcases List.mem_cons.mp he with rfl | he
    · exact .adv k
    · exact ih e he
  | run r _ ih =>
    intro e he
    rcases List.mem_cons.mp he with rfl | he
    · exact .run
    · exact ih e he
  | emit i n r _ ih =>
    intro e he
    rcases List.mem_cons.mp he with rfl | he
    · exact .emit i n
    · rcases List.mem_cons.mp he with rfl | he
      · exact .run
      · exact ih e he

def PI (g : Ghost) : Prop := (g.err.isSome = true → g.term = true) ∧ ∀ st ∈ g.q, st.ta = some st.te

theorem PI_run (g : Ghost) (h : PI g) : PI (g.step .run) := by
  simp only [Ghost.step]
  split
  · exact h
  · refine ⟨h.1, ?_⟩
    intro st hst
    simp only [List.mem_map] at hst
    obtain ⟨s0, hs0, rfl⟩ := hst
    simp [Stamp.arm, h.2 s0 hs0]

theorem PI_emit_run (g : Ghost) (i : Nat) (n : Notif) (h : PI g) : PI ((g.step (.emit i n)).step .run) := by
  by_cases hc : i ≠ 0 ∨ g.term = true
  · have : g.step (.emit i n) = g := by simp only [Ghost.step]; rw [if_pos hc]
    rw [this]; exact PI_run g h
  · have hT : g.term = false := by
      cases ht : g.term with
      | false => rfl
      | true => exact absurd (Or.inr ht) hc
    have herr : g.err = none := by
      cases he : g.err with
      | none => rfl
      | some e => have := h.1 (by simp [he]); rw [hT] at this; cases this
    cases n with
    | error e =>
      have : g.step (.emit i (.error e)) = { g with term := true, err := some e } := by
        simp only [Ghost.step]; rw [if_neg hc]
      rw [this]
      simp only [Ghost.step, Option.isSome_some, if_true]
      exact ⟨fun _ => rfl, h.2⟩
    | next v =>
      have : g.step (.emit i (.next v)) = { g with term := false, q := g.q ++ [⟨.next v, g.clock, none⟩] } := by
        simp only [Ghost.step]; rw [if_neg hc]; rfl
      rw [this]
      simp only [Ghost.step, herr, Option.isSome_none, Bool.false_eq_true, if_false]
      refine ⟨by simp, ?_⟩
      intro st hst
      simp only [List.map_append, List.mem_append, List.mem_map, List.map_cons, List.map_nil,
        List.mem_singleton] at hst
      rcases hst with ⟨s0, hs0, rfl⟩ | rfl
      · simp [Stamp.arm, h.2 s0 hs0]
      · simp [Stamp.arm]
    | complete =>
      have : g.step (.emit i .complete) = { g with term := true, q := g.q ++ [⟨.complete, g.clock, none⟩] } := by
        simp only [Ghost.step]; rw [if_neg hc]; rfl
      rw [this]
      simp only [Ghost.step, herr, Option.isSome_none, Bool.false_eq_true, if_false]
      refine ⟨by simp, ?_⟩
      intro st hst
      simp only [List.map_append, List.mem_append, List.mem_map, List.map_cons, List.map_nil,
        List.mem_singleton] at hst
      rcases hst with ⟨s0, hs0, rfl⟩ | rfl
      · simp [Stamp.arm, h.2 s0 hs0]
      · simp [Stamp.arm]

theorem PI_fold : ∀ {evs : List TW.Ev}, Prompt evs → ∀ g, PI g → PI (evs.foldl Ghost.step g) := by
  intro evs h
  induction h with
  | nil => intro g hg; exact hg
  | adv k r _ ih => intro g hg; exact ih _ ⟨hg.1, hg.2⟩
  | run r _ ih => intro g hg; exact ih _ (PI_run g hg)
  | emit i n r _ ih => intro g hg; exact ih _ (PI_emit_run g i n hg)

/-- Under a prompt executor every stamp is armed at its emission clock. -/
theorem prompt_stamps (evs : List TW.Ev) (hp : Prompt evs) : ∀ st ∈ (ghost evs).q, st.ta = some st.te :=
  (PI_fold hp {} ⟨by simp, by simp⟩).2

end Rx.T.Del
