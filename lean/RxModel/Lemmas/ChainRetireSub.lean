import RxModel.Lemmas.ChainRetireWorld
/-
  C16 over the chain model, part 7: second inputs and subscription.
  `pushB`, the iterator loops (both positions), `subscribeNotifier`,
  `subscribeSource`, `subscribeFrom` are `Eff` moves.
-/
namespace Rx.T
open Rx

theorem pushB_op2n (w : TW) (j : Nat) (ns : List Notif) (st : St2) (nsrc : TSrc) (na : Bool)
    (nt : Option TaskId) (hj : w.stages[j]? = some (.op2n st nsrc na nt)) :
    w.pushB j ns = (w.setStage j (.op2n (st.run .b ns).1 nsrc na nt)).push (j + 1) (st.run .b ns).2 := by
  simp [TW.pushB, hj]

theorem pushB_eff {a : Bool} (w : TW) (j : Nat) (ns : List Notif) : Eff a w (w.pushB j ns) := by
  cases hj : w.stages[j]? with
  | none => simp only [TW.pushB, hj]; exact Eff.refl _ _
  | some st =>
    cases st with
    | op2n st nsrc na nt =>
      rw [pushB_op2n w j ns st nsrc na nt hj]
      have e1 : Eff a w (w.setStage j (.op2n (st.run .b ns).1 nsrc na nt)) :=
        Eff.setStage w j _ _ hj
          (Stage.le_op2n nsrc na na nt nt (St2.run_alive .b ns st) (fun d => St2.run_bfin .b d ns st)) rfl
      refine e1.then_push_below j _ _ hj rfl ?_
      intro hsf
      exact St2.run_blocked .b ns st (by simpa [Stage.sf] using hsf)
    | _ => simp only [TW.pushB, hj]; exact Eff.refl _ _

theorem Eff.get_iterN {a : Bool} {w w' : TW} (e : Eff a w w') {j : Nat}
    (h : ∃ st, w.stages[j]? = some st ∧ st.iterN = true) :
    ∃ st, w'.stages[j]? = some st ∧ st.iterN = true := by
  obtain ⟨st, hj, hi⟩ := h
  obtain ⟨st', hj', hle⟩ := e.stg.get hj
  exact ⟨st', hj', by rw [hle.iterN]; exact hi⟩

theorem loopB_eff {a : Bool} (j n : Nat) : ∀ (fuel k : Nat) (w : TW),
    (∃ st, w.stages[j]? = some st ∧ st.iterN = true) →
    Eff a w (TW.subscribeNotifier.loopB j n fuel k w) := by
  intro fuel
  induction fuel with
  | zero => intro k w _; exact Eff.refl _ _
  | succ fuel ih =>
    intro k w hit
    obtain ⟨st0, hj, hiter⟩ := hit
    cases st0 with
    | op2n st' nsrc na nt =>
      simp only [TW.subscribeNotifier.loopB, hj]
      split
      · exact Eff.refl _ _
      · rename_i hnf
        split
        · have e1 : Eff a w { w with pulls := w.pulls + 1 } := by
            refine Eff.pull w ?_
            intro _ hq
            have := nq_at hq hj hiter
            exact hnf this
          have e2 := pushB_eff (a := a) { w with pulls := w.pulls + 1 } j [.next (.int k)]
          have e12 := e1.trans e2
          exact e12.trans (ih (k + 1) _ (e12.get_iterN ⟨_, hj, hiter⟩))
        · exact pushB_eff w j _
    | _ => simp [Stage.iterN, Stage.nsrc] at hiter

theorem subscribeNotifier_eff {a : Bool} (w : TW) (j : Nat) : Eff a w (w.subscribeNotifier j) := by
  cases hj : w.stages[j]? with
  | none => simp only [TW.subscribeNotifier, hj]; exact Eff.refl _ _
  | some st0 =>
    cases st0 with
    | op2n st nsrc na nt =>
      cases nsrc with
      | hot i =>
        simp only [TW.subscribeNotifier, hj]
        exact Eff.setStage w j _ _ hj (Stage.le_op2n_same _ _ _ _ _ _) rfl
      | cold s =>
        simp only [TW.subscribeNotifier, hj]
        exact pushB_eff w j _
      | interval delay period =>
        simp only [TW.subscribeNotifier, hj]
        have e1 : Eff a w { w with sched := (w.sched.scheduleRepeat (.tickN j) period none (delay.getD period)).1 } :=
          Eff.sched w _ (BE.of_prim (.rep _ _ _ _ trivial rfl (fun h => by cases h) (fun h => by cases h)))
        exact e1.trans (Eff.setStage _ j _ _ hj (Stage.le_op2n_same _ _ _ _ _ _) rfl)
      | timer v dur =>
        simp only [TW.subscribeNotifier, hj]
        have e1 : Eff a w { w with sched := (w.sched.scheduleOnce (.emit j (.next v)) (some dur)).1 } :=
          Eff.sched w _ (BE.once _ _ _ trivial (fun h => by cases h) (fun h => by cases h))
        exact e1.trans (Eff.setStage _ j _ _ hj (Stage.le_op2n_same _ _ _ _ _ _) rfl)
      | iterc n =>
        simp only [TW.subscribeNotifier, hj]
        exact loopB_eff j n _ 0 w ⟨_, hj, rfl⟩
      | future r sc => simp only [TW.subscribeNotifier, hj]; exact Eff.refl _ _
      | stream r sc c => simp only [TW.subscribeNotifier, hj]; exact Eff.refl _ _
    | _ => simp only [TW.subscribeNotifier, hj]; exact Eff.refl _ _

theorem loop_eff {a : Bool} (n : Nat) : ∀ (fuel k : Nat) (w : TW),
    Eff a w (TW.subscribeSource.loop n fuel k w) := by
  intro fuel
  induction fuel with
  | zero => intro k w; exact Eff.refl _ _
  | succ fuel ih =>
    intro k w
    simp only [TW.subscribeSource.loop]
    split
    · exact Eff.refl _ _
    · rename_i hnf
      have hlog : ∀ ns : List Notif, sealed w.stages = true → fin (w.stages.drop 0) = true ∨ ns = [] :=
        fun _ hs => absurd (sealed_fin hs) hnf
      have hhead : ∀ ns : List Notif, fin w.stages = true → w.src.polls = true →
          syncLen w.stages ≤ 0 ∨ ns = [] := fun _ hf _ => absurd hf hnf
      split
      · have e1 : Eff a w { w with pulls := w.pulls + 1 } := Eff.pull w (fun hf _ => hnf hf)
        have e2 := e1.then_push 0 [.next (.int k)] (hlog _) (hhead _)
        exact e2.trans (ih (k + 1) _)
      · exact Eff.push w 0 _ (hlog _) (hhead _)

theorem subscribeSource_eff (w : TW) : Eff true w w.subscribeSource := by
  obtain ⟨sched, src, stages, srcAlive, srcSubscribed, srcTask, terminated, subscribed, unsubscribed,
    pulls, srcRest, log⟩ := w
  have e0 : Eff true (TW.mk sched src stages srcAlive srcSubscribed srcTask terminated subscribed
      unsubscribed pulls srcRest log) (TW.mk sched src stages srcAlive true srcTask terminated subscribed
      unsubscribed pulls srcRest log) := Eff.of_eq rfl rfl rfl rfl rfl
  cases src with
  | hot i =>
    simp only [TW.subscribeSource]
    exact Eff.of_eq rfl rfl rfl rfl rfl
  | cold s =>
    have e1 := e0.then_push 0 s.emit (fun hs => Or.inl (sealed_fin hs)) (fun _ hp => by cases hp)
    cases s <;> simp only [TW.subscribeSource] <;> first
      | exact e1
      | exact e1.trans (Eff.of_eq rfl rfl rfl rfl rfl)
  | interval delay period =>
    simp only [TW.subscribeSource]
    refine e0.trans (Eff.trans (Eff.sched _ _ (BE.of_prim (.rep _ .tick period (delay.getD period) ?_ rfl ?_ (fun _ => rfl))))
      (Eff.of_eq rfl rfl rfl rfl rfl))
    · exact ⟨delay, period, rfl⟩
    · intro _
      simp only [TSrc.bound]; omega
  | timer v dur =>
    simp only [TW.subscribeSource]
    refine e0.trans (Eff.trans (Eff.sched _ _ (BE.once _ (.timerSrc v) (some dur) ?_ (fun h => by cases h) (fun _ => rfl)))
      (Eff.of_eq rfl rfl rfl rfl rfl))
    exact ⟨v, dur, rfl⟩
  | iterc n =>
    simp only [TW.subscribeSource]
    exact e0.trans (loop_eff n _ 0 _)
  | future r sc =>
    simp only [TW.subscribeSource]
    refine e0.trans (Eff.trans (Eff.sched _ _ (BE.once _ .futureSrc none ?_ (fun _ => rfl) (fun _ => rfl)))
      (Eff.of_eq rfl rfl rfl rfl rfl))
    exact ⟨r, sc, rfl⟩
  | stream r sc c =>
    simp only [TW.subscribeSource]
    refine e0.trans (Eff.trans (Eff.sched _ _ (BE.once _ .streamSrc none ?_ (fun _ => rfl) (fun _ => rfl)))
      (Eff.of_eq rfl rfl rfl rfl rfl))
    exact ⟨r, sc, c, rfl⟩

theorem subscribeFrom_eff : ∀ (j : Nat) (w : TW), Eff true w (w.subscribeFrom j) := by
  intro j
  induction j with
  | zero => intro w; exact subscribeSource_eff w
  | succ j ih =>
    intro w
    cases hj : w.stages[j]? with
    | none => simp only [TW.subscribeFrom, hj]; exact ih w
    | some st0 =>
      cases st0 with
      | bufTime d cnt alive data t =>
        simp only [TW.subscribeFrom, hj]
        have e1 : Eff true w { w with sched := (w.sched.scheduleRepeat (.bufTick j) d none).1 } :=
          Eff.sched w _ (BE.of_prim (.rep _ _ _ _ trivial rfl (fun h => by cases h) (fun h => by cases h)))
        have e2 := e1.trans (Eff.setStage _ j _ (.bufTime d cnt alive data (some (w.sched.scheduleRepeat (.bufTick j) d none).2)) hj
          ⟨rfl, rfl, id, fun _ => id⟩ rfl)
        exact e2.trans (ih _)
      | subscribeOn delay t =>
        simp only [TW.subscribeFrom, hj]
        have e1 : Eff true w { w with sched := (w.sched.scheduleOnce (.subscribe j) delay).1 } :=
          Eff.sched w _ (BE.once _ _ _ trivial (fun h => by cases h) (fun h => by cases h))
        exact e1.trans (Eff.setStage _ j _ _ hj ⟨rfl, rfl, id, fun _ => id⟩ rfl)
      | op2n st nsrc na nt =>
        simp only [TW.subscribeFrom, hj]
        split
        · exact (ih w).trans (subscribeNotifier_eff _ j)
        · exact (subscribeNotifier_eff w j).trans (ih _)
      | _ => simp only [TW.subscribeFrom, hj]; exact ih w

end Rx.T
