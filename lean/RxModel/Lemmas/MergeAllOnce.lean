import RxModel.Lemmas.MergeAllTagRun
/-
  Every item of a cold inner observable exactly once and in order: the output
  restricted to the tag the instance received on arrival is its script from
  the moment it is dequeued, and empty before.
-/
namespace Rx.MergeAll

theorem not_stuck_prefix (f : Bool) (a b : List Ev) (s : St)
    (h : (runG f s (a ++ b)).1.stuck = false) : (runG f s a).1.stuck = false := by
  cases hst : (runG f s a).1.stuck with
  | false => rfl
  | true =>
    rw [runG_append] at h
    simp only at h
    rw [runG_stuck_mono f b _ hst] at h
    rw [h] at hst; cases hst

/-- The arrival event itself. -/
theorem arrival_tag (f : Bool) (xs : List Val) (fin : Fin) (k : Nat) (s : St)
    (h : TagInv s s.queue s.arrivals k) (hz : nTag s.queue s.arrivals = 0)
    (hk : s.inner k = .cold xs fin) (ho : s.outerOpen = true) (ha : s.alive = true)
    (hs0 : s.stuck = false) (hs : (stepG f s (.outerNext k)).1.stuck = false) :
    TagInv (stepG f s (.outerNext k)).1 (stepG f s (.outerNext k)).1.queue s.arrivals k ∧
    s.arrivals < (stepG f s (.outerNext k)).1.arrivals ∧
    ((restrict s.arrivals (stepG f s (.outerNext k)).2 = xs ∧
        nTag (stepG f s (.outerNext k)).1.queue s.arrivals = 0) ∨
     (restrict s.arrivals (stepG f s (.outerNext k)).2 = [] ∧
        nTag (stepG f s (.outerNext k)).1.queue s.arrivals = 1)) := by
  unfold stepG at hs ⊢
  have hst : ¬ s.stuck = true := by simp [hs0]
  rw [if_neg hst] at hs ⊢
  simp only [outerNext] at hs ⊢
  have ho' : ¬ (!s.outerOpen) = true := by simp [ho]
  rw [if_neg ho'] at hs ⊢
  have ha' : ¬ (!s.alive) = true := by simp [ha]
  rw [if_neg ha'] at hs ⊢
  by_cases hlt : s.subscribed < s.concurrent
  · rw [if_pos hlt] at hs ⊢
    unfold startTop at hs ⊢
    simp only at hs ⊢
    split at hs
    · rename_i j hin
      have : s.inner k = .hot j := hin
      rw [hk] at this; cases this
    rename_i ys fin' hin
    have he : s.inner k = .cold ys fin' := hin
    rw [hk] at he
    injection he with he1 he2
    subst he1; subst he2
    cases fin with
    | open_ =>
      simp only
      exact ⟨⟨h.subs, h.key, h.cnt⟩, Nat.lt_succ_self _, Or.inl ⟨restrict_items_same _ xs, hz⟩⟩
    | error e =>
      simp only
      refine ⟨⟨h.subs, h.key, h.cnt⟩, Nat.lt_succ_self _, Or.inl ⟨?_, hz⟩⟩
      simp [restrict_append, restrict_items_same, restrict]
    | complete =>
      simp only at hs ⊢
      have hp : TagInv { s with arrivals := s.arrivals + 1, subscribed := s.subscribed + 1,
                                started := s.started + 1 } s.queue s.arrivals k :=
        ⟨h.subs, h.key, h.cnt⟩
      have hd := drain_tag f xs .complete s.arrivals k s.queue _ hp hk hs
      have hfr := drain_frame f s.queue
        { s with arrivals := s.arrivals + 1, subscribed := s.subscribed + 1, started := s.started + 1 }
      refine ⟨hd.1, by rw [hfr.2.2.2.1]; exact Nat.lt_succ_self _, Or.inl ⟨?_, ?_⟩⟩
      · rw [restrict_append, restrict_items_same, hd.2.2, hz]; simp
      · have := hd.2.1; omega
  · rw [if_neg hlt]
    have hn : nTag (s.queue ++ [⟨s.arrivals, k⟩]) s.arrivals = 1 := by
      rw [nTag_append]; simp [hz]
    refine ⟨⟨h.subs, ?_, by show nTag (s.queue ++ [_]) s.arrivals ≤ 1; omega⟩, Nat.lt_succ_self _,
      Or.inr ⟨rfl, hn⟩⟩
    intro i hi hit
    simp only [List.mem_append, List.mem_singleton] at hi
    rcases hi with hi | rfl
    · exact h.key i hi hit
    · rfl

theorem runG_once (f : Bool) (inners : List Inner) (n : Nat) (pre post : List Ev) (k : Nat)
    (xs : List Val) (fin : Fin) (hk : (init inners n).inner k = .cold xs fin)
    (ho : (runG f (init inners n) pre).1.outerOpen = true)
    (ha : (runG f (init inners n) pre).1.alive = true)
    (hs : (runG f (init inners n) (pre ++ .outerNext k :: post)).1.stuck = false) :
    restrict (runG f (init inners n) pre).1.arrivals
        (runG f (init inners n) (pre ++ .outerNext k :: post)).2 =
      if nTag (runG f (init inners n) (pre ++ .outerNext k :: post)).1.queue
            (runG f (init inners n) pre).1.arrivals = 0 then xs else [] := by
  have hs1 := not_stuck_prefix f pre _ _ hs
  have hs2 : (runG f (init inners n) (pre ++ [.outerNext k])).1.stuck = false :=
    not_stuck_prefix f (pre ++ [.outerNext k]) post (init inners n) (by simpa using hs)
  generalize hA : runG f (init inners n) pre = A at *
  have h0 : TagInv (init inners n) (init inners n).queue A.1.arrivals k :=
    ⟨by simp [init], by simp [init], by simp [init, nTag]⟩
  have hP := runG_tag f xs fin A.1.arrivals k pre (init inners n) h0 hk
    (Or.inr (by rw [hA]; exact Nat.le_refl _)) (by rw [hA]; exact hs1)
  rw [hA] at hP
  have hz : nTag A.1.queue A.1.arrivals = 0 := by
    have := hP.2.1; simp [init, nTag] at this ⊢; exact this
  have hkA : A.1.inner k = .cold xs fin := by
    rw [← hA, inner_of_inners (runG_frame f pre _).1]; exact hk
  rw [runG_append, hA] at hs2
  simp only [runG, List.append_nil] at hs2
  have hB := arrival_tag f xs fin k A.1 hP.1 hz hkA ho ha hs1 hs2
  generalize hBd : stepG f A.1 (.outerNext k) = B at *
  rw [runG_append, hA] at hs ⊢
  simp only [runG, hBd] at hs ⊢
  have hkB : B.1.inner k = .cold xs fin := by
    rw [← hBd, inner_of_inners (stepG_frame f A.1 _).1]; exact hkA
  have hC := runG_tag f xs fin A.1.arrivals k post B.1 hB.1 hkB (Or.inl hB.2.1) hs
  have hi0 : nTag (init inners n).queue A.1.arrivals = 0 := by simp [init, nTag]
  rw [restrict_append, restrict_append, hP.2.2, hC.2.2, hi0]
  have hle := hC.2.1
  rcases hB.2.2 with ⟨hb1, hb2⟩ | ⟨hb1, hb2⟩
  · have : nTag (runG f B.1 post).1.queue A.1.arrivals = 0 := by omega
    rw [hb1, hb2, this]; simp
  · rw [hb1, hb2]; simp

end Rx.MergeAll
