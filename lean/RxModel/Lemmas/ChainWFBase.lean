import RxModel.Sched.Chain
import RxModel.Lemmas.PipeWF
import RxModel.Lemmas.Multi
/-
  C01 over the chain (time) model, part 1: vocabulary.

  * `Stage.Initial`: the per-subscription initial state of a stage;
  * `Stage.OK st inp out`: the state `st` is consistent with the stage having
    received `inp` and emitted `out` so far (ghost histories) — single-input
    observers are `run init inp`, every slot-owning stage (delay, observe_on,
    debounce, throttle, buffer_with_time, two-input cell) is a *gate*: its output
    is well formed whatever it receives, and a terminal empties its slot;
  * `Chain up stages log`: `up` is everything that was ever handed to the head of
    `stages`, `log` what reached the probe; each stage has processed a sublist of
    what its upstream emitted (`cascadeF` drops notifications when its fuel runs
    out).  `Chain up stages log → WF up → WF log`.
-/
namespace Rx.T
open Rx Rx.Spec

/-! ### well-formed streams and sublists -/

theorem WF_tail {n : Notif} {l : List Notif} (h : WF (n :: l)) : WF l := by
  cases n with
  | next v => exact h
  | error e => simp at h; subst h; trivial
  | complete => simp at h; subst h; trivial

theorem WF_sublist {a b : List Notif} (h : a.Sublist b) (hb : WF b) : WF a := by
  induction h with
  | slnil => trivial
  | cons x _ ih => exact ih (WF_tail hb)
  | cons_cons x h ih =>
    cases x with
    | next v => exact ih hb
    | error e => simp at hb; subst hb; simp at h; subst h; simp
    | complete => simp at hb; subst hb; simp at h; subst h; simp

theorem terminated_false_of_WF_append {a b : List Notif} (h : WF (a ++ b)) (hb : b ≠ []) :
    terminated a = false := by
  have := (WF_append_iff a b).mp h
  cases ht : terminated a with
  | false => rfl
  | true => exact absurd (this.2.1 ht) hb

/-! ### gates -/

/-- The cumulative output of a stage that owns its downstream slot (`alive`). -/
def Gate (alive : Bool) (out : List Notif) : Prop :=
  WF out ∧ (terminated out = true → alive = false)

theorem Gate.nil (alive : Bool) : Gate alive [] := ⟨trivial, by simp [terminated]⟩

theorem Gate.mono {alive alive' : Bool} {out : List Notif} (h : Gate alive out)
    (ha : alive' = true → alive = true) : Gate alive' out := by
  refine ⟨h.1, fun ht => ?_⟩
  have := h.2 ht
  cases alive' with
  | false => rfl
  | true => rw [ha rfl] at this; exact this

theorem Gate.dead {alive : Bool} {out : List Notif} (h : Gate alive out) : Gate false out :=
  h.mono (by simp)

/-- While the slot is full the stage may emit a well-formed batch; a batch with
    a terminal must leave the slot empty. -/
theorem Gate.push {alive alive' : Bool} {out ns : List Notif} (h : Gate alive out)
    (ha : alive = true) (hns : WF ns) (ht : terminated ns = true → alive' = false) :
    Gate alive' (out ++ ns) := by
  have hnt : terminated out = false := by
    cases h' : terminated out with
    | false => rfl
    | true => have := h.2 h'; rw [ha] at this; cases this
  refine ⟨WF_append h.1 hnt hns, fun h' => ?_⟩
  rw [terminated_append, hnt] at h'
  exact ht (by simpa using h')

/-- Emission guarded by the slot. -/
theorem Gate.guard {alive alive' : Bool} {out ns : List Notif} (h : Gate alive out)
    (hns : WF ns) (ht : terminated ns = true → alive' = false) (ha : alive' = true → alive = true) :
    Gate alive' (out ++ if alive then ns else []) := by
  cases alive with
  | true => exact h.push rfl hns ht
  | false => simpa using h.mono ha

/-! ### stages -/

/-- The state `actual_subscribe` creates. -/
def Stage.Initial : Stage → Prop
  | .op1 st => ∃ o : Op1, st = o.init
  | .delay _ alive multi => alive = true ∧ multi = some []
  | .observeOn alive multi => alive = true ∧ multi = some []
  | .subscribeOn _ task => task = none
  | .debounce _ alive tr h => alive = true ∧ tr = none ∧ h = none
  | .throttle _ _ alive tr h => alive = true ∧ tr = none ∧ h = none
  | .throttleW _ _ _ _ => False
  | .bufTime _ _ alive data task => alive = true ∧ data = [] ∧ task = none
  | .op2n st _ na nt => (∃ k : Kind2, st = k.init) ∧ na = false ∧ nt = none

/-- Consistency of a stage with its ghost input / output histories. -/
def Stage.OK : Stage → List Notif → List Notif → Prop
  | .op1 o, inp, out => ∃ op : Op1, o = (St1.run op.init inp).1 ∧ out = (St1.run op.init inp).2
  | .delay _ alive _, _, out => Gate alive out
  | .observeOn alive _, _, out => Gate alive out
  | .subscribeOn _ _, inp, out => out = inp
  | .debounce _ alive _ _, _, out => Gate alive out
  | .throttle _ _ alive _ _, _, out => Gate alive out
  | .throttleW _ _ alive _, _, out => Gate alive out
  | .bufTime _ _ alive _ _, _, out => Gate alive out
  | .op2n st _ _ _, _, out => Gate st.alive out

theorem Stage.OK.wf {st : Stage} {inp out : List Notif} (h : st.OK inp out) (hi : WF inp) : WF out := by
  cases st with
  | op1 o => obtain ⟨op, _, rfl⟩ := h; exact run_init_wf op inp hi
  | subscribeOn d t => have : out = inp := h; subst this; exact hi
  | _ => exact h.1

theorem Stage.Initial.ok {st : Stage} (h : st.Initial) : st.OK [] [] := by
  cases st with
  | op1 o => obtain ⟨op, rfl⟩ := h; exact ⟨op, rfl, rfl⟩
  | subscribeOn d t => rfl
  | throttleW d e a tr => exact h.elim
  | _ => exact Gate.nil _

/-! ### chains -/

/-- `up`: everything handed to the head of `stages` so far; `log`: what reached the probe. -/
def Chain : List Notif → List Stage → List Notif → Prop
  | up, [], log => log.Sublist up
  | up, st :: r, log => ∃ inp out, inp.Sublist up ∧ st.OK inp out ∧ Chain out r log

theorem Chain.mono {up up' : List Notif} {stages : List Stage} {log : List Notif}
    (h : Chain up stages log) (hs : up.Sublist up') : Chain up' stages log := by
  cases stages with
  | nil => exact List.Sublist.trans h hs
  | cons st r =>
    obtain ⟨inp, out, h1, h2, h3⟩ := h
    exact ⟨inp, out, h1.trans hs, h2, h3⟩

theorem Chain.wf {up : List Notif} {stages : List Stage} {log : List Notif}
    (h : Chain up stages log) (hu : WF up) : WF log := by
  induction stages generalizing up with
  | nil => exact WF_sublist h hu
  | cons st r ih =>
    obtain ⟨inp, out, h1, h2, h3⟩ := h
    exact ih h3 (h2.wf (WF_sublist h1 hu))

theorem Chain.initial (stages : List Stage) (h : ∀ st ∈ stages, st.Initial) : Chain [] stages [] := by
  induction stages with
  | nil => exact List.Sublist.refl _
  | cons st r ih =>
    exact ⟨[], [], List.Sublist.refl _, (h st (by simp)).ok, ih (fun s hs => h s (by simp [hs]))⟩

/-- A chain can be cut anywhere. -/
theorem Chain.append_iff (up : List Notif) (pre post : List Stage) (log : List Notif) :
    Chain up (pre ++ post) log ↔ ∃ mid, Chain up pre mid ∧ Chain mid post log := by
  induction pre generalizing up with
  | nil =>
    constructor
    · intro h; exact ⟨up, List.Sublist.refl _, h⟩
    · rintro ⟨mid, h1, h2⟩; exact h2.mono h1
  | cons st r ih =>
    constructor
    · rintro ⟨inp, out, h1, h2, h3⟩
      obtain ⟨mid, h4, h5⟩ := (ih out).mp h3
      exact ⟨mid, ⟨inp, out, h1, h2, h4⟩, h5⟩
    · rintro ⟨mid, ⟨inp, out, h1, h2, h4⟩, h5⟩
      exact ⟨inp, out, h1, h2, (ih out).mpr ⟨mid, h4, h5⟩⟩

/-- Replace the stage at position `j` by one that has emitted `ns` more, and let
    the stages behind it absorb it. -/
theorem Chain.modify {up : List Notif} {stages : List Stage} {log : List Notif} {j : Nat} {st st' : Stage}
    {ns : List Notif} {post' : List Stage} {log' : List Notif}
    (h : Chain up stages log) (hj : stages[j]? = some st)
    (hok : ∀ inp out, st.OK inp out → st'.OK inp (out ++ ns))
    (hpost : ∀ out, Chain out (stages.drop (j + 1)) log → Chain (out ++ ns) post' log') :
    Chain up (stages.take j ++ st' :: post') log' := by
  have hlt : j < stages.length := by
    rcases Nat.lt_or_ge j stages.length with h' | h'
    · exact h'
    · rw [List.getElem?_eq_none h'] at hj; cases hj
  have hsplit : stages = stages.take j ++ st :: stages.drop (j + 1) := by
    have h1 : stages.drop j = st :: stages.drop (j + 1) := by
      rw [List.drop_eq_getElem_cons hlt]
      congr 1
      rw [List.getElem?_eq_getElem hlt] at hj
      exact Option.some.inj hj
    conv => lhs; rw [← List.take_append_drop j stages, h1]
  rw [hsplit] at h
  obtain ⟨mid, h1, inp, out, h2, h3, h4⟩ := (Chain.append_iff up _ _ log).mp h
  exact (Chain.append_iff up _ _ log').mpr ⟨mid, h1, inp, out ++ ns, h2, hok inp out h3, hpost out h4⟩

end Rx.T
