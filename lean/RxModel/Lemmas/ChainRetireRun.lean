import RxModel.Lemmas.ChainRetirePoll
import RxModel.Lemmas.Async
/-
  C16 over the chain model, part 11: a repeating task whose observer is
  finished retires.

  * `TW.obsFin w b`: the observer the RepeatTask with body `b` polls
    (`interval_task` of the source, of an interval in second-input position,
    `emit_buffer` of buffer_with_time) answers `is_finished() = true`;
  * `pollTask_retires`: polled with its period timer expired, such a task
    answers `false` and is finished;
  * `runLoop_retires`: under the prompt FIFO executor (`run`) it is polled as
    soon as its timer is due — whatever else is in the scheduler.
-/
namespace Rx.T
open Rx

/-- `is_finished()` of the observer a RepeatTask body polls. -/
def TW.obsFin (w : TW) : Body → Bool
  | .tick => fin w.stages
  | .tickN j =>
    match w.stages[j]? with
    | some (.op2n st _ _ _) => st.finished .b (fin (w.stages.drop (j + 1)))
    | _ => true
  | .bufTick j =>
    match w.stages[j]? with
    | some (.bufTime _ _ alive _ _) => !alive || fin (w.stages.drop (j + 1))
    | _ => true
  | _ => false

theorem runTick_declines (w : TW) (b : Body) (seq : Nat) (h : w.obsFin b = true) :
    w.runTick b seq = (w, false) := by
  cases b with
  | tick => simp only [TW.obsFin] at h; simp [TW.runTick, h]
  | tickN j =>
    simp only [TW.obsFin] at h
    cases hj : w.stages[j]? with
    | none => simp [TW.runTick, hj]
    | some st0 =>
      cases st0 with
      | op2n st nsrc na nt => rw [hj] at h; simp only at h; simp [TW.runTick, hj, h]
      | _ => simp [TW.runTick, hj]
  | bufTick j =>
    simp only [TW.obsFin] at h
    cases hj : w.stages[j]? with
    | none => simp [TW.runTick, hj]
    | some st0 =>
      cases st0 with
      | bufTime d c alive data t =>
        rw [hj] at h; simp only at h
        simp only [TW.runTick, hj]
        rw [if_pos h]
      | _ => simp [TW.runTick, hj]
  | _ => simp [TW.obsFin] at h

theorem kind_op2n {st : Stage} (h : st.kind = 7) : ∃ o ns na nt, st = .op2n o ns na nt := by
  cases st <;> simp [Stage.kind] at h
  exact ⟨_, _, _, _, rfl⟩

theorem kind_bufTime {st : Stage} (h : st.kind = 6) : ∃ d c al data t, st = .bufTime d c al data t := by
  cases st <;> simp [Stage.kind] at h
  exact ⟨_, _, _, _, _, rfl⟩

/-- A finished observer stays finished. -/
theorem obsFin_mono {w w' : TW} (h : SLe w.stages w'.stages) (b : Body) (hb : w.obsFin b = true) :
    w'.obsFin b = true := by
  cases b with
  | tick => exact h.fin hb
  | tickN j =>
    simp only [TW.obsFin] at hb ⊢
    cases hj' : w'.stages[j]? with
    | none => rfl
    | some st' =>
      obtain ⟨st, hj, hle⟩ := h.get_back hj'
      cases st' with
      | op2n o' ns' na' nt' =>
        obtain ⟨o, ns, na, nt, rfl⟩ := kind_op2n (st := st) (by rw [hle.kind]; rfl)
        rw [hj] at hb; simp only at hb ⊢
        have h1 := hle.bfin _ hb
        exact Stage.bfin_mono (.op2n o' ns' na' nt') (SLe.drop (j + 1) h).fin h1
      | _ => rfl
  | bufTick j =>
    simp only [TW.obsFin] at hb ⊢
    cases hj' : w'.stages[j]? with
    | none => rfl
    | some st' =>
      obtain ⟨st, hj, hle⟩ := h.get_back hj'
      cases st' with
      | bufTime d' c' al' data' t' =>
        obtain ⟨d, c, al, data, t, rfl⟩ := kind_bufTime (st := st) (by rw [hle.kind]; rfl)
        rw [hj] at hb; simp only at hb ⊢
        simp only [Bool.or_eq_true, Bool.not_eq_true'] at hb ⊢
        rcases hb with hb | hb
        · left
          have := hle.sf (by simp [Stage.sf, hb])
          simpa [Stage.sf] using this
        · right; exact (SLe.drop (j + 1) h).fin hb
      | _ => rfl
  | _ => simp [TW.obsFin] at hb

/-! ### one poll -/

theorem pollPre_tick_eq (s : Sched) (k : TaskId) (t : Task) (fur iv seq : Nat)
    (ht : s.tasks[k]? = some t) (hd : t.done = false) (hk : t.keepRunning = true)
    (hod : t.outerDelay = none) (hot : t.outerTimer = none) (hr : t.rep = some (fur, iv, seq))
    (hf : s.timerFired fur = true) :
    s.pollPre k = (s.setTask k { t with woken := false, outerTimer := none }, .runTick t.body seq) := by
  simp [Sched.pollPre, ht, hd, hk, hod, hot, hr, hf]

theorem pollPre_cancelled_eq (s : Sched) (k : TaskId) (t : Task)
    (ht : s.tasks[k]? = some t) (hd : t.done = false) (hk : t.keepRunning = false) :
    s.pollPre k = (s.setTask k { t with woken := false, done := true }, .none) := by
  simp [Sched.pollPre, ht, hd, hk]

def doneAt (s : Sched) (k : TaskId) : Prop := ∃ t : Task, s.tasks[k]? = some t ∧ t.done = true

theorem doneAt.fwd {s s' : Sched} {k : TaskId} (h : doneAt s k) (f : Fwd s s') : doneAt s' k := by
  obtain ⟨t, ht, hd⟩ := h
  obtain ⟨t', ht', _, hd'⟩ := f k t ht
  exact ⟨t', ht', hd' hd⟩

theorem finishOnce_doneAt (s : Sched) (k : TaskId) (t : Task) (h : s.tasks[k]? = some t) :
    doneAt (s.finishOnce k) k := ⟨_, Sched.finishOnce_get_self s k t h, rfl⟩

/-- A repeating task whose observer is finished, polled once its period timer has
    expired: the tick declines, the task is finished, the world is otherwise
    untouched. -/
theorem pollTask_retires {w : TW} (hI : WI w) {k : TaskId} {t : Task} {fur iv seq : Nat}
    (ht : w.sched.tasks[k]? = some t) (hr : t.rep = some (fur, iv, seq))
    (hf : w.sched.timerFired fur = true) (hobs : w.obsFin t.body = true) :
    doneAt (w.pollTask k).sched k := by
  cases hd : t.done with
  | true => exact doneAt.fwd ⟨t, ht, hd⟩ (pollTask_ok hI k).2.fwd
  | false =>
    obtain ⟨hod, hot, _⟩ := hI.rep k t fur iv seq ht hr
    unfold TW.pollTask
    cases hk : t.keepRunning with
    | false =>
      rw [pollPre_cancelled_eq _ k t ht hd hk]
      exact ⟨_, Sched.setTask_get_self _ _ _ _ ht, rfl⟩
    | true =>
      rw [pollPre_tick_eq _ k t fur iv seq ht hd hk hod hot hr hf]
      dsimp only
      have hobs' : TW.obsFin ({ w with sched := w.sched.setTask k { t with woken := false, outerTimer := none } } : TW)
          t.body = true := hobs
      rw [runTick_declines _ _ _ hobs']
      dsimp only
      simp only [Bool.false_eq_true, if_false]
      exact finishOnce_doneAt _ k _ (Sched.setTask_get_self _ _ _ _ ht)

theorem runAsync_stream_done (w : TW) (h : fin w.stages = true) : (w.runAsync .streamSrc).2 = .done := by
  cases hsrc : w.src with
  | stream res sc cyc =>
    simp only [TW.runAsync, hsrc]
    exact (pollStream_finished res cyc sc 9999 w h).1
  | _ => simp only [TW.runAsync, hsrc]

/-- The stream driver polled after its observer has finished: it returns `Ready`. -/
theorem pollTask_stream_retires {w : TW} (hI : WI w) {k : TaskId} {t : Task}
    (ht : w.sched.tasks[k]? = some t) (hb : t.body = .streamSrc) (hfin : fin w.stages = true) :
    doneAt (w.pollTask k).sched k := by
  cases hd : t.done with
  | true => exact doneAt.fwd ⟨t, ht, hd⟩ (pollTask_ok hI k).2.fwd
  | false =>
    obtain ⟨hr, hod, hot⟩ := hI.async k t ht (by rw [hb]; rfl)
    have hpre := pollPre_plain _ k t ht hd hod hot hr
    unfold TW.pollTask
    cases hk : t.keepRunning with
    | false =>
      rw [hpre]
      simp only [hk, Bool.false_eq_true, if_false]
      exact ⟨_, Sched.setTask_get_self _ _ _ _ ht, rfl⟩
    | true =>
      simp only [hk, if_true] at hpre
      generalize w.sched.pollPre k = r at hpre
      obtain ⟨s1, p⟩ := r
      obtain ⟨hs1, hp⟩ := Prod.mk.inj hpre
      subst hp
      have ht0 : ∃ t0 : Task, s1.tasks[k]? = some t0 := by
        rw [hs1]; exact ⟨_, Sched.setTask_get_self _ _ _ _ ht⟩
      obtain ⟨t0, ht0⟩ := ht0
      clear hs1 hpre
      dsimp only
      rw [hb]
      simp only [Body.isAsync, if_true]
      have hfin0 : fin ({ w with sched := s1 } : TW).stages = true := hfin
      have hdone := runAsync_stream_done _ hfin0
      have e := runAsync_eff ({ w with sched := s1 } : TW) .streamSrc
      generalize TW.runAsync ({ w with sched := s1 } : TW) .streamSrc = ra at hdone e
      obtain ⟨w1, o⟩ := ra
      dsimp only at hdone e
      subst hdone
      obtain ⟨t', ht', _⟩ := e.sch.frame.tasks k _ ht0
      exact finishOnce_doneAt _ k t' ht'

/-! ### polling other tasks leaves a task's RepeatTask state alone -/

/-- No timer is created for task `k`; its timers only go from pending to expired. -/
def KeepT (k : TaskId) (s s' : Sched) : Prop :=
  ∀ (i : Nat) (tm' : Timer), s'.timers[i]? = some tm' → tm'.owner = k →
    ∃ tm : Timer, s.timers[i]? = some tm ∧ tm.owner = k ∧ (tm.fired = true → tm'.fired = true)

theorem KeepT.refl (k : TaskId) (s : Sched) : KeepT k s s := fun _ tm' h ho => ⟨tm', h, ho, id⟩

theorem KeepT.trans {k : TaskId} {a b c : Sched} (h1 : KeepT k a b) (h2 : KeepT k b c) : KeepT k a c := by
  intro i tm'' h ho
  obtain ⟨tm', h', ho', f2⟩ := h2 i tm'' h ho
  obtain ⟨tm, h0, ho0, f1⟩ := h1 i tm' h' ho'
  exact ⟨tm, h0, ho0, fun x => f2 (f1 x)⟩

theorem KeepT.of_timers {k : TaskId} {s s' : Sched} (h : s'.timers = s.timers) : KeepT k s s' :=
  fun _ tm' h' ho => ⟨tm', by rw [← h]; exact h', ho, id⟩

theorem KeepT.of_frame {a} {k : TaskId} {s s' : Sched} (f : Frame a s s') (hk : k < s.tasks.length) :
    KeepT k s s' := by
  intro i tm' h ho
  by_cases hl : i < s.timers.length
  · obtain ⟨new, e⟩ := f.timers
    rw [e, List.getElem?_append_left hl] at h
    exact ⟨tm', h, ho, id⟩
  · have := f.newT i tm' h (Nat.le_of_not_lt hl)
    rw [ho] at this
    exact absurd hk (Nat.not_lt.mpr this)

theorem KeepT.registerTimer (k : TaskId) (s : Sched) (tm : TimerId) : KeepT k s (s.registerTimer tm) := by
  intro i tm' h ho
  rw [Sched.registerTimer_get] at h
  cases h0 : s.timers[i]? with
  | none => rw [h0] at h; cases h
  | some t0 =>
    rw [h0] at h
    simp only [Option.map_some, Option.some.injEq] at h
    subst h
    refine ⟨t0, rfl, ?_, ?_⟩
    · split at ho <;> exact ho
    · intro hf; split <;> exact hf

theorem KeepT.newTimer {k j : TaskId} (s : Sched) (d : Nat) (hne : j ≠ k) : KeepT k s (s.newTimer d j).1 := by
  intro i tm' h ho
  rcases get?_append_single _ _ _ _ h with h1 | ⟨_, rfl⟩
  · exact ⟨tm', h1, ho, id⟩
  · exact absurd ho hne

/-- Task `k` keeps its RepeatTask state and its `done` / `woken` flags can only be
    raised; expired timers stay expired; no timer is created for it. -/
structure Keep (k : TaskId) (s s' : Sched) : Prop where
  task : ∀ t : Task, s.tasks[k]? = some t → ∃ t' : Task, s'.tasks[k]? = some t' ∧ t'.rep = t.rep ∧
    t'.body = t.body ∧ t'.done = t.done ∧ (t.woken = true → t'.woken = true)
  fired : ∀ i, s.timerFired i = true → s'.timerFired i = true
  timers : KeepT k s s'

theorem Keep.refl (k : TaskId) (s : Sched) : Keep k s s :=
  ⟨fun t h => ⟨t, h, rfl, rfl, rfl, id⟩, fun _ h => h, KeepT.refl k s⟩

theorem Keep.trans {k : TaskId} {a b c : Sched} (h1 : Keep k a b) (h2 : Keep k b c) : Keep k a c := by
  refine ⟨?_, fun i h => h2.fired i (h1.fired i h), h1.timers.trans h2.timers⟩
  intro t ht
  obtain ⟨t', ht', r1, b1, d1, w1⟩ := h1.task t ht
  obtain ⟨t'', ht'', r2, b2, d2, w2⟩ := h2.task t' ht'
  exact ⟨t'', ht'', r2.trans r1, b2.trans b1, d2.trans d1, fun x => w2 (w1 x)⟩

theorem Keep.lt {k : TaskId} {s s' : Sched} (h : Keep k s s') (hk : k < s.tasks.length) :
    k < s'.tasks.length := by
  obtain ⟨t', ht', _⟩ := h.task _ (List.getElem?_eq_getElem hk)
  exact Sched.get_lt ht'

theorem Keep.of_frame {a} {k : TaskId} {s s' : Sched} (f : Frame a s s') (hk : k < s.tasks.length) :
    Keep k s s' := by
  refine ⟨?_, fun i h => f.timerFired h, KeepT.of_frame f hk⟩
  intro t ht
  obtain ⟨t', ht', b, d, w, r, _⟩ := f.tasks k t ht
  exact ⟨t', ht', r, b, d, fun x => by rw [w]; exact x⟩

/-- Same timers (up to appended / registered ones), another task replaced. -/
theorem Keep.other {k j : TaskId} (s s1 : Sched) (t' : Task) (hne : j ≠ k)
    (htasks : s1.tasks = s.tasks) (hfired : ∀ i, s.timerFired i = true → s1.timerFired i = true)
    (hT : KeepT k s s1) : Keep k s (s1.setTask j t') := by
  refine ⟨?_, fun i h => by simpa using hfired i h, hT⟩
  intro t ht
  exact ⟨t, by rw [Sched.setTask_get_ne _ _ _ _ (Ne.symm hne), htasks]; exact ht, rfl, rfl, rfl, id⟩

theorem pollPre_keep (s : Sched) {k j : TaskId} (hne : j ≠ k) : Keep k s (s.pollPre j).1 := by
  refine Sched.pollPre_elim s j (motive := fun r => Keep k s r.1) ?_ ?_ ?_ ?_ ?_ ?_ ?_ ?_
  · intro _; exact Keep.refl _ _
  · intro _ _ _; exact Keep.refl _ _
  · intro t _ _ _; exact Keep.other s s _ hne rfl (fun _ h => h) (KeepT.refl _ _)
  · intro t d _ _ _ _
    exact Keep.other s _ _ hne (by simp) (fun i h => by simpa using h)
      ((KeepT.newTimer s d hne).trans (KeepT.registerTimer _ _ _))
  · intro t tm _ _ _ _ _ _
    exact Keep.other s _ _ hne (by simp) (fun i h => by simpa using h) (KeepT.registerTimer _ _ _)
  · intro t _ _ _ _ _ _; exact Keep.other s s _ hne rfl (fun _ h => h) (KeepT.refl _ _)
  · intro t fur iv seq _ _ _ _ _ _ _
    exact Keep.other s _ _ hne (by simp) (fun i h => by simpa using h) (KeepT.registerTimer _ _ _)
  · intro t fur iv seq _ _ _ _ _ _ _; exact Keep.other s s _ hne rfl (fun _ h => h) (KeepT.refl _ _)

theorem finishOnce_keep (s : Sched) {k j : TaskId} (hne : j ≠ k) : Keep k s (s.finishOnce j) := by
  unfold Sched.finishOnce
  cases s.tasks[j]? with
  | none => exact Keep.refl _ _
  | some t => exact Keep.other s s _ hne rfl (fun _ h => h) (KeepT.refl _ _)

theorem stayPending_keep (s : Sched) {k j : TaskId} (wk : Bool) (hne : j ≠ k) :
    Keep k s (s.stayPending j wk) := by
  unfold Sched.stayPending
  cases s.tasks[j]? with
  | none => exact Keep.refl _ _
  | some t => exact Keep.other s s _ hne rfl (fun _ h => h) (KeepT.refl _ _)

theorem continueRepeat_keep (s : Sched) {k j : TaskId} (hne : j ≠ k) : Keep k s (s.continueRepeat j) := by
  unfold Sched.continueRepeat
  cases s.tasks[j]? with
  | none => exact Keep.refl _ _
  | some t =>
    simp only
    cases t.rep with
    | none => exact Keep.refl _ _
    | some r =>
      obtain ⟨fur, iv, seq⟩ := r
      simp only
      exact Keep.other s _ _ hne (by simp) (fun i h => by simpa using h)
        ((KeepT.newTimer s iv hne).trans (KeepT.registerTimer _ _ _))

/-- What the body of a once-task does to the scheduler is a `Frame` move. -/
theorem runBody_frame (w : TW) (b : Body) : Frame true w.sched (w.runBody b).sched := by
  cases b with
  | emit j' n => exact (runBody_emit_eff w j' n).sch.mono.frame
  | debounce j' => exact (runBody_debounce_eff w j').sch.mono.frame
  | throttle j' => exact (runBody_throttle_eff w j').sch.mono.frame
  | subscribe j' => exact (subscribeFrom_eff j' w).sch.frame
  | timerSrc v =>
    exact (cascade_eff w.src true (w.stages.drop 0) 0 [.next v, .complete] w.sched).sch.frame
  | _ => exact Frame.refl _ _

theorem pollTask_keep (w : TW) {k j : TaskId} (hne : j ≠ k) (hk : k < w.sched.tasks.length) :
    Keep k w.sched (w.pollTask j).sched := by
  unfold TW.pollTask
  have k0 := pollPre_keep w.sched hne
  have hk1 := k0.lt hk
  generalize w.sched.pollPre j = r at k0 hk1
  obtain ⟨s1, p⟩ := r
  dsimp only at hk1
  cases p with
  | none => exact k0
  | runOnce b =>
    dsimp only
    split
    · have e := runAsync_eff ({ w with sched := s1 } : TW) b
      generalize TW.runAsync ({ w with sched := s1 } : TW) b = ra at e
      obtain ⟨w1, o⟩ := ra
      have k1 : Keep k s1 w1.sched := Keep.of_frame e.sch.frame hk1
      cases o with
      | pending wk => exact (k0.trans k1).trans (stayPending_keep _ wk hne)
      | done => exact (k0.trans k1).trans (finishOnce_keep _ hne)
      | exhausted => exact (k0.trans k1).trans (finishOnce_keep _ hne)
    · have k1 : Keep k s1 (TW.runBody ({ w with sched := s1 } : TW) b).sched :=
        Keep.of_frame (runBody_frame ({ w with sched := s1 } : TW) b) hk1
      exact (k0.trans k1).trans (finishOnce_keep _ hne)
  | runTick b seq =>
    dsimp only
    have e := runTick_eff ({ w with sched := s1 } : TW) b seq
    generalize TW.runTick ({ w with sched := s1 } : TW) b seq = rt at e
    obtain ⟨w1, cont⟩ := rt
    have k1 : Keep k s1 w1.sched := Keep.of_frame e.sch.frame hk1
    dsimp only
    split
    · exact (k0.trans k1).trans (continueRepeat_keep _ hne)
    · exact (k0.trans k1).trans (finishOnce_keep _ hne)

/-! ### the prompt executor -/

/-- Task `k` is finished, or it is a RepeatTask whose period timer has expired
    and whose observer is finished. -/
def Ripe (w : TW) (k : TaskId) : Prop :=
  doneAt w.sched k ∨
    (∃ (t : Task) (fur iv seq : Nat), w.sched.tasks[k]? = some t ∧ t.rep = some (fur, iv, seq) ∧
      w.sched.timerFired fur = true ∧ w.obsFin t.body = true) ∨
    (∃ t : Task, w.sched.tasks[k]? = some t ∧ t.body = .streamSrc ∧ fin w.stages = true)

theorem Ripe.lt {w : TW} {k : TaskId} (h : Ripe w k) : k < w.sched.tasks.length := by
  rcases h with ⟨t, ht, _⟩ | ⟨t, _, _, _, ht, _⟩ | ⟨t, ht, _⟩ <;> exact Sched.get_lt ht

theorem Ripe.keep {w w' : TW} {k : TaskId} (h : Ripe w k) (hk : Keep k w.sched w'.sched)
    (hs : SLe w.stages w'.stages) (hf : Fwd w.sched w'.sched) : Ripe w' k := by
  rcases h with h | ⟨t, fur, iv, seq, ht, hr, hfi, ho⟩ | ⟨t, ht, hb, hfin⟩
  · exact Or.inl (h.fwd hf)
  · obtain ⟨t', ht', r', b', _, _⟩ := hk.task t ht
    exact Or.inr (Or.inl ⟨t', fur, iv, seq, ht', r'.trans hr, hk.fired fur hfi,
      by rw [b']; exact obsFin_mono hs _ ho⟩)
  · obtain ⟨t', ht', _, b', _, _⟩ := hk.task t ht
    exact Or.inr (Or.inr ⟨t', ht', b'.trans hb, hs.fin hfin⟩)

theorem pollAll_cons_cases (w : TW) (k : TaskId) (r : List TaskId) :
    (w.pollAll (k :: r) = (w.pollTask k).pollAll r ∧ ∃ t : Task, w.sched.tasks[k]? = some t ∧ t.done = false) ∨
    (w.pollAll (k :: r) = w.pollAll r ∧
      (w.sched.tasks[k]? = none ∨ ∃ t : Task, w.sched.tasks[k]? = some t ∧ t.done = true)) := by
  simp only [TW.pollAll]
  cases h : w.sched.tasks[k]? with
  | none => right; simp
  | some t =>
    cases hd : t.done with
    | false => left; simp [hd]
    | true => right; simp [hd]

theorem pollAll_retires (l : List TaskId) : ∀ {w : TW}, WI w → ∀ {k : TaskId}, Ripe w k → k ∈ l →
    doneAt (w.pollAll l).sched k := by
  induction l with
  | nil => intro w _ k _ hm; cases hm
  | cons j r ih =>
    intro w hI k hr hm
    by_cases e : j = k
    · subst e
      -- the task itself: polled now (or finished already), finished for the rest of the pass
      rcases pollAll_cons_cases w j r with ⟨heq, t, ht, hd⟩ | ⟨heq, hx⟩
      · rw [heq]
        have ok := pollTask_ok hI j
        refine doneAt.fwd ?_ (pollAll_ok r ok.1).2.fwd
        rcases hr with ⟨t', ht', hd'⟩ | ⟨t', fur, iv, seq, ht', hrep, hfi, ho⟩ | ⟨t', ht', hb, hfin⟩
        · rw [ht] at ht'; cases ht'; rw [hd] at hd'; cases hd'
        · exact pollTask_retires hI ht' hrep hfi ho
        · exact pollTask_stream_retires hI ht' hb hfin
      · rw [heq]
        refine doneAt.fwd ?_ (pollAll_ok r hI).2.fwd
        rcases hr with hd' | ⟨t', fur, iv, seq, ht', hrep, hfi, ho⟩ | ⟨t', ht', hb, hfin⟩
        · exact hd'
        · rcases hx with hx | ⟨t, ht, hd⟩
          · rw [hx] at ht'; cases ht'
          · exact ⟨t, ht, hd⟩
        · rcases hx with hx | ⟨t, ht, hd⟩
          · rw [hx] at ht'; cases ht'
          · exact ⟨t, ht, hd⟩
    · have hm' : k ∈ r := by
        rcases List.mem_cons.mp hm with h | h
        · exact absurd h.symm e
        · exact h
      rcases pollAll_cons_cases w j r with ⟨heq, _⟩ | ⟨heq, _⟩
      · rw [heq]
        have ok := pollTask_ok hI j
        exact ih ok.1 (hr.keep (pollTask_keep w e hr.lt) ok.2.stg ok.2.fwd) hm'
      · rw [heq]; exact ih hI hr hm'

/-! ### `run` -/

theorem fire_timers_length (s : Sched) (tm : TimerId) : (s.fire tm).timers.length = s.timers.length := by
  unfold Sched.fire
  split
  · rfl
  · simp only; split
    · split <;> simp [Sched.setTask, Sched.setTimer]
    · simp [Sched.setTimer]

theorem fire_fired_mono (s : Sched) (tm i : TimerId) (h : s.timerFired i = true) :
    (s.fire tm).timerFired i = true := by
  rw [Sched.fire_timerFired, h]; rfl

theorem fireAll_fired_mono (l : List TimerId) : ∀ (s : Sched) (i : TimerId), s.timerFired i = true →
    (l.foldl Sched.fire s).timerFired i = true := by
  induction l with
  | nil => intro s i h; exact h
  | cons a r ih => intro s i h; exact ih _ i (fire_fired_mono s a i h)

theorem fireAll_fires (l : List TimerId) : ∀ (s : Sched) (i : TimerId), i ∈ l → i < s.timers.length →
    (l.foldl Sched.fire s).timerFired i = true := by
  induction l with
  | nil => intro s i h; cases h
  | cons a r ih =>
    intro s i hm hl
    by_cases e : a = i
    · subst e
      refine fireAll_fired_mono r _ a ?_
      rw [Sched.fire_timerFired]; simp [hl]
    · rcases List.mem_cons.mp hm with h | h
      · exact absurd h.symm e
      · exact ih _ i h (by rw [fire_timers_length]; exact hl)

theorem mem_dueTimers (s : Sched) (i : TimerId) (tm : Timer) (h : s.timers[i]? = some tm)
    (hf : tm.fired = false) (hd : tm.due ≤ s.now) : i ∈ s.dueTimers := by
  simp only [Sched.dueTimers, List.mem_filter, List.mem_range]
  refine ⟨Sched.get_lt h, ?_⟩
  rw [h]; simp [hf, hd]

theorem mem_liveTasks (s : Sched) (k : TaskId) (t : Task) (h : s.tasks[k]? = some t)
    (hd : t.done = false) : k ∈ s.liveTasks := by
  simp only [Sched.liveTasks, List.mem_filter, List.mem_range]
  refine ⟨Sched.get_lt h, ?_⟩
  rw [h]; simp [hd]

/-- `fire` only raises the `woken` flag of tasks. -/
theorem fire_task (s : Sched) (tm : TimerId) (j : TaskId) (t : Task) (h : s.tasks[j]? = some t) :
    ∃ t' : Task, (s.fire tm).tasks[j]? = some t' ∧ t'.rep = t.rep ∧ t'.body = t.body ∧ t'.done = t.done ∧
      (t.woken = true → t'.woken = true) := by
  unfold Sched.fire
  split
  · exact ⟨t, h, rfl, rfl, rfl, id⟩
  · rename_i tr htr
    simp only; split
    · split
      · rename_i tk htk
        simp only [Sched.setTimer_tasks] at htk
        by_cases e : j = tr.owner
        · subst e
          rw [h] at htk; cases htk
          exact ⟨_, Sched.setTask_get_self _ _ _ t (by simpa using h), rfl, rfl, rfl, fun _ => rfl⟩
        · rw [Sched.setTask_get_ne _ _ _ _ e]
          exact ⟨t, h, rfl, rfl, rfl, id⟩
      · exact ⟨t, h, rfl, rfl, rfl, id⟩
    · exact ⟨t, h, rfl, rfl, rfl, id⟩

theorem fire_keepT (s : Sched) (tm : TimerId) (k : TaskId) : KeepT k s (s.fire tm) := by
  cases ht : s.timers[tm]? with
  | none => unfold Sched.fire; rw [ht]; exact KeepT.refl _ _
  | some t =>
    have htimers : (s.fire tm).timers = (s.setTimer tm { t with fired := true }).timers := by
      rw [fire_eq s tm t ht]
      cases hreg : t.registered with
      | false => simp only [Bool.false_eq_true, if_false]
      | true =>
        simp only [if_true]
        cases s.tasks[t.owner]? <;> rfl
    intro i tm' h ho
    rw [htimers, setTimer_get s tm _ i t ht] at h
    by_cases e : tm = i
    · subst e
      simp only [if_true, Option.some.injEq] at h
      subst h
      exact ⟨t, ht, ho, fun _ => rfl⟩
    · rw [if_neg e] at h
      exact ⟨tm', h, ho, id⟩

theorem fire_keep (s : Sched) (tm : TimerId) (k : TaskId) : Keep k s (s.fire tm) :=
  ⟨fun t h => fire_task s tm k t h, fun i h => fire_fired_mono s tm i h, fire_keepT s tm k⟩

theorem fireAll_keep (l : List TimerId) (k : TaskId) : ∀ s : Sched, Keep k s (l.foldl Sched.fire s) := by
  induction l with
  | nil => intro s; exact Keep.refl _ _
  | cons a r ih => intro s; exact (fire_keep s a k).trans (ih _)

/-- `run` polls every ready task in its first pass: a task that is ripe after the
    due timers have fired, and marked ready, is finished when `run` returns. -/
theorem runLoop_retires (f : Nat) {w : TW} (hI : WI w) {k : TaskId}
    (hr : Ripe { w with sched := w.sched.dueTimers.foldl Sched.fire w.sched } k)
    (hw : ∀ t : Task, (w.sched.dueTimers.foldl Sched.fire w.sched).tasks[k]? = some t → t.done = false →
      t.woken = true) :
    doneAt (TW.runLoop (f + 1) w).sched k := by
  simp only [TW.runLoop]
  have h1 := fireAll_ok hI w.sched.dueTimers
  generalize hs1 : w.sched.dueTimers.foldl Sched.fire w.sched = s1 at h1 hr hw
  have hex : doneAt s1 k ∨ ∃ t : Task, s1.tasks[k]? = some t ∧ t.done = false := by
    rcases hr with hd | ⟨t, _, _, _, ht, _⟩ | ⟨t, ht, _⟩
    · exact Or.inl hd
    · cases hd : t.done with
      | true => exact Or.inl ⟨t, ht, hd⟩
      | false => exact Or.inr ⟨t, ht, hd⟩
    · cases hd : t.done with
      | true => exact Or.inl ⟨t, ht, hd⟩
      | false => exact Or.inr ⟨t, ht, hd⟩
  rcases hex with hd | ⟨t, ht, hd⟩
  · split
    · exact hd
    · exact (hd.fwd (pollAll_ok _ h1.1).2.fwd).fwd (runLoop_ok f (pollAll_ok _ h1.1).1).2.fwd
  · have hlive := mem_liveTasks s1 k t ht hd
    have hwk := hw t ht hd
    split
    · rename_i hc
      simp only [Bool.and_eq_true, List.isEmpty_iff] at hc
      have := List.filter_eq_nil_iff.mp hc.2 k hlive
      simp [ht, hwk] at this
    · refine doneAt.fwd (pollAll_retires _ h1.1 hr ?_) (runLoop_ok f (pollAll_ok _ h1.1).1).2.fwd
      rw [List.mem_filter]
      exact ⟨hlive, by simp [ht, hwk]⟩

end Rx.T
