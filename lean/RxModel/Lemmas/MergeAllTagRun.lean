import RxModel.Lemmas.MergeAllTag
/-
  Provenance along whole histories.
-/
namespace Rx.MergeAll

theorem TagPost.same {xs : List Val} {t k : Nat} {q0 : List Inst} {r : St × List Out}
    (hi : TagInv r.1 r.1.queue t k) (hq : nTag r.1.queue t = nTag q0 t)
    (ho : restrict t r.2 = []) : TagPost xs t k q0 r := by
  refine ⟨hi, by omega, ?_⟩
  rw [ho]
  split
  · omega
  · rfl

/-! frame: the table never changes, arrival numbers only grow -/

theorem innerComplete_frame (f : Bool) (s : St) :
    (innerComplete f s).1.inners = s.inners ∧ (innerComplete f s).1.arrivals = s.arrivals := by
  unfold innerComplete
  split
  · exact ⟨(drain_frame f s.queue s).2.1, (drain_frame f s.queue s).2.2.2.1⟩
  · exact ⟨rfl, rfl⟩

theorem completeAll_frame (f : Bool) (ts : List (Nat × Nat)) : ∀ s : St,
    (completeAll f s ts).1.inners = s.inners ∧ (completeAll f s ts).1.arrivals = s.arrivals := by
  induction ts with
  | nil => intro s; exact ⟨rfl, rfl⟩
  | cons p r ih =>
    intro s
    simp only [completeAll]
    have h1 := innerComplete_frame f s
    split
    · exact h1
    · have h2 := ih (innerComplete f s).1
      exact ⟨h2.1.trans h1.1, h2.2.trans h1.2⟩

theorem errorAll_frame (e : Err) (ts : List (Nat × Nat)) : ∀ s : St,
    (errorAll s e ts).1.inners = s.inners ∧ (errorAll s e ts).1.arrivals = s.arrivals ∧
    (errorAll s e ts).1.queue = s.queue ∧ (errorAll s e ts).1.subs = s.subs ∧
    (∀ o ∈ (errorAll s e ts).2, ∀ t v, o ≠ Out.item t v) := by
  induction ts with
  | nil => intro s; exact ⟨rfl, rfl, rfl, rfl, by simp [errorAll]⟩
  | cons p r ih =>
    intro s
    simp only [errorAll]
    have h2 := ih (innerError s e).1
    have h1 : (innerError s e).1.inners = s.inners ∧ (innerError s e).1.arrivals = s.arrivals ∧
        (innerError s e).1.queue = s.queue ∧ (innerError s e).1.subs = s.subs ∧
        (∀ o ∈ (innerError s e).2, ∀ t v, o ≠ Out.item t v) := by
      unfold innerError; split <;> simp
    refine ⟨h2.1.trans h1.1, h2.2.1.trans h1.2.1, h2.2.2.1.trans h1.2.2.1,
      h2.2.2.2.1.trans h1.2.2.2.1, ?_⟩
    intro o ho
    rcases List.mem_append.mp ho with ho | ho
    · exact h1.2.2.2.2 o ho
    · exact h2.2.2.2.2 o ho

theorem restrict_noitems (t : Nat) (out : List Out) (h : ∀ o ∈ out, ∀ t' v, o ≠ Out.item t' v) :
    restrict t out = [] := by
  induction out with
  | nil => rfl
  | cons o r ih =>
    cases o with
    | item t' v => exact absurd rfl (h _ (List.mem_cons_self ..) t' v)
    | error e => simpa [restrict] using ih (fun o ho => h o (List.mem_cons_of_mem _ ho))
    | complete => simpa [restrict] using ih (fun o ho => h o (List.mem_cons_of_mem _ ho))

theorem stepG_frame (f : Bool) (s : St) (ev : Ev) :
    (stepG f s ev).1.inners = s.inners ∧ s.arrivals ≤ (stepG f s ev).1.arrivals := by
  unfold stepG
  split
  · exact ⟨rfl, Nat.le_refl _⟩
  · cases ev with
    | outerNext k =>
      simp only [outerNext]
      split
      · exact ⟨rfl, Nat.le_refl _⟩
      · split
        · exact ⟨rfl, by simp⟩
        · split
          · unfold startTop
            simp only
            split
            · exact ⟨rfl, by simp⟩
            · split
              · exact ⟨rfl, by simp⟩
              · exact ⟨rfl, by simp⟩
              · have := drain_frame f s.queue
                  { s with arrivals := s.arrivals + 1, subscribed := s.subscribed + 1,
                           started := s.started + 1 }
                simp only at this ⊢
                exact ⟨this.2.1, by rw [this.2.2.2.1]; omega⟩
          · exact ⟨rfl, by simp⟩
    | outerError e =>
      simp only [outerError]
      split
      · exact ⟨rfl, Nat.le_refl _⟩
      · split <;> exact ⟨rfl, Nat.le_refl _⟩
    | outerComplete =>
      simp only [outerComplete]
      split
      · exact ⟨rfl, Nat.le_refl _⟩
      · split
        · split <;> exact ⟨rfl, Nat.le_refl _⟩
        · exact ⟨rfl, Nat.le_refl _⟩
    | innerNext j v => simp only [hotNext]; split <;> exact ⟨rfl, Nat.le_refl _⟩
    | innerError j e =>
      simp only [hotError]
      split
      · exact ⟨rfl, Nat.le_refl _⟩
      · have := errorAll_frame e (targets s j)
          { s with dead := j :: s.dead, subs := s.subs.filter (fun p => !(p.1 == j)) }
        exact ⟨this.1, by rw [this.2.1]; exact Nat.le_refl _⟩
    | innerComplete j =>
      simp only [hotComplete]
      split
      · exact ⟨rfl, Nat.le_refl _⟩
      · have := completeAll_frame f (targets s j)
          { s with dead := j :: s.dead, subs := s.subs.filter (fun p => !(p.1 == j)) }
        exact ⟨this.1, by rw [this.2]; exact Nat.le_refl _⟩
    | unsub => exact ⟨rfl, Nat.le_refl _⟩

theorem runG_frame (f : Bool) (evs : List Ev) : ∀ s : St,
    (runG f s evs).1.inners = s.inners ∧ s.arrivals ≤ (runG f s evs).1.arrivals := by
  induction evs with
  | nil => intro s; exact ⟨rfl, Nat.le_refl _⟩
  | cons ev r ih =>
    intro s
    simp only [runG]
    have h1 := stepG_frame f s ev
    have h2 := ih (stepG f s ev).1
    exact ⟨h2.1.trans h1.1, Nat.le_trans h1.2 h2.2⟩

theorem inner_of_inners {s s' : St} (h : s'.inners = s.inners) (k : Nat) : s'.inner k = s.inner k := by
  unfold St.inner; rw [h]

/-! the tag invariant along events -/

theorem innerComplete_tag (f : Bool) (xs : List Val) (fin : Fin) (t k : Nat) (s : St)
    (h : TagInv s s.queue t k) (hk : s.inner k = .cold xs fin)
    (hs : (innerComplete f s).1.stuck = false) : TagPost xs t k s.queue (innerComplete f s) := by
  unfold innerComplete at hs ⊢
  split at hs
  · rename_i ha; rw [if_pos ha]; exact drain_tag f xs fin t k s.queue s h hk hs
  · rename_i ha; rw [if_neg ha]; exact TagPost.same h rfl rfl

theorem completeAll_tag (f : Bool) (xs : List Val) (fin : Fin) (t k : Nat) (ts : List (Nat × Nat)) :
    ∀ s : St, TagInv s s.queue t k → s.inner k = .cold xs fin →
    (completeAll f s ts).1.stuck = false → TagPost xs t k s.queue (completeAll f s ts) := by
  induction ts with
  | nil => intro s h _ _; exact TagPost.same h rfl rfl
  | cons p r ih =>
    intro s h hk hs
    simp only [completeAll] at hs ⊢
    by_cases hst : (innerComplete f s).1.stuck = true
    · rw [if_pos hst] at hs; rw [hs] at hst; cases hst
    · rw [if_neg hst] at hs ⊢
      have h1 := innerComplete_tag f xs fin t k s h hk (by simpa using hst)
      have hk1 : (innerComplete f s).1.inner k = .cold xs fin := by
        rw [inner_of_inners (innerComplete_frame f s).1]; exact hk
      have h2 := ih _ h1.1 hk1 hs
      refine ⟨h2.1, Nat.le_trans h2.2.1 h1.2.1, ?_⟩
      simp only [restrict_append]
      rw [h1.2.2, h2.2.2]
      exact tag_combine xs _ _ _ h.cnt h1.2.1 h2.2.1

theorem stepG_tag (f : Bool) (xs : List Val) (fin : Fin) (t k : Nat) (s : St) (ev : Ev)
    (h : TagInv s s.queue t k) (hk : s.inner k = .cold xs fin)
    (ht : t < s.arrivals ∨ (stepG f s ev).1.arrivals ≤ t)
    (hs : (stepG f s ev).1.stuck = false) : TagPost xs t k s.queue (stepG f s ev) := by
  unfold stepG at hs ht ⊢
  by_cases hst : s.stuck = true
  · rw [if_pos hst]; exact TagPost.same h rfl rfl
  · rw [if_neg hst] at hs ht ⊢
    cases ev with
    | outerNext k' =>
      simp only [outerNext] at hs ht ⊢
      by_cases ho : (!s.outerOpen) = true
      · rw [if_pos ho]; exact TagPost.same h rfl rfl
      · rw [if_neg ho] at hs ht ⊢
        by_cases ha : (!s.alive) = true
        · rw [if_pos ha]; exact TagPost.same ⟨h.subs, h.key, h.cnt⟩ rfl rfl
        · rw [if_neg ha] at hs ht ⊢
          -- the new instance gets tag `s.arrivals ≠ t`
          have hne : s.arrivals ≠ t := by
            rcases ht with ht | ht
            · omega
            · intro he
              split at ht
              · have := (stepG_frame f s (.outerNext k')).2
                unfold startTop at ht
                simp only at ht
                split at ht
                · simp only at ht; omega
                · split at ht
                  · simp only at ht; omega
                  · simp only at ht; omega
                  · have hf := drain_frame f s.queue
                      { s with arrivals := s.arrivals + 1, subscribed := s.subscribed + 1,
                               started := s.started + 1 }
                    simp only at hf ht
                    rw [hf.2.2.2.1] at ht; omega
              · simp only at ht; omega
          by_cases hlt : s.subscribed < s.concurrent
          · rw [if_pos hlt] at hs ⊢
            unfold startTop at hs ⊢
            simp only at hs ⊢
            split at hs
            · rename_i j hin
              refine TagPost.same ⟨?_, h.key, h.cnt⟩ rfl rfl
              intro p hp
              simp only [List.mem_append, List.mem_singleton] at hp
              rcases hp with hp | rfl
              · exact h.subs p hp
              · exact hne
            · rename_i ys fin' hin
              cases fin' with
              | open_ =>
                simp only
                exact TagPost.same ⟨h.subs, h.key, h.cnt⟩ rfl (restrict_items_ne t _ ys hne)
              | error e =>
                simp only
                refine TagPost.same ⟨h.subs, h.key, h.cnt⟩ rfl ?_
                simp [restrict_append, restrict_items_ne t _ ys hne, restrict]
              | complete =>
                simp only at hs ⊢
                have hp : TagInv { s with arrivals := s.arrivals + 1, subscribed := s.subscribed + 1,
                                          started := s.started + 1 } s.queue t k :=
                  ⟨h.subs, h.key, h.cnt⟩
                have := drain_tag f xs fin t k s.queue _ hp hk hs
                refine ⟨this.1, this.2.1, ?_⟩
                rw [restrict_append, restrict_items_ne t _ ys hne]
                exact this.2.2
          · rw [if_neg hlt]
            have hn : nTag (s.queue ++ [⟨s.arrivals, k'⟩]) t = nTag s.queue t := by
              rw [nTag_append]; simp [hne]
            refine TagPost.same ⟨h.subs, ?_, by show nTag (s.queue ++ [_]) t ≤ 1; rw [hn]; exact h.cnt⟩
              hn rfl
            intro i hi hit
            simp only [List.mem_append, List.mem_singleton] at hi
            rcases hi with hi | rfl
            · exact h.key i hi hit
            · exact absurd hit hne
    | outerError e =>
      simp only [outerError]
      split
      · exact TagPost.same h rfl rfl
      · split
        · exact TagPost.same ⟨h.subs, h.key, h.cnt⟩ rfl rfl
        · exact TagPost.same ⟨h.subs, h.key, h.cnt⟩ rfl rfl
    | outerComplete =>
      simp only [outerComplete]
      split
      · exact TagPost.same h rfl rfl
      · split
        · split
          · exact TagPost.same ⟨h.subs, h.key, h.cnt⟩ rfl rfl
          · exact TagPost.same ⟨h.subs, h.key, h.cnt⟩ rfl rfl
        · exact TagPost.same ⟨h.subs, h.key, h.cnt⟩ rfl rfl
    | innerNext j v =>
      simp only [hotNext]
      split
      · exact TagPost.same h rfl rfl
      · refine TagPost.same h rfl ?_
        simp only
        split
        · exact restrict_targets t v _ (fun p hp => h.subs p (List.mem_filter.mp hp).1)
        · rfl
    | innerError j e =>
      simp only [hotError]
      split
      · exact TagPost.same h rfl rfl
      · have hf := errorAll_frame e (targets s j)
          { s with dead := j :: s.dead, subs := s.subs.filter (fun p => !(p.1 == j)) }
        refine TagPost.same ⟨?_, ?_, ?_⟩ (by rw [hf.2.2.1]) (restrict_noitems t _ hf.2.2.2.2)
        · rw [hf.2.2.2.1]; intro p hp; exact h.subs p (List.mem_filter.mp hp).1
        · rw [hf.2.2.1]; exact h.key
        · rw [hf.2.2.1]; exact h.cnt
    | innerComplete j =>
      simp only [hotComplete] at hs ⊢
      split at hs
      · rename_i hd; rw [if_pos hd]; exact TagPost.same h rfl rfl
      · rename_i hd; rw [if_neg hd]
        exact completeAll_tag f xs fin t k _ _
          ⟨fun p hp => h.subs p (List.mem_filter.mp hp).1, h.key, h.cnt⟩ hk hs
    | unsub =>
      exact TagPost.same ⟨by simp [unsub], h.key, h.cnt⟩ rfl rfl

theorem runG_tag (f : Bool) (xs : List Val) (fin : Fin) (t k : Nat) (evs : List Ev) : ∀ s : St,
    TagInv s s.queue t k → s.inner k = .cold xs fin →
    (t < s.arrivals ∨ (runG f s evs).1.arrivals ≤ t) →
    (runG f s evs).1.stuck = false → TagPost xs t k s.queue (runG f s evs) := by
  induction evs with
  | nil => intro s h _ _ _; exact TagPost.same h rfl rfl
  | cons ev r ih =>
    intro s h hk ht hs
    simp only [runG] at hs ht ⊢
    have hs1 : (stepG f s ev).1.stuck = false := by
      cases hst : (stepG f s ev).1.stuck with
      | false => rfl
      | true => rw [runG_stuck_mono f r _ hst] at hs; rw [hs] at hst; cases hst
    have hf1 := stepG_frame f s ev
    have hf2 := runG_frame f r (stepG f s ev).1
    have h1 := stepG_tag f xs fin t k s ev h hk
      (by rcases ht with ht | ht
          · exact Or.inl ht
          · exact Or.inr (Nat.le_trans hf2.2 ht)) hs1
    have hk1 : (stepG f s ev).1.inner k = .cold xs fin := by
      rw [inner_of_inners hf1.1]; exact hk
    have h2 := ih _ h1.1 hk1
      (by rcases ht with ht | ht
          · exact Or.inl (Nat.lt_of_lt_of_le ht hf1.2)
          · exact Or.inr ht) hs
    refine ⟨h2.1, Nat.le_trans h2.2.1 h1.2.1, ?_⟩
    simp only [restrict_append]
    rw [h1.2.2, h2.2.2]
    exact tag_combine xs _ _ _ h.cnt h1.2.1 h2.2.1

end Rx.MergeAll
