import RxModel.Conc.TimeSteps
/-
  Helper lemmas for Props/C02S.lean, part 1 (every operator kind, both orders):
  the view of a configuration as (state, program counter of every thread), what one scheduled
  step does to it, and the lock discipline: a cell is in `locks` for thread j iff j's program
  counter says so (`Pc.holds`), no cell is held twice, a step gains only the cell it acquires.
-/
namespace Rx.Conc.TS
open Rx

def Pc.isEntry : Pc → Bool
  | .sj_load _ | .u_begin | .p_begin _ | .run_round | .adv _ | .fire _ => true
  | _ => false

theorem entry_isEntry (op : Op) : op.entry.isEntry = true := by cases op <;> rfl

theorem isEntry_holds {q : Pc} (h : q.isEntry = true) : q.holds = [] := by
  cases q <;> simp_all [Pc.isEntry, Pc.holds]

/-- the program counter a thread stands at after a step that returned `p` -/
def After (p q : Pc) : Prop := q = p ∨ (p = .fin ∧ q.isEntry = true)

theorem norm_after (p : Pc) (rest : List Op) : After p (Thread.norm ⟨p, rest⟩).pc := by
  unfold After Thread.norm
  cases rest with
  | nil => cases p <;> simp
  | cons op r => cases p <;> simp [entry_isEntry]

theorem pcOf_set (s' : St) (ths : List Thread) (i j : Nat) (t' : Thread) (hi : i < ths.length) :
    (⟨s', ths.set i t'⟩ : Cfg).pcOf j = if j = i then t'.pc else (⟨s', ths⟩ : Cfg).pcOf j := by
  unfold Cfg.pcOf
  by_cases h : j = i
  · subst h; simp [hi]
  · have h' : i ≠ j := fun e => h e.symm
    simp [h, List.getElem?_set_ne h']

/-- One scheduled step, seen through (state, program counters): nothing happens, or thread `i` runs the
    step at its program counter (whose cell is free), stands at `q` afterwards and holds `q.holds`. -/
theorem sched1_view (K : Conf) (c : Cfg) (i : Nat) :
    c.sched1 K i = c ∨
    ∃ q : Pc, c.st.enabled (c.pcOf i) = true ∧ After (step K c.st (c.pcOf i)).2 q ∧
      (c.sched1 K i).st = (step K c.st (c.pcOf i)).1.setHeld i q.holds ∧
      (∀ j, (c.sched1 K i).pcOf j = if j = i then q else c.pcOf j) := by
  unfold Cfg.sched1
  cases hi : c.ths[i]? with
  | none => exact Or.inl rfl
  | some t =>
    simp only []
    by_cases he : c.st.enabled t.pc = true
    · rw [if_pos he]
      right
      have hp : c.pcOf i = t.pc := by simp [Cfg.pcOf, hi]
      have hlen : i < c.ths.length := by
        rcases List.getElem?_eq_some_iff.mp hi with ⟨h, _⟩; exact h
      refine ⟨(Thread.norm ⟨(step K c.st t.pc).2, t.rest⟩).pc, ?_, ?_, ?_, ?_⟩
      · rw [hp]; exact he
      · rw [hp]; exact norm_after _ _
      · rw [hp]
      · intro j
        rw [pcOf_set _ _ _ _ _ hlen]
        rfl
    · rw [if_neg he]; exact Or.inl rfl

/-- Induction over a schedule. -/
theorem exec_induction (K : Conf) (P : Cfg → Prop) (hstep : ∀ c i, P c → P (c.sched1 K i)) :
    ∀ (sched : List Nat) (c : Cfg), P c → P (exec K c sched) := by
  intro sched
  induction sched with
  | nil => intro c h; exact h
  | cons i r ih => intro c h; exact ih _ (hstep c i h)

/-- An invariant over (state, program counters) that every step of every thread preserves holds along
    every schedule. -/
theorem view_induction (K : Conf) (I : St → (Nat → Pc) → Prop)
    (hstep : ∀ (s : St) (f : Nat → Pc) (i : Nat) (q : Pc), I s f → s.enabled (f i) = true →
      After (step K s (f i)).2 q →
      I ((step K s (f i)).1.setHeld i q.holds) (fun j => if j = i then q else f j)) :
    ∀ (sched : List Nat) (c : Cfg), I c.st c.pcOf → I (exec K c sched).st (exec K c sched).pcOf := by
  apply exec_induction K (fun c => I c.st c.pcOf)
  intro c i h
  rcases sched1_view K c i with e | ⟨q, he, ha, hs, hp⟩
  · rw [e]; exact h
  · have := hstep c.st c.pcOf i q h he ha
    rw [hs]
    have e : (c.sched1 K i).pcOf = fun j => if j = i then q else c.pcOf j := funext hp
    rw [e]
    exact this

/-! ### the data effect of a step leaves `locks` alone -/

@[simp] theorem upd_locks (s : St) (k : Nat) (f : Task → Task) : (s.upd k f).locks = s.locks := rfl
@[simp] theorem spawn_locks (s : St) (d : Option Nat) (b : Body) : (s.spawn d b).1.locks = s.locks := rfl
@[simp] theorem deliver_locks (s : St) (n : Notif) : (s.deliver n).locks = s.locks := by
  unfold St.deliver; split <;> rfl
@[simp] theorem beginPoll_locks (s : St) (k : Nat) : (s.beginPoll k).locks = s.locks := rfl
@[simp] theorem fireTimer_locks (s : St) (j : Nat) : (s.fireTimer j).locks = s.locks := by
  unfold St.fireTimer; split
  · rfl
  · split <;> rfl

theorem foldl_fireTimer_locks (l : List Nat) : ∀ s : St, (l.foldl St.fireTimer s).locks = s.locks := by
  induction l with
  | nil => intro s; rfl
  | cons j r ih => intro s; simp only [List.foldl_cons]; rw [ih, fireTimer_locks]

theorem thOver_locks (K : Conf) (s : St) (v : Val) : (thOver K s v).1.locks = s.locks := by
  unfold thOver; split
  · split <;> simp
  · rfl

theorem step_locks (K : Conf) (s : St) (p : Pc) : (step K s p).1.locks = s.locks := by
  cases p <;> simp only [step] <;> (repeat' split) <;> simp [thOver_locks, foldl_fireTimer_locks]

/-! ### lock discipline -/

/-- A step gains only the cell it acquires (and may release anything). -/
theorem step_holds' (K : Conf) (s : St) (p : Pc) :
    ∀ c ∈ (step K s p).2.holds, c ∈ p.holds ∨ p.cell = some c := by
  cases p <;> simp only [step, nextEntry, termEntry, afterTrail, thOver, uSecond, uAfter, retPc] <;>
    (repeat' split) <;> simp [Pc.holds, Pc.cell]

theorem step_holds (K : Conf) (s : St) (p q : Pc) (ha : After (step K s p).2 q) :
    ∀ c ∈ q.holds, c ∈ p.holds ∨ p.cell = some c := by
  rcases ha with rfl | ⟨_, he⟩
  · exact step_holds' K s p
  · rw [isEntry_holds he]; simp

/-- Lock discipline: `locks` says exactly what the program counters say, and no cell is held twice. -/
structure LD (s : St) (f : Nat → Pc) : Prop where
  iff : ∀ c j, (c, j) ∈ s.locks ↔ c ∈ (f j).holds
  excl : ∀ c j j', c ∈ (f j).holds → c ∈ (f j').holds → j = j'

theorem free_iff (s : St) (c : Cell) : s.free c = true ↔ ∀ j, (c, j) ∉ s.locks := by
  unfold St.free
  simp only [Bool.not_eq_true', List.any_eq_false, beq_iff_eq, Prod.forall]
  constructor
  · intro h j hm; exact h c j hm rfl
  · intro h a j hm e; subst e; exact h j hm

theorem mem_setHeld (s : St) (i : Tid) (cells : List Cell) (c : Cell) (j : Tid) :
    (c, j) ∈ (s.setHeld i cells).locks ↔ ((c, j) ∈ s.locks ∧ j ≠ i) ∨ (c ∈ cells ∧ j = i) := by
  unfold St.setHeld
  simp only [List.mem_append, List.mem_filter, List.mem_map, bne_iff_ne, ne_eq, Prod.mk.injEq]
  constructor
  · rintro (h | ⟨a, ha, rfl, rfl⟩)
    · exact Or.inl h
    · exact Or.inr ⟨ha, rfl⟩
  · rintro (h | ⟨h, rfl⟩)
    · exact Or.inl h
    · exact Or.inr ⟨c, h, rfl, rfl⟩

/-- a held cell is not free, so a thread that holds `c` keeps every other thread from acquiring it -/
theorem LD.not_free {s : St} {f : Nat → Pc} (h : LD s f) {c : Cell} {j : Nat} (hc : c ∈ (f j).holds) :
    s.free c = false := by
  cases hf : s.free c with
  | false => rfl
  | true => exact absurd ((h.iff c j).mpr hc) ((free_iff s c).mp hf j)

theorem LD.preserved (K : Conf) {s : St} {f : Nat → Pc} (h : LD s f) (i : Nat) (q : Pc)
    (he : s.enabled (f i) = true) (ha : After (step K s (f i)).2 q) :
    LD ((step K s (f i)).1.setHeld i q.holds) (fun j => if j = i then q else f j) := by
  have hl : ∀ c j, (c, j) ∈ ((step K s (f i)).1.setHeld i q.holds).locks ↔
      ((c, j) ∈ s.locks ∧ j ≠ i) ∨ (c ∈ q.holds ∧ j = i) := by
    intro c j; rw [mem_setHeld, step_locks]
  have gain := step_holds K s (f i) q ha
  -- what thread i holds afterwards, no other thread holds
  have key : ∀ c j', c ∈ q.holds → j' ≠ i → c ∉ (f j').holds := by
    intro c j' hq hne hj
    rcases gain c hq with hh | hc
    · exact hne (h.excl c j' i hj hh)
    · unfold St.enabled at he
      rw [hc] at he
      simp only [] at he
      rw [h.not_free hj] at he
      cases he
  refine ⟨?_, ?_⟩
  · intro c j
    rw [hl]
    by_cases hj : j = i
    · subst hj; simp
    · simp [hj, h.iff]
  · intro c j j' h1 h2
    by_cases hj : j = i <;> by_cases hj' : j' = i
    · rw [hj, hj']
    · simp only [hj, hj', if_true, if_false] at h1 h2
      exact absurd h2 (key c j' h1 hj')
    · simp only [hj, hj', if_true, if_false] at h1 h2
      exact absurd h1 (key c j h2 hj)
    · simp only [hj, hj', if_false] at h1 h2
      exact h.excl c j j' h1 h2

theorem mk'_pc (ops : List Op) : (Thread.mk' ops).pc = .fin ∨ (Thread.mk' ops).pc.isEntry = true := by
  unfold Thread.mk'
  rcases norm_after .fin ops with h | ⟨_, h⟩
  · exact Or.inl h
  · exact Or.inr h

/-- program counters of an initial configuration: nothing has started -/
theorem init_pcOf (s : St) (progs : List (List Op)) (j : Nat) :
    (Cfg.init s progs).pcOf j = .fin ∨ ((Cfg.init s progs).pcOf j).isEntry = true := by
  unfold Cfg.pcOf Cfg.init
  simp only [List.getElem?_map]
  cases progs[j]? with
  | none => exact Or.inl rfl
  | some ops => exact mk'_pc ops

theorem init_holds (s : St) (progs : List (List Op)) (j : Nat) : ((Cfg.init s progs).pcOf j).holds = [] := by
  rcases init_pcOf s progs j with h | h
  · rw [h]; rfl
  · exact isEntry_holds h

theorem LD.init (s : St) (hs : s.locks = []) (progs : List (List Op)) : LD s (Cfg.init s progs).pcOf := by
  refine ⟨fun c j => ?_, fun c j j' h => ?_⟩
  · rw [init_holds, hs]; simp
  · rw [init_holds] at h; cases h

theorem LD.exec (K : Conf) (s : St) (hs : s.locks = []) (progs : List (List Op)) (sched : List Nat) :
    LD (exec K (Cfg.init s progs) sched).st (exec K (Cfg.init s progs) sched).pcOf :=
  view_induction K LD (fun _ _ i q h he ha => h.preserved K i q he ha) sched _ (LD.init s hs progs)

/-! ### ranked acquisition, no deadlock -/

/-- Every program point asks for a cell above everything it holds. -/
theorem pc_ranked (p : Pc) (c : Cell) (hc : p.cell = some c) : ∀ h ∈ p.holds, h.rank < c.rank := by
  cases p <;> simp [Pc.cell, Pc.holds] at hc ⊢ <;> subst hc <;> simp [Cell.rank]

theorem rank_le (c : Cell) : c.rank ≤ 6 := by cases c <;> simp [Cell.rank]

theorem holds_not_fin {p : Pc} {c : Cell} (h : c ∈ p.holds) : p ≠ .fin := by
  intro e; subst e; cases h

/-- If every thread is blocked, a blocked thread waiting for rank r yields one waiting for a higher rank. -/
theorem no_deadlock_view {s : St} {f : Nat → Pc} (h : LD s f)
    (blocked : ∀ j, f j ≠ .fin → s.enabled (f j) = false) :
    ∀ (m : Nat) (j : Nat) (c : Cell), f j ≠ .fin → (f j).cell = some c → 7 ≤ c.rank + m → False := by
  intro m
  induction m with
  | zero => intro j c _ _ hr; have := rank_le c; omega
  | succ m ih =>
    intro j c hj hc hr
    have hb := blocked j hj
    unfold St.enabled at hb
    rw [hc] at hb
    simp only [] at hb
    -- somebody holds c
    have : ∃ j', (c, j') ∈ s.locks := by
      cases hx : s.locks.find? (·.1 == c) with
      | none =>
        have : s.free c = true := by
          unfold St.free
          simp only [Bool.not_eq_true', List.any_eq_false]
          intro x hx'
          have := List.find?_eq_none.mp hx x hx'
          simpa using this
        rw [this] at hb; cases hb
      | some x =>
        have h1 := List.find?_some hx
        have h2 := List.mem_of_find?_eq_some hx
        simp only [beq_iff_eq] at h1
        exact ⟨x.2, by rw [← h1]; exact h2⟩
    obtain ⟨j', hj'⟩ := this
    have hh := (h.iff c j').mp hj'
    have hnf : f j' ≠ .fin := holds_not_fin hh
    have hb' := blocked j' hnf
    -- j' is blocked too: it waits for some cell c' above c
    cases hc' : (f j').cell with
    | none => unfold St.enabled at hb'; rw [hc'] at hb'; cases hb'
    | some c' =>
      have := pc_ranked (f j') c' hc' c hh
      exact ih j' c' hnf hc' (by omega)

end Rx.Conc.TS
