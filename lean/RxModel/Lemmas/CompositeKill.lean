import RxModel.Lemmas.Composite
/-
  `unsubscribe` silences every leaf that is reachable through the value.
  One level of composites, generic in what the entries are (`u`, `g`, `P`).
-/
namespace Rx.Comp

/-- no composite handle inside -/
def Sub.flat : Sub → Bool
  | .unit => true
  | .leaf _ => true
  | .multi _ => false
  | .zip a b => a.flat && b.flat

theorem unsubAt_flat (k k' : Nat → W → W) : ∀ (s : Sub) (w : W), s.flat = true →
    unsubAt k s w = unsubAt k' s w
  | .unit, _, _ => rfl
  | .leaf _, _, _ => rfl
  | .multi _, _, h => by simp [Sub.flat] at h
  | .zip a b, w, h => by
    simp only [Sub.flat, Bool.and_eq_true] at h
    simp only [unsubAt]
    rw [unsubAt_flat k k' a w h.1, unsubAt_flat k k' b _ h.2]

theorem reachAt_flat (r r' : Nat → List Nat) : ∀ (s : Sub), s.flat = true → reachAt r s = reachAt r' s
  | .unit, _ => rfl
  | .leaf _, _ => rfl
  | .multi _, h => by simp [Sub.flat] at h
  | .zip a b, h => by
    simp only [Sub.flat, Bool.and_eq_true] at h
    simp only [reachAt]
    rw [reachAt_flat r r' a h.1, reachAt_flat r r' b h.2]

section Level
variable (u : Sub → W → W) (g : Sub → List Nat) (P : Sub → Prop)
variable (hmono : ∀ s w, AliveLe (u s w) w)
variable (hcells : ∀ s w j, P s → (u s w).cell j = w.cell j)
variable (hkill : ∀ s w i, P s → i ∈ g s → (u s w).alive i = false)

/-- all entries of a vector satisfy `P` -/
def AllP (cs : List Child) : Prop := ∀ s, Child.sub s ∈ cs → P s

include hcells in
theorem foldl_cells : ∀ (cs : List Child) (w : W) (j : Nat), AllP P cs →
    (cs.foldl (fun w c => unsubChild u c w) w).cell j = w.cell j
  | [], _, _, _ => rfl
  | c :: cs, w, j, hp => by
    simp only [List.foldl_cons]
    rw [foldl_cells cs _ j (fun s hs => hp s (List.mem_cons_of_mem _ hs))]
    cases c with
    | sub s => exact hcells s w j (hp s (List.mem_cons_self ..))
    | task t => rfl

include hmono hkill in
theorem foldl_kills : ∀ (cs : List Child) (w : W), AllP P cs →
    ∀ i ∈ cs.flatMap (childReach g), (cs.foldl (fun w c => unsubChild u c w) w).alive i = false
  | [], _, _, i, hi => by simp at hi
  | c :: cs, w, hp, i, hi => by
    simp only [List.flatMap_cons, List.mem_append] at hi
    simp only [List.foldl_cons]
    have hp' : AllP P cs := fun s hs => hp s (List.mem_cons_of_mem _ hs)
    cases hi with
    | inl hc =>
      refine (foldl_aliveLe u hmono cs _).dead ?_
      cases c with
      | sub s => exact hkill s w i (hp s (List.mem_cons_self ..)) hc
      | task t => simp [childReach] at hc
    | inr hr => exact foldl_kills cs _ hp' i hr

include hcells in
theorem takeCell_cell_ne (j j' : Nat) (w : W) (hne : j' ≠ j)
    (hp : ∀ cs, w.cell j = some cs → AllP P cs) : (takeCell u j w).cell j' = w.cell j' := by
  unfold takeCell
  cases h : w.cell j with
  | none => rfl
  | some cs =>
    show (cs.foldl (fun w c => unsubChild u c w) (w.setCell j none)).cell j' = w.cell j'
    rw [foldl_cells u P hcells cs _ j' (hp cs h), cell_setCell_ne w j j' none hne]

include hcells in
theorem takeCell_cell_self (j : Nat) (w : W)
    (hp : ∀ cs, w.cell j = some cs → AllP P cs) : (takeCell u j w).cell j = none := by
  unfold takeCell
  cases h : w.cell j with
  | none => exact h
  | some cs =>
    show (cs.foldl (fun w c => unsubChild u c w) (w.setCell j none)).cell j = none
    rw [foldl_cells u P hcells cs _ j (hp cs h)]
    by_cases h2 : j < 2
    · exact cell_setCell_same w j none h2
    · exact cell_ge2 _ _ (by omega)

include hmono hkill in
theorem takeCell_kills (j : Nat) (w : W) (cs : List Child) (h : w.cell j = some cs) (hp : AllP P cs) :
    ∀ i ∈ cs.flatMap (childReach g), (takeCell u j w).alive i = false := by
  intro i hi
  unfold takeCell
  rw [h]
  exact foldl_kills u g P hmono hkill cs _ hp i hi

/-- Relative to the world `w` in which the traversal started: every composite is untouched, or
    gone with everything that was reachable through it dead. -/
def Inv (w w₁ : W) : Prop :=
  ∀ j, w₁.cell j = w.cell j ∨ (w₁.cell j = none ∧ ∀ i ∈ cellReach g w j, w₁.alive i = false)

theorem Inv.refl (w : W) : Inv g w w := fun _ => Or.inl rfl

theorem Inv.step {w w₁ w₂ : W} (h : Inv g w w₁) (ha : AliveLe w₂ w₁) (hc : ∀ j, w₂.cell j = w₁.cell j) :
    Inv g w w₂ := by
  intro j
  cases h j with
  | inl e => exact Or.inl ((hc j).trans e)
  | inr e => exact Or.inr ⟨(hc j).trans e.1, fun i hi => ha.dead (e.2 i hi)⟩

/-- the entries of every composite of `w` satisfy `P` -/
def CellsP (w : W) : Prop := ∀ j cs, w.cell j = some cs → AllP P cs

include hmono hcells hkill in
theorem inv_takeCell {w w₁ : W} (hw : CellsP P w) (h : Inv g w w₁) (j : Nat) :
    Inv g w (takeCell u j w₁) := by
  cases hc : w₁.cell j with
  | none =>
    have : takeCell u j w₁ = w₁ := by unfold takeCell; rw [hc]
    rw [this]; exact h
  | some cs =>
    have hsame : w.cell j = some cs := by
      cases h j with
      | inl e => rw [← e]; exact hc
      | inr e => rw [e.1] at hc; exact absurd hc (by simp)
    have hp₁ : ∀ cs', w₁.cell j = some cs' → AllP P cs' := by
      intro cs' h'
      rw [hc] at h'
      cases h'
      exact hw j cs hsame
    intro j'
    by_cases hj : j' = j
    · subst hj
      refine Or.inr ⟨takeCell_cell_self u P hcells j' w₁ hp₁, ?_⟩
      intro i hi
      unfold cellReach at hi
      rw [hsame] at hi
      exact takeCell_kills u g P hmono hkill j' w₁ cs hc (hw j' cs hsame) i hi
    · have hcell := takeCell_cell_ne u P hcells j j' w₁ hj hp₁
      cases h j' with
      | inl e => exact Or.inl (hcell.trans e)
      | inr e =>
        exact Or.inr ⟨hcell.trans e.1, fun i hi => (takeCell_aliveLe u hmono j w₁).dead (e.2 i hi)⟩

include hmono hcells hkill in
theorem inv_unsubAt {w : W} (hw : CellsP P w) : ∀ (s : Sub) (w₁ : W), Inv g w w₁ →
    Inv g w (unsubAt (takeCell u) s w₁)
  | .unit, _, h => h
  | .leaf i, w₁, h => h.step g (aliveLe_kill w₁ i) (fun j => cell_kill w₁ i j)
  | .multi j, _, h => inv_takeCell u g P hmono hcells hkill hw h j
  | .zip a b, w₁, h => inv_unsubAt hw b _ (inv_unsubAt hw a w₁ h)

include hmono hcells hkill in
/-- Unsubscribing `s` kills every leaf that was reachable through `s` when the traversal started. -/
theorem unsubAt_kills {w : W} (hw : CellsP P w) (i : Nat) : ∀ (s : Sub) (w₁ : W), Inv g w w₁ →
    i ∈ reachAt (cellReach g w) s → (unsubAt (takeCell u) s w₁).alive i = false
  | .unit, _, _, hi => by simp [reachAt] at hi
  | .leaf k, w₁, _, hi => by
    simp only [reachAt, List.mem_singleton] at hi
    subst hi
    exact alive_kill_self w₁ i
  | .multi j, w₁, h, hi => by
    simp only [reachAt] at hi
    show (takeCell u j w₁).alive i = false
    cases h j with
    | inr e => exact (takeCell_aliveLe u hmono j w₁).dead (e.2 i hi)
    | inl e =>
      cases hc : w.cell j with
      | none => unfold cellReach at hi; rw [hc] at hi; simp at hi
      | some cs =>
        unfold cellReach at hi
        rw [hc] at hi
        exact takeCell_kills u g P hmono hkill j w₁ cs (e.trans hc) (hw j cs hc) i hi
  | .zip a b, w₁, h, hi => by
    simp only [reachAt, List.mem_append] at hi
    show (unsubAt (takeCell u) b (unsubAt (takeCell u) a w₁)).alive i = false
    cases hi with
    | inl ha =>
      exact (unsubAt_aliveLe _ (takeCell_aliveLe u hmono) b _).dead (unsubAt_kills hw i a w₁ h ha)
    | inr hb =>
      exact unsubAt_kills hw i b _ (inv_unsubAt u g P hmono hcells hkill hw a w₁ h) hb

end Level

/-! ### the levels -/

theorem unsub2_cell : ∀ (s : Sub) (w : W) (j : Nat), (unsub2 s w).cell j = w.cell j
  | .unit, _, _ => rfl
  | .leaf i, w, j => cell_kill w i j
  | .multi _, _, _ => rfl
  | .zip a b, w, j => by
    show (unsub2 b (unsub2 a w)).cell j = w.cell j
    rw [unsub2_cell b _ j, unsub2_cell a w j]

theorem unsub2_kills (i : Nat) : ∀ (s : Sub) (w : W), i ∈ reach2 s → (unsub2 s w).alive i = false
  | .unit, _, hi => by simp [reach2, reachAt] at hi
  | .leaf k, w, hi => by
    simp only [reach2, reachAt, List.mem_singleton] at hi
    subst hi
    exact alive_kill_self w i
  | .multi _, _, hi => by simp [reach2, reachAt] at hi
  | .zip a b, w, hi => by
    simp only [reach2, reachAt, List.mem_append] at hi
    show (unsub2 b (unsub2 a w)).alive i = false
    cases hi with
    | inl ha => exact (unsub2_aliveLe b _).dead (unsub2_kills i a w ha)
    | inr hb => exact unsub2_kills i b _ hb

/-- One composite level, any world: `unsub1` silences everything reachable at that level. -/
theorem unsub1_kills (w : W) (s : Sub) (i : Nat) (hi : i ∈ reach1 w s) : (unsub1 s w).alive i = false :=
  unsubAt_kills unsub2 reach2 (fun _ => True) unsub2_aliveLe (fun s w j _ => unsub2_cell s w j)
    (fun s w i _ h => unsub2_kills i s w h) (fun _ _ _ _ _ => trivial) i s w (Inv.refl reach2 w) hi

/-- No composite inside a composite. -/
def Flat (w : W) : Prop := CellsP (fun s => s.flat = true) w

theorem unsub1_eq_unsub2 (s : Sub) (w : W) (h : s.flat = true) : unsub1 s w = unsub2 s w :=
  unsubAt_flat _ _ s w h

theorem reachAt_congr (r r' : Nat → List Nat) (h : ∀ j, r j = r' j) (s : Sub) : reachAt r s = reachAt r' s := by
  have : r = r' := funext h
  rw [this]

theorem cellReach_flat (w : W) (hw : Flat w) (j : Nat) : cellReach (reach1 w) w j = cellReach reach2 w j := by
  unfold cellReach
  cases hc : w.cell j with
  | none => rfl
  | some cs =>
    show cs.flatMap (childReach (reach1 w)) = cs.flatMap (childReach reach2)
    have hp := hw j cs hc
    clear hc
    induction cs with
    | nil => rfl
    | cons c cs ih =>
      simp only [List.flatMap_cons]
      rw [ih (fun s hs => hp s (List.mem_cons_of_mem _ hs))]
      cases c with
      | task t => rfl
      | sub s =>
        show reachAt (cellReach reach2 w) s ++ _ = reachAt (fun _ => []) s ++ _
        rw [reachAt_flat (cellReach reach2 w) (fun _ => []) s (hp s (List.mem_cons_self ..))]

/-- In a flat world `unsubscribe` silences every leaf reachable through the value. -/
theorem unsub_kills_flat (w : W) (hw : Flat w) (s : Sub) (i : Nat) (hi : i ∈ reach w s) :
    (unsub s w).alive i = false := by
  have hi' : i ∈ reachAt (cellReach reach2 w) s := by
    have := reachAt_congr _ _ (cellReach_flat w hw) s
    unfold reach at hi
    rw [this] at hi
    exact hi
  exact unsubAt_kills unsub1 reach2 (fun s => s.flat = true) unsub1_aliveLe
    (fun s w j h => by rw [unsub1_eq_unsub2 s w h]; exact unsub2_cell s w j)
    (fun s w i h hr => by rw [unsub1_eq_unsub2 s w h]; exact unsub2_kills i s w hr)
    hw i s w (Inv.refl reach2 w) hi'

end Rx.Comp
