import RxModel.Lemmas.ChainCompKinds
/-
  C07C, part 9: the statements about `observe_on` and `delay d` between single-input
  observers, derived from the simulation theorem and the one-stage theory.
-/
set_option linter.unusedSimpArgs false
namespace Rx.T
open Rx Rx.Spec

/-- hot subject 0 → `pre` → observe_on → `post` → probe. -/
def obsChain (pre post : List Op1) : TW :=
  chainW (pre.map Op1.init) (.observeOn true (some [])) (post.map Op1.init)

/-- hot subject 0 → `pre` → delay d → `post` → probe. -/
def delayChain (d : Nat) (pre post : List Op1) : TW :=
  chainW (pre.map Op1.init) (.delay d true (some [])) (post.map Op1.init)

/-- What `pre` outputs for the gated source script. -/
def preOut (pre : List Op1) (evs : List TW.Ev) : List Notif :=
  (runChain (pre.map Op1.init) (gate (script evs))).2

/-- What the synchronous chain `pre ++ post` (the mover removed) delivers for the gated source script. -/
def syncOut (pre post : List Op1) (evs : List TW.Ev) : List Notif :=
  (runChain ((pre ++ post).map Op1.init) (gate (script evs))).2

theorem WF_preOut (pre : List Op1) (evs : List TW.Ev) : WF (preOut pre evs) :=
  runChain_init_wf pre _ (WF_gate _)

theorem syncOut_eq (pre post : List Op1) (evs : List TW.Ev) :
    syncOut pre post evs = (runChain (post.map Op1.init) (preOut pre evs)).2 := by
  simp [syncOut, preOut, List.map_append, runChain_chain_append]

theorem runChain_prefix (sts : List St1) {L O : List Notif} (h : L <+: O) :
    (runChain sts L).2 <+: (runChain sts O).2 := by
  obtain ⟨x, rfl⟩ := h
  rw [runChain_append]
  exact List.prefix_append _ _

/-! ### observe_on -/

theorem obs_sim (pre post : List Op1) (hcalm : ∀ o ∈ pre ++ post, o.calm = true) (evs : List TW.Ev)
    (hall : ∀ e ∈ evs, FifoEv e) :
    (evs.foldl TW.step ((obsChain pre post).step .sub)).log =
      (runChain (post.map Op1.init)
        ((feedEvs (pre.map Op1.init) evs).foldl TW.step (Obs.w₀.step .sub)).log).2 := by
  rw [← oneW_obs]
  exact comp_sim _ rfl Kind_obs pre post hcalm evs hall

theorem obs_fifo (pre post : List Op1) (hcalm : ∀ o ∈ pre ++ post, o.calm = true) (evs : List TW.Ev)
    (hall : ∀ e ∈ evs, FifoEv e) :
    (∃ L, L <+: preOut pre evs ∧
      (evs.foldl TW.step ((obsChain pre post).step .sub)).log = (runChain (post.map Op1.init) L).2) ∧
    (∀ evs', evs = evs' ++ [TW.Ev.run] →
      (evs.foldl TW.step ((obsChain pre post).step .sub)).log = syncOut pre post evs) := by
  have hs := script_feedEvs (pre.map Op1.init) evs hall
  have hf := fifo_feedEvs (pre.map Op1.init) evs hall
  have hg : gate (preOut pre evs) = preOut pre evs := gate_of_WF (WF_preOut pre evs)
  refine ⟨⟨_, ?_, obs_sim pre post hcalm evs hall⟩, ?_⟩
  · have := Obs.fifo_prefix _ hf
    rw [hs] at this
    rw [← hg]; exact this
  · rintro evs' rfl
    rw [obs_sim pre post hcalm _ hall, syncOut_eq]
    have hall' : ∀ e ∈ evs', FifoEv e := fun e he => hall e (List.mem_append_left _ he)
    rw [feedEvs_snoc_run]
    have := Obs.fifo_all _ (fifo_feedEvs (pre.map Op1.init) evs' hall')
    rw [this, ← feedEvs_snoc_run, hs]
    show (runChain _ (gate (preOut pre _))).2 = _
    rw [hg]

theorem obs_order (pre post : List Op1) (hcalm : ∀ o ∈ pre ++ post, o.calm = true) (evs : List TW.Ev)
    (hall : ∀ e ∈ evs, FifoEv e) :
    (evs.foldl TW.step ((obsChain pre post).step .sub)).log <+: syncOut pre post evs := by
  obtain ⟨⟨L, hL, e⟩, _⟩ := obs_fifo pre post hcalm evs hall
  rw [e, syncOut_eq]
  exact runChain_prefix _ hL

theorem WF_syncOut (pre post : List Op1) (evs : List TW.Ev) : WF (syncOut pre post evs) :=
  runChain_init_wf (pre ++ post) _ (WF_gate _)

theorem terminated_of_mem {L : List Notif} {t : Notif} (ht : t.isTerm = true) (h : t ∈ L) :
    terminated L = true := by
  induction L with
  | nil => cases h
  | cons n r ih =>
    cases n with
    | next v =>
      simp only [terminated]
      rcases List.mem_cons.mp h with rfl | h
      · simp [Notif.isTerm] at ht
      · exact ih h
    | error e => rfl
    | complete => rfl

/-- A prefix of a well-formed stream that contains a terminal is the whole stream. -/
theorem prefix_eq_of_terminal {L S : List Notif} (hp : L <+: S) (hw : WF S) {t : Notif}
    (ht : t.isTerm = true) (h : t ∈ L) : L = S := by
  obtain ⟨x, rfl⟩ := hp
  have := ((WF_append_iff L x).mp hw).2.1 (terminated_of_mem ht h)
  rw [this, List.append_nil]

/-! ### delay -/

theorem del_sim (d : Nat) (pre post : List Op1) (hcalm : ∀ o ∈ pre ++ post, o.calm = true) (evs : List TW.Ev)
    (hall : ∀ e ∈ evs, FifoEv e) :
    (evs.foldl TW.step ((delayChain d pre post).step .sub)).log =
      (runChain (post.map Op1.init)
        ((feedEvs (pre.map Op1.init) evs).foldl TW.step ((Del.w₀ d).step .sub)).log).2 := by
  rw [← oneW_del]
  exact comp_sim _ rfl (Kind_del d) pre post hcalm evs hall

theorem del_order (d : Nat) (pre post : List Op1) (hcalm : ∀ o ∈ pre ++ post, o.calm = true) (evs : List TW.Ev)
    (hall : ∀ e ∈ evs, FifoEv e) :
    ∃ p, p <+: preOut pre evs ∧
      ((evs.foldl TW.step ((delayChain d pre post).step .sub)).log = (runChain (post.map Op1.init) p).2 ∨
       ∃ e, (preOut pre evs).getLast? = some (.error e) ∧
         (evs.foldl TW.step ((delayChain d pre post).step .sub)).log
           = (runChain (post.map Op1.init) (p ++ [.error e])).2) := by
  have hs := script_feedEvs (pre.map Op1.init) evs hall
  have hf := fifo_feedEvs (pre.map Op1.init) evs hall
  have hg : gate (preOut pre evs) = preOut pre evs := gate_of_WF (WF_preOut pre evs)
  obtain ⟨p, hp, h⟩ := Del.delay_order d _ hf
  rw [hs] at hp h
  change p <+: gate (preOut pre evs) at hp
  change _ ∨ ∃ e, (gate (preOut pre evs)).getLast? = _ ∧ _ at h
  rw [hg] at hp h
  refine ⟨p, hp, ?_⟩
  rw [del_sim d pre post hcalm evs hall]
  rcases h with h | ⟨e, h1, h2⟩
  · exact Or.inl (by rw [h])
  · exact Or.inr ⟨e, h1, by rw [h2]⟩

/-- The total clock advance of a history. -/
def clockOf : List TW.Ev → Nat
  | [] => 0
  | .adv k :: r => k + clockOf r
  | _ :: r => clockOf r

theorem ghost_fold_clock : ∀ (evs : List TW.Ev) (g : Del.Ghost),
    (evs.foldl Del.Ghost.step g).clock = g.clock + clockOf evs := by
  intro evs
  induction evs with
  | nil => intro g; rfl
  | cons e r ih =>
    intro g
    rw [List.foldl_cons, ih]
    cases e with
    | adv k => simp [Del.Ghost.step, clockOf, Nat.add_assoc]
    | emit i n =>
      simp only [Del.Ghost.step, clockOf]
      split
      · rfl
      · split <;> rfl
    | run => simp only [Del.Ghost.step, clockOf]; split <;> rfl
    | _ => rfl

theorem ghost_clock (evs : List TW.Ev) : (Del.ghost evs).clock = clockOf evs := by
  have := ghost_fold_clock evs {}
  simpa [Del.ghost] using this

theorem clockOf_append (a b : List TW.Ev) : clockOf (a ++ b) = clockOf a + clockOf b := by
  induction a with
  | nil => simp [clockOf]
  | cons e r ih => cases e <;> simp [clockOf, ih, Nat.add_assoc]

theorem clockOf_emits (mid : List Notif) : clockOf (mid.map (TW.Ev.emit 0)) = 0 := by
  induction mid with
  | nil => rfl
  | cons m r ih => simpa [clockOf] using ih

theorem clockOf_feed_fold (evs : List TW.Ev) : ∀ (f : FS),
    clockOf (evs.foldl FS.step f).out = clockOf f.out + clockOf evs := by
  induction evs with
  | nil => intro f; rfl
  | cons e r ih =>
    intro f
    rw [List.foldl_cons, ih]
    cases e with
    | adv k => simp [FS.step, clockOf, clockOf_append, Nat.add_assoc]
    | run => simp [FS.step, clockOf, clockOf_append]
    | emit i n =>
      simp only [FS.step, clockOf]
      split
      · simp [clockOf_append, clockOf_emits]
      · rfl
    | _ => rfl

/-- The feed keeps the clock advances where they are. -/
theorem clockOf_feedEvs (pre0 : List St1) (evs : List TW.Ev) : clockOf (feedEvs pre0 evs) = clockOf evs := by
  have := clockOf_feed_fold evs { ps := pre0 }
  simpa [feedEvs, feedSt, clockOf] using this

/-! ### closures for the non-vacuity examples -/

def exAdd1 : Val → Val
  | .int i => .int (i + 1)
  | v => v

def exAdd : Val → Val → Val
  | .int a, .int b => .int (a + b)
  | _, b => b

def exEven : Val → Bool
  | .int i => i % 2 == 0
  | _ => false

end Rx.T
