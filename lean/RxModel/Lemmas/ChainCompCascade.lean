import RxModel.Sched.Chain
import RxModel.Lemmas.ChainCompOps
/-
  C07C, part 1: the cascade of the chain model on the shape
  `pre (single-input observers) ++ T :: post (single-input observers)` where `T` is a
  scheduler-moving stage (`delay`, `observe_on`), in closed form — provided the fuel of
  `cascadeF` suffices (`St1.calm` stages: at most 501 notifications per notification).
-/
namespace Rx.T
open Rx Rx.Spec

/-! ### `fin` -/

theorem fin_op1_append (sts : List St1) (rest : List Stage) :
    fin (sts.map .op1 ++ rest) = (deadSt sts || fin rest) := by
  induction sts with
  | nil => simp [deadSt]
  | cons o os ih =>
    simp only [List.map_cons, List.cons_append, fin, ih, St1.finished_eq, deadSt, List.any_cons,
      Bool.or_assoc]

theorem fin_op1 (sts : List St1) : fin (sts.map .op1) = deadSt sts := by
  have := fin_op1_append sts []
  simpa [fin] using this

/-! ### scheduler-moving stages -/

def Stage.isMover : Stage → Bool
  | .delay _ _ _ => true
  | .observeOn _ _ => true
  | _ => false

/-- The slot of a mover. -/
def Stage.mAlive : Stage → Bool
  | .delay _ a _ => a
  | .observeOn a _ => a
  | _ => false

theorem Stage.fin_mover (T : Stage) (h : T.isMover = true) (r : List Stage) :
    fin (T :: r) = (!T.mAlive || fin r) := by
  cases T <;> simp_all [Stage.isMover, fin, Stage.mAlive]

theorem Stage.onNotif_mover (T : Stage) (h : T.isMover = true) (j : Nat) (n : Notif) (s : Sched) :
    (T.onNotif j n s).1.isMover = true ∧ (T.onNotif j n s).2.1.length ≤ 1 := by
  cases T with
  | delay d a m =>
    cases n with
    | error e => cases a <;> simp [Stage.onNotif, Stage.isMover]
    | next v => simp [Stage.onNotif, Stage.isMover]
    | complete => simp [Stage.onNotif, Stage.isMover]
  | observeOn a m => simp [Stage.onNotif, Stage.isMover]
  | _ => simp [Stage.isMover] at h

theorem Stage.afterEmit_mover (T : Stage) (h : T.isMover = true) (j : Nat) (s : Sched) :
    T.afterEmit j s = (T, s) := by
  cases T <;> simp_all [Stage.isMover, Stage.afterEmit]

/-- One notification arriving at the mover: the stage afterwards, what it has passed on so
    far (only `delay` passes anything on at once: an error), the scheduler. -/
def feedT (j : Nat) (x : Stage × List Notif × Sched) (m : Notif) : Stage × List Notif × Sched :=
  ((x.1.onNotif j m x.2.2).1, x.2.1 ++ (x.1.onNotif j m x.2.2).2.1, (x.1.onNotif j m x.2.2).2.2)

theorem feedT_acc (j : Nat) (mid : List Notif) : ∀ (T : Stage) (acc : List Notif) (s : Sched),
    mid.foldl (feedT j) (T, acc, s) =
      ((mid.foldl (feedT j) (T, [], s)).1, acc ++ (mid.foldl (feedT j) (T, [], s)).2.1,
       (mid.foldl (feedT j) (T, [], s)).2.2) := by
  induction mid with
  | nil => intro T acc s; simp
  | cons m r ih =>
    intro T acc s
    simp only [List.foldl_cons, feedT, List.nil_append]
    rw [ih _ (acc ++ _), ih _ ((T.onNotif j m s).2.1)]
    simp [List.append_assoc]

theorem feedT_mover (j : Nat) (mid : List Notif) : ∀ (T : Stage) (acc : List Notif) (s : Sched),
    T.isMover = true → (mid.foldl (feedT j) (T, acc, s)).1.isMover = true := by
  induction mid with
  | nil => intro T acc s h; exact h
  | cons m r ih =>
    intro T acc s h
    simp only [List.foldl_cons, feedT]
    exact ih _ _ _ (T.onNotif_mover h j m s).1

/-! ### the cascade -/

theorem cascadeF_nil_ns (f : Nat) (stages : List Stage) (j : Nat) (s : Sched) :
    cascadeF f stages j [] s = (stages, [], s) := by
  cases f with
  | zero => rfl
  | succ f => cases stages <;> rfl

/-- Single-input observers only: with enough fuel the cascade is `runChain`. -/
theorem cascadeF_op1 : ∀ (k : Nat) (sts : List St1), sts.length = k → calmSt sts →
    ∀ (ns : List Notif) (j : Nat) (s : Sched) (f : Nat), ns.length + k * 501 + 2 ≤ f →
    cascadeF f (sts.map .op1) j ns s = ((runChain sts ns).1.map .op1, (runChain sts ns).2, s) := by
  intro k
  induction k with
  | zero =>
    intro sts hk _ ns j s f hf
    have : sts = [] := List.eq_nil_of_length_eq_zero hk
    subst this
    obtain ⟨f', rfl⟩ : ∃ f', f = f' + 1 := ⟨f - 1, by omega⟩
    simp [cascadeF, runChain]
  | succ k ihk =>
    intro sts hk hc ns
    induction ns generalizing sts with
    | nil => intro j s f _; rw [cascadeF_nil_ns, runChain_nil_input]
    | cons n ns ihn =>
      intro j s f hf
      obtain ⟨o, os, rfl⟩ : ∃ o os, sts = o :: os := by
        cases sts with
        | nil => simp at hk
        | cons o os => exact ⟨o, os, rfl⟩
      obtain ⟨hco, hcos⟩ := calmSt_cons.mp hc
      have hlen : os.length = k := by simpa using hk
      obtain ⟨f', rfl⟩ : ∃ f', f = f' + 1 := ⟨f - 1, by omega⟩
      have hb := (o.calm_step n hco)
      simp only [List.length_cons] at hf
      have h1 := ihk os hlen hcos (o.step n).2 (j + 1) s f' (by omega)
      have hlen' : ((o.step n).1 :: (runChain os (o.step n).2).1).length = k + 1 := by
        simp [runChain_length, hlen]
      have hc' : calmSt ((o.step n).1 :: (runChain os (o.step n).2).1) :=
        calmSt_cons.mpr ⟨hb.1, calmSt_runChain _ _ hcos⟩
      have h2 := ihn _ hlen' hc' j s f' (by omega)
      simp only [List.map_cons] at h2
      simp only [List.map_cons, cascadeF, Stage.onNotif, h1, Stage.afterEmit, h2]
      rw [runChain_cons_cons]

theorem cascadeF_op1' (sts : List St1) (hc : calmSt sts) (ns : List Notif) (j : Nat) (s : Sched) (f : Nat)
    (hf : ns.length + sts.length * 501 + 2 ≤ f) :
    cascadeF f (sts.map .op1) j ns s = ((runChain sts ns).1.map .op1, (runChain sts ns).2, s) :=
  cascadeF_op1 sts.length sts rfl hc ns j s f hf

/-- A mover followed by single-input observers. -/
theorem cascadeF_mover : ∀ (mid : List Notif) (T : Stage), T.isMover = true →
    ∀ (postS : List St1), calmSt postS → ∀ (j : Nat) (s : Sched) (f : Nat),
    mid.length + (postS.length + 1) * 501 + 2 ≤ f →
    cascadeF f (T :: postS.map .op1) j mid s =
      ((mid.foldl (feedT j) (T, [], s)).1 ::
          (runChain postS (mid.foldl (feedT j) (T, [], s)).2.1).1.map .op1,
       (runChain postS (mid.foldl (feedT j) (T, [], s)).2.1).2,
       (mid.foldl (feedT j) (T, [], s)).2.2) := by
  intro mid
  induction mid with
  | nil => intro T _ postS _ j s f _; rw [cascadeF_nil_ns]; simp [runChain_nil_input]
  | cons m mid ih =>
    intro T hT postS hc j s f hf
    obtain ⟨f', rfl⟩ : ∃ f', f = f' + 1 := ⟨f - 1, by omega⟩
    simp only [List.length_cons] at hf
    have hm := T.onNotif_mover hT j m s
    have h1 := cascadeF_op1' postS hc (T.onNotif j m s).2.1 (j + 1) (T.onNotif j m s).2.2 f' (by omega)
    have h2 := ih (T.onNotif j m s).1 hm.1 (runChain postS (T.onNotif j m s).2.1).1
      (calmSt_runChain _ _ hc) j (T.onNotif j m s).2.2 f' (by rw [runChain_length]; omega)
    simp only [cascadeF, h1, Stage.afterEmit_mover _ hm.1, h2]
    simp only [List.foldl_cons, feedT, List.nil_append]
    rw [feedT_acc j mid _ ((T.onNotif j m s).2.1), runChain_append]

/-- The whole shape. -/
theorem cascadeF_comp : ∀ (k : Nat) (preS : List St1), preS.length = k → calmSt preS →
    ∀ (ns : List Notif) (T : Stage), T.isMover = true → ∀ (postS : List St1), calmSt postS →
    ∀ (j : Nat) (s : Sched) (f : Nat), ns.length + (k + postS.length + 1) * 501 + 2 ≤ f →
    cascadeF f (preS.map .op1 ++ T :: postS.map .op1) j ns s =
      ((runChain preS ns).1.map .op1 ++
          ((runChain preS ns).2.foldl (feedT (j + k)) (T, [], s)).1 ::
          (runChain postS ((runChain preS ns).2.foldl (feedT (j + k)) (T, [], s)).2.1).1.map .op1,
       (runChain postS ((runChain preS ns).2.foldl (feedT (j + k)) (T, [], s)).2.1).2,
       ((runChain preS ns).2.foldl (feedT (j + k)) (T, [], s)).2.2) := by
  intro k
  induction k with
  | zero =>
    intro preS hk _ ns T hT postS hc j s f hf
    have : preS = [] := List.eq_nil_of_length_eq_zero hk
    subst this
    rw [Nat.zero_add] at hf
    have := cascadeF_mover ns T hT postS hc j s f hf
    simpa [runChain] using this
  | succ k ihk =>
    intro preS hk hcp ns
    induction ns generalizing preS with
    | nil =>
      intro T _ postS _ j s f _
      rw [cascadeF_nil_ns, runChain_nil_input]
      simp [runChain_nil_input]
    | cons n ns ihn =>
      intro T hT postS hc j s f hf
      obtain ⟨o, os, rfl⟩ : ∃ o os, preS = o :: os := by
        cases preS with
        | nil => simp at hk
        | cons o os => exact ⟨o, os, rfl⟩
      obtain ⟨hco, hcos⟩ := calmSt_cons.mp hcp
      have hlen : os.length = k := by simpa using hk
      obtain ⟨f', rfl⟩ : ∃ f', f = f' + 1 := ⟨f - 1, by omega⟩
      have hb := (o.calm_step n hco)
      simp only [List.length_cons] at hf
      -- the first notification, through the tail of `pre`, the mover and `post`
      have h1 := ihk os hlen hcos (o.step n).2 T hT postS hc (j + 1) s f' (by omega)
      -- abbreviations for the state after it
      generalize hx1 : (runChain os (o.step n).2).2.foldl (feedT (j + 1 + k)) (T, [], s) = x1 at h1
      have hT1 : x1.1.isMover = true := by rw [← hx1]; exact feedT_mover _ _ _ _ _ hT
      have hlen' : ((o.step n).1 :: (runChain os (o.step n).2).1).length = k + 1 := by
        simp [runChain_length, hlen]
      have hc' : calmSt ((o.step n).1 :: (runChain os (o.step n).2).1) :=
        calmSt_cons.mpr ⟨hb.1, calmSt_runChain _ _ hcos⟩
      have h2 := ihn _ hlen' hc' x1.1 hT1 (runChain postS x1.2.1).1 (calmSt_runChain _ _ hc) j x1.2.2 f'
        (by rw [runChain_length]; omega)
      simp only [List.map_cons, List.cons_append] at h2
      simp only [List.map_cons, List.cons_append, cascadeF, Stage.onNotif, h1, Stage.afterEmit, h2]
      rw [runChain_cons_cons]
      simp only [List.foldl_append]
      have e : j + 1 + k = j + (k + 1) := by omega
      rw [e] at hx1
      rw [hx1, feedT_acc (j + (k + 1)) _ x1.1 x1.2.1 x1.2.2, runChain_append]

end Rx.T
