import RxModel.Lemmas.ChainRetireSched
/-
  C16 over the chain model, part 3: the executor's own moves (`fire`, the clock,
  `pollPre`, and what follows a body: `finishOnce`, `continueRepeat`,
  `stayPending`) keep `SInvX`.
-/
namespace Rx.T
open Rx

theorem setTimer_get (s : Sched) (i : TimerId) (t1 : Timer) (j : Nat) (t0 : Timer)
    (h : s.timers[i]? = some t0) :
    (s.setTimer i t1).timers[j]? = if i = j then some t1 else s.timers[j]? := by
  simp only [Sched.setTimer, List.getElem?_set]
  by_cases e : i = j
  · subst e; simp [Sched.get_lt h]
  · simp [e]

/-- Change the flags of one timer. -/
theorem SInvX.setTimer {src x} {s : Sched} (h : SInvX src x s) {i : TimerId} {t0 t1 : Timer}
    (hi : s.timers[i]? = some t0) (hdur : t1.dur = t0.dur) (hdue : t1.due = t0.due)
    (hown : t1.owner = t0.owner) (hf : t0.fired = true → t1.fired = true)
    (hc : ∀ (u : Task) (iv seq : Nat), s.tasks[t0.owner]? = some u → u.rep = some (i, iv, seq) →
      u.done = false → x ≠ some t0.owner →
      (u.woken = true ∨ (t0.registered = true ∧ t0.fired = false)) →
      u.woken = true ∨ (t1.registered = true ∧ t1.fired = false)) :
    SInvX src x (s.setTimer i t1) := by
  have get : ∀ j t', (s.setTimer i t1).timers[j]? = some t' →
      (j = i ∧ t' = t1) ∨ (j ≠ i ∧ s.timers[j]? = some t') := by
    intro j t' ht'
    rw [setTimer_get s i t1 j t0 hi] at ht'
    by_cases e : i = j
    · subst e; simp at ht'; exact Or.inl ⟨rfl, ht'.symm⟩
    · rw [if_neg e] at ht'; exact Or.inr ⟨fun e' => e e'.symm, ht'⟩
  refine ⟨h.bodies, ?_, ?_, ?_, ?_, h.async, h.tickRep⟩
  · intro k u fur iv seq hu hrep
    obtain ⟨a, b, tm, c, d, e, f⟩ := h.rep k u fur iv seq hu hrep
    by_cases efi : i = fur
    · subst efi
      rw [hi] at c; cases c
      refine ⟨a, b, t1, by rw [setTimer_get s i t1 i _ hi]; simp, hown.trans d, ?_, ?_⟩
      · intro hd hx
        subst d
        exact hc u iv seq hu hrep hd hx (e hd hx)
      · intro hb; rw [hdur]; exact f hb
    · exact ⟨a, b, tm, by rw [setTimer_get s i t1 fur t0 hi, if_neg efi]; exact c, d, e, f⟩
  · intro j t' ht'
    rcases get j t' ht' with ⟨_, rfl⟩ | ⟨_, h'⟩
    · rw [hdur, hdue]; exact h.due i t0 hi
    · exact h.due j t' h'
  · intro j t' u fur iv seq ht' hfired hu hrep
    rcases get j t' ht' with ⟨rfl, rfl⟩ | ⟨_, h'⟩
    · have hf0 : t0.fired = false := by
        cases e : t0.fired with
        | false => rfl
        | true => rw [hf e] at hfired; cases hfired
      rw [hown] at hu
      exact h.cur _ t0 u fur iv seq hi hf0 hu hrep
    · exact h.cur j t' u fur iv seq h' hfired hu hrep
  · intro j t' ht'
    rcases get j t' ht' with ⟨_, rfl⟩ | ⟨_, h'⟩
    · rw [hown]; exact h.own i t0 hi
    · exact h.own j t' h'

theorem SInvX.registerTimer {src x} {s : Sched} (h : SInvX src x s) (i : TimerId) :
    SInvX src x (s.registerTimer i) := by
  unfold Sched.registerTimer
  cases hi : s.timers[i]? with
  | none => exact h
  | some t0 =>
    refine h.setTimer hi rfl rfl rfl id ?_
    intro u iv seq _ _ _ _ hw
    rcases hw with hw | hw
    · exact Or.inl hw
    · exact Or.inr ⟨rfl, hw.2⟩

/-- Append a timer awaited by a task that is not a RepeatTask. -/
theorem SInvX.newTimer {src x} {s : Sched} (h : SInvX src x s) (d : Nat) {k : TaskId} {t : Task}
    (hk : s.tasks[k]? = some t) (hr : t.rep = none) : SInvX src x (s.newTimer d k).1 := by
  let tm0 : Timer := { dur := d, due := s.now + d, owner := k }
  have gett : ∀ i tm, (s.newTimer d k).1.timers[i]? = some tm →
      s.timers[i]? = some tm ∨ (i = s.timers.length ∧ tm = tm0) :=
    fun i tm hi => get?_append_single _ _ _ _ hi
  refine ⟨h.bodies, ?_, ?_, ?_, ?_, h.async, h.tickRep⟩
  · intro j u fur iv seq hu hrep
    obtain ⟨a, b, tm, c, d', e, f⟩ := h.rep j u fur iv seq hu hrep
    exact ⟨a, b, tm, get?_append_old _ _ c, d', e, f⟩
  · intro i tm hi
    rcases gett i tm hi with h' | ⟨_, rfl⟩
    · exact h.due i tm h'
    · exact Nat.le_refl _
  · intro i tm u fur iv seq hi hf hu hrep
    rcases gett i tm hi with h' | ⟨_, rfl⟩
    · exact h.cur i tm u fur iv seq h' hf hu hrep
    · have hu' : s.tasks[k]? = some u := hu
      rw [hk] at hu'; cases hu'
      rw [hr] at hrep; cases hrep
  · intro i tm hi
    rcases gett i tm hi with h' | ⟨_, rfl⟩
    · exact h.own i tm h'
    · exact Sched.get_lt hk

theorem fire_eq (s : Sched) (tm : TimerId) (t : Timer) (ht : s.timers[tm]? = some t) :
    s.fire tm =
      (if t.registered then
        (match s.tasks[t.owner]? with
          | some tk => s.setTask t.owner { tk with woken := true }
          | none => s)
       else s).setTimer tm { t with fired := true } := by
  unfold Sched.fire
  rw [ht]
  simp only [Sched.setTimer_tasks]
  cases t.registered with
  | false => rfl
  | true =>
    simp only [if_true]
    cases s.tasks[t.owner]? with
    | none => rfl
    | some tk => rfl

theorem SInvX.wake {src x} {s : Sched} (h : SInvX src x s) (k : TaskId) :
    SInvX src x (match s.tasks[k]? with
      | some tk => s.setTask k { tk with woken := true }
      | none => s) := by
  cases hk : s.tasks[k]? with
  | none => exact h
  | some tk =>
    exact h.setTask hk rfl rfl (fun _ => id) (fun _ => id) (fun _ _ hh => hh) (fun _ _ _ _ _ _ _ _ => Or.inl rfl)

theorem SInvX.fire {src x} {s : Sched} (h : SInvX src x s) (tm : TimerId) : SInvX src x (s.fire tm) := by
  cases ht : s.timers[tm]? with
  | none => unfold Sched.fire; rw [ht]; exact h
  | some t =>
    rw [fire_eq s tm t ht]
    cases hreg : t.registered with
    | false =>
      simp only [Bool.false_eq_true, if_false]
      refine h.setTimer ht rfl rfl rfl (fun _ => rfl) ?_
      intro u iv seq _ _ _ _ hw
      rcases hw with hw | hw
      · exact Or.inl hw
      · rw [hreg] at hw; cases hw.1
    | true =>
      simp only [if_true]
      have h1 := h.wake t.owner
      have ht1 : (match s.tasks[t.owner]? with
          | some tk => s.setTask t.owner { tk with woken := true }
          | none => s).timers[tm]? = some t := by
        cases s.tasks[t.owner]? <;> exact ht
      refine h1.setTimer ht1 rfl rfl rfl (fun _ => rfl) ?_
      intro u iv seq hu _ _ _ _
      left
      cases hk : s.tasks[t.owner]? with
      | none => rw [hk] at hu; simp only at hu; rw [hk] at hu; cases hu
      | some tk =>
        rw [hk] at hu; simp only at hu
        rw [Sched.setTask_get_self _ _ _ _ hk] at hu
        cases hu; rfl

theorem SInvX.fireAll {src x} (l : List TimerId) : ∀ {s : Sched}, SInvX src x s →
    SInvX src x (l.foldl Sched.fire s) := by
  induction l with
  | nil => intro s h; exact h
  | cons a r ih => intro s h; exact ih (h.fire a)

theorem SInvX.adv {src x} {s : Sched} (h : SInvX src x s) (d : Nat) :
    SInvX src x { s with now := s.now + d } :=
  ⟨h.bodies, h.rep, fun i tm hi => Nat.le_trans (h.due i tm hi) (by simp only; omega), h.cur, h.own, h.async,
    h.tickRep⟩

theorem SInvX.finishOnce {src} {s : Sched} {k : TaskId} (h : SInvX src (some k) s) :
    SInvX src none (s.finishOnce k) := by
  unfold Sched.finishOnce
  cases hk : s.tasks[k]? with
  | none =>
    refine { h with rep := ?_ }
    intro j u fur iv seq hu hrep
    obtain ⟨a, b, tm, c, d, e, f⟩ := h.rep j u fur iv seq hu hrep
    refine ⟨a, b, tm, c, d, fun hd _ => e hd ?_, f⟩
    intro e'; cases e'; rw [hk] at hu; cases hu
  | some t =>
    refine h.setTask hk rfl rfl (fun _ => id) (fun _ => id) ?_ ?_
    · intro j hne _ e; cases e; exact hne rfl
    · intro _ _ _ _ _ _ hd; cases hd

theorem SInvX.stayPending {src} {s : Sched} {k : TaskId} (h : SInvX src none s) (wk : Bool)
    (hr : ∀ t, s.tasks[k]? = some t → t.rep = none) : SInvX src none (s.stayPending k wk) := by
  unfold Sched.stayPending
  cases hk : s.tasks[k]? with
  | none => exact h
  | some t =>
    refine h.setTask hk rfl rfl (fun _ => id) (fun _ => id) (fun _ _ hh => hh) ?_
    intro fur iv seq tm hrep
    rw [hr t hk] at hrep; cases hrep

/-- A tick that answered `true`: fresh period timer, polled at once. -/
theorem SInvX.continueRepeat {src} {s : Sched} {k : TaskId} {t : Task} {fur iv seq : Nat}
    (h : SInvX src (some k) s) (hk : s.tasks[k]? = some t) (hrep : t.rep = some (fur, iv, seq))
    (hfired : s.timerFired fur = true) : SInvX src none (s.continueRepeat k) := by
  obtain ⟨hod, hot, tmf, htmf, hown, _, hbound⟩ := h.rep k t fur iv seq hk hrep
  have hff : tmf.fired = true := by
    unfold Sched.timerFired at hfired; rw [htmf] at hfired; exact hfired
  let tm0 : Timer := { dur := iv, due := s.now + iv, owner := k, registered := true }
  let t1 : Task := { t with rep := some (s.timers.length, iv, seq + 1) }
  have hs : s.continueRepeat k =
      { now := s.now, timers := s.timers ++ [tm0], tasks := s.tasks.set k t1 } := by
    unfold Sched.continueRepeat
    rw [hk]; simp only [hrep]
    simp only [Sched.newTimer, Sched.registerTimer, Sched.setTask, Sched.setTimer]
    simp
    exact ⟨rfl, rfl⟩
  rw [hs]
  have get : ∀ j u, (s.tasks.set k t1)[j]? = some u → (j = k ∧ u = t1) ∨ (j ≠ k ∧ s.tasks[j]? = some u) := by
    intro j u hu
    rw [List.getElem?_set] at hu
    by_cases e : k = j
    · subst e; rw [if_pos rfl, if_pos (Sched.get_lt hk)] at hu; cases hu; exact Or.inl ⟨rfl, rfl⟩
    · rw [if_neg e] at hu; exact Or.inr ⟨fun e' => e e'.symm, hu⟩
  have gett : ∀ i tm, (s.timers ++ [tm0])[i]? = some tm →
      s.timers[i]? = some tm ∨ (i = s.timers.length ∧ tm = tm0) :=
    fun i tm hi => get?_append_single _ _ _ _ hi
  refine ⟨?_, ?_, ?_, ?_, ?_, ?_, ?_⟩
  rotate_left 6
  · intro j u hu hbt
    rcases get j u hu with ⟨_, rfl⟩ | ⟨_, h'⟩
    · simp [t1]
    · exact h.tickRep j u h' hbt
  · intro j u hu
    rcases get j u hu with ⟨_, rfl⟩ | ⟨_, h'⟩
    · exact h.bodies k t hk
    · exact h.bodies j u h'
  · intro j u fur' iv' seq' hu hrep'
    rcases get j u hu with ⟨rfl, rfl⟩ | ⟨hne, h'⟩
    · simp only [t1, Option.some.injEq, Prod.mk.injEq] at hrep'
      obtain ⟨rfl, rfl, rfl⟩ := hrep'
      refine ⟨hod, hot, tm0, by simp, rfl, fun _ _ => Or.inr ⟨rfl, rfl⟩, ?_⟩
      intro hb
      exact ⟨(hbound hb).1, (hbound hb).1⟩
    · obtain ⟨a, b, tm, c, d, e, f⟩ := h.rep j u fur' iv' seq' h' hrep'
      refine ⟨a, b, tm, get?_append_old _ _ c, d, fun hd _ => e hd ?_, f⟩
      intro e'; cases e'; exact hne rfl
  · intro i tm hi
    rcases gett i tm hi with h' | ⟨_, rfl⟩
    · exact h.due i tm h'
    · exact Nat.le_refl _
  · intro i tm u fur' iv' seq' hi hf hu hrep'
    rcases gett i tm hi with h' | ⟨e, rfl⟩
    · rcases get _ u hu with ⟨eo, rfl⟩ | ⟨_, h''⟩
      · -- an old unfired timer owned by `k` would be `fur`, which has fired
        have := h.cur i tm t fur iv seq h' hf (by rw [eo]; exact hk) hrep
        subst this
        rw [htmf] at h'; cases h'
        rw [hff] at hf; cases hf
      · exact h.cur i tm u fur' iv' seq' h' hf h'' hrep'
    · rcases get _ u hu with ⟨_, rfl⟩ | ⟨hne, _⟩
      · simp only [t1, Option.some.injEq, Prod.mk.injEq] at hrep'
        rw [e]; exact hrep'.1
      · exact absurd rfl hne
  · intro i tm hi
    simp only [List.length_set]
    rcases gett i tm hi with h' | ⟨_, rfl⟩
    · exact h.own i tm h'
    · exact Sched.get_lt hk
  · intro j u hu ha
    rcases get j u hu with ⟨_, rfl⟩ | ⟨_, h'⟩
    · have := (h.async k t hk ha).1
      rw [hrep] at this; cases this
    · exact h.async j u h' ha

/-- The scheduler part of a poll.  Only a RepeatTask whose tick is about to run
    is left outside the invariant. -/
theorem SInvX.pollPre {src} {s : Sched} (h : SInvX src none s) (k : TaskId) :
    SInvX src (match (s.pollPre k).2 with | .runTick _ _ => some k | _ => none) (s.pollPre k).1 := by
  refine Sched.pollPre_elim s k (motive := fun r =>
    SInvX src (match r.2 with | .runTick _ _ => some k | _ => none) r.1) ?_ ?_ ?_ ?_ ?_ ?_ ?_ ?_
  · intro _; exact h
  · intro _ _ _; exact h
  · intro t ht _ _
    exact h.setTask ht rfl rfl (fun _ => id) (fun _ => id) (fun _ _ hh => hh) (fun _ _ _ _ _ _ hd => by cases hd)
  · intro t d ht _ _ hod
    have hr : t.rep = none := by
      cases e : t.rep with
      | none => rfl
      | some r =>
        obtain ⟨fur, iv, seq⟩ := r
        have := (h.rep k t fur iv seq ht e).1
        rw [hod] at this; cases this
    have h1 := (h.newTimer d ht hr).registerTimer s.timers.length
    have ht1 : ((s.newTimer d k).1.registerTimer s.timers.length).tasks[k]? = some t := by
      simpa using ht
    refine h1.setTask ht1 rfl rfl (fun _ _ => rfl) ?_ (fun _ _ hh => hh) ?_
    · intro hsp _
      exfalso
      rcases hsp with hsp | hsp
      · exact hsp hr
      · have := (h.async k t ht hsp).2.1
        rw [hod] at this; cases this
    · intro fur iv seq tm hrep; rw [hr] at hrep; cases hrep
  · intro t tm ht _ _ _ hot _
    have hr : t.rep = none := by
      cases e : t.rep with
      | none => rfl
      | some r =>
        obtain ⟨fur, iv, seq⟩ := r
        have := (h.rep k t fur iv seq ht e).2.1
        rw [hot] at this; cases this
    have h1 := h.registerTimer tm
    have ht1 : (s.registerTimer tm).tasks[k]? = some t := by simpa using ht
    exact h1.setTask ht1 rfl rfl (fun _ => id) (fun _ => id) (fun _ _ hh => hh)
      (fun fur iv seq _ hrep => by rw [hr] at hrep; cases hrep)
  · intro t ht _ _ _ _ hr
    exact h.setTask ht rfl rfl (fun _ => id) (fun _ _ => rfl) (fun _ _ hh => hh)
      (fun fur iv seq _ hrep => by rw [hr] at hrep; cases hrep)
  · intro t fur iv seq ht _ _ _ _ hrep hnf
    have h1 := h.registerTimer fur
    have ht1 : (s.registerTimer fur).tasks[k]? = some t := by simpa using ht
    refine h1.setTask ht1 rfl rfl (fun _ => id) (fun _ _ => rfl) (fun _ _ hh => hh) ?_
    intro fur' iv' seq' tm' hrep' htm' _ _
    rw [hrep] at hrep'; cases hrep'
    right
    rw [Sched.registerTimer_get] at htm'
    cases hf : s.timers[fur]? with
    | none => rw [hf] at htm'; cases htm'
    | some tf =>
      rw [hf] at htm'; simp only [Option.map_some, if_true, Option.some.injEq] at htm'
      subst htm'
      refine ⟨rfl, ?_⟩
      unfold Sched.timerFired at hnf; rw [hf] at hnf; exact hnf
  · intro t fur iv seq ht _ _ _ _ hrep _
    refine h.setTask ht rfl rfl (fun _ => id) (fun _ _ => rfl) ?_ ?_
    · intro j _ _ e; cases e
    · intro _ _ _ _ _ _ _ hx; exact absurd rfl hx

end Rx.T
