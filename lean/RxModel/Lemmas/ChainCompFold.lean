import RxModel.Lemmas.ChainCompStep
/-
  C07C, part 7: every FIFO history keeps `MainInv`; the simulation theorem.
-/
set_option linter.unusedSimpArgs false
namespace Rx.T
open Rx Rx.Spec

theorem MainInv.step {w0s : TW} (K : Kind w0s) (pre : List Op1) (post0 : List St1) (hc : calmSt post0)
    (j : Nat) (evs : List TW.Ev) (hall : ∀ e ∈ evs, FifoEv e) (W : TW) (e : TW.Ev) (he : FifoEv e)
    (h : MainInv (pre.map Op1.init) post0 j w0s evs W) :
    MainInv (pre.map Op1.init) post0 j w0s (evs ++ [e]) (W.step e) := by
  have hF := FSI_feed (pre.map Op1.init) evs hall
  unfold MainInv feedEvs at h ⊢
  rw [feedSt_snoc]
  rcases h with ⟨base, preS, rfl, hsrc, hsub, hterm, hopen, hj, hcp⟩ |
      ⟨base, preS, evsA, L0, rfl, hA, hsrc, hterm, hT, h1, h2, hd, hj⟩
  · rcases MainInv.stepA K pre post0 hc j _ _ hF e he base preS hsrc hsub hterm hopen hj hcp with
      ⟨base', preS', e1, h1, h2, h3, h4, h5, h6⟩ | ⟨base', L0, e1, h1, h2, h3, h4, h5, h6⟩
    · exact Or.inl ⟨base', preS', e1, h1, h2, h3, h4, h5, h6⟩
    · exact Or.inr ⟨base', preS, _, L0, e1, hF.fifo, h1, h2, h3, h4, h5, h6, hj⟩
  · obtain ⟨base', evsA', e1, g1, g2, g3, g4, g5, g6⟩ :=
      MainInv.stepB K post0 hc j _ hF.fifo e he base preS evsA L0 hA hsrc hterm hT h1 h2 hj
    exact Or.inr ⟨base', preS, evsA', L0, e1, g1, g2, g3, g4, g5, g6, hd, hj⟩

theorem MainInv.fold {w0s : TW} (K : Kind w0s) (pre : List Op1) (post0 : List St1) (hc : calmSt post0)
    (j : Nat) : ∀ (more evs : List TW.Ev) (W : TW), (∀ e ∈ evs, FifoEv e) → (∀ e ∈ more, FifoEv e) →
    MainInv (pre.map Op1.init) post0 j w0s evs W →
    MainInv (pre.map Op1.init) post0 j w0s (evs ++ more) (more.foldl TW.step W) := by
  intro more
  induction more with
  | nil => intro evs W _ _ h; simpa using h
  | cons e r ih =>
    intro evs W h1 h2 h
    have he := h2 e (List.mem_cons_self ..)
    have := ih (evs ++ [e]) (W.step e) (fifo_append h1 (fifo_single he))
      (fun x hx => h2 x (List.mem_cons_of_mem _ hx)) (MainInv.step K pre post0 hc j evs h1 W e he h)
    simpa [List.append_assoc] using this

theorem MainInv.init (pre0 post0 : List St1) (T : Stage) (hT : T.isMover = true) (hcp : calmSt pre0) :
    MainInv pre0 post0 pre0.length (oneW T) [] ((chainW pre0 T post0).step .sub) := by
  refine Or.inl ⟨_, pre0, chainW_sub_lift pre0 T hT post0, rfl, rfl, rfl, fun _ => ⟨rfl, rfl⟩, rfl, hcp⟩

/-- The simulation theorem: for every FIFO history the probe log of `pre ++ [T] ++ post` is what
    `post` makes of the probe log of the one-stage world `[T]` driven by `feedEvs pre evs`. -/
theorem comp_sim (T : Stage) (hT : T.isMover = true) (K : Kind (oneW T)) (pre post : List Op1)
    (hcalm : ∀ o ∈ pre ++ post, o.calm = true) (evs : List TW.Ev) (hall : ∀ e ∈ evs, FifoEv e) :
    (evs.foldl TW.step ((chainW (pre.map Op1.init) T (post.map Op1.init)).step .sub)).log =
      (runChain (post.map Op1.init) ((feedEvs (pre.map Op1.init) evs).foldl TW.step (oneW T)).log).2 := by
  have hcp : calmSt (pre.map Op1.init) := calmSt_init pre (fun o ho => hcalm o (List.mem_append_left _ ho))
  have hc : calmSt (post.map Op1.init) := calmSt_init post (fun o ho => hcalm o (List.mem_append_right _ ho))
  have h0 := MainInv.init (pre.map Op1.init) (post.map Op1.init) T hT hcp
  have := MainInv.fold K pre (post.map Op1.init) hc _ evs [] _ (by simp) hall h0
  simpa using this.log

/-- The script of the feed: what `pre` outputs for the gated source script. -/
theorem script_feedEvs (pre0 : List St1) (evs : List TW.Ev) (hall : ∀ e ∈ evs, FifoEv e) :
    script (feedEvs pre0 evs) = (runChain pre0 (gate (script evs))).2 :=
  (FSI_feed pre0 evs hall).out

theorem fifo_feedEvs (pre0 : List St1) (evs : List TW.Ev) (hall : ∀ e ∈ evs, FifoEv e) :
    ∀ e ∈ feedEvs pre0 evs, FifoEv e :=
  (FSI_feed pre0 evs hall).fifo

theorem feedEvs_snoc_run (pre0 : List St1) (evs : List TW.Ev) :
    feedEvs pre0 (evs ++ [TW.Ev.run]) = feedEvs pre0 evs ++ [TW.Ev.run] := by
  simp [feedEvs, feedSt_snoc, FS.step]

end Rx.T
