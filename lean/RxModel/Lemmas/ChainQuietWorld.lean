import RxModel.Lemmas.ChainQuietCascade
/-
  C02 / C17 over the chain model, part 6: world level.  `GoodW`, the frame `Fr`
  of the operations that only push notifications, `TW.push`, `TW.pushB`.
-/
namespace Rx.T
open Rx

def GoodW (r : Option TaskId) (w : TW) : Prop := Good r w.info w.stages w.sched
def ReachedW (r : Option TaskId) (w : TW) (l : Nat) : Prop := Reached r w.stages w.sched l

/-- Flags and source kind stay. -/
structure Fl (w w' : TW) : Prop where
  subscribed : w'.subscribed = w.subscribed
  unsubscribed : w'.unsubscribed = w.unsubscribed
  src : w'.src = w.src

theorem Fl.refl (w : TW) : Fl w w := ⟨rfl, rfl, rfl⟩
theorem Fl.trans {a b c : TW} (h1 : Fl a b) (h2 : Fl b c) : Fl a c :=
  ⟨h2.1.trans h1.1, h2.2.trans h1.2, h2.3.trans h1.3⟩

/-- What an operation that only pushes notifications keeps. -/
structure Fr (w w' : TW) : Prop where
  subH : w'.stages.map Stage.subH = w.stages.map Stage.subH
  n2 : w'.stages.map Stage.n2 = w.stages.map Stage.n2
  keep : SubKeep w.sched w'.sched
  info : w'.info = w.info
  fl : Fl w w'

theorem Fr.refl (w : TW) : Fr w w := ⟨rfl, rfl, SubKeep.refl _, rfl, Fl.refl _⟩
theorem Fr.trans {a b c : TW} (h1 : Fr a b) (h2 : Fr b c) : Fr a c :=
  ⟨h2.subH.trans h1.subH, h2.n2.trans h1.n2, h1.keep.trans h2.keep, h2.info.trans h1.info,
    h1.fl.trans h2.fl⟩

theorem Fr.len {w w' : TW} (h : Fr w w') : w'.stages.length = w.stages.length := by
  have := congrArg List.length h.subH
  simpa using this

theorem ReachedW.frame {r : Option TaskId} {w w' : TW} {l : Nat} (hr : ReachedW r w l)
    (g : GoodW r w) (f : Fr w w') : ReachedW r w' l :=
  Reached.frame hr g f.subH f.keep

theorem map_get {α β} (f : α → β) {l l' : List α} (h : l'.map f = l.map f) (i : Nat) :
    (l'[i]?).map f = (l[i]?).map f := by
  rw [← List.getElem?_map, ← List.getElem?_map, h]

/-- The notifier part of stage `i` is kept. -/
theorem Fr.n2_get {w w' : TW} (f : Fr w w') {i : Nat} {st : Stage} (h : w.stages[i]? = some st) :
    ∃ st', w'.stages[i]? = some st' ∧ st'.n2 = st.n2 := by
  have := map_get Stage.n2 f.n2 i
  rw [h] at this
  cases h' : w'.stages[i]? with
  | none => rw [h'] at this; simp at this
  | some st' => rw [h'] at this; simp at this; exact ⟨st', rfl, this⟩

theorem push_eq (w : TW) (j : Nat) (ns : List Notif) :
    w.push j ns =
      { w with stages := w.stages.take j ++ (cascade (w.stages.drop j) j ns w.sched).1,
               sched := (cascade (w.stages.drop j) j ns w.sched).2.2,
               log := w.log ++ (cascade (w.stages.drop j) j ns w.sched).2.1 } := rfl

theorem push_low (w : TW) (j : Nat) (ns : List Notif) (i : Nat) (hi : i < j) :
    (w.push j ns).stages[i]? = w.stages[i]? := by
  rw [push_eq]; simp only
  by_cases hl : i < w.stages.length
  · rw [List.getElem?_append_left (by simp; omega)]
    rw [List.getElem?_take_of_lt hi]
  · have hl' : w.stages.length ≤ i := Nat.le_of_not_lt hl
    by_cases hjl : j ≤ w.stages.length
    · omega
    · have : w.stages.drop j = [] := List.drop_eq_nil_of_le (by omega)
      rw [this]
      simp [cascade, cascadeF]
      rw [List.take_of_length_le (by omega)]

theorem push_good {r : Option TaskId} {w : TW} (j : Nat) (ns : List Notif) (g : GoodW r w)
    (hr : ReachedW r w j) : GoodW r (w.push j ns) ∧ Fr w (w.push j ns) := by
  by_cases hjl : j ≤ w.stages.length
  · have hlen : (w.stages.take j).length = j := by simp; omega
    have hsplit : w.stages.take j ++ w.stages.drop j = w.stages := List.take_append_drop _ _
    have h := cascadeF_good (r := r) (a := w.info)
      ((w.stages.drop j).length.succ * (ns.length + 8) * 64 + 1000)
      (w.stages.take j) (w.stages.drop j) ns w.sched
      (by rw [hsplit]; exact g) (by rw [hsplit, hlen]; exact hr)
    rw [hlen] at h
    obtain ⟨g1, f1⟩ := h
    rw [push_eq]
    refine ⟨g1, ?_, ?_, f1.keep, rfl, ⟨rfl, rfl, rfl⟩⟩
    · show (w.stages.take j ++ _).map Stage.subH = _
      rw [List.map_append]
      show _ ++ (cascadeF _ _ _ _ _).1.map Stage.subH = _
      rw [f1.subH, ← List.map_append, hsplit]
    · show (w.stages.take j ++ _).map Stage.n2 = _
      rw [List.map_append]
      show _ ++ (cascadeF _ _ _ _ _).1.map Stage.n2 = _
      rw [f1.n2, ← List.map_append, hsplit]
  · have hd : w.stages.drop j = [] := List.drop_eq_nil_of_le (by omega)
    have ht : w.stages.take j = w.stages := List.take_of_length_le (by omega)
    rw [push_eq, hd, ht]
    simp only [cascade, cascadeF, List.append_nil]
    exact ⟨g, rfl, rfl, SubKeep.refl _, rfl, ⟨rfl, rfl, rfl⟩⟩

end Rx.T
