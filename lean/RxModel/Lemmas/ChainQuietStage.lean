import RxModel.Lemmas.ChainQuietGood
/-
  C02 / C17 over the chain model, part 3: `Good` and one notification arriving at
  one stage (`Stage.onNotif`, `Stage.afterEmit`).
-/
namespace Rx.T
open Rx

theorem set_get_self {α} (l : List α) (j : Nat) (x y : α) (h : l[j]? = some x) :
    (l.set j y)[j]? = some y := by
  rw [List.getElem?_set_self (Sched.get_lt h)]

theorem set_get_ne {α} (l : List α) (j i : Nat) (y : α) (h : i ≠ j) :
    (l.set j y)[i]? = l[i]? := by
  rw [List.getElem?_set_ne (Ne.symm h)]

/-- One stage changes, one task is spawned for it. -/
theorem Good.stage_spawn {r : Option TaskId} {a : Info} {stages : List Stage} {s s' : Sched}
    {j : Nat} {st st1 : Stage} {t : Task}
    (g : Good r a stages s)
    (hj : stages[j]? = some st)
    (hs : s'.tasks = s.tasks ++ [t])
    (hd : t.done = false) (hv : t.hasValue = false) (hl : t.body.level = j + 1)
    (hb : t.body.isSub = st1.isSubOn)
    (hown : s.tasks.length ∈ st1.handles)
    (hsub : ∀ h : Nat, h ∈ st1.handles → h ∈ st.handles ∨ h = s.tasks.length)
    (hkeep : ∀ h : Nat, h ∈ st.handles → ∀ t : Task, s.tasks[h]? = some t → t.live = true → h ∈ st1.handles)
    (hsubOn : st1.isSubOn = st.isSubOn)
    (hwf : st1.wf)
    (hr : Reached r stages s (j + 1))
    (hsubH : st1.subH = st.subH ∨ PristineBelow a stages j) :
    Good r a (stages.set j st1) s' := by
  refine g.stage (new := [t]) hj (set_get_self _ _ _ _ hj) (fun i hi => set_get_ne _ _ _ _ hi) hs
    ?_ ?_ ?_ hkeep hsubOn hwf (Or.inr hr) hsubH
  · intro t' ht'
    simp only [List.mem_singleton] at ht'; subst ht'
    exact ⟨hd, hv, hl, hb⟩
  · intro m hm
    have : m = 0 := by simpa using hm
    subst this; exact hown
  · intro h hm
    rcases hsub h hm with h1 | h1
    · exact Or.inl h1
    · right; subst h1; simp

/-- One stage changes, the scheduler does not. -/
theorem Good.stage_same {r : Option TaskId} {a : Info} {stages : List Stage} {s : Sched}
    {j : Nat} {st st1 : Stage}
    (g : Good r a stages s)
    (hj : stages[j]? = some st)
    (hsub : ∀ h : Nat, h ∈ st1.handles → h ∈ st.handles)
    (hkeep : ∀ h : Nat, h ∈ st.handles → ∀ t : Task, s.tasks[h]? = some t → t.live = true → h ∈ st1.handles)
    (hsubOn : st1.isSubOn = st.isSubOn)
    (hwf : st1.wf)
    (hprist : (st.handles = [] ∧ st.naOn = false → st1.handles = [] ∧ st1.naOn = false) ∨
      Reached r stages s (j + 1))
    (hsubH : st1.subH = st.subH) :
    Good r a (stages.set j st1) s :=
  g.stage0 hj (set_get_self _ _ _ _ hj) (fun _ hi => set_get_ne _ _ _ _ hi) hsub hkeep hsubOn hwf
    hprist hsubH

/-- Cancelling a handle of a stage that is not a subscribe_on. -/
theorem Good.cancel_nonsub {r : Option TaskId} {a : Info} {stages : List Stage} {s : Sched}
    {j : Nat} {st : Stage} {h : Nat}
    (g : Good r a stages s) (hj : stages[j]? = some st) (hm : h ∈ st.handles)
    (hns : st.isSubOn = false) :
    Good r a stages (s.cancel h) ∧ SubKeep s (s.cancel h) := by
  obtain ⟨t, ht, _, hb⟩ := g.hk j st h hj hm
  rw [hns] at hb
  have hk : SubKeep s (s.cancel h) := by
    intro k u hu hsu
    by_cases e : k = h
    · subst e; rw [ht] at hu; cases hu; rw [hb] at hsu; cases hsu
    · rw [Sched.cancel_get_ne _ _ _ e]; exact hu
  refine ⟨?_, hk⟩
  have hc : s.cancel h = s.setTask h { t with keepRunning := false, hasValue := false } := by
    unfold Sched.cancel; rw [ht]
  apply g.sched (r' := r)
  · rw [hc]
    apply SRel.setTask ht _ g.hv
    exact ⟨rfl, by simp [Task.live], by simp⟩
  · intro i sti hh hsi e hr
    exact g.ran_keep hk hsi e hr

theorem scheduleOnce_tasks (s : Sched) (b : Body) (d : Option Nat) :
    (s.scheduleOnce b d).1.tasks = s.tasks ++ [{ body := b, outerDelay := d }] := rfl
theorem scheduleOnce_id (s : Sched) (b : Body) (d : Option Nat) :
    (s.scheduleOnce b d).2 = s.tasks.length := rfl

theorem SubKeep.of_append {s s' : Sched} {new : List Task} (h : s'.tasks = s.tasks ++ new) :
    SubKeep s s' := by
  intro k t ht _; rw [h]; exact append_get_old _ _ ht

/-- What `onNotif` / `afterEmit` / a whole cascade promise about the stage. -/
structure StFr (st st1 : Stage) (s s1 : Sched) : Prop where
  subH : st1.subH = st.subH
  n2 : st1.n2 = st.n2
  keep : SubKeep s s1

end Rx.T
