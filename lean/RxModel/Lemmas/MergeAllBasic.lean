import RxModel.Ops.MergeAll
/-
  Helper lemmas for C05 (merge_all): frame facts, the limit invariant,
  stuck-freedom.  Everything is generic in `fixed` unless it says otherwise.
-/
namespace Rx.MergeAll

/-- The part of the state the limit theorem is about. -/
def LimitInv (s : St) : Prop :=
  s.subscribed ≤ s.concurrent ∧ s.started ≤ s.subscribed + s.completed

theorem drain_frame (f : Bool) (q : List Inst) : ∀ s : St,
    (drain f s q).1.concurrent = s.concurrent ∧ (drain f s q).1.inners = s.inners ∧
    (drain f s q).1.outerOpen = s.outerOpen ∧ (drain f s q).1.arrivals = s.arrivals ∧
    (drain f s q).1.dead = s.dead ∧ (drain f s q).1.outsideCompleted = s.outsideCompleted := by
  induction q with
  | nil => intro s; simp only [drain]; split <;> simp
  | cons i rest ih =>
    intro s
    simp only [drain]
    split
    · simp
    · split
      · simp
      · split
        · simp
        · simp
        · have := ih { s with completed := s.completed + 1, started := s.started + 1 }
          simpa using this

theorem drain_limit (f : Bool) (q : List Inst) : ∀ s : St,
    (drain f s q).1.subscribed ≤ s.subscribed ∧
    (s.started ≤ s.subscribed + s.completed →
      (drain f s q).1.started ≤ (drain f s q).1.subscribed + (drain f s q).1.completed) := by
  induction q with
  | nil => intro s; simp only [drain]; split <;> (simp; omega)
  | cons i rest ih =>
    intro s
    simp only [drain]
    split
    · simp; omega
    · split
      · simp; omega
      · split
        · simp; omega
        · simp; omega
        · have := ih { s with completed := s.completed + 1, started := s.started + 1 }
          simp at this ⊢
          omega

theorem innerComplete_limit (f : Bool) (s : St) (h : LimitInv s) :
    LimitInv (innerComplete f s).1 ∧ (innerComplete f s).1.concurrent = s.concurrent := by
  unfold innerComplete
  split
  · have h1 := drain_frame f s.queue s
    have h2 := drain_limit f s.queue s
    refine ⟨⟨?_, h2.2 h.2⟩, h1.1⟩
    rw [h1.1]; exact Nat.le_trans h2.1 h.1
  · exact ⟨h, rfl⟩

theorem completeAll_limit (f : Bool) (ts : List (Nat × Nat)) : ∀ s : St, LimitInv s →
    LimitInv (completeAll f s ts).1 ∧ (completeAll f s ts).1.concurrent = s.concurrent := by
  induction ts with
  | nil => intro s h; exact ⟨h, rfl⟩
  | cons t r ih =>
    intro s h
    simp only [completeAll]
    have h1 := innerComplete_limit f s h
    split
    · exact h1
    · have h2 := ih _ h1.1
      exact ⟨h2.1, h2.2.trans h1.2⟩

theorem errorAll_limit (e : Err) (ts : List (Nat × Nat)) : ∀ s : St, LimitInv s →
    LimitInv (errorAll s e ts).1 ∧ (errorAll s e ts).1.concurrent = s.concurrent := by
  induction ts with
  | nil => intro s h; exact ⟨h, rfl⟩
  | cons t r ih =>
    intro s h
    simp only [errorAll]
    have h1 : LimitInv (innerError s e).1 ∧ (innerError s e).1.concurrent = s.concurrent := by
      unfold innerError; split <;> exact ⟨h, rfl⟩
    have h2 := ih _ h1.1
    exact ⟨h2.1, h2.2.trans h1.2⟩

theorem startTop_limit (f : Bool) (s : St) (i : Inst)
    (h : s.subscribed + 1 ≤ s.concurrent ∧ s.started ≤ s.subscribed + s.completed) :
    LimitInv (startTop f { s with subscribed := s.subscribed + 1 } i).1 ∧
    (startTop f { s with subscribed := s.subscribed + 1 } i).1.concurrent = s.concurrent := by
  unfold startTop
  simp only
  split
  · exact ⟨⟨h.1, by simp; omega⟩, rfl⟩
  · split
    · exact ⟨⟨h.1, by simp; omega⟩, rfl⟩
    · exact ⟨⟨h.1, by simp; omega⟩, rfl⟩
    · rename_i xs fin _
      have h1 := drain_frame f s.queue
        { s with subscribed := s.subscribed + 1, started := s.started + 1 }
      have h2 := drain_limit f s.queue
        { s with subscribed := s.subscribed + 1, started := s.started + 1 }
      simp only at h1 h2 ⊢
      refine ⟨⟨?_, h2.2 (by omega)⟩, h1.1⟩
      rw [h1.1]; omega

theorem stepG_limit (f : Bool) (s : St) (ev : Ev) (h : LimitInv s) :
    LimitInv (stepG f s ev).1 ∧ (stepG f s ev).1.concurrent = s.concurrent := by
  unfold stepG
  split
  · exact ⟨h, rfl⟩
  · cases ev with
    | outerNext k =>
      simp only [outerNext]
      split
      · exact ⟨h, rfl⟩
      · split
        · exact ⟨h, rfl⟩
        · split
          · rename_i hlt
            have := startTop_limit f { s with arrivals := s.arrivals + 1 } ⟨s.arrivals, k⟩
              ⟨hlt, h.2⟩
            simpa using this
          · exact ⟨h, rfl⟩
    | outerError e =>
      simp only [outerError]
      split
      · exact ⟨h, rfl⟩
      · split <;> exact ⟨h, rfl⟩
    | outerComplete =>
      simp only [outerComplete]
      split
      · exact ⟨h, rfl⟩
      · split
        · split <;> exact ⟨h, rfl⟩
        · exact ⟨h, rfl⟩
    | innerNext j v => simp only [hotNext]; split <;> exact ⟨h, rfl⟩
    | innerError j e =>
      simp only [hotError]
      split
      · exact ⟨h, rfl⟩
      · exact errorAll_limit e _ _ h
    | innerComplete j =>
      simp only [hotComplete]
      split
      · exact ⟨h, rfl⟩
      · exact completeAll_limit f _ _ h
    | unsub => exact ⟨h, rfl⟩

theorem runG_limit (f : Bool) (evs : List Ev) : ∀ s : St, LimitInv s →
    LimitInv (runG f s evs).1 ∧ (runG f s evs).1.concurrent = s.concurrent := by
  induction evs with
  | nil => intro s h; exact ⟨h, rfl⟩
  | cons ev r ih =>
    intro s h
    simp only [runG]
    have h1 := stepG_limit f s ev h
    have h2 := ih _ h1.1
    exact ⟨h2.1, h2.2.trans h1.2⟩

theorem init_limit (inners : List Inner) (n : Nat) : LimitInv (init inners n) := by
  simp [LimitInv, init]

end Rx.MergeAll
