import RxModel.Lemmas.ChainRetireSched
/-
  C16 over the chain model, part 4: one notification at one stage.
  Every observer is monotone (`Stage.le`), a closed one passes nothing on, and
  the only scheduler effects are spawning benign once-tasks and cancelling.
-/
namespace Rx.T
open Rx

/-! ### single-input observers -/

theorem St1.step_fin (o : St1) (n : Notif) (h : o.finished false = true) :
    (o.step n).1.finished false = true := by
  cases o <;> simp [St1.finished] at h <;> subst h <;> cases n <;>
    simp [St1.step, St1.onNext, St1.onError', St1.onComplete', St1.finished] <;>
    (try split) <;> simp [St1.finished]

theorem St1.step_blocked (o : St1) (n : Notif) (h : o.finished false = true) :
    (o.step n).2 = [] := by
  cases o <;> simp [St1.finished] at h <;> subst h <;> cases n <;>
    simp [St1.step, St1.onNext, St1.onError', St1.onComplete'] <;>
    (try split) <;> simp

/-! ### two-input cells -/

theorem St2.step_alive (st : St2) (sd : Side) (n : Notif) (h : (st.step sd n).1.alive = true) :
    st.alive = true := by
  cases st <;> cases sd <;> cases n <;> simp only [St2.step] at h <;>
    (repeat' split at h) <;> simp_all [St2.alive]

theorem St2.step_bfin (st : St2) (sd : Side) (n : Notif) (d : Bool) (h : st.finished .b d = true) :
    (st.step sd n).1.finished .b d = true := by
  cases st <;> cases sd <;> cases n <;> simp only [St2.step] <;>
    (repeat' split) <;> simp_all [St2.finished, St2.alive]

theorem St2.step_blocked (st : St2) (sd : Side) (n : Notif) (h : st.alive = false) :
    (st.step sd n).2 = [] := by
  cases st <;> simp only [St2.alive] at h <;> subst h <;> cases sd <;> cases n <;>
    simp only [St2.step] <;> (repeat' split) <;> simp [St2.guard]

theorem St2.run_alive (sd : Side) : ∀ (ns : List Notif) (st : St2), (st.run sd ns).1.alive = true →
    st.alive = true
  | [], _, h => h
  | n :: r, st, h => by
    simp only [St2.run] at h
    exact St2.step_alive st sd n (St2.run_alive sd r _ h)

theorem St2.run_bfin (sd : Side) (d : Bool) : ∀ (ns : List Notif) (st : St2), st.finished .b d = true →
    (st.run sd ns).1.finished .b d = true
  | [], _, h => h
  | n :: r, st, h => by
    simp only [St2.run]
    exact St2.run_bfin sd d r _ (St2.step_bfin st sd n d h)

theorem St2.run_blocked (sd : Side) : ∀ (ns : List Notif) (st : St2), st.alive = false →
    (st.run sd ns).2 = []
  | [], _, _ => rfl
  | n :: r, st, h => by
    simp only [St2.run]
    have h1 : (st.step sd n).1.alive = false := by
      cases e : (st.step sd n).1.alive with
      | false => rfl
      | true => rw [St2.step_alive st sd n e] at h; cases h
    rw [St2.step_blocked st sd n h, St2.run_blocked sd r _ h1]; rfl

theorem Stage.le_op2n {st st' : St2} (ns : TSrc) (na na' : Bool) (nt nt' : Option TaskId)
    (ha : st'.alive = true → st.alive = true)
    (hb : ∀ d, st.finished .b d = true → st'.finished .b d = true) :
    Stage.le (.op2n st ns na nt) (.op2n st' ns na' nt') := by
  refine ⟨rfl, rfl, ?_, hb⟩
  intro h
  simp only [Stage.sf, Bool.not_eq_true'] at h ⊢
  cases e : st'.alive with
  | false => rfl
  | true => rw [ha e] at h; cases h

theorem Stage.le_op2n_same (st : St2) (ns : TSrc) (na na' : Bool) (nt nt' : Option TaskId) :
    Stage.le (.op2n st ns na nt) (.op2n st ns na' nt') :=
  Stage.le_op2n ns na na' nt nt' id (fun _ => id)

/-! ### `onNotif`, `afterEmit` -/

theorem onNotif_le (st : Stage) (j : Nat) (n : Notif) (s : Sched) : Stage.le st (st.onNotif j n s).1 := by
  cases st with
  | op1 o =>
    exact ⟨rfl, rfl, fun h => St1.step_fin o n h, fun _ => id⟩
  | op2n o ns na nt =>
    exact Stage.le_op2n ns na na nt nt (St2.step_alive o .a n) (fun d => St2.step_bfin o .a n d)
  | delay d al m =>
    cases n <;> exact ⟨rfl, rfl, by simp [Stage.onNotif, Stage.sf], fun _ => id⟩
  | observeOn al m => exact ⟨rfl, rfl, by simp [Stage.onNotif, Stage.sf], fun _ => id⟩
  | subscribeOn d t => exact Stage.le.refl _
  | debounce d al tr hd =>
    cases n <;> exact ⟨rfl, rfl, by simp [Stage.onNotif, Stage.sf], fun _ => id⟩
  | throttle d e al tr hd =>
    cases n with
    | next v =>
      simp only [Stage.onNotif]
      (repeat' split) <;> exact ⟨rfl, rfl, by simp [Stage.sf], fun _ => id⟩
    | error e => exact ⟨rfl, rfl, by simp [Stage.onNotif, Stage.sf], fun _ => id⟩
    | complete => exact ⟨rfl, rfl, by simp [Stage.onNotif, Stage.sf], fun _ => id⟩
  | throttleW d e al tr => exact Stage.le.refl _
  | bufTime d c al data t =>
    cases n with
    | next v =>
      simp only [Stage.onNotif]
      (repeat' split) <;> exact ⟨rfl, rfl, by simp [Stage.sf], fun _ => id⟩
    | error e => exact ⟨rfl, rfl, by simp [Stage.onNotif, Stage.sf], fun _ => id⟩
    | complete => exact ⟨rfl, rfl, by simp [Stage.onNotif, Stage.sf], fun _ => id⟩

theorem onNotif_blocked (st : Stage) (j : Nat) (n : Notif) (s : Sched) (h : st.sf = true) :
    (st.onNotif j n s).2.1 = [] := by
  cases st with
  | op1 o => exact St1.step_blocked o n h
  | op2n o ns na nt =>
    simp only [Stage.sf, Bool.not_eq_true'] at h
    exact St2.step_blocked o .a n h
  | delay d al m =>
    simp only [Stage.sf, Bool.not_eq_true'] at h; subst h
    cases n <;> simp [Stage.onNotif]
  | observeOn al m => simp [Stage.onNotif]
  | subscribeOn d t => simp [Stage.sf] at h
  | debounce d al tr hd =>
    simp only [Stage.sf, Bool.not_eq_true'] at h; subst h
    cases n <;> simp [Stage.onNotif]
  | throttle d e al tr hd =>
    simp only [Stage.sf, Bool.not_eq_true'] at h; subst h
    cases n with
    | next v => simp only [Stage.onNotif, Bool.and_false]; (repeat' split) <;> simp_all
    | error e => simp [Stage.onNotif]
    | complete => simp [Stage.onNotif]
  | throttleW d e al tr => simp [Stage.onNotif]
  | bufTime d c al data t =>
    simp only [Stage.sf, Bool.not_eq_true'] at h; subst h
    cases n <;> simp [Stage.onNotif]

theorem okFor_emit (src : TSrc) (j : Nat) (n : Notif) : (Body.emit j n).okFor src := trivial
theorem okFor_debounce (src : TSrc) (j : Nat) : (Body.debounce j).okFor src := trivial
theorem okFor_throttle (src : TSrc) (j : Nat) : (Body.throttle j).okFor src := trivial

theorem onNotif_be (src : TSrc) (a : Bool) (st : Stage) (j : Nat) (n : Notif) (s : Sched) :
    BE src a s (st.onNotif j n s).2.2 := by
  cases st with
  | op1 o => exact BE.refl _
  | op2n o ns na nt => exact BE.refl _
  | delay d al m =>
    cases n with
    | error e => exact BE.refl _
    | next v => exact BE.once s _ _ trivial (by simp [Body.isAsync]) (by simp [Body.isSrc])
    | complete => exact BE.once s _ _ trivial (by simp [Body.isAsync]) (by simp [Body.isSrc])
  | observeOn al m => exact BE.once s _ _ trivial (by simp [Body.isAsync]) (by simp [Body.isSrc])
  | subscribeOn d t => exact BE.refl _
  | debounce d al tr hd =>
    cases n with
    | next v =>
      simp only [Stage.onNotif]
      exact (BE.cancelOpt s hd).trans (BE.once _ _ _ trivial (by simp [Body.isAsync]) (by simp [Body.isSrc]))
    | error e => exact BE.refl _
    | complete => exact BE.refl _
  | throttle d e al tr hd =>
    cases n with
    | next v => simp only [Stage.onNotif]; (repeat' split) <;> exact BE.refl _
    | error e => exact BE.cancelOpt s hd
    | complete => exact BE.cancelOpt s hd
  | throttleW d e al tr => exact BE.refl _
  | bufTime d c al data t =>
    cases n with
    | next v => simp only [Stage.onNotif]; (repeat' split) <;> exact BE.refl _
    | error e => exact BE.refl _
    | complete => exact BE.refl _

theorem afterEmit_le (st : Stage) (j : Nat) (s : Sched) : Stage.le st (st.afterEmit j s).1 := by
  cases st <;> first
    | exact Stage.le.refl _
    | exact ⟨rfl, rfl, by simp [Stage.afterEmit, Stage.sf], fun _ => id⟩

theorem afterEmit_be (src : TSrc) (a : Bool) (st : Stage) (j : Nat) (s : Sched) :
    BE src a s (st.afterEmit j s).2 := by
  cases st <;> first
    | exact BE.refl _
    | exact BE.once s _ _ trivial (by simp [Body.isAsync]) (by simp [Body.isSrc])

end Rx.T
