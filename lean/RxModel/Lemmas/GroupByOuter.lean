import RxModel.Lemmas.GroupByWorld
/-
  Helper lemmas for Props/C20, outer-operator part: `group_by(..)` followed by ANY operators on
  the stream of groups (the suite uses `take n`).  Since `fix: Subject::error/complete hand the
  terminal to every subscriber` the source subject hands its terminal to the GroupByObserver also
  when the outer chain reports `is_finished()`: every live subscriber of every group is told.
-/
namespace Rx
namespace GroupBy

variable (key : Val → Val) (ord : List (Val × Subj) → List (Val × Subj))

/-- The terminal step of the suite world, whatever the outer chain is and whatever state it is in
    (finished or not): every live subscriber of group `k` hears the terminal exactly once, the
    outer stream gets what the outer operators make of it, the source is done, the slot is empty. -/
theorem step_term_outer (hord : ∀ l, (ord l).Perm l) (w : World) (st : St) (t : Notif)
    (ht : t.isTerm = true) (hd : w.srcDone = false) (hs : w.slot = some st) (k : Val) :
    grpLog k (w.step key ord (.emit t)).2 = List.replicate (total k st.subjects) t ∧
    outerLog (w.step key ord (.emit t)).2 = (runChain w.outer [t]).2 ∧
    (w.step key ord (.emit t)).1.srcDone = true ∧ (w.step key ord (.emit t)).1.slot = none := by
  obtain ⟨sd, sl, ch, sk⟩ := w
  simp only at hd hs
  subst hd hs
  cases t with
  | next v => cases ht
  | error e =>
    simp only [World.step, Bool.false_eq_true, if_false, St.onTerm, pushOuter_grp, grpLog_append,
      grpLog_drainOut, grpLog, List.append_nil, total_perm k (hord st.subjects),
      (pushOuter_outer _ ch).2, outerLog_append, outerLog_drainOut, outerLog, List.nil_append,
      and_self]
  | complete =>
    simp only [World.step, Bool.false_eq_true, if_false, St.onTerm, pushOuter_grp, grpLog_append,
      grpLog_drainOut, grpLog, List.append_nil, total_perm k (hord st.subjects),
      (pushOuter_outer _ ch).2, outerLog_append, outerLog_drainOut, outerLog, List.nil_append,
      and_self]

/-! ### a group that has delivered something has a live subscriber (items only) -/

theorem find_total_le (k : Val) (s : Subj) (l : List (Val × Subj)) (h : find k l = some s) :
    s.live ≤ total k l := by
  induction l with
  | nil => simp [find] at h
  | cons x r ih =>
    obtain ⟨k1, s1⟩ := x
    by_cases hk : k1 = k
    · simp only [find, hk, if_true, Option.some.injEq] at h
      subst h
      simp only [total, hk, if_true]
      omega
    · simp only [find, hk, if_false] at h
      have := ih h
      simp only [total, hk, if_false]
      omega

theorem total_replace_eq (k k' : Val) (s s' : Subj) (l : List (Val × Subj))
    (h : find k l = some s) (hl : s'.live = s.live) :
    total k' (replace k s' l) = total k' l := by
  induction l with
  | nil => simp [find] at h
  | cons x r ih =>
    obtain ⟨k1, s1⟩ := x
    by_cases hk : k1 = k
    · simp only [find, hk, if_true, Option.some.injEq] at h
      subst h
      simp only [replace, hk, if_true, total, hl]
    · simp only [find, hk, if_false] at h
      simp only [replace, hk, if_false, total, ih h]

theorem replicate_ne_nil {α : Type} (m : Nat) (a : α) (h : List.replicate m a ≠ []) : 1 ≤ m := by
  cases m with
  | zero => exact absurd rfl h
  | succ m => omega

/-- One item: a live subscriber of group `k` stays, and a delivery to group `k` proves one. -/
theorem onNext_live (attach : Bool) (st : St) (v : Val) (k : Val) :
    (1 ≤ total k st.subjects → 1 ≤ total k (st.onNext key attach v).1.subjects) ∧
    (grpLog k (st.onNext key attach v).2 ≠ [] → 1 ≤ total k (st.onNext key attach v).1.subjects) := by
  simp only [St.onNext]
  split
  · rename_i subj hf
    have he := total_replace_eq (key v) k subj (subj.next v).1 st.subjects hf (Subj.next_live subj v)
    refine ⟨fun h => by simpa [he] using h, fun h => ?_⟩
    simp only [grpLog_map_grp, Subj.next_out] at h
    split at h
    · rename_i hk
      subst hk
      have h1 := replicate_ne_nil _ _ h
      have h2 := find_total_le (key v) subj st.subjects hf
      simp only [he]
      omega
    · exact absurd rfl h
  · rename_i hf
    simp only [total_append, total, Nat.add_zero]
    refine ⟨fun h => by omega, fun h => ?_⟩
    simp only [grpLog, grpLog_map_grp, Subj.next_out] at h
    split at h
    · rename_i hk
      have h1 := replicate_ne_nil _ _ h
      simp only [hk, if_true, Subj.next_live]
      omega
    · exact absurd rfl h

/-- Items only: the source stays live, the slot full, and a group whose subscriber has received
    something has a live subscriber — whatever the outer chain does with the announcements. -/
theorem world_items_live (k : Val) (xs : List Val) : ∀ w : World, w.srcDone = false →
    ∀ st, w.slot = some st →
    (World.run key ord w (xs.map fun v => Ev.emit (.next v))).1.srcDone = false ∧
    ∃ st', (World.run key ord w (xs.map fun v => Ev.emit (.next v))).1.slot = some st' ∧
      ((1 ≤ total k st.subjects ∨
          grpLog k (World.run key ord w (xs.map fun v => Ev.emit (.next v))).2 ≠ []) →
        1 ≤ total k st'.subjects) ∧
      (GI st → GI st') := by
  induction xs with
  | nil =>
    intro w hd st hs
    refine ⟨hd, st, hs, fun h => ?_, id⟩
    rcases h with h | h
    · exact h
    · exact absurd rfl h
  | cons v r ih =>
    intro w hd st hs
    obtain ⟨sd, sl, ch, sk⟩ := w
    simp only at hd hs
    subst hd hs
    simp only [List.map_cons, World.run]
    generalize hatt : ((runChain ch [.next (key v)]).2.contains (.next (key v)) &&
      !sk.contains (key v)) = att
    have hstep : (World.step key ord ⟨false, some st, ch, sk⟩ (.emit (.next v))) =
        (⟨false, some (st.onNext key att v).1, (pushOuter ch (st.onNext key att v).2).1, sk⟩,
          (pushOuter ch (st.onNext key att v).2).2) := by
      simp only [World.step, Bool.false_eq_true, if_false, hatt]
    rw [hstep]
    obtain ⟨h1, st', h2, h3, h4⟩ := ih ⟨false, some (st.onNext key att v).1,
      (pushOuter ch (st.onNext key att v).2).1, sk⟩ rfl _ rfl
    have hl := onNext_live key att st v k
    refine ⟨h1, st', h2, fun h => ?_, fun hg => h4 (onNext_GI key att st v hg)⟩
    rw [grpLog_append, pushOuter_grp] at h
    apply h3
    rcases h with h | h
    · exact Or.inl (hl.1 h)
    · by_cases hn : grpLog k (st.onNext key att v).2 = []
      · rw [hn, List.nil_append] at h
        exact Or.inr h
      · exact Or.inl (hl.2 hn)

end GroupBy
end Rx
