import RxModel.Lemmas.MergeAllOnce
import RxModel.Lemmas.MergeAllCompletion
/-
  C05O — an instrumented reading of the merge_all model.

  The existing definitions (`drain`, `startTop`, `outerNext`, `completeAll`,
  `hotComplete`, `stepG`, `runG`) are NOT changed.  Next to each of them a
  function `…L` computes a ghost LOG of the same piece of work: the outputs of
  the existing function, interleaved — at the exact program points — with

    `arrive i`  the outer `next` found the data and took the instance `i`
                (`i.tag` = arrival number, `i.k` = table index);
    `start i`   `actual_subscribe` is called on instance `i`
                (the program points at which the model increments `started`).

  The state is always the one the existing function computes; erasing the
  ghost labels gives the existing output (`outs_runL`).
-/
namespace Rx.MergeAll

inductive Lab where
  | arrive (i : Inst)
  | start (i : Inst)
  | out (o : Out)
  deriving DecidableEq, Repr, Inhabited

/-- The downstream notifications of a log. -/
def outs : List Lab → List Out
  | [] => []
  | .out o :: r => o :: outs r
  | _ :: r => outs r

/-- The instances started, in the order of their `actual_subscribe` calls. -/
def startsOf : List Lab → List Inst
  | [] => []
  | .start i :: r => i :: startsOf r
  | _ :: r => startsOf r

/-- The instances accepted from the outer stream, in arrival order. -/
def arrivalsOf : List Lab → List Inst
  | [] => []
  | .arrive i :: r => i :: arrivalsOf r
  | _ :: r => arrivalsOf r

theorem outs_append (a b : List Lab) : outs (a ++ b) = outs a ++ outs b := by
  induction a with
  | nil => rfl
  | cons x r ih => cases x <;> simp [outs, ih]

theorem startsOf_append (a b : List Lab) : startsOf (a ++ b) = startsOf a ++ startsOf b := by
  induction a with
  | nil => rfl
  | cons x r ih => cases x <;> simp [startsOf, ih]

theorem arrivalsOf_append (a b : List Lab) : arrivalsOf (a ++ b) = arrivalsOf a ++ arrivalsOf b := by
  induction a with
  | nil => rfl
  | cons x r ih => cases x <;> simp [arrivalsOf, ih]

theorem outs_map_out (o : List Out) : outs (o.map Lab.out) = o := by
  induction o with
  | nil => rfl
  | cons x r ih => simp [outs, ih]

theorem startsOf_map_out (o : List Out) : startsOf (o.map Lab.out) = [] := by
  induction o with
  | nil => rfl
  | cons x r ih => simp [startsOf, ih]

theorem arrivalsOf_map_out (o : List Out) : arrivalsOf (o.map Lab.out) = [] := by
  induction o with
  | nil => rfl
  | cons x r ih => simp [arrivalsOf, ih]

/-- The items of a cold script as log entries. -/
def itemsL (tag : Nat) (xs : List Val) : List Lab := xs.map (fun v => Lab.out (.item tag v))

theorem itemsL_eq (tag : Nat) (xs : List Val) : itemsL tag xs = (xs.map (Out.item tag)).map Lab.out := by
  simp [itemsL]

@[simp] theorem outs_itemsL (tag : Nat) (xs : List Val) : outs (itemsL tag xs) = xs.map (Out.item tag) := by
  rw [itemsL_eq, outs_map_out]
@[simp] theorem startsOf_itemsL (tag : Nat) (xs : List Val) : startsOf (itemsL tag xs) = [] := by
  rw [itemsL_eq, startsOf_map_out]
@[simp] theorem arrivalsOf_itemsL (tag : Nat) (xs : List Val) : arrivalsOf (itemsL tag xs) = [] := by
  rw [itemsL_eq, arrivalsOf_map_out]

/-! ### The log of each piece of work -/

/-- Log of `drain fixed s q`. -/
def drainL (fixed : Bool) (s : St) : List Inst → List Lab
  | [] => if s.subscribed - 1 = 0 ∧ s.outsideCompleted = true then [.out .complete] else []
  | i :: rest =>
      .start i ::
      match s.inner i.k with
      | .hot _ => []
      | .cold xs fin =>
          if !fixed && (Inner.cold xs fin).touches then []
          else
            itemsL i.tag xs ++
            match fin with
            | .open_ => []
            | .error e => [.out (.error e)]
            | .complete =>
                drainL fixed { s with completed := s.completed + 1, started := s.started + 1 } rest

/-- Log of `innerComplete fixed s`. -/
def innerCompleteL (fixed : Bool) (s : St) : List Lab :=
  if s.alive then drainL fixed s s.queue else []

/-- Log of `startTop fixed s i`. -/
def startTopL (fixed : Bool) (s : St) (i : Inst) : List Lab :=
  let s := { s with started := s.started + 1 }
  .start i ::
  match s.inner i.k with
  | .hot _ => []
  | .cold xs fin =>
      itemsL i.tag xs ++
      match fin with
      | .open_ => []
      | .error e => [.out (.error e)]
      | .complete => drainL fixed s s.queue

/-- Log of `outerNext fixed s k`. -/
def outerNextL (fixed : Bool) (s : St) (k : Nat) : List Lab :=
  if !s.outerOpen then [] else
  let i : Inst := ⟨s.arrivals, k⟩
  let s := { s with arrivals := s.arrivals + 1 }
  if !s.alive then [] else
  .arrive i ::
  if s.subscribed < s.concurrent then
    startTopL fixed { s with subscribed := s.subscribed + 1 } i
  else []

/-- Log of `completeAll fixed s ts`. -/
def completeAllL (fixed : Bool) (s : St) : List (Nat × Nat) → List Lab
  | [] => []
  | _ :: r =>
      if (innerComplete fixed s).1.stuck then innerCompleteL fixed s
      else innerCompleteL fixed s ++ completeAllL fixed (innerComplete fixed s).1 r

/-- Log of `hotComplete fixed s j`. -/
def hotCompleteL (fixed : Bool) (s : St) (j : Nat) : List Lab :=
  if s.dead.contains j then [] else
  completeAllL fixed { s with dead := j :: s.dead, subs := s.subs.filter (fun p => !(p.1 == j)) }
    (targets s j)

/-- Log of one external event. -/
def stepL (fixed : Bool) (s : St) (ev : Ev) : List Lab :=
  if s.stuck then [] else
  match ev with
  | .outerNext k => outerNextL fixed s k
  | .outerError e => (outerError s e).2.map .out
  | .outerComplete => (outerComplete s).2.map .out
  | .innerNext j v => (hotNext s j v).2.map .out
  | .innerError j e => (hotError s j e).2.map .out
  | .innerComplete j => hotCompleteL fixed s j
  | .unsub => []

/-- The history as the observer of the experiment sees it: every external
    event with the log of what it caused. -/
def trace (fixed : Bool) (s : St) : List Ev → List (Ev × List Lab)
  | [] => []
  | ev :: r => (ev, stepL fixed s ev) :: trace fixed (stepG fixed s ev).1 r

/-- The log of a history. -/
def runL (fixed : Bool) (s : St) : List Ev → List Lab
  | [] => []
  | ev :: r => stepL fixed s ev ++ runL fixed (stepG fixed s ev).1 r

/-- The log is the concatenation of the per-event logs of the trace. -/
theorem runL_eq_trace (f : Bool) (evs : List Ev) : ∀ s : St,
    runL f s evs = (trace f s evs).flatMap (fun p => p.2) := by
  induction evs with
  | nil => intro s; rfl
  | cons ev r ih => intro s; simp [runL, trace, ih]

theorem trace_events (f : Bool) (evs : List Ev) : ∀ s : St, (trace f s evs).map (fun p => p.1) = evs := by
  induction evs with
  | nil => intro s; rfl
  | cons ev r ih => intro s; simp [trace, ih]

theorem runL_append (f : Bool) (a b : List Ev) : ∀ s : St,
    runL f s (a ++ b) = runL f s a ++ runL f (runG f s a).1 b := by
  induction a with
  | nil => intro s; simp [runL, runG]
  | cons ev r ih => intro s; simp [runL, runG, ih]

theorem trace_append (f : Bool) (a b : List Ev) : ∀ s : St,
    trace f s (a ++ b) = trace f s a ++ trace f (runG f s a).1 b := by
  induction a with
  | nil => intro s; simp [trace, runG]
  | cons ev r ih => intro s; simp [trace, runG, ih]

/-! ### Erasing the ghost labels gives the model's output -/

theorem outs_drainL (f : Bool) (q : List Inst) : ∀ s : St, outs (drainL f s q) = (drain f s q).2 := by
  induction q with
  | nil => intro s; simp only [drainL, drain]; split <;> simp [outs]
  | cons i rest ih =>
    intro s
    simp only [drainL, drain, outs]
    cases hin : s.inner i.k with
    | hot j => rfl
    | cold xs fin =>
      simp only
      by_cases hc : (!f && (Inner.cold xs fin).touches) = true
      · simp only [hc, if_true]; rfl
      · simp only [hc]
        cases fin with
        | open_ => simp
        | error e => simp [outs_append, outs]
        | complete => simp [outs_append, ih]

theorem outs_innerCompleteL (f : Bool) (s : St) :
    outs (innerCompleteL f s) = (innerComplete f s).2 := by
  unfold innerCompleteL innerComplete
  split
  · exact outs_drainL f _ s
  · rfl

theorem outs_startTopL (f : Bool) (s : St) (i : Inst) :
    outs (startTopL f s i) = (startTop f s i).2 := by
  simp only [startTopL, startTop, outs]
  cases hin : St.inner { s with started := s.started + 1 } i.k with
  | hot j => rfl
  | cold xs fin =>
    simp only
    cases fin with
    | open_ => simp
    | error e => simp [outs_append, outs]
    | complete => simp [outs_append, outs_drainL]

theorem outs_outerNextL (f : Bool) (s : St) (k : Nat) :
    outs (outerNextL f s k) = (outerNext f s k).2 := by
  simp only [outerNextL, outerNext]
  split
  · rfl
  · split
    · rfl
    · simp only [outs]
      split
      · exact outs_startTopL f _ _
      · rfl

theorem outs_completeAllL (f : Bool) (ts : List (Nat × Nat)) : ∀ s : St,
    outs (completeAllL f s ts) = (completeAll f s ts).2 := by
  induction ts with
  | nil => intro s; rfl
  | cons t r ih =>
    intro s
    simp only [completeAllL, completeAll]
    split
    · exact outs_innerCompleteL f s
    · simp [outs_append, outs_innerCompleteL, ih]

theorem outs_hotCompleteL (f : Bool) (s : St) (j : Nat) :
    outs (hotCompleteL f s j) = (hotComplete f s j).2 := by
  unfold hotCompleteL hotComplete
  split
  · rfl
  · exact outs_completeAllL f _ _

theorem outs_stepL (f : Bool) (s : St) (ev : Ev) : outs (stepL f s ev) = (stepG f s ev).2 := by
  unfold stepL stepG
  split
  · rfl
  · cases ev with
    | outerNext k => exact outs_outerNextL f s k
    | outerError e => exact outs_map_out _
    | outerComplete => exact outs_map_out _
    | innerNext j v => exact outs_map_out _
    | innerError j e => exact outs_map_out _
    | innerComplete j => exact outs_hotCompleteL f s j
    | unsub => rfl

/-- Erasing the ghost labels of the log gives exactly the model's output. -/
theorem outs_runL (f : Bool) (evs : List Ev) : ∀ s : St, outs (runL f s evs) = (runG f s evs).2 := by
  induction evs with
  | nil => intro s; rfl
  | cons ev r ih => intro s; simp only [runL, runG, outs_append, outs_stepL, ih]

end Rx.MergeAll
