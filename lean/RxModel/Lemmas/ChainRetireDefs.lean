import RxModel.Sched.Chain
/-
  C16 over the chain (time) model, part 1: vocabulary on stage lists.

  * `Stage.sf`: the stage's own contribution to `is_finished` (its slot is
    empty); `fin (st :: r) = st.sf || fin r` for EVERY stage kind;
  * `Stage.bfin st down`: `is_finished` of the observer the stage hands to its
    SECOND input (notifier / other / sampler), `down` = the answer below it;
  * `Stage.le` / `SLe`: the order "same operator, same parameters, flags only
    move towards finished" — every move of the model is monotone for it;
  * `sealed`: a closed stage followed by single-input operators only (nothing
    is in flight below the cutter and nothing below it can produce);
  * `syncLen`: the length of the synchronous head of the chain (the single-input
    observers the source calls directly);
  * `nq`: every iterator in second-input position has a finished observer.
-/
namespace Rx.T
open Rx

namespace Stage

/-- The stage's own slot is empty. -/
def sf : Stage → Bool
  | .op1 st => st.finished false
  | .delay _ alive _ => !alive
  | .observeOn alive _ => !alive
  | .subscribeOn _ _ => false
  | .debounce _ alive _ _ => !alive
  | .throttle _ _ alive _ _ => !alive
  | .throttleW _ _ alive _ => !alive
  | .bufTime _ _ alive _ _ => !alive
  | .op2n st _ _ _ => !st.alive

/-- `is_finished` of the observer handed to the second input. -/
def bfin : Stage → Bool → Bool
  | .op2n st _ _ _, d => st.finished .b d
  | _, d => d

def isOp1 : Stage → Bool
  | .op1 _ => true
  | _ => false

/-- Operator kind (throttle in the middle of `next` is still throttle). -/
def kind : Stage → Nat
  | .op1 _ => 0
  | .delay _ _ _ => 1
  | .observeOn _ _ => 2
  | .subscribeOn _ _ => 3
  | .debounce _ _ _ _ => 4
  | .throttle _ _ _ _ _ => 5
  | .throttleW _ _ _ _ => 5
  | .bufTime _ _ _ _ _ => 6
  | .op2n _ _ _ _ => 7

/-- The source in second-input position. -/
def nsrc : Stage → Option TSrc
  | .op2n _ ns _ _ => some ns
  | _ => none

/-- Has an iterator as second input. -/
def iterN (st : Stage) : Bool :=
  match st.nsrc with
  | some (.iterc _) => true
  | _ => false

/-- Same operator, flags only move towards finished. -/
structure le (a b : Stage) : Prop where
  kind : a.kind = b.kind
  nsrc : a.nsrc = b.nsrc
  sf : a.sf = true → b.sf = true
  bfin : ∀ d, a.bfin d = true → b.bfin d = true

theorem le.refl (a : Stage) : le a a := ⟨rfl, rfl, id, fun _ => id⟩
theorem le.trans {a b c : Stage} (h1 : le a b) (h2 : le b c) : le a c :=
  ⟨h1.kind.trans h2.kind, h1.nsrc.trans h2.nsrc, fun h => h2.sf (h1.sf h), fun d h => h2.bfin d (h1.bfin d h)⟩

theorem le.isOp1 {a b : Stage} (h : le a b) : b.isOp1 = a.isOp1 := by
  have := h.kind
  cases a <;> cases b <;> simp [Stage.kind] at this <;> rfl

theorem le.iterN {a b : Stage} (h : le a b) : b.iterN = a.iterN := by
  unfold Stage.iterN; rw [h.nsrc]

theorem bfin_mono (st : Stage) {d d' : Bool} (h : d = true → d' = true) :
    st.bfin d = true → st.bfin d' = true := by
  cases st with
  | op2n o ns na nt =>
    cases o <;> cases d <;> cases d' <;> simp_all [Stage.bfin, St2.finished, St2.alive]
  | _ => exact h

end Stage

theorem fin_cons (st : Stage) (r : List Stage) : fin (st :: r) = (st.sf || fin r) := by
  cases st with
  | op1 o => cases o <;> simp [fin, Stage.sf, St1.finished]
  | op2n o ns na nt => cases o <;> simp [fin, Stage.sf, St2.finished, St2.alive]
  | _ => simp [fin, Stage.sf]

theorem fin_append (a b : List Stage) : fin (a ++ b) = (fin a || fin b) := by
  induction a with
  | nil => simp [fin]
  | cons st r ih => simp only [List.cons_append, fin_cons, ih, Bool.or_assoc]

theorem fin_of_mem {l : List Stage} {st : Stage} (hm : st ∈ l) (h : st.sf = true) : fin l = true := by
  induction l with
  | nil => cases hm
  | cons a r ih =>
    rw [fin_cons]
    rcases List.mem_cons.mp hm with e | e
    · subst e; simp [h]
    · simp [ih e]

theorem fin_iff_any (l : List Stage) : fin l = l.any Stage.sf := by
  induction l with
  | nil => rfl
  | cons a r ih => rw [fin_cons, List.any_cons, ih]

theorem fin_drop_of_fin_drop {l : List Stage} {i j : Nat} (hij : i ≤ j) (h : fin (l.drop j) = true) :
    fin (l.drop i) = true := by
  have : l.drop i = (l.drop i).take (j - i) ++ l.drop j := by
    have := (List.take_append_drop (j - i) (l.drop i)).symm
    rw [List.drop_drop] at this
    have e : i + (j - i) = j := by omega
    rw [e] at this; exact this
  rw [this, fin_append, h]; simp

/-- Pointwise order on stage lists. -/
def SLe : List Stage → List Stage → Prop
  | [], [] => True
  | a :: r, b :: r' => Stage.le a b ∧ SLe r r'
  | _, _ => False

theorem SLe.refl : ∀ l : List Stage, SLe l l
  | [] => trivial
  | a :: r => ⟨Stage.le.refl a, SLe.refl r⟩

theorem SLe.trans : ∀ {a b c : List Stage}, SLe a b → SLe b c → SLe a c
  | [], [], [], _, _ => trivial
  | _ :: _, _ :: _, _ :: _, h1, h2 => ⟨h1.1.trans h2.1, SLe.trans h1.2 h2.2⟩
  | [], [], _ :: _, _, h2 => h2.elim
  | [], _ :: _, _, h1, _ => h1.elim
  | _ :: _, [], _, h1, _ => h1.elim
  | _ :: _, _ :: _, [], _, h2 => h2.elim

theorem SLe.length : ∀ {a b : List Stage}, SLe a b → b.length = a.length
  | [], [], _ => rfl
  | _ :: _, _ :: _, h => by simp [SLe.length h.2]
  | [], _ :: _, h => h.elim
  | _ :: _, [], h => h.elim

theorem SLe.fin : ∀ {a b : List Stage}, SLe a b → fin a = true → fin b = true
  | [], [], _, h => h
  | x :: r, y :: r', h, hf => by
    rw [fin_cons] at hf ⊢
    rcases Bool.or_eq_true _ _ |>.mp hf with e | e
    · simp [h.1.sf e]
    · simp [SLe.fin h.2 e]
  | [], _ :: _, h, _ => h.elim
  | _ :: _, [], h, _ => h.elim

theorem SLe.append : ∀ {a a' b b' : List Stage}, SLe a a' → SLe b b' → SLe (a ++ b) (a' ++ b')
  | [], [], _, _, _, h => h
  | _ :: _, _ :: _, _, _, h1, h2 => ⟨h1.1, SLe.append h1.2 h2⟩
  | [], _ :: _, _, _, h, _ => h.elim
  | _ :: _, [], _, _, h, _ => h.elim

theorem SLe.drop : ∀ {a b : List Stage} (j : Nat), SLe a b → SLe (a.drop j) (b.drop j)
  | _, _, 0, h => h
  | [], [], _ + 1, _ => trivial
  | _ :: _, _ :: _, j + 1, h => by simpa using SLe.drop j h.2
  | [], _ :: _, _ + 1, h => h.elim
  | _ :: _, [], _ + 1, h => h.elim

theorem SLe.get : ∀ {a b : List Stage} {j : Nat} {x : Stage}, SLe a b → a[j]? = some x →
    ∃ y, b[j]? = some y ∧ Stage.le x y
  | [], [], _, _, _, h => by simp at h
  | _ :: _, _ :: _, 0, _, h, hx => by
    simp only [List.getElem?_cons_zero, Option.some.injEq] at hx; subst hx
    exact ⟨_, rfl, h.1⟩
  | _ :: _, _ :: _, j + 1, _, h, hx => by
    simp only [List.getElem?_cons_succ] at hx ⊢
    exact SLe.get h.2 hx
  | [], _ :: _, _, _, h, _ => h.elim
  | _ :: _, [], _, _, h, _ => h.elim

theorem SLe.get_back {a b : List Stage} {j : Nat} {y : Stage} (h : SLe a b) (hy : b[j]? = some y) :
    ∃ x, a[j]? = some x ∧ Stage.le x y := by
  have hl : j < a.length := by
    rw [← h.length]; exact (List.getElem?_eq_some_iff.mp hy).1
  obtain ⟨y', hy', hle⟩ := h.get (List.getElem?_eq_getElem hl)
  rw [hy] at hy'; cases hy'
  exact ⟨_, List.getElem?_eq_getElem hl, hle⟩

/-- Replace the tail from `j` on. -/
theorem SLe.splice (l post : List Stage) (j : Nat) (h : SLe (l.drop j) post) :
    SLe l (l.take j ++ post) := by
  have := SLe.append (SLe.refl (l.take j)) h
  rwa [List.take_append_drop] at this

theorem SLe.set : ∀ (l : List Stage) (j : Nat) (x y : Stage), l[j]? = some x → Stage.le x y →
    SLe l (l.set j y)
  | [], _, _, _, h, _ => by simp at h
  | a :: r, 0, x, y, h, hle => by
    simp only [List.getElem?_cons_zero, Option.some.injEq] at h; subst h
    exact ⟨hle, SLe.refl r⟩
  | a :: r, j + 1, x, y, h, hle => by
    simp only [List.getElem?_cons_succ] at h
    exact ⟨Stage.le.refl a, SLe.set r j x y h hle⟩

/-! ### sealed chains -/

/-- Some stage is closed and everything after it is a single-input observer. -/
def sealed : List Stage → Bool
  | [] => false
  | st :: r => sealed r || (st.sf && r.all Stage.isOp1)

theorem sealed_fin : ∀ {l : List Stage}, sealed l = true → fin l = true
  | [], h => by cases h
  | st :: r, h => by
    rw [fin_cons]
    simp only [sealed, Bool.or_eq_true, Bool.and_eq_true] at h
    rcases h with h | h
    · simp [sealed_fin h]
    · simp [h.1]

theorem SLe.all_isOp1 : ∀ {a b : List Stage}, SLe a b → a.all Stage.isOp1 = true → b.all Stage.isOp1 = true
  | [], [], _, _ => rfl
  | x :: r, y :: r', h, ha => by
    simp only [List.all_cons, Bool.and_eq_true] at ha ⊢
    exact ⟨by rw [h.1.isOp1]; exact ha.1, SLe.all_isOp1 h.2 ha.2⟩
  | [], _ :: _, h, _ => h.elim
  | _ :: _, [], h, _ => h.elim

theorem SLe.sealed : ∀ {a b : List Stage}, SLe a b → sealed a = true → sealed b = true
  | [], [], _, h => h
  | x :: r, y :: r', h, hs => by
    simp only [Rx.T.sealed, Bool.or_eq_true, Bool.and_eq_true] at hs ⊢
    rcases hs with hs | hs
    · exact Or.inl (SLe.sealed h.2 hs)
    · exact Or.inr ⟨h.1.sf hs.1, SLe.all_isOp1 h.2 hs.2⟩
  | [], _ :: _, h, _ => h.elim
  | _ :: _, [], h, _ => h.elim

/-- A stage of a sealed chain that is not a single-input observer is the closed
    one, or lies above it. -/
theorem sealed_at : ∀ {l : List Stage} {j : Nat} {st : Stage}, sealed l = true → l[j]? = some st →
    st.isOp1 = false → st.sf = true ∨ fin (l.drop (j + 1)) = true
  | [], _, _, h, _, _ => by cases h
  | a :: r, 0, st, h, hj, hn => by
    simp only [List.getElem?_cons_zero, Option.some.injEq] at hj; subst hj
    simp only [sealed, Bool.or_eq_true, Bool.and_eq_true] at h
    rcases h with h | h
    · right; simpa using sealed_fin h
    · left; exact h.1
  | a :: r, j + 1, st, h, hj, hn => by
    simp only [List.getElem?_cons_succ] at hj
    simp only [sealed, Bool.or_eq_true, Bool.and_eq_true] at h
    rcases h with h | h
    · simpa using sealed_at h hj hn
    · have := List.all_eq_true.mp h.2 st (List.mem_of_getElem? hj)
      rw [hn] at this; cases this

/-! ### the synchronous head -/

def syncLen (l : List Stage) : Nat := (l.takeWhile Stage.isOp1).length

theorem SLe.syncLen : ∀ {a b : List Stage}, SLe a b → syncLen b = syncLen a
  | [], [], _ => rfl
  | x :: r, y :: r', h => by
    unfold Rx.T.syncLen
    simp only [List.takeWhile_cons, h.1.isOp1]
    cases x.isOp1
    · rfl
    · simpa [Rx.T.syncLen] using SLe.syncLen h.2
  | [], _ :: _, h => h.elim
  | _ :: _, [], h => h.elim

theorem syncLen_le_of_not_op1 : ∀ {l : List Stage} {j : Nat} {st : Stage}, l[j]? = some st →
    st.isOp1 = false → syncLen l ≤ j
  | [], _, _, h, _ => by simp at h
  | a :: r, 0, st, h, hn => by
    simp only [List.getElem?_cons_zero, Option.some.injEq] at h; subst h
    simp [syncLen, hn]
  | a :: r, j + 1, st, h, hn => by
    simp only [List.getElem?_cons_succ] at h
    have := syncLen_le_of_not_op1 h hn
    unfold syncLen at this ⊢
    simp only [List.takeWhile_cons]
    cases a.isOp1 <;> simp <;> omega

/-! ### iterators in second-input position -/

/-- Every iterator in second-input position has a finished observer. -/
def nq : List Stage → Bool
  | [] => true
  | st :: r => (!st.iterN || st.bfin (fin r)) && nq r

theorem SLe.nq : ∀ {a b : List Stage}, SLe a b → nq a = true → nq b = true
  | [], [], _, h => h
  | x :: r, y :: r', h, hq => by
    simp only [Rx.T.nq, Bool.and_eq_true, Bool.or_eq_true, Bool.not_eq_true'] at hq ⊢
    refine ⟨?_, SLe.nq h.2 hq.2⟩
    rw [h.1.iterN]
    rcases hq.1 with e | e
    · exact Or.inl e
    · exact Or.inr (Stage.bfin_mono y (SLe.fin h.2) (h.1.bfin _ e))
  | [], _ :: _, h, _ => h.elim
  | _ :: _, [], h, _ => h.elim

theorem nq_at : ∀ {l : List Stage} {j : Nat} {st : Stage}, nq l = true → l[j]? = some st →
    st.iterN = true → st.bfin (fin (l.drop (j + 1))) = true
  | [], _, _, _, h, _ => by simp at h
  | a :: r, 0, st, hq, hj, hi => by
    simp only [List.getElem?_cons_zero, Option.some.injEq] at hj; subst hj
    simp only [nq, Bool.and_eq_true, Bool.or_eq_true, Bool.not_eq_true'] at hq
    rcases hq.1 with e | e
    · rw [hi] at e; cases e
    · simpa using e
  | a :: r, j + 1, st, hq, hj, hi => by
    simp only [List.getElem?_cons_succ] at hj
    simp only [nq, Bool.and_eq_true] at hq
    simpa using nq_at hq.2 hj hi

/-! ### sources -/

/-- Producers that ask their observer's `is_finished()` before every item. -/
def TSrc.polls : TSrc → Bool
  | .interval _ _ => true
  | .iterc _ => true
  | .stream _ _ _ => true
  | _ => false

/-- The longest wait of the interval source between two polls of its observer. -/
def TSrc.bound : TSrc → Nat
  | .interval delay period => max (delay.getD period) period
  | _ => 0

end Rx.T
