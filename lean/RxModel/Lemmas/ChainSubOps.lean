import RxModel.Ops.Init
/-
  C09 over whole chains, part 1: the *filtering* class of single-input
  operators — the operators that only ever pass on items they received, in the
  order they received them, each at most once (filter, tap, on_error_map, take,
  take_while, skip, skip_while, take_last, skip_last, last, the distinct family).
  `St1.held` is what such an observer still keeps in its own buffer.

  Key fact (`St1.step_filtering`), valid for ANY notification in ANY state of
  the class (no well-formedness of the input is needed): what a step emits,
  followed by what is held afterwards, is a sublist of what was held before
  followed by the item that arrived.
-/
namespace Rx
open Spec

/-- Operators whose output items are a subsequence of their input items. -/
def Spec.Op1.filtering : Op1 → Bool
  | .filter _ => true
  | .tap => true
  | .onErrorMap _ => true
  | .take _ => true
  | .takeWhile _ _ => true
  | .skip _ => true
  | .skipWhile _ => true
  | .takeLast _ => true
  | .skipLast _ => true
  | .last => true
  | .distinct => true
  | .distinctKey _ => true
  | .distinctUntilChanged => true
  | .distinctUntilKeyChanged _ => true
  | _ => false

namespace St1

/-- The same class on observer states (by constructor). -/
def filtering : St1 → Bool
  | .filter _ => true
  | .tap _ => true
  | .onErrorMap _ => true
  | .onComplete _ => true
  | .onError _ => true
  | .take _ _ _ => true
  | .takeWhile _ _ _ => true
  | .skip _ _ => true
  | .skipWhile _ _ => true
  | .takeLast _ _ => true
  | .skipLast _ _ => true
  | .last _ => true
  | .distinct _ => true
  | .distinctKey _ _ => true
  | .distinctUntilChanged _ => true
  | .distinctUntilKeyChanged _ _ => true
  | _ => false

/-- Items buffered inside the observer. -/
def held : St1 → List Val
  | .takeLast _ q => q
  | .skipLast _ q => q
  | .last l => l.toList
  | _ => []

theorem lastN_sublist (n : Nat) (l : List Val) : (lastN n l).Sublist l := List.drop_sublist _ _

theorem onNext_filtering (st : St1) (v : Val) (h : st.filtering = true) :
    (st.onNext v).1.filtering = true ∧
      (items (st.onNext v).2 ++ (st.onNext v).1.held).Sublist (st.held ++ [v]) := by
  cases st with
  | filter p => by_cases hp : p v = true <;> simp [onNext, filtering, held, items, hp]
  | tap c => simp [onNext, filtering, held, items]
  | onErrorMap f => simp [onNext, filtering, held, items]
  | onComplete c => simp [onNext, filtering, held, items]
  | onError c => simp [onNext, filtering, held, items]
  | take count hits alive =>
    simp only [onNext]
    repeat' split
    all_goals simp [filtering, held, items]
  | takeWhile p incl alive =>
    simp only [onNext]
    repeat' split
    all_goals simp [filtering, held, items]
  | skip count hits =>
    simp only [onNext]
    repeat' split
    all_goals simp [filtering, held, items]
  | skipWhile p done =>
    simp only [onNext]
    repeat' split
    all_goals simp [filtering, held, items]
  | takeLast count q =>
    refine ⟨rfl, ?_⟩
    simpa [onNext, held, items] using lastN_sublist count (q ++ [v])
  | skipLast cd q =>
    simp only [onNext]
    split
    · split
      · next h t he => simp [filtering, held, items, he]
      · simp [filtering, held, items]
    · simp [filtering, held, items]
  | last l => cases l <;> simp [onNext, filtering, held, items]
  | distinct seen =>
    simp only [onNext]
    split <;> simp [filtering, held, items]
  | distinctKey key seen =>
    simp only [onNext]
    split <;> simp [filtering, held, items]
  | distinctUntilChanged l =>
    simp only [onNext]
    split <;> simp [filtering, held, items]
  | distinctUntilKeyChanged key l =>
    simp only [onNext]
    repeat' split
    all_goals simp [filtering, held, items]
  | _ => simp [filtering] at h

theorem onError_filtering (st : St1) (e : Err) (h : st.filtering = true) :
    (st.onError' e).1.filtering = true ∧
      (items (st.onError' e).2 ++ (st.onError' e).1.held).Sublist st.held := by
  cases st with
  | take count hits alive => cases alive <;> simp [onError', filtering, held, items]
  | takeWhile p incl alive => cases alive <;> simp [onError', filtering, held, items]
  | last l => cases l <;> simp [onError', filtering, held, items]
  | _ => first | (simp [filtering] at h; done) | simp [onError', filtering, held, items]

theorem items_nexts_snoc (q : List Val) (n : Notif) (hn : n.isTerm = true) :
    items (q.map Notif.next ++ [n]) = q := by
  rw [items_append, items_nexts]
  cases n <;> simp_all [items, Notif.isTerm]

theorem onComplete_filtering (st : St1) (h : st.filtering = true) :
    (st.onComplete').1.filtering = true ∧
      (items (st.onComplete').2 ++ (st.onComplete').1.held).Sublist st.held := by
  cases st with
  | take count hits alive => cases alive <;> simp [onComplete', filtering, held, items]
  | takeWhile p incl alive => cases alive <;> simp [onComplete', filtering, held, items]
  | takeLast count q =>
    refine ⟨rfl, ?_⟩
    simp only [onComplete', held, List.append_nil]
    rw [items_nexts_snoc q _ rfl]
    exact List.Sublist.refl _
  | last l => cases l <;> simp [onComplete', filtering, held, items]
  | _ => first | (simp [filtering] at h; done) | simp [onComplete', filtering, held, items]

/-- One notification: the class is closed, and `emitted ++ held' ⊑ held ++ arrived`. -/
theorem step_filtering (st : St1) (n : Notif) (h : st.filtering = true) :
    (st.step n).1.filtering = true ∧
      (items (st.step n).2 ++ (st.step n).1.held).Sublist (st.held ++ items [n]) := by
  cases n with
  | next v => exact onNext_filtering st v h
  | error e => simpa [step, items] using onError_filtering st e h
  | complete => simpa [step, items] using onComplete_filtering st h

/-- A whole input: `emitted ++ held' ⊑ held ++ items input`. -/
theorem run_filtering (st : St1) (inp : List Notif) (h : st.filtering = true) :
    (st.run inp).1.filtering = true ∧
      (items (st.run inp).2 ++ (st.run inp).1.held).Sublist (st.held ++ items inp) := by
  induction inp generalizing st with
  | nil => simp [run, h, items]
  | cons n r ih =>
    obtain ⟨h1, h2⟩ := step_filtering st n h
    obtain ⟨h3, h4⟩ := ih (st.step n).1 h1
    refine ⟨h3, ?_⟩
    simp only [run, items_append, List.append_assoc]
    have e : items (n :: r) = items [n] ++ items r := by
      rw [← items_append]; rfl
    rw [e, ← List.append_assoc]
    have h5 := (List.Sublist.append (List.Sublist.refl (items (st.step n).2)) h4).trans
      (by rw [← List.append_assoc]; exact List.Sublist.append h2 (List.Sublist.refl _))
    simpa only [List.append_assoc] using h5

end St1

theorem Spec.Op1.init_filtering (op : Op1) : op.init.filtering = op.filtering := by
  cases op <;> rfl

theorem Spec.Op1.init_held (op : Op1) : op.init.held = [] := by
  cases op <;> rfl

/-- The items a filtering operator emits are a subsequence of the items it received. -/
theorem filtering_run_sublist (op : Op1) (h : op.filtering = true) (inp : List Notif) :
    (items (St1.run op.init inp).2).Sublist (items inp) := by
  have := (St1.run_filtering op.init inp (by rw [op.init_filtering]; exact h)).2
  rw [op.init_held] at this
  exact (List.sublist_append_left _ _).trans (by simpa using this)

/-- … and so for a chain of observers of the class, in any states with empty buffers. -/
theorem filtering_runChain_sublist (sts : List St1)
    (h : ∀ st ∈ sts, st.filtering = true ∧ st.held = []) (inp : List Notif) :
    (items (runChain sts inp).2).Sublist (items inp) := by
  induction sts generalizing inp with
  | nil => exact List.Sublist.refl _
  | cons st r ih =>
    have h1 := (St1.run_filtering st inp (h st (by simp)).1).2
    rw [(h st (by simp)).2] at h1
    have h2 := ih (fun s hs => h s (by simp [hs])) (st.run inp).2
    simp only [runChain]
    exact h2.trans ((List.sublist_append_left _ _).trans (by simpa using h1))

end Rx
