import RxModel.Lemmas.ChainQuietSource
/-
  C02 / C17 over the chain model, part 10: `subscribeFrom`.
-/
namespace Rx.T
open Rx

theorem toList_nil {α} {o : Option α} (h : o.toList = []) : o = none := by
  cases o <;> simp at h ⊢

theorem subscribeFrom_good {r : Option TaskId} (j : Nat) :
    ∀ w : TW, GoodW r w → PristineBelow w.info w.stages j → ReachedW r w j →
      GoodW r (w.subscribeFrom j) ∧ FrU j w (w.subscribeFrom j) := by
  induction j with
  | zero =>
    intro w g hp hr
    exact subscribeSource_good g hr hp.1
  | succ j ih =>
    intro w g hp hr
    have hp' : PristineBelow w.info w.stages j := hp.mono (Nat.le_succ _)
    unfold TW.subscribeFrom
    split
    · -- bufTime
      rename_i d cnt alive data t hj
      have ht : t = none := toList_nil (hp.2.2 j _ (Nat.lt_succ_self _) hj).1
      subst ht
      have g1 : GoodW r (({ w with sched := (w.sched.scheduleRepeat (.bufTick j) d none).1 } : TW).setStage j
          (.bufTime d cnt alive data (some (w.sched.scheduleRepeat (.bufTick j) d none).2))) :=
        Good.stage_spawn g hj (scheduleRepeat_tasks _ _ _ _ _) rfl rfl rfl rfl
          (by simp [Stage.handles, scheduleRepeat_id]) (by simp [Stage.handles, scheduleRepeat_id])
          (by simp [Stage.handles]) rfl trivial hr (Or.inl rfl)
      have f1 : Fr w (({ w with sched := (w.sched.scheduleRepeat (.bufTick j) d none).1 } : TW).setStage j
          (.bufTime d cnt alive data (some (w.sched.scheduleRepeat (.bufTick j) d none).2))) :=
        ⟨map_set_same _ _ _ _ _ hj rfl, map_set_same _ _ _ _ _ hj rfl,
          SubKeep.of_append (scheduleRepeat_tasks _ _ _ _ _), rfl, ⟨rfl, rfl, rfl⟩⟩
      have hr1 := (hr.frame g f1).step_down (j := j) (by
        intro st hs
        have : st = .bufTime d cnt alive data (some (w.sched.scheduleRepeat (.bufTick j) d none).2) := by
          have h2 := set_get_self w.stages j _ (.bufTime d cnt alive data
            (some (w.sched.scheduleRepeat (.bufTick j) d none).2)) hj
          simp only [setStage_stages] at hs
          rw [h2] at hs; cases hs; rfl
        subst this; rfl)
      obtain ⟨g2, f2⟩ := ih _ g1 (hp'.of_low (fun i hi => set_get_ne _ _ _ _ (by omega))) hr1
      exact ⟨g2, (f1.toU (j + 1)).trans (f2.mono (Nat.le_succ _))⟩
    · -- subscribeOn
      rename_i delay t hj
      have ht : t = none := toList_nil (hp.2.2 j _ (Nat.lt_succ_self _) hj).1
      subst ht
      refine ⟨?_, ?_⟩
      · exact Good.stage_spawn g hj (scheduleOnce_tasks _ _ _) rfl rfl rfl rfl
          (by simp [Stage.handles]) (by simp [Stage.handles])
          (by simp [Stage.handles]) rfl trivial hr (Or.inr hp')
      · exact ⟨fun i hi => by rw [setStage_low _ _ _ _ (by omega)],
          fun i hi => by rw [setStage_low _ _ _ _ (by omega)],
          SubKeep.of_append (scheduleOnce_tasks _ _ _), ⟨rfl, rfl, rfl⟩⟩
    · -- op2n
      rename_i st ns na nt hj
      have hnt0 : nt = none := toList_nil (hp.2.2 j _ (Nat.lt_succ_self _) hj).1
      subst hnt0
      have hsub : ∀ st', w.stages[j]? = some st' → st'.subH = none := by
        intro st' hs; rw [hj] at hs; cases hs; rfl
      split
      · -- first input first
        obtain ⟨g1, f1⟩ := ih w g hp' (hr.step_down hsub)
        have hnt : ∀ st' ns' na' nt', (w.subscribeFrom j).stages[j]? = some (.op2n st' ns' na' nt') →
            nt' = none := by
          intro st' ns' na' nt' hs
          have := f1.n2 j (Nat.le_refl _)
          rw [hs, hj] at this
          simp [Stage.n2] at this
          exact this.2.2
        obtain ⟨g2, f2⟩ := subscribeNotifier_good j g1 (hr.frameU g f1 (Nat.le_succ _)) hnt
        exact ⟨g2, (f1.mono (Nat.le_succ _)).trans f2.toU⟩
      · -- second input first
        obtain ⟨g1, f1⟩ := subscribeNotifier_good j g hr (fun _ _ _ _ hs => by
          rw [hj] at hs; cases hs; rfl)
        have hr1 : ReachedW r (w.subscribeNotifier j) j := by
          apply Reached.step_down (Reached.frame hr g f1.subH f1.keep)
          intro st' hs
          have := map_get Stage.subH f1.subH j
          rw [hs, hj] at this
          simpa [Stage.subH] using this
        obtain ⟨g2, f2⟩ := ih _ g1 (by rw [f1.info]; exact hp'.of_low f1.low) hr1
        exact ⟨g2, f1.toU.trans (f2.mono (Nat.le_succ _))⟩
    · -- any other stage (or none)
      rename_i h1 h2 h3
      have hsub : ∀ st', w.stages[j]? = some st' → st'.subH = none := by
        intro st' hs
        cases st' with
        | subscribeOn d t => exact absurd hs (h2 d t)
        | _ => rfl
      obtain ⟨g1, f1⟩ := ih w g hp' (hr.step_down hsub)
      exact ⟨g1, f1.mono (Nat.le_succ _)⟩

end Rx.T
