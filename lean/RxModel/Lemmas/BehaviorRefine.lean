import RxModel.Lemmas.SubjectRefine
import RxModel.Spec.BehaviorSpec
namespace Rx.Subj

def BState.babs (b : BState) : BAbs := ⟨b.subject.abs, b.value⟩

theorem bapply_sim (b : BState) (hI : Inv b.subject) (hp : b.subject.panicked = false) (op : BOp) :
    (b.apply op).2 = (b.babs.apply op).2 ∧ (b.apply op).1.babs = (b.babs.apply op).1 ∧
    Inv (b.apply op).1.subject := by
  cases op with
  | subscribe sc =>
    have h := abs_subscribe b.subject hI sc [.next b.value]
    refine ⟨?_, ?_, h.2⟩
    · simp [BState.apply, BState.subscribe, BAbs.apply, BState.babs, State.abs]
    · simp only [BState.apply, BState.subscribe, BAbs.apply, BState.babs, h.1]
  | unsubOne i =>
    have h := abs_killSlot b.subject hI i
    exact ⟨rfl, by simp only [BState.apply, BAbs.apply, BState.babs, h.1], h.2⟩
  | next v =>
    have h := next_sim b.subject hI hp (some v) v
    exact ⟨h.1, by simp only [BState.apply, BState.next, BAbs.apply, BAbs.next, BState.babs, h.2.1], h.2.2⟩
  | nextBy f =>
    have h := next_sim b.subject hI hp (some (f b.value)) (f b.value)
    exact ⟨h.1, by simp only [BState.apply, BState.next, BState.peek, BAbs.apply, BAbs.next, BState.babs, h.2.1],
      h.2.2⟩
  | error e =>
    have h := terminal_sim b.subject hI hp (.error e)
    exact ⟨h.1, by simp only [BState.apply, BAbs.apply, BState.babs, h.2.1], h.2.2⟩
  | complete =>
    have h := terminal_sim b.subject hI hp .complete
    exact ⟨h.1, by simp only [BState.apply, BAbs.apply, BState.babs, h.2.1], h.2.2⟩
  | unsubscribe =>
    have h := unsubscribe_sim b.subject
    exact ⟨rfl, by simp only [BState.apply, BAbs.apply, BState.babs, h.1], h.2⟩
  | clone => exact ⟨rfl, rfl, hI⟩
  | peek => exact ⟨rfl, rfl, hI⟩

theorem bstep_sim (b : BState) (hI : Inv b.subject) (hp : b.subject.panicked = false) (op : BOp) :
    (bstep b op).2.vis = (b.babs.step op).2 ∧ (bstep b op).1.babs = (b.babs.step op).1 ∧
    Inv (bstep b op).1.subject := by
  obtain ⟨h1, h2, h3⟩ := bapply_sim b hI hp op
  refine ⟨?_, h2, h3⟩
  simp only [bstep, BAbs.step, BOutput.vis, Output.vis, State.output, len?_some _ h3, Bool.or_false,
    BState.peek]
  rw [← h2, h1]
  rfl

theorem brunFrom_refines : ∀ (ops : List BOp) (b : BState), Inv b.subject → b.subject.panicked = false →
    (brunFrom b ops).map BOutput.vis = BAbs.runFrom b.babs ops
  | [], _, _, _ => rfl
  | op :: r, b, hI, hp => by
    obtain ⟨h1, h2, h3⟩ := bstep_sim b hI hp op
    have hpan : (bstep b op).2.out.panic = (b.babs.step op).2.out.panic := by rw [← h1]; rfl
    unfold brunFrom BAbs.runFrom
    simp only [hpan]
    by_cases hq : (b.babs.step op).2.out.panic = true
    · simp only [if_pos hq, List.map_cons, List.map_nil, h1]
    · simp only [if_neg hq, List.map_cons, h1]
      have hp' : (bstep b op).1.subject.panicked = false := by
        have : (b.babs.step op).2.out.panic = (bstep b op).1.subject.panicked := by
          show (b.babs.step op).1.abs.panicked = _
          rw [← h2]; rfl
        rw [← this]; simpa using hq
      rw [brunFrom_refines r (bstep b op).1 h3 hp', h2]

end Rx.Subj
