import RxModel.Lemmas.MergeAllOrderCold
import RxModel.Lemmas.MergeAllOrderErrCold
import RxModel.Lemmas.MergeAllOrderBlocksStep
/-
  C05O — glue between the invariants and the property statements: the t-th
  arrival of a history, the sequence an inner observable produces, the start
  at arrival, consequences of the log shape.
-/
namespace Rx.MergeAll

/-- The arrival event `outerNext k` after `pre` (outer slot open, data alive,
    not stuck) is the only accepted arrival with that tag in the whole history. -/
theorem arrival_tag_unique (f : Bool) (s0 : St) (pre post : List Ev) (k : Nat)
    (hs : (runG f s0 pre).1.stuck = false) (ho : (runG f s0 pre).1.outerOpen = true)
    (ha : (runG f s0 pre).1.alive = true) :
    (∀ i ∈ arrivalsOf (runL f s0 (pre ++ .outerNext k :: post)),
      i.tag = (runG f s0 pre).1.arrivals → i = ⟨(runG f s0 pre).1.arrivals, k⟩) ∧
    (⟨(runG f s0 pre).1.arrivals, k⟩ : Inst) ∈ arrivalsOf (runL f s0 (pre ++ .outerNext k :: post)) := by
  have hstep : arrivalsOf (stepL f (runG f s0 pre).1 (.outerNext k)) =
      [⟨(runG f s0 pre).1.arrivals, k⟩] := by
    rw [arrivalsOf_stepL]; simp [hs, ho, ha]
  constructor
  · intro i hi ht
    rw [runL_append] at hi
    simp only [runL, arrivalsOf_append, List.mem_append] at hi
    rcases hi with hi | hi | hi
    · have := ((runL_arrivals_sorted f pre s0).2 i hi).2; omega
    · rw [hstep] at hi
      simpa using hi
    · have := ((runL_arrivals_sorted f post _).2 i hi).1
      rw [stepG_arrivals_succ f _ k hs ho] at this; omega
  · rw [runL_append]
    simp only [runL, arrivalsOf_append, List.mem_append]
    exact Or.inr (Or.inl (by rw [hstep]; simp))

/-- Items hot subject `j` emits along a history. -/
def emitted (j : Nat) : List Ev → List Val
  | [] => []
  | .innerNext j' v :: r => if j' = j then v :: emitted j r else emitted j r
  | _ :: r => emitted j r

/-- The sequence an inner observable produces: a cold one its script, a hot one
    whatever its subject emits during the history. -/
def innerSeq (i : Inner) (evs : List Ev) : List Val :=
  match i with
  | .cold xs _ => xs
  | .hot j => emitted j evs

theorem hotSpec_sublist (f : Bool) (j t : Nat) (evs : List Ev) : ∀ (s : St) (ph : Phase),
    (hotSpec j t ph (trace f s evs)).Sublist (emitted j evs) := by
  induction evs with
  | nil => intro s ph; exact List.Sublist.slnil
  | cons ev r ih =>
    intro s ph
    simp only [trace, hotSpec]
    have h2 := ih (stepG f s ev).1 (ph.next j t ev (stepL f s ev))
    cases ev with
    | innerNext j' v =>
      simp only [emitted]
      cases ph with
      | live =>
        simp only [Phase.hears]
        by_cases hj : j' = j
        · simp only [hj, if_true]
          exact List.Sublist.cons_cons _ (by simpa [hj] using h2)
        · simp only [hj, if_false]
          simpa using h2
      | idle d =>
        simp only [Phase.hears, List.nil_append]
        split
        · exact List.Sublist.cons _ h2
        · exact h2
      | over =>
        simp only [Phase.hears, List.nil_append]
        split
        · exact List.Sublist.cons _ h2
        · exact h2
    | outerNext k => cases ph <;> simpa [Phase.hears, emitted] using h2
    | outerError e => cases ph <;> simpa [Phase.hears, emitted] using h2
    | outerComplete => cases ph <;> simpa [Phase.hears, emitted] using h2
    | innerError j' e => cases ph <;> simpa [Phase.hears, emitted] using h2
    | innerComplete j' => cases ph <;> simpa [Phase.hears, emitted] using h2
    | unsub => cases ph <;> simpa [Phase.hears, emitted] using h2

/-- The start of an accepted arrival: at once if a slot is free, otherwise the
    instance goes to the back of the queue and nothing starts. -/
theorem start_now_or_queued (f : Bool) (s : St) (k : Nat) (hs : s.stuck = false)
    (ho : s.outerOpen = true) (ha : s.alive = true) :
    (s.subscribed < s.concurrent →
      ∃ l, stepL f s (.outerNext k) = .arrive ⟨s.arrivals, k⟩ :: .start ⟨s.arrivals, k⟩ :: l) ∧
    (¬ s.subscribed < s.concurrent →
      stepL f s (.outerNext k) = [.arrive ⟨s.arrivals, k⟩] ∧
      (stepG f s (.outerNext k)).1.queue = s.queue ++ [⟨s.arrivals, k⟩]) := by
  have h1 : ¬ s.stuck = true := by simp [hs]
  have h2 : ¬ (!s.outerOpen) = true := by simp [ho]
  have h3 : ¬ (!s.alive) = true := by simp [ha]
  unfold stepL stepG
  rw [if_neg h1, if_neg h1]
  simp only [outerNextL, outerNext]
  rw [if_neg h2, if_neg h2, if_neg h3, if_neg h3]
  constructor
  · intro hlt
    rw [if_pos hlt]
    simp only [startTopL]
    exact ⟨_, rfl⟩
  · intro hlt
    rw [if_neg hlt, if_neg hlt]
    exact ⟨rfl, rfl⟩

/-- After a terminal nothing is logged any more. -/
theorem runL_after_term (f : Bool) (s : St) (pre post : List Ev)
    (h : hasTerm (runL f s pre) = true) : runL f s (pre ++ post) = runL f s pre := by
  rw [runL_append]
  have hd := (runG_shape f pre s)
  rcases hd with ⟨a, _⟩ | ⟨_, _, _, _, _, b⟩
  · rw [a] at h; cases h
  · rw [(runG_deadO f post _ b).1, List.append_nil]

theorem hasTerm_iff_outs (l : List Lab) :
    hasTerm l = true ↔ (Out.complete ∈ outs l ∨ ∃ e, Out.error e ∈ outs l) := by
  induction l with
  | nil => simp [outs]
  | cons x r ih =>
    rw [hasTerm_cons]
    cases x with
    | arrive i => simpa [outs, Lab.isTerm] using ih
    | start i => simpa [outs, Lab.isTerm] using ih
    | out o =>
      cases o with
      | item t v => simpa [outs, Lab.isTerm] using ih
      | error e => simp [outs, Lab.isTerm]
      | complete => simp [outs, Lab.isTerm]

/-- Scripts of cold inners that complete, one after the other. -/
def Inner.script : Inner → List Val
  | .cold xs _ => xs
  | .hot _ => []

theorem coldExpected_all_complete (inner : Nat → Inner) (ks : List Nat) : ∀ t : Nat,
    (∀ k ∈ ks, ∃ xs, inner k = .cold xs .complete) →
    (coldExpected inner t (ks.map Ev.outerNext ++ [.outerComplete])).map Out.toNotif =
      (ks.flatMap (fun k => (inner k).script)).map Notif.next ++ [.complete] := by
  induction ks with
  | nil => intro t _; rfl
  | cons k r ih =>
    intro t h
    obtain ⟨xs, hk⟩ := h k (List.mem_cons_self ..)
    have := ih (t + 1) (fun k' hk' => h k' (List.mem_cons_of_mem _ hk'))
    simp only [List.map_cons, List.cons_append, coldExpected, hk, List.map_append, this,
      List.flatMap_cons, Inner.script, List.append_assoc]
    simp [Out.toNotif]

/-! ### Error events -/

theorem error_outer_step (f : Bool) (s : St) (e : Err) (hs : s.stuck = false)
    (ho : s.outerOpen = true) (ha : s.alive = true) :
    (stepG f s (.outerError e)).2 = [.error e] ∧ (stepG f s (.outerError e)).1.alive = false := by
  simp [stepG, outerError, hs, ho, ha]

theorem error_hot_step (f : Bool) (s : St) (j t : Nat) (e : Err) (hs : s.stuck = false)
    (hl : Listening s j t) :
    (stepG f s (.innerError j e)).2 = [.error e] ∧ (stepG f s (.innerError j e)).1.alive = false := by
  obtain ⟨ha, hm, hd⟩ := hl
  have h1 : ¬ s.stuck = true := by simp [hs]
  have h2 : ¬ s.dead.contains j = true := by rw [hd]; simp
  have hmem : (j, t) ∈ targets s j := List.mem_filter.mpr ⟨hm, by simp⟩
  have hne : targets s j ≠ [] := fun h => by rw [h] at hmem; cases hmem
  have ho := errorAll_out e (targets s j)
    { s with dead := j :: s.dead, subs := s.subs.filter (fun p => !(p.1 == j)) }
  unfold stepG
  rw [if_neg h1]
  simp only [hotError]
  rw [if_neg h2, ho.1, ho.2.1]
  constructor
  · exact if_pos ⟨ha, hne⟩
  · cases htt : targets s j with
    | nil => exact absurd htt hne
    | cons a b => simp

theorem error_hot_unheard (f : Bool) (s : St) (j : Nat) (e : Err)
    (hn : ∀ t, ¬ Listening s j t) : (stepG f s (.innerError j e)).2 = [] := by
  unfold stepG
  split
  · rfl
  · simp only [hotError]
    split
    · rfl
    · rename_i hd
      have ho := errorAll_out e (targets s j)
        { s with dead := j :: s.dead, subs := s.subs.filter (fun p => !(p.1 == j)) }
      rw [ho.1]
      apply if_neg
      rintro ⟨ha, hne⟩
      cases htt : targets s j with
      | nil => exact hne htt
      | cons p r =>
        have hp : p ∈ targets s j := by rw [htt]; exact List.mem_cons_self ..
        have hp' := List.mem_filter.mp hp
        have hj : p.1 = j := by simpa using hp'.2
        refine hn p.2 ⟨ha, ?_, by simpa using hd⟩
        rw [← hj]; exact hp'.1

/-- What precedes the error block of a started cold inner contains no terminal. -/
theorem errblock_prefix_clean (f : Bool) (s : St) (evs : List Ev) (i : Inst) (xs : List Val)
    (e : Err) (L1 : List Lab)
    (h : runL f s evs = L1 ++ Lab.start i :: (itemsL i.tag xs ++ [Lab.out (.error e)])) :
    hasTerm L1 = false := by
  have hsh := runG_shape f evs s
  have hT : hasTerm (runL f s evs) = true := by
    rw [h]; simp [hasTerm_append, hasTerm_cons, Lab.isTerm]
  rcases hsh with ⟨a, _⟩ | ⟨l', x, e1, _, a1, _⟩
  · rw [a] at hT; cases hT
  · have he : l' ++ [x] = (L1 ++ Lab.start i :: itemsL i.tag xs) ++ [Lab.out (.error e)] := by
      rw [← e1, h]; simp
    have := (List.append_inj' he rfl).1
    rw [this, hasTerm_append] at a1
    cases hL : hasTerm L1 with
    | false => rfl
    | true => rw [hL] at a1; simp at a1

theorem coldExpected_complete_mem (inner : Nat → Inner) (evs : List Ev) : ∀ t : Nat,
    (∀ k, Ev.outerNext k ∈ evs → ∃ xs, inner k = .cold xs .complete) →
    (∀ ev ∈ evs, Ev.benign ev = true) → Ev.outerComplete ∈ evs →
    Out.complete ∈ coldExpected inner t evs := by
  induction evs with
  | nil => intro t _ _ h; cases h
  | cons ev r ih =>
    intro t hc hb ho
    have hc' : ∀ k, Ev.outerNext k ∈ r → ∃ xs, inner k = .cold xs .complete :=
      fun k hk => hc k (List.mem_cons_of_mem _ hk)
    have hb' : ∀ ev ∈ r, Ev.benign ev = true := fun e he => hb e (List.mem_cons_of_mem _ he)
    have hbe := hb ev (List.mem_cons_self ..)
    cases ev with
    | outerNext k =>
      obtain ⟨xs, hk⟩ := hc k (List.mem_cons_self ..)
      have ho' : Ev.outerComplete ∈ r := by simpa using ho
      simp only [coldExpected, hk, List.mem_append]
      exact Or.inr (ih _ hc' hb' ho')
    | outerError e => simp [Ev.benign] at hbe
    | outerComplete => simp [coldExpected]
    | innerNext j v =>
      have ho' : Ev.outerComplete ∈ r := by simpa using ho
      simpa [coldExpected] using ih t hc' hb' ho'
    | innerError j e => simp [Ev.benign] at hbe
    | innerComplete j =>
      have ho' : Ev.outerComplete ∈ r := by simpa using ho
      simpa [coldExpected] using ih t hc' hb' ho'
    | unsub => simp [Ev.benign] at hbe

end Rx.MergeAll
