import RxModel.Lemmas.TimeStepsQuiet
/-
  Helper lemmas for Props/C09S.lean: debounce / throttle on threads never deliver an item more often than it was
  emitted.  A token argument: every emitted item is, at every moment of every schedule, in at most one place — still
  in a thread's operation list, on its way through the subject, in the candidate cell, in the hands of a thread that
  is about to deliver it, or in the log — and the number of places never grows.
-/
namespace Rx.Conc.TS
open Rx

/-- the item `v` in the shared state: as the trailing candidate, and as often as it stands in the log -/
def tokS (v : Val) (s : St) : Nat :=
  (if s.trailing = some v then 1 else 0) + s.log.count (.n (.next v))

/-- the item `v` in the hands of a thread standing at a program counter.  (With a trailing edge the emitter has put
    the item into the candidate cell at `th_trail`; from then on it only LOOKS at the window.) -/
def tok (K : Conf) (v : Val) : Pc → Nat
  | .sj_load n | .sj_chamber n | .sj_obs n => if n = .next v then 1 else 0
  | .sj_slot x | .db_trail x | .th_trail x | .th_ldown x | .tc_dnext x | .p_down _ x _ => if x = v then 1 else 0
  | .th_hcell x | .th_closed _ x | .th_ltrail x => if x = v ∧ K.tail = false then 1 else 0
  | _ => 0

/-- the emitter of `x` between its store of the candidate and its decision about the leading edge -/
def Pc.owner (x : Val) : Pc → Bool
  | .th_hcell y | .th_closed _ y | .th_ltrail y => y == x
  | _ => false

@[simp] theorem tokS_setHeld (v : Val) (s : St) (i : Tid) (cells : List Cell) :
    tokS v (s.setHeld i cells) = tokS v s := rfl

@[simp] theorem tokS_upd (v : Val) (s : St) (k : Nat) (f : Task → Task) : tokS v (s.upd k f) = tokS v s := rfl

@[simp] theorem tokS_spawn (v : Val) (s : St) (d : Option Nat) (b : Body) : tokS v (s.spawn d b).1 = tokS v s := rfl

theorem tokS_deliver_le (v : Val) (s : St) (n : Notif) :
    tokS v (s.deliver n) ≤ tokS v s + (if n = .next v then 1 else 0) := by
  unfold tokS St.deliver
  split
  · simp only [List.count_append, List.count_cons, List.count_nil]
    by_cases h : n = .next v
    · subst h; simp only [BEq.rfl, if_true]; omega
    · have : (Item.n n == Item.n (Notif.next v)) = false := by
        simp only [beq_eq_false_iff_ne, ne_eq, Item.n.injEq]; exact h
      simp only [this, h, if_false, Bool.false_eq_true]; omega
  · omega

@[simp] theorem tokS_beginPoll (v : Val) (s : St) (k : Nat) : tokS v (s.beginPoll k) = tokS v s := rfl

@[simp] theorem tokS_fireTimer (v : Val) (s : St) (j : Nat) : tokS v (s.fireTimer j) = tokS v s := by
  unfold St.fireTimer; split
  · rfl
  · split <;> rfl

@[simp] theorem tokS_foldl_fireTimer (v : Val) (l : List Nat) : ∀ s : St, tokS v (l.foldl St.fireTimer s) = tokS v s := by
  induction l with
  | nil => intro s; rfl
  | cons a r ih => intro s; rw [List.foldl_cons, ih, tokS_fireTimer]

@[simp] theorem tok_afterTrail (K : Conf) (v : Val) : tok K v (afterTrail K) = 0 := by
  unfold afterTrail; split <;> rfl

@[simp] theorem tok_retPc (K : Conf) (v : Val) (r : Ret) : tok K v (retPc r) = 0 := by
  cases r <;> rfl

@[simp] theorem tok_uSecond (K : Conf) (v : Val) (b : Bool) : tok K v (uSecond K b) = 0 := by
  unfold uSecond; split <;> rfl

@[simp] theorem tok_uAfter (K : Conf) (v : Val) (b : Bool) : tok K v (uAfter b) = 0 := by
  unfold uAfter; split <;> rfl

/-- **One step never multiplies an item.**  What the step leaves in the shared state plus what the thread holds
    afterwards is at most what there was before. -/
theorem step_tok (K : Conf) (hO : K.order = .original) (v : Val) (s : St) (p : Pc) (hok : p.okH = true)
    (hA1 : ∀ x, K.tail = true → p.owner x = true → s.trailing = some x ∨ s.trailing = none)
    (hA2 : ∀ x, p = .th_trail x → K.tail = true) :
    tokS v (step K s p).1 + tok K v (step K s p).2 ≤ tokS v s + tok K v p := by
  have hd := fun n => tokS_deliver_le v s n
  cases p
  case th_ldown x =>
    simp only [step, tok, tokS_spawn]
    have := hd (.next x)
    simp only [Notif.next.injEq] at this
    omega
  case tc_dnext x =>
    have := hd (.next x)
    simp only [Notif.next.injEq] at this
    simp only [step, tok_afterTrail]
    simp only [tok]
    omega
  case tc_down =>
    have := hd .complete
    simp only [step, tok]
    simp at this; omega
  case te_down e =>
    have := hd (.error e)
    simp only [step, tok]
    simp at this
    cases K.kind <;> simp only [tok] <;> omega
  case p_down k x ret =>
    have := hd (.next x)
    simp only [Notif.next.injEq] at this
    simp only [step, tok, tokS_upd]
    omega
  case p_emit => simp [Pc.okH] at hok
  case u_mc => simp [Pc.okH] at hok
  case u_multi => simp [Pc.okH] at hok
  case dl_retain => simp [Pc.okH] at hok
  case dl_append => simp [Pc.okH] at hok
  case dl_late => simp [Pc.okH] at hok
  all_goals
    simp only [step, thOver, nextEntry, termEntry, tok_afterTrail, tok_retPc, tok_uSecond, tok_uAfter]
  all_goals (repeat' split)
  all_goals
    try simp only [tok_afterTrail, tok_retPc, tok_uSecond, tok_uAfter, tokS_beginPoll, tokS_fireTimer,
      tokS_foldl_fireTimer, tokS_upd, tokS_spawn]
  all_goals (try simp only [tok, tokS, List.count_append, List.count_cons, List.count_nil])
  all_goals (try omega)
  all_goals (try (simp_all [Conf.tail, Pc.owner]; done))
  case db_trail x =>
    by_cases hx : x = v <;> simp [hx] <;> split <;> omega
  case th_trail x =>
    have ht := hA2 x rfl
    by_cases hx : x = v <;> simp [hx, ht] <;> split <;> omega
  case th_ltrail.isTrue x hc =>
    by_cases ht : K.tail = true
    · -- with a trailing edge the emitter finds its OWN item in the cell, or nothing
      have hs : s.trailing.isSome = true := by simpa [ht, hO] using hc
      rcases hA1 x ht (by simp [Pc.owner]) with e | e
      · by_cases hx : x = v <;> simp [hx, e, ht] <;> omega
      · simp [e] at hs
    · have ht' : K.tail = false := by simpa using ht
      by_cases hx : x = v <;> simp [hx, ht'] <;> split <;> omega
  all_goals
    rename_i x hx
    by_cases e : x = v <;> simp [hx, e] <;> omega

@[simp] theorem deliver_trailing (s : St) (n : Notif) : (s.deliver n).trailing = s.trailing := by
  unfold St.deliver; split <;> rfl

@[simp] theorem upd_trailing (s : St) (k : Nat) (f : Task → Task) : (s.upd k f).trailing = s.trailing := rfl

@[simp] theorem fireTimer_trailing (s : St) (j : Nat) : (s.fireTimer j).trailing = s.trailing := by
  unfold St.fireTimer; split
  · rfl
  · split <;> rfl

@[simp] theorem foldl_fireTimer_trailing (l : List Nat) : ∀ s : St, (l.foldl St.fireTimer s).trailing = s.trailing := by
  induction l with
  | nil => intro s; rfl
  | cons a r ih => intro s; rw [List.foldl_cons, ih, fireTimer_trailing]

/-! ### what the emitter knows about the candidate cell -/

/-- Between its store of the candidate and its decision about the leading edge the emitter of `x` finds in the cell
    its own item or nothing (only the window task can have been there); `th_trail` is reached with a trailing edge only. -/
structure OInv (K : Conf) (s : St) (f : Nat → Pc) : Prop where
  own : ∀ j x, K.tail = true → (f j).owner x = true → s.trailing = some x ∨ s.trailing = none
  tl : ∀ j x, f j = .th_trail x → K.tail = true

theorem step_to_th_trail (K : Conf) (s : St) (p : Pc) (x : Val) (h : (step K s p).2 = .th_trail x) :
    K.tail = true := by
  cases p <;> simp only [step, thOver, nextEntry, termEntry, afterTrail, retPc, uSecond, uAfter] at h
  all_goals (try (repeat' split at h)) <;> (try simp at h)
  all_goals (simp_all [Conf.tail])

theorem step_trailing (K : Conf) (s : St) (p : Pc) :
    (step K s p).1.trailing = s.trailing ∨ (step K s p).1.trailing = none ∨ Cell.slot ∈ p.holds := by
  cases p <;> simp only [step, thOver, Pc.holds]
  all_goals (try (repeat' split))
  all_goals (try (simp [St.spawn, St.beginPoll]; done))

theorem step_owner (K : Conf) (s : St) (p : Pc) (x : Val) (ht : K.tail = true)
    (hA : p.owner x = true → s.trailing = some x ∨ s.trailing = none)
    (h : (step K s p).2.owner x = true) :
    (step K s p).1.trailing = some x ∨ (step K s p).1.trailing = none := by
  cases p <;> simp only [step, thOver, nextEntry, termEntry, afterTrail, retPc, uSecond, uAfter] at h ⊢
  all_goals (try (repeat' split at h))
  all_goals (try (simp [Pc.owner] at h; done))
  all_goals (try (simp_all [Pc.owner, Conf.tail, St.spawn]; done))

theorem owner_holds_slot {p : Pc} {x : Val} (h : p.owner x = true) : Cell.slot ∈ p.holds := by
  cases p <;> simp [Pc.owner] at h <;> simp [Pc.holds]

theorem entry_not_owner {q : Pc} (h : q.isEntry = true) (x : Val) : q.owner x = false := by
  cases q <;> simp [Pc.isEntry] at h <;> rfl

theorem OInv.preserved (K : Conf) {s : St} {f : Nat → Pc} (ld : LD s f) (h : OInv K s f) (i : Nat) (q : Pc)
    (ha : After (step K s (f i)).2 q) :
    OInv K ((step K s (f i)).1.setHeld i q.holds) (fun j => if j = i then q else f j) := by
  refine ⟨?_, ?_⟩
  · intro j x ht ho
    show (step K s (f i)).1.trailing = some x ∨ (step K s (f i)).1.trailing = none
    by_cases hj : j = i
    · simp only [hj, if_true] at ho
      rcases ha with e | ⟨_, e⟩
      · rw [e] at ho
        exact step_owner K s (f i) x ht (h.own i x ht) ho
      · rw [entry_not_owner e x] at ho; cases ho
    · simp only [hj, if_false] at ho
      rcases step_trailing K s (f i) with e | e | e
      · rw [e]; exact h.own j x ht ho
      · exact Or.inr e
      · exact absurd (ld.excl _ j i (owner_holds_slot ho) e) hj
  · intro j x hq
    by_cases hj : j = i
    · simp only [hj, if_true] at hq
      rcases ha with e | ⟨_, e⟩
      · rw [e] at hq
        exact step_to_th_trail K s (f i) x hq
      · rw [hq] at e; cases e
    · simp only [hj, if_false] at hq
      exact h.tl j x hq

/-! ### counting over the threads -/

/-- emissions of `v` a thread has still to start -/
def pend (v : Val) (ops : List Op) : Nat := ops.count (.emit (.next v))

def thTok (K : Conf) (v : Val) (t : Thread) : Nat := tok K v t.pc + pend v t.rest

/-- all the places the item `v` is in -/
def Phi (K : Conf) (v : Val) (c : Cfg) : Nat := tokS v c.st + (c.ths.map (thTok K v)).sum

theorem tok_entry (K : Conf) (v : Val) (op : Op) :
    tok K v op.entry = if op = .emit (.next v) then 1 else 0 := by
  cases op <;> simp [Op.entry, tok]

theorem thTok_norm (K : Conf) (v : Val) (p : Pc) (rest : List Op) :
    thTok K v (Thread.norm ⟨p, rest⟩) = tok K v p + pend v rest := by
  unfold Thread.norm thTok
  cases rest with
  | nil => cases p <;> rfl
  | cons op r =>
    cases p
    case fin =>
      show tok K v op.entry + pend v r = tok K v Pc.fin + pend v (op :: r)
      rw [tok_entry]
      simp only [pend, List.count_cons]
      have h0 : tok K v Pc.fin = 0 := rfl
      by_cases h : op = .emit (.next v)
      · subst h; simp only [if_true, BEq.rfl]; omega
      · have : (op == Op.emit (Notif.next v)) = false := by simpa using h
        simp only [h, this, if_false, Bool.false_eq_true]; omega
    all_goals rfl

theorem sum_map_set {α : Type} (g : α → Nat) (l : List α) (i : Nat) (x y : α) (h : l[i]? = some y) :
    ((l.set i x).map g).sum + g y = (l.map g).sum + g x := by
  induction l generalizing i with
  | nil => simp at h
  | cons a r ih =>
    cases i with
    | zero =>
      simp only [List.getElem?_cons_zero, Option.some.injEq] at h
      subst h
      simp only [List.set_cons_zero, List.map_cons, List.sum_cons]; omega
    | succ n =>
      simp only [List.getElem?_cons_succ] at h
      have := ih n h
      simp only [List.set_cons_succ, List.map_cons, List.sum_cons]; omega

/-- **A scheduled step never multiplies an item.** -/
theorem Phi_sched1 (K : Conf) (hO : K.order = .original) (v : Val) (c : Cfg) (i : Nat)
    (hok : ∀ j, (c.pcOf j).okH = true) (ho : OInv K c.st c.pcOf) :
    Phi K v (c.sched1 K i) ≤ Phi K v c := by
  unfold Cfg.sched1
  cases hi : c.ths[i]? with
  | none => exact Nat.le_refl _
  | some t =>
    simp only []
    have hp : c.pcOf i = t.pc := by simp [Cfg.pcOf, hi]
    split
    · unfold Phi
      simp only [tokS_setHeld]
      have h1 := sum_map_set (thTok K v) c.ths i (Thread.norm ⟨(step K c.st t.pc).2, t.rest⟩) t hi
      rw [thTok_norm] at h1
      have h2 := step_tok K hO v c.st t.pc (hp ▸ hok i)
        (fun x ht hx => ho.own i x ht (hp ▸ hx)) (fun x hx => ho.tl i x (hp.trans hx))
      have h3 : thTok K v t = tok K v t.pc + pend v t.rest := rfl
      omega
    · exact Nat.le_refl _

theorem OInv.init (K : Conf) (s : St) (progs : List (List Op)) : OInv K s (Cfg.init s progs).pcOf := by
  refine ⟨?_, ?_⟩
  · intro j x _ ho
    rcases init_pcOf s progs j with e | e
    · rw [e] at ho; cases ho
    · rw [entry_not_owner e x] at ho; cases ho
  · intro j x hq
    rcases init_pcOf s progs j with e | e
    · rw [e] at hq; cases hq
    · rw [hq] at e; cases e

theorem Phi_init (K : Conf) (v : Val) (live : Bool) (progs : List (List Op)) :
    Phi K v (Cfg.init (St.subscribed live) progs) = (progs.map (pend v)).sum := by
  unfold Phi Cfg.init
  have h0 : tokS v (St.subscribed live) = 0 := rfl
  simp only [h0, Nat.zero_add, List.map_map]
  congr 1
  apply List.map_congr_left
  intro ops _
  show thTok K v (Thread.mk' ops) = pend v ops
  unfold Thread.mk'
  rw [thTok_norm]
  show 0 + pend v ops = pend v ops
  omega

/-- debounce / throttle, the order of the code: along every schedule the places an item is in never become more. -/
theorem Phi_exec {K : Conf} (hK : HConf K) (v : Val) (live : Bool) (progs : List (List Op)) :
    ∀ (sched : List Nat),
      OInv K (exec K (Cfg.init (St.subscribed live) progs) sched).st
          (exec K (Cfg.init (St.subscribed live) progs) sched).pcOf ∧
        Phi K v (exec K (Cfg.init (St.subscribed live) progs) sched) ≤ (progs.map (pend v)).sum := by
  have key : ∀ (l : List Nat),
      OInv K (exec K (Cfg.init (St.subscribed live) progs) l.reverse).st
          (exec K (Cfg.init (St.subscribed live) progs) l.reverse).pcOf ∧
        Phi K v (exec K (Cfg.init (St.subscribed live) progs) l.reverse) ≤ (progs.map (pend v)).sum := by
    intro l
    induction l with
    | nil => exact ⟨OInv.init K _ progs, Nat.le_of_eq (Phi_init K v live progs)⟩
    | cons i l ih =>
      have hD := DInv.exec hK live progs l.reverse
      have e : exec K (Cfg.init (St.subscribed live) progs) (i :: l).reverse =
          (exec K (Cfg.init (St.subscribed live) progs) l.reverse).sched1 K i := by
        simp [exec, List.foldl_append]
      rw [e]
      generalize exec K (Cfg.init (St.subscribed live) progs) l.reverse = c at ih hD ⊢
      refine ⟨?_, Nat.le_trans (Phi_sched1 K hK.order v c i hD.dd.ok ih.1) ih.2⟩
      rcases sched1_view K c i with e' | ⟨q, _, ha, hs, hp⟩
      · rw [e']; exact ih.1
      · rw [hs]
        have e2 : (c.sched1 K i).pcOf = fun j => if j = i then q else c.pcOf j := funext hp
        rw [e2]
        exact ih.1.preserved K hD.ld i q ha
  intro sched
  have := key sched.reverse
  rwa [List.reverse_reverse] at this

end Rx.Conc.TS
