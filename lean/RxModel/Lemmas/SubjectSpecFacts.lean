import RxModel.Lemmas.SubjectBcast
/-
  What the abstract subject spec says, made explicit: its subscriber list is
  duplicate-free, an emission serves a sub-list of the snapshot (each subscriber at
  most once, in subscription order, nobody who joined during the emission), exactly
  the snapshot when no callback interferes, and nothing once done.
-/
namespace Rx.Subj

structure AInv (a : Abs) : Prop where
  bound : ∀ j ∈ a.live, j < a.scripts.length
  nodup : a.live.Nodup
  doneEmpty : a.done = true → a.live = []

theorem AInv.init : AInv Abs.init := ⟨by simp [Abs.init], by simp [Abs.init], fun _ => rfl⟩

theorem AInv.subscribe {a : Abs} (h : AInv a) (sc : List Act) : AInv (a.subscribe sc) := by
  obtain ⟨hb, hn, hd⟩ := h
  unfold Abs.subscribe
  cases hdone : a.done with
  | true =>
    refine ⟨?_, by simpa using hn, by simpa using hd hdone⟩
    intro j hj
    have := hb j (by simpa using hj)
    simp only [List.length_append, List.length_cons, List.length_nil]
    exact Nat.lt_of_lt_of_le this (Nat.le_add_right _ _)
  | false =>
    refine ⟨?_, ?_, by simp⟩
    · intro j hj
      simp only [Bool.false_eq_true, if_false, List.mem_append, List.mem_singleton] at hj
      simp only [List.length_append, List.length_cons, List.length_nil]
      rcases hj with hj | hj
      · exact Nat.lt_of_lt_of_le (hb j hj) (Nat.le_add_right _ _)
      · subst hj; exact Nat.lt_add_of_pos_right (by decide)
    · simp only [Bool.false_eq_true, if_false]
      apply List.nodup_append.mpr
      refine ⟨hn, by simp, ?_⟩
      intro x hx y hy
      simp at hy
      subst hy
      intro e; subst e
      exact absurd (hb _ hx) (Nat.lt_irrefl _)

theorem AInv.unsubOne {a : Abs} (h : AInv a) (t : SlotId) : AInv (a.unsubOne t) := by
  obtain ⟨hb, hn, hd⟩ := h
  refine ⟨fun j hj => hb j (List.mem_filter.mp hj).1, hn.filter _, ?_⟩
  intro hdone
  simp [Abs.unsubOne, hd hdone]

theorem AInv.act {a : Abs} (h : AInv a) (greet : Option Val) (i : SlotId) (x : Act) : AInv (a.act greet i x).1 := by
  cases x with
  | nop => exact h
  | sub => cases greet <;> exact h.subscribe []
  | unsub t =>
    by_cases e : t = i
    · simp only [Abs.act, if_pos e]; exact ⟨h.bound, h.nodup, h.doneEmpty⟩
    · simp only [Abs.act, if_neg e]; exact h.unsubOne t

theorem AInv.callNext {a : Abs} (h : AInv a) (greet : Option Val) (i : SlotId) (v : Val) :
    AInv (a.callNext greet i v).1 := by
  unfold Abs.callNext
  by_cases hi : i ∈ a.live
  · simp only [if_pos hi]
    apply AInv.act
    exact ⟨by simpa [modTail_length] using h.bound, h.nodup, h.doneEmpty⟩
  · simp only [if_neg hi]; exact h

theorem AInv.abcast (greet : Option Val) (v : Val) : ∀ (xs : List SlotId) (a : Abs), AInv a →
    AInv (Rx.Subj.abcast greet v a xs).1
  | [], _, h => h
  | i :: r, a, h => by
    unfold Rx.Subj.abcast
    by_cases hp : (a.callNext greet i v).1.panicked = true
    · simp only [if_pos hp]; exact h.callNext greet i v
    · simp only [if_neg hp]; exact AInv.abcast greet v r _ (h.callNext greet i v)

theorem AInv.apply {a : Abs} (h : AInv a) (op : SubjOp) : AInv (a.apply op).1 := by
  cases op with
  | subscribe sc => exact h.subscribe sc
  | unsubOne i => exact h.unsubOne i
  | next v =>
    simp only [Abs.apply, Abs.next]
    by_cases hd : a.done = true
    · simp only [if_pos hd]; exact h
    · simp only [if_neg hd]; exact AInv.abcast none v _ _ h
  | error e =>
    simp only [Abs.apply, Abs.terminal]
    by_cases hd : a.done = true
    · simp only [if_pos hd]; exact h
    · simp only [if_neg hd]; exact ⟨by simp, by simp, fun _ => rfl⟩
  | complete =>
    simp only [Abs.apply, Abs.terminal]
    by_cases hd : a.done = true
    · simp only [if_pos hd]; exact h
    · simp only [if_neg hd]; exact ⟨by simp, by simp, fun _ => rfl⟩
  | retain => exact h
  | unsubscribe => exact ⟨by simp [Abs.apply, Abs.unsubscribe], by simp [Abs.apply, Abs.unsubscribe], fun _ => rfl⟩
  | clone => exact h

/-- final abstract state of a history (ignoring the stop at a panic) -/
def Abs.exec : Abs → List SubjOp → Abs
  | a, [] => a
  | a, op :: r => Abs.exec (a.apply op).1 r

theorem AInv.exec : ∀ (ops : List SubjOp) (a : Abs), AInv a → AInv (a.exec ops)
  | [], _, h => h
  | op :: r, a, h => AInv.exec r _ (h.apply op)

/-- in a plain subject a callback action delivers nothing by itself -/
theorem Abs.act_none_deliv (a : Abs) (i : SlotId) (x : Act) : (a.act none i x).2 = [] := by
  cases x with
  | nop => rfl
  | sub => rfl
  | unsub t => by_cases e : t = i <;> simp [Abs.act, e]

theorem Abs.callNext_none_deliv (a : Abs) (i : SlotId) (v : Val) :
    (a.callNext none i v).2 = if i ∈ a.live then [(i, Notif.next v)] else [] := by
  unfold Abs.callNext
  by_cases hi : i ∈ a.live
  · simp only [if_pos hi, Abs.act_none_deliv]
  · simp only [if_neg hi]

/-- an emission serves a sub-list of the snapshot: nobody twice, nobody else, in order -/
theorem abcast_sublist (v : Val) : ∀ (xs : List SlotId) (a : Abs),
    List.Sublist (abcast none v a xs).2 (xs.map (·, Notif.next v))
  | [], _ => by simp [abcast]
  | i :: r, a => by
    unfold abcast
    have hd := Abs.callNext_none_deliv a i v
    by_cases hp : (a.callNext none i v).1.panicked = true
    · simp only [if_pos hp, hd, List.map_cons]
      by_cases hi : i ∈ a.live
      · simp only [if_pos hi]; exact List.Sublist.cons_cons _ (List.nil_sublist _)
      · simp only [if_neg hi]; exact List.nil_sublist _
    · simp only [if_neg hp, hd, List.map_cons]
      have ih := abcast_sublist v r (a.callNext none i v).1
      by_cases hi : i ∈ a.live
      · simp only [if_pos hi, List.singleton_append]; exact List.Sublist.cons_cons _ ih
      · simp only [if_neg hi, List.nil_append]; exact List.Sublist.cons _ ih

/-- subscribers whose callbacks do nothing -/
def Abs.Quiet (a : Abs) : Prop := ∀ sc ∈ a.scripts, ∀ x ∈ sc, x = Act.nop

theorem modTail_mem : ∀ (l : List (List Act)) (i : Nat) (sc : List Act), sc ∈ modTail l i →
    ∃ sc' ∈ l, ∀ x ∈ sc, x ∈ sc'
  | [], _, sc, h => by simp [modTail] at h
  | y :: r, 0, sc, h => by
    simp only [modTail, List.mem_cons] at h
    rcases h with h | h
    · subst h; exact ⟨y, by simp, fun x hx => List.mem_of_mem_tail hx⟩
    · exact ⟨sc, by simp [h], fun _ hx => hx⟩
  | y :: r, n + 1, sc, h => by
    simp only [modTail, List.mem_cons] at h
    rcases h with h | h
    · subst h; exact ⟨sc, by simp, fun _ hx => hx⟩
    · obtain ⟨sc', h1, h2⟩ := modTail_mem r n sc h
      exact ⟨sc', by simp [h1], h2⟩

theorem Abs.callNext_quiet (a : Abs) (hq : a.Quiet) (greet : Option Val) (i : SlotId) (v : Val) (hi : i ∈ a.live) :
    a.callNext greet i v = ({ a with scripts := modTail a.scripts i }, [(i, Notif.next v)]) := by
  unfold Abs.callNext
  rw [if_pos hi]
  cases h : a.scripts[i]? with
  | none => rfl
  | some sc =>
    have hm : sc ∈ a.scripts := List.mem_of_getElem? h
    have hh : sc.headD Act.nop = Act.nop := by
      cases sc with
      | nil => rfl
      | cons x t => exact hq _ hm x (by simp)
    simp only [hh, Abs.act]

/-- when no callback interferes, an emission serves exactly the snapshot and changes nobody's membership -/
theorem abcast_quiet (greet : Option Val) (v : Val) : ∀ (xs : List SlotId) (a : Abs), a.Quiet → a.panicked = false →
    (∀ i ∈ xs, i ∈ a.live) →
    (abcast greet v a xs).2 = xs.map (·, Notif.next v) ∧ (abcast greet v a xs).1.live = a.live ∧
    (abcast greet v a xs).1.Quiet ∧ (abcast greet v a xs).1.panicked = false ∧
    (abcast greet v a xs).1.done = a.done
  | [], a, hq, hp, _ => ⟨rfl, rfl, hq, hp, rfl⟩
  | i :: r, a, hq, hp, hx => by
    have hc := Abs.callNext_quiet a hq greet i v (hx i (by simp))
    have hq' : ({ a with scripts := modTail a.scripts i } : Abs).Quiet := by
      intro sc hsc x hxs
      obtain ⟨sc', h1, h2⟩ := modTail_mem a.scripts i sc hsc
      exact hq sc' h1 x (h2 x hxs)
    have ih := abcast_quiet greet v r { a with scripts := modTail a.scripts i } hq' hp
      (fun j hj => hx j (by simp [hj]))
    have e : abcast greet v a (i :: r) =
        ((abcast greet v { a with scripts := modTail a.scripts i } r).1,
         (i, Notif.next v) :: (abcast greet v { a with scripts := modTail a.scripts i } r).2) := by
      conv => lhs; unfold abcast
      rw [hc]
      have hne : ¬ (a.panicked = true) := by rw [hp]; simp
      simp only [List.singleton_append]
      rw [if_neg hne]
    rw [e]
    exact ⟨by simp only [List.map_cons, ih.1], ih.2.1, ih.2.2.1, ih.2.2.2.1, ih.2.2.2.2⟩

/-- once done, nothing is delivered by any operation, and done stays -/
theorem Abs.apply_done (a : Abs) (hd : a.done = true) (op : SubjOp) :
    (a.apply op).2 = [] ∧ (a.apply op).1.done = true := by
  cases op <;> simp [Abs.apply, Abs.next, Abs.terminal, Abs.subscribe, Abs.unsubOne, Abs.unsubscribe, hd]

theorem abcast_scripts_length (greet : Option Val) (v : Val) : ∀ (xs : List SlotId) (a : Abs), a.Quiet →
    a.panicked = false → (∀ i ∈ xs, i ∈ a.live) → (abcast greet v a xs).1.scripts.length = a.scripts.length
  | [], _, _, _, _ => rfl
  | i :: r, a, hq, hp, hx => by
    have hc := Abs.callNext_quiet a hq greet i v (hx i (by simp))
    have hq' : ({ a with scripts := modTail a.scripts i } : Abs).Quiet := by
      intro sc hsc x hxs
      obtain ⟨sc', h1, h2⟩ := modTail_mem a.scripts i sc hsc
      exact hq sc' h1 x (h2 x hxs)
    have ih := abcast_scripts_length greet v r { a with scripts := modTail a.scripts i } hq' hp
      (fun j hj => hx j (by simp [hj]))
    have hne : ¬ (a.panicked = true) := by rw [hp]; simp
    conv => lhs; unfold abcast
    rw [hc]
    simp only []
    rw [if_neg hne]
    simp only [ih, modTail_length]

/-- relation between the script-aware spec and the simple one on callback-free histories -/
structure SimRel (a : Abs) (s : Simple) : Prop where
  live : a.live = s.live
  done : a.done = s.done
  n : a.scripts.length = s.n
  quiet : a.Quiet
  calm : a.panicked = false
  doneEmpty : a.done = true → a.live = []

theorem SimRel.apply {a : Abs} {s : Simple} (h : SimRel a s) (op : SubjOp) (hop : op.Plain) :
    (a.apply op).2 = (s.apply op).2 ∧ SimRel (a.apply op).1 (s.apply op).1 := by
  obtain ⟨hl, hd, hn, hq, hc, he⟩ := h
  cases op with
  | subscribe sc =>
    refine ⟨rfl, ⟨?_, hd, ?_, ?_, hc, ?_⟩⟩
    · simp [Abs.apply, Abs.subscribe, Simple.apply, hl, hd, hn]
    · simp [Abs.apply, Abs.subscribe, Simple.apply, hn]
    · intro x hx y hy
      simp only [Abs.apply, Abs.subscribe, List.mem_append, List.mem_singleton] at hx
      rcases hx with hx | hx
      · exact hq x hx y hy
      · subst hx; exact hop y hy
    · intro hdn
      have hdn' : a.done = true := hdn
      simp [Abs.apply, Abs.subscribe, hdn', he hdn']
  | unsubOne i =>
    refine ⟨rfl, ⟨by simp [Abs.apply, Abs.unsubOne, Simple.apply, hl], hd, hn, hq, hc, ?_⟩⟩
    intro hdn
    have hdn' : a.done = true := hdn
    simp [Abs.apply, Abs.unsubOne, he hdn']
  | next v =>
    cases hdn : a.done with
    | true =>
      have hs : s.done = true := by rw [← hd, hdn]
      simp only [Abs.apply, Abs.next, hdn, if_true, Simple.apply, hs]
      exact ⟨trivial, ⟨hl, by rw [hdn, hs], hn, hq, hc, he⟩⟩
    | false =>
      have hs : s.done = false := by rw [← hd, hdn]
      have hb := abcast_quiet none v a.live a hq hc (fun _ h => h)
      obtain ⟨b1, b2, b3, b4, b5⟩ := hb
      simp only [Abs.apply, Abs.next, hdn, Bool.false_eq_true, if_false, Simple.apply, hs]
      refine ⟨by rw [b1, hl], ⟨by rw [b2, hl], by rw [b5, hdn, hs], ?_, b3, b4, ?_⟩⟩
      · rw [← hn]; exact abcast_scripts_length none v a.live a hq hc (fun _ h => h)
      · intro h; rw [b5, hdn] at h; cases h
  | error e =>
    cases hdn : a.done with
    | true =>
      have hs : s.done = true := by rw [← hd, hdn]
      have hle : s.live = [] := by rw [← hl]; exact he hdn
      simp only [Abs.apply, Abs.terminal, hdn, if_true, Simple.apply, hs]
      exact ⟨trivial, ⟨by rw [he hdn], hdn, hn, hq, hc, fun _ => he hdn⟩⟩
    | false =>
      have hs : s.done = false := by rw [← hd, hdn]
      simp only [Abs.apply, Abs.terminal, hdn, Bool.false_eq_true, if_false, Simple.apply, hs]
      exact ⟨by rw [hl], ⟨rfl, rfl, hn, hq, hc, fun _ => rfl⟩⟩
  | complete =>
    cases hdn : a.done with
    | true =>
      have hs : s.done = true := by rw [← hd, hdn]
      simp only [Abs.apply, Abs.terminal, hdn, if_true, Simple.apply, hs]
      exact ⟨trivial, ⟨by rw [he hdn], hdn, hn, hq, hc, fun _ => he hdn⟩⟩
    | false =>
      have hs : s.done = false := by rw [← hd, hdn]
      simp only [Abs.apply, Abs.terminal, hdn, Bool.false_eq_true, if_false, Simple.apply, hs]
      exact ⟨by rw [hl], ⟨rfl, rfl, hn, hq, hc, fun _ => rfl⟩⟩
  | retain => exact ⟨rfl, ⟨hl, hd, hn, hq, hc, he⟩⟩
  | unsubscribe => exact ⟨rfl, ⟨rfl, rfl, hn, hq, hc, fun _ => rfl⟩⟩
  | clone => exact ⟨rfl, ⟨hl, hd, hn, hq, hc, he⟩⟩

theorem SimRel.runFrom : ∀ (ops : List SubjOp) (a : Abs) (s : Simple), SimRel a s → (∀ op ∈ ops, op.Plain) →
    Abs.runFrom a ops = Simple.runFrom s ops
  | [], _, _, _, _ => rfl
  | op :: r, a, s, h, hp => by
    obtain ⟨h1, h2⟩ := h.apply op (hp op (by simp))
    have ih := SimRel.runFrom r _ _ h2 (fun o ho => hp o (by simp [ho]))
    unfold Abs.runFrom Simple.runFrom
    simp only [Abs.step, h2.calm, Bool.false_eq_true, if_false, h1, h2.done, ih]

end Rx.Subj
