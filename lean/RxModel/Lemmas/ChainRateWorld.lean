import RxModel.Lemmas.ChainRateSched
/-
  C09 (chain model): single-stage worlds `hot 0 → rate-limiting stage → probe`.
  Closed forms of `push`, `runBody`, `runTick`, `unsubFrom` on such worlds (the
  fuel of `cascade` is more than enough for one stage and one notification).
-/
namespace Rx.T
open Rx

/-- debounce, throttle (both phases), buffer_with_time / buffer_with_count_and_time. -/
def Stage.isRate : Stage → Bool
  | .debounce _ _ _ _ => true
  | .throttle _ _ _ _ _ => true
  | .throttleW _ _ _ _ => true
  | .bufTime _ _ _ _ _ => true
  | _ => false

/-- One notification from the source entering the (only) stage: `onNotif`, the
    emission reaches the probe, then `afterEmit`. -/
def Stage.feed (st : Stage) (n : Notif) (s : Sched) : Stage × List Notif × Sched :=
  ((st.onNotif 0 n s).1.afterEmit 0 (st.onNotif 0 n s).2.2 |>.1,
   (st.onNotif 0 n s).2.1,
   (st.onNotif 0 n s).1.afterEmit 0 (st.onNotif 0 n s).2.2 |>.2)

/-- What the stage's own task does to it when its body runs: the stage afterwards
    and what goes to the probe. -/
def Stage.bodyStep : Stage → Stage × List Notif
  | .debounce d alive (some v) h => (.debounce d alive none h, if alive then [.next v] else [])
  | .throttle d e alive (some v) h => (.throttle d e alive none h, if alive then [.next v] else [])
  | .bufTime d cnt true data t => (.bufTime d cnt true [] t, flushBuf data)
  | st => (st, [])

/-- The stage after `unsubscribe()` of the chain's handle. -/
def Stage.unsubbed : Stage → Stage
  | .debounce d alive tr _ => .debounce d alive tr none
  | .throttle d e alive tr _ => .throttle d e alive tr none
  | st => st

theorem cascadeF_nil (f : Nat) (hf : 0 < f) (j : Nat) (ns : List Notif) (s : Sched) :
    cascadeF f [] j ns s = ([], ns, s) := by
  cases f with
  | zero => omega
  | succ f => simp [cascadeF]

theorem cascadeF_single (f : Nat) (hf : 2 ≤ f) (st : Stage) (j : Nat) (n : Notif) (s : Sched) :
    cascadeF f [st] j [n] s =
      ([((st.onNotif j n s).1.afterEmit j (st.onNotif j n s).2.2).1], (st.onNotif j n s).2.1,
        ((st.onNotif j n s).1.afterEmit j (st.onNotif j n s).2.2).2) := by
  obtain ⟨f', rfl⟩ : ∃ f', f = f' + 2 := ⟨f - 2, by omega⟩
  simp [cascadeF]

namespace TW

theorem push_one (w : TW) (st : Stage) (h : w.stages = [st]) (ns : List Notif) :
    w.push 1 ns = { w with log := w.log ++ ns } := by
  obtain ⟨sched, src, stages, a, b, c, d, e, f, g, log⟩ := w
  simp only at h; subst h
  simp [TW.push, cascade, cascadeF_nil]

theorem push_zero (w : TW) (st : Stage) (h : w.stages = [st]) (n : Notif) :
    w.push 0 [n] = { w with sched := (st.feed n w.sched).2.2, stages := [(st.feed n w.sched).1],
                            log := w.log ++ (st.feed n w.sched).2.1 } := by
  obtain ⟨sched, src, stages, a, b, c, d, e, f, g, log⟩ := w
  simp only at h; subst h
  have hf : 2 ≤ ([st].length + 1) * ([n].length + 8) * 64 + 1000 := by omega
  simp only [TW.push, cascade, List.drop_zero, cascadeF_single _ hf, Stage.feed, List.take_zero,
    List.nil_append]

theorem setStage_zero (w : TW) (st st' : Stage) (h : w.stages = [st]) :
    w.setStage 0 st' = { w with stages := [st'] } := by
  simp [TW.setStage, h]

theorem deliverNotifiers_rate (w : TW) (st : Stage) (h : w.stages = [st]) (hr : st.isRate = true)
    (i : Nat) (n : Notif) : deliverNotifiers w i n w.stages.length = w := by
  rw [h]
  show deliverNotifiers w i n (0 + 1) = w
  unfold deliverNotifiers
  simp only [deliverNotifiers, h]
  cases st <;> simp_all [Stage.isRate]

/-- A benign body on a single-stage world of a rate-limiting stage either does
    nothing or performs `bodyStep`. -/
theorem runBody_rate (w : TW) (st : Stage) (h : w.stages = [st]) (hr : st.isRate = true)
    (b : Body) (hb : b.benign = true) :
    w.runBody b = w ∨
    w.runBody b = { w with stages := [st.bodyStep.1], log := w.log ++ st.bodyStep.2 } := by
  cases b with
  | emit j n =>
    left
    cases j with
    | zero => cases st <;> simp_all [TW.runBody, Stage.isRate]
    | succ j => simp [TW.runBody, h]
  | debounce j =>
    cases j with
    | succ j => left; simp [TW.runBody, h]
    | zero =>
      cases st with
      | debounce d alive tr hd =>
        cases tr with
        | none => left; simp [TW.runBody, h]
        | some v =>
          right
          cases alive
          · simp [TW.runBody, h, Stage.bodyStep, TW.setStage]
          · have h1 : (w.setStage 0 (.debounce d true none hd)).stages = [.debounce d true none hd] := by
              simp [TW.setStage, h]
            simp only [TW.runBody, h, List.getElem?_cons_zero, if_true]
            rw [push_one _ _ h1]
            simp [Stage.bodyStep, TW.setStage, h]
      | _ => left; simp [TW.runBody, h]
  | throttle j =>
    cases j with
    | succ j => left; simp [TW.runBody, h]
    | zero =>
      cases st with
      | throttle d e alive tr hd =>
        cases tr with
        | none => left; simp [TW.runBody, h]
        | some v =>
          right
          cases alive
          · simp [TW.runBody, h, Stage.bodyStep, TW.setStage]
          · have h1 : (w.setStage 0 (.throttle d e true none hd)).stages = [.throttle d e true none hd] := by
              simp [TW.setStage, h]
            simp only [TW.runBody, h, List.getElem?_cons_zero, if_true]
            rw [push_one _ _ h1]
            simp [Stage.bodyStep, TW.setStage, h]
      | _ => left; simp [TW.runBody, h]
  | subscribe j => simp [Body.benign] at hb
  | timerSrc v => simp [Body.benign] at hb
  | tick => left; rfl
  | bufTick j => left; rfl
  | tickN j => left; rfl
  | futureSrc => simp [Body.benign] at hb
  | streamSrc => simp [Body.benign] at hb

theorem runTick_rate (w : TW) (st : Stage) (h : w.stages = [st]) (hr : st.isRate = true)
    (b : Body) (hb : b.benign = true) (seq : Nat) :
    (w.runTick b seq).1 = w ∨
    (w.runTick b seq).1 = { w with stages := [st.bodyStep.1], log := w.log ++ st.bodyStep.2 } := by
  cases b with
  | tick => simp [Body.benign] at hb
  | tickN j =>
    left
    cases j with
    | zero => cases st <;> simp_all [TW.runTick, Stage.isRate]
    | succ j => simp [TW.runTick, h]
  | bufTick j =>
    cases j with
    | succ j => left; simp [TW.runTick, h]
    | zero =>
      cases st with
      | bufTime d cnt alive data t =>
        cases alive
        · left; simp [TW.runTick, h]
        · right
          have h1 : (w.setStage 0 (.bufTime d cnt true [] t)).stages = [.bufTime d cnt true [] t] := by
            simp [TW.setStage, h]
          simp only [TW.runTick, h, List.getElem?_cons_zero, List.drop_succ_cons, List.drop_zero, fin]
          simp only [Bool.not_true, Bool.or_self, Bool.false_eq_true, if_false]
          rw [push_one _ _ h1]
          simp [Stage.bodyStep, TW.setStage, h]
      | _ => left; simp [TW.runTick, h]
  | _ => left; rfl

/-- `unsubscribe()` of the handle: the subject's slot is emptied, the stage's task
    handle (if any) is cancelled, the stage forgets its handler. -/
theorem unsubFrom_rate (w : TW) (st : Stage) (h : w.stages = [st]) (hr : st.isRate = true)
    (hsrc : w.srcTask = none) (hb : w.sched.Benign) :
    ∃ s' : Sched, s'.Benign ∧
      unsubFrom w w.stages.length = { w with srcAlive := false, sched := s', stages := [st.unsubbed] } := by
  rw [h]
  show ∃ s' : Sched, s'.Benign ∧ unsubFrom w (0 + 1) = _
  obtain ⟨sched, src, stages, a, b, c, d, e, f, g, log⟩ := w
  simp only at h hsrc hb; subst h; subst hsrc
  cases st with
  | debounce d alive tr hd =>
    cases hd with
    | none => exact ⟨_, hb, by simp [unsubFrom, TW.setStage, Stage.unsubbed]⟩
    | some k => exact ⟨_, hb.cancel k, by simp [unsubFrom, TW.setStage, Stage.unsubbed]⟩
  | throttle d e alive tr hd =>
    cases hd with
    | none => exact ⟨_, hb, by simp [unsubFrom, TW.setStage, Stage.unsubbed]⟩
    | some k => exact ⟨_, hb.cancel k, by simp [unsubFrom, TW.setStage, Stage.unsubbed]⟩
  | throttleW d e alive tr =>
    exact ⟨_, hb, by simp [unsubFrom, Stage.unsubbed]⟩
  | bufTime d cnt alive data t =>
    cases t with
    | none => exact ⟨_, hb, by simp [unsubFrom, Stage.unsubbed]⟩
    | some k => exact ⟨_, hb.cancel k, by simp [unsubFrom, Stage.unsubbed]⟩
  | _ => simp [Stage.isRate] at hr

/-! ### `step (.emit i n)` on single-stage worlds over `hot 0` -/

theorem step_emit_done (w : TW) (i : Nat) (n : Notif) (hc : w.terminated.contains i = true) :
    w.step (.emit i n) = w := by
  simp only [TW.step, hc, if_true]

/-- What an undelivered emission does: a terminal marks the subject as terminated. -/
def markTerm (w : TW) (i : Nat) (n : Notif) : TW :=
  if n.isTerm then { w with terminated := i :: w.terminated } else w

theorem step_emit_other (w : TW) (st : Stage) (h : w.stages = [st]) (hr : st.isRate = true)
    (hsrc : w.src = .hot 0) (i : Nat) (n : Notif) (hc : w.terminated.contains i = false)
    (hi : i ≠ 0 ∨ w.srcAlive = false) :
    w.step (.emit i n) = w.markTerm i n := by
  obtain ⟨sched, src, stages, a, b, c, d, e, f, g, log⟩ := w
  simp only at h hsrc hc hi; subst h; subst hsrc
  have hcond : (decide (i = 0) && b && a) = false := by
    rcases hi with hi | hi
    · simp [hi]
    · simp [hi]
  simp only [TW.step, hc, Bool.false_eq_true, if_false, hcond, markTerm]
  cases n <;> simp only [Notif.isTerm, Bool.false_eq_true, if_false, if_true]
  all_goals exact deliverNotifiers_rate _ st rfl hr i _

theorem step_emit_next (w : TW) (st : Stage) (h : w.stages = [st]) (_hr : st.isRate = true)
    (hsrc : w.src = .hot 0) (hss : w.srcSubscribed = true) (ha : w.srcAlive = true)
    (hc : w.terminated.contains 0 = false) (v : Val) (st' : Stage) (hr' : st'.isRate = true)
    (h' : (w.push 0 [.next v]).stages = [st']) :
    w.step (.emit 0 (.next v)) = w.push 0 [.next v] := by
  obtain ⟨sched, src, stages, a, b, c, d, e, f, g, log⟩ := w
  simp only at h hsrc hc hss ha; subst h; subst hsrc; subst hss; subst ha
  simp only [TW.step, hc, Bool.false_eq_true, if_false, decide_true, Bool.and_self, if_true,
    Notif.isTerm]
  exact deliverNotifiers_rate _ st' h' hr' 0 _

theorem step_emit_term (w : TW) (st : Stage) (h : w.stages = [st]) (_hr : st.isRate = true)
    (hsrc : w.src = .hot 0) (hss : w.srcSubscribed = true) (ha : w.srcAlive = true)
    (hc : w.terminated.contains 0 = false) (n : Notif) (hn : n.isTerm = true)
    (st' : Stage) (hr' : st'.isRate = true)
    (h' : (({ w with terminated := 0 :: w.terminated, srcAlive := false } : TW).push 0 [n]).stages = [st']) :
    w.step (.emit 0 n) =
      ({ w with terminated := 0 :: w.terminated, srcAlive := false } : TW).push 0 [n] := by
  obtain ⟨sched, src, stages, a, b, c, d, e, f, g, log⟩ := w
  simp only at h hsrc hc hss ha; subst h; subst hsrc; subst hss; subst ha
  cases n with
  | next v => simp [Notif.isTerm] at hn
  | error er =>
    simp only [TW.step, hc, Bool.false_eq_true, if_false, decide_true, Bool.and_self, if_true,
      Notif.isTerm]
    exact deliverNotifiers_rate _ st' h' hr' 0 _
  | complete =>
    simp only [TW.step, hc, Bool.false_eq_true, if_false, decide_true, Bool.and_self, if_true,
      Notif.isTerm]
    exact deliverNotifiers_rate _ st' h' hr' 0 _

end TW

/-- Feeding a rate-limiting stage keeps the scheduler benign and the stage rate-limiting. -/
theorem Stage.feed_rate (st : Stage) (hr : st.isRate = true) (n : Notif) (s : Sched) (hs : s.Benign) :
    (st.feed n s).1.isRate = true ∧ (st.feed n s).2.2.Benign := by
  cases st with
  | debounce d alive tr hd =>
    cases n with
    | next v =>
      refine ⟨rfl, ?_⟩
      simp only [Stage.feed, Stage.onNotif, Stage.afterEmit]
      exact (hs.cancelOpt hd).scheduleOnce _ _ rfl
    | error e => exact ⟨rfl, hs⟩
    | complete => exact ⟨rfl, hs⟩
  | throttle d e alive tr hd =>
    cases n with
    | next v =>
      cases hd with
      | none =>
        simp only [Stage.feed, Stage.onNotif, if_true, Stage.afterEmit]
        exact ⟨rfl, hs.scheduleOnce _ _ rfl⟩
      | some k =>
        cases hc : s.handleClosed k
        · simp only [Stage.feed, Stage.onNotif, hc, Bool.false_eq_true, if_false, Stage.afterEmit]
          exact ⟨rfl, hs⟩
        · simp only [Stage.feed, Stage.onNotif, hc, if_true, Stage.afterEmit]
          exact ⟨rfl, hs.scheduleOnce _ _ rfl⟩
    | error e => exact ⟨rfl, hs.cancelOpt hd⟩
    | complete => exact ⟨rfl, hs.cancelOpt hd⟩
  | throttleW d e alive tr =>
    refine ⟨rfl, ?_⟩
    simp only [Stage.feed, Stage.onNotif, Stage.afterEmit]
    exact hs.scheduleOnce _ _ rfl
  | bufTime d cnt alive data t =>
    cases n with
    | next v =>
      simp only [Stage.feed, Stage.onNotif]
      cases alive
      · exact ⟨rfl, hs⟩
      · cases cnt with
        | none => exact ⟨rfl, hs⟩
        | some c =>
          simp only [if_true]
          split
          · exact ⟨rfl, hs⟩
          · exact ⟨rfl, hs⟩
    | error e => exact ⟨rfl, hs⟩
    | complete => exact ⟨rfl, hs⟩
  | _ => simp [Stage.isRate] at hr

theorem Stage.bodyStep_rate (st : Stage) (hr : st.isRate = true) : st.bodyStep.1.isRate = true := by
  unfold Stage.bodyStep
  split <;> first | rfl | exact hr

theorem Stage.unsubbed_rate (st : Stage) (hr : st.isRate = true) : st.unsubbed.isRate = true := by
  unfold Stage.unsubbed
  split <;> first | rfl | exact hr

end Rx.T
