import RxModel.Lemmas.ChainQuietPoll
/-
  C02 / C17 over the chain model, part 13: `pollTask`, `pollAll`, `runLoop`.
-/
namespace Rx.T
open Rx

theorem isAsync_level {b : Body} (h : b.isAsync = true) : b.level = 0 ∧ b.isSub = false := by
  cases b <;> simp [Body.isAsync] at h <;> exact ⟨rfl, rfl⟩

theorem Fl.sched {w w1 : TW} (h : Fl w w1) (s : Sched) : Fl w { w1 with sched := s } :=
  ⟨h.1, h.2, h.3⟩

/-- The body of the subscribe task `k` of stage `j`. -/
theorem subscribeBody_good {w : TW} {k j : Nat} {t1 : Task} (g : GoodW none w)
    (ht1 : w.sched.tasks[k]? = some t1) (hl1 : t1.live = true) (hb1 : t1.body = .subscribe j) :
    GoodW none { (w.subscribeFrom j) with sched := (w.subscribeFrom j).sched.finishOnce k } ∧
      Fl w (w.subscribeFrom j) := by
  have ho := g.own k t1 ht1 hl1
  rw [hb1] at ho
  obtain ⟨st, hs, hm⟩ : ∃ st, w.stages[j]? = some st ∧ k ∈ st.handles := ho
  obtain ⟨t', ht', _, hsub⟩ := g.hk j st k hs hm
  rw [ht1] at ht'; cases ht'
  rw [hb1] at hsub
  have hst : st.subH = some k := by
    cases st <;> simp [Stage.isSubOn, Body.isSub] at hsub
    rename_i d t
    cases t with
    | none => simp [Stage.handles] at hm
    | some h => simp [Stage.handles] at hm; subst hm; rfl
  have hnr : ¬ ran none w.sched k := by
    intro hr
    rcases hr with hr | hr
    · obtain ⟨u, hu, hv⟩ := (handleClosed_iff _ _).1 hr
      rw [ht1] at hu; cases hu
      have := g.hv k t1 ht1 hv
      simp [Task.live, this] at hl1
    · cases hr
  have hp := g.prist j st k hs hst hnr
  have g' : GoodW (some k) w := Good.weaken g
  have hr1 : ReachedW none w (j + 1) := by
    have := g.reached_of_live ht1 hl1
    rw [hb1] at this; exact this
  have hr1' : ReachedW (some k) w j := by
    intro i st' h hi hs' e
    by_cases ei : i = j
    · subst ei
      rw [hs] at hs'; cases hs'
      rw [hst] at e; cases e
      exact Or.inr rfl
    · rcases hr1 i st' h (by omega) hs' e with h1 | h1
      · exact Or.inl h1
      · cases h1
  obtain ⟨g2, f2⟩ := subscribeFrom_good j w g' hp hr1'
  have hk2 := f2.keep k t1 ht1 (by rw [hb1]; rfl)
  exact ⟨finish_good_sub k hk2 g2, f2.fl⟩

theorem pollTask_good {w : TW} (k : Nat) (g : GoodW none w) :
    GoodW none (w.pollTask k) ∧ Fl w (w.pollTask k) := by
  obtain ⟨hrel, h1, h2⟩ := pollPre_spec w.sched k
  unfold TW.pollTask
  generalize w.sched.pollPre k = pp at hrel h1 h2 ⊢
  obtain ⟨s1, p⟩ := pp
  simp only at hrel h1 h2 ⊢
  have g1 : GoodW none ({ w with sched := s1 } : TW) := Good.preRel g hrel
  have fl1 : Fl w ({ w with sched := s1 } : TW) := ⟨rfl, rfl, rfl⟩
  cases p with
  | none => exact ⟨g1, fl1⟩
  | runOnce b =>
    obtain ⟨t1, ht1, hl1, hb1⟩ := h1 b rfl
    have hr1 : ReachedW none ({ w with sched := s1 } : TW) b.level := by
      rw [← hb1]; exact g1.reached_of_live ht1 hl1
    simp only
    split
    · rename_i hasync
      obtain ⟨hlv, _⟩ := isAsync_level hasync
      rw [hlv] at hr1
      obtain ⟨g2, f2⟩ := runAsync_good b g1 hr1
      split
      · rename_i w1 wk heq
        rw [heq] at g2 f2
        exact ⟨stay_good k wk g2, (fl1.trans f2.fl).sched _⟩
      · rename_i w1 o _ heq
        rw [heq] at g2 f2
        exact ⟨finish_good k g2, (fl1.trans f2.fl).sched _⟩
    · cases hsub : b.isSub with
      | false =>
        obtain ⟨g2, f2⟩ := runBody_good b hsub g1 hr1
        exact ⟨finish_good k g2, (fl1.trans f2.fl).sched _⟩
      | true =>
        obtain ⟨j, rfl⟩ : ∃ j, b = .subscribe j := by
          cases b <;> simp [Body.isSub] at hsub
          exact ⟨_, rfl⟩
        obtain ⟨g2, f2⟩ := subscribeBody_good (w := { w with sched := s1 }) g1 ht1 hl1 hb1
        exact ⟨g2, (fl1.trans f2).sched _⟩
  | runTick b seq =>
    obtain ⟨t1, ht1, hl1, hb1⟩ := h2 b seq rfl
    have hr1 : ReachedW none ({ w with sched := s1 } : TW) b.level := by
      rw [← hb1]; exact g1.reached_of_live ht1 hl1
    simp only
    obtain ⟨g2, f2⟩ := runTick_good b seq g1 hr1
    split
    · exact ⟨cont_good k g2, (fl1.trans f2.fl).sched _⟩
    · exact ⟨finish_good k g2, (fl1.trans f2.fl).sched _⟩

theorem pollAll_good (l : List TaskId) : ∀ w : TW, GoodW none w →
    GoodW none (w.pollAll l) ∧ Fl w (w.pollAll l) := by
  induction l with
  | nil => intro w g; exact ⟨g, Fl.refl _⟩
  | cons k l ih =>
    intro w g
    simp only [TW.pollAll]
    have key : ∀ c : Bool, GoodW none (if c = true then w.pollTask k else w) ∧
        Fl w (if c = true then w.pollTask k else w) := by
      intro c; cases c
      · exact ⟨g, Fl.refl _⟩
      · exact pollTask_good k g
    refine ⟨(ih _ (key _).1).1, (key _).2.trans (ih _ (key _).1).2⟩

theorem fire_good {r : Option TaskId} {a : Info} {stages : List Stage} {s : Sched} (tm : TimerId)
    (g : Good r a stages s) : Good r a stages (s.fire tm) := by
  unfold Sched.fire
  split
  · exact g
  · rename_i t _
    simp only
    split
    · split
      · rename_i tk htk
        simp only [Sched.setTimer_tasks] at htk
        refine g.setLike (t' := { tk with woken := true }) htk rfl rfl id (g.hv _ tk htk) id
      · exact g.of_tasks_eq rfl
    · exact g.of_tasks_eq rfl

theorem fireAll_good {r : Option TaskId} {a : Info} {stages : List Stage} (l : List TimerId) :
    ∀ s : Sched, Good r a stages s → Good r a stages (l.foldl Sched.fire s) := by
  induction l with
  | nil => intro s g; exact g
  | cons tm l ih => intro s g; exact ih _ (fire_good tm g)

theorem runLoop_good (fuel : Nat) : ∀ w : TW, GoodW none w →
    GoodW none (TW.runLoop fuel w) ∧ Fl w (TW.runLoop fuel w) := by
  induction fuel with
  | zero => intro w g; exact ⟨g, Fl.refl _⟩
  | succ fuel ih =>
    intro w g
    have g1 : GoodW none ({ w with sched := w.sched.dueTimers.foldl Sched.fire w.sched } : TW) :=
      fireAll_good _ _ g
    have f1 : Fl w ({ w with sched := w.sched.dueTimers.foldl Sched.fire w.sched } : TW) :=
      ⟨rfl, rfl, rfl⟩
    simp only [TW.runLoop]
    split
    · exact ⟨g1, f1⟩
    · obtain ⟨g2, f2⟩ := pollAll_good _ _ g1
      obtain ⟨g3, f3⟩ := ih _ g2
      exact ⟨g3, (f1.trans f2).trans f3⟩

end Rx.T
