import RxModel.Lemmas.ChainQuietURel
/-
  C02 / C17 over the chain model, part 18: `unsubFrom` cancels every handle it
  can reach, detaches the source and the notifier slots it can reach.
-/
namespace Rx.T
open Rx

/-- Every subscribe_on stage with index in `[l, j)` has subscribed its upstream. -/
def RB (w : TW) (l j : Nat) : Prop :=
  ∀ (i : Nat) (st : Stage) (h : Nat), l ≤ i → i < j → w.stages[i]? = some st → st.subH = some h →
    w.sched.handleClosed h = true

/-- Handles point to tasks of their own stage. -/
def HK (w : TW) : Prop :=
  ∀ (j : Nat) (st : Stage) (h : Nat), w.stages[j]? = some st → h ∈ st.handles →
    ∃ t : Task, w.sched.tasks[h]? = some t ∧ t.body.level = j + 1

theorem HK.cancelAll {w : TW} (hk : HK w) (cs : List TaskId) : HK (w.cancelAll cs) := by
  intro j st h hs hm
  obtain ⟨t, ht, hl⟩ := hk j st h hs hm
  obtain ⟨t', ht', hb, _, _⟩ := (CRel.cancelAll cs w.sched).rel h t ht
  exact ⟨t', ht', by rw [hb]; exact hl⟩

/-- Cancelling handles of stage `j` does not touch the subscribe tasks of lower stages. -/
theorem RB.cancelAll {w : TW} {l j : Nat} {st : Stage} {cs : List TaskId} (hk : HK w)
    (hst : w.stages[j]? = some st) (h0 : ∀ k : Nat, k ∈ cs → k ∈ st.handles)
    (h : RB w l (j + 1)) : RB (w.cancelAll cs) l j := by
  intro i sti h' hl hi hs e
  have hc := h i sti h' hl (by omega) hs e
  obtain ⟨t, ht, hv⟩ := (handleClosed_iff _ _).1 hc
  obtain ⟨t1, ht1, hl1⟩ := hk i sti h' hs (subH_mem_handles e).1
  rw [ht] at ht1; cases ht1
  have hnot : h' ∉ cs := by
    intro hm
    obtain ⟨t2, ht2, hl2⟩ := hk j st h' hst (h0 h' hm)
    rw [ht] at ht2; cases ht2
    omega
  apply (handleClosed_iff _ _).2
  exact ⟨t, by rw [TW.cancelAll_sched, cancelAll_other cs _ _ hnot]; exact ht, hv⟩

theorem RB.mono {w : TW} {l j j' : Nat} (h : RB w l j') (hj : j ≤ j') : RB w l j :=
  fun i st h' hl hi hs e => h i st h' hl (by omega) hs e

theorem kills (j : Nat) : ∀ w : TW, HK w →
    (∀ (k : Nat) (t : Task), w.sched.tasks[k]? = some t → t.body.level ≤ j → RB w t.body.level j →
        t.live = true → Owned w.info w.stages k t.body → DeadIn (w.unsubFrom j).sched k) ∧
      (RB w 0 j → (w.unsubFrom j).srcAlive = false) ∧
      (∀ (i : Nat) (st' : Stage), i < j → RB w (i + 1) j → (w.unsubFrom j).stages[i]? = some st' →
        st'.naOn = false) := by
  induction j with
  | zero =>
    intro w _
    refine ⟨?_, ?_, ?_⟩
    · intro k t ht hl _ hlive ho
      have hl0 : t.body.level = 0 := by omega
      unfold Owned at ho
      rw [hl0] at ho
      simp only [TW.info] at ho
      rw [TW.unsubFrom]
      simp only [ho]
      intro t' ht'
      exact cancel_not_live _ _ _ ht'
    · intro _
      rw [TW.unsubFrom]
      split <;> rfl
    · intro i st' hi; omega
  | succ j ih =>
    intro w hk
    cases hst : w.stages[j]? with
    | none =>
      rw [unsubFrom_none w j hst]
      obtain ⟨iha, ihb, ihc⟩ := ih w hk
      refine ⟨?_, ?_, ?_⟩
      · intro k t ht hl hrb hlive ho
        by_cases e : t.body.level = j + 1
        · unfold Owned at ho
          rw [e] at ho
          obtain ⟨st, hs, _⟩ := ho
          rw [hst] at hs; cases hs
        · exact iha k t ht (by omega) (hrb.mono (Nat.le_succ _)) hlive ho
      · intro hrb; exact ihb (hrb.mono (Nat.le_succ _))
      · intro i st' hi hrb hs
        by_cases e : i = j
        · subst e
          rw [(unsubFrom_urel i w).ge i (Nat.le_refl _), hst] at hs; cases hs
        · exact ihc i st' (by omega) (hrb.mono (Nat.le_succ _)) hs
    | some st =>
      have sh := unsubFrom_shape w j st hst
      generalize w.unsubFrom (j + 1) = w' at sh
      -- what the recursive call achieves, for any set `cs0` of handles of stage `j` cancelled first
      have core : ∀ cs0 : List TaskId, (∀ k : Nat, k ∈ cs0 → k ∈ st.handles) →
          (∀ h, st.subH = some h → w.sched.handleClosed h = true) →
          (∀ (k : Nat) (t : Task), w.sched.tasks[k]? = some t → t.body.level ≤ j →
              RB w t.body.level (j + 1) → t.live = true → Owned w.info w.stages k t.body →
              DeadIn ((w.cancelAll cs0).unsubFrom j).sched k) ∧
            (∀ k : Nat, k ∈ cs0 → DeadIn ((w.cancelAll cs0).unsubFrom j).sched k) ∧
            (RB w 0 (j + 1) → ((w.cancelAll cs0).unsubFrom j).srcAlive = false) ∧
            (∀ (i : Nat) (st' : Stage), i < j → RB w (i + 1) (j + 1) →
              ((w.cancelAll cs0).unsubFrom j).stages[i]? = some st' → st'.naOn = false) := by
        intro cs0 h0 hran
        obtain ⟨iha, ihb, ihc⟩ := ih (w.cancelAll cs0) (hk.cancelAll cs0)
        have ur := unsubFrom_urel j (w.cancelAll cs0)
        refine ⟨?_, ?_, ?_, ?_⟩
        · intro k t ht hl hrb hlive ho
          obtain ⟨t1, ht1, hb1, hl1, _⟩ := (CRel.cancelAll cs0 w.sched).rel k t ht
          cases hlv : t1.live with
          | false =>
            apply ur.sched.dead
            intro t2 ht2
            rw [TW.cancelAll_sched, ht1] at ht2; cases ht2; exact hlv
          | true =>
            have := hl1 hlv; subst this
            exact iha k t1 ht1 hl (hrb.cancelAll hk hst h0) hlive ho
        · intro k hm
          exact ur.sched.dead (cancelAll_dead cs0 _ k hm)
        · intro hrb; exact ihb (hrb.cancelAll hk hst h0)
        · intro i st' hi hrb hs
          exact ihc i st' hi (hrb.cancelAll hk hst h0) hs
      cases sh with
      | stop h hs hc hh =>
        have hfalse : ∀ l, l ≤ j → RB w l (j + 1) → False := by
          intro l hl hrb
          have := hrb j st h hl (Nat.lt_succ_self _) hst hs
          rw [hc] at this; cases this
        refine ⟨?_, ?_, ?_⟩
        · intro k t ht hl hrb hlive ho
          by_cases e : t.body.level = j + 1
          · unfold Owned at ho
            rw [e] at ho
            obtain ⟨st0, hs0, hm⟩ := ho
            rw [hst] at hs0; cases hs0
            have := hh k hm; subst this
            exact cancelAll_dead [k] _ k (by simp)
          · exact (hfalse _ (by omega) hrb).elim
        · intro hrb; exact (hfalse 0 (Nat.zero_le _) hrb).elim
        · intro i st' hi hrb hs'
          by_cases e : i = j
          · subst e
            rw [TW.cancelAll_stages, hst] at hs'; cases hs'
            cases st <;> simp [Stage.subH] at hs <;> rfl
          · exact (hfalse (i + 1) (by omega) hrb).elim
      | go cs0 cs1 st1 hran hcov h0 hna =>
        obtain ⟨ca, cd, cb, cc⟩ := core cs0 h0 hran
        refine ⟨?_, ?_, ?_⟩
        · intro k t ht hl hrb hlive ho
          show DeadIn (cancelAll cs1 ((w.cancelAll cs0).unsubFrom j).sched) k
          by_cases e : t.body.level = j + 1
          · unfold Owned at ho
            rw [e] at ho
            obtain ⟨st0, hs0, hm⟩ := ho
            rw [hst] at hs0; cases hs0
            rcases hcov k hm with hm0 | hm1
            · exact (CRel.cancelAll cs1 _).dead (cd k hm0)
            · exact cancelAll_dead cs1 _ k hm1
          · exact (CRel.cancelAll cs1 _).dead (ca k t ht (by omega) hrb hlive ho)
        · intro hrb; exact cb hrb
        · intro i st' hi hrb hs'
          by_cases e : i = j
          · subst e
            have hlt : i < (((w.cancelAll cs0).unsubFrom i).cancelAll cs1).stages.length := by
              have := Sched.get_lt hs'; simpa using this
            simp only [setStage_stages] at hs'
            rw [List.getElem?_set_self hlt] at hs'
            cases hs'; exact hna
          · rw [setStage_low _ _ _ _ e] at hs'
            exact cc i st' (by omega) hrb hs'
      | goKeep cs0 hran hcov h0 hna =>
        obtain ⟨ca, cd, cb, cc⟩ := core cs0 h0 hran
        refine ⟨?_, ?_, ?_⟩
        · intro k t ht hl hrb hlive ho
          by_cases e : t.body.level = j + 1
          · unfold Owned at ho
            rw [e] at ho
            obtain ⟨st0, hs0, hm⟩ := ho
            rw [hst] at hs0; cases hs0
            exact cd k (hcov k hm)
          · exact ca k t ht (by omega) hrb hlive ho
        · intro hrb; exact cb hrb
        · intro i st' hi hrb hs'
          by_cases e : i = j
          · subst e
            rw [(unsubFrom_urel i (w.cancelAll cs0)).ge i (Nat.le_refl _), TW.cancelAll_stages, hst] at hs'
            cases hs'; exact hna
          · exact cc i st' (by omega) hrb hs'

end Rx.T
