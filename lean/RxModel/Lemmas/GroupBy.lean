import RxModel.Ops.GroupBy
/-
  Helper lemmas for Props/C20: the reachable states of `GroupByObserver` are
  determined by the list of keys seen so far (`mkSt`), and its output on an item
  list is the closed form `outsSpec`.
-/
namespace Rx
namespace GroupBy

/-- A group subject after its first `next`: the chamber has been loaded. -/
def norm (a : Bool) : Subj := { observers := some (if a then [⟨true⟩] else []), chamber := [] }

/-- The reachable states. -/
def mkSt (attach : Val → Bool) (ks : List Val) : St :=
  { subjects := ks.map fun k => (k, norm (attach k)) }

theorem mkSt_nil (attach : Val → Bool) : mkSt attach [] = St.init := rfl

theorem norm_next (a : Bool) (v : Val) :
    (norm a).next v = (norm a, if a then [.next v] else []) := by
  cases a <;> rfl

theorem new_next (a : Bool) (v : Val) :
    (if a then Subj.new.subscribe else Subj.new).next v = (norm a, if a then [.next v] else []) := by
  cases a <;> rfl

theorem find_mk (attach : Val → Bool) (ks : List Val) (k : Val) :
    find k (ks.map fun k => (k, norm (attach k))) =
      if k ∈ ks then some (norm (attach k)) else none := by
  induction ks with
  | nil => simp [find]
  | cons a r ih =>
    simp only [List.map_cons, find, List.mem_cons]
    by_cases h : a = k
    · subst h; simp
    · rw [if_neg h, ih]
      have : ¬ k = a := fun e => h e.symm
      simp [this]

theorem replace_mk (attach : Val → Bool) (ks : List Val) (k : Val) :
    replace k (norm (attach k)) (ks.map fun k => (k, norm (attach k))) =
      ks.map fun k => (k, norm (attach k)) := by
  induction ks with
  | nil => rfl
  | cons a r ih =>
    simp only [List.map_cons, replace]
    by_cases h : a = k
    · subst h; simp
    · rw [if_neg h, ih]

theorem onNext_mk (key : Val → Val) (attach : Val → Bool) (ks : List Val) (v : Val) :
    (mkSt attach ks).onNext key (attach (key v)) v =
      if key v ∈ ks then
        (mkSt attach ks, if attach (key v) then [Out.grp (key v) (.next v)] else [])
      else
        (mkSt attach (ks ++ [key v]),
          Out.outer (.next (key v)) ::
            (if attach (key v) then [Out.grp (key v) (.next v)] else [])) := by
  unfold St.onNext mkSt
  simp only [find_mk]
  by_cases h : key v ∈ ks
  · simp only [if_pos h, norm_next, replace_mk]
    cases attach (key v) <;> rfl
  · simp only [if_neg h, new_next, List.map_append, List.map_cons, List.map_nil]
    cases attach (key v) <;> rfl

/-- The keys known after the items `xs`. -/
def keysAfter (key : Val → Val) (ks : List Val) : List Val → List Val
  | [] => ks
  | v :: r => keysAfter key (if key v ∈ ks then ks else ks ++ [key v]) r

/-- Closed form of the output on the items `xs` from a state knowing `ks`. -/
def outsSpec (key : Val → Val) (attach : Val → Bool) (ks : List Val) : List Val → List Out
  | [] => []
  | v :: r =>
    (if key v ∈ ks then [] else [Out.outer (.next (key v))]) ++
    (if attach (key v) then [Out.grp (key v) (.next v)] else []) ++
    outsSpec key attach (if key v ∈ ks then ks else ks ++ [key v]) r

theorem run_mk (key : Val → Val) (attach : Val → Bool) (ks : List Val) (xs : List Val) :
    (mkSt attach ks).run key attach xs =
      (mkSt attach (keysAfter key ks xs), outsSpec key attach ks xs) := by
  induction xs generalizing ks with
  | nil => rfl
  | cons v r ih =>
    simp only [St.run, onNext_mk, keysAfter, outsSpec]
    by_cases h : key v ∈ ks
    · simp only [if_pos h, ih]; simp
    · simp only [if_neg h, ih]; simp

/-! ### Projections of the closed form -/

theorem announced_append (a b : List Out) : announced (a ++ b) = announced a ++ announced b := by
  induction a with
  | nil => rfl
  | cons o r ih =>
    cases o with
    | outer n => cases n <;> simp [announced, ih]
    | grp k n => simp [announced, ih]

theorem groupItems_append (k : Val) (a b : List Out) :
    groupItems k (a ++ b) = groupItems k a ++ groupItems k b := by
  induction a with
  | nil => rfl
  | cons o r ih =>
    cases o with
    | outer n => simp [groupItems, ih]
    | grp k' n =>
      cases n with
      | next v => by_cases h : k' = k <;> simp [groupItems, ih, h]
      | error e => simp [groupItems, ih]
      | complete => simp [groupItems, ih]

theorem flat_append (a b : List Out) : flat (a ++ b) = flat a ++ flat b := by
  induction a with
  | nil => rfl
  | cons o r ih =>
    cases o with
    | outer n => simp [flat, ih]
    | grp k' n => cases n <;> simp [flat, ih]

theorem filter_ne_of_mem {ks : List Val} {x : Val} (h : x ∈ ks) (l : List Val) :
    (l.filter (· ≠ x)).filter (· ∉ ks) = l.filter (· ∉ ks) := by
  rw [List.filter_filter]
  apply List.filter_congr
  intro y _
  by_cases hy : y ∈ ks
  · simp [hy]
  · have : y ≠ x := fun e => hy (e ▸ h)
    simp [hy, this]

theorem filter_notin_append (ks : List Val) (x : Val) (l : List Val) :
    l.filter (· ∉ ks ++ [x]) = (l.filter (· ≠ x)).filter (· ∉ ks) := by
  rw [List.filter_filter]
  apply List.filter_congr
  intro y _
  by_cases hy : y ∈ ks <;> by_cases hx : y = x <;> simp [hy, hx]

theorem announced_spec (key : Val → Val) (attach : Val → Bool) (ks : List Val) (xs : List Val) :
    announced (outsSpec key attach ks xs) = (dedup (xs.map key)).filter (· ∉ ks) := by
  induction xs generalizing ks with
  | nil => rfl
  | cons v r ih =>
    simp only [outsSpec, announced_append, List.map_cons, dedup, ih]
    have hg : announced (if attach (key v) then [Out.grp (key v) (.next v)] else []) = [] := by
      cases attach (key v) <;> rfl
    rw [hg]
    by_cases h : key v ∈ ks
    · simp only [if_pos h, announced, List.nil_append]
      rw [List.filter_cons]
      simp only [h, not_true_eq_false, decide_false, Bool.false_eq_true, if_false]
      exact (filter_ne_of_mem h _).symm
    · simp only [if_neg h, announced, List.append_nil]
      rw [List.filter_cons]
      simp only [h, not_false_eq_true, decide_true, if_true]
      rw [filter_notin_append]
      rfl

theorem keysAfter_spec (key : Val → Val) (ks : List Val) (xs : List Val) :
    keysAfter key ks xs = ks ++ (dedup (xs.map key)).filter (· ∉ ks) := by
  induction xs generalizing ks with
  | nil => simp [keysAfter, dedup]
  | cons v r ih =>
    simp only [keysAfter, List.map_cons, dedup, ih]
    by_cases h : key v ∈ ks
    · simp only [if_pos h]
      rw [List.filter_cons]
      simp only [h, not_true_eq_false, decide_false, Bool.false_eq_true, if_false]
      rw [filter_ne_of_mem h]
    · simp only [if_neg h]
      rw [List.filter_cons]
      simp only [h, not_false_eq_true, decide_true, if_true]
      rw [filter_notin_append]
      simp

theorem groupItems_spec (key : Val → Val) (attach : Val → Bool) (ks : List Val) (xs : List Val)
    (k : Val) :
    groupItems k (outsSpec key attach ks xs) =
      if attach k then xs.filter (fun v => key v = k) else [] := by
  induction xs generalizing ks with
  | nil => simp [outsSpec, groupItems]
  | cons v r ih =>
    simp only [outsSpec, groupItems_append, ih]
    have h1 : groupItems k (if key v ∈ ks then [] else [Out.outer (.next (key v))]) = [] := by
      by_cases h : key v ∈ ks <;> simp [h, groupItems]
    rw [h1, List.nil_append, List.filter_cons]
    by_cases hk : key v = k
    · subst hk
      cases ha : attach (key v) <;> simp [groupItems]
    · cases ha : attach (key v) <;> cases hb : attach k <;> simp [groupItems, hk]

theorem flat_spec (key : Val → Val) (attach : Val → Bool) (ks : List Val) (xs : List Val) :
    flat (outsSpec key attach ks xs) = xs.filter (fun v => attach (key v)) := by
  induction xs generalizing ks with
  | nil => rfl
  | cons v r ih =>
    simp only [outsSpec, flat_append, ih]
    have h1 : flat (if key v ∈ ks then [] else [Out.outer (.next (key v))]) = [] := by
      by_cases h : key v ∈ ks <;> simp [h, flat]
    rw [h1, List.nil_append, List.filter_cons]
    cases ha : attach (key v) <;> simp [flat]

/-- No group sees a terminal, the outer stream sees none, while only items arrive. -/
def isTermOut : Out → Bool
  | .outer n => n.isTerm
  | .grp _ n => n.isTerm

theorem outsSpec_no_term (key : Val → Val) (attach : Val → Bool) (ks : List Val) (xs : List Val) :
    ∀ o ∈ outsSpec key attach ks xs, isTermOut o = false := by
  induction xs generalizing ks with
  | nil => intro o h; cases h
  | cons v r ih =>
    intro o h
    simp only [outsSpec, List.mem_append] at h
    rcases h with (h | h) | h
    · by_cases hk : key v ∈ ks
      · simp [hk] at h
      · simp [hk] at h; subst h; rfl
    · cases ha : attach (key v)
      · simp [ha] at h
      · simp [ha] at h; subst h; rfl
    · exact ih _ o h

/-! ### dedup -/

theorem mem_dedup (x : Val) (l : List Val) : x ∈ dedup l ↔ x ∈ l := by
  induction l with
  | nil => simp [dedup]
  | cons a r ih =>
    simp only [dedup, List.mem_cons, List.mem_filter, ih]
    by_cases h : x = a <;> simp [h]

theorem nodup_dedup (l : List Val) : (dedup l).Nodup := by
  induction l with
  | nil => simp [dedup]
  | cons a r ih =>
    simp only [dedup, List.nodup_cons, List.mem_filter]
    refine ⟨by simp, ih.filter _⟩

/-! ### The terminal fan-out -/

theorem drainOut_mk (attach : Val → Bool) (t : Notif) (ks : List Val) :
    drainOut t (ks.map fun k => (k, norm (attach k))) =
      (ks.filter attach).map fun k => Out.grp k t := by
  induction ks with
  | nil => rfl
  | cons a r ih =>
    have ih' : drainOut t (r.map fun k => (k, norm (attach k))) =
        (r.filter attach).map fun k => Out.grp k t := ih
    simp only [drainOut, List.map_cons, List.flatMap_cons] at ih' ⊢
    rw [ih', List.filter_cons]
    cases ha : attach a <;> simp [norm, Subj.term, Subj.load, Subj.deliverTerm]

theorem drainOut_perm (t : Notif) {l₁ l₂ : List (Val × Subj)} (h : l₁.Perm l₂) :
    (drainOut t l₁).Perm (drainOut t l₂) :=
  List.Perm.flatMap_right _ h

theorem count_grp_map (t : Notif) (k : Val) (ks : List Val) (hnd : ks.Nodup) :
    List.count (Out.grp k t) (ks.map fun k => Out.grp k t) = if k ∈ ks then 1 else 0 := by
  induction ks with
  | nil => simp
  | cons a r ih =>
    rw [List.nodup_cons] at hnd
    simp only [List.map_cons, List.count_cons, ih hnd.2, List.mem_cons]
    by_cases h : a = k
    · subst h; simp [hnd.1]
    · have h' : ¬ k = a := fun e => h e.symm
      simp [h, h']

theorem count_grp_outer (t t' : Notif) (k : Val) : List.count (Out.grp k t) [Out.outer t'] = 0 := by
  simp

/-- The whole output of the terminal step from a reachable state. -/
theorem onTerm_mk (attach : Val → Bool) (ord : List (Val × Subj) → List (Val × Subj))
    (hord : ∀ l, (ord l).Perm l) (ks : List Val) (t : Notif) :
    ∃ gs, ((mkSt attach ks).onTerm ord t).2 = gs ++ [Out.outer t] ∧
      gs.Perm ((ks.filter attach).map fun k => Out.grp k t) := by
  refine ⟨drainOut t (ord (mkSt attach ks).subjects), rfl, ?_⟩
  have := drainOut_perm t (hord (mkSt attach ks).subjects)
  rw [mkSt, drainOut_mk] at this
  exact this

/-! ### The suite world without outer operators is the machine -/

/-- All events of a case; the concatenated log. -/
def World.run (key : Val → Val) (ord : List (Val × Subj) → List (Val × Subj)) (w : World) :
    List Ev → World × List Out
  | [] => (w, [])
  | e :: r =>
    let (w1, o1) := w.step key ord e
    let (w2, o2) := World.run key ord w1 r
    (w2, o1 ++ o2)

theorem pushOuter_nil (o : List Out) : pushOuter [] o = ([], o) := by
  induction o with
  | nil => rfl
  | cons x r ih => cases x <;> simp [pushOuter, runChain, ih]

theorem world_items (key : Val → Val) (ord : List (Val × Subj) → List (Val × Subj))
    (skip : List Val) (st : St) (xs : List Val) :
    World.run key ord { srcDone := false, slot := some st, outer := [], skip := skip }
        (xs.map fun v => Ev.emit (.next v)) =
      ({ srcDone := false, slot := some (st.run key (fun k => !skip.contains k) xs).1,
         outer := [], skip := skip },
       (st.run key (fun k => !skip.contains k) xs).2) := by
  induction xs generalizing st with
  | nil => rfl
  | cons v r ih =>
    simp only [List.map_cons, World.run, World.step, St.run, runChain]
    simp only [Bool.false_eq_true, if_false, pushOuter_nil]
    have hs : ([Notif.next (key v)].contains (Notif.next (key v))) = true := by simp
    rw [hs, Bool.true_and, ih]

theorem world_stream (key : Val → Val) (ord : List (Val × Subj) → List (Val × Subj))
    (skip : List Val) (xs : List Val) (t : Notif) (ht : t.isTerm = true) :
    (World.run key ord (World.init [] skip)
        (xs.map (fun v => Ev.emit (.next v)) ++ [Ev.emit t])).2 =
      St.runStream key (fun k => !skip.contains k) ord xs (some t) := by
  have happ : ∀ (w : World) (a b : List Ev), World.run key ord w (a ++ b) =
      ((World.run key ord (World.run key ord w a).1 b).1,
       (World.run key ord w a).2 ++ (World.run key ord (World.run key ord w a).1 b).2) := by
    intro w a b
    induction a generalizing w with
    | nil => simp [World.run]
    | cons e r ih => simp [World.run, ih, List.append_assoc]
  rw [happ, World.init, world_items]
  cases t with
  | next v => cases ht
  | error e => simp [World.run, World.step, pushOuter_nil, St.runStream]
  | complete => simp [World.run, World.step, pushOuter_nil, St.runStream]

end GroupBy
end Rx
