import RxModel.Lemmas.SubjectSim
/-
  The broadcast loop: concrete `bcast` over the observers list is simulated by the
  abstract `abcast` over the snapshot of current subscribers.
-/
namespace Rx.Subj

theorem bcast_sim (greet : Option Val) (v : Val) : ∀ (xs : List SlotId) (s : State), Inv s →
    ∀ obs, s.observers = some obs → (∀ i ∈ xs, i ∈ obs) →
    (bcast greet v s xs).2 = (abcast greet v s.abs xs).2 ∧
    (bcast greet v s xs).1.abs = (abcast greet v s.abs xs).1 ∧
    Inv (bcast greet v s xs).1 ∧ (bcast greet v s xs).1.observers = some obs
  | [], s, hI, obs, ho, _ => ⟨rfl, rfl, hI, ho⟩
  | i :: r, s, hI, obs, ho, hx => by
    have h1 := callNext_sim s hI obs ho greet i (hx i (by simp)) v
    have hp : (s.callNext greet i v).1.panicked = (s.abs.callNext greet i v).1.panicked := by
      rw [← h1.2.1]; rfl
    unfold bcast abcast
    simp only [hp]
    by_cases hpp : (s.abs.callNext greet i v).1.panicked = true
    · simp only [if_pos hpp]
      exact h1
    · simp only [if_neg hpp]
      have ih := bcast_sim greet v r (s.callNext greet i v).1 h1.2.2.1 obs h1.2.2.2
        (fun j hj => hx j (by simp [hj]))
      rw [h1.2.1] at ih
      refine ⟨?_, ih.2.1, ih.2.2.1, ih.2.2.2⟩
      show _ ++ _ = _ ++ _
      rw [h1.1, ih.1]

theorem modTail_length : ∀ (l : List (List Act)) (i : Nat), (modTail l i).length = l.length
  | [], _ => rfl
  | _ :: _, 0 => rfl
  | x :: r, n + 1 => by simp [modTail, modTail_length r n]

/-- one abstract callback: `live` only loses members or gains fresh ids; ids never shrink -/
theorem Abs.act_live (a : Abs) (greet : Option Val) (i : SlotId) (x : Act) :
    (∀ j ∈ (a.act greet i x).1.live, j ∈ a.live ∨ a.scripts.length ≤ j) ∧
    a.scripts.length ≤ (a.act greet i x).1.scripts.length := by
  cases x with
  | nop => exact ⟨fun j hj => Or.inl hj, Nat.le_refl _⟩
  | sub =>
    have key : (∀ j ∈ (a.subscribe []).live, j ∈ a.live ∨ a.scripts.length ≤ j) ∧
        a.scripts.length ≤ (a.subscribe []).scripts.length := by
      refine ⟨?_, by simp [Abs.subscribe]⟩
      intro j hj
      simp only [Abs.subscribe] at hj
      split at hj
      · exact Or.inl hj
      · rcases List.mem_append.mp hj with h | h
        · exact Or.inl h
        · simp at h; subst h; exact Or.inr (Nat.le_refl _)
    cases greet <;> exact key
  | unsub t =>
    by_cases h : t = i
    · simp only [Abs.act, if_pos h]
      exact ⟨fun j hj => Or.inl hj, Nat.le_refl _⟩
    · simp only [Abs.act, if_neg h, Abs.unsubOne]
      exact ⟨fun j hj => Or.inl (List.mem_filter.mp hj).1, Nat.le_refl _⟩

theorem Abs.callNext_live (a : Abs) (greet : Option Val) (i : SlotId) (v : Val) :
    (∀ j ∈ (a.callNext greet i v).1.live, j ∈ a.live ∨ a.scripts.length ≤ j) ∧
    a.scripts.length ≤ (a.callNext greet i v).1.scripts.length := by
  unfold Abs.callNext
  by_cases h : i ∈ a.live
  · simp only [if_pos h]
    have := Abs.act_live { a with scripts := modTail a.scripts i } greet i
      (match a.scripts[i]? with | some sc => sc.headD .nop | none => .nop)
    simp only [modTail_length] at this
    exact this
  · simp only [if_neg h]
    exact ⟨fun j hj => Or.inl hj, Nat.le_refl _⟩

theorem Abs.callNext_skip (a : Abs) (greet : Option Val) (i : SlotId) (v : Val) (h : i ∉ a.live) :
    a.callNext greet i v = (a, []) := by simp [Abs.callNext, h]

/-- serving a superset of the snapshot that adds only non-subscribers changes nothing -/
theorem abcast_filter (greet : Option Val) (v : Val) (p : SlotId → Bool) : ∀ (xs : List SlotId) (a : Abs),
    a.panicked = false →
    (∀ i ∈ xs, p i = false → i ∉ a.live) → (∀ i ∈ xs, i < a.scripts.length) →
    abcast greet v a (xs.filter p) = abcast greet v a xs
  | [], _, _, _, _ => rfl
  | i :: r, a, hp, h1, h2 => by
    have hl := Abs.callNext_live a greet i v
    cases hpi : p i with
    | true =>
      simp only [List.filter_cons, hpi, if_true]
      unfold abcast
      by_cases hpp : (a.callNext greet i v).1.panicked = true
      · simp only [if_pos hpp]
      · simp only [if_neg hpp]
        have ih := abcast_filter greet v p r (a.callNext greet i v).1 (by simpa using hpp)
          (fun j hj hpj hm => by
            rcases hl.1 j hm with h | h
            · exact h1 j (by simp [hj]) hpj h
            · exact absurd (h2 j (by simp [hj])) (Nat.not_lt.mpr h))
          (fun j hj => Nat.lt_of_lt_of_le (h2 j (by simp [hj])) hl.2)
        rw [ih]
    | false =>
      have hskip := Abs.callNext_skip a greet i v (h1 i (by simp) hpi)
      have ih := abcast_filter greet v p r a hp (fun j hj => h1 j (by simp [hj]))
        (fun j hj => h2 j (by simp [hj]))
      simp only [List.filter_cons, hpi]
      rw [show (if false = true then i :: List.filter p r else List.filter p r) = List.filter p r from rfl, ih]
      conv => rhs; unfold abcast
      simp only [hskip, hp, List.nil_append]
      rfl

end Rx.Subj
