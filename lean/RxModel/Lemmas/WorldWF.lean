import RxModel.Lemmas.PipeWF
/-
  From node actions to the external events of a `pipe` world.
-/
set_option linter.unusedSimpArgs false
namespace Rx
open Node

theorem runActs_append (nd : Node) (a b : List Act) :
    nd.runActs (a ++ b) =
      (((nd.runActs a).1.runActs b).1, (nd.runActs a).2 ++ ((nd.runActs a).1.runActs b).2) := by
  induction a generalizing nd with
  | nil => simp
  | cons x r ih => simp [ih, List.append_assoc]

namespace World

/-- Output of one step as a notification list. -/
def outOf : Obs → List Notif
  | .out ns => ns
  | _ => []

@[simp] theorem run_nil (w : World) : w.run [] = (w, []) := rfl
@[simp] theorem run_cons (w : World) (e : Ext) (r : List Ext) :
    w.run (e :: r) = (((w.step e).1.run r).1, outOf (w.step e).2 ++ ((w.step e).1.run r).2) := by
  simp only [run, outOf]
  cases (w.step e).2 <;> rfl

/-- Once subscribed, the whole log is the output of the root under some action list. -/
theorem run_subscribed (w : World) (nd : Node) (h : w.root = some nd) (es : List Ext) :
    ∃ acts, (w.run es).2 = (nd.runActs acts).2 := by
  induction es generalizing w nd with
  | nil => exact ⟨[], rfl⟩
  | cons e r ih =>
    cases e with
    | sub =>
      obtain ⟨acts, ha⟩ := ih w nd h
      exact ⟨acts, by simp [step, h, outOf, ha]⟩
    | emit i n =>
      have hroot : (w.step (.emit i n)).1.root = some (nd.runActs (w.acts (.emit i n))).1 := by
        simp only [step, h]
      obtain ⟨acts, ha⟩ := ih _ _ hroot
      refine ⟨w.acts (.emit i n) ++ acts, ?_⟩
      have ho : outOf (w.step (.emit i n)).2 = (nd.runActs (w.acts (.emit i n))).2 := by
        simp only [step, h]; rfl
      rw [run_cons, ho, ha, runActs_append]
    | unsub =>
      have hroot : (w.step .unsub).1.root = some (nd.runActs (w.acts .unsub)).1 := by
        simp only [step, h]
      obtain ⟨acts, ha⟩ := ih _ _ hroot
      refine ⟨w.acts .unsub ++ acts, ?_⟩
      have ho : outOf (w.step .unsub).2 = (nd.runActs (w.acts .unsub)).2 := by
        simp only [step, h, outOf, World.acts]; rfl
      rw [run_cons, ho, ha, runActs_append]
    | qClosed =>
      obtain ⟨acts, ha⟩ := ih w nd h
      exact ⟨acts, by simp [step, outOf, ha]⟩
    | qTap =>
      obtain ⟨acts, ha⟩ := ih w nd h
      exact ⟨acts, by simp [step, outOf, ha]⟩

/-- Before the subscription nothing is delivered; afterwards the log is the
    output of the freshly instantiated pipeline under some action list. -/
theorem run_unsubscribed (w : World) (h : w.root = none) (es : List Ext) :
    (w.run es).2 = [] ∨ ∃ acts, (w.run es).2 = (w.pipe.instantiate.runActs acts).2 := by
  induction es generalizing w with
  | nil => exact Or.inl rfl
  | cons e r ih =>
    cases e with
    | sub =>
      right
      have hroot : (w.step .sub).1.root = some (w.pipe.instantiate.runActs (w.acts .sub)).1 := by
        simp only [step, h]
      obtain ⟨acts, ha⟩ := run_subscribed _ _ hroot r
      refine ⟨w.acts .sub ++ acts, ?_⟩
      have ho : outOf (w.step .sub).2 = (w.pipe.instantiate.runActs (w.acts .sub)).2 := by
        simp only [step, h, outOf]
      rw [run_cons, ho, ha, runActs_append]
    | emit i n =>
      have hroot : (w.step (.emit i n)).1.root = none := by
        simp only [step, h]; split <;> first | exact h | rfl
      have hpipe : (w.step (.emit i n)).1.pipe = w.pipe := by
        simp only [step, h]; split <;> rfl
      have ho : outOf (w.step (.emit i n)).2 = [] := by simp only [step, h]; rfl
      rcases ih _ hroot with h1 | ⟨acts, h1⟩
      · left; rw [run_cons, ho, h1]; rfl
      · right; exact ⟨acts, by rw [run_cons, ho, h1, hpipe]; rfl⟩
    | unsub =>
      rcases ih w h with h1 | ⟨acts, h1⟩
      · left; simp [step, h, outOf, h1]
      · right; exact ⟨acts, by simp [step, h, outOf, h1]⟩
    | qClosed =>
      rcases ih w h with h1 | ⟨acts, h1⟩
      · left; simp [step, outOf, h1]
      · right; exact ⟨acts, by simp [step, outOf, h1]⟩
    | qTap =>
      rcases ih w h with h1 | ⟨acts, h1⟩
      · left; simp [step, outOf, h1]
      · right; exact ⟨acts, by simp [step, outOf, h1]⟩

end World
end Rx
