import RxModel.Spec.SubjectSpec
/-
  Basic facts about slots, and the abstraction function from the concrete subject
  state to the abstract one.
-/
namespace Rx.Subj

theorem modSlot_length (f : Slot → Slot) : ∀ (l : List Slot) (i : Nat), (modSlot f l i).length = l.length
  | [], _ => rfl
  | _ :: _, 0 => rfl
  | x :: r, n + 1 => by simp [modSlot, modSlot_length f r n]

theorem modSlot_get (f : Slot → Slot) : ∀ (l : List Slot) (i j : Nat),
    (modSlot f l i)[j]? = if i = j then l[j]?.map f else l[j]?
  | [], _, _ => by simp [modSlot]
  | x :: r, 0, 0 => by simp [modSlot]
  | x :: r, 0, j + 1 => by simp [modSlot]
  | x :: r, i + 1, 0 => by simp [modSlot]
  | x :: r, i + 1, j + 1 => by simp [modSlot, modSlot_get f r i j]

theorem aliveAt_modSlot_same (f : Slot → Slot) (hf : ∀ x, (f x).alive = x.alive) (l : List Slot) (i j : Nat) :
    aliveAt (modSlot f l i) j = aliveAt l j := by
  unfold aliveAt
  rw [modSlot_get]
  by_cases h : i = j
  · rw [if_pos h]; cases h2 : l[j]? <;> simp [hf]
  · rw [if_neg h]

theorem aliveAt_kill (l : List Slot) (t j : Nat) :
    aliveAt (modSlot Slot.kill l t) j = (aliveAt l j && decide (j ≠ t)) := by
  unfold aliveAt
  rw [modSlot_get]
  by_cases h : t = j
  · subst h; cases h2 : l[t]? <;> simp [Slot.kill]
  · have : j ≠ t := fun e => h e.symm
    simp [h, this]

theorem aliveAt_finish (n : Notif) (l : List Slot) (t j : Nat) :
    aliveAt (modSlot (Slot.finish n) l t) j = (aliveAt l j && decide (j ≠ t)) := by
  unfold aliveAt
  rw [modSlot_get]
  by_cases h : t = j
  · subst h; cases h2 : l[t]? <;> simp [Slot.finish]
  · have : j ≠ t := fun e => h e.symm
    simp [h, this]

theorem aliveAt_append_lt (l : List Slot) (x : Slot) (j : Nat) (h : j < l.length) :
    aliveAt (l ++ [x]) j = aliveAt l j := by
  unfold aliveAt
  rw [List.getElem?_append_left h]

theorem aliveAt_append_new (l : List Slot) (x : Slot) : aliveAt (l ++ [x]) l.length = x.alive := by
  unfold aliveAt
  simp

theorem aliveAt_lt (l : List Slot) (j : Nat) (h : aliveAt l j = true) : j < l.length := by
  unfold aliveAt at h
  cases h2 : l[j]? with
  | none => simp [h2] at h
  | some x => exact (List.getElem?_eq_some_iff.mp h2).1

theorem modSlot_map_script (f : Slot → Slot) (hf : ∀ x, (f x).script = x.script) :
    ∀ (l : List Slot) (i : Nat), (modSlot f l i).map (·.script) = l.map (·.script)
  | [], _ => rfl
  | x :: r, 0 => by simp [modSlot, hf]
  | x :: r, n + 1 => by simp [modSlot, modSlot_map_script f hf r n]

theorem modSlot_recv_script (v : Val) : ∀ (l : List Slot) (i : Nat),
    (modSlot (Slot.recv v) l i).map (·.script) = modTail (l.map (·.script)) i
  | [], _ => rfl
  | x :: r, 0 => by simp [modSlot, modTail, Slot.recv]
  | x :: r, n + 1 => by simp [modSlot, modTail, modSlot_recv_script v r n]

/-- entries of both lists -/
def State.entries (s : State) : List SlotId := s.observers.getD [] ++ s.chamber.getD []

/-- current subscribers: alive entries of observers ++ chamber while observers is `Some` -/
def State.absLive (s : State) : List SlotId :=
  match s.observers with
  | some _ => s.entries.filter (aliveAt s.slots)
  | none => []

/-- the abstraction function -/
def State.abs (s : State) : Abs := ⟨s.absLive, s.observers.isNone, s.slots.map (·.script), s.panicked⟩

/-- Invariant of every reachable state. -/
structure Inv (s : State) : Prop where
  /-- so the `unwrap()`s on the chamber (load, len, is_empty) never panic -/
  cham : s.observers.isSome = true → s.chamber.isSome = true
  bound : ∀ i ∈ s.entries, i < s.slots.length
  nodup : s.entries.Nodup

theorem Inv.init : Inv State.init := ⟨fun _ => rfl, by simp [State.entries, State.init], by simp [State.entries, State.init]⟩

end Rx.Subj
