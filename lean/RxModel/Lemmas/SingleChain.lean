import RxModel.Lemmas.SingleMain
/-
  Validity preservation, chains, derived operators.
-/
set_option linter.unusedSimpArgs false
namespace Rx
open Spec St1

theorem apply_valid (op : Op1) (s : Stream) (hv : s.Valid) : (apply op s).Valid := by
  obtain ⟨xs, t⟩ := s
  have hv' : ∀ n, t = some n → n.isTerm = true := hv
  cases op <;> simp only [apply] <;> (try exact hv)
  case onErrorMap f =>
    intro n hn
    rcases valid_cases hv' with h | h | ⟨e, h⟩ <;> subst h <;> simp at hn <;> subst hn <;> rfl
  case take n =>
    split
    · intro m hm; simp at hm; subst hm; rfl
    · split <;> exact hv
  case takeWhile p i =>
    split
    · exact hv
    · intro m hm; simp at hm; subst hm; rfl
  case contains tg =>
    split
    · intro m hm; simp at hm; subst hm; rfl
    · exact hv

theorem runChain_spec (ops : List Op1) (s : Stream) (hv : s.Valid) :
    (runChain (ops.map Op1.init) s.toNotifs).2 = (applyChain ops s).toNotifs := by
  induction ops generalizing s with
  | nil => rfl
  | cons o os ih =>
    simp only [List.map_cons, runChain, applyChain, List.foldl_cons]
    rw [run_spec o s hv]
    exact ih (apply o s) (apply_valid o s hv)

theorem applyChain_valid (ops : List Op1) (s : Stream) (hv : s.Valid) :
    (applyChain ops s).Valid := by
  induction ops generalizing s with
  | nil => exact hv
  | cons o os ih => exact ih _ (apply_valid o s hv)

theorem toNotifs_WF (s : Stream) (hv : s.Valid) : WF s.toNotifs := WF_mk _ _ hv

/-! ### derived operators: the library's composition meets the documented behaviour -/

theorem derived_first (s : Stream) : applyChain Derived.first s = Spec.first s := by
  obtain ⟨xs, t⟩ := s
  cases xs <;> simp [applyChain, Derived.first, apply, Spec.first]

theorem derived_firstOr (d : Val) (s : Stream) : applyChain (Derived.firstOr d) s = Spec.firstOr d s := by
  obtain ⟨xs, t⟩ := s
  cases xs <;> simp [applyChain, Derived.firstOr, apply, Spec.firstOr, onlyOnComplete, isComplete]

theorem derived_lastOr (d : Val) (s : Stream) : applyChain (Derived.lastOr d) s = Spec.lastOr d s := by
  obtain ⟨xs, t⟩ := s
  simp only [applyChain, Derived.lastOr, apply, Spec.lastOr, List.foldl_cons, List.foldl_nil,
    onlyOnComplete]
  by_cases hc : isComplete t
  · cases h : xs.getLast? <;> simp [hc, h]
  · simp [hc]

theorem derived_elementAt (n : Nat) (s : Stream) :
    applyChain (Derived.elementAt n) s = Spec.elementAt n s := by
  obtain ⟨xs, t⟩ := s
  simp only [applyChain, Derived.elementAt, apply, Spec.elementAt, List.foldl_cons, List.foldl_nil]
  by_cases h : n < xs.length
  · have h0 : ¬ (xs.length - n = 0) := by omega
    have h1 : 1 ≤ xs.length - n := by omega
    simp [h, h0, h1, List.take_one, List.getElem?_eq_getElem h, List.head?_drop]
  · have h1 : xs.length ≤ n := by omega
    simp [List.drop_eq_nil_of_le h1, List.getElem?_eq_none h1]

theorem derived_ignoreElements (s : Stream) :
    applyChain Derived.ignoreElements s = Spec.ignoreElements s := by
  obtain ⟨xs, t⟩ := s
  simp [applyChain, Derived.ignoreElements, apply, Spec.ignoreElements]

theorem filter_isFalse_map (p : Val → Bool) (xs : List Val) :
    (xs.map fun v => Val.bool (p v)).filter Derived.isFalse =
      (xs.filter (fun v => !p v)).map (fun _ => Val.bool false) := by
  induction xs with
  | nil => rfl
  | cons x xs ih => cases h : p x <;> simp [Derived.isFalse, h, ih]

theorem derived_all (p : Val → Bool) (s : Stream) :
    applyChain (Derived.all p) s = Spec.all p s := by
  obtain ⟨xs, t⟩ := s
  simp only [applyChain, Derived.all, apply, Spec.all, List.foldl_cons, List.foldl_nil,
    filter_isFalse_map]
  by_cases ha : xs.all p
  · have : xs.filter (fun v => !p v) = [] := by
      simp only [List.filter_eq_nil_iff]; intro a ha'; simp at ha; simp [ha a ha']
    simp [ha, this]
  · have hne : xs.filter (fun v => !p v) ≠ [] := by
      intro h; apply ha; simp only [List.filter_eq_nil_iff] at h; simp; intro a ha'
      have := h a ha'; simpa using this
    cases hf : xs.filter (fun v => !p v) with
    | nil => exact absurd hf hne
    | cons y ys => simp [ha, hf]

theorem scanFrom_getLast (op : Val → Val → Val) (a : Val) (xs : List Val) :
    (scanFrom op a xs).getLast? = if xs = [] then none else some (xs.foldl op a) := by
  induction xs generalizing a with
  | nil => rfl
  | cons x xs ih =>
    cases xs with
    | nil => simp [scanFrom]
    | cons y ys =>
      have := ih (op a x)
      simp only [scanFrom] at this ⊢
      simp [List.getLast?_cons_cons, this]

theorem scanFrom_isEmpty (op : Val → Val → Val) (a : Val) (xs : List Val) :
    (scanFrom op a xs).isEmpty = xs.isEmpty := by
  cases xs <;> simp [scanFrom]

theorem derived_reduceInitial (op : Val → Val → Val) (init : Val) (s : Stream) :
    applyChain (Derived.reduceInitial op init) s = Spec.reduceInitial op init s := by
  obtain ⟨xs, t⟩ := s
  simp only [applyChain, Derived.reduceInitial, apply, Spec.reduceInitial, List.foldl_cons,
    List.foldl_nil, onlyOnComplete, scanFrom_getLast]
  by_cases hc : isComplete t
  · by_cases hx : xs = []
    · subst hx; simp [hc]
    · simp [hc, hx]
  · simp [hc]

theorem derived_aggregate (op : Val → Val → Val) (init : Val) (fin : Val → Val) (s : Stream) :
    applyChain (Derived.aggregate op init fin) s = Spec.aggregate op init fin s := by
  obtain ⟨xs, t⟩ := s
  simp only [applyChain, Derived.aggregate, apply, Spec.aggregate, List.foldl_cons,
    List.foldl_nil, onlyOnComplete, scanFrom_getLast]
  by_cases hc : isComplete t
  · by_cases hx : xs = []
    · subst hx; simp [hc]
    · simp [hc, hx]
  · simp [hc]

end Rx

namespace Rx
open Spec St1

/-- How an operator maps an input error. -/
def Spec.Op1.mapErr : Op1 → Err → Err
  | .onErrorMap f, e => f e
  | _, e => e

theorem gate_nexts_append (xs : List Val) (s : List Notif) :
    gate (xs.map .next ++ s) = xs.map .next ++ gate s := by
  induction xs with
  | nil => rfl
  | cons x xs ih => simp [gate, ih]

/-- On an input error the operator emits what it had already streamed, then the
    (mapped) error — and nothing computed from the truncated input. -/
theorem gate_nexts_complete (xs : List Val) (s : List Notif) :
    gate (xs.map .next ++ (.complete :: s)) = xs.map .next ++ [.complete] := by
  rw [gate_nexts_append]; rfl

theorem gate_nexts_error (xs : List Val) (e : Err) :
    gate (xs.map .next ++ [.error e]) = xs.map .next ++ [.error e] := by
  rw [gate_nexts_append]; rfl

theorem error_only_spec (op : Op1) (xs : List Val) (e : Err) :
    (apply op ⟨xs, some (.error e)⟩).toNotifs =
      gate ((apply op ⟨xs, none⟩).toNotifs ++ [.error (op.mapErr e)]) := by
  have hb : (some (Notif.error e) == some Notif.complete) = false := by simp
  have hn : ((none : Option Notif) == some Notif.complete) = false := by simp
  cases op <;>
    simp only [apply, Op1.mapErr, toNotifs_eq, termL, onlyOnComplete, isComplete, hb, hn] <;>
    (try (simp only [List.append_assoc, gate_nexts_error, List.append_nil,
      List.nil_append, List.map_nil, Bool.false_eq_true, if_false, List.map_append]; done)) <;>
    (try (simp [gate]; done))
  case take n =>
    by_cases h1 : 0 < n ∧ n ≤ xs.length
    · rw [if_pos h1, if_pos h1]
      simp only [toNotifs_eq, termL, List.append_assoc, List.singleton_append, gate_nexts_complete]
    · rw [if_neg h1, if_neg h1]
      by_cases h2 : n = 0
      · rw [if_pos h2, if_pos h2]
        simp only [toNotifs_eq, termL, List.append_nil, gate_nexts_error]
      · rw [if_neg h2, if_neg h2]
        simp only [toNotifs_eq, termL, List.append_nil, gate_nexts_error]
  case takeWhile p i =>
    by_cases h1 : xs.all p = true
    · rw [if_pos h1, if_pos h1]
      simp only [toNotifs_eq, termL, List.append_nil, gate_nexts_error]
    · rw [if_neg h1, if_neg h1]
      simp only [toNotifs_eq, termL, List.append_assoc, List.singleton_append, gate_nexts_complete]
  case contains tg =>
    by_cases h1 : xs.contains tg = true
    · rw [if_pos h1, if_pos h1]
      simp only [toNotifs_eq, termL, List.append_assoc, List.singleton_append, gate_nexts_complete]
    · rw [if_neg h1, if_neg h1]
      simp only [toNotifs_eq, termL, List.append_nil, gate_nexts_error, Bool.false_eq_true,
        if_false]

end Rx
