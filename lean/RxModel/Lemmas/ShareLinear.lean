import RxModel.Lemmas.ShareGrammarStep
/-
  Helper lemmas for C01M / C02M (share): the harness discipline "`sub k` only
  when slot `k` is free" makes probe labels unambiguous (one live subscription
  per label), so the per-label log is a per-subscriber log.
-/
namespace Rx.Share
namespace W

/-- The discipline of the case generator: `sub k` is issued only for `k < 3`
    whose slot is free (`held` = occupied slots); `unsub k` frees slot `k`. -/
def linear : List Nat → List Ev → Bool
  | _, [] => true
  | held, .sub k :: r => decide (k < 3) && !held.contains k && linear (k :: held) r
  | held, .unsub k :: r => linear (held.filter (· != k)) r
  | held, _ :: r => linear held r

/-- Slots after an event. -/
def heldAfter (held : List Nat) : Ev → List Nat
  | .sub k => k :: held
  | .unsub k => held.filter (· != k)
  | _ => held

theorem linear_cons (held : List Nat) (e : Ev) (r : List Ev) (h : linear held (e :: r) = true) :
    linear (heldAfter held e) r = true ∧
      ∀ k, e = .sub k → k < 3 ∧ k ∉ held := by
  cases e with
  | sub k =>
    simp only [linear, Bool.and_eq_true, decide_eq_true_eq, Bool.not_eq_true',
      List.contains_eq_mem, decide_eq_false_iff_not] at h
    refine ⟨h.2, ?_⟩
    intro k' hk
    cases hk
    exact h.1
  | unsub k => exact ⟨h, fun _ hk => by cases hk⟩
  | emit n => exact ⟨h, fun _ hk => by cases hk⟩
  | connect => exact ⟨h, fun _ hk => by cases hk⟩
  | q => exact ⟨h, fun _ hk => by cases hk⟩

/-- Cells only die, handles untouched. -/
def Shrink (w w' : W) : Prop :=
  w'.handles = w.handles ∧
    ∀ id l : Nat, (w'.cells[id]?).join = some l → (w.cells[id]?).join = some l

theorem Shrink.refl (w : W) : Shrink w w := ⟨rfl, fun _ _ h => h⟩
theorem Shrink.trans {a b c : W} (h1 : Shrink a b) (h2 : Shrink b c) : Shrink a c :=
  ⟨h2.1.trans h1.1, fun id l h => h1.2 id l (h2.2 id l h)⟩

theorem tapCall_shrink (w : W) (n : Notif) : Shrink w (w.tapCall n).1 := by
  cases n with
  | next v => rw [tapCall_next_fst]; exact ⟨rfl, fun _ _ h => h⟩
  | error e =>
    rw [tapCall_term_eq w _ rfl]
    simp only [subjTerminal]
    split
    · exact ⟨rfl, fun id l h => cell_foldl_none _ _ _ _ h⟩
    · exact ⟨rfl, fun _ _ h => h⟩
  | complete =>
    rw [tapCall_term_eq w _ rfl]
    simp only [subjTerminal]
    split
    · exact ⟨rfl, fun id l h => cell_foldl_none _ _ _ _ h⟩
    · exact ⟨rfl, fun _ _ h => h⟩

theorem coldEmit_shrink (xs : List Val) : ∀ w : W, Shrink w (w.coldEmit xs).1 := by
  induction xs with
  | nil => intro w; exact tapCall_shrink w _
  | cons v r ih =>
    intro w
    simp only [coldEmit]
    exact (tapCall_shrink w _).trans (ih _)

theorem doConnect_shrink (w : W) (keep : Bool) : Shrink w (w.doConnect keep).1 := by
  simp only [doConnect]
  split
  · rename_i xs _
    have := coldEmit_shrink xs { w with connected := true, srcSubs := w.srcSubs + 1 }
    exact ⟨this.1, this.2⟩
  · exact ⟨rfl, fun _ _ h => h⟩

theorem hotEmit_shrink (w : W) (n : Notif) : Shrink w (w.hotEmit n).1 := by
  cases n with
  | next v =>
    simp only [hotEmit]
    split
    · exact tapCall_shrink w _
    · exact Shrink.refl w
  | error e =>
    simp only [hotEmit]
    split
    · split
      · have := tapCall_shrink { w with hotOpen := false, connCell := false } (.error e)
        exact ⟨this.1, this.2⟩
      · exact ⟨rfl, fun _ _ h => h⟩
    · exact Shrink.refl w
  | complete =>
    simp only [hotEmit]
    split
    · split
      · have := tapCall_shrink { w with hotOpen := false, connCell := false } .complete
        exact ⟨this.1, this.2⟩
      · exact ⟨rfl, fun _ _ h => h⟩
    · exact Shrink.refl w

/-- Handles and live cells agree: a live cell labelled `l` is the one slot `l`
    holds, and occupied slots are recorded in `held`. -/
structure J (w : W) (held : List Nat) : Prop where
  own : ∀ id l : Nat, (w.cells[id]?).join = some l → (w.handles[l]?).join = some id
  reco : ∀ l id : Nat, (w.handles[l]?).join = some id → l ∈ held
  len : w.handles.length = 3

theorem J.shrink {w w' : W} {held : List Nat} (h : J w held) (hs : Shrink w w') : J w' held :=
  ⟨fun id l hc => by rw [hs.1]; exact h.own id l (hs.2 id l hc),
   fun l id hh => h.reco l id (by rw [← hs.1]; exact hh),
   by rw [hs.1]; exact h.len⟩

theorem J.noLive {w : W} {held : List Nat} (h : J w held) {k : Nat} (hk : k ∉ held) :
    ∀ id l : Nat, (w.cells[id]?).join = some l → l ≠ k := by
  intro id l hc hl
  subst hl
  exact hk (h.reco l id (h.own id l hc))

theorem attach_cells_handles (w : W) (k : Nat) :
    (w.attach k).handles = w.handles.set k (some w.cells.length) ∧
    ∃ x, (w.attach k).cells = w.cells ++ [x] ∧ (x = none ∨ x = some k) := by
  simp only [attach, subjSubscribe]
  split
  · exact ⟨rfl, some k, rfl, Or.inr rfl⟩
  · exact ⟨rfl, none, rfl, Or.inl rfl⟩

theorem attach_J (w : W) (k : Nat) (held : List Nat) (h : J w held) (hk : k < 3) (hn : k ∉ held) :
    J (w.attach k) (k :: held) := by
  obtain ⟨hh, x, hc, hx⟩ := attach_cells_handles w k
  refine ⟨?_, ?_, ?_⟩
  · intro id l hl
    rw [hc] at hl
    rw [hh, List.getElem?_set]
    rcases cell_append hl with a | ⟨a1, a2⟩
    · have hne := h.noLive hn id l a
      have : ¬ k = l := fun e => hne e.symm
      simp only [this, if_false]
      exact h.own id l a
    · rcases hx with hx | hx
      · rw [hx] at a2; cases a2
      · rw [hx] at a2
        simp only [Option.some.injEq] at a2
        subst a2 a1
        simp [h.len, hk]
  · intro l id hl
    rw [hh, List.getElem?_set] at hl
    split at hl
    · rename_i e; subst e; exact List.mem_cons_self
    · exact List.mem_cons_of_mem _ (h.reco l id hl)
  · rw [hh, List.length_set]; exact h.len

theorem unsubscribe_cells_handles (w : W) (k id : Nat) (hk : (w.handles[k]?).join = some id) :
    (w.unsubscribe k).cells = w.cells.set id none ∧
      (w.unsubscribe k).handles = w.handles.set k none := by
  simp only [unsubscribe, hk]
  split
  · exact ⟨rfl, rfl⟩
  · split
    · split
      · exact ⟨rfl, rfl⟩
      · split <;> exact ⟨rfl, rfl⟩
    · exact ⟨rfl, rfl⟩

theorem unsubscribe_none (w : W) (k : Nat) (hk : (w.handles[k]?).join = none) :
    w.unsubscribe k = w := by
  simp only [unsubscribe, hk]

theorem cell_set_self (cs : List (Option Nat)) (i : Nat) : ((cs.set i none)[i]?).join = none := by
  rw [List.getElem?_set]
  simp only [if_true]
  split <;> rfl

theorem unsubscribe_J (w : W) (k : Nat) (held : List Nat) (h : J w held) :
    J (w.unsubscribe k) (held.filter (· != k)) ∧
      ∀ id l : Nat, ((w.unsubscribe k).cells[id]?).join = some l → l ≠ k := by
  cases hk : (w.handles[k]?).join with
  | none =>
    rw [unsubscribe_none w k hk]
    have hnl : ∀ id l : Nat, (w.cells[id]?).join = some l → l ≠ k := by
      intro id l hc hl
      subst hl
      rw [h.own id l hc] at hk
      cases hk
    refine ⟨⟨h.own, ?_, h.len⟩, hnl⟩
    intro l id hl
    have hne : l ≠ k := by
      intro e; subst e; rw [hk] at hl; cases hl
    simp [h.reco l id hl, hne]
  | some id0 =>
    obtain ⟨hc, hh⟩ := unsubscribe_cells_handles w k id0 hk
    have hlive : ∀ id l : Nat, ((w.unsubscribe k).cells[id]?).join = some l →
        (w.cells[id]?).join = some l ∧ l ≠ k := by
      intro id l hl
      rw [hc] at hl
      have hold := cell_set_none hl
      refine ⟨hold, ?_⟩
      intro e
      subst e
      have := h.own id l hold
      rw [hk] at this
      simp only [Option.some.injEq] at this
      subst this
      rw [cell_set_self] at hl
      cases hl
    refine ⟨⟨?_, ?_, ?_⟩, fun id l hl => (hlive id l hl).2⟩
    · intro id l hl
      obtain ⟨hold, hne⟩ := hlive id l hl
      rw [hh, List.getElem?_set]
      have : ¬ k = l := fun e => hne e.symm
      simp only [this, if_false]
      exact h.own id l hold
    · intro l id hl
      rw [hh, List.getElem?_set] at hl
      split at hl
      · split at hl <;> cases hl
      · rename_i hne
        have : l ≠ k := fun e => hne e.symm
        simp [h.reco l id hl, this]
    · rw [hh, List.length_set]; exact h.len

theorem step_J (w : W) (e : Ev) (held : List Nat) (h : J w held)
    (hs : ∀ k, e = .sub k → k < 3 ∧ k ∉ held) : J (w.step e).1 (heldAfter held e) := by
  cases e with
  | sub k =>
    obtain ⟨hk, hn⟩ := hs k rfl
    have ha := attach_J w k held h hk hn
    simp only [step, subscribe, heldAfter]
    cases hkind : w.kind with
    | publish => exact ha
    | share =>
      simp only
      split
      · exact ha
      · exact ha.shrink (doConnect_shrink _ _)
  | unsub k => exact (unsubscribe_J w k held h).1
  | emit n => exact h.shrink (hotEmit_shrink w n)
  | connect =>
    simp only [step, heldAfter]
    cases hkind : w.kind with
    | publish =>
      simp only
      split
      · exact h
      · exact h.shrink (doConnect_shrink _ _)
    | share => exact h
  | q => exact h

/-- The selection "label = k". -/
def byLabel (k : Nat) : Nat × Nat → Bool := fun q => q.2 == k
/-- The selection "cell id = i" (one subscription). -/
def byCell (i : Nat) : Nat × Nat → Bool := fun q => q.1 == i

theorem freshRun_byCell (i : Nat) (es : List Ev) : ∀ w : W, FreshRun (byCell i) w es := by
  induction es with
  | nil => intro w; trivial
  | cons e r ih =>
    intro w
    refine ⟨?_, ih _⟩
    intro k _ hp id' l' hc
    simp only [byCell, beq_iff_eq] at hp
    have := cell_lt hc
    simp only [byCell, beq_eq_false_iff_ne, ne_eq]
    omega

theorem freshRun_linear (k : Nat) (es : List Ev) : ∀ (w : W) (held : List Nat), J w held →
    linear held es = true → FreshRun (byLabel k) w es := by
  induction es with
  | nil => intro w held _ _; trivial
  | cons e r ih =>
    intro w held h hl
    obtain ⟨hl', hs⟩ := linear_cons held e r hl
    refine ⟨?_, ih _ _ (step_J w e held h hs) hl'⟩
    intro k' he hp id' l' hc
    simp only [byLabel, beq_iff_eq] at hp
    subst hp
    simp only [byLabel, beq_eq_false_iff_ne, ne_eq]
    exact h.noLive (hs k' he).2 id' l' hc

theorem init_J (m : Model) (k : Kind) (cold : Option (List Val)) : J (init m k cold) [] := by
  refine ⟨?_, ?_, rfl⟩
  · intro id l h; simp [init] at h
  · intro l id h
    simp only [init] at h
    match l, h with
    | 0, h => simp at h
    | 1, h => simp at h
    | 2, h => simp at h
    | n + 3, h => simp at h

theorem run_J (es : List Ev) : ∀ (w : W) (held : List Nat), J w held → linear held es = true →
    ∃ held', J (w.run es).1 held' := by
  induction es with
  | nil => intro w held h _; exact ⟨held, h⟩
  | cons e r ih =>
    intro w held h hl
    obtain ⟨hl', hs⟩ := linear_cons held e r hl
    rw [run_fst_cons]
    exact ih _ _ (step_J w e held h hs) hl'

end W
end Rx.Share
