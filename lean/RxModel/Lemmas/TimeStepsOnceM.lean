import RxModel.Lemmas.TimeStepsOnce
import RxModel.Lemmas.TimeStepsMulti
/-
  Helper lemmas for Props/C07S.lean: delay / observe_on on threads never deliver an item more often than it was
  emitted.  The same token argument as Lemmas/TimeStepsOnce.lean; here an item that has passed the operator sits in the
  TASK scheduled for it (armed: `keep_running` and not yet run) until that task's body hands it to the downstream.
-/
namespace Rx.Conc.TS
open Rx

/-- the task still owes the delivery of `v` -/
def owes (v : Val) (t : Task) : Bool := t.body == .emit (.next v) && t.keep && !t.value

/-- the item `v` in the shared state: in armed tasks, and as often as it stands in the log -/
def tokM (v : Val) (s : St) : Nat := s.tasks.countP (owes v) + s.log.count (.n (.next v))

/-- the item `v` in the hands of a thread -/
def tokPM (v : Val) : Pc → Nat
  | .sj_load n | .sj_chamber n | .sj_obs n | .dl_retain n => if n = .next v then 1 else 0
  | .sj_slot x => if x = v then 1 else 0
  | _ => 0

theorem countP_updT_le (p : Task → Bool) (ts : List Task) (k : Nat) (f : Task → Task)
    (hf : ∀ t, p (f t) = true → p t = true) : (updT ts k f).countP p ≤ ts.countP p := by
  unfold updT
  cases h : ts[k]? with
  | none => exact Nat.le_refl _
  | some t =>
    simp only []
    induction ts generalizing k with
    | nil => simp at h
    | cons a r ih =>
      cases k with
      | zero =>
        simp only [List.getElem?_cons_zero, Option.some.injEq] at h
        subst h
        simp only [List.set_cons_zero, List.countP_cons]
        by_cases e : p (f a) = true
        · simp [e, hf a e]
        · have : p (f a) = false := by simpa using e
          simp only [this, Bool.false_eq_true, if_false]; split <;> omega
      | succ n =>
        simp only [List.getElem?_cons_succ] at h
        simp only [List.set_cons_succ, List.countP_cons]
        have := ih n h
        omega

theorem countP_updT_drop (p : Task → Bool) (ts : List Task) (k : Nat) (f : Task → Task) (t : Task)
    (h : ts[k]? = some t) (h1 : p t = true) (h2 : p (f t) = false) :
    (updT ts k f).countP p + 1 = ts.countP p := by
  unfold updT
  simp only [h]
  induction ts generalizing k with
  | nil => simp at h
  | cons a r ih =>
    cases k with
    | zero =>
      simp only [List.getElem?_cons_zero, Option.some.injEq] at h
      subst h
      simp only [List.set_cons_zero, List.countP_cons, h1, h2, if_true, Bool.false_eq_true, if_false]
    | succ n =>
      simp only [List.getElem?_cons_succ] at h
      simp only [List.set_cons_succ, List.countP_cons]
      have := ih n h
      omega

theorem tokM_upd_le (v : Val) (s : St) (k : Nat) (f : Task → Task)
    (hf : ∀ t, owes v (f t) = true → owes v t = true) : tokM v (s.upd k f) ≤ tokM v s := by
  unfold tokM St.upd
  have := countP_updT_le (owes v) s.tasks k f hf
  simp only []; omega

theorem tokM_spawn (v : Val) (s : St) (d : Option Nat) (b : Body) :
    tokM v (s.spawn d b).1 = tokM v s + (if b = .emit (.next v) then 1 else 0) := by
  unfold tokM St.spawn
  simp only [List.countP_append, List.countP_cons, List.countP_nil, owes]
  by_cases h : b = .emit (.next v)
  · subst h; simp; omega
  · have : (b == Body.emit (Notif.next v)) = false := by simpa using h
    simp [this, h]

theorem tokM_deliver_le (v : Val) (s : St) (n : Notif) :
    tokM v (s.deliver n) ≤ tokM v s + (if n = .next v then 1 else 0) := by
  unfold tokM
  rw [deliver_tasks]
  unfold St.deliver
  split
  · simp only [List.count_append, List.count_cons, List.count_nil]
    by_cases h : n = .next v
    · subst h; simp only [BEq.rfl, if_true]; omega
    · have : (Item.n n == Item.n (Notif.next v)) = false := by
        simp only [beq_eq_false_iff_ne, ne_eq, Item.n.injEq]; exact h
      simp only [this, h, if_false, Bool.false_eq_true]; omega
  · omega

@[simp] theorem tokM_setHeld (v : Val) (s : St) (i : Tid) (cells : List Cell) :
    tokM v (s.setHeld i cells) = tokM v s := rfl

@[simp] theorem tokM_fireTimer (v : Val) (s : St) (j : Nat) : tokM v (s.fireTimer j) = tokM v s := by
  unfold tokM; rw [fireTimer_tasks, fireTimer_log]

@[simp] theorem tokM_foldl_fireTimer (v : Val) (l : List Nat) (s : St) :
    tokM v (l.foldl St.fireTimer s) = tokM v s := by
  unfold tokM; rw [foldl_fire_tasks, foldl_fire_log]

theorem owes_cancel (v : Val) (t : Task) : owes v (cancel t) = false := by simp [owes, cancel]
theorem owes_finished (v : Val) (t : Task) : owes v (finished t) = false := by simp [owes, finished]

theorem tokM_beginPoll_le (v : Val) (s : St) (k : Nat) : tokM v (s.beginPoll k) ≤ tokM v s := by
  unfold St.beginPoll
  exact tokM_upd_le v _ k _ (fun t h => by simpa [owes] using h)

@[simp] theorem tokPM_retPc (v : Val) (r : Ret) : tokPM v (retPc r) = 0 := by cases r <;> rfl
@[simp] theorem tokPM_uSecond (K : Conf) (v : Val) (b : Bool) : tokPM v (uSecond K b) = 0 := by
  unfold uSecond; split <;> rfl
@[simp] theorem tokPM_uAfter (v : Val) (b : Bool) : tokPM v (uAfter b) = 0 := by
  unfold uAfter; split <;> rfl

/-- delay or observe_on -/
theorem nextEntry_M {K : Conf} (hM : K.kind.isM = true) (x : Val) : nextEntry K x = .dl_retain (.next x) := by
  unfold nextEntry; cases hk : K.kind <;> simp_all [Kind.isM]

theorem tokPM_termEntry {K : Conf} (hM : K.kind.isM = true) (v : Val) (t : Notif) (ht : t.isTerm = true) :
    tokPM v (termEntry K t) = 0 := by
  unfold termEntry
  cases t <;> simp [Notif.isTerm] at ht <;> cases hk : K.kind <;> simp_all [Kind.isM, tokPM]

/-- **One step never multiplies an item (delay / observe_on).** -/
theorem step_tokM {K : Conf} (hM : K.kind.isM = true) (v : Val) (s : St) (p : Pc) (hok : p.okM = true)
    (hA : ∀ k n ret, p = .p_emit k n ret →
      ∃ t, s.tasks[k]? = some t ∧ t.body = .emit n ∧ t.keep = true ∧ t.value = false) :
    tokM v (step K s p).1 + tokPM v (step K s p).2 ≤ tokM v s + tokPM v p := by
  cases p
  case p_emit k n ret =>
    obtain ⟨t, ht, hb, hk, hv⟩ := hA k n ret rfl
    simp only [step, tokPM]
    have hd := tokM_deliver_le v s n
    by_cases e : n = .next v
    · -- the task owed `v`: it pays
      subst e
      have ho : owes v t = true := by simp [owes, hb, hk, hv]
      have h1 : ((s.deliver (.next v)).tasks)[k]? = some t := by rw [deliver_tasks]; exact ht
      have := countP_updT_drop (owes v) (s.deliver (.next v)).tasks k finished t h1 ho (owes_finished v t)
      simp only [if_true] at hd
      have e1 : tokM v ((s.deliver (.next v)).upd k finished) =
          (updT (s.deliver (.next v)).tasks k finished).countP (owes v) +
            (s.deliver (.next v)).log.count (.n (.next v)) := rfl
      have e2 : tokM v (s.deliver (.next v)) =
          (s.deliver (.next v)).tasks.countP (owes v) + (s.deliver (.next v)).log.count (.n (.next v)) := rfl
      omega
    · have := tokM_upd_le v (s.deliver n) k finished (fun t h => by rw [owes_finished] at h; cases h)
      simp only [e, if_false] at hd
      omega
  case dl_retain n =>
    simp only [step, tokPM, tokM_spawn]
    simp only [Body.emit.injEq]
    omega
  case dl_late k =>
    have := tokM_upd_le v s k cancel (fun t h => by rw [owes_cancel] at h; cases h)
    simp only [step, tokPM]; omega
  case u_mc hs b =>
    simp only [step]
    split
    · simp only [tokPM_uAfter]; simp only [tokPM]; omega
    · have := tokM_upd_le v s ‹Nat› cancel (fun t h => by rw [owes_cancel] at h; cases h)
      simp only [tokPM_uAfter]; simp only [tokPM]; omega
    · have := tokM_upd_le v s ‹Nat› cancel (fun t h => by rw [owes_cancel] at h; cases h)
      simp only [tokPM]; omega
  case te_down e =>
    have := tokM_deliver_le v s (.error e)
    simp only [step]
    simp at this
    cases K.kind <;> simp only [tokPM] <;> omega
  case p_begin j =>
    simp only [step]
    split
    · have := tokM_beginPoll_le v s ‹Nat›
      simp only [tokPM]; omega
    · simp only [tokPM]; omega
  case run_polls ks pr =>
    simp only [step]
    split
    · split <;> simp only [tokPM] <;> omega
    · split
      · have := tokM_beginPoll_le v s ‹Nat›
        simp only [tokPM]; omega
      · simp only [tokPM]; omega
  case p_fin k r ret =>
    have := tokM_upd_le v s k (fun x => { x with running := false, done := r }) (fun t h => by simpa [owes] using h)
    simp only [step, tokPM_retPc]; simp only [tokPM]; omega
  case p_handle k ret =>
    simp only [step]
    (repeat' split) <;> (try (simp only [tokPM]; omega))
    all_goals
      first
      | (have := tokM_upd_le v ({ s with timers := s.timers ++ [{ due := s.now + ‹Nat›, waiter := some k }] } : St) k
            (fun x => { x with timer := some s.timers.length }) (fun t h => by simpa [owes] using h)
         have e0 : tokM v ({ s with timers := s.timers ++ [{ due := s.now + ‹Nat›, waiter := some k }] } : St) = tokM v s := rfl
         simp only [tokPM]; omega)
      | (simp [tokM, tokPM]; done)
  all_goals (try (simp [Pc.okM] at hok; done))
  all_goals
    simp only [step, thOver, termEntry]
  all_goals (repeat' split)
  all_goals (try simp only [tokPM_retPc, tokPM_uSecond, tokPM_uAfter, tokM_fireTimer, tokM_foldl_fireTimer])
  all_goals (try (simp only [tokPM]; omega))
  all_goals (try (simp [tokM, tokPM, nextEntry_M hM, List.count_append]; done))

/-! ### the task a poller is about to run carries the notification it was scheduled for -/

structure BInv (s : St) (f : Nat → Pc) : Prop where
  pe : ∀ j k n ret, f j = .p_emit k n ret → ∃ t, s.tasks[k]? = some t ∧ t.body = .emit n

theorem task_body_some (s : St) (k : Nat) (n : Notif) (h : (s.task k).body = .emit n) :
    ∃ t, s.tasks[k]? = some t ∧ t.body = .emit n := by
  rw [task_eq] at h
  cases e : s.tasks[k]? with
  | none => rw [e] at h; cases h
  | some t => rw [e] at h; exact ⟨t, rfl, h⟩

theorem step_to_p_emit (K : Conf) (s : St) (p : Pc) (k : Nat) (n : Notif) (ret : Ret)
    (h : (step K s p).2 = .p_emit k n ret) :
    (step K s p).1 = s ∧ (s.task k).body = .emit n := by
  cases p <;> simp only [step, thOver, nextEntry, termEntry, afterTrail, retPc, uSecond, uAfter] at h ⊢
  all_goals (try (repeat' split at h)) <;> (try simp at h)
  all_goals (obtain ⟨rfl, rfl, rfl⟩ := h; simp_all)

theorem updT_body (ts : List Task) (h k : Nat) (f : Task → Task) (hf : ∀ t, (f t).body = t.body) (t : Task)
    (ht : ts[k]? = some t) : ∃ t', (updT ts h f)[k]? = some t' ∧ t'.body = t.body := by
  rw [getElem?_updT]
  split
  · exact ⟨f t, by simp [ht], hf t⟩
  · exact ⟨t, ht, rfl⟩

theorem step_body_stable (K : Conf) (s : St) (p : Pc) (k : Nat) (t : Task) (ht : s.tasks[k]? = some t) :
    ∃ t', (step K s p).1.tasks[k]? = some t' ∧ t'.body = t.body := by
  have hU : ∀ (s' : St) (h : Nat) (f : Task → Task), s'.tasks = s.tasks → (∀ x, (f x).body = x.body) →
      ∃ t', (s'.upd h f).tasks[k]? = some t' ∧ t'.body = t.body := by
    intro s' h f e hf
    exact updT_body s'.tasks h k f hf t (e ▸ ht)
  have hA : ∀ (s' : St) (d : Option Nat) (b : Body), (∃ t', s'.tasks[k]? = some t' ∧ t'.body = t.body) →
      ∃ t', (s'.spawn d b).1.tasks[k]? = some t' ∧ t'.body = t.body := by
    intro s' d b ⟨t', h1, h2⟩
    refine ⟨t', ?_, h2⟩
    show (s'.tasks ++ _)[k]? = some t'
    rw [List.getElem?_append_left (List.getElem?_eq_some_iff.mp h1).1]; exact h1
  cases p <;> simp only [step, thOver]
  all_goals (try (repeat' split))
  all_goals (try (exact ⟨t, by simpa using ht, rfl⟩))
  all_goals (try dsimp only)
  all_goals
    first
    | exact hU _ _ _ rfl (fun _ => rfl)
    | exact hU _ _ _ (by simp) (fun _ => rfl)
    | exact hA _ _ _ ⟨t, by simpa using ht, rfl⟩
    | exact hA _ _ _ (hU _ _ _ rfl (fun _ => rfl))
    | (unfold St.beginPoll; exact hU _ _ _ rfl (fun _ => rfl))

theorem BInv.preserved (K : Conf) {s : St} {f : Nat → Pc} (h : BInv s f) (i : Nat) (q : Pc)
    (ha : After (step K s (f i)).2 q) :
    BInv ((step K s (f i)).1.setHeld i q.holds) (fun j => if j = i then q else f j) := by
  refine ⟨?_⟩
  intro j k n ret hq
  show ∃ t, (step K s (f i)).1.tasks[k]? = some t ∧ t.body = .emit n
  by_cases hj : j = i
  · simp only [hj, if_true] at hq
    rcases ha with e | ⟨_, e⟩
    · rw [e] at hq
      obtain ⟨e1, e2⟩ := step_to_p_emit K s (f i) k n ret hq
      rw [e1]; exact task_body_some s k n e2
    · rw [hq] at e; cases e
  · simp only [hj, if_false] at hq
    obtain ⟨t, ht, hb⟩ := h.pe j k n ret hq
    obtain ⟨t', ht', hb'⟩ := step_body_stable K s (f i) k t ht
    exact ⟨t', ht', hb'.trans hb⟩

theorem BInv.init (s : St) (progs : List (List Op)) : BInv s (Cfg.init s progs).pcOf := by
  refine ⟨?_⟩
  intro j k n ret hq
  rcases init_pcOf s progs j with e | e
  · rw [e] at hq; cases hq
  · rw [hq] at e; cases e

/-! ### counting over the threads -/

def thTokM (v : Val) (t : Thread) : Nat := tokPM v t.pc + pend v t.rest

def PhiM (v : Val) (c : Cfg) : Nat := tokM v c.st + (c.ths.map (thTokM v)).sum

theorem tokPM_entry (v : Val) (op : Op) : tokPM v op.entry = if op = .emit (.next v) then 1 else 0 := by
  cases op <;> simp [Op.entry, tokPM]

theorem thTokM_norm (v : Val) (p : Pc) (rest : List Op) :
    thTokM v (Thread.norm ⟨p, rest⟩) = tokPM v p + pend v rest := by
  unfold Thread.norm thTokM
  cases rest with
  | nil => cases p <;> rfl
  | cons op r =>
    cases p
    case fin =>
      show tokPM v op.entry + pend v r = tokPM v Pc.fin + pend v (op :: r)
      rw [tokPM_entry]
      simp only [pend, List.count_cons]
      have h0 : tokPM v Pc.fin = 0 := rfl
      by_cases h : op = .emit (.next v)
      · subst h; simp only [if_true, BEq.rfl]; omega
      · have : (op == Op.emit (Notif.next v)) = false := by simpa using h
        simp only [h, this, if_false, Bool.false_eq_true]; omega
    all_goals rfl

theorem armed_task {s : St} {k : Nat} (h : s.armed k = true) :
    ∃ t, s.tasks[k]? = some t ∧ t.keep = true ∧ t.value = false := by
  unfold St.armed at h
  cases e : s.tasks[k]? with
  | none => rw [e] at h; cases h
  | some t =>
    rw [e] at h
    simp only [Bool.and_eq_true, Bool.not_eq_true'] at h
    exact ⟨t, rfl, h.1, h.2⟩

theorem PhiM_sched1 {K : Conf} (hM : K.kind.isM = true) (v : Val) (c : Cfg) (i : Nat)
    (hok : ∀ j, (c.pcOf j).okM = true) (has : ∀ j, AssertM c.st (c.pcOf j)) (hb : BInv c.st c.pcOf) :
    PhiM v (c.sched1 K i) ≤ PhiM v c := by
  unfold Cfg.sched1
  cases hi : c.ths[i]? with
  | none => exact Nat.le_refl _
  | some t =>
    simp only []
    have hp : c.pcOf i = t.pc := by simp [Cfg.pcOf, hi]
    split
    · unfold PhiM
      simp only [tokM_setHeld]
      have h1 := sum_map_set (thTokM v) c.ths i (Thread.norm ⟨(step K c.st t.pc).2, t.rest⟩) t hi
      rw [thTokM_norm] at h1
      have h2 := step_tokM hM v c.st t.pc (hp ▸ hok i) (by
        intro k n ret e
        have ha := has i
        rw [hp, e] at ha
        obtain ⟨t1, ht1, hk, hv⟩ := armed_task ha
        obtain ⟨t2, ht2, hb2⟩ := hb.pe i k n ret (hp.trans e)
        rw [ht1] at ht2; cases ht2
        exact ⟨t1, ht1, hb2, hk, hv⟩)
      have h3 : thTokM v t = tokPM v t.pc + pend v t.rest := rfl
      omega
    · exact Nat.le_refl _

theorem PhiM_init (v : Val) (live : Bool) (progs : List (List Op)) :
    PhiM v (Cfg.init (St.subscribed live) progs) = (progs.map (pend v)).sum := by
  unfold PhiM Cfg.init
  have h0 : tokM v (St.subscribed live) = 0 := rfl
  simp only [h0, Nat.zero_add, List.map_map]
  congr 1
  apply List.map_congr_left
  intro ops _
  show thTokM v (Thread.mk' ops) = pend v ops
  unfold Thread.mk'
  rw [thTokM_norm]
  show 0 + pend v ops = pend v ops
  omega

/-- delay / observe_on, the order of the code: along every schedule the places an item is in never become more. -/
theorem PhiM_exec {K : Conf} (hK : MConf K) (v : Val) (live : Bool) (progs : List (List Op)) :
    ∀ (sched : List Nat),
      BInv (exec K (Cfg.init (St.subscribed live) progs) sched).st
          (exec K (Cfg.init (St.subscribed live) progs) sched).pcOf ∧
        PhiM v (exec K (Cfg.init (St.subscribed live) progs) sched) ≤ (progs.map (pend v)).sum := by
  have key : ∀ (l : List Nat),
      BInv (exec K (Cfg.init (St.subscribed live) progs) l.reverse).st
          (exec K (Cfg.init (St.subscribed live) progs) l.reverse).pcOf ∧
        PhiM v (exec K (Cfg.init (St.subscribed live) progs) l.reverse) ≤ (progs.map (pend v)).sum := by
    intro l
    induction l with
    | nil => exact ⟨BInv.init _ progs, Nat.le_of_eq (PhiM_init v live progs)⟩
    | cons i l ih =>
      have hD := MInv.exec hK live progs l.reverse
      have e : exec K (Cfg.init (St.subscribed live) progs) (i :: l).reverse =
          (exec K (Cfg.init (St.subscribed live) progs) l.reverse).sched1 K i := by
        simp [exec, List.foldl_append]
      rw [e]
      generalize exec K (Cfg.init (St.subscribed live) progs) l.reverse = c at ih hD ⊢
      refine ⟨?_, Nat.le_trans (PhiM_sched1 hK.kind v c i hD.dd.ok hD.dd.as ih.1) ih.2⟩
      rcases sched1_view K c i with e' | ⟨q, _, ha, hs, hp⟩
      · rw [e']; exact ih.1
      · rw [hs]
        have e2 : (c.sched1 K i).pcOf = fun j => if j = i then q else c.pcOf j := funext hp
        rw [e2]
        exact ih.1.preserved K i q ha
  intro sched
  have := key sched.reverse
  rwa [List.reverse_reverse] at this

end Rx.Conc.TS
