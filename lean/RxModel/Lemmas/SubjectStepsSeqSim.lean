import RxModel.Lemmas.SubjectStepsSeq
/-
  Helper lemmas for Props/C06S.lean, part 5: the simulation, operation by operation
  and for whole histories.
-/
namespace Rx.Conc.SS
open Rx
open Rx.Subj (State Slot SubjOp modSlot aliveAt)

/-- the answers `size` must give in sequential state `j` -/
def sizeAns (j : State) : Op → List SizeOut
  | .size => [.len j.len, .empty j.isEmpty]
  | _ => []

theorem Rel.init : Rel St.init State.init :=
  ⟨rfl, rfl, rfl, (by intro sl h; cases h), Or.inr (by simp [State.init]), rfl, rfl⟩

theorem runOp_sim {s : St} {j : State} (h : Rel s j) (op : Op) :
    Rel (s.runOp op) (j.apply op.toSubj).1 ∧
      (s.runOp op).log = s.log ++ (j.apply op.toSubj).2 ∧
      (s.runOp op).sizes = s.sizes ++ sizeAns j op := by
  obtain ⟨obs, ch, slots, log, sizes, p⟩ := s
  obtain ⟨jo, jc, js, jp⟩ := j
  obtain ⟨h1, h2, h3, h4, h5, h6, h7⟩ := h
  simp only at h1 h2 h3 h5 h6 h7
  subst h1 h2 h3 h6 h7
  have hopen : St.isOpen ⟨obs, ch, js.map (·.alive), log, sizes, false⟩ = aliveAt js := by
    rw [aliveAt_eq]; rfl
  cases op with
  | next v =>
    cases obs with
    | none =>
      refine ⟨⟨rfl, rfl, rfl, h4, Or.inl rfl, rfl, rfl⟩, ?_, ?_⟩
      · simp [St.runOp, St.runSteps, Op.steps, St.step, St.emits, Op.toSubj, State.apply, State.next,
          State.load]
      · simp [St.runOp, St.runSteps, Op.steps, St.step, sizeAns]
    | some o =>
      cases ch with
      | none => simp at h5
      | some c =>
        have hb := bcast_plain v (o ++ c) ⟨some (o ++ c), some [], js, false⟩ h4 rfl
        have hj : (State.apply ⟨some o, some c, js, false⟩ (Op.toSubj (.next v))) =
            Subj.bcast none v ⟨some (o ++ c), some [], js, false⟩ (o ++ c) := rfl
        rw [hj]
        obtain ⟨b1, b2, b3, b4, b5, b6⟩ := hb
        refine ⟨⟨?_, ?_, ?_, b5, ?_, rfl, b6⟩, ?_, ?_⟩
        · rw [b2]; rfl
        · rw [b3]; rfl
        · rw [b4]; rfl
        · rw [b3]; exact Or.inr (by simp)
        · rw [b1, aliveAt_eq]
          simp [St.runOp, St.runSteps, Op.steps, St.step, St.emits]
          rfl
        · simp [St.runOp, St.runSteps, Op.steps, St.step, sizeAns]
  | error e =>
    cases obs with
    | none =>
      refine ⟨⟨rfl, rfl, rfl, h4, Or.inl rfl, rfl, rfl⟩, ?_, ?_⟩
      · simp [St.runOp, St.runSteps, Op.steps, St.step, Op.toSubj, State.apply, State.terminal,
          State.load]
      · simp [St.runOp, St.runSteps, Op.steps, St.step, sizeAns]
    | some o =>
      cases ch with
      | none => simp at h5
      | some c =>
        have hb := term_plain (.error e) (o ++ c) ⟨none, some [], js, false⟩
        have hj : (State.apply ⟨some o, some c, js, false⟩ (Op.toSubj (.error e))) =
            Subj.term (.error e) ⟨none, some [], js, false⟩ (o ++ c) := rfl
        rw [hj]
        obtain ⟨b1, b2, b3, b4, b5, b6⟩ := hb
        refine ⟨⟨?_, ?_, ?_, b6 h4, ?_, rfl, b5⟩, ?_, ?_⟩
        · rw [b3]; rfl
        · rw [b4]; rfl
        · rw [b2]; rfl
        · rw [b3]; exact Or.inl rfl
        · rw [b1]
          simp [St.runOp, St.runSteps, Op.steps, St.step, St.emits, Term.toNotif]
        · simp [St.runOp, St.runSteps, Op.steps, St.step, sizeAns]
  | complete =>
    cases obs with
    | none =>
      refine ⟨⟨rfl, rfl, rfl, h4, Or.inl rfl, rfl, rfl⟩, ?_, ?_⟩
      · simp [St.runOp, St.runSteps, Op.steps, St.step, Op.toSubj, State.apply, State.terminal,
          State.load]
      · simp [St.runOp, St.runSteps, Op.steps, St.step, sizeAns]
    | some o =>
      cases ch with
      | none => simp at h5
      | some c =>
        have hb := term_plain .complete (o ++ c) ⟨none, some [], js, false⟩
        have hj : (State.apply ⟨some o, some c, js, false⟩ (Op.toSubj .complete)) =
            Subj.term .complete ⟨none, some [], js, false⟩ (o ++ c) := rfl
        rw [hj]
        obtain ⟨b1, b2, b3, b4, b5, b6⟩ := hb
        refine ⟨⟨?_, ?_, ?_, b6 h4, ?_, rfl, b5⟩, ?_, ?_⟩
        · rw [b3]; rfl
        · rw [b4]; rfl
        · rw [b2]; rfl
        · rw [b3]; exact Or.inl rfl
        · rw [b1]
          simp [St.runOp, St.runSteps, Op.steps, St.step, St.emits, Term.toNotif]
        · simp [St.runOp, St.runSteps, Op.steps, St.step, sizeAns]
  | unsubAll =>
    exact ⟨⟨rfl, rfl, rfl, h4, Or.inl rfl, rfl, rfl⟩, by simp [St.runOp, St.runSteps, Op.steps, St.step, Op.toSubj, State.apply, State.unsubscribe],
      by simp [St.runOp, St.runSteps, Op.steps, St.step, sizeAns]⟩
  | subscribe =>
    cases ch with
    | none =>
      refine ⟨⟨rfl, rfl, by simp [St.runOp, St.runSteps, Op.steps, St.step, Op.toSubj, State.apply, State.subscribe],
        ?_, ?_, rfl, rfl⟩, ?_, ?_⟩
      · intro sl hsl
        simp only [Op.toSubj, State.apply, State.subscribe, List.mem_append, List.mem_singleton] at hsl
        rcases hsl with hsl | rfl
        · exact h4 sl hsl
        · rfl
      · exact h5
      · simp [St.runOp, St.runSteps, Op.steps, St.step, Op.toSubj, State.apply, State.subscribe]
      · simp [St.runOp, St.runSteps, Op.steps, St.step, sizeAns]
    | some c =>
      refine ⟨⟨rfl, by simp [St.runOp, St.runSteps, Op.steps, St.step, Op.toSubj, State.apply, State.subscribe],
        by simp [St.runOp, St.runSteps, Op.steps, St.step, Op.toSubj, State.apply, State.subscribe],
        ?_, ?_, rfl, rfl⟩, ?_, ?_⟩
      · intro sl hsl
        simp only [Op.toSubj, State.apply, State.subscribe, List.mem_append, List.mem_singleton] at hsl
        rcases hsl with hsl | rfl
        · exact h4 sl hsl
        · rfl
      · exact Or.inr (by simp [Op.toSubj, State.apply, State.subscribe])
      · simp [St.runOp, St.runSteps, Op.steps, St.step, Op.toSubj, State.apply, State.subscribe]
      · simp [St.runOp, St.runSteps, Op.steps, St.step, sizeAns]
  | unsub u =>
    refine ⟨⟨rfl, rfl, ?_, ?_, h5, rfl, rfl⟩, ?_, ?_⟩
    · simp only [Op.toSubj, State.apply, State.killSlot]
      rw [modSlot_map_dead Slot.kill (fun _ => rfl)]
      simp [St.runOp, St.runSteps, Op.steps, St.step]
    · exact modSlot_plain Slot.kill (fun x hx => by simp [Slot.kill, hx]) _ _ h4
    · simp [St.runOp, St.runSteps, Op.steps, St.step, Op.toSubj, State.apply]
    · simp [St.runOp, St.runSteps, Op.steps, St.step, sizeAns]
  | retain =>
    cases obs with
    | none =>
      exact ⟨⟨rfl, rfl, rfl, h4, Or.inl rfl, rfl, rfl⟩,
        by simp [St.runOp, St.runSteps, Op.steps, St.step, Op.toSubj, State.apply, State.retain],
        by simp [St.runOp, St.runSteps, Op.steps, St.step, sizeAns]⟩
    | some o =>
      refine ⟨⟨?_, rfl, rfl, h4, ?_, rfl, rfl⟩, ?_, ?_⟩
      · simp only [St.runOp, St.runSteps, Op.steps, St.step, Op.toSubj, State.apply, State.retain,
          List.foldl_cons, List.foldl_nil, Bool.false_eq_true, if_false, hopen]
      · rcases h5 with h5 | h5
        · cases h5
        · exact Or.inr h5
      · simp [St.runOp, St.runSteps, Op.steps, St.step, Op.toSubj, State.apply, State.retain]
      · simp [St.runOp, St.runSteps, Op.steps, St.step, sizeAns]
  | size =>
    refine ⟨?_, ?_, ?_⟩
    · cases obs with
      | none => exact ⟨rfl, rfl, rfl, h4, Or.inl rfl, rfl, rfl⟩
      | some o =>
        cases ch with
        | none => simp at h5
        | some c => cases o <;> exact ⟨rfl, rfl, rfl, h4, Or.inr (by simp [Op.toSubj, State.apply]), rfl, rfl⟩
    · cases obs with
      | none => simp [St.runOp, St.runSteps, Op.steps, St.step, Op.toSubj, State.apply]
      | some o =>
        cases ch with
        | none => simp at h5
        | some c => cases o <;> simp [St.runOp, St.runSteps, Op.steps, St.step, Op.toSubj, State.apply]
    · cases obs with
      | none => simp [St.runOp, St.runSteps, Op.steps, St.step, sizeAns, State.len, State.len?, State.isEmpty]
      | some o =>
        cases ch with
        | none => simp at h5
        | some c =>
          cases o <;> simp [St.runOp, St.runSteps, Op.steps, St.step, sizeAns, State.len, State.len?, State.isEmpty]

/-- the answers of the `size` operations of a history -/
def sizeAnss : State → List Op → List SizeOut
  | _, [] => []
  | j, op :: r => sizeAns j op ++ sizeAnss (j.apply op.toSubj).1 r

theorem runOps_sim : ∀ (ops : List Op) {s : St} {j : State}, Rel s j →
    Rel (s.runOps ops) (Subj.exec j (ops.map Op.toSubj)) ∧
      (s.runOps ops).log = s.log ++ delivs j (ops.map Op.toSubj) ∧
      (s.runOps ops).sizes = s.sizes ++ sizeAnss j ops := by
  intro ops
  induction ops with
  | nil => intro s j h; exact ⟨h, by simp [St.runOps, delivs], by simp [St.runOps, sizeAnss]⟩
  | cons op r ih =>
    intro s j h
    obtain ⟨h1, h2, h3⟩ := runOp_sim h op
    obtain ⟨i1, i2, i3⟩ := ih h1
    refine ⟨i1, ?_, ?_⟩
    · show (St.runOps (s.runOp op) r).log = _
      rw [i2, h2]
      simp [delivs, List.append_assoc]
    · show (St.runOps (s.runOp op) r).sizes = _
      rw [i3, h3]
      simp [sizeAnss, List.append_assoc]

end Rx.Conc.SS
