import RxModel.Lemmas.ChainRetireExt
import RxModel.Lemmas.ChainRetireSchedPoll
/-
  C16 over the chain model, part 10: the executor.  `StepR w w'` is what EVERY
  move of the model guarantees (the `Eff` clauses without the scheduler detail,
  plus: tasks are never removed, never change their body, never un-finish);
  `WI w` is the scheduler invariant of the world.  `pollTask`, `pollAll`,
  `runLoop` keep `WI` and are `StepR` moves.
-/
namespace Rx.T
open Rx

/-- Tasks persist, keep their body, stay finished. -/
def Fwd (s s' : Sched) : Prop :=
  ∀ (k : Nat) (t : Task), s.tasks[k]? = some t →
    ∃ t' : Task, s'.tasks[k]? = some t' ∧ t'.body = t.body ∧ (t.done = true → t'.done = true)

theorem Fwd.refl (s : Sched) : Fwd s s := fun _ t h => ⟨t, h, rfl, id⟩
theorem Fwd.trans {a b c : Sched} (h1 : Fwd a b) (h2 : Fwd b c) : Fwd a c := by
  intro k t h
  obtain ⟨t', h', b1, d1⟩ := h1 k t h
  obtain ⟨t'', h'', b2, d2⟩ := h2 k t' h'
  exact ⟨t'', h'', b2.trans b1, fun x => d2 (d1 x)⟩

theorem Fwd.of_tasks {s s' : Sched} (h : s'.tasks = s.tasks) : Fwd s s' :=
  fun _ t ht => ⟨t, by rw [h]; exact ht, rfl, id⟩

theorem Fwd.of_frame {a} {s s' : Sched} (f : Frame a s s') : Fwd s s' := by
  intro k t h
  obtain ⟨t', h', b, d, _⟩ := f.tasks k t h
  exact ⟨t', h', b, fun x => by rw [d]; exact x⟩

theorem Fwd.setTask (s : Sched) (k : TaskId) (t t' : Task) (hk : s.tasks[k]? = some t)
    (hb : t'.body = t.body) (hd : t.done = true → t'.done = true) : Fwd s (s.setTask k t') := by
  intro j u hu
  by_cases e : j = k
  · subst e; rw [hk] at hu; cases hu
    exact ⟨t', Sched.setTask_get_self _ _ _ _ hk, hb, hd⟩
  · exact ⟨u, by rw [Sched.setTask_get_ne _ _ _ _ e]; exact hu, rfl, id⟩

theorem Fwd.fire (s : Sched) (tm : TimerId) : Fwd s (s.fire tm) := by
  intro k t h
  obtain ⟨t', h', w, rfl⟩ := Sched.fire_get s tm k t h
  exact ⟨_, h', rfl, id⟩

theorem Fwd.fireAll (l : List TimerId) : ∀ s : Sched, Fwd s (l.foldl Sched.fire s) := by
  induction l with
  | nil => intro s; exact Fwd.refl s
  | cons a r ih => intro s; exact (Fwd.fire s a).trans (ih _)

theorem Fwd.finishOnce (s : Sched) (k : TaskId) : Fwd s (s.finishOnce k) := by
  unfold Sched.finishOnce
  cases hk : s.tasks[k]? with
  | none => exact Fwd.refl s
  | some t => exact Fwd.setTask s k t _ hk rfl (fun _ => rfl)

theorem Fwd.stayPending (s : Sched) (k : TaskId) (wk : Bool) : Fwd s (s.stayPending k wk) := by
  unfold Sched.stayPending
  cases hk : s.tasks[k]? with
  | none => exact Fwd.refl s
  | some t => exact Fwd.setTask s k t _ hk rfl id

theorem Fwd.continueRepeat (s : Sched) (k : TaskId) : Fwd s (s.continueRepeat k) := by
  unfold Sched.continueRepeat
  cases hk : s.tasks[k]? with
  | none => exact Fwd.refl s
  | some t =>
    simp only
    cases hr : t.rep with
    | none => exact Fwd.refl s
    | some r =>
      obtain ⟨fur, iv, seq⟩ := r
      simp only
      have hk' : ((s.newTimer iv k).1.registerTimer (s.newTimer iv k).2).tasks[k]? = some t := by
        simpa using hk
      have := Fwd.setTask _ k t { t with rep := some ((s.newTimer iv k).2, iv, seq + 1) } hk' rfl id
      refine Fwd.trans (Fwd.of_tasks ?_) this
      simp

/-- What `pollPre` hands to the world layer. -/
structure PollSpec (src : TSrc) (s : Sched) (k : TaskId) (r : Sched × Sched.Poll) : Prop where
  inv : SInvX src (match r.2 with | Sched.Poll.runTick _ _ => some k | _ => none) r.1
  fwd : Fwd s r.1
  now : r.1.now = s.now
  once : ∀ b, r.2 = Sched.Poll.runOnce b → ∃ t : Task, r.1.tasks[k]? = some t ∧ t.body = b ∧ t.rep = none ∧
    ∃ t0 : Task, s.tasks[k]? = some t0 ∧ t0.body = b ∧ t0.done = false ∧ t0.keepRunning = true
  tick : ∀ b seq, r.2 = Sched.Poll.runTick b seq → ∃ (t : Task) (fur iv : Nat), r.1.tasks[k]? = some t ∧ t.body = b ∧
    t.rep = some (fur, iv, seq) ∧ r.1.timerFired fur = true

theorem pollPre_spec' {src : TSrc} {s : Sched} (h : SInvX src none s) (k : TaskId) :
    PollSpec src s k (s.pollPre k) := by
  have hinv := h.pollPre k
  refine ⟨hinv, ?_, ?_, ?_, ?_⟩
  · refine Sched.pollPre_elim s k (motive := fun r => Fwd s r.1) ?_ ?_ ?_ ?_ ?_ ?_ ?_ ?_
    · intro _; exact Fwd.refl s
    · intro _ _ _; exact Fwd.refl s
    · intro t ht _ _; exact Fwd.setTask s k t _ ht rfl (fun _ => rfl)
    · intro t d ht _ _ _
      have ht1 : ((s.newTimer d k).1.registerTimer s.timers.length).tasks[k]? = some t := by simpa using ht
      exact Fwd.trans (Fwd.of_tasks (by simp)) (Fwd.setTask _ k t _ ht1 rfl id)
    · intro t tm ht _ _ _ _ _
      have ht1 : (s.registerTimer tm).tasks[k]? = some t := by simpa using ht
      exact Fwd.trans (Fwd.of_tasks (by simp)) (Fwd.setTask _ k t _ ht1 rfl id)
    · intro t ht _ _ _ _ _; exact Fwd.setTask s k t _ ht rfl id
    · intro t fur iv seq ht _ _ _ _ _ _
      have ht1 : (s.registerTimer fur).tasks[k]? = some t := by simpa using ht
      exact Fwd.trans (Fwd.of_tasks (by simp)) (Fwd.setTask _ k t _ ht1 rfl id)
    · intro t fur iv seq ht _ _ _ _ _ _; exact Fwd.setTask s k t _ ht rfl id
  · refine Sched.pollPre_elim s k (motive := fun r => r.1.now = s.now) ?_ ?_ ?_ ?_ ?_ ?_ ?_ ?_ <;>
      intros <;> simp
  · refine Sched.pollPre_elim s k (motive := fun r => ∀ b, r.2 = Sched.Poll.runOnce b →
      ∃ t : Task, r.1.tasks[k]? = some t ∧ t.body = b ∧ t.rep = none ∧
        ∃ t0 : Task, s.tasks[k]? = some t0 ∧ t0.body = b ∧ t0.done = false ∧ t0.keepRunning = true)
      ?_ ?_ ?_ ?_ ?_ ?_ ?_ ?_
    · intro _ b hb; cases hb
    · intro _ _ _ b hb; cases hb
    · intro _ _ _ _ b hb; cases hb
    · intro _ _ _ _ _ _ b hb; cases hb
    · intro _ _ _ _ _ _ _ _ b hb; cases hb
    · intro t ht hd hkr _ _ hr b hb
      cases hb
      exact ⟨_, Sched.setTask_get_self _ _ _ _ ht, rfl, hr, t, ht, rfl, hd, hkr⟩
    · intro _ _ _ _ _ _ _ _ _ _ _ b hb; cases hb
    · intro _ _ _ _ _ _ _ _ _ _ _ b hb; cases hb
  · refine Sched.pollPre_elim s k (motive := fun r => ∀ b seq, r.2 = Sched.Poll.runTick b seq →
      ∃ (t : Task) (fur iv : Nat), r.1.tasks[k]? = some t ∧ t.body = b ∧
        t.rep = some (fur, iv, seq) ∧ r.1.timerFired fur = true) ?_ ?_ ?_ ?_ ?_ ?_ ?_ ?_
    · intro _ b seq hb; cases hb
    · intro _ _ _ b seq hb; cases hb
    · intro _ _ _ _ b seq hb; cases hb
    · intro _ _ _ _ _ _ b seq hb; cases hb
    · intro _ _ _ _ _ _ _ _ b seq hb; cases hb
    · intro _ _ _ _ _ _ _ b seq hb; cases hb
    · intro _ _ _ _ _ _ _ _ _ _ _ b seq hb; cases hb
    · intro t fur iv seq ht _ _ _ _ hr hf b seq' hb
      cases hb
      exact ⟨_, fur, iv, Sched.setTask_get_self _ _ _ _ ht, rfl, hr, by simpa using hf⟩

/-! ### worlds -/

structure StepR (w w' : TW) : Prop where
  src : w'.src = w.src
  stg : SLe w.stages w'.stages
  log : sealed w.stages = true → w'.log = w.log
  pulls : fin w.stages = true → nq w.stages = true → w'.pulls = w.pulls
  head : fin w.stages = true → w.src.polls = true →
    w'.stages.take (syncLen w.stages) = w.stages.take (syncLen w.stages)
  fwd : Fwd w.sched w'.sched
  sub : w.srcSubscribed = true → w'.srcSubscribed = true

theorem StepR.refl (w : TW) : StepR w w :=
  ⟨rfl, SLe.refl _, fun _ => rfl, fun _ _ => rfl, fun _ _ => rfl, Fwd.refl _, id⟩

theorem StepR.trans {w1 w2 w3 : TW} (h1 : StepR w1 w2) (h2 : StepR w2 w3) : StepR w1 w3 := by
  refine ⟨h2.src.trans h1.src, h1.stg.trans h2.stg, ?_, ?_, ?_, h1.fwd.trans h2.fwd, fun h => h2.sub (h1.sub h)⟩
  · intro hs; rw [h2.log (h1.stg.sealed hs), h1.log hs]
  · intro hf hq; rw [h2.pulls (h1.stg.fin hf) (h1.stg.nq hq), h1.pulls hf hq]
  · intro hf hp
    have := h2.head (h1.stg.fin hf) (by rw [h1.src]; exact hp)
    rw [h1.stg.syncLen] at this
    rw [this, h1.head hf hp]

theorem Eff.stepR {a : Bool} {w w' : TW} (e : Eff a w w') : StepR w w' :=
  ⟨e.src, e.stg, e.log, e.pulls, e.head, Fwd.of_frame e.sch.frame, e.sub⟩

/-- Only the scheduler changed. -/
theorem StepR.sched (w : TW) (s' : Sched) (h : Fwd w.sched s') : StepR w { w with sched := s' } :=
  ⟨rfl, SLe.refl _, fun _ => rfl, fun _ _ => rfl, fun _ _ => rfl, h, id⟩

/-- The scheduler invariant of a world. -/
def WI (w : TW) : Prop := SInvX w.src none w.sched

theorem pollTask_ok {w : TW} (hI : WI w) (k : TaskId) : WI (w.pollTask k) ∧ StepR w (w.pollTask k) := by
  have sp := pollPre_spec' hI k
  unfold TW.pollTask
  generalize w.sched.pollPre k = r at sp
  obtain ⟨s1, p⟩ := r
  have r0 : StepR w { w with sched := s1 } := StepR.sched w s1 sp.fwd
  cases p with
  | none => exact ⟨sp.inv, r0⟩
  | runOnce b =>
    obtain ⟨t, ht, hb, hr, _⟩ := sp.once b rfl
    have hok : b.okFor w.src := by rw [← hb]; exact sp.inv.bodies k t ht
    have inv1 : SInvX w.src none s1 := sp.inv
    dsimp only
    split
    · -- async body
      have e := runAsync_eff ({ w with sched := s1 } : TW) b
      generalize TW.runAsync ({ w with sched := s1 } : TW) b = ra at e
      obtain ⟨w1, o⟩ := ra
      dsimp only at e
      have inv2 : SInvX w.src none w1.sched := inv1.be e.sch
      have hsrc : w1.src = w.src := e.src
      cases o with
      | pending wk =>
        dsimp only
        refine ⟨?_, r0.trans (e.stepR.trans (StepR.sched w1 _ (Fwd.stayPending _ k wk)))⟩
        show SInvX w1.src none (w1.sched.stayPending k wk)
        rw [hsrc]
        refine inv2.stayPending wk ?_
        intro t' ht'
        obtain ⟨t'', ht'', _, _, _, hr'', _⟩ := e.sch.frame.tasks k t ht
        rw [ht'] at ht''; cases ht''
        rw [hr'', hr]
      | done =>
        dsimp only
        refine ⟨?_, r0.trans (e.stepR.trans (StepR.sched w1 _ (Fwd.finishOnce _ k)))⟩
        show SInvX w1.src none (w1.sched.finishOnce k)
        rw [hsrc]; exact (SInvX.weaken inv2).finishOnce
      | exhausted =>
        dsimp only
        refine ⟨?_, r0.trans (e.stepR.trans (StepR.sched w1 _ (Fwd.finishOnce _ k)))⟩
        show SInvX w1.src none (w1.sched.finishOnce k)
        rw [hsrc]; exact (SInvX.weaken inv2).finishOnce
    · have e := runBody_eff ({ w with sched := s1 } : TW) b hok
      have inv2 : SInvX w.src none (TW.runBody ({ w with sched := s1 } : TW) b).sched := inv1.be e.sch
      refine ⟨?_, r0.trans (e.stepR.trans (StepR.sched _ _ (Fwd.finishOnce _ k)))⟩
      show SInvX (TW.runBody ({ w with sched := s1 } : TW) b).src none _
      rw [e.src]; exact (SInvX.weaken inv2).finishOnce
  | runTick b seq =>
    obtain ⟨t, fur, iv, ht, hb, hr, hf⟩ := sp.tick b seq rfl
    have inv1 : SInvX w.src (some k) s1 := sp.inv
    dsimp only
    have e := runTick_eff ({ w with sched := s1 } : TW) b seq
    generalize TW.runTick ({ w with sched := s1 } : TW) b seq = rt at e
    obtain ⟨w1, cont⟩ := rt
    dsimp only at e
    have inv2 : SInvX w.src (some k) w1.sched := inv1.be e.sch
    have hsrc : w1.src = w.src := e.src
    dsimp only
    split
    · refine ⟨?_, r0.trans (e.stepR.trans (StepR.sched w1 _ (Fwd.continueRepeat _ k)))⟩
      show SInvX w1.src none (w1.sched.continueRepeat k)
      rw [hsrc]
      obtain ⟨t', ht', _, _, _, hr', _⟩ := e.sch.frame.tasks k t ht
      exact inv2.continueRepeat ht' (hr'.trans hr) (e.sch.frame.timerFired hf)
    · refine ⟨?_, r0.trans (e.stepR.trans (StepR.sched w1 _ (Fwd.finishOnce _ k)))⟩
      show SInvX w1.src none (w1.sched.finishOnce k)
      rw [hsrc]; exact inv2.finishOnce

theorem pollAll_ok (l : List TaskId) : ∀ {w : TW}, WI w → WI (w.pollAll l) ∧ StepR w (w.pollAll l) := by
  induction l with
  | nil => intro w h; exact ⟨h, StepR.refl w⟩
  | cons k r ih =>
    intro w h
    simp only [TW.pollAll]
    have h1 := pollTask_ok h k
    have h2 := ih h1.1
    split <;> (try split) <;> first
      | exact ⟨h2.1, h1.2.trans h2.2⟩
      | exact ih h

theorem fireAll_ok {w : TW} (h : WI w) (l : List TimerId) :
    WI { w with sched := l.foldl Sched.fire w.sched } ∧
      StepR w { w with sched := l.foldl Sched.fire w.sched } :=
  ⟨SInvX.fireAll l h, StepR.sched w _ (Fwd.fireAll l _)⟩

theorem runLoop_ok (fuel : Nat) : ∀ {w : TW}, WI w → WI (TW.runLoop fuel w) ∧ StepR w (TW.runLoop fuel w) := by
  induction fuel with
  | zero => intro w h; exact ⟨h, StepR.refl w⟩
  | succ f ih =>
    intro w h
    simp only [TW.runLoop]
    have h1 := fireAll_ok h w.sched.dueTimers
    split
    · exact h1
    · exact ⟨(ih (pollAll_ok _ h1.1).1).1,
        (h1.2.trans (pollAll_ok _ h1.1).2).trans (ih (pollAll_ok _ h1.1).1).2⟩

theorem step_ok {w : TW} (h : WI w) (e : TW.Ev) : WI (w.step e) ∧ StepR w (w.step e) := by
  cases e with
  | sub =>
    have e := step_sub_eff w
    exact ⟨by show SInvX (w.step .sub).src none _; rw [e.src]; exact SInvX.be h e.sch, e.stepR⟩
  | emit i n =>
    have e := step_emit_eff w i n
    exact ⟨by show SInvX (w.step (.emit i n)).src none _; rw [e.src]; exact SInvX.be h e.sch, e.stepR⟩
  | unsub =>
    have e := step_unsub_eff w
    exact ⟨by show SInvX (w.step .unsub).src none _; rw [e.src]; exact SInvX.be h e.sch, e.stepR⟩
  | adv d => exact ⟨SInvX.adv h d, StepR.sched w _ (Fwd.of_tasks rfl)⟩
  | fire i =>
    simp only [TW.step]
    split
    · exact ⟨SInvX.fire h _, StepR.sched w _ (Fwd.fire _ _)⟩
    · exact ⟨h, StepR.refl w⟩
  | poll i =>
    simp only [TW.step]
    split
    · exact pollTask_ok h _
    · exact ⟨h, StepR.refl w⟩
  | run => exact runLoop_ok _ h

/-- Histories. -/
def TW.runEvs (w : TW) (evs : List TW.Ev) : TW := evs.foldl TW.step w

theorem runEvs_append (w : TW) (a b : List TW.Ev) : w.runEvs (a ++ b) = (w.runEvs a).runEvs b := by
  simp [TW.runEvs, List.foldl_append]

theorem runEvs_ok (evs : List TW.Ev) : ∀ {w : TW}, WI w → WI (w.runEvs evs) ∧ StepR w (w.runEvs evs) := by
  induction evs with
  | nil => intro w h; exact ⟨h, StepR.refl w⟩
  | cons e r ih =>
    intro w h
    have h1 := step_ok h e
    have h2 := ih h1.1
    exact ⟨h2.1, h1.2.trans h2.2⟩

theorem WI.start (src : TSrc) (stages : List Stage) : WI { src := src, stages := stages } :=
  SInvX.init src

end Rx.T
