import RxModel.Spec.MultiSem
/-
  Helper lemmas about the two-input cells.
-/
set_option linter.unusedSimpArgs false
namespace Rx
open St2

@[simp] theorem runT_nil (s : St2) : s.runT [] = (s, []) := rfl
@[simp] theorem runT_cons (s : St2) (sd : Side) (n : Notif) (r : Timeline) :
    s.runT ((sd, n) :: r) =
      (((s.step sd n).1.runT r).1, (s.step sd n).2 ++ ((s.step sd n).1.runT r).2) := rfl

/-- A cell whose slot is empty stays empty and is silent. -/
theorem step_dead (s : St2) (sd : Side) (n : Notif) (h : s.alive = false) :
    (s.step sd n).1.alive = false ∧ (s.step sd n).2 = [] := by
  cases s with
  | zip al qa qb c =>
    cases sd <;> cases n <;> cases qa <;> cases qb <;>
      simp_all [St2.step, St2.alive, St2.guard]
  | _ =>
    cases sd <;> cases n <;> simp_all [St2.step, St2.alive, St2.guard]
    all_goals (try (split <;> simp_all [St2.alive]))

theorem runT_dead (s : St2) (tl : Timeline) (h : s.alive = false) :
    (s.runT tl).1.alive = false ∧ (s.runT tl).2 = [] := by
  induction tl generalizing s with
  | nil => simp [h]
  | cons p r ih =>
    obtain ⟨sd, n⟩ := p
    have hs := step_dead s sd n h
    have := ih _ hs.1
    simp [hs.2, this]

/-- One step emits a well-formed batch, and a batch containing a terminal
    leaves the slot empty. -/
theorem step_disciplined (s : St2) (sd : Side) (n : Notif) :
    WF (s.step sd n).2 ∧ (terminated (s.step sd n).2 = true → (s.step sd n).1.alive = false) := by
  cases s with
  | zip al qa qb c =>
    cases sd <;> cases n <;> cases qa <;> cases qb <;> cases al <;> cases c <;>
      simp [St2.step, St2.guard, St2.alive, terminated, WF]
  | _ =>
    cases sd <;> cases n <;> simp only [St2.step, St2.guard, St2.flush]
    all_goals (repeat' split)
    all_goals (try simp_all [St2.alive, terminated, WF])

/-- For ANY tagged input (malformed inputs included) the cumulative output of a
    two-input cell is well formed. -/
theorem runT_wf (s : St2) (tl : Timeline) : WF (s.runT tl).2 := by
  induction tl generalizing s with
  | nil => simp
  | cons p r ih =>
    obtain ⟨sd, n⟩ := p
    rw [runT_cons]
    have hd := step_disciplined s sd n
    by_cases ht : terminated (s.step sd n).2 = true
    · have := runT_dead _ r (hd.2 ht)
      simp [this.2, hd.1]
    · exact WF_append hd.1 (by simpa using ht) (ih _)

end Rx

namespace Rx
open St2 Spec

/-! ### merge -/
theorem merge_runT (c : Bool) (tl : Timeline) :
    ((St2.merge true c).runT tl).2 =
      gate (if c then tl.map (·.2) else eraseFirstComplete (tl.map (·.2))) := by
  induction tl generalizing c with
  | nil => cases c <;> simp [gate, eraseFirstComplete]
  | cons p r ih =>
    obtain ⟨sd, n⟩ := p
    cases n with
    | next v => cases c <;> simp [St2.step, St2.guard, ih, gate, eraseFirstComplete]
    | error e =>
      have := runT_dead (St2.merge false c) r rfl
      cases c <;> simp [St2.step, St2.guard, this.2, gate, eraseFirstComplete]
    | complete =>
      cases c
      · simp [St2.step, ih, eraseFirstComplete]
      · have := runT_dead (St2.merge false true) r rfl
        simp [St2.step, St2.guard, this.2, gate]

/-- merge in the `cut2` form: items in arrival order up to the cut. -/
theorem merge_runT_cut (c : Bool) (tl : Timeline) :
    ((St2.merge true c).runT tl).2 = mk ((cut2 c tl).1.map (·.2)) (cut2 c tl).2 := by
  induction tl generalizing c with
  | nil => simp [cut2, mk]
  | cons p r ih =>
    obtain ⟨sd, n⟩ := p
    cases n with
    | next v => simp [St2.step, St2.guard, ih, cut2, mk]
    | error e =>
      have := runT_dead (St2.merge false c) r rfl
      simp [St2.step, St2.guard, this.2, cut2, mk]
    | complete =>
      cases c
      · simp [St2.step, ih, cut2]
      · have := runT_dead (St2.merge false true) r rfl
        simp [St2.step, St2.guard, this.2, cut2, mk]

/-! ### take_until / skip_until -/
theorem takeUntil_runT (tl : Timeline) :
    ((St2.takeUntil true).runT tl).2 = Spec.takeUntil tl := by
  unfold Spec.takeUntil
  induction tl with
  | nil => simp [gate]
  | cons p r ih =>
    obtain ⟨sd, n⟩ := p
    have hd := runT_dead (St2.takeUntil false) r rfl
    cases sd <;> cases n <;> simp [St2.step, St2.guard, ih, hd.2, gate]

theorem skipUntil_runT (sk : Bool) (tl : Timeline) :
    ((St2.skipUntil true sk).runT tl).2 = gate (skipUntilFrom (!sk) tl) := by
  induction tl generalizing sk with
  | nil => simp [gate, skipUntilFrom]
  | cons p r ih =>
    obtain ⟨sd, n⟩ := p
    have hd := runT_dead (St2.skipUntil false sk) r rfl
    cases sd <;> cases n <;> cases sk <;>
      simp [St2.step, St2.guard, ih, hd.2, gate, skipUntilFrom]

/-! ### combine_latest / with_latest_from / zip -/
theorem combine_runT (a b : Option Val) (c : Bool) (tl : Timeline) :
    ((St2.combine true a b c).runT tl).2 =
      mk (combineFrom a b (cut2 c tl).1) (cut2 c tl).2 := by
  induction tl generalizing a b c with
  | nil => simp [cut2, combineFrom, mk]
  | cons p r ih =>
    obtain ⟨sd, n⟩ := p
    cases n with
    | next v =>
      cases sd
      · cases b <;> simp [St2.step, St2.guard, ih, cut2, combineFrom, mk]
      · cases a <;> simp [St2.step, St2.guard, ih, cut2, combineFrom, mk]
    | error e =>
      have := runT_dead (St2.combine false a b c) r rfl
      simp [St2.step, St2.guard, this.2, cut2, combineFrom, mk]
    | complete =>
      cases c
      · simp [St2.step, ih, cut2]
      · have := runT_dead (St2.combine false a b true) r rfl
        simp [St2.step, St2.guard, this.2, cut2, combineFrom, mk]

theorem withLatest_runT (l : Option Val) (tl : Timeline) :
    ((St2.withLatest true l).runT tl).2 = mk (withLatestFrom l (cutW tl).1) (cutW tl).2 := by
  induction tl generalizing l with
  | nil => simp [cutW, withLatestFrom, mk]
  | cons p r ih =>
    obtain ⟨sd, n⟩ := p
    have hd := runT_dead (St2.withLatest false l) r rfl
    cases sd <;> cases n <;> (try cases l) <;>
      simp [St2.step, St2.guard, ih, hd.2, cutW, withLatestFrom, mk]

theorem pairUp_nil_right (as : List Val) : pairUp as [] = [] := by
  cases as <;> rfl

theorem zip_runT (qa qb : List Val) (c : Bool) (tl : Timeline)
    (hq : qa = [] ∨ qb = []) :
    ((St2.zip true qa qb c).runT tl).2 =
      mk (pairUp (qa ++ tagged .a (cut2 c tl).1) (qb ++ tagged .b (cut2 c tl).1)) (cut2 c tl).2 := by
  induction tl generalizing qa qb c with
  | nil =>
    rcases hq with h | h <;> subst h <;> simp [cut2, tagged, pairUp, pairUp_nil_right, mk]
  | cons p r ih =>
    obtain ⟨sd, n⟩ := p
    cases n with
    | next v =>
      cases sd
      · cases qb with
        | nil =>
          simp only [runT_cons, St2.step, ih (qa ++ [v]) [] c (Or.inr rfl), cut2, tagged]
          simp [List.filter_cons, mk]
        | cons w qb' =>
          have hqa : qa = [] := by rcases hq with h | h; exact h; cases h
          subst hqa
          simp only [runT_cons, St2.step, St2.guard, ih [] qb' c (Or.inl rfl), cut2, tagged]
          simp [List.filter_cons, pairUp, mk]
      · cases qa with
        | nil =>
          simp only [runT_cons, St2.step, ih [] (qb ++ [v]) c (Or.inl rfl), cut2, tagged]
          simp [List.filter_cons, mk]
        | cons w qa' =>
          have hqb : qb = [] := by rcases hq with h | h; cases h; exact h
          subst hqb
          simp only [runT_cons, St2.step, St2.guard, ih qa' [] c (Or.inr rfl), cut2, tagged]
          simp [List.filter_cons, pairUp, mk]
    | error e =>
      have := runT_dead (St2.zip false qa qb c) r rfl
      rcases hq with h | h <;> subst h <;>
        simp [St2.step, St2.guard, this.2, cut2, tagged, pairUp, pairUp_nil_right, mk]
    | complete =>
      cases c
      · simp [St2.step, ih qa qb true hq, cut2]
      · have := runT_dead (St2.zip false qa qb true) r rfl
        rcases hq with h | h <;> subst h <;>
          simp [St2.step, St2.guard, this.2, cut2, tagged, pairUp, pairUp_nil_right, mk]

/-! ### sample -/
theorem sample_runT (l : Option Val) (tl : Timeline) :
    ((St2.sample true l).runT tl).2 = mk (sampleFrom l (cutS tl).1) (cutS tl).2 := by
  induction tl generalizing l with
  | nil => simp [cutS, sampleFrom, mk]
  | cons p r ih =>
    obtain ⟨sd, n⟩ := p
    have hd := runT_dead (St2.sample false l) r rfl
    cases sd <;> cases n <;> (try cases l) <;>
      simp [St2.step, St2.guard, ih, hd.2, cutS, sampleFrom, mk]

end Rx

namespace Rx
open St2 Spec

/-! ### buffer(notifier) -/
theorem buffer_runT (d : List Val) (tl : Timeline) :
    ((St2.buffer true d).runT tl).2 = bufferFrom d tl := by
  induction tl generalizing d with
  | nil => simp [bufferFrom]
  | cons p r ih =>
    obtain ⟨sd, n⟩ := p
    have hd := runT_dead (St2.buffer false d) r rfl
    cases sd <;> cases n <;>
      simp [St2.step, St2.guard, St2.flush, ih, hd.2, bufferFrom]

@[simp] theorem valToList_ofList (l : List Val) : valToList (Val.ofList l) = l := by
  induction l with
  | nil => rfl
  | cons x xs ih => simp [Val.ofList, valToList, ih]

/-- All released buffers, concatenated. -/
def released (out : List Notif) : List Val := (items out).flatMap valToList

theorem released_append (a b : List Notif) : released (a ++ b) = released a ++ released b := by
  simp [released, items_append]

/-- No loss, no duplication, no reordering, nothing invented: what has been
    released so far is a prefix of what was gathered … -/
theorem buffer_released_prefix (d : List Val) (tl : Timeline) :
    ∃ rest, d ++ gathered tl = released (bufferFrom d tl) ++ rest := by
  induction tl generalizing d with
  | nil => exact ⟨d, by simp [bufferFrom, gathered, released, items]⟩
  | cons p r ih =>
    obtain ⟨sd, n⟩ := p
    cases sd <;> cases n
    · obtain ⟨rest, h⟩ := ih (d ++ [_])
      exact ⟨rest, by simpa [bufferFrom, gathered] using h⟩
    · exact ⟨d, by simp [bufferFrom, gathered, released, items]⟩
    · refine ⟨[], ?_⟩
      by_cases hd : d.isEmpty
      · have : d = [] := by simpa using hd
        subst this; simp [bufferFrom, gathered, released, items]
      · simp [bufferFrom, gathered, released, items, hd]
    · obtain ⟨rest, h⟩ := ih []
      refine ⟨rest, ?_⟩
      by_cases hd : d.isEmpty
      · have : d = [] := by simpa using hd
        subst this; simpa [bufferFrom, gathered] using h
      · simp only [bufferFrom, gathered, hd, if_false, released_append]
        simp only [List.nil_append] at h
        rw [List.append_assoc, ← h]; simp [released, items]
    · exact ⟨d, by simp [bufferFrom, gathered, released, items]⟩
    · refine ⟨[], ?_⟩
      by_cases hd : d.isEmpty
      · have : d = [] := by simpa using hd
        subst this; simp [bufferFrom, gathered, released, items]
      · simp [bufferFrom, gathered, released, items, hd]

/-- … and when the stream ends by completion everything gathered has been released. -/
theorem buffer_released_all (d : List Val) (tl : Timeline)
    (hc : firstTerminal tl = some .complete) :
    released (bufferFrom d tl) = d ++ gathered tl := by
  induction tl generalizing d with
  | nil => simp [firstTerminal] at hc
  | cons p r ih =>
    obtain ⟨sd, n⟩ := p
    cases sd <;> cases n <;> simp [firstTerminal] at hc
    · rename_i v
      simpa [bufferFrom, gathered] using ih (d ++ [v]) hc
    · by_cases hd : d.isEmpty
      · have : d = [] := by simpa using hd
        subst this; simp [bufferFrom, gathered, released, items]
      · simp [bufferFrom, gathered, released, items, hd]
    · by_cases hd : d.isEmpty
      · have : d = [] := by simpa using hd
        subst this; simpa [bufferFrom, gathered] using ih [] hc
      · simp only [bufferFrom, gathered, hd, if_false, released_append, ih [] hc]
        simp [released, items]
    · by_cases hd : d.isEmpty
      · have : d = [] := by simpa using hd
        subst this; simp [bufferFrom, gathered, released, items]
      · simp [bufferFrom, gathered, released, items, hd]

/-- Never an empty buffer. -/
theorem buffer_no_empty (d : List Val) (tl : Timeline) :
    ∀ b ∈ items (bufferFrom d tl), valToList b ≠ [] := by
  induction tl generalizing d with
  | nil => simp [bufferFrom, items]
  | cons p r ih =>
    obtain ⟨sd, n⟩ := p
    cases sd <;> cases n <;> simp only [bufferFrom]
    · exact ih _
    · simp [items]
    · by_cases hd : d.isEmpty <;> simp [hd, items]
      intro h; simp [h] at hd
    · by_cases hd : d.isEmpty
      · simpa [hd] using ih []
      · simp only [hd, if_false, items_append]
        intro b hb
        rcases List.mem_append.mp hb with h | h
        · simp [items] at h; subst h; simp; intro h; simp [h] at hd
        · exact ih [] b h
    · simp [items]
    · by_cases hd : d.isEmpty <;> simp [hd, items]
      intro h; simp [h] at hd

end Rx
