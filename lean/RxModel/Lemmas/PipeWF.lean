import RxModel.Pipe.World
import RxModel.Lemmas.SingleChain
import RxModel.Lemmas.Multi
/-
  Every instantiated pipeline, under every sequence of node actions, has a
  well-formed cumulative output (helper lemmas for C01).
-/
set_option linter.unusedSimpArgs false
namespace Rx
open Node Spec

@[simp] theorem runActs_nil (nd : Node) : nd.runActs [] = (nd, []) := rfl
@[simp] theorem runActs_cons (nd : Node) (a : Act) (r : List Act) :
    nd.runActs (a :: r) = (((nd.act a).1.runActs r).1, (nd.act a).2 ++ ((nd.act a).1.runActs r).2) := rfl

/-- From its initial state a single-input observer turns a well-formed input into
    a well-formed output (via its list spec). -/
theorem run_init_wf (o : Op1) (X : List Notif) (h : WF X) : WF (St1.run o.init X).2 := by
  obtain ⟨xs, t, ht, rfl⟩ := (WF_iff_mk X).mp h
  have hv : (Stream.mk xs t).Valid := ht
  have := run_spec o ⟨xs, t⟩ hv
  simp only [Stream.toNotifs] at this
  rw [this]
  exact toNotifs_WF _ (apply_valid o _ hv)

/-! ### leaves -/

theorem hot_runActs (i : Nat) (alive : Bool) (acts : List Act) :
    WF ((hot i alive).runActs acts).2 ∧ (alive = false → ((hot i alive).runActs acts).2 = []) := by
  induction acts generalizing alive with
  | nil => simp
  | cons a r ih =>
    cases a with
    | start => simpa [Node.act, Node.start] using ih alive
    | unsub =>
      have := ih false
      simp only [runActs_cons, Node.act, Node.unsub, List.nil_append]
      exact ⟨this.1, fun _ => this.2 rfl⟩
    | deliver p df n =>
      cases p with
      | cons d q => simpa [Node.act, Node.deliver] using ih alive
      | nil =>
        cases n with
        | next v =>
          have := ih alive
          cases alive <;> simp_all [Node.act, Node.deliver, hotDeliver]
        | error e =>
          have := ih false
          cases alive <;> simp [Node.act, Node.deliver, hotDeliver, this.2 rfl]
        | complete =>
          have := ih false
          cases alive <;> simp [Node.act, Node.deliver, hotDeliver, this.2 rfl]

theorem emit_wf (s : Src) : WF s.emit := by
  cases s with
  | ofOption o => cases o <;> simp [Src.emit]
  | ofResult r => cases r <;> simp [Src.emit]
  | iter xs => exact (WF_nexts_append xs [.complete]).mpr (by simp)
  | repeat_ v n => exact (WF_nexts_append (List.replicate n v) [.complete]).mpr (by simp)
  | create sc => exact WF_gate sc
  | _ => simp [Src.emit]

theorem cold_started (s : Src) (al : Bool) (acts : List Act) :
    ((cold s true al).runActs acts).2 = [] := by
  induction acts generalizing al with
  | nil => rfl
  | cons a r ih =>
    cases a with
    | start => simpa [Node.act, Node.start] using ih al
    | deliver p df n => simpa [Node.act, Node.deliver] using ih al
    | unsub => cases s <;> simpa [Node.act, Node.unsub] using ih _

theorem cold_runActs (s : Src) (st al : Bool) (acts : List Act) :
    WF ((cold s st al).runActs acts).2 := by
  induction acts generalizing st al with
  | nil => simp
  | cons a r ih =>
    cases a with
    | start =>
      cases st
      · simp [Node.act, Node.start, cold_started, emit_wf]
      · simpa [Node.act, Node.start] using ih true al
    | deliver p df n => simpa [Node.act, Node.deliver] using ih st al
    | unsub => cases s <;> simpa [Node.act, Node.unsub] using ih _ _

/-! ### simulation lemmas: the output of an inner node is its observer applied to
    the output of its children under *some* action sequence -/

theorem n1_sim (st : St1) (c : Node) (acts : List Act) :
    ∃ acts', (n1 st c).runActs acts =
      (n1 (St1.run st (c.runActs acts').2).1 (c.runActs acts').1, (St1.run st (c.runActs acts').2).2) := by
  induction acts generalizing st c with
  | nil => exact ⟨[], by simp [St1.run]⟩
  | cons a r ih =>
    cases a with
    | start =>
      obtain ⟨acts', h⟩ := ih (St1.run st c.start.2).1 c.start.1
      refine ⟨.start :: acts', ?_⟩
      simp only [runActs_cons, Node.act, Node.start, h, St1.run_append]
    | unsub =>
      obtain ⟨acts', h⟩ := ih st c.unsub
      refine ⟨.unsub :: acts', ?_⟩
      simp only [runActs_cons, Node.act, Node.unsub, h, List.nil_append]
    | deliver p df n =>
      cases p with
      | nil =>
        obtain ⟨acts', h⟩ := ih st c
        exact ⟨acts', by simp only [runActs_cons, Node.act, Node.deliver, h, List.nil_append]⟩
      | cons d q =>
        cases d with
        | down =>
          obtain ⟨acts', h⟩ := ih (St1.run st (c.deliver q (st.finished df) n).2).1
            (c.deliver q (st.finished df) n).1
          refine ⟨.deliver q (st.finished df) n :: acts', ?_⟩
          simp only [runActs_cons, Node.act, Node.deliver, h, St1.run_append]
        | left =>
          obtain ⟨acts', h⟩ := ih st c
          exact ⟨acts', by simp only [runActs_cons, Node.act, Node.deliver, h, List.nil_append]⟩
        | right =>
          obtain ⟨acts', h⟩ := ih st c
          exact ⟨acts', by simp only [runActs_cons, Node.act, Node.deliver, h, List.nil_append]⟩

theorem runT_append (s : St2) (a b : Timeline) :
    s.runT (a ++ b) = (((s.runT a).1.runT b).1, (s.runT a).2 ++ ((s.runT a).1.runT b).2) := by
  induction a generalizing s with
  | nil => simp
  | cons p r ih => obtain ⟨sd, n⟩ := p; simp [ih, List.append_assoc]

theorem run_eq_runT (s : St2) (sd : Side) (o : List Notif) :
    s.run sd o = s.runT (o.map fun n => (sd, n)) := by
  induction o generalizing s with
  | nil => rfl
  | cons n r ih => simp [St2.run, ih]

theorem n2_sim (st : St2) (a b : Node) (acts : List Act) :
    ∃ tl a' b', (n2 st a b).runActs acts = (n2 (st.runT tl).1 a' b', (st.runT tl).2) := by
  induction acts generalizing st a b with
  | nil => exact ⟨[], a, b, by simp⟩
  | cons x r ih =>
    cases x with
    | start =>
      cases hf : st.firstSide with
      | a =>
        obtain ⟨tl, a', b', h⟩ := ih
          ((st.run .a a.start.2).1.run .b b.start.2).1 a.start.1 b.start.1
        refine ⟨(a.start.2.map fun n => (Side.a, n)) ++ (b.start.2.map fun n => (Side.b, n)) ++ tl,
          a', b', ?_⟩
        simp only [run_eq_runT] at h
        simp only [runActs_cons, Node.act, Node.start, hf, run_eq_runT, h, runT_append,
          List.append_assoc]
      | b =>
        obtain ⟨tl, a', b', h⟩ := ih
          ((st.run .b b.start.2).1.run .a a.start.2).1 a.start.1 b.start.1
        refine ⟨(b.start.2.map fun n => (Side.b, n)) ++ (a.start.2.map fun n => (Side.a, n)) ++ tl,
          a', b', ?_⟩
        simp only [run_eq_runT] at h
        simp only [runActs_cons, Node.act, Node.start, hf, run_eq_runT, h, runT_append,
          List.append_assoc]
    | unsub =>
      obtain ⟨tl, a', b', h⟩ := ih st a.unsub b.unsub
      exact ⟨tl, a', b', by simp only [runActs_cons, Node.act, Node.unsub, h, List.nil_append]⟩
    | deliver p df n =>
      cases p with
      | nil =>
        obtain ⟨tl, a', b', h⟩ := ih st a b
        exact ⟨tl, a', b', by simp only [runActs_cons, Node.act, Node.deliver, h, List.nil_append]⟩
      | cons d q =>
        cases d with
        | down =>
          obtain ⟨tl, a', b', h⟩ := ih st a b
          exact ⟨tl, a', b', by simp only [runActs_cons, Node.act, Node.deliver, h, List.nil_append]⟩
        | left =>
          obtain ⟨tl, a', b', h⟩ := ih
            (st.run .a (a.deliver q (st.finished .a df) n).2).1 (a.deliver q (st.finished .a df) n).1 b
          refine ⟨((a.deliver q (st.finished .a df) n).2.map fun n => (Side.a, n)) ++ tl, a', b', ?_⟩
          simp only [run_eq_runT] at h
          simp only [runActs_cons, Node.act, Node.deliver, run_eq_runT, h, runT_append]
        | right =>
          obtain ⟨tl, a', b', h⟩ := ih
            (st.run .b (b.deliver q (st.finished .b df) n).2).1 a (b.deliver q (st.finished .b df) n).1
          refine ⟨((b.deliver q (st.finished .b df) n).2.map fun n => (Side.b, n)) ++ tl, a', b', ?_⟩
          simp only [run_eq_runT] at h
          simp only [runActs_cons, Node.act, Node.deliver, run_eq_runT, h, runT_append]

theorem startWith_started (vs : List Val) (c : Node) (acts : List Act) :
    ∃ acts', ((startWith vs true c).runActs acts).2 = (c.runActs acts').2 := by
  induction acts generalizing c with
  | nil => exact ⟨[], rfl⟩
  | cons x r ih =>
    cases x with
    | start =>
      obtain ⟨acts', h⟩ := ih c.start.1
      exact ⟨.start :: acts', by simp [Node.act, Node.start, h]⟩
    | unsub =>
      obtain ⟨acts', h⟩ := ih c.unsub
      exact ⟨.unsub :: acts', by simp [Node.act, Node.unsub, h]⟩
    | deliver p df n =>
      cases p with
      | nil =>
        obtain ⟨acts', h⟩ := ih c
        exact ⟨acts', by simp [Node.act, Node.deliver, h]⟩
      | cons d q =>
        cases d with
        | down =>
          obtain ⟨acts', h⟩ := ih (c.deliver q df n).1
          exact ⟨.deliver q df n :: acts', by simp [Node.act, Node.deliver, h]⟩
        | left =>
          obtain ⟨acts', h⟩ := ih c
          exact ⟨acts', by simp [Node.act, Node.deliver, h]⟩
        | right =>
          obtain ⟨acts', h⟩ := ih c
          exact ⟨acts', by simp [Node.act, Node.deliver, h]⟩

theorem startWith_unstarted (vs : List Val) (c : Node) (acts : List Act) :
    ((startWith vs false c).runActs acts).2 = [] ∨
    ∃ acts', ((startWith vs false c).runActs acts).2 = vs.map .next ++ (c.runActs acts').2 := by
  induction acts generalizing c with
  | nil => exact Or.inl rfl
  | cons x r ih =>
    cases x with
    | start =>
      right
      obtain ⟨acts', h⟩ := startWith_started vs c.start.1 r
      exact ⟨.start :: acts', by simp [Node.act, Node.start, h]⟩
    | unsub =>
      rcases ih c.unsub with h | ⟨acts', h⟩
      · left; simp [Node.act, Node.unsub, h]
      · right; exact ⟨.unsub :: acts', by simp [Node.act, Node.unsub, h]⟩
    | deliver p df n =>
      have e : (startWith vs false c).act (.deliver p df n) = (startWith vs false c, []) := by
        cases p with
        | nil => rfl
        | cons d q => cases d <;> simp [Node.act, Node.deliver]
      rcases ih c with h | ⟨acts', h⟩
      · left; simp [e, h]
      · right; exact ⟨acts', by simp [e, h]⟩

/-- Main lemma: every instantiated pipeline, any action sequence. -/
theorem instantiate_wf (p : Pipe) : ∀ acts, WF (p.instantiate.runActs acts).2 := by
  induction p with
  | hot i => intro acts; exact (hot_runActs i true acts).1
  | src s => intro acts; exact cold_runActs s false true acts
  | defer p ih => exact ih
  | op1 o p ih =>
    intro acts
    obtain ⟨acts', h⟩ := n1_sim o.init p.instantiate acts
    simp only [Pipe.instantiate, h]
    exact run_init_wf o _ (ih acts')
  | startWith vs p ih =>
    intro acts
    rcases startWith_unstarted vs p.instantiate acts with h | ⟨acts', h⟩
    · simp [Pipe.instantiate, h]
    · simp only [Pipe.instantiate, h, WF_nexts_append]; exact ih acts'
  | op2 k a b _ _ =>
    intro acts
    obtain ⟨tl, a', b', h⟩ := n2_sim k.init a.instantiate b.instantiate acts
    simp only [Pipe.instantiate, h]
    exact runT_wf _ tl

end Rx
