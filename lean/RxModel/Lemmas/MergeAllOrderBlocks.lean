import RxModel.Lemmas.MergeAllOrderFifo
/-
  C05O — concat order.  With a concurrency limit of at most one, the tags in
  the log (instance starts and delivered items) never decrease: the output is a
  sequence of blocks, one per instance, in arrival order.
-/
namespace Rx.MergeAll

/-- Tags of the starts and of the delivered items of a log, in order. -/
def tagsL : List Lab → List Nat
  | [] => []
  | .start i :: r => i.tag :: tagsL r
  | .out (.item t _) :: r => t :: tagsL r
  | _ :: r => tagsL r

/-- Tags of the delivered items. -/
def itemTags : List Out → List Nat
  | [] => []
  | .item t _ :: r => t :: itemTags r
  | _ :: r => itemTags r

theorem tagsL_append (a b : List Lab) : tagsL (a ++ b) = tagsL a ++ tagsL b := by
  induction a with
  | nil => rfl
  | cons x r ih =>
    cases x with
    | arrive i => simpa [tagsL] using ih
    | start i => simp [tagsL, ih]
    | out o => cases o <;> simp [tagsL, ih]

theorem itemTags_append (a b : List Out) : itemTags (a ++ b) = itemTags a ++ itemTags b := by
  induction a with
  | nil => rfl
  | cons x r ih => cases x <;> simp [itemTags, ih]

theorem tagsL_itemsL (tag : Nat) (xs : List Val) : tagsL (itemsL tag xs) = xs.map (fun _ => tag) := by
  induction xs with
  | nil => rfl
  | cons x r ih =>
    have : itemsL tag (x :: r) = Lab.out (.item tag x) :: itemsL tag r := rfl
    rw [this]; simp [tagsL, ih]

theorem tagsL_map_items (ts : List (Nat × Nat)) (v : Val) :
    tagsL ((ts.map (fun p => Out.item p.2 v)).map Lab.out) = ts.map (fun p => p.2) := by
  induction ts with
  | nil => rfl
  | cons x r ih => simp only [List.map_cons, tagsL]; rw [ih]

/-- The item tags of the output are a sub-sequence of the tags of the log. -/
theorem itemTags_outs_sublist (l : List Lab) : (itemTags (outs l)).Sublist (tagsL l) := by
  induction l with
  | nil => exact List.Sublist.slnil
  | cons x r ih =>
    cases x with
    | arrive i => simpa [outs, tagsL] using ih
    | start i => simp only [outs, tagsL]; exact List.Sublist.cons _ ih
    | out o =>
      cases o with
      | item t v => simp only [outs, tagsL, itemTags]; exact List.Sublist.cons_cons _ ih
      | error e => simpa [outs, tagsL, itemTags] using ih
      | complete => simpa [outs, tagsL, itemTags] using ih

/-- `t` is below everything that can still be logged from `s` (queue `q`). -/
def Bnd (s : St) (q : List Inst) (t : Nat) : Prop :=
  (∀ i ∈ q, t < i.tag) ∧ t < s.arrivals ∧ (∀ p ∈ s.subs, s.dead.contains p.1 = false → t ≤ p.2)

/-- Order facts about queue and subscriptions. -/
structure QS (s : St) (q : List Inst) : Prop where
  sorted : q.Pairwise (fun a b => a.tag < b.tag)
  qlt : ∀ i ∈ q, i.tag < s.arrivals
  slt : ∀ p ∈ s.subs, p.2 < s.arrivals
  lq : ∀ p ∈ s.subs, s.dead.contains p.1 = false → ∀ i ∈ q, p.2 < i.tag

/-- A piece of work seen from the tags: non-decreasing, above everything
    logged before, and what is logged stays below what can still come. -/
structure Wk (s : St) (q : List Inst) (s' : St) (l : List Lab) : Prop where
  mono : (tagsL l).Pairwise (· ≤ ·)
  bnd : ∀ u ∈ tagsL l, Bnd s' s'.queue u
  past : ∀ t, Bnd s q t → (∀ u ∈ tagsL l, t ≤ u) ∧ Bnd s' s'.queue t

theorem Wk.comp {s : St} {q : List Inst} {s1 s2 : St} {l1 l2 : List Lab}
    (h1 : Wk s q s1 l1) (h2 : Wk s1 s1.queue s2 l2) : Wk s q s2 (l1 ++ l2) := by
  refine ⟨?_, ?_, ?_⟩
  · rw [tagsL_append, List.pairwise_append]
    exact ⟨h1.mono, h2.mono, fun a ha b hb => (h2.past a (h1.bnd a ha)).1 b hb⟩
  · intro u hu
    rw [tagsL_append, List.mem_append] at hu
    rcases hu with hu | hu
    · exact (h2.past u (h1.bnd u hu)).2
    · exact h2.bnd u hu
  · intro t ht
    have a := h1.past t ht
    have b := h2.past t a.2
    refine ⟨?_, b.2⟩
    intro u hu
    rw [tagsL_append, List.mem_append] at hu
    rcases hu with hu | hu
    · exact a.1 u hu
    · exact b.1 u hu

theorem Wk.notags {s : St} {q : List Inst} {s' : St} {l : List Lab} (hl : tagsL l = [])
    (hb : ∀ t, Bnd s q t → Bnd s' s'.queue t) : Wk s q s' l :=
  ⟨by rw [hl]; exact List.Pairwise.nil, by rw [hl]; simp, fun t ht => ⟨by rw [hl]; simp, hb t ht⟩⟩

theorem pairwise_block (a : Nat) (xs : List Val) (T : List Nat) (hT : T.Pairwise (· ≤ ·))
    (h : ∀ u ∈ T, a ≤ u) : (a :: (xs.map (fun _ => a) ++ T)).Pairwise (· ≤ ·) := by
  rw [List.pairwise_cons]
  constructor
  · intro u hu
    rw [List.mem_append] at hu
    rcases hu with hu | hu
    · rw [List.mem_map] at hu; obtain ⟨_, _, rfl⟩ := hu; exact Nat.le_refl _
    · exact h u hu
  · rw [List.pairwise_append]
    refine ⟨?_, hT, ?_⟩
    · induction xs with
      | nil => exact List.Pairwise.nil
      | cons x r ih =>
        simp only [List.map_cons, List.pairwise_cons]
        refine ⟨?_, ih⟩
        intro u hu
        rw [List.mem_map] at hu; obtain ⟨_, _, rfl⟩ := hu; exact Nat.le_refl _
    · intro u hu b hb
      rw [List.mem_map] at hu; obtain ⟨_, _, rfl⟩ := hu; exact h b hb

theorem mem_block (a : Nat) (xs : List Val) (T : List Nat) (u : Nat)
    (hu : u ∈ a :: (xs.map (fun _ => a) ++ T)) : u = a ∨ u ∈ T := by
  rw [List.mem_cons, List.mem_append] at hu
  rcases hu with hu | hu | hu
  · exact Or.inl hu
  · rw [List.mem_map] at hu; obtain ⟨_, _, rfl⟩ := hu; exact Or.inl rfl
  · exact Or.inr hu

theorem tagsL_block (i : Inst) (xs : List Val) (tail : List Lab) :
    tagsL (Lab.start i :: (itemsL i.tag xs ++ tail)) =
      i.tag :: (xs.map (fun _ => i.tag) ++ tagsL tail) := by
  simp [tagsL, tagsL_append, tagsL_itemsL]

/-- What `drain` does to the tags when nobody else is live. -/
structure DrainBlk (s : St) (q : List Inst) (s' : St) (l : List Lab) : Prop where
  qs : QS s' s'.queue
  mono : (tagsL l).Pairwise (· ≤ ·)
  src : ∀ u ∈ tagsL l, (∃ i ∈ q, i.tag = u) ∧ Bnd s' s'.queue u
  past : ∀ t, (∀ i ∈ q, t < i.tag) → t < s.arrivals → Bnd s' s'.queue t

theorem drain_blk (f : Bool) (q : List Inst) : ∀ s : St,
    (∀ p ∈ s.subs, s.dead.contains p.1 = true) → q.Pairwise (fun a b => a.tag < b.tag) →
    (∀ i ∈ q, i.tag < s.arrivals) → (∀ p ∈ s.subs, p.2 < s.arrivals) →
    DrainBlk s q (drain f s q).1 (drainL f s q) := by
  induction q with
  | nil =>
    intro s hlive _ _ hslt
    have hno : ∀ p ∈ s.subs, s.dead.contains p.1 = false → False := fun p hp hd => by
      rw [hlive p hp] at hd; cases hd
    simp only [drain, drainL]
    split
    · exact ⟨⟨List.Pairwise.nil, by simp, hslt, fun p hp hd => (hno p hp hd).elim⟩,
        by simp [tagsL], by simp [tagsL],
        fun t _ ht => ⟨by simp, ht, fun p hp hd => (hno p hp hd).elim⟩⟩
    · exact ⟨⟨List.Pairwise.nil, by simp, hslt, fun p hp hd => (hno p hp hd).elim⟩,
        by simp [tagsL], by simp [tagsL],
        fun t _ ht => ⟨by simp, ht, fun p hp hd => (hno p hp hd).elim⟩⟩
  | cons i rest ih =>
    intro s hlive hsort hqlt hslt
    rw [List.pairwise_cons] at hsort
    obtain ⟨hi, hr⟩ := hsort
    have hno : ∀ p ∈ s.subs, s.dead.contains p.1 = false → False := fun p hp hd => by
      rw [hlive p hp] at hd; cases hd
    have hia : i.tag < s.arrivals := hqlt i (List.mem_cons_self ..)
    have hrl : ∀ a ∈ rest, a.tag < s.arrivals := fun a ha => hqlt a (List.mem_cons_of_mem _ ha)
    -- the shape shared by all branches that stop after `i` and leave the subscriptions alone
    have stop : ∀ (s' : St) (l : List Lab), s'.queue = rest → s'.subs = s.subs → s'.dead = s.dead →
        s'.arrivals = s.arrivals → (∀ u ∈ tagsL l, u = i.tag) → (tagsL l).Pairwise (· ≤ ·) →
        DrainBlk s (i :: rest) s' l := by
      intro s' l e1 e2 e3 e4 htl hmono
      refine ⟨⟨by rw [e1]; exact hr, by rw [e1, e4]; exact hrl, by rw [e2, e4]; exact hslt, ?_⟩,
        hmono, ?_, ?_⟩
      · rw [e2, e3]; intro p hp hd; exact (hno p hp hd).elim
      · intro u hu
        rw [htl u hu]
        refine ⟨⟨i, List.mem_cons_self .., rfl⟩, by rw [e1]; exact hi, by rw [e4]; exact hia, ?_⟩
        rw [e2, e3]; intro p hp hd; exact (hno p hp hd).elim
      · intro t ht hta
        refine ⟨by rw [e1]; exact fun a ha => ht a (List.mem_cons_of_mem _ ha), by rw [e4]; exact hta, ?_⟩
        rw [e2, e3]; intro p hp hd; exact (hno p hp hd).elim
    simp only [drain, drainL]
    cases hin : s.inner i.k with
    | hot j' =>
      simp only
      refine ⟨⟨hr, hrl, ?_, ?_⟩, by simp [tagsL], ?_, ?_⟩
      · intro p hp
        simp only [List.mem_append, List.mem_singleton] at hp
        rcases hp with hp | rfl
        · exact hslt p hp
        · exact hia
      · intro p hp hd
        simp only [List.mem_append, List.mem_singleton] at hp
        rcases hp with hp | rfl
        · exact (hno p hp hd).elim
        · exact hi
      · intro u hu
        have : u = i.tag := by simpa [tagsL] using hu
        subst this
        refine ⟨⟨i, List.mem_cons_self .., rfl⟩, hi, hia, ?_⟩
        intro p hp hd
        simp only [List.mem_append, List.mem_singleton] at hp
        rcases hp with hp | rfl
        · exact (hno p hp hd).elim
        · exact Nat.le_refl _
      · intro t ht hta
        refine ⟨fun a ha => ht a (List.mem_cons_of_mem _ ha), hta, ?_⟩
        intro p hp hd
        simp only [List.mem_append, List.mem_singleton] at hp
        rcases hp with hp | rfl
        · exact (hno p hp hd).elim
        · exact Nat.le_of_lt (ht i (List.mem_cons_self ..))
    | cold xs fin =>
      simp only
      by_cases hc : (!f && (Inner.cold xs fin).touches) = true
      · simp only [hc, if_true]
        exact stop _ _ rfl rfl rfl rfl (fun u hu => by simpa [tagsL] using hu) (by simp [tagsL])
      · simp only [hc, Bool.false_eq_true, if_false]
        cases fin with
        | open_ =>
          simp only
          refine stop _ _ rfl rfl rfl rfl ?_ ?_
          · intro u hu
            rw [List.append_nil, ← List.append_nil (itemsL i.tag xs), tagsL_block] at hu
            rcases mem_block _ _ _ _ hu with h | h
            · exact h
            · simp [tagsL] at h
          · rw [List.append_nil, ← List.append_nil (itemsL i.tag xs), tagsL_block]
            exact pairwise_block _ _ _ (by simp [tagsL]) (by simp [tagsL])
        | error e =>
          simp only
          refine stop _ _ rfl rfl rfl rfl ?_ ?_
          · intro u hu
            rw [tagsL_block] at hu
            rcases mem_block _ _ _ _ hu with h | h
            · exact h
            · simp [tagsL] at h
          · rw [tagsL_block]
            exact pairwise_block _ _ _ (by simp [tagsL]) (by simp [tagsL])
        | complete =>
          simp only
          have := ih { s with completed := s.completed + 1, started := s.started + 1 } hlive hr hrl hslt
          have hge : ∀ u ∈ tagsL (drainL f
              { s with completed := s.completed + 1, started := s.started + 1 } rest), i.tag ≤ u := by
            intro u hu
            obtain ⟨⟨a, ha, rfl⟩, _⟩ := this.src u hu
            exact Nat.le_of_lt (hi a ha)
          refine ⟨this.qs, ?_, ?_, ?_⟩
          · rw [tagsL_block]; exact pairwise_block _ _ _ this.mono hge
          · intro u hu
            rw [tagsL_block] at hu
            rcases mem_block _ _ _ _ hu with h | h
            · subst h
              exact ⟨⟨i, List.mem_cons_self .., rfl⟩, this.past i.tag hi hia⟩
            · obtain ⟨⟨a, ha, hau⟩, hb⟩ := this.src u h
              exact ⟨⟨a, List.mem_cons_of_mem _ ha, hau⟩, hb⟩
          · intro t ht hta
            exact this.past t (fun a ha => ht a (List.mem_cons_of_mem _ ha)) hta

theorem DrainBlk.wk {s : St} {q : List Inst} {s' : St} {l : List Lab} (h : DrainBlk s q s' l) :
    Wk s q s' l :=
  ⟨h.mono, fun u hu => (h.src u hu).2, fun t ht =>
    ⟨fun u hu => by
      obtain ⟨⟨a, ha, rfl⟩, _⟩ := h.src u hu
      exact Nat.le_of_lt (ht.1 a ha), h.past t ht.1 ht.2.1⟩⟩

theorem liveOf_zero {subs : List (Nat × Nat)} {dead : List Nat} (h : liveOf subs dead = 0) :
    ∀ p ∈ subs, dead.contains p.1 = true := by
  intro p hp
  unfold liveOf at h
  have := List.eq_nil_of_length_eq_zero h
  rw [List.filter_eq_nil_iff] at this
  have := this p hp
  simpa using this

/-- The state invariant for a limit of at most one. -/
structure Blk (s : St) (d : Nat) : Prop where
  conc : s.concurrent ≤ 1
  g : GInv s d
  qs : QS s s.queue

theorem innerComplete_blk (f : Bool) (s : St) (d : Nat) (h : Blk s (d + 1)) :
    Blk (innerComplete f s).1 d ∧ Wk s s.queue (innerComplete f s).1 (innerCompleteL f s) := by
  have hg := innerComplete_fifo f s d h.g
  unfold innerComplete innerCompleteL at *
  by_cases ha : s.alive = true
  · rw [if_pos ha] at hg ⊢
    rw [if_pos ha] at hg
    rw [if_pos ha]
    have hl0 : live s = 0 := by have := h.g.liv; have := h.g.le; have := h.conc; omega
    have hb := drain_blk f s.queue s (liveOf_zero hl0) h.qs.sorted h.qs.qlt h.qs.slt
    exact ⟨⟨by rw [(drain_frame f s.queue s).1]; exact h.conc, hg.1, hb.qs⟩, hb.wk⟩
  · rw [if_neg ha] at hg ⊢
    rw [if_neg ha]
    exact ⟨⟨h.conc, h.g.weaken, h.qs⟩, Wk.notags rfl (fun _ ht => ht)⟩

theorem completeAll_blk (f : Bool) (ts : List (Nat × Nat)) : ∀ s : St, Blk s ts.length →
    Blk (completeAll f s ts).1 0 ∧ Wk s s.queue (completeAll f s ts).1 (completeAllL f s ts) := by
  induction ts with
  | nil => intro s h; exact ⟨h, Wk.notags rfl (fun _ ht => ht)⟩
  | cons p r ih =>
    intro s h
    simp only [completeAll, completeAllL]
    have h1 := innerComplete_blk f s r.length h
    by_cases hst : (innerComplete f s).1.stuck = true
    · rw [if_pos hst, if_pos hst]
      exact ⟨⟨h1.1.conc, h1.1.g.zero, h1.1.qs⟩, h1.2⟩
    · rw [if_neg hst, if_neg hst]
      have h2 := ih _ h1.1
      exact ⟨h2.1, h1.2.comp h2.2⟩

end Rx.MergeAll
