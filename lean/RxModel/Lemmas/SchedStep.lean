import RxModel.Lemmas.Sched
/-
  Helper lemmas for C19, part 2: `Sched.poll` in closed form (`poll_elim`), the
  views of `cancel`, `fire`, `scheduleOnce`, `scheduleRepeat`.
-/
namespace Rx.T
namespace Sched

theorem setTask_setTask (s : Sched) (k t1 t2) : (s.setTask k t1).setTask k t2 = s.setTask k t2 := by
  simp [setTask, List.set_set]
theorem registerTimer_setTask (s : Sched) (k t tm) :
    (s.setTask k t).registerTimer tm = (s.registerTimer tm).setTask k t := by
  unfold registerTimer; simp only [setTask_timers]; split <;> rfl
theorem newTimer_setTask (s : Sched) (k t d o) :
    ((s.setTask k t).newTimer d o).1 = ((s.newTimer d o).1).setTask k t := rfl

theorem finishOnce_setTask (s : Sched) (k t1 t0) (h : s.tasks[k]? = some t0) :
    (s.setTask k t1).finishOnce k = s.setTask k { t1 with done := true, hasValue := true } := by
  unfold finishOnce; rw [setTask_get_self _ _ _ _ h]; simp only [setTask_setTask]
theorem continueRepeat_setTask (s : Sched) (k t1 t0 fur iv seq) (h : s.tasks[k]? = some t0)
    (hr : t1.rep = some (fur, iv, seq)) :
    (s.setTask k t1).continueRepeat k =
      ((s.newTimer iv k).1.registerTimer s.timers.length).setTask k
        { t1 with rep := some (s.timers.length, iv, seq + 1) } := by
  unfold continueRepeat; rw [setTask_get_self _ _ _ _ h]; simp only [hr]
  simp only [newTimer_setTask, registerTimer_setTask, setTask_setTask, newTimer_id, setTask_timers]

/-- Case analysis of `poll`, in closed form: every possible outcome of polling task `k`. -/
theorem poll_elim (s : Sched) (k : TaskId) (c : Bool) {motive : Sched × List Run → Prop}
    (absent : s.tasks[k]? = none → motive (s, []))
    (finished : ∀ t, s.tasks[k]? = some t → t.done = true → motive (s, []))
    (cancelled : ∀ t, s.tasks[k]? = some t → t.done = false → t.keepRunning = false →
      motive (s.setTask k { t with woken := false, done := true }, []))
    (arm : ∀ t d, s.tasks[k]? = some t → t.done = false → t.keepRunning = true →
      t.outerDelay = some d →
      motive (((s.newTimer d k).1.registerTimer s.timers.length).setTask k
        { t with woken := false, outerDelay := none, outerTimer := some s.timers.length }, []))
    (waitOuter : ∀ t tm, s.tasks[k]? = some t → t.done = false → t.keepRunning = true →
      t.outerDelay = none → t.outerTimer = some tm → s.timerFired tm = false →
      motive ((s.registerTimer tm).setTask k { t with woken := false }, []))
    (once : ∀ t, s.tasks[k]? = some t → t.done = false → t.keepRunning = true →
      t.outerDelay = none → s.outerReady t → t.rep = none →
      motive (s.setTask k { t with woken := false, outerTimer := none, done := true, hasValue := true },
        [{ task := k, seq := none, time := s.now }]))
    (waitPeriod : ∀ t fur iv seq, s.tasks[k]? = some t → t.done = false → t.keepRunning = true →
      t.outerDelay = none → s.outerReady t → t.rep = some (fur, iv, seq) → s.timerFired fur = false →
      motive ((s.registerTimer fur).setTask k { t with woken := false, outerTimer := none }, []))
    (lastTick : ∀ t fur iv seq, s.tasks[k]? = some t → t.done = false → t.keepRunning = true →
      t.outerDelay = none → s.outerReady t → t.rep = some (fur, iv, seq) → s.timerFired fur = true →
      c = false →
      motive (s.setTask k { t with woken := false, outerTimer := none, done := true, hasValue := true },
        [{ task := k, seq := some seq, time := s.now }]))
    (tick : ∀ t fur iv seq, s.tasks[k]? = some t → t.done = false → t.keepRunning = true →
      t.outerDelay = none → s.outerReady t → t.rep = some (fur, iv, seq) → s.timerFired fur = true →
      c = true →
      motive (((s.newTimer iv k).1.registerTimer s.timers.length).setTask k
          { t with woken := false, outerTimer := none, rep := some (s.timers.length, iv, seq + 1) },
        [{ task := k, seq := some seq, time := s.now }])) :
    motive (s.poll k c) := by
  unfold poll
  refine pollPre_elim s k (motive := fun r => motive (match r with
    | (s1, .none) => (s1, [])
    | (s1, .runOnce _) => (s1.finishOnce k, [{ task := k, seq := none, time := s1.now }])
    | (s1, .runTick _ seq) =>
        (if c then s1.continueRepeat k else s1.finishOnce k,
         [{ task := k, seq := some seq, time := s1.now }]))) ?_ ?_ ?_ ?_ ?_ ?_ ?_ ?_
  · exact absent
  · exact finished
  · exact cancelled
  · exact arm
  · exact waitOuter
  · intro t ht hd hk hod hr hrep
    simp only [finishOnce_setTask _ _ _ _ ht, setTask_now]
    exact once t ht hd hk hod hr hrep
  · exact waitPeriod
  · intro t fur iv seq ht hd hk hod hr hrep hf
    cases c with
    | false =>
      simp only [finishOnce_setTask _ _ _ _ ht, setTask_now]
      exact lastTick t fur iv seq ht hd hk hod hr hrep hf rfl
    | true =>
      simp only [if_true, setTask_now]
      rw [continueRepeat_setTask s k { t with woken := false, outerTimer := none } t fur iv seq ht hrep]
      exact tick t fur iv seq ht hd hk hod hr hrep hf rfl

/-- `t'` is `t` up to the wake-up flag (which no property of C19 looks at). -/
def Task.sameCore (t t' : Task) : Prop := ∃ w, t' = { t with woken := w }
theorem Task.sameCore_refl (t : Task) : Task.sameCore t t := ⟨t.woken, by cases t; rfl⟩

/-! ### cancel -/
@[simp] theorem cancel_now (s : Sched) (k) : (s.cancel k).now = s.now := by
  unfold cancel; split <;> rfl
@[simp] theorem cancel_tdue (s : Sched) (k tm) : (s.cancel k).tdue tm = s.tdue tm := by
  unfold cancel; split <;> rfl
@[simp] theorem cancel_timerFired (s : Sched) (k tm) :
    (s.cancel k).timerFired tm = s.timerFired tm := by
  unfold cancel; split <;> rfl
@[simp] theorem cancel_length (s : Sched) (k) : (s.cancel k).tasks.length = s.tasks.length := by
  unfold cancel; split <;> simp
theorem cancel_get_ne (s : Sched) (k j) (h : j ≠ k) : (s.cancel k).tasks[j]? = s.tasks[j]? := by
  unfold cancel; split
  · exact setTask_get_ne _ _ _ _ h
  · rfl
theorem cancel_get_self (s : Sched) (k t) (h : s.tasks[k]? = some t) :
    (s.cancel k).tasks[k]? = some { t with keepRunning := false, hasValue := false } := by
  unfold cancel; rw [h]; exact setTask_get_self _ _ _ _ h

/-! ### fire -/
@[simp] theorem setTimer_now (s : Sched) (k t) : (s.setTimer k t).now = s.now := rfl
@[simp] theorem setTimer_tasks (s : Sched) (k t) : (s.setTimer k t).tasks = s.tasks := rfl
theorem setTimer_tdue (s : Sched) (tm t t0 i) (h : s.timers[tm]? = some t0) (hd : t.due = t0.due) :
    (s.setTimer tm t).tdue i = s.tdue i := by
  simp only [tdue, setTimer, List.getElem?_set]
  by_cases e : tm = i
  · subst e; rw [if_pos rfl, if_pos (get_lt h), h]; simp [hd]
  · rw [if_neg e]
theorem setTimer_timerFired (s : Sched) (tm t i) :
    (s.setTimer tm t).timerFired i =
      if tm = i then (if tm < s.timers.length then t.fired else false) else s.timerFired i := by
  simp only [timerFired, setTimer, List.getElem?_set]
  by_cases e : tm = i
  · subst e
    by_cases l : tm < s.timers.length
    · simp only [if_true, if_pos l]
    · simp only [if_true, if_neg l]
  · simp only [if_neg e]

@[simp] theorem fire_now (s : Sched) (tm) : (s.fire tm).now = s.now := by
  unfold fire; split
  · rfl
  · simp only; split
    · split <;> rfl
    · rfl
@[simp] theorem fire_tdue (s : Sched) (tm i) : (s.fire tm).tdue i = s.tdue i := by
  unfold fire; split
  · rfl
  · rename_i t ht
    simp only; split
    · split
      · simp only [setTask_tdue]; exact setTimer_tdue _ _ _ _ _ ht rfl
      · exact setTimer_tdue _ _ _ _ _ ht rfl
    · exact setTimer_tdue _ _ _ _ _ ht rfl
theorem fire_timerFired (s : Sched) (tm i) :
    (s.fire tm).timerFired i = (s.timerFired i || (decide (tm = i) && decide (tm < s.timers.length))) := by
  have key : ∀ t, s.timers[tm]? = some t →
      (s.setTimer tm { t with fired := true }).timerFired i =
        (s.timerFired i || (decide (tm = i) && decide (tm < s.timers.length))) := by
    intro t ht
    rw [setTimer_timerFired]
    by_cases e : tm = i
    · subst e; simp [get_lt ht]
    · simp [e]
  unfold fire; split
  · rename_i ht
    have : ¬ tm < s.timers.length := Nat.not_lt.mpr (List.getElem?_eq_none_iff.mp ht)
    simp [this]
  · rename_i t ht
    simp only; split
    · split
      · simp only [setTask_timerFired]; exact key t ht
      · exact key t ht
    · exact key t ht
@[simp] theorem fire_length (s : Sched) (tm) : (s.fire tm).tasks.length = s.tasks.length := by
  unfold fire; split
  · rfl
  · simp only; split
    · split <;> simp
    · rfl
theorem fire_get (s : Sched) (tm) (j : TaskId) (t : Task) (h : s.tasks[j]? = some t) :
    ∃ t', (s.fire tm).tasks[j]? = some t' ∧ Task.sameCore t t' := by
  unfold fire; split
  · exact ⟨t, h, Task.sameCore_refl t⟩
  · rename_i tr htr
    simp only; split
    · split
      · rename_i tk htk
        simp only [setTimer_tasks] at htk
        by_cases e : j = tr.owner
        · subst e
          rw [h] at htk; cases htk
          refine ⟨_, setTask_get_self _ _ _ t (by simpa using h), true, rfl⟩
        · rw [setTask_get_ne _ _ _ _ e]
          exact ⟨t, h, Task.sameCore_refl t⟩
      · exact ⟨t, h, Task.sameCore_refl t⟩
    · exact ⟨t, h, Task.sameCore_refl t⟩

/-! ### schedule -/
@[simp] theorem scheduleOnce_now (s : Sched) (b d) : (s.scheduleOnce b d).1.now = s.now := rfl
@[simp] theorem scheduleOnce_tdue (s : Sched) (b d tm) :
    (s.scheduleOnce b d).1.tdue tm = s.tdue tm := rfl
@[simp] theorem scheduleOnce_timerFired (s : Sched) (b d tm) :
    (s.scheduleOnce b d).1.timerFired tm = s.timerFired tm := rfl
@[simp] theorem scheduleOnce_length (s : Sched) (b d) :
    (s.scheduleOnce b d).1.tasks.length = s.tasks.length + 1 := by simp [scheduleOnce]
theorem scheduleOnce_get_old (s : Sched) (b d) (j : TaskId) (t : Task) (h : s.tasks[j]? = some t) :
    (s.scheduleOnce b d).1.tasks[j]? = some t := by
  simp only [scheduleOnce]; rw [List.getElem?_append_left (get_lt h)]; exact h
theorem scheduleOnce_get_new (s : Sched) (b d) :
    (s.scheduleOnce b d).1.tasks[s.tasks.length]? = some { body := b, outerDelay := d } := by
  simp [scheduleOnce]

@[simp] theorem scheduleRepeat_now (s : Sched) (b p d) : (s.scheduleRepeat b p d).1.now = s.now := rfl
theorem scheduleRepeat_tdue (s : Sched) (b p d tm) :
    (s.scheduleRepeat b p d).1.tdue tm = if tm = s.timers.length then some (s.now + p) else s.tdue tm :=
  newTimer_tdue s p s.tasks.length tm
theorem scheduleRepeat_tdue_old (s : Sched) (b p d tm due) (h : s.tdue tm = some due) :
    (s.scheduleRepeat b p d).1.tdue tm = some due :=
  newTimer_tdue_old s p s.tasks.length tm due h
@[simp] theorem scheduleRepeat_timerFired (s : Sched) (b p d tm) :
    (s.scheduleRepeat b p d).1.timerFired tm = s.timerFired tm :=
  newTimer_timerFired s p s.tasks.length tm
@[simp] theorem scheduleRepeat_length (s : Sched) (b p d) :
    (s.scheduleRepeat b p d).1.tasks.length = s.tasks.length + 1 := by
  simp [scheduleRepeat, newTimer]
theorem scheduleRepeat_get_old (s : Sched) (b p d) (j : TaskId) (t : Task) (h : s.tasks[j]? = some t) :
    (s.scheduleRepeat b p d).1.tasks[j]? = some t := by
  simp only [scheduleRepeat, newTimer]; rw [List.getElem?_append_left (get_lt h)]; exact h
theorem scheduleRepeat_get_new (s : Sched) (b p d) :
    (s.scheduleRepeat b p d).1.tasks[s.tasks.length]? =
      some { body := b, outerDelay := d, rep := some (s.timers.length, p, 0) } := by
  simp [scheduleRepeat, newTimer]

end Sched
end Rx.T
