import RxModel.Lemmas.MergeAllOrderLog
/-
  C05O — start order.  A bookkeeping invariant that holds on EVERY history
  (errors, unsubscription, malformed subjects, the stuck state of the code
  before the fix), and the FIFO law of the log:

      starts so far ++ queue  =  accepted arrivals so far.
-/
namespace Rx.MergeAll

/-- `d` = inner completions already taken from a subject and not yet delivered. -/
structure GInv (s : St) (d : Nat) : Prop where
  le : s.subscribed ≤ s.concurrent
  full : s.queue ≠ [] → s.concurrent ≤ s.subscribed
  liv : live s + d ≤ s.subscribed

/-- The same while an inner completion is being processed (`q` = the queue it sees). -/
structure PreG (s : St) (q : List Inst) (d : Nat) : Prop where
  le : s.subscribed ≤ s.concurrent
  full : q ≠ [] → s.concurrent ≤ s.subscribed
  liv : live s + d + 1 ≤ s.subscribed

theorem GInv.weaken {s : St} {d : Nat} (h : GInv s (d + 1)) : GInv s d :=
  { h with liv := by have := h.liv; omega }

theorem GInv.zero {s : St} {d : Nat} (h : GInv s d) : GInv s 0 :=
  { h with liv := by have := h.liv; omega }

/-- What a piece of work that only starts queued instances does to the log. -/
def FifoPost (q : List Inst) (s' : St) (l : List Lab) (d : Nat) : Prop :=
  GInv s' d ∧ startsOf l ++ s'.queue = q ∧ arrivalsOf l = []

theorem drain_fifo (f : Bool) (q : List Inst) : ∀ (s : St) (d : Nat), PreG s q d →
    FifoPost q (drain f s q).1 (drainL f s q) d := by
  induction q with
  | nil =>
    intro s d h
    have hl := h.liv; have hle := h.le
    simp only [drain, drainL]
    split
    · exact ⟨⟨by simp; omega, by simp, by simp [live] at hl ⊢; omega⟩, by simp [startsOf], by simp [arrivalsOf]⟩
    · exact ⟨⟨by simp; omega, by simp, by simp [live] at hl ⊢; omega⟩, by simp [startsOf], by simp [arrivalsOf]⟩
  | cons i rest ih =>
    intro s d h
    have hl := h.liv; have hle := h.le
    have hfull := h.full (by simp)
    simp only [drain, drainL]
    cases hin : s.inner i.k with
    | hot j =>
      simp only
      have hlv := liveOf_append_le s.subs (j, i.tag) s.dead
      exact ⟨⟨hle, fun _ => hfull, by simp only [live] at hl ⊢; omega⟩, by simp [startsOf],
        by simp [arrivalsOf]⟩
    | cold xs fin =>
      simp only
      by_cases hc : (!f && (Inner.cold xs fin).touches) = true
      · simp only [hc, if_true]
        exact ⟨⟨hle, fun _ => hfull, by simp only [live] at hl ⊢; omega⟩, by simp [startsOf],
          by simp [arrivalsOf]⟩
      · simp only [hc, Bool.false_eq_true, if_false]
        cases fin with
        | open_ =>
          simp only
          exact ⟨⟨hle, fun _ => hfull, by simp only [live] at hl ⊢; omega⟩,
            by simp [startsOf], by simp [arrivalsOf]⟩
        | error e =>
          simp only
          exact ⟨⟨hle, fun _ => hfull, by simp only [live] at hl ⊢; omega⟩,
            by simp [startsOf, startsOf_append], by simp [arrivalsOf, arrivalsOf_append]⟩
        | complete =>
          simp only
          have hp : PreG { s with completed := s.completed + 1, started := s.started + 1 } rest d :=
            ⟨hle, fun _ => hfull, by simp only [live] at hl ⊢; omega⟩
          have := ih _ d hp
          refine ⟨this.1, ?_, ?_⟩
          · simp only [startsOf, startsOf_append, startsOf_itemsL, List.nil_append, List.cons_append]
            rw [this.2.1]
          · simp only [arrivalsOf, arrivalsOf_append, arrivalsOf_itemsL, List.nil_append]
            exact this.2.2

theorem innerComplete_fifo (f : Bool) (s : St) (d : Nat) (h : GInv s (d + 1)) :
    FifoPost s.queue (innerComplete f s).1 (innerCompleteL f s) d := by
  unfold innerComplete innerCompleteL
  by_cases ha : s.alive = true
  · rw [if_pos ha, if_pos ha]
    exact drain_fifo f s.queue s d ⟨h.le, h.full, by have := h.liv; omega⟩
  · rw [if_neg ha, if_neg ha]
    exact ⟨h.weaken, by simp [startsOf], rfl⟩

theorem completeAll_fifo (f : Bool) (ts : List (Nat × Nat)) : ∀ s : St, GInv s ts.length →
    FifoPost s.queue (completeAll f s ts).1 (completeAllL f s ts) 0 := by
  induction ts with
  | nil => intro s h; exact ⟨h, by simp [completeAllL, completeAll, startsOf], rfl⟩
  | cons t r ih =>
    intro s h
    simp only [completeAll, completeAllL]
    have h1 := innerComplete_fifo f s r.length h
    by_cases hst : (innerComplete f s).1.stuck = true
    · rw [if_pos hst, if_pos hst]
      exact ⟨h1.1.zero, h1.2.1, h1.2.2⟩
    · rw [if_neg hst, if_neg hst]
      have h2 := ih _ h1.1
      refine ⟨h2.1, ?_, ?_⟩
      · rw [startsOf_append, List.append_assoc, h2.2.1, h1.2.1]
      · rw [arrivalsOf_append, h1.2.2, h2.2.2]; rfl

theorem startTop_fifo (f : Bool) (s : St) (i : Inst) (hle : s.subscribed ≤ s.concurrent)
    (hq : s.queue = []) (hl : live s + 1 ≤ s.subscribed) :
    GInv (startTop f s i).1 0 ∧ startsOf (startTopL f s i) = [i] ∧ (startTop f s i).1.queue = [] ∧
      arrivalsOf (startTopL f s i) = [] := by
  simp only [startTop, startTopL]
  cases hin : St.inner { s with started := s.started + 1 } i.k with
  | hot j =>
    simp only
    have hlv := liveOf_append_le s.subs (j, i.tag) s.dead
    exact ⟨⟨hle, by simp [hq], by simp only [live] at hl ⊢; omega⟩, by simp [startsOf], hq,
      by simp [arrivalsOf]⟩
  | cold xs fin =>
    simp only
    cases fin with
    | open_ =>
      simp only
      exact ⟨⟨hle, by simp [hq], by simp only [live] at hl ⊢; omega⟩,
        by simp [startsOf], hq, by simp [arrivalsOf]⟩
    | error e =>
      simp only
      exact ⟨⟨hle, by simp [hq], by simp only [live] at hl ⊢; omega⟩,
        by simp [startsOf, startsOf_append], hq, by simp [arrivalsOf, arrivalsOf_append]⟩
    | complete =>
      simp only
      have hp : PreG { s with started := s.started + 1 } s.queue 0 :=
        ⟨hle, by simp [hq], by simp only [live] at hl ⊢; omega⟩
      have := drain_fifo f s.queue _ 0 hp
      have hs := this.2.1.trans hq
      simp only [List.append_eq_nil_iff] at hs
      refine ⟨this.1, ?_, ?_, ?_⟩
      · simp only [startsOf, startsOf_append, startsOf_itemsL, List.nil_append, hs.1]
      · exact hs.2
      · simp only [arrivalsOf, arrivalsOf_append, arrivalsOf_itemsL, List.nil_append]
        exact this.2.2

theorem liveOf_filter_le (subs : List (Nat × Nat)) (dead : List Nat) (j : Nat) :
    liveOf (subs.filter (fun p => !(p.1 == j))) (j :: dead) ≤ liveOf subs dead := by
  unfold liveOf
  induction subs with
  | nil => simp
  | cons p r ih =>
    by_cases hp : p.1 = j
    · by_cases hd : p.1 ∈ dead
      · simp [hp] at ih ⊢; rw [← hp] at ih ⊢; simp [hd] at ih ⊢; omega
      · simp [hp] at ih ⊢
        rw [← hp] at ih ⊢
        simp [hd] at ih ⊢; omega
    · have hne : (p.1 == j) = false := by simpa using hp
      by_cases hd : p.1 ∈ dead
      · simp [hne, hd, hp] at ih ⊢; omega
      · simp [hne, hd, hp] at ih ⊢; omega

theorem errorAll_sub (e : Err) (ts : List (Nat × Nat)) : ∀ s : St,
    (errorAll s e ts).1.subscribed = s.subscribed ∧ (errorAll s e ts).1.concurrent = s.concurrent ∧
    (errorAll s e ts).1.dead = s.dead := by
  induction ts with
  | nil => intro s; exact ⟨rfl, rfl, rfl⟩
  | cons p r ih =>
    intro s
    simp only [errorAll]
    have h2 := ih (innerError s e).1
    have h1 : (innerError s e).1.subscribed = s.subscribed ∧
        (innerError s e).1.concurrent = s.concurrent ∧ (innerError s e).1.dead = s.dead := by
      unfold innerError; split <;> exact ⟨rfl, rfl, rfl⟩
    exact ⟨h2.1.trans h1.1, h2.2.1.trans h1.2.1, h2.2.2.trans h1.2.2⟩

/-- One event: the FIFO law and the invariant. -/
theorem stepG_fifo (f : Bool) (s : St) (ev : Ev) (h : GInv s 0) :
    GInv (stepG f s ev).1 0 ∧
    startsOf (stepL f s ev) ++ (stepG f s ev).1.queue = s.queue ++ arrivalsOf (stepL f s ev) := by
  unfold stepG stepL
  by_cases hst : s.stuck = true
  · rw [if_pos hst, if_pos hst]; exact ⟨h, by simp [startsOf, arrivalsOf]⟩
  · rw [if_neg hst, if_neg hst]
    have hl := h.liv; have hle := h.le
    cases ev with
    | outerNext k =>
      simp only [outerNext, outerNextL]
      by_cases ho : (!s.outerOpen) = true
      · rw [if_pos ho, if_pos ho]; exact ⟨h, by simp [startsOf, arrivalsOf]⟩
      · rw [if_neg ho, if_neg ho]
        by_cases ha : (!s.alive) = true
        · rw [if_pos ha, if_pos ha]
          exact ⟨⟨h.le, h.full, h.liv⟩, by simp [startsOf, arrivalsOf]⟩
        · rw [if_neg ha, if_neg ha]
          by_cases hlt : s.subscribed < s.concurrent
          · rw [if_pos hlt, if_pos hlt]
            have hq : s.queue = [] := by
              cases hqq : s.queue with
              | nil => rfl
              | cons a r => have := h.full (by simp [hqq]); omega
            have := startTop_fifo f
              { s with arrivals := s.arrivals + 1, subscribed := s.subscribed + 1 } ⟨s.arrivals, k⟩
              (by simp; omega) hq (by simp only [live] at hl ⊢; omega)
            refine ⟨this.1, ?_⟩
            simp only [startsOf, arrivalsOf]
            rw [this.2.1, this.2.2.1, this.2.2.2, hq]; rfl
          · rw [if_neg hlt, if_neg hlt]
            refine ⟨⟨h.le, fun _ => by simp; omega, h.liv⟩, ?_⟩
            simp [startsOf, arrivalsOf]
    | outerError e =>
      simp only [outerError]
      split
      · exact ⟨h, by simp [startsOf, arrivalsOf]⟩
      · split
        · exact ⟨⟨h.le, h.full, h.liv⟩, by simp [startsOf, arrivalsOf]⟩
        · exact ⟨⟨h.le, h.full, h.liv⟩, by simp [startsOf, arrivalsOf]⟩
    | outerComplete =>
      simp only [outerComplete]
      split
      · exact ⟨h, by simp [startsOf, arrivalsOf]⟩
      · split
        · split
          · exact ⟨⟨h.le, h.full, h.liv⟩, by simp [startsOf, arrivalsOf]⟩
          · exact ⟨⟨h.le, h.full, h.liv⟩, by simp [startsOf, arrivalsOf]⟩
        · exact ⟨⟨h.le, h.full, h.liv⟩, by simp [startsOf, arrivalsOf]⟩
    | innerNext j v =>
      simp only [hotNext]
      split
      · exact ⟨h, by simp [startsOf, arrivalsOf]⟩
      · exact ⟨h, by simp [startsOf_map_out, arrivalsOf_map_out]⟩
    | innerError j e =>
      simp only [hotError]
      split
      · exact ⟨h, by simp [startsOf, arrivalsOf]⟩
      · have hf := errorAll_frame e (targets s j)
          { s with dead := j :: s.dead, subs := s.subs.filter (fun p => !(p.1 == j)) }
        have hsub := errorAll_sub e (targets s j)
          { s with dead := j :: s.dead, subs := s.subs.filter (fun p => !(p.1 == j)) }
        refine ⟨⟨?_, ?_, ?_⟩, ?_⟩
        · rw [hsub.1, hsub.2.1]; exact h.le
        · rw [hf.2.2.1, hsub.1, hsub.2.1]; exact h.full
        · have := liveOf_filter_le s.subs s.dead j
          simp only [live] at hl ⊢
          rw [hf.2.2.2.1, hsub.2.2, hsub.1]; simp only; omega
        · rw [hf.2.2.1]; simp [startsOf_map_out, arrivalsOf_map_out]
    | innerComplete j =>
      simp only [hotComplete, hotCompleteL]
      by_cases hd : s.dead.contains j = true
      · rw [if_pos hd, if_pos hd]; exact ⟨h, by simp [startsOf, arrivalsOf]⟩
      · rw [if_neg hd, if_neg hd]
        have htake := liveOf_take s.subs s.dead j (by simpa using hd)
        have := completeAll_fifo f (targets s j)
          { s with dead := j :: s.dead, subs := s.subs.filter (fun p => !(p.1 == j)) }
          ⟨h.le, h.full, by simp only [live, targets] at hl ⊢; omega⟩
        exact ⟨this.1, by rw [this.2.1, this.2.2]; simp⟩
    | unsub =>
      exact ⟨⟨h.le, h.full, by simp [unsub, live, liveOf]⟩, by simp [unsub, startsOf, arrivalsOf]⟩

theorem init_ginv (inners : List Inner) (n : Nat) : GInv (init inners n) 0 :=
  ⟨by simp [init], by simp [init], by simp [init, live, liveOf]⟩

/-- FIFO law of a whole history. -/
theorem runG_fifo (f : Bool) (evs : List Ev) : ∀ s : St, GInv s 0 →
    GInv (runG f s evs).1 0 ∧
    startsOf (runL f s evs) ++ (runG f s evs).1.queue = s.queue ++ arrivalsOf (runL f s evs) := by
  induction evs with
  | nil => intro s h; exact ⟨h, by simp [runL, runG, startsOf, arrivalsOf]⟩
  | cons ev r ih =>
    intro s h
    have h1 := stepG_fifo f s ev h
    have h2 := ih _ h1.1
    simp only [runG, runL]
    refine ⟨h2.1, ?_⟩
    rw [startsOf_append, arrivalsOf_append, List.append_assoc, h2.2, ← List.append_assoc, h1.2,
      List.append_assoc]

/-! ### Arrival tags are strictly increasing -/

theorem arrivalsOf_drainL (f : Bool) (q : List Inst) : ∀ s : St, arrivalsOf (drainL f s q) = [] := by
  induction q with
  | nil => intro s; simp only [drainL]; split <;> simp [arrivalsOf]
  | cons i rest ih =>
    intro s
    simp only [drainL, arrivalsOf]
    cases s.inner i.k with
    | hot j => rfl
    | cold xs fin =>
      simp only
      split
      · rfl
      · cases fin with
        | open_ => simp
        | error e => simp [arrivalsOf_append, arrivalsOf]
        | complete => simp [arrivalsOf_append, ih]

theorem arrivalsOf_innerCompleteL (f : Bool) (s : St) : arrivalsOf (innerCompleteL f s) = [] := by
  unfold innerCompleteL; split
  · exact arrivalsOf_drainL f _ s
  · rfl

theorem arrivalsOf_completeAllL (f : Bool) (ts : List (Nat × Nat)) : ∀ s : St,
    arrivalsOf (completeAllL f s ts) = [] := by
  induction ts with
  | nil => intro s; rfl
  | cons t r ih =>
    intro s
    simp only [completeAllL]
    split
    · exact arrivalsOf_innerCompleteL f s
    · rw [arrivalsOf_append, arrivalsOf_innerCompleteL, ih]; rfl

theorem arrivalsOf_startTopL (f : Bool) (s : St) (i : Inst) : arrivalsOf (startTopL f s i) = [] := by
  simp only [startTopL, arrivalsOf]
  cases St.inner { s with started := s.started + 1 } i.k with
  | hot j => rfl
  | cold xs fin =>
    simp only
    cases fin with
    | open_ => simp
    | error e => simp [arrivalsOf_append, arrivalsOf]
    | complete => simp [arrivalsOf_append, arrivalsOf_drainL]

/-- The accepted arrivals of one event: the outer `next` that finds the slot
    open and the data alive, nothing else. -/
theorem arrivalsOf_stepL (f : Bool) (s : St) (ev : Ev) :
    arrivalsOf (stepL f s ev) =
      match ev with
      | .outerNext k =>
          if s.stuck = false ∧ s.outerOpen = true ∧ s.alive = true then [⟨s.arrivals, k⟩] else []
      | _ => [] := by
  unfold stepL
  by_cases hst : s.stuck = true
  · rw [if_pos hst]; cases ev <;> simp [arrivalsOf, hst]
  · rw [if_neg hst]
    have hst' : s.stuck = false := by simpa using hst
    cases ev with
    | outerNext k =>
      simp only [outerNextL, hst', true_and]
      by_cases ho : s.outerOpen = true
      · by_cases ha : s.alive = true
        · simp only [ho, ha, Bool.not_true, Bool.false_eq_true, if_false, and_self, if_true, arrivalsOf]
          split
          · rw [arrivalsOf_startTopL]
          · rfl
        · simp [ha, arrivalsOf]
      · simp [ho, arrivalsOf]
    | outerError e => exact arrivalsOf_map_out _
    | outerComplete => exact arrivalsOf_map_out _
    | innerNext j v => exact arrivalsOf_map_out _
    | innerError j e => exact arrivalsOf_map_out _
    | innerComplete j =>
      simp only [hotCompleteL]
      split
      · rfl
      · exact arrivalsOf_completeAllL f _ _
    | unsub => rfl

theorem stepG_arrivals_succ (f : Bool) (s : St) (k : Nat) (hs : s.stuck = false)
    (ho : s.outerOpen = true) : (stepG f s (.outerNext k)).1.arrivals = s.arrivals + 1 := by
  unfold stepG
  rw [if_neg (by simp [hs])]
  simp only [outerNext]
  rw [if_neg (by simp [ho])]
  split
  · rfl
  · split
    · unfold startTop
      simp only
      split
      · rfl
      · split
        · rfl
        · rfl
        · have := drain_frame f s.queue
            { s with arrivals := s.arrivals + 1, subscribed := s.subscribed + 1,
                     started := s.started + 1 }
          simp only at this ⊢
          exact this.2.2.2.1
    · rfl

/-- Tags of accepted arrivals: strictly increasing, between the arrival
    counter before and after. -/
theorem runL_arrivals_sorted (f : Bool) (evs : List Ev) : ∀ s : St,
    (arrivalsOf (runL f s evs)).Pairwise (fun a b => a.tag < b.tag) ∧
    ∀ i ∈ arrivalsOf (runL f s evs), s.arrivals ≤ i.tag ∧ i.tag < (runG f s evs).1.arrivals := by
  induction evs with
  | nil => intro s; simp [runL, arrivalsOf]
  | cons ev r ih =>
    intro s
    simp only [runL, runG, arrivalsOf_append]
    have h2 := ih (stepG f s ev).1
    have hm := (stepG_frame f s ev).2
    have hm2 := (runG_frame f r (stepG f s ev).1).2
    have h1 := arrivalsOf_stepL f s ev
    cases ev with
    | outerNext k =>
      simp only at h1
      by_cases hc : s.stuck = false ∧ s.outerOpen = true ∧ s.alive = true
      · rw [if_pos hc] at h1
        have hsucc := stepG_arrivals_succ f s k hc.1 hc.2.1
        rw [h1]
        refine ⟨?_, ?_⟩
        · simp only [List.singleton_append, List.pairwise_cons]
          exact ⟨fun b hb => by have := (h2.2 b hb).1; show s.arrivals < b.tag; omega, h2.1⟩
        · intro i hi
          simp only [List.singleton_append, List.mem_cons] at hi
          rcases hi with rfl | hi
          · show s.arrivals ≤ s.arrivals ∧ s.arrivals < _; omega
          · have := h2.2 i hi; omega
      · rw [if_neg hc] at h1
        rw [h1]
        exact ⟨h2.1, fun i hi => by have := h2.2 i hi; simp only [List.nil_append] at hi; omega⟩
    | outerError e =>
      rw [h1]; exact ⟨h2.1, fun i hi => by have := h2.2 i hi; omega⟩
    | outerComplete =>
      rw [h1]; exact ⟨h2.1, fun i hi => by have := h2.2 i hi; omega⟩
    | innerNext j v =>
      rw [h1]; exact ⟨h2.1, fun i hi => by have := h2.2 i hi; omega⟩
    | innerError j e =>
      rw [h1]; exact ⟨h2.1, fun i hi => by have := h2.2 i hi; omega⟩
    | innerComplete j =>
      rw [h1]; exact ⟨h2.1, fun i hi => by have := h2.2 i hi; omega⟩
    | unsub =>
      rw [h1]; exact ⟨h2.1, fun i hi => by have := h2.2 i hi; omega⟩

end Rx.MergeAll
