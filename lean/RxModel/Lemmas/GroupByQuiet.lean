import RxModel.Lemmas.GroupByWorld
/-
  Helper lemmas for C02M (group_by): after the subscriber of group `k`
  unsubscribed, group `k` is silent.
-/
namespace Rx
namespace GroupBy

theorem total_replace_eq (k : Val) (s s' : Subj) (l : List (Val × Subj))
    (h : find k l = some s) : total k (replace k s' l) + s.live = total k l + s'.live := by
  induction l with
  | nil => simp [find] at h
  | cons x r ih =>
    obtain ⟨k1, s1⟩ := x
    by_cases hk : k1 = k
    · simp only [find, hk, if_true, Option.some.injEq] at h
      subst h
      simp only [replace, hk, if_true, total]
      omega
    · simp only [find, hk, if_false] at h
      simp only [replace, hk, if_false, total]
      have := ih h
      omega

theorem total_replace_ne (k k' : Val) (s' : Subj) (l : List (Val × Subj)) (hne : k ≠ k') :
    total k' (replace k s' l) = total k' l := by
  induction l with
  | nil => rfl
  | cons x r ih =>
    obtain ⟨k1, s1⟩ := x
    by_cases hk : k1 = k
    · have : ¬ k1 = k' := fun h => hne (hk ▸ h)
      simp [replace, hk, total, hne]
    · simp [replace, hk, total, ih]

theorem find_replace_ne (k k' : Val) (s' : Subj) (l : List (Val × Subj)) (hne : k ≠ k') :
    find k' (replace k s' l) = find k' l := by
  induction l with
  | nil => rfl
  | cons x r ih =>
    obtain ⟨k1, s1⟩ := x
    by_cases hk : k1 = k
    · simp [replace, hk, find, hne]
    · simp [replace, hk, find, ih]

theorem find_append_some (k : Val) (s : Subj) (l m : List (Val × Subj)) (h : find k l = some s) :
    find k (l ++ m) = some s := by
  induction l with
  | nil => simp [find] at h
  | cons x r ih =>
    obtain ⟨k1, s1⟩ := x
    by_cases hk : k1 = k
    · simpa [find, hk] using h
    · simp only [find, hk, if_false] at h
      simp [find, hk, ih h]

theorem find_append_none (k : Val) (l m : List (Val × Subj)) (h : find k l = none) :
    find k (l ++ m) = find k m := by
  induction l with
  | nil => rfl
  | cons x r ih =>
    obtain ⟨k1, s1⟩ := x
    by_cases hk : k1 = k
    · simp [find, hk] at h
    · simp only [find, hk, if_false] at h
      simp [find, hk, ih h]

theorem find_some_live_le (k : Val) (s : Subj) (l : List (Val × Subj)) (h : find k l = some s) :
    s.live ≤ total k l := by
  induction l with
  | nil => simp [find] at h
  | cons x r ih =>
    obtain ⟨k1, s1⟩ := x
    by_cases hk : k1 = k
    · simp only [find, hk, if_true, Option.some.injEq] at h
      subst h
      simp only [total, hk, if_true]; omega
    · simp only [find, hk, if_false] at h
      have := ih h
      simp only [total, hk, if_false]; omega

/-- The live subscribers under a key are those of the subject `find` returns
    (no shadowed duplicates with subscribers). -/
def FI (l : List (Val × Subj)) : Prop := ∀ k s, find k l = some s → total k l = s.live

theorem FI_nil : FI [] := by intro k s h; simp [find] at h

theorem replace_FI (k : Val) (s s' : Subj) (l : List (Val × Subj)) (hl : FI l)
    (h : find k l = some s) : FI (replace k s' l) := by
  intro k' s'' h'
  by_cases hk : k = k'
  · subst hk
    rw [find_replace_self k s s' l h] at h'
    simp only [Option.some.injEq] at h'
    subst h'
    have h1 := total_replace_eq k s s' l h
    have h2 := hl k s h
    omega
  · rw [find_replace_ne k k' s' l hk] at h'
    rw [total_replace_ne k k' s' l hk]
    exact hl k' s'' h'

theorem append_FI (k : Val) (s' : Subj) (l : List (Val × Subj)) (hl : FI l)
    (h : find k l = none) : FI (l ++ [(k, s')]) := by
  intro k' s'' h'
  rw [total_append]
  by_cases hk : k = k'
  · subst hk
    rw [find_append_none k l _ h] at h'
    simp only [find, if_true, Option.some.injEq] at h'
    subst h'
    simp [total, find_none_total k l h]
  · cases hf : find k' l with
    | none =>
      rw [find_append_none k' l _ hf] at h'
      simp [find, hk] at h'
    | some s0 =>
      rw [find_append_some k' s0 l _ hf] at h'
      simp only [Option.some.injEq] at h'
      subst h'
      simp [total, hk, hl k' s0 hf]

theorem onNext_FI (key : Val → Val) (attach : Bool) (st : St) (v : Val) (h : FI st.subjects) :
    FI (st.onNext key attach v).1.subjects := by
  simp only [St.onNext]
  split
  · rename_i subj hf
    exact replace_FI _ subj _ _ h hf
  · rename_i hf
    exact append_FI _ _ _ h hf

theorem unsubGroup_FI (st : St) (k : Val) (h : FI st.subjects) : FI (st.unsubGroup k).subjects := by
  simp only [St.unsubGroup]
  split
  · rename_i s hf
    exact replace_FI _ s _ _ h hf
  · exact h

/-- Group `k` exists and nobody listens to it. -/
def Quiet (k : Val) (st : St) : Prop :=
  (find k st.subjects).isSome = true ∧ total k st.subjects = 0

theorem find_replace_isSome (k k' : Val) (s s' : Subj) (l : List (Val × Subj))
    (h : find k l = some s) : (find k' (replace k s' l)).isSome = (find k' l).isSome := by
  by_cases hk : k = k'
  · subst hk
    rw [find_replace_self k s s' l h, h]
    rfl
  · rw [find_replace_ne k k' s' l hk]

theorem onNext_Quiet (key : Val → Val) (attach : Bool) (st : St) (v : Val) (k : Val)
    (h : Quiet k st) :
    Quiet k (st.onNext key attach v).1 ∧ grpLog k (st.onNext key attach v).2 = [] := by
  obtain ⟨h1, h2⟩ := h
  simp only [St.onNext]
  split
  · rename_i subj hf
    refine ⟨⟨?_, ?_⟩, ?_⟩
    · simp only; rw [find_replace_isSome _ k subj _ _ hf]; exact h1
    · have := total_replace (key v) k subj (subj.next v).1 st.subjects hf
        (Nat.le_of_eq (Subj.next_live subj v))
      simp only; omega
    · simp only [grpLog_map_grp, Subj.next_out]
      split
      · rename_i hk
        have := find_some_live_le _ _ _ hf
        rw [hk, h2] at this
        simp [Nat.le_zero.mp this]
      · rfl
  · rename_i hf
    have hne : ¬ key v = k := by
      intro hk
      rw [hk] at hf
      simp [hf] at h1
    cases hfk : find k st.subjects with
    | none => simp [hfk] at h1
    | some s0 =>
      refine ⟨⟨?_, ?_⟩, ?_⟩
      · simp [find_append_some k s0 _ _ hfk]
      · simp [total_append, total, hne, h2]
      · simp [grpLog, grpLog_map_grp, hne]

theorem unsubGroup_Quiet (st : St) (k k' : Val) (h : Quiet k st) : Quiet k (st.unsubGroup k') := by
  obtain ⟨h1, h2⟩ := h
  simp only [St.unsubGroup]
  split
  · rename_i s hf
    refine ⟨?_, ?_⟩
    · simp only; rw [find_replace_isSome _ k s _ _ hf]; exact h1
    · have := total_replace k' k s s.unsubAll st.subjects hf
        (by rw [Subj.unsubAll_live]; exact Nat.zero_le _)
      simp only; omega
  · exact ⟨h1, h2⟩

theorem unsubGroup_makes_Quiet (st : St) (k : Val) (hfi : FI st.subjects)
    (h : (find k st.subjects).isSome = true) : Quiet k (st.unsubGroup k) := by
  cases hf : find k st.subjects with
  | none => simp [hf] at h
  | some s =>
    simp only [St.unsubGroup, hf, Quiet]
    refine ⟨by rw [find_replace_self k s _ _ hf]; rfl, ?_⟩
    have h1 := total_replace_eq k s s.unsubAll st.subjects hf
    have h2 := hfi k s hf
    rw [Subj.unsubAll_live] at h1
    omega

variable (key : Val → Val) (ord : List (Val × Subj) → List (Val × Subj))

theorem world_quiet (hord : ∀ l, (ord l).Perm l) (k : Val) (evs : List Ev) : ∀ w : World,
    (∀ st, w.slot = some st → Quiet k st) → grpLog k (World.run key ord w evs).2 = [] := by
  induction evs with
  | nil => intro w _; rfl
  | cons e r ih =>
    intro w hw
    simp only [World.run, grpLog_append]
    obtain ⟨sd, sl, ch, sk⟩ := w
    cases sl with
    | none =>
      have h1 := step_dead key ord ⟨sd, none, ch, sk⟩ rfl e
      have h2 := run_dead key ord r _ h1.2
      simp [h1.1, h2, grpLog]
    | some st =>
      have hst : Quiet k st := hw st rfl
      cases e with
      | emit n =>
        cases n with
        | next v =>
          simp only [World.step]
          split
          · simpa [grpLog] using ih _ hw
          · have hq := onNext_Quiet key
              ((runChain ch [.next (key v)]).2.contains (.next (key v)) && !sk.contains (key v))
              st v k hst
            simp only [pushOuter_grp, hq.2, List.nil_append]
            apply ih
            intro st' h'
            simp only [Option.some.injEq] at h'
            subst h'
            exact hq.1
        | error err =>
          simp only [World.step]
          split
          · simpa [grpLog] using ih _ hw
          · rw [run_dead key ord r _ rfl]
            simp [pushOuter_grp, St.onTerm, grpLog_append, grpLog_drainOut, grpLog,
              total_perm k (hord st.subjects), hst.2]
        | complete =>
          simp only [World.step]
          split
          · simpa [grpLog] using ih _ hw
          · rw [run_dead key ord r _ rfl]
            simp [pushOuter_grp, St.onTerm, grpLog_append, grpLog_drainOut, grpLog,
              total_perm k (hord st.subjects), hst.2]
      | unsub =>
        simp only [World.step]
        rw [run_dead key ord r _ rfl]
        simp [grpLog]
      | gunsub k' =>
        simp only [World.step, grpLog, List.nil_append]
        apply ih
        intro st' h'
        simp only [Option.map_some, Option.some.injEq] at h'
        subst h'
        exact unsubGroup_Quiet st k k' hst

/-- `FI` is an invariant of the suite world. -/
theorem step_FI (w : World) (e : Ev) (hw : ∀ st, w.slot = some st → FI st.subjects) :
    ∀ st, (w.step key ord e).1.slot = some st → FI st.subjects := by
  obtain ⟨sd, sl, ch, sk⟩ := w
  cases sl with
  | none =>
    intro st h
    rw [(step_dead key ord ⟨sd, none, ch, sk⟩ rfl e).2] at h
    cases h
  | some st0 =>
    have h0 : FI st0.subjects := hw st0 rfl
    cases e with
    | emit n =>
      cases n with
      | next v =>
        simp only [World.step]
        split
        · exact hw
        · intro st h
          simp only [Option.some.injEq] at h
          subst h
          exact onNext_FI key _ st0 v h0
      | error err =>
        simp only [World.step]
        split
        · exact hw
        · intro st h; cases h
      | complete =>
        simp only [World.step]
        split
        · exact hw
        · intro st h; cases h
    | unsub => intro st h; cases h
    | gunsub k' =>
      intro st h
      simp only [World.step, Option.map_some, Option.some.injEq] at h
      subst h
      exact unsubGroup_FI st0 k' h0

theorem run_FI (evs : List Ev) : ∀ w : World, (∀ st, w.slot = some st → FI st.subjects) →
    ∀ st, (World.run key ord w evs).1.slot = some st → FI st.subjects := by
  induction evs with
  | nil => intro w hw; exact hw
  | cons e r ih =>
    intro w hw
    simp only [World.run]
    exact ih _ (step_FI key ord w e hw)

/-! ### a group that has delivered something exists -/

/-- Group `k` has been created. -/
def Ex (k : Val) (st : St) : Prop := (find k st.subjects).isSome = true

theorem onNext_Ex (key : Val → Val) (attach : Bool) (st : St) (v : Val) (k : Val) :
    (Ex k st → Ex k (st.onNext key attach v).1) ∧
    (grpLog k (st.onNext key attach v).2 ≠ [] → Ex k (st.onNext key attach v).1) := by
  simp only [St.onNext, Ex]
  split
  · rename_i subj hf
    constructor
    · intro h
      simp only; rw [find_replace_isSome _ k subj _ _ hf]; exact h
    · intro h
      simp only [grpLog_map_grp] at h
      split at h
      · rename_i hk
        simp only; rw [← hk, find_replace_self _ subj _ _ hf]; rfl
      · exact absurd rfl h
  · rename_i hf
    constructor
    · intro h
      cases hfk : find k st.subjects with
      | none => simp [hfk] at h
      | some s0 => simp [find_append_some k s0 _ _ hfk]
    · intro h
      simp only [grpLog, grpLog_map_grp] at h
      split at h
      · rename_i hk
        simp only; rw [← hk, find_append_none _ _ _ hf]; simp [find]
      · exact absurd rfl h

theorem unsubGroup_Ex (st : St) (k k' : Val) (h : Ex k st) : Ex k (st.unsubGroup k') := by
  simp only [St.unsubGroup, Ex]
  split
  · rename_i s hf
    simp only; rw [find_replace_isSome _ k s _ _ hf]; exact h
  · exact h

theorem step_Ex (k : Val) (w : World) (e : Ev) :
    ∀ st', (w.step key ord e).1.slot = some st' →
      (grpLog k (w.step key ord e).2 ≠ [] ∨ ∀ st, w.slot = some st → Ex k st) → Ex k st' := by
  obtain ⟨sd, sl, ch, sk⟩ := w
  cases sl with
  | none =>
    intro st' h
    rw [(step_dead key ord ⟨sd, none, ch, sk⟩ rfl e).2] at h
    cases h
  | some st0 =>
    cases e with
    | emit n =>
      cases n with
      | next v =>
        simp only [World.step]
        split
        · intro st' h hor
          simp only [Option.some.injEq] at h
          subst h
          rcases hor with hor | hor
          · exact absurd rfl hor
          · exact hor _ rfl
        · intro st' h hor
          simp only [Option.some.injEq] at h
          subst h
          rw [pushOuter_grp] at hor
          rcases hor with hor | hor
          · exact (onNext_Ex key _ st0 v k).2 hor
          · exact (onNext_Ex key _ st0 v k).1 (hor _ rfl)
      | error err =>
        simp only [World.step]
        split
        · intro st' h hor
          simp only [Option.some.injEq] at h
          subst h
          rcases hor with hor | hor
          · exact absurd rfl hor
          · exact hor _ rfl
        · intro st' h; cases h
      | complete =>
        simp only [World.step]
        split
        · intro st' h hor
          simp only [Option.some.injEq] at h
          subst h
          rcases hor with hor | hor
          · exact absurd rfl hor
          · exact hor _ rfl
        · intro st' h; cases h
    | unsub => intro st' h; cases h
    | gunsub k' =>
      intro st' h hor
      simp only [World.step, Option.map_some, Option.some.injEq] at h
      subst h
      rcases hor with hor | hor
      · exact absurd rfl hor
      · exact unsubGroup_Ex st0 k k' (hor _ rfl)

theorem run_Ex (k : Val) (evs : List Ev) : ∀ w : World,
    ∀ st', (World.run key ord w evs).1.slot = some st' →
      (grpLog k (World.run key ord w evs).2 ≠ [] ∨ ∀ st, w.slot = some st → Ex k st) → Ex k st' := by
  induction evs with
  | nil =>
    intro w st' h hor
    rcases hor with hor | hor
    · exact absurd rfl hor
    · exact hor st' h
  | cons e r ih =>
    intro w st' h hor
    simp only [World.run] at h hor
    apply ih _ st' h
    rw [grpLog_append] at hor
    by_cases h1 : grpLog k (World.run key ord (w.step key ord e).1 r).2 = []
    · right
      intro st1 hs1
      apply step_Ex key ord k w e st1 hs1
      rcases hor with hor | hor
      · left
        intro h0
        rw [h0, h1] at hor
        exact hor rfl
      · exact Or.inr hor
    · exact Or.inl h1

end GroupBy
end Rx
