import RxModel.Lemmas.ChainWFStage
/-
  C01 over the chain model, part 4: the world invariant.

  `WInv r w`: there is a ghost history `up` of what the source has handed to
  stage 0 such that `Chain up w.stages w.log` and `SrcOK r w up`:
  `up` is well formed and the source cannot break it later.  The source side
  is protected by the *critical* tasks (the subscribing task of subscribe_on /
  delay_subscription and the tasks of timer / from_future / from_stream): at most
  one of them is live, apart from the task `r` that is running right now.

  `Quiet w w'`: a move that does not involve the source: same source fields,
  the scheduler only extended by benign tasks, `Chain` kept for every `up`.
-/
namespace Rx.T
open Rx Rx.Spec

def Body.critical : Body → Bool
  | .subscribe _ => true
  | .timerSrc _ => true
  | .futureSrc => true
  | .streamSrc => true
  | _ => false

def Body.isSub : Body → Bool
  | .subscribe _ => true
  | _ => false

/-- The bodies that feed stage 0 only exist over the matching source. -/
def Body.okFor (src : TSrc) : Body → Prop
  | .tick => ∃ d p, src = .interval d p
  | .timerSrc _ => ∃ v d, src = .timer v d
  | .futureSrc => ∃ r sc, src = .future r sc
  | .streamSrc => ∃ r sc c, src = .stream r sc c
  | _ => True

theorem Body.okFor_of_benign (src : TSrc) (b : Body) (h : b.benign = true) : b.okFor src := by
  cases b <;> first | trivial | (simp [Body.benign] at h)

theorem Body.benign_of_critical {b : Body} (h : b.critical = true) : b.benign = false := by
  cases b <;> first | rfl | (simp [Body.critical] at h)

theorem Body.critical_of_isSub {b : Body} (h : b.isSub = true) : b.critical = true := by
  cases b <;> first | rfl | (simp [Body.isSub] at h)

structure SrcOK (r : Option TaskId) (w : TW) (up : List Notif) : Prop where
  wf : WF up
  bodies : ∀ t ∈ w.sched.tasks, t.body.okFor w.src
  uniq : ∀ k1 b1 k2 b2, w.sched.Live k1 b1 → b1.critical = true → w.sched.Live k2 b2 →
    b2.critical = true → k1 = k2 ∨ some k1 = r ∨ some k2 = r
  unsubd : w.subscribed = false →
    w.srcSubscribed = false ∧ ∀ k b, w.sched.Live k b → b.critical = false
  nosrc : w.srcSubscribed = false →
    terminated up = false ∧ ∀ k b, w.sched.Live k b → b.critical = true → b.isSub = true
  subd : w.srcSubscribed = true → ∀ k b, w.sched.Live k b → b.isSub = true → some k = r
  term : terminated up = true → ∀ k b, w.sched.Live k b → b.critical = true → some k = r
  hot : ∀ i, w.src = .hot i → terminated up = true → i ∈ w.terminated
  interval : ∀ d p, w.src = .interval d p → terminated up = false

/-- All live critical tasks are the running one. -/
def Only (r : Option TaskId) (w : TW) : Prop :=
  ∀ k b, w.sched.Live k b → b.critical = true → some k = r

def WInvU (r : Option TaskId) (w : TW) (up : List Notif) : Prop :=
  Chain up w.stages w.log ∧ SrcOK r w up

def WInv (r : Option TaskId) (w : TW) : Prop := ∃ up, WInvU r w up

/-- Moves that start no critical task. -/
theorem SrcOK.frame' {r : Option TaskId} {w w' : TW} {up : List Notif} (h : SrcOK r w up)
    (hsrc : w'.src = w.src) (hss : w'.srcSubscribed = w.srcSubscribed)
    (hsub : w'.subscribed = w.subscribed) (hterm : ∀ i, i ∈ w.terminated → i ∈ w'.terminated)
    (back : ∀ {k b}, w'.sched.Live k b → b.critical = true → w.sched.Live k b)
    (bod : ∀ t ∈ w'.sched.tasks, t.body.okFor w.src) : SrcOK r w' up := by
  refine ⟨h.wf, ?_, ?_, ?_, ?_, ?_, ?_, ?_, ?_⟩
  · rw [hsrc]; exact bod
  · intro k1 b1 k2 b2 l1 c1 l2 c2; exact h.uniq k1 b1 k2 b2 (back l1 c1) c1 (back l2 c2) c2
  · intro hs
    rw [hsub] at hs
    refine ⟨by rw [hss]; exact (h.unsubd hs).1, fun k b hl => ?_⟩
    cases hc : b.critical with
    | false => rfl
    | true => rw [← hc]; exact (h.unsubd hs).2 k b (back hl hc)
  · intro hs
    rw [hss] at hs
    exact ⟨(h.nosrc hs).1, fun k b hl hc => (h.nosrc hs).2 k b (back hl hc) hc⟩
  · intro hs k b hl hb
    rw [hss] at hs
    exact h.subd hs k b (back hl (Body.critical_of_isSub hb)) hb
  · intro ht k b hl hc; exact h.term ht k b (back hl hc) hc
  · intro i hi ht; rw [hsrc] at hi; exact hterm i (h.hot i hi ht)
  · intro d p hi; rw [hsrc] at hi; exact h.interval d p hi

theorem SrcOK.frame {r : Option TaskId} {w w' : TW} {up : List Notif} (h : SrcOK r w up)
    (hsrc : w'.src = w.src) (hss : w'.srcSubscribed = w.srcSubscribed)
    (hsub : w'.subscribed = w.subscribed) (hterm : ∀ i, i ∈ w.terminated → i ∈ w'.terminated)
    (hle : w.sched.Le w'.sched) : SrcOK r w' up :=
  h.frame' hsrc hss hsub hterm (fun hl hc => hle.live hl (Body.benign_of_critical hc))
    (hle.body (fun b hb => Body.okFor_of_benign _ b hb) h.bodies)

structure Quiet (w w' : TW) : Prop where
  src : w'.src = w.src
  srcSubscribed : w'.srcSubscribed = w.srcSubscribed
  subscribed : w'.subscribed = w.subscribed
  term : ∀ i, i ∈ w.terminated → i ∈ w'.terminated
  sched : w.sched.Ext w'.sched
  chain : ∀ up, Chain up w.stages w.log → Chain up w'.stages w'.log

theorem Quiet.refl (w : TW) : Quiet w w :=
  ⟨rfl, rfl, rfl, fun _ h => h, Sched.Ext.refl _, fun _ h => h⟩

theorem Quiet.trans {a b c : TW} (h1 : Quiet a b) (h2 : Quiet b c) : Quiet a c :=
  ⟨h2.src.trans h1.src, h2.srcSubscribed.trans h1.srcSubscribed, h2.subscribed.trans h1.subscribed,
    fun i h => h2.term i (h1.term i h), h1.sched.trans h2.sched, fun up h => h2.chain up (h1.chain up h)⟩

theorem Quiet.invU {r : Option TaskId} {w w' : TW} {up : List Notif} (q : Quiet w w')
    (h : WInvU r w up) : WInvU r w' up :=
  ⟨q.chain up h.1, h.2.frame q.src q.srcSubscribed q.subscribed q.term q.sched.le⟩

theorem Quiet.inv {r : Option TaskId} {w w' : TW} (q : Quiet w w') (h : WInv r w) : WInv r w' := by
  obtain ⟨up, h⟩ := h
  exact ⟨up, q.invU h⟩

theorem Quiet.only {r : Option TaskId} {w w' : TW} (q : Quiet w w') (h : Only r w) : Only r w' :=
  fun k b hl hc => h k b (q.sched.le.live hl (Body.benign_of_critical hc)) hc

/-- A scheduler-only move. -/
theorem Quiet.ofSched (w : TW) (s' : Sched) (h : w.sched.Ext s') : Quiet w { w with sched := s' } :=
  ⟨rfl, rfl, rfl, fun _ h => h, h, fun _ h => h⟩

theorem WInv.le {r : Option TaskId} {w : TW} (h : WInv r w) (s' : Sched) (hle : w.sched.Le s') :
    WInv r { w with sched := s' } := by
  obtain ⟨up, hc, hs⟩ := h
  exact ⟨up, hc, hs.frame rfl rfl rfl (fun _ h => h) hle⟩

theorem Only.le {r : Option TaskId} {w : TW} (h : Only r w) (s' : Sched) (hle : w.sched.Le s') :
    Only r { w with sched := s' } :=
  fun k b hl hc => h k b (hle.live hl (Body.benign_of_critical hc)) hc

/-! ### push -/
theorem take_succ_set {α} (l : List α) (j : Nat) (x : α) (h : j < l.length) :
    (l.set j x).take (j + 1) = l.take j ++ [x] := by
  induction l generalizing j with
  | nil => simp at h
  | cons a l ih =>
    cases j with
    | zero => simp
    | succ j => simpa using ih j (by simpa using h)

namespace TW

theorem push_eq (w : TW) (j : Nat) (ns : List Notif) :
    w.push j ns = { w with
      stages := w.stages.take j ++ (cascade (w.stages.drop j) j ns w.sched).1,
      sched := (cascade (w.stages.drop j) j ns w.sched).2.2,
      log := w.log ++ (cascade (w.stages.drop j) j ns w.sched).2.1 } := rfl

@[simp] theorem push_src (w : TW) (j ns) : (w.push j ns).src = w.src := rfl
@[simp] theorem push_srcSubscribed (w : TW) (j ns) : (w.push j ns).srcSubscribed = w.srcSubscribed := rfl
@[simp] theorem push_subscribed (w : TW) (j ns) : (w.push j ns).subscribed = w.subscribed := rfl
@[simp] theorem push_terminated (w : TW) (j ns) : (w.push j ns).terminated = w.terminated := rfl
@[simp] theorem push_srcRest (w : TW) (j ns) : (w.push j ns).srcRest = w.srcRest := rfl

theorem push_ext (w : TW) (j : Nat) (ns : List Notif) : w.sched.Ext (w.push j ns).sched :=
  (cascade_ok (w.stages.drop j) j ns w.sched).1

/-- The source hands `ns` to stage 0. -/
theorem push_zero_chain (w : TW) (ns : List Notif) (up : List Notif)
    (h : Chain up w.stages w.log) : Chain (up ++ ns) (w.push 0 ns).stages (w.push 0 ns).log := by
  have := (cascade_ok (w.stages.drop 0) 0 ns w.sched).2 up w.log (by simpa using h)
  simpa [push_eq] using this

theorem setStage_stages (w : TW) (j : Nat) (st : Stage) : (w.setStage j st).stages = w.stages.set j st := rfl

/-- Stage `j` changes its state to `st'` and emits `ns`. -/
theorem push_quiet (w : TW) (j : Nat) (st st' : Stage) (ns : List Notif)
    (hj : w.stages[j]? = some st) (hok : ∀ inp out, st.OK inp out → st'.OK inp (out ++ ns)) :
    Quiet w ((w.setStage j st').push (j + 1) ns) := by
  have hlt : j < w.stages.length := Sched.get_lt hj
  refine ⟨rfl, rfl, rfl, fun _ h => h, ?_, ?_⟩
  · exact push_ext (w.setStage j st') (j + 1) ns
  · intro up h
    have hd : (w.stages.set j st').drop (j + 1) = w.stages.drop (j + 1) := by
      rw [List.drop_set]; simp
    have ht : (w.stages.set j st').take (j + 1) = w.stages.take j ++ [st'] :=
      take_succ_set _ j st' hlt
    have key := Chain.modify (st' := st') (ns := ns)
      (post' := (cascade (w.stages.drop (j + 1)) (j + 1) ns w.sched).1)
      (log' := w.log ++ (cascade (w.stages.drop (j + 1)) (j + 1) ns w.sched).2.1)
      h hj hok (fun out hc => (cascade_ok _ (j + 1) ns w.sched).2 out w.log hc)
    rw [push_eq]
    simp only [setStage_stages, hd, ht, List.append_assoc, List.singleton_append]
    exact key

theorem setStage_same (w : TW) (j : Nat) (st : Stage) (hj : w.stages[j]? = some st) :
    w.setStage j st = w := by
  have hlt : j < w.stages.length := Sched.get_lt hj
  have : w.stages.set j st = w.stages := by
    rw [List.getElem?_eq_getElem hlt] at hj
    have := Option.some.inj hj
    rw [← this]; exact List.set_getElem_self hlt
  cases w
  simp only [setStage] at *
  rw [this]

/-- Stage `j` emits `ns` without changing its state. -/
theorem push_quiet_same (w : TW) (j : Nat) (st : Stage) (ns : List Notif)
    (hj : w.stages[j]? = some st) (hok : ∀ inp out, st.OK inp out → st.OK inp (out ++ ns)) :
    Quiet w (w.push (j + 1) ns) := by
  have := push_quiet w j st st ns hj hok
  rwa [setStage_same w j st hj] at this

/-- Stage `j` changes its state silently. -/
theorem setStage_quiet (w : TW) (j : Nat) (st st' : Stage)
    (hj : w.stages[j]? = some st) (hok : ∀ inp out, st.OK inp out → st'.OK inp out) :
    Quiet w (w.setStage j st') := by
  have hlt : j < w.stages.length := Sched.get_lt hj
  refine ⟨rfl, rfl, rfl, fun _ h => h, Sched.Ext.refl _, ?_⟩
  intro up h
  have key := Chain.modify (st' := st') (ns := []) (post' := w.stages.drop (j + 1)) (log' := w.log)
    h hj (fun inp out ho => by simpa using hok inp out ho) (fun out hc => by simpa using hc)
  have e : w.stages.set j st' = w.stages.take j ++ st' :: w.stages.drop (j + 1) := by
    rw [List.set_eq_take_append_cons_drop, if_pos hlt]
  rw [setStage_stages, e]
  exact key

end TW
end Rx.T
