import RxModel.Lemmas.ChainRetireDefs
import RxModel.Lemmas.SchedStep
import RxModel.Lemmas.ChainWFWorld
/-
  C16 over the chain model, part 2: the scheduler side.

  * `Prim` / `BE`: what the BODY of a task (and `sub`, `emit`, `unsub`) may do
    to the scheduler: spawn a once-task, spawn a repeating task, cancel a
    handle — nothing else.  `BE` is the reflexive-transitive closure; every
    scheduler invariant only has to be checked against the three primitives.
    The flag `a` says whether source-level bodies (`tick`, `timerSrc`,
    `futureSrc`, `streamSrc`) may be spawned.
  * `SInvX src x s`: the invariant behind "a repeating task whose timer has
    expired gets polled": every RepeatTask `k` owns its period timer, and (unless
    it is the task `x` that is running right now) it is either marked ready or
    its unfired timer holds its waker; timers are never due later than
    `now + dur`; an unfired timer owned by a RepeatTask is its current one.
-/
namespace Rx.T
open Rx

/-- Bodies of the source's own tasks. -/
def Body.isSrc : Body → Bool
  | .tick => true
  | .timerSrc _ => true
  | .futureSrc => true
  | .streamSrc => true
  | _ => false

inductive Prim (src : TSrc) (a : Bool) : Sched → Sched → Prop
  | once (s : Sched) (b : Body) (d : Option Nat) (hb : b.okFor src)
      (hd : b.isAsync = true → d = none) (ha : b.isSrc = true → a = true) (ht : b ≠ .tick) :
      Prim src a s (s.scheduleOnce b d).1
  | rep (s : Sched) (b : Body) (p f : Nat) (hb : b.okFor src) (hn : b.isAsync = false)
      (hB : b = .tick → p ≤ src.bound ∧ f ≤ src.bound) (ha : b.isSrc = true → a = true) :
      Prim src a s (s.scheduleRepeat b p none f).1
  | cancel (s : Sched) (h : TaskId) : Prim src a s (s.cancel h)

inductive BE (src : TSrc) (a : Bool) : Sched → Sched → Prop
  | refl (s : Sched) : BE src a s s
  | step {s s1 s2 : Sched} : BE src a s s1 → Prim src a s1 s2 → BE src a s s2

theorem BE.trans {src a} {s1 s2 s3 : Sched} (h1 : BE src a s1 s2) (h2 : BE src a s2 s3) :
    BE src a s1 s3 := by
  induction h2 with
  | refl => exact h1
  | step _ p ih => exact BE.step ih p

theorem BE.of_prim {src a} {s s' : Sched} (p : Prim src a s s') : BE src a s s' :=
  BE.step (BE.refl s) p

theorem Prim.mono {src a} {s s' : Sched} (p : Prim src a s s') : Prim src true s s' := by
  cases p with
  | once b d hb hd _ ht => exact .once s b d hb hd (fun _ => rfl) ht
  | rep b p f hb hn hB _ => exact .rep s b p f hb hn hB (fun _ => rfl)
  | cancel h => exact .cancel s h

theorem BE.mono {src a} {s s' : Sched} (h : BE src a s s') : BE src true s s' := by
  induction h with
  | refl => exact BE.refl _
  | step _ p ih => exact BE.step ih p.mono

theorem BE.once {src a} (s : Sched) (b : Body) (d : Option Nat) (hb : b.okFor src)
    (hd : b.isAsync = true → d = none) (ha : b.isSrc = true → a = true)
    (ht : b ≠ .tick := by intro h; cases h) :
    BE src a s (s.scheduleOnce b d).1 := BE.of_prim (.once s b d hb hd ha ht)

theorem BE.cancel {src a} (s : Sched) (h : TaskId) : BE src a s (s.cancel h) :=
  BE.of_prim (.cancel s h)

theorem BE.cancelOpt {src a} (s : Sched) (o : Option TaskId) :
    BE src a s (match o with | some h => s.cancel h | none => s) := by
  cases o with
  | none => exact BE.refl _
  | some h => exact BE.cancel s h

theorem BE.cancelAll {src a} (l : List TaskId) : ∀ s : Sched, BE src a s (l.foldl Sched.cancel s) := by
  induction l with
  | nil => intro s; exact BE.refl _
  | cons h r ih => intro s; exact (BE.cancel s h).trans (ih _)

/-! ### what a body cannot touch -/

/-- Old tasks keep everything but `keepRunning` / `hasValue`; timers are only
    appended; the clock stands still; no source-level task is spawned unless allowed. -/
structure Frame (a : Bool) (s s' : Sched) : Prop where
  now : s'.now = s.now
  timers : ∃ new, s'.timers = s.timers ++ new
  tasks : ∀ (k : Nat) (t : Task), s.tasks[k]? = some t →
    ∃ t' : Task, s'.tasks[k]? = some t' ∧ t'.body = t.body ∧ t'.done = t.done ∧ t'.woken = t.woken ∧
      t'.rep = t.rep ∧ t'.outerDelay = t.outerDelay ∧ t'.outerTimer = t.outerTimer
  fresh : ∀ (k : Nat) (t' : Task), s'.tasks[k]? = some t' → s.tasks[k]? = none → t'.body.isSrc = true → a = true
  len : s.tasks.length ≤ s'.tasks.length
  newT : ∀ (i : Nat) (tm' : Timer), s'.timers[i]? = some tm' → s.timers.length ≤ i → s.tasks.length ≤ tm'.owner

theorem Frame.refl (a : Bool) (s : Sched) : Frame a s s :=
  ⟨rfl, ⟨[], by simp⟩, fun _ t h => ⟨t, h, rfl, rfl, rfl, rfl, rfl, rfl⟩,
    fun k t' h hn => (by rw [h] at hn; cases hn), Nat.le_refl _,
    fun i tm' h hi => absurd (Sched.get_lt h) (Nat.not_lt.mpr hi)⟩

theorem Frame.trans {a : Bool} {s1 s2 s3 : Sched} (h1 : Frame a s1 s2) (h2 : Frame a s2 s3) :
    Frame a s1 s3 := by
  refine ⟨h2.now.trans h1.now, ?_, ?_, ?_, Nat.le_trans h1.len h2.len, ?_⟩
  rotate_left 3
  · intro i tm' h3 hi
    obtain ⟨n2, e2⟩ := h2.timers
    by_cases hl : i < s2.timers.length
    · have : s2.timers[i]? = some tm' := by
        rw [e2, List.getElem?_append_left hl] at h3; exact h3
      exact h1.newT i tm' this hi
    · exact Nat.le_trans h1.len (h2.newT i tm' h3 (Nat.le_of_not_lt hl))
  · obtain ⟨n1, e1⟩ := h1.timers
    obtain ⟨n2, e2⟩ := h2.timers
    exact ⟨n1 ++ n2, by rw [e2, e1, List.append_assoc]⟩
  · intro k t h
    obtain ⟨t', h', b1, d1, w1, r1, o1, p1⟩ := h1.tasks k t h
    obtain ⟨t'', h'', b2, d2, w2, r2, o2, p2⟩ := h2.tasks k t' h'
    exact ⟨t'', h'', b2.trans b1, d2.trans d1, w2.trans w1, r2.trans r1, o2.trans o1, p2.trans p1⟩
  · intro k t'' h'' hn hb
    cases h2k : s2.tasks[k]? with
    | none => exact h2.fresh k t'' h'' h2k hb
    | some t' =>
      obtain ⟨t2, ht2, b2, _⟩ := h2.tasks k t' h2k
      rw [h''] at ht2; cases ht2
      exact h1.fresh k t' h2k hn (by rw [← b2]; exact hb)

theorem get?_append_single {α} (l : List α) (x : α) (k : Nat) (t : α) (h : (l ++ [x])[k]? = some t) :
    l[k]? = some t ∨ (k = l.length ∧ t = x) := by
  by_cases hk : k < l.length
  · left; rwa [List.getElem?_append_left hk] at h
  · right
    rw [List.getElem?_append_right (Nat.le_of_not_lt hk)] at h
    have : k - l.length = 0 := by
      cases e : k - l.length with
      | zero => rfl
      | succ m => rw [e] at h; simp at h
    rw [this] at h
    simp only [List.getElem?_cons_zero, Option.some.injEq] at h
    exact ⟨by omega, h.symm⟩

theorem get?_append_old {α} (l new : List α) {k : Nat} {t : α} (h : l[k]? = some t) :
    (l ++ new)[k]? = some t := by
  rw [List.getElem?_append_left (Sched.get_lt h)]; exact h

theorem get?_none_of_ge {α} (l : List α) (k : Nat) (h : l.length ≤ k) : l[k]? = none :=
  List.getElem?_eq_none h

theorem Prim.frame {src a} {s s' : Sched} (p : Prim src a s s') : Frame a s s' := by
  cases p with
  | once b d hb hd ha _ =>
    refine ⟨rfl, ⟨[], by simp [Sched.scheduleOnce]⟩, ?_, ?_, by simp [Sched.scheduleOnce],
      fun i tm' h hi => absurd (Sched.get_lt h) (Nat.not_lt.mpr hi)⟩
    · intro k t h
      exact ⟨t, get?_append_old _ _ h, rfl, rfl, rfl, rfl, rfl, rfl⟩
    · intro k t' h' hn hsrc
      rcases get?_append_single _ _ _ _ h' with h1 | ⟨_, rfl⟩
      · rw [h1] at hn; cases hn
      · exact ha hsrc
  | rep b p f hb hn hB ha =>
    refine ⟨rfl, ⟨[_], rfl⟩, ?_, ?_, by simp [Sched.scheduleRepeat, Sched.newTimer], ?_⟩
    rotate_left 2
    · intro i tm' h hi
      rcases get?_append_single _ _ _ _ h with h1 | ⟨_, rfl⟩
      · exact absurd (Sched.get_lt h1) (Nat.not_lt.mpr hi)
      · exact Nat.le_refl _
    · intro k t h
      exact ⟨t, get?_append_old _ _ h, rfl, rfl, rfl, rfl, rfl, rfl⟩
    · intro k t' h' hnn hsrc
      rcases get?_append_single _ _ _ _ h' with h1 | ⟨_, rfl⟩
      · have h1' : s.tasks[k]? = some t' := h1
        rw [h1'] at hnn; cases hnn
      · exact ha hsrc
  | cancel h =>
    have htm : (s.cancel h).timers = s.timers := by
      unfold Sched.cancel; split <;> simp [Sched.setTask]
    refine ⟨Sched.cancel_now s h, ⟨[], ?_⟩, ?_, ?_, by simp,
      fun i tm' h' hi => absurd (Sched.get_lt h') (by rw [htm]; exact Nat.not_lt.mpr hi)⟩
    · rw [htm]; simp
    · intro k t ht
      by_cases e : k = h
      · subst e
        exact ⟨_, Sched.cancel_get_self s k t ht, rfl, rfl, rfl, rfl, rfl, rfl⟩
      · exact ⟨t, by rw [Sched.cancel_get_ne s h k e]; exact ht, rfl, rfl, rfl, rfl, rfl, rfl⟩
    · intro k t' h' hn
      have : k < s.tasks.length := by
        have := Sched.get_lt h'; simpa using this
      exact absurd (List.getElem?_eq_none_iff.mp hn) (by omega)

theorem BE.frame {src a} {s s' : Sched} (h : BE src a s s') : Frame a s s' := by
  induction h with
  | refl => exact Frame.refl _ _
  | step _ p ih => exact ih.trans p.frame

theorem Frame.timer_old {a} {s s' : Sched} (f : Frame a s s') {i : Nat} {tm : Timer}
    (h : s.timers[i]? = some tm) : s'.timers[i]? = some tm := by
  obtain ⟨new, e⟩ := f.timers
  rw [e]; exact get?_append_old _ _ h

theorem Frame.timerFired {a} {s s' : Sched} (f : Frame a s s') {i : Nat}
    (h : s.timerFired i = true) : s'.timerFired i = true := by
  unfold Sched.timerFired at h ⊢
  cases ht : s.timers[i]? with
  | none => rw [ht] at h; cases h
  | some tm => rw [f.timer_old ht]; rw [ht] at h; exact h

/-! ### the invariant -/

structure SInvX (src : TSrc) (x : Option TaskId) (s : Sched) : Prop where
  bodies : ∀ (k : Nat) (t : Task), s.tasks[k]? = some t → t.body.okFor src
  rep : ∀ (k : Nat) (t : Task) (fur iv seq : Nat), s.tasks[k]? = some t → t.rep = some (fur, iv, seq) →
    t.outerDelay = none ∧ t.outerTimer = none ∧ ∃ tm : Timer, s.timers[fur]? = some tm ∧ tm.owner = k ∧
      (t.done = false → x ≠ some k → t.woken = true ∨ (tm.registered = true ∧ tm.fired = false)) ∧
      (t.body = .tick → iv ≤ src.bound ∧ tm.dur ≤ src.bound)
  due : ∀ (i : Nat) (tm : Timer), s.timers[i]? = some tm → tm.due ≤ s.now + tm.dur
  cur : ∀ (i : Nat) (tm : Timer) (t : Task) (fur iv seq : Nat), s.timers[i]? = some tm → tm.fired = false →
    s.tasks[tm.owner]? = some t → t.rep = some (fur, iv, seq) → i = fur
  own : ∀ (i : Nat) (tm : Timer), s.timers[i]? = some tm → tm.owner < s.tasks.length
  async : ∀ (k : Nat) (t : Task), s.tasks[k]? = some t → t.body.isAsync = true →
    t.rep = none ∧ t.outerDelay = none ∧ t.outerTimer = none
  tickRep : ∀ (k : Nat) (t : Task), s.tasks[k]? = some t → t.body = .tick → t.rep ≠ none

theorem SInvX.weaken {src x s} (h : SInvX src none s) : SInvX src x s :=
  { h with
    rep := fun k t fur iv seq hk hr => by
      obtain ⟨a, b, tm, c, d, e, f⟩ := h.rep k t fur iv seq hk hr
      exact ⟨a, b, tm, c, d, fun hd _ => e hd (by simp), f⟩ }

theorem SInvX.init (src : TSrc) : SInvX src none {} :=
  ⟨fun k t h => by simp at h, fun k t _ _ _ h => by simp at h, fun i tm h => by simp at h,
   fun i tm _ _ _ _ h => by simp at h, fun i tm h => by simp at h, fun k t h => by simp at h,
   fun k t h => by simp at h⟩

/-- Replace task `k` by a task with the same body and RepeatTask state. -/
theorem SInvX.setTask {src x x'} {s : Sched} (h : SInvX src x s) {k : TaskId} {t t' : Task}
    (hk : s.tasks[k]? = some t) (hb : t'.body = t.body) (hr : t'.rep = t.rep)
    (hod : (t.rep ≠ none ∨ t.body.isAsync = true) → t.outerDelay = none → t'.outerDelay = none)
    (hot : (t.rep ≠ none ∨ t.body.isAsync = true) → t.outerTimer = none → t'.outerTimer = none)
    (hx : ∀ j, j ≠ k → x' ≠ some j → x ≠ some j)
    (hw : ∀ fur iv seq tm, t.rep = some (fur, iv, seq) → s.timers[fur]? = some tm → t'.done = false →
      x' ≠ some k → t'.woken = true ∨ (tm.registered = true ∧ tm.fired = false)) :
    SInvX src x' (s.setTask k t') := by
  have get : ∀ j u, (s.setTask k t').tasks[j]? = some u →
      (j = k ∧ u = t') ∨ (j ≠ k ∧ s.tasks[j]? = some u) := by
    intro j u hu
    by_cases e : j = k
    · subst e; rw [Sched.setTask_get_self _ _ _ _ hk] at hu; cases hu; exact Or.inl ⟨rfl, rfl⟩
    · rw [Sched.setTask_get_ne _ _ _ _ e] at hu; exact Or.inr ⟨e, hu⟩
  refine ⟨?_, ?_, ?_, ?_, ?_, ?_, ?_⟩
  rotate_left 6
  · intro j u hu hbt
    rcases get j u hu with ⟨rfl, rfl⟩ | ⟨_, h'⟩
    · rw [hr]; exact h.tickRep _ t hk (hb ▸ hbt)
    · exact h.tickRep j u h' hbt
  · intro j u hu
    rcases get j u hu with ⟨rfl, rfl⟩ | ⟨_, h'⟩
    · rw [hb]; exact h.bodies _ t hk
    · exact h.bodies j u h'
  · intro j u fur iv seq hu hrep
    rcases get j u hu with ⟨rfl, rfl⟩ | ⟨hne, h'⟩
    · rw [hr] at hrep
      obtain ⟨a, b, tm, c, d, _, f⟩ := h.rep _ t fur iv seq hk hrep
      have hsp : t.rep ≠ none ∨ t.body.isAsync = true := Or.inl (by rw [hrep]; simp)
      refine ⟨hod hsp a, hot hsp b, tm, c, d, fun hd hxx => hw fur iv seq tm hrep c hd hxx, ?_⟩
      rw [hb]; exact f
    · obtain ⟨a, b, tm, c, d, e, f⟩ := h.rep j u fur iv seq h' hrep
      exact ⟨a, b, tm, c, d, fun hd hxx => e hd (hx j hne hxx), f⟩
  · exact h.due
  · intro i tm u fur iv seq hi hf hu hrep
    rcases get _ u hu with ⟨e, rfl⟩ | ⟨_, h'⟩
    · rw [hr] at hrep; exact h.cur i tm t fur iv seq hi hf (by rw [e]; exact hk) hrep
    · exact h.cur i tm u fur iv seq hi hf h' hrep
  · intro i tm hi; simpa using h.own i tm hi
  · intro j u hu ha
    rcases get j u hu with ⟨rfl, rfl⟩ | ⟨_, h'⟩
    · rw [hb] at ha
      obtain ⟨a, b, c⟩ := h.async _ t hk ha
      exact ⟨hr.trans a, hod (Or.inr ha) b, hot (Or.inr ha) c⟩
    · exact h.async j u h' ha

theorem SInvX.cancel {src x} {s : Sched} (h : SInvX src x s) (k : TaskId) : SInvX src x (s.cancel k) := by
  unfold Sched.cancel
  cases hk : s.tasks[k]? with
  | none => exact h
  | some t =>
    refine h.setTask hk rfl rfl (fun _ => id) (fun _ => id) (fun _ _ hh => hh) ?_
    intro fur iv seq tm hrep htm hd hxx
    obtain ⟨_, _, tm', c, _, e, _⟩ := h.rep k t fur iv seq hk hrep
    rw [htm] at c; cases c
    exact e hd hxx

theorem SInvX.once {src x} {s : Sched} (h : SInvX src x s) (b : Body) (d : Option Nat)
    (hb : b.okFor src) (hd : b.isAsync = true → d = none) (ht : b ≠ .tick) :
    SInvX src x (s.scheduleOnce b d).1 := by
  have get : ∀ j u, (s.scheduleOnce b d).1.tasks[j]? = some u →
      s.tasks[j]? = some u ∨ (j = s.tasks.length ∧ u = { body := b, outerDelay := d }) :=
    fun j u hu => get?_append_single _ _ _ _ hu
  refine ⟨?_, ?_, ?_, ?_, ?_, ?_, ?_⟩
  rotate_left 6
  · intro j u hu hbt
    rcases get j u hu with h' | ⟨_, rfl⟩
    · exact h.tickRep j u h' hbt
    · exact absurd hbt ht
  · intro j u hu
    rcases get j u hu with h' | ⟨_, rfl⟩
    · exact h.bodies j u h'
    · exact hb
  · intro j u fur iv seq hu hrep
    rcases get j u hu with h' | ⟨_, rfl⟩
    · exact h.rep j u fur iv seq h' hrep
    · cases hrep
  · exact h.due
  · intro i tm u fur iv seq hi hf hu hrep
    rcases get _ u hu with h' | ⟨e, rfl⟩
    · exact h.cur i tm u fur iv seq hi hf h' hrep
    · cases hrep
  · intro i tm hi
    have := h.own i tm hi
    show tm.owner < (s.tasks ++ [_]).length
    simp only [List.length_append, List.length_cons, List.length_nil]
    exact Nat.lt_add_right _ this
  · intro j u hu ha
    rcases get j u hu with h' | ⟨_, rfl⟩
    · exact h.async j u h' ha
    · exact ⟨rfl, hd ha, rfl⟩

theorem SInvX.rep' {src x} {s : Sched} (h : SInvX src x s) (b : Body) (p f : Nat)
    (hb : b.okFor src) (hn : b.isAsync = false) (hB : b = .tick → p ≤ src.bound ∧ f ≤ src.bound) :
    SInvX src x (s.scheduleRepeat b p none f).1 := by
  let t0 : Task := { body := b, outerDelay := none, rep := some (s.timers.length, p, 0) }
  let tm0 : Timer := { dur := f, due := s.now + f, owner := s.tasks.length }
  have htasks : (s.scheduleRepeat b p none f).1.tasks = s.tasks ++ [t0] := rfl
  have htimers : (s.scheduleRepeat b p none f).1.timers = s.timers ++ [tm0] := rfl
  have hnow : (s.scheduleRepeat b p none f).1.now = s.now := rfl
  have get : ∀ j u, (s.scheduleRepeat b p none f).1.tasks[j]? = some u →
      s.tasks[j]? = some u ∨ (j = s.tasks.length ∧ u = t0) :=
    fun j u hu => get?_append_single _ _ _ _ (by rw [← htasks]; exact hu)
  have gett : ∀ i tm, (s.scheduleRepeat b p none f).1.timers[i]? = some tm →
      s.timers[i]? = some tm ∨ (i = s.timers.length ∧ tm = tm0) :=
    fun i tm hi => get?_append_single _ _ _ _ (by rw [← htimers]; exact hi)
  refine ⟨?_, ?_, ?_, ?_, ?_, ?_, ?_⟩
  rotate_left 6
  · intro j u hu hbt
    rcases get j u hu with h' | ⟨_, rfl⟩
    · exact h.tickRep j u h' hbt
    · simp [t0]
  · intro j u hu
    rcases get j u hu with h' | ⟨_, rfl⟩
    · exact h.bodies j u h'
    · exact hb
  · intro j u fur iv seq hu hrep
    rcases get j u hu with h' | ⟨e, rfl⟩
    · obtain ⟨a, b', tm, c, d, e, g⟩ := h.rep j u fur iv seq h' hrep
      exact ⟨a, b', tm, by rw [htimers]; exact get?_append_old _ _ c, d, e, g⟩
    · simp only [t0, Option.some.injEq, Prod.mk.injEq] at hrep
      obtain ⟨rfl, rfl, rfl⟩ := hrep
      refine ⟨rfl, rfl, tm0, by rw [htimers]; simp, e.symm, fun _ _ => Or.inl rfl, ?_⟩
      intro hbt; exact hB hbt
  · intro i tm hi
    rw [hnow]
    rcases gett i tm hi with h' | ⟨_, rfl⟩
    · exact h.due i tm h'
    · exact Nat.le_refl _
  · intro i tm u fur iv seq hi hf hu hrep
    rcases gett i tm hi with h' | ⟨e, rfl⟩
    · have ho := h.own i tm h'
      rcases get _ u hu with h'' | ⟨e', _⟩
      · exact h.cur i tm u fur iv seq h' hf h'' hrep
      · exact absurd e' (Nat.ne_of_lt ho)
    · rcases get _ u hu with h'' | ⟨_, rfl⟩
      · have := Sched.get_lt h''
        simp only [tm0] at this; omega
      · simp only [t0, Option.some.injEq, Prod.mk.injEq] at hrep
        rw [e]; exact hrep.1
  · intro i tm hi
    rw [htasks]
    simp only [List.length_append, List.length_cons, List.length_nil]
    rcases gett i tm hi with h' | ⟨_, rfl⟩
    · exact Nat.lt_add_right _ (h.own i tm h')
    · exact Nat.lt_succ_self _
  · intro j u hu ha
    rcases get j u hu with h' | ⟨_, rfl⟩
    · exact h.async j u h' ha
    · simp only [t0] at ha; rw [hn] at ha; cases ha

theorem SInvX.prim {src a x} {s s' : Sched} (h : SInvX src x s) (p : Prim src a s s') : SInvX src x s' := by
  cases p with
  | once b d hb hd _ ht => exact h.once b d hb hd ht
  | rep b p f hb hn hB _ => exact h.rep' b p f hb hn hB
  | cancel k => exact h.cancel k

theorem SInvX.be {src a x} {s s' : Sched} (h : SInvX src x s) (b : BE src a s s') : SInvX src x s' := by
  induction b with
  | refl => exact h
  | step _ p ih => exact ih.prim p

end Rx.T
