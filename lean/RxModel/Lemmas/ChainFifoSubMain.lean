import RxModel.Lemmas.ChainFifoSubPoll
/-
  C07 over chains with several time stages, part 6: the world invariant over the
  FIFO events, the first `sub`, and the final extraction.

  `WInvF kd sf w`: the world `hot 0 → stages → probe` has been subscribed, `sf` is what
  subject 0 has emitted so far (once it has emitted a terminal it is in
  `w.terminated`), and `DynF` holds w.r.t. the items of `gate sf`.
-/
namespace Rx.T
open Rx Rx.Spec

variable {kd : Nat → Option (Option Nat)} {E E' : List Val}

/-! ### `DynF` under the moves of the source and the clock -/

theorem DynF.weaken {w : TW} (D : DynF kd E w) (h : E.Sublist E') : DynF kd E' w := by
  obtain ⟨up, hup, hch⟩ := D.chain
  exact ⟨D.good, D.kinds, D.disc, up, hup.trans h, hch⟩

theorem Frame.classify {j0 : Nat} {s s' : Sched} (f : Frame kd j0 s s') {k : Nat} {t' : Task}
    (hk : s'.tasks[k]? = some t') :
    (∃ t0, s.tasks[k]? = some t0 ∧ Task.Keeps t0 t') ∨ (s.tasks.length ≤ k ∧ Task.New kd j0 t') := by
  by_cases hlt : k < s.tasks.length
  · obtain ⟨t0, ht0⟩ : ∃ t0, s.tasks[k]? = some t0 := ⟨_, List.getElem?_eq_getElem hlt⟩
    obtain ⟨t'', h2, hkeep⟩ := f.old k t0 ht0
    rw [hk] at h2; cases h2
    exact Or.inl ⟨t0, ht0, hkeep⟩
  · exact Or.inr ⟨by omega, f.new k t' hk (by omega)⟩

theorem Disc.frame {j j0 : Nat} {dl : Option Nat} {s s' : Sched} (D : Disc j dl s) (f : Frame kd j0 s s')
    (hkd : kd j = some dl) : Disc j dl s' := by
  refine D.of_sub (by rw [f.now]; exact Nat.le_refl _) (TimersLe.of_eq f.timers) ?_
  intro k t' hk' hE'
  rcases f.classify hk' with ⟨t0, ht0, a1, a2, a3, a4, a5, _, a7⟩ | ⟨hge, _, b2, b3, _, _, b6⟩
  · refine Or.inl ⟨t0, ht0, ?_, a4, a5, fun h => Or.inl (a3.trans h)⟩
    obtain ⟨⟨n, hn⟩, e2, e3⟩ := hE'
    exact ⟨⟨n, a1 ▸ hn⟩, a2 ▸ e2, a7 e3⟩
  · refine Or.inr ⟨hge, b3, ?_, b2⟩
    obtain ⟨⟨n, hn⟩, _⟩ := hE'
    have := (b6 j n hn).2
    rw [hkd] at this
    exact (Option.some.inj this).symm

/-- Subject 0 hands `ns` to stage 0. -/
theorem DynF.push0 {w : TW} (D : DynF kd E w) (ns : List Notif)
    (hE : ∀ up : List Notif, (items up).Sublist E → (items (up ++ ns)).Sublist E') :
    DynF kd E' (w.push 0 ns) := by
  obtain ⟨hf, hkk, hc⟩ := TW.push_zeroF (kd := kd) w ns D.kinds
  obtain ⟨up, hup, hch⟩ := D.chain
  exact ⟨D.good.frame hf, hkk, fun j dl hkd => (D.disc j dl hkd).frame hf hkd, up ++ ns, hE up hup, hc up hch⟩

theorem DynF.adv {w : TW} (D : DynF kd E w) (d : Nat) :
    DynF kd E { w with sched := { w.sched with now := w.sched.now + d } } := by
  refine ⟨D.good.of_tasks rfl, D.kinds, ?_, ?_⟩
  · intro j dl hkd
    refine (D.disc j dl hkd).of_sub (Nat.le_add_right _ _) (TimersLe.of_eq rfl) ?_
    intro k t' hk' hE'
    exact Or.inl ⟨t', hk', hE', rfl, rfl, fun h => Or.inl h⟩
  · obtain ⟨up, hup, hch⟩ := D.chain
    exact ⟨up, hup, hch.anti (fun i _ => (PwLe.of_tasks (s := w.sched) rfl).sublist)⟩

/-- No two-input cell in a chain that has a `ChainF` history. -/
theorem ChainF.noOp2n {P : Nat → List Notif} {up : List Notif} {stages : List Stage} {log : List Notif}
    (h : ChainF P 0 up stages log) : NoOp2n stages := by
  intro k st hk a b c d e
  subst e
  obtain ⟨p, inp, out, hs⟩ := h.get hk
  exact hs

/-! ### list facts about `gate` -/

theorem items_gate_mono (sf x : List Notif) : (items (gate sf)).Sublist (items (gate (sf ++ x))) := by
  cases hT : terminated sf with
  | true => rw [gate_append_of_terminated sf x hT]; exact List.Sublist.refl _
  | false =>
    rw [gate_append_of_not_terminated sf x hT, gate_eq_self_of_not_terminated sf hT, items_append]
    exact List.sublist_append_left _ _

theorem gate_single (n : Notif) : gate [n] = [n] := by cases n <;> rfl

theorem items_gate_snoc (sf : List Notif) (n : Notif) (hT : terminated sf = false) :
    items (gate (sf ++ [n])) = items (gate sf) ++ items [n] := by
  rw [gate_append_of_not_terminated sf [n] hT, gate_eq_self_of_not_terminated sf hT, items_append, gate_single]

theorem terminated_snoc (sf : List Notif) (n : Notif) (hT : terminated sf = false) :
    terminated (sf ++ [n]) = n.isTerm := by
  induction sf with
  | nil => exact terminated_single n
  | cons a r ih => cases a <;> simp_all [terminated]

/-! ### the invariant -/

structure WInvF (kd : Nat → Option (Option Nat)) (sf : List Notif) (w : TW) : Prop where
  src : w.src = .hot 0
  subscribed : w.subscribed = true
  srcSubscribed : w.srcSubscribed = true
  term : terminated sf = true → 0 ∈ w.terminated
  dyn : DynF kd (items (gate sf)) w

variable {sf : List Notif} {w : TW}

theorem WInvF.stat {w' : TW} (I : WInvF kd sf w) (S : StatEq w w') (D : DynF kd (items (gate sf)) w') :
    WInvF kd sf w' :=
  ⟨S.1.trans I.src, S.2.1.trans I.subscribed, S.2.2.1.trans I.srcSubscribed,
    fun h => by rw [S.2.2.2]; exact I.term h, D⟩

/-- The world after subject 0 (not yet terminated) emitted `n`, before the notifier inputs. -/
theorem step_emit0_cases (w : TW) (n : Notif) (hsrc : w.src = .hot 0) (h : ¬ 0 ∈ w.terminated)
    (hsub : w.srcSubscribed = true) :
    ∃ w2, w.step (.emit 0 n) = TW.deliverNotifiers w2 0 n w2.stages.length ∧
      (w2 = (if n.isTerm then { w with terminated := 0 :: w.terminated } else w) ∨
       (n.isTerm = false ∧ w2 = w.push 0 [n]) ∨
       (n.isTerm = true ∧
          w2 = ({ w with terminated := 0 :: w.terminated, srcAlive := false } : TW).push 0 [n])) := by
  have hc : w.terminated.contains 0 = false := by simpa using h
  by_cases hal : w.srcAlive = true
  case neg =>
    have hal : w.srcAlive = false := by simpa using hal
    refine ⟨_, ?_, Or.inl rfl⟩
    cases n <;> simp [TW.step, h, hsrc, hsub, hal, Notif.isTerm]
  case pos =>
    cases n with
    | next v =>
      exact ⟨_, TW.step_emit_next w 0 v hsrc hc hsub hal, Or.inr (Or.inl ⟨rfl, rfl⟩)⟩
    | error e =>
      have := TW.step_emit_term w 0 (.error e) rfl hsrc hc hsub hal
      exact ⟨_, this, Or.inr (Or.inr ⟨rfl, rfl⟩)⟩
    | complete =>
      have := TW.step_emit_term w 0 .complete rfl hsrc hc hsub hal
      exact ⟨_, this, Or.inr (Or.inr ⟨rfl, rfl⟩)⟩

theorem WInvF.noOp2n (I : WInvF kd sf w) : NoOp2n w.stages := by
  obtain ⟨up, _, hch⟩ := I.dyn.chain
  exact hch.noOp2n

theorem WInvF.step (I : WInvF kd sf w) (ev : TW.Ev) (hev : FifoEv ev) :
    WInvF kd (sf ++ scriptOf ev) (w.step ev) := by
  cases hev with
  | adv d =>
    simp only [scriptOf, List.append_nil]
    exact ⟨I.src, I.subscribed, I.srcSubscribed, I.term, I.dyn.adv d⟩
  | run =>
    simp only [scriptOf, List.append_nil]
    obtain ⟨D, S⟩ := runLoop_inv 10000 w I.dyn
    exact I.stat S D
  | emit i n =>
    by_cases hi : i = 0
    · subst hi
      simp only [scriptOf, if_true]
      by_cases hmem : 0 ∈ w.terminated
      · rw [TW.step_emit_ignored w 0 n (by simpa using hmem)]
        exact ⟨I.src, I.subscribed, I.srcSubscribed, fun _ => hmem, I.dyn.weaken (items_gate_mono sf [n])⟩
      · have hT : terminated sf = false := by
          cases hT : terminated sf with
          | false => rfl
          | true => exact absurd (I.term hT) hmem
        obtain ⟨w2, hstep, hw2⟩ := step_emit0_cases w n I.src hmem I.srcSubscribed
        have hE := items_gate_snoc sf n hT
        have hTn := terminated_snoc sf n hT
        -- the invariant of the world before the notifier inputs
        have I2 : WInvF kd (sf ++ [n]) w2 := by
          rcases hw2 with rfl | ⟨hn, rfl⟩ | ⟨hn, rfl⟩
          · cases hn : n.isTerm with
            | true =>
              simp only [if_true]
              exact ⟨I.src, I.subscribed, I.srcSubscribed, fun _ => List.mem_cons_self ..,
                let D := I.dyn.weaken (items_gate_mono sf [n]); ⟨D.good, D.kinds, D.disc, D.chain⟩⟩
            | false =>
              simp only [Bool.false_eq_true, if_false]
              exact ⟨I.src, I.subscribed, I.srcSubscribed,
                (fun h => by rw [hTn, hn] at h; cases h), I.dyn.weaken (items_gate_mono sf [n])⟩
          · refine ⟨I.src, I.subscribed, I.srcSubscribed, (fun h => by rw [hTn, hn] at h; cases h), ?_⟩
            refine I.dyn.push0 [n] (fun up hup => ?_)
            rw [hE, items_append]
            exact List.Sublist.append hup (List.Sublist.refl _)
          · have D0 : DynF kd (items (gate sf))
                ({ w with terminated := 0 :: w.terminated, srcAlive := false } : TW) :=
              ⟨I.dyn.good, I.dyn.kinds, I.dyn.disc, I.dyn.chain⟩
            refine ⟨I.src, I.subscribed, I.srcSubscribed, fun _ => List.mem_cons_self .., ?_⟩
            refine D0.push0 [n] (fun up hup => ?_)
            rw [hE, items_append]
            exact List.Sublist.append hup (List.Sublist.refl _)
        rw [hstep, deliverNotifiers_noop w2 0 n I2.noOp2n]
        exact I2
    · have hs : scriptOf (.emit i n) = [] := by simp [scriptOf, hi]
      rw [hs, List.append_nil, step_emit_other_gen w i n I.src hi I.noOp2n]
      split
      · exact I
      · split
        · exact ⟨I.src, I.subscribed, I.srcSubscribed, fun h => List.mem_cons_of_mem _ (I.term h),
            ⟨I.dyn.good, I.dyn.kinds, I.dyn.disc, I.dyn.chain⟩⟩
        · exact I

theorem WInvF.fold (evs : List TW.Ev) : ∀ (sf : List Notif) (w : TW), (∀ e ∈ evs, FifoEv e) →
    WInvF kd sf w → WInvF kd (sf ++ script evs) (evs.foldl TW.step w) := by
  induction evs with
  | nil => intro sf w _ I; simpa [script] using I
  | cons e r ih =>
    intro sf w h I
    have := ih (sf ++ scriptOf e) (w.step e) (fun x hx => h x (List.mem_cons_of_mem _ hx))
      (I.step e (h e (List.mem_cons_self ..)))
    simpa [script, List.flatMap_cons, List.append_assoc] using this

/-! ### the stage lists the theorems range over -/

/-- The per-subscription initial state of a filtering single-input operator, of debounce,
    throttle (any edge mode), observe_on, or delay. -/
def Stage.InitF : Stage → Prop
  | .op1 st => ∃ op : Op1, op.filtering = true ∧ st = op.init
  | .debounce _ alive tr h => alive = true ∧ tr = none ∧ h = none
  | .throttle _ _ alive tr h => alive = true ∧ tr = none ∧ h = none
  | .observeOn alive multi => alive = true ∧ multi = some []
  | .delay _ alive multi => alive = true ∧ multi = some []
  | _ => False

theorem Stage.InitF.subF {st : Stage} (h : st.InitF) : SubF [] st [] [] := by
  cases st with
  | op1 o =>
    obtain ⟨op, hf, rfl⟩ := h
    exact ⟨by rw [op.init_filtering]; exact hf, by rw [op.init_held]; exact List.Sublist.refl _⟩
  | debounce d a tr hd => obtain ⟨_, rfl, _⟩ := h; exact List.Sublist.refl _
  | throttle d e a tr hd => obtain ⟨_, rfl, _⟩ := h; exact List.Sublist.refl _
  | observeOn a m => exact List.Sublist.refl _
  | delay d a m => exact List.Sublist.refl _
  | _ => exact h.elim

theorem Stage.InitF.initial {st : Stage} (h : st.InitF) : st.Initial := by
  cases st with
  | op1 o => obtain ⟨op, _, rfl⟩ := h; exact ⟨op, rfl⟩
  | debounce d a tr hd => exact h
  | throttle d e a tr hd => exact h
  | observeOn a m => exact h
  | delay d a m => exact h
  | _ => exact h.elim

/-- The same class, spelled out. -/
theorem Stage.initF_of_cases {st : Stage}
    (h : (∃ op : Op1, op.filtering = true ∧ st = .op1 (Op1.init op)) ∨
      (∃ d, st = .debounce d true none none) ∨
      (∃ d e, st = .throttle d e true none none) ∨
      st = .observeOn true (some []) ∨
      (∃ d, st = .delay d true (some []))) : st.InitF := by
  rcases h with ⟨op, hf, rfl⟩ | ⟨d, rfl⟩ | ⟨d, e, rfl⟩ | rfl | ⟨d, rfl⟩
  · exact ⟨op, hf, rfl⟩
  · exact ⟨rfl, rfl, rfl⟩
  · exact ⟨rfl, rfl, rfl⟩
  · exact ⟨rfl, rfl⟩
  · exact ⟨rfl, rfl⟩

/-- The stages whose `actual_subscribe` only subscribes upstream. -/
def Stage.simpleF : Stage → Bool
  | .bufTime _ _ _ _ _ => false
  | .subscribeOn _ _ => false
  | .op2n _ _ _ _ => false
  | _ => true

theorem Stage.InitF.simple {st : Stage} (h : st.InitF) : st.simpleF = true := by
  cases st <;> first | rfl | exact h.elim

theorem subscribeFrom_simple : ∀ (j : Nat) (w : TW),
    (∀ (k : Nat) st, w.stages[k]? = some st → st.simpleF = true) →
    TW.subscribeFrom w j = w.subscribeSource := by
  intro j
  induction j with
  | zero => intro w _; rfl
  | succ j ih =>
    intro w h
    have : TW.subscribeFrom w (j + 1) = TW.subscribeFrom w j := by
      cases hj : w.stages[j]? with
      | none => simp [TW.subscribeFrom, hj]
      | some st =>
        have := h j st hj
        cases st <;> simp_all [TW.subscribeFrom, Stage.simpleF]
    rw [this]
    exact ih w h

/-- Where the movers of the initial stage list sit. -/
def kdOf (stages : List Stage) (i : Nat) : Option (Option Nat) :=
  match stages[i]? with
  | some st => dlOf st
  | none => none

/-- The world `hot 0 → stages → probe`, subscribed, then driven by `evs`. -/
def chainRunF (stages : List Stage) (evs : List TW.Ev) : TW :=
  evs.foldl TW.step (TW.step { src := .hot 0, stages := stages } .sub)

theorem chainRunF_eq (stages : List Stage) (evs : List TW.Ev) :
    chainRunF stages evs = (TW.Ev.sub :: evs).foldl TW.step { src := .hot 0, stages := stages } := rfl

theorem WInvF.init (stages : List Stage) (hs : ∀ st ∈ stages, st.InitF) :
    WInvF (kdOf stages) [] (TW.step { src := .hot 0, stages := stages } .sub) := by
  have e : TW.step { src := .hot 0, stages := stages } .sub
      = { src := .hot 0, stages := stages, subscribed := true, srcSubscribed := true, srcAlive := true } := by
    have e1 : TW.step { src := .hot 0, stages := stages } .sub
        = TW.subscribeFrom { src := .hot 0, stages := stages, subscribed := true } stages.length := rfl
    rw [e1, subscribeFrom_simple]
    · rfl
    · intro k st hk
      exact (hs st (List.mem_of_getElem? hk)).simple
  rw [e]
  refine ⟨rfl, rfl, rfl, fun h => by simp [terminated] at h, ?_, ?_, ?_, ?_⟩
  · intro k t hk; simp at hk
  · intro i st hi
    simp only [kdOf, Nat.zero_add]
    rw [hi]
  · intro j dl _
    exact Disc.empty j dl _ rfl
  · exact ⟨[], List.Sublist.refl _, ChainF.initial _ (fun i => rfl) 0 stages (fun st h => (hs st h).subF)⟩

/-- The main extraction: under the FIFO executor the items at the probe are a subsequence
    of the items subject 0 emitted before its first terminal. -/
theorem multi_final (stages : List Stage) (hs : ∀ st ∈ stages, st.InitF) (evs : List TW.Ev)
    (hev : ∀ e ∈ evs, FifoEv e) :
    (items (chainRunF stages evs).log).Sublist (items (gate (script evs))) := by
  have I := WInvF.fold evs [] _ hev (WInvF.init stages hs)
  obtain ⟨up, hup, hch⟩ := I.dyn.chain
  simp only [List.nil_append] at hup
  exact hch.items_sublist.trans hup

end Rx.T
