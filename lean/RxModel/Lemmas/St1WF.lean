import RxModel.Ops.Single
/-
  Single-input observers keep the stream grammar FROM EVERY STATE (not only
  from `Op1.init`): a well-formed input gives a well-formed output.  Used for
  the operators between group_by and the outer probe (C01M).
-/
namespace Rx
namespace St1

/-- The observer owns an `Option` slot and it has been emptied. -/
def dead (s : St1) : Bool := s.slot == some false

theorem onNext_wf (s : St1) (v : Val) :
    WF (s.onNext v).2 ∧
    (terminated (s.onNext v).2 = true → (s.onNext v).1.dead = true) ∧
    (s.dead = true → (s.onNext v).2 = [] ∧ (s.onNext v).1.dead = true) := by
  cases s <;> simp only [onNext, dead, slot] <;> (repeat' split) <;> simp_all [terminated]

theorem onError_wf (s : St1) (e : Err) : WF (s.onError' e).2 := by
  cases s <;> simp only [onError'] <;> (repeat' split) <;> simp_all

theorem onComplete_wf (s : St1) : WF (s.onComplete').2 := by
  cases s <;> simp only [onComplete'] <;> (repeat' split) <;> simp_all [WF_nexts_append]

theorem term_dead (s : St1) (h : s.dead = true) :
    (∀ e, (s.onError' e).2 = [] ∧ (s.onError' e).1.dead = true) ∧
    ((s.onComplete').2 = [] ∧ (s.onComplete').1.dead = true) := by
  cases s <;> simp_all [onError', onComplete', dead, slot]

theorem step_dead (s : St1) (h : s.dead = true) (n : Notif) :
    (s.step n).2 = [] ∧ (s.step n).1.dead = true := by
  cases n with
  | next v => exact (onNext_wf s v).2.2 h
  | error e => exact (term_dead s h).1 e
  | complete => exact (term_dead s h).2

theorem run_dead (X : List Notif) : ∀ s : St1, s.dead = true → (s.run X).2 = [] := by
  induction X with
  | nil => intro s _; rfl
  | cons n r ih =>
    intro s h
    have := step_dead s h n
    simp only [run, this.1, ih _ this.2, List.append_nil]

/-- From every state: a well-formed input gives a well-formed output. -/
theorem run_wf (X : List Notif) : ∀ s : St1, WF X → WF (s.run X).2 := by
  induction X with
  | nil => intro s _; simp [run]
  | cons n r ih =>
    intro s h
    simp only [run]
    cases n with
    | next v =>
      have h1 := onNext_wf s v
      rw [WF_append_iff]
      refine ⟨h1.1, ?_, ih _ h⟩
      intro ht
      exact run_dead r _ (h1.2.1 ht)
    | error e =>
      have : r = [] := h
      subst this
      simpa [run, step] using onError_wf s e
    | complete =>
      have : r = [] := h
      subst this
      simpa [run, step] using onComplete_wf s

end St1

theorem runChain_nil (ch : List St1) : runChain ch [] = (ch, []) := by
  induction ch with
  | nil => rfl
  | cons o os ih => simp [runChain, St1.run, ih]

theorem runChain_append (ch : List St1) : ∀ a b : List Notif,
    runChain ch (a ++ b) =
      ((runChain (runChain ch a).1 b).1, (runChain ch a).2 ++ (runChain (runChain ch a).1 b).2) := by
  induction ch with
  | nil => intro a b; simp [runChain]
  | cons o os ih =>
    intro a b
    simp only [runChain, St1.run_append, ih]

/-- A chain of single-input observers, each in ANY state, keeps the grammar. -/
theorem runChain_wf (ch : List St1) : ∀ X : List Notif, WF X → WF (runChain ch X).2 := by
  induction ch with
  | nil => intro X h; simpa [runChain] using h
  | cons o os ih =>
    intro X h
    simp only [runChain]
    exact ih _ (St1.run_wf X o h)

end Rx
