import RxModel.Lemmas.ChainQuietNotif
/-
  C02 / C17 over the chain model, part 5: `Good` survives a whole cascade
  (`cascadeF`, for every fuel value) and `TW.push`.
-/
namespace Rx.T
open Rx

theorem cascadeF_succ_cons (f : Nat) (st : Stage) (rest : List Stage) (j : Nat) (n : Notif)
    (ns : List Notif) (s : Sched) :
    cascadeF (f + 1) (st :: rest) j (n :: ns) s =
      (let r1 := st.onNotif j n s
       let r2 := cascadeF f rest (j + 1) r1.2.1 r1.2.2
       let r3 := r1.1.afterEmit j r2.2.2
       let r4 := cascadeF f (r3.1 :: r2.1) j ns r3.2
       (r4.1, r2.2.1 ++ r4.2.1, r4.2.2)) := rfl

/-- What a cascade promises about the stages it ran through. -/
structure CFr (suf suf' : List Stage) (s s' : Sched) : Prop where
  subH : suf'.map Stage.subH = suf.map Stage.subH
  n2 : suf'.map Stage.n2 = suf.map Stage.n2
  keep : SubKeep s s'

theorem CFr.refl (suf : List Stage) (s : Sched) : CFr suf suf s s := ⟨rfl, rfl, SubKeep.refl _⟩

theorem cascadeF_good {r : Option TaskId} {a : Info} (f : Nat) :
    ∀ (pre suf : List Stage) (ns : List Notif) (s : Sched),
      Good r a (pre ++ suf) s → Reached r (pre ++ suf) s pre.length →
      Good r a (pre ++ (cascadeF f suf pre.length ns s).1) (cascadeF f suf pre.length ns s).2.2 ∧
        CFr suf (cascadeF f suf pre.length ns s).1 s (cascadeF f suf pre.length ns s).2.2 := by
  induction f with
  | zero => intro pre suf ns s g _; exact ⟨g, CFr.refl _ _⟩
  | succ f ih =>
    intro pre suf ns s g hr
    cases suf with
    | nil => exact ⟨g, CFr.refl _ _⟩
    | cons st rest =>
      cases ns with
      | nil => exact ⟨g, CFr.refl _ _⟩
      | cons n ns =>
        rw [cascadeF_succ_cons]
        have hj : (pre ++ st :: rest)[pre.length]? = some st := by simp
        obtain ⟨g1, fr1⟩ := onNotif_good st n g hj hr
        generalize st.onNotif pre.length n s = r1 at g1 fr1 ⊢
        obtain ⟨st1, outs, s1⟩ := r1
        simp only at g1 fr1 ⊢
        rw [set_mid'] at g1
        have hm1 : (pre ++ st1 :: rest).map Stage.subH = (pre ++ st :: rest).map Stage.subH := by
          simp [fr1.subH]
        have hr1 : Reached r (pre ++ st1 :: rest) s1 pre.length := hr.frame g hm1 fr1.keep
        have e1 : pre ++ st1 :: rest = (pre ++ [st1]) ++ rest := by simp
        have ih1 := ih (pre ++ [st1]) rest outs s1 (by rw [← e1]; exact g1)
          (by rw [← e1]; exact hr1.mono (by simp))
        simp only [List.length_append, List.length_singleton] at ih1
        obtain ⟨g2, fr2⟩ := ih1
        generalize cascadeF f rest (pre.length + 1) outs s1 = r2 at g2 fr2 ⊢
        obtain ⟨rest1, out1, s2⟩ := r2
        simp only at g2 fr2 ⊢
        have e2 : (pre ++ [st1]) ++ rest1 = pre ++ st1 :: rest1 := by simp
        rw [e2] at g2
        have hm2 : (pre ++ st1 :: rest1).map Stage.subH = (pre ++ st1 :: rest).map Stage.subH := by
          simp [fr2.subH]
        have hr2 : Reached r (pre ++ st1 :: rest1) s2 pre.length := hr1.frame g1 hm2 fr2.keep
        have hj2 : (pre ++ st1 :: rest1)[pre.length]? = some st1 := by simp
        obtain ⟨g3, fr3⟩ := afterEmit_good st1 g2 hj2 hr2
        generalize st1.afterEmit pre.length s2 = r3 at g3 fr3 ⊢
        obtain ⟨st2, s3⟩ := r3
        simp only at g3 fr3 ⊢
        rw [set_mid'] at g3
        have hm3 : (pre ++ st2 :: rest1).map Stage.subH = (pre ++ st1 :: rest1).map Stage.subH := by
          simp [fr3.subH]
        have hr3 : Reached r (pre ++ st2 :: rest1) s3 pre.length := hr2.frame g2 hm3 fr3.keep
        obtain ⟨g4, fr4⟩ := ih pre (st2 :: rest1) ns s3 g3 hr3
        refine ⟨g4, ?_, ?_, ?_⟩
        · rw [fr4.subH]; simp [fr3.subH, fr2.subH, fr1.subH]
        · rw [fr4.n2]; simp [fr3.n2, fr2.n2, fr1.n2]
        · exact ((fr1.keep.trans fr2.keep).trans fr3.keep).trans fr4.keep

end Rx.T
