import RxModel.Lemmas.ChainRateWorld
/-
  C09 (chain model): the invariant scheme.

  A world `hot 0 → stage → probe` is described by the stage, the probe log, the
  subject's slot (`srcAlive`) and whether subject 0 has terminated.  The ghost
  state of a history is `(E, T)`: the items subject 0 has emitted before its
  first terminal, and whether that terminal has been emitted.  A predicate
  `P stage log E srcAlive T` that is closed under the six stage-level moves of
  `RateSpec` is an invariant of EVERY event list (any emissions, clock
  advances, `fire`/`poll` in any order, `run`, `unsub`), whatever the scheduler
  state is — only "all task bodies are benign" is needed from the scheduler.
-/
namespace Rx.T
open Rx

/-- Items subject 0 emits, up to its first terminal. -/
def itemsEmitted : List TW.Ev → List Val
  | [] => []
  | .emit i n :: r =>
      if i = 0 then (match n with | .next v => v :: itemsEmitted r | _ => []) else itemsEmitted r
  | _ :: r => itemsEmitted r

/-- Ghost step: `(E, T)`. -/
def ghost (g : List Val × Bool) : TW.Ev → List Val × Bool
  | .emit i n =>
      if i = 0 ∧ g.2 = false then (match n with | .next v => (g.1 ++ [v], false) | _ => (g.1, true))
      else g
  | _ => g

theorem ghost_fold_true (E : List Val) (evs : List TW.Ev) : evs.foldl ghost (E, true) = (E, true) := by
  induction evs with
  | nil => rfl
  | cons e r ih => cases e <;> simpa [ghost] using ih

theorem ghost_fold_false (E : List Val) (evs : List TW.Ev) :
    (evs.foldl ghost (E, false)).1 = E ++ itemsEmitted evs := by
  induction evs generalizing E with
  | nil => simp [itemsEmitted]
  | cons e r ih =>
    cases e with
    | emit i n =>
      by_cases hi : i = 0
      · subst hi
        cases n with
        | next v => simp [ghost, itemsEmitted, ih]
        | error e => simp [ghost, itemsEmitted, ghost_fold_true]
        | complete => simp [ghost, itemsEmitted, ghost_fold_true]
      · simp [ghost, itemsEmitted, hi, ih]
    | _ => simpa [ghost, itemsEmitted] using ih E

abbrev RatePred := Stage → List Notif → List Val → Bool → Bool → Prop

/-- Closure of a predicate under the stage-level moves. -/
structure RateSpec (P : RatePred) : Prop where
  /-- an item arrives from the live, unterminated subject -/
  next : ∀ st log E v s, P st log E true false →
    P (st.feed (.next v) s).1 (log ++ (st.feed (.next v) s).2.1) (E ++ [v]) true false
  /-- the unterminated subject emits an item after `unsub` -/
  skip : ∀ st log E v, P st log E false false → P st log (E ++ [v]) false false
  /-- the terminal of the live subject arrives at the stage — finished or not: the subject hands its
      terminal to every subscriber whose slot is full -/
  term : ∀ st log E n s, n.isTerm = true → P st log E true false →
    P (st.feed n s).1 (log ++ (st.feed n s).2.1) E false true
  /-- the terminal of the subject is not delivered (`unsub` before: the slot is empty) -/
  termDead : ∀ st log E, P st log E false false → P st log E false true
  /-- `unsub` -/
  unsub : ∀ st log E a T, P st log E a T → P st.unsubbed log E false T
  /-- the stage's task body runs -/
  body : ∀ st log E a T, P st log E a T → P st.bodyStep.1 (log ++ st.bodyStep.2) E a T

/-- The invariant on worlds. -/
structure Inv (P : RatePred) (E : List Val) (T : Bool) (w : TW) : Prop where
  src : w.src = .hot 0
  srcTask : w.srcTask = none
  subscribed : w.subscribed = true
  srcSubscribed : w.srcSubscribed = true
  term : w.terminated.contains 0 = T
  benign : w.sched.Benign
  stage : ∃ st, w.stages = [st] ∧ st.isRate = true ∧ P st w.log E w.srcAlive T

variable {P : RatePred} {E : List Val} {T : Bool} {w : TW}

theorem Inv.setSched (I : Inv P E T w) (s' : Sched) (hs : s'.Benign) :
    Inv P E T { w with sched := s' } :=
  ⟨I.src, I.srcTask, I.subscribed, I.srcSubscribed, I.term, hs, I.stage⟩

theorem Inv.bodyStep (S : RateSpec P) (I : Inv P E T w) (st : Stage) (h : w.stages = [st]) :
    Inv P E T { w with stages := [st.bodyStep.1], log := w.log ++ st.bodyStep.2 } := by
  obtain ⟨st', h', hr, hP⟩ := I.stage
  rw [h] at h'; cases h'
  exact ⟨I.src, I.srcTask, I.subscribed, I.srcSubscribed, I.term, I.benign,
    _, rfl, st.bodyStep_rate hr, S.body _ _ _ _ _ hP⟩

theorem Inv.runBody (S : RateSpec P) (I : Inv P E T w) (b : Body) (hb : b.benign = true) :
    Inv P E T (w.runBody b) := by
  obtain ⟨st, h, hr, _⟩ := I.stage
  rcases TW.runBody_rate w st h hr b hb with e | e <;> rw [e]
  · exact I
  · exact I.bodyStep S st h

theorem Inv.runTick (S : RateSpec P) (I : Inv P E T w) (b : Body) (hb : b.benign = true) (seq : Nat) :
    Inv P E T (w.runTick b seq).1 := by
  obtain ⟨st, h, hr, _⟩ := I.stage
  rcases TW.runTick_rate w st h hr b hb seq with e | e <;> rw [e]
  · exact I
  · exact I.bodyStep S st h

theorem Inv.pollTask (S : RateSpec P) (I : Inv P E T w) (k : TaskId) : Inv P E T (w.pollTask k) := by
  have hp := I.benign.pollPre k
  unfold TW.pollTask
  generalize w.sched.pollPre k = r at hp
  obtain ⟨s1, p⟩ := r
  obtain ⟨hs1, hp⟩ := hp
  have I1 : Inv P E T { w with sched := s1 } := I.setSched s1 hs1
  cases p with
  | none => exact I1
  | runOnce b =>
    have hna : b.isAsync = false := by
      have hb : b.benign = true := hp
      cases b <;> first | rfl | (simp [Body.benign] at hb)
    have I2 := I1.runBody S b hp
    dsimp only
    rw [if_neg (by simp [hna])]
    exact I2.setSched _ (I2.benign.finishOnce k)
  | runTick b seq =>
    have I2 := I1.runTick S b hp seq
    dsimp only
    split
    · exact I2.setSched _ (I2.benign.continueRepeat k)
    · exact I2.setSched _ (I2.benign.finishOnce k)

theorem Inv.pollAll (S : RateSpec P) (l : List TaskId) (I : Inv P E T w) : Inv P E T (w.pollAll l) := by
  induction l generalizing w with
  | nil => exact I
  | cons k r ih =>
    unfold TW.pollAll
    dsimp only
    repeat' split
    all_goals first | exact ih (I.pollTask S k) | exact ih I

theorem Inv.runLoop (S : RateSpec P) (fuel : Nat) (I : Inv P E T w) : Inv P E T (TW.runLoop fuel w) := by
  induction fuel generalizing w with
  | zero => exact I
  | succ f ih =>
    unfold TW.runLoop
    dsimp only
    have I1 := I.setSched _ (I.benign.fireAll w.sched.dueTimers)
    split
    · exact I1
    · exact ih (I1.pollAll S _)

/-- The terminal of the live subject. -/
theorem Inv.stepTerm (S : RateSpec P) (I : Inv P E false w) (st : Stage) (h : w.stages = [st])
    (hr : st.isRate = true) (hP : P st w.log E true false) (ha : w.srcAlive = true)
    (hc : w.terminated.contains 0 = false) (n : Notif) (hn : n.isTerm = true) :
    Inv P (ghost (E, false) (.emit 0 n)).1 (ghost (E, false) (.emit 0 n)).2 (w.step (.emit 0 n)) := by
  have hg : ghost (E, false) (.emit 0 n) = (E, true) := by
    cases n <;> simp_all [ghost, Notif.isTerm]
  rw [hg]
  have hfr := st.feed_rate hr n w.sched I.benign
  have hst : ({ w with terminated := 0 :: w.terminated, srcAlive := false } : TW).stages = [st] := h
  rw [TW.step_emit_term w st h hr I.src I.srcSubscribed ha hc n hn _ hfr.1
    (by rw [TW.push_zero _ st hst]), TW.push_zero _ st hst]
  exact ⟨I.src, I.srcTask, I.subscribed, I.srcSubscribed, by simp, hfr.2,
    _, rfl, hfr.1, S.term _ _ _ n w.sched hn hP⟩

/-- One event. -/
theorem Inv.step (S : RateSpec P) (I : Inv P E T w) (ev : TW.Ev) :
    Inv P (ghost (E, T) ev).1 (ghost (E, T) ev).2 (w.step ev) := by
  obtain ⟨st, h, hr, hP⟩ := I.stage
  cases ev with
  | sub => simpa [TW.step, I.subscribed, ghost] using I
  | adv d => exact I.setSched _ (I.benign.now _)
  | fire i =>
    simp only [TW.step, ghost]
    split
    · exact I.setSched _ (I.benign.fire _)
    · exact I
  | poll i =>
    simp only [TW.step, ghost]
    split
    · exact I.pollTask S _
    · exact I
  | run => exact I.runLoop S _
  | unsub =>
    simp only [TW.step, ghost, I.subscribed, Bool.true_and]
    split
    · obtain ⟨s', hs', e⟩ := TW.unsubFrom_rate w st h hr I.srcTask I.benign
      rw [e]
      exact ⟨I.src, I.srcTask, I.subscribed, I.srcSubscribed, I.term, hs',
        _, rfl, st.unsubbed_rate hr, S.unsub _ _ _ _ _ hP⟩
    · exact I
  | emit i n =>
    by_cases hc : w.terminated.contains i = true
    · -- subject i has already terminated: nothing happens
      have hg : ghost (E, T) (.emit i n) = (E, T) := by
        by_cases hi : i = 0
        · subst hi; have := I.term; rw [hc] at this; subst this; simp [ghost]
        · simp [ghost, hi]
      rw [hg, TW.step_emit_done w i n hc]; exact I
    · simp only [Bool.not_eq_true] at hc
      by_cases hi : i = 0
      · subst hi
        have hT : T = false := by have := I.term; rw [hc] at this; exact this.symm
        subst hT
        cases ha : w.srcAlive with
        | false =>
          -- unsubscribed before: the subject no longer holds the observer
          rw [ha] at hP
          rw [TW.step_emit_other w st h hr I.src 0 n hc (Or.inr ha)]
          cases n with
          | next v =>
            have e : w.markTerm 0 (.next v) = w := rfl
            rw [e]
            exact ⟨I.src, I.srcTask, I.subscribed, I.srcSubscribed, I.term, I.benign,
              st, h, hr, by rw [ha]; simpa [ghost] using S.skip _ _ _ v hP⟩
          | error er =>
            exact ⟨I.src, I.srcTask, I.subscribed, I.srcSubscribed, by simp [ghost, TW.markTerm, Notif.isTerm],
              I.benign, st, h, hr, by simpa [ghost, TW.markTerm, Notif.isTerm, ha] using S.termDead _ _ _ hP⟩
          | complete =>
            exact ⟨I.src, I.srcTask, I.subscribed, I.srcSubscribed, by simp [ghost, TW.markTerm, Notif.isTerm],
              I.benign, st, h, hr, by simpa [ghost, TW.markTerm, Notif.isTerm, ha] using S.termDead _ _ _ hP⟩
        | true =>
          rw [ha] at hP
          cases n with
          | next v =>
            have hf := st.feed_rate hr (.next v) w.sched I.benign
            rw [TW.step_emit_next w st h hr I.src I.srcSubscribed ha hc v _ hf.1
              (by rw [TW.push_zero w st h]), TW.push_zero w st h]
            exact ⟨I.src, I.srcTask, I.subscribed, I.srcSubscribed, I.term, hf.2,
              _, rfl, hf.1, by simpa [ghost, ha] using S.next _ _ _ v w.sched hP⟩
          | error er => exact I.stepTerm S st h hr hP ha hc (.error er) rfl
          | complete => exact I.stepTerm S st h hr hP ha hc .complete rfl
      · -- another subject: only its `terminated` entry changes
        rw [TW.step_emit_other w st h hr I.src i n hc (Or.inl hi)]
        have hg : ghost (E, T) (.emit i n) = (E, T) := by simp [ghost, hi]
        rw [hg]
        have ht : (w.markTerm i n).terminated.contains 0 = T := by
          rw [← I.term]
          unfold TW.markTerm
          split
          · have : (0 == i) = false := by simpa using (Ne.symm hi)
            simp only [List.contains_cons]
            rw [this]; rfl
          · rfl
        have e : ∀ (q : TW → Prop), q w → q { w with terminated := i :: w.terminated } → q (w.markTerm i n) := by
          intro q h1 h2; unfold TW.markTerm; split <;> assumption
        refine ⟨?_, ?_, ?_, ?_, ht, ?_, ?_⟩
        · exact e (fun x => x.src = .hot 0) I.src I.src
        · exact e (fun x => x.srcTask = none) I.srcTask I.srcTask
        · exact e (fun x => x.subscribed = true) I.subscribed I.subscribed
        · exact e (fun x => x.srcSubscribed = true) I.srcSubscribed I.srcSubscribed
        · exact e (fun x => x.sched.Benign) I.benign I.benign
        · exact e (fun x => ∃ st, x.stages = [st] ∧ st.isRate = true ∧ P st x.log E x.srcAlive T)
            I.stage I.stage

/-- Every event list. -/
theorem Inv.fold (S : RateSpec P) (evs : List TW.Ev) (g : List Val × Bool) (w : TW)
    (I : Inv P g.1 g.2 w) :
    Inv P (evs.foldl ghost g).1 (evs.foldl ghost g).2 (evs.foldl TW.step w) := by
  induction evs generalizing g w with
  | nil => exact I
  | cons e r ih => exact ih _ _ (I.step S e)

/-- From a fresh subscription: `E` is `itemsEmitted`. -/
theorem Inv.run (S : RateSpec P) (w : TW) (I : Inv P [] false w) (evs : List TW.Ev) :
    ∃ T, Inv P (itemsEmitted evs) T (evs.foldl TW.step w) := by
  have := Inv.fold S evs ([], false) w I
  rw [ghost_fold_false] at this
  exact ⟨_, by simpa using this⟩

/-- The single-stage world over `hot 0`, subscribed, then driven by `evs`. -/
def rateRun (st : Stage) (evs : List TW.Ev) : TW :=
  evs.foldl TW.step (TW.step { src := .hot 0, stages := [st] } .sub)

end Rx.T
