import RxModel.Lemmas.ChainFifoBase
/-
  C07 (FIFO clause), part 1: `observe_on` over a hot source under the FIFO
  executor (`runLoop`).

  The worlds reachable from `{ src := .hot 0, stages := [.observeOn true (some [])] }`
  by `sub`, `emit`, `adv`, `run` are exactly described by an abstract state `OA`:
  the notifications whose task has run (`D`), those whose task is still fresh
  (`F`), the slot (`alive`), the probe log.  `mkW` rebuilds the concrete world.
-/
namespace Rx.T.Obs
open Rx Rx.T

def doneT (n : Notif) : Task := { body := .emit 0 n, hasValue := true, done := true, woken := false }
def freshT (n : Notif) : Task := { body := .emit 0 n }

structure OA where
  now : Nat := 0
  D : List Notif := []
  F : List Notif := []
  alive : Bool := true
  log : List Notif := []
  term : Bool := false       -- subject 0 has seen a terminal

def mkW (base : TW) (a : OA) (m : Option (List TaskId)) : TW :=
  { base with sched := { now := a.now, timers := [], tasks := a.D.map doneT ++ a.F.map freshT },
              stages := [.observeOn a.alive m], log := a.log }

/-- All fresh tasks run, in spawn order. -/
def OA.run (a : OA) : OA :=
  { a with D := a.D ++ a.F, F := [], alive := (deliver a.alive a.F).1,
           log := a.log ++ (deliver a.alive a.F).2 }

theorem pollTask_fresh (base : TW) (a : OA) (m) (n : Notif) (F' : List Notif) (hF : a.F = n :: F') :
    (mkW base a m).pollTask a.D.length =
      mkW base { a with D := a.D ++ [n], F := F', alive := a.alive && !n.isTerm,
                        log := a.log ++ (if a.alive then [n] else []) } m := by
  have hget : (a.D.map doneT ++ freshT n :: F'.map freshT)[a.D.length]? = some (freshT n) := by
    simp
  have hp : (mkW base a m).sched.pollPre a.D.length =
      ({ now := a.now, timers := [], tasks := a.D.map doneT ++ { freshT n with woken := false } :: F'.map freshT },
        .runOnce (.emit 0 n)) := by
    simp only [mkW, Sched.pollPre, hF, List.map_cons, hget]
    simp [freshT, Sched.setTask]
  unfold TW.pollTask
  rw [hp]
  simp only []
  cases ha : a.alive <;> cases hn : n.isTerm <;>
    simp [mkW, TW.runBody, ha, hn, TW.push_one, TW.setStage, Sched.finishOnce, Sched.setTask, freshT, doneT,
      Body.isAsync]

theorem pollAll_fresh (base : TW) (m) : ∀ (F : List Notif) (a : OA), a.F = F →
    (mkW base a m).pollAll (List.range' a.D.length F.length) = mkW base a.run m := by
  intro F
  induction F with
  | nil =>
    intro a hF
    cases a; simp_all [TW.pollAll, OA.run, deliver]
  | cons n F' ih =>
    intro a hF
    have hget : (mkW base a m).sched.tasks[a.D.length]? = some (freshT n) := by
      simp [mkW, hF]
    simp only [List.length_cons, List.range'_succ, TW.pollAll, hget]
    have hlive : (!(freshT n).done) = true := rfl
    rw [hlive, if_pos rfl, pollTask_fresh base a m n F' hF]
    have := ih { a with D := a.D ++ [n], F := F', alive := a.alive && !n.isTerm,
                        log := a.log ++ (if a.alive then [n] else []) } rfl
    simp only [List.length_append, List.length_singleton] at this
    rw [this]
    simp [OA.run, hF, deliver]

theorem ready_mkW (base : TW) (a : OA) (m) :
    idxs (fun t => t.woken && !t.done) (mkW base a m).sched.tasks 0 = List.range' a.D.length a.F.length := by
  simp only [mkW, idxs_append, List.length_map, Nat.zero_add]
  rw [idxs_none, idxs_all]
  · simp
  · intro x hx; simp only [List.mem_map] at hx; obtain ⟨n, _, rfl⟩ := hx; rfl
  · intro x hx; simp only [List.mem_map] at hx; obtain ⟨n, _, rfl⟩ := hx; rfl

theorem runLoop_quiet (base : TW) (a : OA) (m) (f : Nat) (hF : a.F = []) :
    TW.runLoop (f + 1) (mkW base a m) = mkW base a m := by
  have hd : (mkW base a m).sched.dueTimers = [] := by simp [Sched.dueTimers, mkW]
  have hr := ready_mkW base a m
  rw [TW.runLoop_succ, hd, List.foldl_nil, hr, hF]
  rfl

/-- Two passes of the executor's loop suffice: the first runs every fresh task, the
    second finds nothing to do. -/
theorem runLoop_obs (base : TW) (a : OA) (m) (f : Nat) :
    TW.runLoop (f + 2) (mkW base a m) = mkW base a.run m := by
  have hd : (mkW base a m).sched.dueTimers = [] := by simp [Sched.dueTimers, mkW]
  have hr := ready_mkW base a m
  have hw : ({ mkW base a m with sched := (mkW base a m).sched } : TW) = mkW base a m := rfl
  rw [TW.runLoop_succ, hd, List.foldl_nil, hr, hw]
  cases hF : a.F with
  | nil => cases a; simp_all [OA.run, deliver]
  | cons n F' =>
    have := pollAll_fresh base m a.F a rfl
    rw [hF] at this
    rw [this]
    simp only [List.length_cons, List.range'_succ, List.isEmpty_cons, Bool.and_false,
      Bool.false_eq_true, if_false]
    exact runLoop_quiet base a.run m f rfl

/-! ### the abstract machine -/

def OA.step (a : OA) : TW.Ev → OA
  | .emit i n =>
    if i ≠ 0 ∨ a.term then a
    else { a with F := a.F ++ [n], term := n.isTerm }
  | .adv k => { a with now := a.now + k }
  | .run => a.run
  | _ => a

/-- `w` is the world described by `a`. -/
def RO (a : OA) (w : TW) : Prop :=
  ∃ base m, w = mkW base a m ∧ base.src = .hot 0 ∧ base.srcSubscribed = true ∧
    (a.term = false → base.srcAlive = true) ∧ base.terminated.contains 0 = a.term

theorem push_emit (base : TW) (a : OA) (m) (n : Notif) :
    (mkW base a m).push 0 [n] =
      mkW base { a with F := a.F ++ [n] } (m.map (· ++ [a.D.length + a.F.length])) := by
  rw [TW.push_zero _ (.observeOn a.alive m) n rfl]
  simp [mkW, Stage.onNotif, Stage.afterEmit, Sched.scheduleOnce, freshT]

theorem mkW_congr (base : TW) (a a' : OA) (m) (h1 : a.now = a'.now) (h2 : a.D = a'.D) (h3 : a.F = a'.F)
    (h4 : a.alive = a'.alive) (h5 : a.log = a'.log) : mkW base a m = mkW base a' m := by
  cases a; cases a'; simp_all [mkW]

theorem RO_of (a a' : OA) (base : TW) (m) (h1 : a.now = a'.now) (h2 : a.D = a'.D) (h3 : a.F = a'.F)
    (h4 : a.alive = a'.alive) (h5 : a.log = a'.log)
    (hsrc : base.src = .hot 0) (hsub : base.srcSubscribed = true)
    (halive : a'.term = false → base.srcAlive = true) (hterm : base.terminated.contains 0 = a'.term) :
    RO a' (mkW base a m) :=
  ⟨base, m, mkW_congr base a a' m h1 h2 h3 h4 h5, hsrc, hsub, halive, hterm⟩

theorem step_sim (a : OA) (w : TW) (ev : TW.Ev) (hev : FifoEv ev) (h : RO a w) :
    RO (a.step ev) (w.step ev) := by
  obtain ⟨base, m, rfl, hsrc, hsub, halive, hterm⟩ := h
  cases hev with
  | adv k => exact ⟨base, m, rfl, hsrc, hsub, halive, hterm⟩
  | run =>
    refine ⟨base, m, ?_, hsrc, hsub, halive, hterm⟩
    exact runLoop_obs base a m 9998
  | emit i n =>
    have hlen : ∀ (b : TW) (a' : OA) (m'), (mkW b a' m').stages.length = 1 := fun _ _ _ => rfl
    have hdn : ∀ (b : TW) (a' : OA) (m'), TW.deliverNotifiers (mkW b a' m') i n 1 = mkW b a' m' :=
      fun b a' m' => TW.deliverNotifiers_single _ (.observeOn a'.alive m') i n rfl (by intros; simp)
    by_cases hi : i = 0
    · subst hi
      cases hT : a.term with
      | true =>
        rw [hT] at hterm
        have ha : a.step (.emit 0 n) = a := by simp [OA.step, hT]
        rw [ha, TW.step_emit_ignored (mkW base a m) _ _ hterm]
        exact ⟨base, m, rfl, hsrc, hsub, halive, by rw [hT]; exact hterm⟩
      | false =>
        rw [hT] at hterm
        have hal := halive hT
        cases hn : n.isTerm with
        | false =>
          obtain ⟨v, rfl⟩ : ∃ v, n = .next v := by
            cases n with
            | next v => exact ⟨v, rfl⟩
            | _ => simp [Notif.isTerm] at hn
          rw [TW.step_emit_next (mkW base a m) _ _ hsrc hterm hsub hal, push_emit, hlen, hdn]
          have hterm' : 0 ∉ base.terminated := by simpa using hterm
          apply RO_of <;> simp [OA.step, hT, Notif.isTerm, hsrc, hsub, hal, hterm']
        | true =>
          rw [TW.step_emit_term (mkW base a m) _ _ hn hsrc hterm hsub hal]
          simp only []
          rw [show ({ mkW base a m with terminated := 0 :: (mkW base a m).terminated, srcAlive := false } : TW)
                = mkW { base with terminated := 0 :: base.terminated, srcAlive := false } a m from rfl,
            push_emit, hlen, hdn]
          apply RO_of <;> simp [OA.step, hT, hn, hsrc, hsub]
    · have ha : a.step (.emit i n) = a := by simp [OA.step, hi]
      rw [ha]
      cases hc : base.terminated.contains i with
      | true =>
        rw [TW.step_emit_ignored (mkW base a m) _ _ hc]
        exact ⟨base, m, rfl, hsrc, hsub, halive, hterm⟩
      | false =>
        rw [TW.step_emit_other (mkW base a m) i 0 n (.observeOn a.alive m) hsrc hi hc rfl (by intros; simp)]
        cases n.isTerm with
        | false => exact ⟨base, m, rfl, hsrc, hsub, halive, hterm⟩
        | true =>
          refine ⟨{ base with terminated := i :: base.terminated }, m, rfl, hsrc, hsub, halive, ?_⟩
          rw [← hterm]
          simp
          intro h0; exact absurd h0.symm hi

/-! ### the abstract machine delivers the gated script in order -/

structure OInv (a : OA) (s : List Notif) : Prop where
  q : a.D ++ a.F = gate s
  term : a.term = terminated s
  log : a.log = a.D
  alive : a.alive = !terminated a.D

theorem OInv_step (a : OA) (s : List Notif) (ev : TW.Ev) (hev : FifoEv ev) (h : OInv a s) :
    OInv (a.step ev) (s ++ scriptOf ev) := by
  obtain ⟨hq, ht, hl, hal⟩ := h
  cases hev with
  | adv k =>
    simp only [OA.step, scriptOf, List.append_nil]
    exact ⟨hq, ht, hl, hal⟩
  | emit i n =>
    by_cases hi : i = 0
    · subst hi
      cases hT : a.term with
      | true =>
        have hts : terminated s = true := by rw [← ht, hT]
        have ha : a.step (.emit 0 n) = a := by simp [OA.step, hT]
        rw [ha]
        exact ⟨by simp [scriptOf, gate_append_of_terminated _ _ hts, hq],
               by simp [scriptOf, terminated_append, hts, hT], hl, hal⟩
      | false =>
        have hts : terminated s = false := by rw [← ht, hT]
        have hgs : gate s = s := gate_eq_self_of_not_terminated s hts
        have hD : terminated a.D = false := by
          have := terminated_append a.D a.F
          rw [hq, hgs, hts] at this
          cases h : terminated a.D with
          | false => rfl
          | true => rw [h] at this; simp at this
        have hA : a.alive = true := by rw [hal, hD]; rfl
        have ha : a.step (.emit 0 n) = { a with F := a.F ++ [n], term := n.isTerm } := by
          simp [OA.step, hT, hA]
        rw [ha]
        refine ⟨?_, ?_, hl, hal⟩
        · simp only [scriptOf, if_true]
          rw [gate_append_of_not_terminated _ _ hts, ← List.append_assoc, hq, hgs]
          cases n <;> rfl
        · simp [scriptOf, terminated_append, hts, terminated_single]
    · have ha : a.step (.emit i n) = a := by simp [OA.step, hi]
      rw [ha]
      simpa [scriptOf, hi] using (⟨hq, ht, hl, hal⟩ : OInv a s)
  | run =>
    have hwf : WF (a.D ++ a.F) := by rw [hq]; exact WF_gate s
    obtain ⟨_, hDF, hF⟩ := (WF_append_iff _ _).mp hwf
    simp only [scriptOf, List.append_nil, OA.step, OA.run]
    cases hD : terminated a.D with
    | true =>
      have hFn := hDF hD
      refine ⟨by simpa [hFn] using hq, ht, ?_, ?_⟩
      · simp [hFn, deliver, hl]
      · simp [hFn, deliver, hal, hD]
    | false =>
      have hA : a.alive = true := by rw [hal, hD]; rfl
      refine ⟨by simpa using hq, ht, ?_, ?_⟩
      · simp [hA, deliver_true, gate_of_WF hF, hl]
      · simp [hA, deliver_true, terminated_append, hD]

theorem fold_sim : ∀ (evs : List TW.Ev) (a : OA) (w : TW) (s : List Notif),
    RO a w → OInv a s → (∀ e ∈ evs, FifoEv e) →
    RO (evs.foldl OA.step a) (evs.foldl TW.step w) ∧ OInv (evs.foldl OA.step a) (s ++ script evs) := by
  intro evs
  induction evs with
  | nil => intro a w s hr hi _; simpa [script] using And.intro hr hi
  | cons e r ih =>
    intro a w s hr hi hall
    have he := hall e (List.mem_cons_self ..)
    have := ih (a.step e) (w.step e) (s ++ scriptOf e) (step_sim a w e he hr) (OInv_step a s e he hi)
      (fun x hx => hall x (List.mem_cons_of_mem _ hx))
    simpa [script, List.flatMap_cons, List.append_assoc] using this

/-- The world of the statement: `observe_on` over the hot subject 0. -/
def w₀ : TW := { src := .hot 0, stages := [.observeOn true (some [])] }

theorem RO_init : RO {} (w₀.step .sub) :=
  ⟨w₀.step .sub, some [], rfl, rfl, rfl, fun _ => rfl, rfl⟩

theorem OInv_init : OInv {} [] := ⟨rfl, rfl, rfl, rfl⟩

theorem fifo_main (evs : List TW.Ev) (hall : ∀ e ∈ evs, FifoEv e) :
    ∃ a : OA, RO a (evs.foldl TW.step (w₀.step .sub)) ∧ OInv a (script evs) := by
  have := fold_sim evs {} _ [] RO_init OInv_init hall
  exact ⟨_, this.1, by simpa using this.2⟩

theorem RO_log {a : OA} {w : TW} (h : RO a w) : w.log = a.log := by
  obtain ⟨base, m, rfl, _⟩ := h; rfl

theorem fifo_prefix (evs : List TW.Ev) (hall : ∀ e ∈ evs, FifoEv e) :
    (evs.foldl TW.step (w₀.step .sub)).log <+: gate (script evs) := by
  obtain ⟨a, hr, hi⟩ := fifo_main evs hall
  rw [RO_log hr, hi.log, ← hi.q]
  exact List.prefix_append _ _

theorem fifo_all (evs : List TW.Ev) (hall : ∀ e ∈ evs, FifoEv e) :
    ((evs ++ [TW.Ev.run]).foldl TW.step (w₀.step .sub)).log = gate (script (evs ++ [TW.Ev.run])) := by
  obtain ⟨a, hr, hi⟩ := fifo_main evs hall
  have hr' := step_sim a _ TW.Ev.run FifoEv.run hr
  have hi' := OInv_step a _ TW.Ev.run FifoEv.run hi
  rw [List.foldl_append, List.foldl_cons, List.foldl_nil, RO_log hr', hi'.log]
  have hq := hi'.q
  have hF : (a.step TW.Ev.run).F = [] := rfl
  rw [hF, List.append_nil] at hq
  rw [hq]
  simp [script, scriptOf]

end Rx.T.Obs
