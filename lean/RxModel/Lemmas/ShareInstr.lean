import RxModel.Subject.ShareLemmas
/-
  Ghost instrumentation of the share model (C01M / C02M): the same deliveries,
  each tagged with the id of the `Subscriber` cell (= the subscription) it went
  through.  States are those of the model itself (`W.step`); only the output is
  refined, and erasing the tags gives the model's output back.
-/
namespace Rx.Share
namespace W

/-- A tagged delivery: cell id, probe label, notification. -/
abbrev IDlv := Nat × Nat × Notif

def eraseId (d : IDlv) : Dlv := (d.2.1, d.2.2)

/-- `broadcast` with cell ids. -/
def bcastI (cells : List (Option Nat)) (obs : List Nat) (n : Notif) : List IDlv :=
  obs.filterMap fun id => ((cells[id]?).join).map fun l => (id, l, n)

/-- Deliveries of `Subject::next / error / complete` on the inner subject. -/
def subjCallI (w : W) (n : Notif) : List IDlv :=
  match (load w.subj).observers with
  | some obs => bcastI w.cells obs n
  | none => []

def coldEmitI (w : W) : List Val → List IDlv
  | [] => subjCallI w .complete
  | v :: r => subjCallI w (.next v) ++ coldEmitI (w.tapCall (.next v)).1 r

def doConnectI (w : W) : List IDlv :=
  match w.cold with
  | some xs => coldEmitI { w with connected := true, srcSubs := w.srcSubs + 1 } xs
  | none => []

def subscribeI (w : W) (k : Nat) : List IDlv :=
  match w.kind with
  | .publish => []
  | .share => if w.connected then [] else doConnectI (w.attach k)

def hotEmitI (w : W) : Notif → List IDlv
  | .next v => if w.hotOpen && w.hotEntry && w.connCell then subjCallI w (.next v) else []
  | t =>
    if w.hotOpen then
      if w.hotEntry && w.connCell then subjCallI w t else []
    else []

def stepI (w : W) : Ev → List IDlv
  | .sub k => subscribeI w k
  | .unsub _ => []
  | .emit n => hotEmitI w n
  | .connect =>
    match w.kind with
    | .publish => if w.connected then [] else doConnectI w
    | .share => []
  | .q => []

/-- All tagged deliveries of a history, in order. -/
def runI : W → List Ev → List IDlv
  | _, [] => []
  | w, e :: r => stepI w e ++ runI (w.step e).1 r

/-- All deliveries of a history, in order. -/
def dlvs (os : List Out) : List Dlv := os.flatMap dlvOf

/-! ### erasure -/

theorem bcastI_erase (cells : List (Option Nat)) (obs : List Nat) (n : Notif) :
    (bcastI cells obs n).map eraseId = broadcast cells obs n := by
  induction obs with
  | nil => rfl
  | cons id r ih =>
    simp only [bcastI, broadcast, List.filterMap_cons] at ih ⊢
    cases h : (cells[id]?).join <;> simp [eraseId, ih]

theorem subjNext_erase (w : W) (v : Val) :
    (subjCallI w (.next v)).map eraseId = (w.subjNext v).2 := by
  simp only [subjCallI, subjNext]
  split <;> simp [*, bcastI_erase]

theorem subjTerminal_erase (w : W) (t : Notif) :
    (subjCallI w t).map eraseId = (w.subjTerminal t).2 := by
  simp only [subjCallI, subjTerminal]
  split <;> simp [*, bcastI_erase]

theorem tapCall_erase (w : W) (n : Notif) : (subjCallI w n).map eraseId = (w.tapCall n).2 := by
  cases n with
  | next v =>
    have := subjNext_erase { w with tap := w.tap + 1 } v
    simpa [tapCall, subjCallI] using this
  | error e => exact subjTerminal_erase w _
  | complete => exact subjTerminal_erase w _

theorem coldEmit_erase (xs : List Val) : ∀ w : W, (coldEmitI w xs).map eraseId = (w.coldEmit xs).2 := by
  induction xs with
  | nil => intro w; exact tapCall_erase w .complete
  | cons v r ih =>
    intro w
    simp only [coldEmitI, coldEmit, List.map_append, ih, tapCall_erase]

theorem doConnect_erase (w : W) (keep : Bool) :
    (doConnectI w).map eraseId = (w.doConnect keep).2 := by
  simp only [doConnectI, doConnect]
  split <;> simp [*, coldEmit_erase]

theorem hotEmit_erase (w : W) (n : Notif) : (hotEmitI w n).map eraseId = (w.hotEmit n).2 := by
  cases n with
  | next v =>
    simp only [hotEmitI, hotEmit]
    split
    · exact tapCall_erase w _
    · rfl
  | error e =>
    simp only [hotEmitI, hotEmit]
    split
    · split
      · have := tapCall_erase { w with hotOpen := false, connCell := false } (.error e)
        simpa [subjCallI] using this
      · rfl
    · rfl
  | complete =>
    simp only [hotEmitI, hotEmit]
    split
    · split
      · have := tapCall_erase { w with hotOpen := false, connCell := false } .complete
        simpa [subjCallI] using this
      · rfl
    · rfl

theorem stepI_erase (w : W) (e : Ev) : (stepI w e).map eraseId = dlvOf (w.step e).2 := by
  cases e with
  | sub k =>
    cases hk : w.kind with
    | publish => simp [stepI, step, dlvOf, subscribeI, subscribe, hk]
    | share =>
      cases hc : w.connected with
      | true => simp [stepI, step, dlvOf, subscribeI, subscribe, hk, hc]
      | false =>
        simpa [stepI, step, dlvOf, subscribeI, subscribe, hk, hc] using doConnect_erase _ _
  | unsub k => rfl
  | emit n => simpa [stepI, step, dlvOf] using hotEmit_erase w n
  | connect =>
    cases hk : w.kind with
    | publish =>
      cases hc : w.connected with
      | true => simp [stepI, step, dlvOf, hk, hc]
      | false => simpa [stepI, step, dlvOf, hk, hc] using doConnect_erase _ _
    | share => simp [stepI, step, dlvOf, hk]
  | q => rfl

theorem runI_erase (es : List Ev) : ∀ w : W, (runI w es).map eraseId = dlvs (w.run es).2 := by
  induction es with
  | nil => intro w; rfl
  | cons e r ih =>
    intro w
    simp only [runI, run, dlvs, List.map_append, List.flatMap_cons, stepI_erase]
    rw [ih]; rfl

end W
end Rx.Share
