import RxModel.Lemmas.ChainRetireSub
/-
  C16 over the chain model, part 8: task bodies (`runBody`, `runTick`,
  `runAsync`) and the three external events that are not the executor's
  (`sub`, `emit`, `unsub`) are `Eff` moves.  Source-level tasks are only spawned
  by a subscribing body (`Eff true`); everything else is `Eff false`.
-/
namespace Rx.T
open Rx

theorem Eff.of_false {w w' : TW} (a : Bool) (h : Eff false w w') : Eff a w w' := by
  cases a with
  | false => exact h
  | true => exact h.mono

/-! ### once-bodies -/

theorem runBody_emit_eff (w : TW) (j : Nat) (n : Notif) : Eff false w (w.runBody (.emit j n)) := by
  cases hj : w.stages[j]? with
  | none => simp only [TW.runBody, hj]; exact Eff.refl _ _
  | some st0 =>
    cases st0 with
    | delay d alive multi =>
      simp only [TW.runBody, hj]
      cases alive with
      | false => exact Eff.refl _ _
      | true =>
        simp only [if_true]
        have e1 : Eff false w (if n.isTerm = true then w.setStage j (.delay d false multi) else w) := by
          split
          · exact Eff.setStage w j _ _ hj ⟨rfl, rfl, fun h => by simp [Stage.sf] at h, fun _ => id⟩ rfl
          · exact Eff.refl _ _
        exact e1.then_push_below j _ _ hj rfl (fun h => by simp [Stage.sf] at h)
    | observeOn alive multi =>
      simp only [TW.runBody, hj]
      cases alive with
      | false => exact Eff.refl _ _
      | true =>
        simp only [if_true]
        have e1 : Eff false w (if n.isTerm = true then w.setStage j (.observeOn false multi) else w) := by
          split
          · exact Eff.setStage w j _ _ hj ⟨rfl, rfl, fun h => by simp [Stage.sf] at h, fun _ => id⟩ rfl
          · exact Eff.refl _ _
        exact e1.then_push_below j _ _ hj rfl (fun h => by simp [Stage.sf] at h)
    | _ => simp only [TW.runBody, hj]; exact Eff.refl _ _

theorem runBody_debounce_eff (w : TW) (j : Nat) : Eff false w (w.runBody (.debounce j)) := by
  cases hj : w.stages[j]? with
  | none => simp only [TW.runBody, hj]; exact Eff.refl _ _
  | some st0 =>
    cases st0 with
    | debounce d alive tr h =>
      cases tr with
      | none => simp only [TW.runBody, hj]; exact Eff.refl _ _
      | some v =>
        simp only [TW.runBody, hj]
        have e1 : Eff false w (w.setStage j (.debounce d alive none h)) :=
          Eff.setStage w j _ _ hj ⟨rfl, rfl, id, fun _ => id⟩ rfl
        cases alive with
        | false => exact e1
        | true =>
          simp only [if_true]
          exact e1.then_push_below j _ _ hj rfl (fun h => by simp [Stage.sf] at h)
    | _ => simp only [TW.runBody, hj]; exact Eff.refl _ _

theorem runBody_throttle_eff (w : TW) (j : Nat) : Eff false w (w.runBody (.throttle j)) := by
  cases hj : w.stages[j]? with
  | none => simp only [TW.runBody, hj]; exact Eff.refl _ _
  | some st0 =>
    cases st0 with
    | throttle d e alive tr h =>
      cases tr with
      | none => simp only [TW.runBody, hj]; exact Eff.refl _ _
      | some v =>
        simp only [TW.runBody, hj]
        have e1 : Eff false w (w.setStage j (.throttle d e alive none h)) :=
          Eff.setStage w j _ _ hj ⟨rfl, rfl, id, fun _ => id⟩ rfl
        cases alive with
        | false => exact e1
        | true =>
          simp only [if_true]
          exact e1.then_push_below j _ _ hj rfl (fun h => by simp [Stage.sf] at h)
    | _ => simp only [TW.runBody, hj]; exact Eff.refl _ _

theorem runBody_eff (w : TW) (b : Body) (hb : b.okFor w.src) : Eff b.isSub w (w.runBody b) := by
  cases b with
  | emit j n => exact runBody_emit_eff w j n
  | debounce j => exact runBody_debounce_eff w j
  | throttle j => exact runBody_throttle_eff w j
  | subscribe j => exact subscribeFrom_eff j w
  | timerSrc v =>
    refine Eff.push w 0 _ (fun hs => Or.inl (sealed_fin hs)) ?_
    intro _ hp
    obtain ⟨v', d, hsrc⟩ := hb
    rw [hsrc] at hp; cases hp
  | tick => exact Eff.refl _ _
  | bufTick j => exact Eff.refl _ _
  | tickN j => exact Eff.refl _ _
  | futureSrc => exact Eff.refl _ _
  | streamSrc => exact Eff.refl _ _

/-! ### ticks -/

theorem runTick_eff (w : TW) (b : Body) (seq : Nat) : Eff false w (w.runTick b seq).1 := by
  cases b with
  | tick =>
    simp only [TW.runTick]
    split
    · exact Eff.refl _ _
    · rename_i hnf
      dsimp only
      exact Eff.push w 0 _ (fun hs => absurd (sealed_fin hs) hnf) (fun hf _ => absurd hf hnf)
  | tickN j =>
    cases hj : w.stages[j]? with
    | none => simp only [TW.runTick, hj]; exact Eff.refl _ _
    | some st0 =>
      cases st0 with
      | op2n st nsrc na nt =>
        simp only [TW.runTick, hj]
        split
        · exact Eff.refl _ _
        · dsimp only; exact pushB_eff w j _
      | _ => simp only [TW.runTick, hj]; exact Eff.refl _ _
  | bufTick j =>
    cases hj : w.stages[j]? with
    | none => simp only [TW.runTick, hj]; exact Eff.refl _ _
    | some st0 =>
      cases st0 with
      | bufTime d cnt alive data t =>
        simp only [TW.runTick, hj]
        split
        · exact Eff.refl _ _
        · rename_i hc
          simp only [Bool.or_eq_true, Bool.not_eq_true', not_or, Bool.not_eq_false,
            Bool.not_eq_true] at hc
          have e1 : Eff false w (w.setStage j (.bufTime d cnt alive [] t)) :=
            Eff.setStage w j _ _ hj ⟨rfl, rfl, id, fun _ => id⟩ rfl
          dsimp only
          refine e1.then_push (j + 1) _ ?_ ?_
          · intro hs
            rcases sealed_at hs hj rfl with h | h
            · simp only [Stage.sf, Bool.not_eq_true'] at h; rw [h] at hc; cases hc.1
            · rw [hc.2] at h; cases h
          · intro _ _
            exact Or.inl (Nat.le_succ_of_le (syncLen_le_of_not_op1 hj rfl))
      | _ => simp only [TW.runTick, hj]; exact Eff.refl _ _
  | _ => exact Eff.refl _ _

/-! ### async bodies -/

theorem pollFuture_eff (w : TW) (res : Bool) (hp : w.src.polls = false) :
    Eff false w (w.pollFuture res).1 := by
  have push0 : ∀ (r : List AStep) (ns : List Notif),
      Eff false w (({ w with srcRest := r } : TW).push 0 ns) := by
    intro r ns
    have e0 : Eff false w ({ w with srcRest := r } : TW) := Eff.of_eq rfl rfl rfl rfl rfl
    exact e0.then_push 0 ns (fun hs => Or.inl (sealed_fin hs)) (fun _ h => by rw [hp] at h; cases h)
  cases hr : w.srcRest with
  | nil => simp only [TW.pollFuture, hr]; exact Eff.refl _ _
  | cons st r =>
    cases st with
    | hang => simp only [TW.pollFuture, hr]; exact Eff.refl _ _
    | pending => simp only [TW.pollFuture, hr]; exact Eff.of_eq rfl rfl rfl rfl rfl
    | ready v => simp only [TW.pollFuture, hr]; exact push0 r _
    | err e =>
      simp only [TW.pollFuture, hr]
      split
      · exact push0 r _
      · exact push0 r _

theorem streamLap_eff (res : Bool) : ∀ (l : List AStep) (w : TW), Eff false w (TW.streamLap res l w).1 := by
  intro l
  induction l with
  | nil => intro w; simp only [TW.streamLap]; exact Eff.of_eq rfl rfl rfl rfl rfl
  | cons st r ih =>
    intro w
    simp only [TW.streamLap]
    split
    · exact Eff.of_eq rfl rfl rfl rfl rfl
    · rename_i hnf
      have hlog : ∀ ns : List Notif, sealed w.stages = true → fin (w.stages.drop 0) = true ∨ ns = [] :=
        fun _ hs => absurd (sealed_fin hs) hnf
      have hhead : ∀ ns : List Notif, fin w.stages = true → w.src.polls = true →
          syncLen w.stages ≤ 0 ∨ ns = [] := fun _ hf _ => absurd hf hnf
      have e1 : Eff false w { w with pulls := w.pulls + 1 } := Eff.pull w (fun hf _ => hnf hf)
      cases st with
      | ready v =>
        simp only
        exact (e1.then_push 0 _ (hlog _) (hhead _)).trans (ih _)
      | err e =>
        simp only
        split
        · have e1' : Eff false w { w with pulls := w.pulls + 1, srcRest := r } :=
            e1.trans (Eff.of_eq rfl rfl rfl rfl rfl)
          exact e1'.then_push 0 _ (hlog _) (hhead _)
        · exact (e1.then_push 0 _ (hlog _) (hhead _)).trans (ih _)
      | pending => simp only; exact Eff.of_eq rfl rfl rfl rfl rfl
      | hang => simp only; exact Eff.of_eq rfl rfl rfl rfl rfl

theorem streamLap_exhausted (res : Bool) : ∀ (l : List AStep) (w : TW),
    (TW.streamLap res l w).2 = .exhausted → fin (TW.streamLap res l w).1.stages = false := by
  intro l
  induction l with
  | nil =>
    intro w h
    simp only [TW.streamLap] at h ⊢
    cases hf : fin w.stages with
    | false => rfl
    | true => rw [hf] at h; simp at h
  | cons st r ih =>
    intro w h
    simp only [TW.streamLap] at h ⊢
    split at h
    · cases h
    · rename_i hnf
      rw [if_neg hnf]
      cases st with
      | ready v => exact ih _ h
      | err e =>
        simp only at h ⊢
        split at h
        · cases h
        · rename_i hr; rw [if_neg hr]; exact ih _ h
      | pending => cases h
      | hang => cases h

theorem pollStream_eff (res : Bool) (script : List AStep) (cyc : Bool) : ∀ (f : Nat) (w : TW),
    Eff false w (TW.pollStream res script cyc f w).1 := by
  intro f
  induction f with
  | zero => intro w; exact Eff.refl _ _
  | succ f ih =>
    intro w
    simp only [TW.pollStream]
    have e1 := streamLap_eff res w.srcRest w
    have hex := streamLap_exhausted res w.srcRest w
    generalize TW.streamLap res w.srcRest w = r at e1 hex
    obtain ⟨w1, o⟩ := r
    cases o with
    | exhausted =>
      simp only
      have hnf : ¬ fin w1.stages = true := by rw [hex rfl]; simp
      dsimp only at e1
      split
      · exact (e1.trans (Eff.of_eq rfl rfl rfl rfl rfl : Eff false w1 { w1 with srcRest := script })).trans (ih _)
      · dsimp only
        exact e1.trans (Eff.push w1 0 _ (fun hs => absurd (sealed_fin hs) hnf) (fun hf _ => absurd hf hnf))
    | done => exact e1
    | pending wk => exact e1

theorem runAsync_eff (w : TW) (b : Body) : Eff false w (w.runAsync b).1 := by
  cases b with
  | futureSrc =>
    cases hsrc : w.src with
    | future res sc => simp only [TW.runAsync, hsrc]; exact pollFuture_eff w res (by rw [hsrc]; rfl)
    | _ => simp only [TW.runAsync, hsrc]; exact Eff.refl _ _
  | streamSrc =>
    cases hsrc : w.src with
    | stream res sc cyc => simp only [TW.runAsync, hsrc]; exact pollStream_eff res sc cyc _ w
    | _ => simp only [TW.runAsync, hsrc]; exact Eff.refl _ _
  | _ => simp only [TW.runAsync]; exact Eff.refl _ _

end Rx.T
