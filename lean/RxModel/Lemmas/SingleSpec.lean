import RxModel.Ops.Init
/-
  Helper lemmas: each single-input observer machine computes its list spec.
  (Property statements live in RxModel/Props/C03.lean.)
-/
set_option linter.unusedSimpArgs false
namespace Rx
open Spec St1

/-- The terminal part of a canonical stream. -/
def termL : Option Notif → List Notif
  | some n => [n]
  | none => []

theorem mk_eq (xs : List Val) (t : Option Notif) : mk xs t = xs.map Notif.next ++ termL t := by
  cases t <;> rfl

theorem run_mk (s : St1) (xs : List Val) (t : Option Notif) :
    (run s (mk xs t)).2 =
      (run s (xs.map .next)).2 ++ (run (run s (xs.map .next)).1 (termL t)).2 := by
  rw [mk_eq, run_append]

@[simp] theorem run_nil (s : St1) : run s [] = (s, []) := rfl
@[simp] theorem run_cons (s : St1) (n : Notif) (r : List Notif) :
    run s (n :: r) = ((run (s.step n).1 r).1, (s.step n).2 ++ (run (s.step n).1 r).2) := rfl

@[simp] theorem step_next (s : St1) (v : Val) : s.step (.next v) = s.onNext v := rfl
@[simp] theorem step_error (s : St1) (e : Err) : s.step (.error e) = s.onError' e := rfl
@[simp] theorem step_complete (s : St1) : s.step .complete = s.onComplete' := rfl

/-- Validity: the terminal of a stream is error or complete. -/
theorem valid_cases {t : Option Notif} (h : ∀ n, t = some n → n.isTerm = true) :
    t = none ∨ t = some .complete ∨ ∃ e, t = some (.error e) := by
  cases t with
  | none => exact Or.inl rfl
  | some n =>
    cases n with
    | next v => simp [Notif.isTerm] at h
    | error e => exact Or.inr (Or.inr ⟨e, rfl⟩)
    | complete => exact Or.inr (Or.inl rfl)

/-! ### stateless operators -/

theorem map_items (f : Val → Val) (xs : List Val) :
    run (.map f) (xs.map .next) = (.map f, (xs.map f).map .next) := by
  induction xs with
  | nil => rfl
  | cons x xs ih => simp [onNext, ih]

theorem mapTo_items (c : Val) (xs : List Val) :
    run (.mapTo c) (xs.map .next) = (.mapTo c, (xs.map fun _ => c).map .next) := by
  induction xs with
  | nil => rfl
  | cons x xs ih => simp [onNext, ih]

theorem filter_items (p : Val → Bool) (xs : List Val) :
    run (.filter p) (xs.map .next) = (.filter p, (xs.filter p).map .next) := by
  induction xs with
  | nil => rfl
  | cons x xs ih => by_cases h : p x <;> simp [onNext, ih, h]

theorem filterMap_items (f : Val → Option Val) (xs : List Val) :
    run (.filterMap f) (xs.map .next) = (.filterMap f, (xs.filterMap f).map .next) := by
  induction xs with
  | nil => rfl
  | cons x xs ih => cases h : f x <;> simp [onNext, ih, h]

theorem tap_items (c : Nat) (xs : List Val) :
    run (.tap c) (xs.map .next) = (.tap (c + xs.length), xs.map .next) := by
  induction xs generalizing c with
  | nil => rfl
  | cons x xs ih => simp [onNext, ih]; omega

theorem onErrorMap_items (f : Err → Err) (xs : List Val) :
    run (.onErrorMap f) (xs.map .next) = (.onErrorMap f, xs.map .next) := by
  induction xs with
  | nil => rfl
  | cons x xs ih => simp [onNext, ih]

/-! ### operators with an `Option` slot: once dead, silent for ever -/

theorem take_dead (n h : Nat) (s : List Notif) :
    run (.take n h false) s = (.take n h false, []) := by
  induction s with
  | nil => rfl
  | cons x r ih => cases x <;> simp [onNext, onError', onComplete', ih]

theorem take_items (n : Nat) (xs : List Val) (h : Nat) (hlt : h < n) :
    run (.take n h true) (xs.map .next) =
      if n - h ≤ xs.length then (.take n n false, (xs.take (n - h)).map .next ++ [.complete])
      else (.take n (h + xs.length) true, xs.map .next) := by
  induction xs generalizing h with
  | nil => simp; omega
  | cons x xs ih =>
    simp only [List.map_cons, run_cons, step_next, onNext, hlt, if_true]
    by_cases h1 : h + 1 = n
    · subst h1
      simp [take_dead]
    · have hlt' : h + 1 < n := by omega
      simp only [h1, if_false, ih (h + 1) hlt', List.length_cons]
      have e : n - h = (n - (h + 1)) + 1 := by omega
      by_cases h2 : n - (h + 1) ≤ xs.length
      · simp [h2, e]
      · have : ¬ (n - h ≤ xs.length + 1) := by omega
        simp [h2, this]; omega

theorem take_zero (xs : List Val) :
    run (.take 0 0 true) (xs.map .next) = (.take 0 0 true, []) := by
  induction xs with
  | nil => rfl
  | cons x xs ih => simp [onNext, ih]

theorem takeWhile_dead (p : Val → Bool) (i : Bool) (s : List Notif) :
    run (.takeWhile p i false) s = (.takeWhile p i false, []) := by
  induction s with
  | nil => rfl
  | cons x r ih => cases x <;> simp [onNext, onError', onComplete', ih]

theorem takeWhile_items (p : Val → Bool) (i : Bool) (xs : List Val) :
    run (.takeWhile p i true) (xs.map .next) =
      if xs.all p then (.takeWhile p i true, xs.map .next)
      else (.takeWhile p i false,
        (xs.takeWhile p ++ (if i then (xs.dropWhile p).take 1 else [])).map .next ++ [.complete]) := by
  induction xs with
  | nil => simp
  | cons x xs ih =>
    by_cases hx : p x
    · simp only [List.map_cons, run_cons, step_next, onNext, hx, if_true, ih, List.all_cons,
        Bool.true_and, List.takeWhile_cons, List.dropWhile_cons]
      by_cases ha : xs.all p <;> simp [ha]
    · cases i <;> simp [onNext, hx, takeWhile_dead, List.takeWhile_cons, List.dropWhile_cons]

theorem contains_dead (tg : Val) (s : List Notif) :
    run (.contains tg false) s = (.contains tg false, []) := by
  induction s with
  | nil => rfl
  | cons x r ih =>
    cases x with
    | next v =>
      by_cases h : tg = v
      · subst h; simp [onNext, ih]
      · simp [onNext, h, ih]
    | error e => simp [onError', ih]
    | complete => simp [onComplete', ih]

theorem contains_items (tg : Val) (xs : List Val) :
    run (.contains tg true) (xs.map .next) =
      if xs.contains tg then (.contains tg false, [.next (.bool true), .complete])
      else (.contains tg true, []) := by
  induction xs with
  | nil => simp
  | cons x xs ih =>
    by_cases h : tg = x
    · subst h; simp [onNext, contains_dead]
    · have h' : ¬ x = tg := fun e => h e.symm
      simp [onNext, h, ih, List.contains_cons, h']

/-! ### counters, flags, queues -/

theorem skip_items (n : Nat) (xs : List Val) (h : Nat) :
    run (.skip n h) (xs.map .next) = (.skip n (h + xs.length), (xs.drop (n - h)).map .next) := by
  induction xs generalizing h with
  | nil => simp
  | cons x xs ih =>
    simp only [List.map_cons, run_cons, step_next, onNext, ih, List.length_cons]
    by_cases hgt : h + 1 > n
    · have e1 : n - h = 0 := by omega
      have e2 : n - (h + 1) = 0 := by omega
      simp [hgt, e1, e2]; omega
    · have e : n - h = (n - (h + 1)) + 1 := by omega
      simp [hgt, e]; omega

theorem skipWhile_done (p : Val → Bool) (xs : List Val) :
    run (.skipWhile p true) (xs.map .next) = (.skipWhile p true, xs.map .next) := by
  induction xs with
  | nil => rfl
  | cons x xs ih => simp [onNext, ih]

theorem skipWhile_items (p : Val → Bool) (xs : List Val) :
    (run (.skipWhile p false) (xs.map .next)).2 = (xs.dropWhile p).map .next := by
  induction xs with
  | nil => rfl
  | cons x xs ih =>
    by_cases hx : p x
    · simp [onNext, hx, ih, List.dropWhile_cons]
    · simp [onNext, hx, skipWhile_done, List.dropWhile_cons]

theorem skipWhile_term (p : Val → Bool) (d : Bool) (xs : List Val) :
    ∃ d', (run (.skipWhile p d) (xs.map .next)).1 = .skipWhile p d' := by
  induction xs generalizing d with
  | nil => exact ⟨d, rfl⟩
  | cons x xs ih =>
    simp only [List.map_cons, run_cons, step_next, onNext]
    cases d
    · by_cases hx : p x <;> simp [hx, ih]
    · simp [ih]

theorem lastN_lastN_append (n : Nat) (a b : List Val) :
    lastN n (lastN n a ++ b) = lastN n (a ++ b) := by
  unfold lastN
  by_cases h : a.length ≤ n
  · have : a.length - n = 0 := by omega
    simp [this]
  · have hl : (List.drop (a.length - n) a).length = n := by simp; omega
    simp only [List.length_append, hl, List.length_drop]
    have e1 : n + b.length - n = b.length := by omega
    have e2 : a.length + b.length - n = (a.length - n) + b.length := by omega
    rw [e1, e2, ← List.drop_drop]
    congr 1
    rw [List.drop_append_of_le_length (by omega)]

theorem takeLast_items (n : Nat) (xs q : List Val) :
    run (.takeLast n q) (xs.map .next) =
      (.takeLast n (if xs = [] then q else lastN n (q ++ xs)), []) := by
  induction xs generalizing q with
  | nil => simp
  | cons x xs ih =>
    simp only [List.map_cons, run_cons, step_next, onNext, ih, List.nil_append]
    by_cases hx : xs = []
    · subst hx; simp
    · simp [hx, lastN_lastN_append]

theorem skipLast_items (xs : List Val) (cd : Nat) (q : List Val) :
    run (.skipLast cd q) (xs.map .next) =
      if xs.length ≤ cd then (.skipLast (cd - xs.length) (q ++ xs), [])
      else (.skipLast 0 ((q ++ xs).drop (xs.length - cd)),
            ((q ++ xs).take (xs.length - cd)).map .next) := by
  induction xs generalizing cd q with
  | nil => simp
  | cons x xs ih =>
    simp only [List.map_cons, run_cons, step_next, onNext]
    by_cases hcd : cd = 0
    · subst hcd
      cases hq : q ++ [x] with
      | nil => simp at hq
      | cons h t =>
        have e : q ++ x :: xs = h :: (t ++ xs) := by
          rw [show q ++ x :: xs = (q ++ [x]) ++ xs by simp, hq]; rfl
        by_cases hx : xs = []
        · subst hx; simp [e]
        · simp [ih, e, hx]
    · have e : q ++ [x] ++ xs = q ++ x :: xs := by simp
      simp only [hcd, if_false, ih, e, List.length_cons, List.nil_append]
      by_cases h1 : xs.length ≤ cd - 1
      · have h2 : xs.length + 1 ≤ cd := by omega
        simp [h1, h2]; omega
      · have h2 : ¬ xs.length + 1 ≤ cd := by omega
        have e3 : xs.length + 1 - cd = xs.length - (cd - 1) := by omega
        simp [h1, h2, e3]

theorem last_items (xs : List Val) (l : Option Val) :
    run (.last l) (xs.map .next) = (.last (if xs = [] then l else xs.getLast?), []) := by
  induction xs generalizing l with
  | nil => simp
  | cons x xs ih =>
    simp only [List.map_cons, run_cons, step_next, onNext, ih, List.nil_append]
    cases xs with
    | nil => simp
    | cons y ys => simp [List.getLast?_cons_cons]

theorem defaultIfEmpty_items (d : Val) (xs : List Val) (b : Bool) :
    run (.defaultIfEmpty b d) (xs.map .next) =
      (.defaultIfEmpty (if xs = [] then b else false) d, xs.map .next) := by
  induction xs generalizing b with
  | nil => simp
  | cons x xs ih => simp [onNext, ih]

theorem scan_items (op : Val → Val → Val) (xs : List Val) (a : Val) :
    run (.scan op a) (xs.map .next) = (.scan op (xs.foldl op a), (scanFrom op a xs).map .next) := by
  induction xs generalizing a with
  | nil => simp [scanFrom]
  | cons x xs ih => simp [onNext, ih, scanFrom]

theorem distinct_items (xs seen : List Val) :
    (run (.distinct seen) (xs.map .next)).2 = (dedupBy id seen xs).map .next := by
  induction xs generalizing seen with
  | nil => simp [dedupBy]
  | cons x xs ih =>
    by_cases h : x ∈ seen <;> simp [onNext, h, ih, dedupBy]

theorem distinct_state (xs seen : List Val) :
    ∃ s', (run (.distinct seen) (xs.map .next)).1 = .distinct s' := by
  induction xs generalizing seen with
  | nil => exact ⟨seen, rfl⟩
  | cons x xs ih =>
    by_cases h : x ∈ seen <;> simp [onNext, h, ih]

theorem distinctKey_items (key : Val → Val) (xs seen : List Val) :
    (run (.distinctKey key seen) (xs.map .next)).2 = (dedupBy key seen xs).map .next := by
  induction xs generalizing seen with
  | nil => simp [dedupBy]
  | cons x xs ih =>
    by_cases h : key x ∈ seen <;> simp [onNext, h, ih, dedupBy]

theorem distinctKey_state (key : Val → Val) (xs seen : List Val) :
    ∃ s', (run (.distinctKey key seen) (xs.map .next)).1 = .distinctKey key s' := by
  induction xs generalizing seen with
  | nil => exact ⟨seen, rfl⟩
  | cons x xs ih =>
    by_cases h : key x ∈ seen <;> simp [onNext, h, ih]

theorem duc_items (xs : List Val) (l : Option Val) :
    (run (.distinctUntilChanged l) (xs.map .next)).2 = (dedupAdj id l xs).map .next := by
  induction xs generalizing l with
  | nil => cases l <;> simp [dedupAdj]
  | cons x xs ih =>
    cases l with
    | none => simp [onNext, ih, dedupAdj]
    | some p =>
      by_cases h : p = x
      · subst h; simp [onNext, ih, dedupAdj]
      · simp [onNext, h, ih, dedupAdj]

theorem duc_state (xs : List Val) (l : Option Val) :
    ∃ l', (run (.distinctUntilChanged l) (xs.map .next)).1 = .distinctUntilChanged l' := by
  induction xs generalizing l with
  | nil => exact ⟨l, rfl⟩
  | cons x xs ih =>
    by_cases h : l = some x <;> simp [onNext, h, ih]

theorem dukc_items (key : Val → Val) (xs : List Val) (l : Option Val) :
    (run (.distinctUntilKeyChanged key l) (xs.map .next)).2 = (dedupAdj key l xs).map .next := by
  induction xs generalizing l with
  | nil => cases l <;> simp [dedupAdj]
  | cons x xs ih =>
    cases l with
    | none => simp [onNext, ih, dedupAdj]
    | some p =>
      by_cases h : key p = key x <;> simp [onNext, h, ih, dedupAdj]

theorem dukc_state (key : Val → Val) (xs : List Val) (l : Option Val) :
    ∃ l', (run (.distinctUntilKeyChanged key l) (xs.map .next)).1 =
      .distinctUntilKeyChanged key l' := by
  induction xs generalizing l with
  | nil => exact ⟨l, rfl⟩
  | cons x xs ih =>
    cases l with
    | none => simp [onNext, ih]
    | some p => by_cases h : key p = key x <;> simp [onNext, h, ih]

theorem pairwise_items (xs : List Val) (x0 y : Option Val) :
    (run (.pairwise x0 y) (xs.map .next)).2 = (pairs (y.toList ++ xs)).map .next := by
  induction xs generalizing x0 y with
  | nil => cases y <;> simp [pairs]
  | cons x xs ih =>
    cases y with
    | none => simp [onNext, ih, pairs]
    | some a => simp [onNext, ih, pairs]

theorem pairwise_state (xs : List Val) (x0 y : Option Val) :
    ∃ a b, (run (.pairwise x0 y) (xs.map .next)).1 = .pairwise a b := by
  induction xs generalizing x0 y with
  | nil => exact ⟨x0, y, rfl⟩
  | cons x xs ih => simp [onNext, ih]

theorem bufferCount_items (n : Nat) (xs data : List Val) :
    run (.bufferCount n data) (xs.map .next) =
      (.bufferCount n (chunks n data xs).2, (chunks n data xs).1.map .next) := by
  induction xs generalizing data with
  | nil => simp [chunks]
  | cons x xs ih =>
    by_cases h : n ≤ (data ++ [x]).length
    · simp only [List.map_cons, run_cons, step_next, onNext, ge_iff_le, h, if_true, ih, chunks]
      rfl
    · simp only [List.map_cons, run_cons, step_next, onNext, ge_iff_le, h, if_false, ih, chunks]
      simp

theorem collect_items (xs coll : List Val) :
    run (.collect coll) (xs.map .next) = (.collect (coll ++ xs), []) := by
  induction xs generalizing coll with
  | nil => simp
  | cons x xs ih => simp [onNext, ih]

end Rx
