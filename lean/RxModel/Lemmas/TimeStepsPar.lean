import RxModel.Conc.TimeSteps
/-
  Helper lemmas for Props/C02S.lean, part 4: what suite `coop` replays (`TS.par`) IS a schedule of `exec`.
-/
namespace Rx.Conc.TS
open Rx

theorem exec_append (K : Conf) (c : Cfg) (a b : List Nat) : exec K c (a ++ b) = exec K (exec K c a) b := by
  simp [exec, List.foldl_append]

theorem exec_cons (K : Conf) (c : Cfg) (i : Nat) (r : List Nat) : exec K c (i :: r) = exec K (c.sched1 K i) r := rfl

theorem drain_exec (K : Conf) : ∀ (f : Nat) (c : Cfg) (i : Nat), (drain K f c i).1 = exec K c (drain K f c i).2 := by
  intro f
  induction f with
  | zero => intro c i; rfl
  | succ f ih =>
    intro c i
    unfold drain
    split
    · simp only [exec_cons]; exact ih _ _
    · rfl

theorem parLoop_exec (K : Conf) (k : Nat) :
    ∀ (f : Nat) (c : Cfg) (arr : Nat), (parLoop K k f c arr).cfg = exec K c (parLoop K k f c arr).fine := by
  intro f
  induction f with
  | zero => intro c arr; rfl
  | succ f ih =>
    intro c arr
    unfold parLoop
    split
    · rfl
    · simp only []
      split
      · rfl
      · next w hw =>
        simp only [exec_cons, exec_append]
        rw [← drain_exec]
        exact ih _ _

theorem par_exec (K : Conf) (k fuel : Nat) (c : Cfg) : (par K k fuel c).cfg = exec K c (par K k fuel c).fine := by
  unfold par
  simp only [exec_append]
  rw [← drain_exec, ← drain_exec]
  exact parLoop_exec K k fuel _ _

end Rx.Conc.TS
