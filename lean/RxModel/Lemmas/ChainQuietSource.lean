import RxModel.Lemmas.ChainQuietNotifier
/-
  C02 / C17 over the chain model, part 9: `subscribeSource`.
-/
namespace Rx.T
open Rx

/-- What subscribing everything below stage `j` keeps: the stages from `j` up keep
    their subscribe_on handle and notifier part. -/
structure FrU (j : Nat) (w w' : TW) : Prop where
  subH : ∀ i, j ≤ i → (w'.stages[i]?).map Stage.subH = (w.stages[i]?).map Stage.subH
  n2 : ∀ i, j ≤ i → (w'.stages[i]?).map Stage.n2 = (w.stages[i]?).map Stage.n2
  keep : SubKeep w.sched w'.sched
  fl : Fl w w'

theorem Fr.toU {w w' : TW} (f : Fr w w') (j : Nat) : FrU j w w' :=
  ⟨fun i _ => map_get _ f.subH i, fun i _ => map_get _ f.n2 i, f.keep, f.fl⟩

theorem FrN.toU {j : Nat} {w w' : TW} (f : FrN j w w') : FrU (j + 1) w w' :=
  ⟨fun i _ => map_get _ f.subH i, fun i hi => f.n2 i (by omega), f.keep, f.fl⟩

theorem FrU.refl (j : Nat) (w : TW) : FrU j w w := (Fr.refl w).toU j

theorem FrU.trans {j : Nat} {a b c : TW} (h1 : FrU j a b) (h2 : FrU j b c) : FrU j a c :=
  ⟨fun i hi => (h2.subH i hi).trans (h1.subH i hi), fun i hi => (h2.n2 i hi).trans (h1.n2 i hi),
    h1.keep.trans h2.keep, h1.fl.trans h2.fl⟩

theorem FrU.mono {j j' : Nat} {a b : TW} (h : FrU j a b) (hj : j ≤ j') : FrU j' a b :=
  ⟨fun i hi => h.subH i (by omega), fun i hi => h.n2 i (by omega), h.keep, h.fl⟩

theorem ReachedW.frameU {r : Option TaskId} {w w' : TW} {j l : Nat} (hr : ReachedW r w l)
    (g : GoodW r w) (f : FrU j w w') (hl : j ≤ l) : ReachedW r w' l := by
  intro i st' h hi hs e
  have h1 := f.subH i (by omega)
  rw [hs] at h1
  cases hst : w.stages[i]? with
  | none => rw [hst] at h1; simp at h1
  | some st =>
    rw [hst] at h1; simp at h1
    rw [e] at h1
    exact g.ran_keep f.keep hst h1.symm (hr i st h hi hst h1.symm)

theorem loop_good {r : Option TaskId} (n : Nat) (fuel : Nat) :
    ∀ (k : Nat) (w : TW), GoodW r w → ReachedW r w 0 →
      GoodW r (TW.subscribeSource.loop n fuel k w) ∧ Fr w (TW.subscribeSource.loop n fuel k w) := by
  induction fuel with
  | zero => intro k w g _; exact ⟨g, Fr.refl _⟩
  | succ fuel ih =>
    intro k w g hr
    unfold TW.subscribeSource.loop
    split
    · exact ⟨g, Fr.refl _⟩
    · split
      · obtain ⟨g0, f0⟩ := pulls_good (w.pulls + 1) g
        obtain ⟨g1, f1⟩ := push_good 0 [.next (.int k)] g0 (hr.frame g f0)
        obtain ⟨g2, f2⟩ := ih (k + 1) _ g1 (hr.frame g (f0.trans f1))
        exact ⟨g2, (f0.trans f1).trans f2⟩
      · exact push_good 0 [.complete] g hr

theorem subscribed_good {r : Option TaskId} {w : TW} (g : GoodW r w) :
    GoodW r { w with srcSubscribed := true } ∧ Fr w { w with srcSubscribed := true } :=
  ⟨g, rfl, rfl, SubKeep.refl _, rfl, ⟨rfl, rfl, rfl⟩⟩

theorem subscribeSource_good {r : Option TaskId} {w : TW} (g : GoodW r w) (hr : ReachedW r w 0)
    (hnone : w.srcTask = none) :
    GoodW r w.subscribeSource ∧ FrU 0 w w.subscribeSource := by
  unfold TW.subscribeSource
  simp only
  split
  · -- hot
    refine ⟨Good.srcAlive g true (Or.inr hr), ?_⟩
    exact ⟨fun _ _ => rfl, fun _ _ => rfl, SubKeep.refl _, ⟨rfl, rfl, rfl⟩⟩
  · -- cold
    rename_i s hsrc
    obtain ⟨g0, f0⟩ := subscribed_good g
    obtain ⟨g1, f1⟩ := push_good 0 s.emit g0 (hr.frame g f0)
    have f01 := f0.trans f1
    split
    · refine ⟨Good.srcAlive g1 _ (Or.inr (hr.frame g f01)), ?_⟩
      exact ⟨fun i _ => map_get _ f01.subH i, fun i _ => map_get _ f01.n2 i, f01.keep,
        ⟨f01.fl.1, f01.fl.2, f01.fl.3⟩⟩
    · exact ⟨g1, f01.toU 0⟩
  · -- interval
    rename_i delay period hsrc
    refine ⟨?_, ?_⟩
    · exact Good.srcTask g (scheduleRepeat_tasks _ _ _ _ _) rfl rfl rfl hnone
        (by simp [TW.info, hsrc, TSrc.hasTask]) hr
    · exact ⟨fun _ _ => rfl, fun _ _ => rfl, SubKeep.of_append (scheduleRepeat_tasks _ _ _ _ _),
        ⟨rfl, rfl, rfl⟩⟩
  · -- timer
    rename_i v dur hsrc
    refine ⟨?_, ?_⟩
    · exact Good.srcTask g (scheduleOnce_tasks _ _ _) rfl rfl rfl hnone
        (by simp [TW.info, hsrc, TSrc.hasTask]) hr
    · exact ⟨fun _ _ => rfl, fun _ _ => rfl, SubKeep.of_append (scheduleOnce_tasks _ _ _),
        ⟨rfl, rfl, rfl⟩⟩
  · -- iterc
    rename_i n hsrc
    obtain ⟨g0, f0⟩ := subscribed_good g
    obtain ⟨g1, f1⟩ := loop_good (r := r) n (n + 1) 0 _ g0 (hr.frame g f0)
    exact ⟨g1, (f0.trans f1).toU 0⟩
  · -- future
    rename_i res script hsrc
    refine ⟨?_, ?_⟩
    · exact Good.srcTask g (scheduleOnce_tasks _ _ _) rfl rfl rfl hnone
        (by simp [TW.info, hsrc, TSrc.hasTask]) hr
    · exact ⟨fun _ _ => rfl, fun _ _ => rfl, SubKeep.of_append (scheduleOnce_tasks _ _ _),
        ⟨rfl, rfl, rfl⟩⟩
  · -- stream
    rename_i res script cyc hsrc
    refine ⟨?_, ?_⟩
    · exact Good.srcTask g (scheduleOnce_tasks _ _ _) rfl rfl rfl hnone
        (by simp [TW.info, hsrc, TSrc.hasTask]) hr
    · exact ⟨fun _ _ => rfl, fun _ _ => rfl, SubKeep.of_append (scheduleOnce_tasks _ _ _),
        ⟨rfl, rfl, rfl⟩⟩

end Rx.T
