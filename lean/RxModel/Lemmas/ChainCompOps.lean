import RxModel.Ops.Init
import RxModel.Lemmas.PipeWF
/-
  C07C (compositions around one scheduler-moving stage), part 0: chains of
  single-input observers (`runChain`).

  * `runChain` is compositional in the input (`runChain_append`) and in the chain
    (`runChain_chain_append`); from initial states it maps well-formed input to
    well-formed output (`runChain_init_wf`);
  * `St1.calm`: the observer emits at most 501 notifications per notification it
    receives (everything but `take_last n` emits at most 2; `take_last n` releases
    its queue of at most `n` items on completion) — needed because the cascade of
    the chain model carries FUEL and silently drops notifications when it runs out;
  * `St1.dead` / `deadSt`: an observer whose downstream slot is empty (`take`,
    `take_while`, `contains` after they finished) emits nothing any more; this is
    what `is_finished` reports upstream.
-/
namespace Rx
open Rx.Spec

/-! ### `runChain` -/

theorem runChain_nil_input (sts : List St1) : runChain sts [] = (sts, []) := by
  induction sts with
  | nil => rfl
  | cons o os ih => simp [runChain, St1.run, ih]

theorem runChain_append (sts : List St1) (a b : List Notif) :
    runChain sts (a ++ b) =
      ((runChain (runChain sts a).1 b).1, (runChain sts a).2 ++ (runChain (runChain sts a).1 b).2) := by
  induction sts generalizing a b with
  | nil => simp [runChain]
  | cons o os ih =>
    simp only [runChain, St1.run_append]
    rw [ih]

theorem runChain_length (sts : List St1) (ns : List Notif) : (runChain sts ns).1.length = sts.length := by
  induction sts generalizing ns with
  | nil => rfl
  | cons o os ih => simp [runChain, ih]

theorem runChain_chain_append (a b : List St1) (ns : List Notif) :
    runChain (a ++ b) ns =
      ((runChain a ns).1 ++ (runChain b (runChain a ns).2).1, (runChain b (runChain a ns).2).2) := by
  induction a generalizing ns with
  | nil => simp [runChain]
  | cons o os ih => simp only [List.cons_append, runChain, ih]

/-- One notification into a non-empty chain, then the rest: the depth-first order of the
    cascade gives the same result as the stage-by-stage order of `runChain`. -/
theorem runChain_cons_cons (o : St1) (os : List St1) (n : Notif) (ns : List Notif) :
    runChain (o :: os) (n :: ns) =
      ((runChain ((o.step n).1 :: (runChain os (o.step n).2).1) ns).1,
       (runChain os (o.step n).2).2 ++ (runChain ((o.step n).1 :: (runChain os (o.step n).2).1) ns).2) := by
  simp only [runChain, St1.run, runChain_append]

theorem runChain_init_wf (ops : List Op1) (X : List Notif) (h : WF X) :
    WF (runChain (ops.map Op1.init) X).2 := by
  induction ops generalizing X with
  | nil => exact h
  | cons o os ih =>
    simp only [List.map_cons, runChain]
    exact ih _ (run_init_wf o X h)

/-! ### bounded bursts -/

/-- The observer emits at most 501 notifications per notification received. -/
def St1.calm : St1 → Prop
  | .takeLast c q => c ≤ 500 ∧ q.length ≤ c
  | _ => True

/-- Descriptor level: `take_last n` only with `n ≤ 500`. -/
def Spec.Op1.calm : Op1 → Bool
  | .takeLast n => decide (n ≤ 500)
  | _ => true

theorem Spec.Op1.calm_init (o : Op1) (h : o.calm = true) : o.init.calm := by
  cases o <;> simp_all [Op1.calm, Op1.init, St1.calm]

theorem lastN_length (n : Nat) (l : List Val) : (lastN n l).length ≤ n := by
  simp [lastN]; omega

theorem St1.calm_step (st : St1) (n : Notif) (h : st.calm) :
    (st.step n).1.calm ∧ (st.step n).2.length ≤ 501 := by
  cases st with
  | takeLast c q =>
    obtain ⟨h1, h2⟩ := h
    cases n with
    | next v =>
      simp only [St1.step, St1.onNext, St1.calm, List.length_nil]
      exact ⟨⟨h1, lastN_length _ _⟩, by omega⟩
    | error e => simp only [St1.step, St1.onError', St1.calm]; exact ⟨⟨h1, h2⟩, by simp⟩
    | complete =>
      simp only [St1.step, St1.onComplete', St1.calm]
      refine ⟨⟨h1, by simp⟩, ?_⟩
      simp; omega
  | skipLast cd q =>
    cases n with
    | next v =>
      simp only [St1.step, St1.onNext]
      split
      · split <;> simp [St1.calm]
      · simp [St1.calm]
    | error e => simp [St1.step, St1.onError', St1.calm]
    | complete => simp [St1.step, St1.onComplete', St1.calm]
  | _ =>
    cases n <;> simp only [St1.step, St1.onNext, St1.onError', St1.onComplete'] <;>
      (repeat' split) <;> simp [St1.calm]

def calmSt (sts : List St1) : Prop := ∀ o ∈ sts, o.calm

theorem calmSt_cons {o : St1} {os : List St1} : calmSt (o :: os) ↔ o.calm ∧ calmSt os := by
  simp [calmSt]

theorem St1.calm_run (st : St1) (ns : List Notif) (h : st.calm) : (st.run ns).1.calm := by
  induction ns generalizing st with
  | nil => exact h
  | cons n r ih => simp only [St1.run]; exact ih _ (st.calm_step n h).1

theorem calmSt_runChain (sts : List St1) (ns : List Notif) (h : calmSt sts) : calmSt (runChain sts ns).1 := by
  induction sts generalizing ns with
  | nil => exact h
  | cons o os ih =>
    obtain ⟨h1, h2⟩ := calmSt_cons.mp h
    simp only [runChain]
    exact calmSt_cons.mpr ⟨o.calm_run ns h1, ih _ h2⟩

theorem calmSt_init (ops : List Op1) (h : ∀ o ∈ ops, o.calm = true) : calmSt (ops.map Op1.init) := by
  intro st hst
  simp only [List.mem_map] at hst
  obtain ⟨o, ho, rfl⟩ := hst
  exact o.calm_init (h o ho)

/-! ### observers whose downstream slot is empty -/

/-- `take`, `take_while`, `contains` after they have finished. -/
def St1.dead (o : St1) : Bool := o.slot == some false

def deadSt (sts : List St1) : Bool := sts.any St1.dead

theorem St1.finished_eq (o : St1) (down : Bool) : o.finished down = (o.dead || down) := by
  cases o <;> simp [St1.finished, St1.dead, St1.slot]

theorem St1.dead_step (o : St1) (n : Notif) (h : o.dead = true) : o.step n = (o, []) := by
  cases o <;> simp [St1.dead, St1.slot] at h <;> subst h <;>
    cases n <;> simp [St1.step, St1.onNext, St1.onError', St1.onComplete']

theorem St1.dead_run (o : St1) (ns : List Notif) (h : o.dead = true) : o.run ns = (o, []) := by
  induction ns with
  | nil => rfl
  | cons n r ih => simp [St1.run, o.dead_step n h, ih]

/-- A finished observer stays finished. -/
theorem St1.dead_step_mono (o : St1) (n : Notif) (h : o.dead = true) : (o.step n).1.dead = true := by
  rw [o.dead_step n h]; exact h

theorem St1.dead_run_mono (o : St1) (ns : List Notif) (h : o.dead = true) : (o.run ns).1.dead = true := by
  rw [o.dead_run ns h]; exact h

/-- A chain with a finished observer emits nothing and keeps a finished observer. -/
theorem deadSt_run (sts : List St1) (ns : List Notif) (h : deadSt sts = true) :
    (runChain sts ns).2 = [] ∧ deadSt (runChain sts ns).1 = true := by
  induction sts generalizing ns with
  | nil => simp [deadSt] at h
  | cons o os ih =>
    simp only [deadSt, List.any_cons, Bool.or_eq_true] at h
    simp only [runChain]
    rcases h with h | h
    · rw [o.dead_run ns h, runChain_nil_input]
      simp [deadSt, h]
    · have := ih (o.run ns).2 h
      refine ⟨this.1, ?_⟩
      simp only [deadSt, List.any_cons, Bool.or_eq_true]
      exact Or.inr this.2

end Rx
