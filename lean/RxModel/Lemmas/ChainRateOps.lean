import RxModel.Lemmas.ChainRateInv
import RxModel.Lemmas.Multi
/-
  C09 (chain model): the stage-level predicates for debounce / throttle (a
  trailing-value cell) and buffer_with_time / buffer_with_count_and_time (a
  shared buffer), and the proof that they are closed under the moves of
  `RateSpec`.
-/
namespace Rx.T
open Rx Rx.Spec

/-! ### list helpers -/

theorem sub_left {l t E : List Val} (h : (l ++ t).Sublist E) : l.Sublist E :=
  (List.sublist_append_left l t).trans h

theorem sub_snoc {l t E : List Val} (h : (l ++ t).Sublist E) (v : Val) :
    (l ++ [v]).Sublist (E ++ [v]) :=
  List.Sublist.append (sub_left h) (List.Sublist.refl _)

theorem sub_grow {l E : List Val} (h : l.Sublist E) (v : Val) : l.Sublist (E ++ [v]) :=
  h.trans (List.sublist_append_left E [v])

theorem WF_snoc_next {log : List Notif} (hw : WF log) (ht : terminated log = false) (v : Val) :
    WF (log ++ [.next v]) ∧ terminated (log ++ [.next v]) = false := by
  refine ⟨WF_append hw ht (by simp), ?_⟩
  rw [terminated_append, ht]; rfl

theorem WF_snoc_term {log : List Notif} (hw : WF log) (ht : terminated log = false) (n : Notif) :
    WF (log ++ [n]) := WF_append hw ht (WF_single n)

theorem items_snoc_next (log : List Notif) (v : Val) : items (log ++ [.next v]) = items log ++ [v] := by
  rw [items_append]; rfl

theorem items_snoc_error (log : List Notif) (e : Err) : items (log ++ [.error e]) = items log := by
  rw [items_append]; simp [items]

theorem items_snoc_complete (log : List Notif) : items (log ++ [.complete]) = items log := by
  rw [items_append]; simp [items]

theorem snoc2 {α} (l : List α) (a b : α) : l ++ [a, b] = (l ++ [a]) ++ [b] := by simp

/-! ### debounce and throttle -/

/-- The slot and the trailing-value cell. -/
def Stage.trail : Stage → Option (Bool × Option Val)
  | .debounce _ alive tr _ => some (alive, tr)
  | .throttle _ _ alive tr _ => some (alive, tr)
  | _ => none

/-- What has reached the probe, followed by the trailing candidate, is a
    subsequence of what the subject emitted; the log is well formed and is
    unterminated while the slot is full. -/
def PTrail : RatePred := fun st log E _ _ =>
  ∃ alive tr, st.trail = some (alive, tr) ∧ (items log ++ tr.toList).Sublist E ∧ WF log ∧
    (alive = true → terminated log = false)

theorem PTrail.intro {st : Stage} {log : List Notif} {E : List Val} {a T : Bool} (alive : Bool)
    (tr : Option Val) (h1 : st.trail = some (alive, tr)) (h2 : (items log ++ tr.toList).Sublist E)
    (h3 : WF log) (h4 : alive = true → terminated log = false) : PTrail st log E a T :=
  ⟨alive, tr, h1, h2, h3, h4⟩

/-- Emitting the trailing value (if the slot is full) and clearing the cell. -/
theorem PTrail.emitTrailing {log : List Notif} {E : List Val} {alive : Bool} {v : Val}
    (hs : (items log ++ [v]).Sublist E) (hw : WF log) (hal : alive = true → terminated log = false) :
    (items (log ++ if alive = true then [Notif.next v] else []) ++ []).Sublist E ∧
    WF (log ++ if alive = true then [Notif.next v] else []) ∧
    (alive = true → terminated (log ++ if alive = true then [Notif.next v] else []) = false) := by
  cases alive
  · simpa using ⟨sub_left hs, hw⟩
  · have := WF_snoc_next hw (hal rfl) v
    simpa [items_snoc_next] using ⟨hs, this.1, this.2⟩

theorem PTrail.spec : RateSpec PTrail where
  next := by
    rintro st log E v s ⟨alive, tr, ht, hs, hw, hal⟩
    cases st with
    | debounce d al tr' hd =>
      simp only [Stage.trail, Option.some.injEq, Prod.mk.injEq] at ht; obtain ⟨rfl, rfl⟩ := ht
      simp only [Stage.feed, Stage.onNotif, Stage.afterEmit, List.append_nil]
      exact PTrail.intro al (some v) rfl (sub_snoc hs v) hw hal
    | throttle d e al tr' hd =>
      simp only [Stage.trail, Option.some.injEq, Prod.mk.injEq] at ht; obtain ⟨rfl, rfl⟩ := ht
      have closedCase : PTrail (.throttle d e al (if e.hasLeading then none else if e.hasTrailing then some v else tr')
            (some (s.scheduleOnce (.throttle 0) (some d)).2))
          (log ++ if (e.hasLeading && al) = true then [Notif.next v] else []) (E ++ [v]) true false := by
        cases e <;> cases al <;>
          simp only [Edge.hasLeading, Edge.hasTrailing, Bool.and_true, Bool.and_false, if_true,
            Bool.false_eq_true, if_false, List.append_nil]
        · exact PTrail.intro false none rfl (by simpa using sub_grow (sub_left hs) v) hw (by simp)
        · have := WF_snoc_next hw (hal rfl) v
          exact PTrail.intro true none rfl (by simpa [items_snoc_next] using sub_snoc hs v) this.1
            (fun _ => this.2)
        · exact PTrail.intro false (some v) rfl (sub_snoc hs v) hw (by simp)
        · exact PTrail.intro true (some v) rfl (sub_snoc hs v) hw hal
        · exact PTrail.intro false none rfl (by simpa using sub_grow (sub_left hs) v) hw (by simp)
        · have := WF_snoc_next hw (hal rfl) v
          exact PTrail.intro true none rfl (by simpa [items_snoc_next] using sub_snoc hs v) this.1
            (fun _ => this.2)
      have openCase : ∀ k, PTrail (.throttle d e al (if e.hasTrailing then some v else tr') (some k))
          (log ++ []) (E ++ [v]) true false := by
        intro k
        cases e <;> simp only [Edge.hasTrailing, if_true, Bool.false_eq_true, if_false, List.append_nil]
        · exact PTrail.intro al tr' rfl (sub_grow hs v) hw hal
        · exact PTrail.intro al (some v) rfl (sub_snoc hs v) hw hal
        · exact PTrail.intro al (some v) rfl (sub_snoc hs v) hw hal
      cases hd with
      | none =>
        simp only [Stage.feed, Stage.onNotif, if_true, Stage.afterEmit]
        exact closedCase
      | some k =>
        cases hc : s.handleClosed k
        · simp only [Stage.feed, Stage.onNotif, hc, Bool.false_eq_true, if_false, Stage.afterEmit]
          exact openCase k
        · simp only [Stage.feed, Stage.onNotif, hc, if_true, Stage.afterEmit]
          exact closedCase
    | _ => simp [Stage.trail] at ht
  skip := by
    rintro st log E v ⟨alive, tr, ht, hs, hw, hal⟩
    exact ⟨alive, tr, ht, sub_grow hs v, hw, hal⟩
  term := by
    rintro st log E n s hn ⟨alive, tr, ht, hs, hw, hal⟩
    cases st with
    | debounce d al tr' hd =>
      simp only [Stage.trail, Option.some.injEq, Prod.mk.injEq] at ht; obtain ⟨rfl, rfl⟩ := ht
      -- a stage whose slot is already empty swallows the terminal
      cases al with
      | false =>
        cases n with
        | next v => simp [Notif.isTerm] at hn
        | error er =>
          simp only [Stage.feed, Stage.onNotif, Stage.afterEmit, Bool.false_eq_true, if_false,
            List.append_nil]
          exact PTrail.intro false tr' rfl hs hw (by simp)
        | complete =>
          simp only [Stage.feed, Stage.onNotif, Stage.afterEmit, Bool.false_eq_true, if_false,
            List.append_nil]
          exact PTrail.intro false none rfl (by simpa using sub_left hs) hw (by simp)
      | true =>
      have hnt := hal rfl
      cases n with
      | next v => simp [Notif.isTerm] at hn
      | error er =>
        simp only [Stage.feed, Stage.onNotif, Stage.afterEmit, if_true]
        exact PTrail.intro false tr' rfl (by simpa [items_snoc_error] using hs)
          (WF_snoc_term hw hnt _) (by simp)
      | complete =>
        simp only [Stage.feed, Stage.onNotif, Stage.afterEmit, if_true]
        cases tr' with
        | none =>
          exact PTrail.intro false none rfl (by simpa [items_snoc_complete] using hs)
            (WF_snoc_term hw hnt _) (by simp)
        | some v =>
          have h1 := WF_snoc_next hw hnt v
          refine PTrail.intro false none rfl ?_ ?_ (by simp)
          · show (items (log ++ [Notif.next v, Notif.complete]) ++ []).Sublist E
            rw [snoc2, items_snoc_complete, items_snoc_next]; simpa using hs
          · show WF (log ++ [Notif.next v, Notif.complete])
            rw [snoc2]; exact WF_snoc_term h1.1 h1.2 .complete
    | throttle d e al tr' hd =>
      simp only [Stage.trail, Option.some.injEq, Prod.mk.injEq] at ht; obtain ⟨rfl, rfl⟩ := ht
      -- a stage whose slot is already empty swallows the terminal
      cases al with
      | false =>
        cases n with
        | next v => simp [Notif.isTerm] at hn
        | error er =>
          simp only [Stage.feed, Stage.onNotif, Stage.afterEmit, Bool.false_eq_true, if_false,
            List.append_nil]
          exact PTrail.intro false tr' rfl hs hw (by simp)
        | complete =>
          simp only [Stage.feed, Stage.onNotif, Stage.afterEmit, Bool.false_eq_true, if_false,
            List.append_nil]
          exact PTrail.intro false none rfl (by simpa using sub_left hs) hw (by simp)
      | true =>
      have hnt := hal rfl
      cases n with
      | next v => simp [Notif.isTerm] at hn
      | error er =>
        simp only [Stage.feed, Stage.onNotif, Stage.afterEmit, if_true]
        exact PTrail.intro false tr' rfl (by simpa [items_snoc_error] using hs)
          (WF_snoc_term hw hnt _) (by simp)
      | complete =>
        simp only [Stage.feed, Stage.onNotif, Stage.afterEmit, if_true]
        cases tr' with
        | none =>
          exact PTrail.intro false none rfl (by simpa [items_snoc_complete] using hs)
            (WF_snoc_term hw hnt _) (by simp)
        | some v =>
          have h1 := WF_snoc_next hw hnt v
          refine PTrail.intro false none rfl ?_ ?_ (by simp)
          · show (items (log ++ [Notif.next v, Notif.complete]) ++ []).Sublist E
            rw [snoc2, items_snoc_complete, items_snoc_next]; simpa using hs
          · show WF (log ++ [Notif.next v, Notif.complete])
            rw [snoc2]; exact WF_snoc_term h1.1 h1.2 .complete
    | _ => simp [Stage.trail] at ht
  termDead := fun _ _ _ h => h
  unsub := by
    rintro st log E a T ⟨alive, tr, ht, hs, hw, hal⟩
    cases st with
    | debounce d al tr' hd => exact ⟨alive, tr, ht, hs, hw, hal⟩
    | throttle d e al tr' hd => exact ⟨alive, tr, ht, hs, hw, hal⟩
    | _ => simp [Stage.trail] at ht
  body := by
    rintro st log E a T ⟨alive, tr, ht, hs, hw, hal⟩
    cases st with
    | debounce d al tr' hd =>
      simp only [Stage.trail, Option.some.injEq, Prod.mk.injEq] at ht; obtain ⟨rfl, rfl⟩ := ht
      cases tr' with
      | none => simpa [Stage.bodyStep] using PTrail.intro (a := a) (T := T) al none rfl hs hw hal
      | some v =>
        obtain ⟨h1, h2, h3⟩ := PTrail.emitTrailing hs hw hal
        exact PTrail.intro al none rfl h1 h2 h3
    | throttle d e al tr' hd =>
      simp only [Stage.trail, Option.some.injEq, Prod.mk.injEq] at ht; obtain ⟨rfl, rfl⟩ := ht
      cases tr' with
      | none => simpa [Stage.bodyStep] using PTrail.intro (a := a) (T := T) al none rfl hs hw hal
      | some v =>
        obtain ⟨h1, h2, h3⟩ := PTrail.emitTrailing hs hw hal
        exact PTrail.intro al none rfl h1 h2 h3
    | _ => simp [Stage.trail] at ht

/-! ### buffer_with_time / buffer_with_count_and_time -/

theorem flushBuf_cases (data : List Val) :
    (data = [] ∧ flushBuf data = []) ∨ (data ≠ [] ∧ flushBuf data = [.next (Val.ofList data)]) := by
  cases data with
  | nil => left; exact ⟨rfl, rfl⟩
  | cons x xs => right; exact ⟨by simp, by simp [flushBuf]⟩

theorem released_snoc_next (log : List Notif) (l : List Val) :
    released (log ++ [.next (Val.ofList l)]) = released log ++ l := by
  rw [released_append]; simp [released, items]

theorem released_snoc_error (log : List Notif) (e : Err) :
    released (log ++ [.error e]) = released log := by
  rw [released_append]; simp [released, items]

theorem released_snoc_complete (log : List Notif) :
    released (log ++ [.complete]) = released log := by
  rw [released_append]; simp [released, items]

/-- The buffer cell against the log and the emitted items: `released log ++ data`
    is a prefix of `E` — all of `E` while the subject still feeds the stage —,
    every released buffer is non-empty and within the count limit, the log is
    well formed, and a logged `complete` means nothing was lost. -/
structure BufCore (cnt : Option Nat) (alive : Bool) (data : List Val) (log : List Notif)
    (E : List Val) (a T : Bool) : Prop where
  pre : (released log ++ data) <+: E
  full : a = true → T = false → released log ++ data = E ∧ alive = true
  bufs : ∀ b ∈ items log, valToList b ≠ [] ∧ Val.ofList (valToList b) = b ∧
    ∀ c, cnt = some c → (valToList b).length ≤ c
  wf : WF log
  unterminated : alive = true → terminated log = false
  compl : Notif.complete ∈ log → released log = E ∧ T = true

def PBuf (cnt : Option Nat) : RatePred := fun st log E a T =>
  ∃ d alive data task, st = .bufTime d cnt alive data task ∧ BufCore cnt alive data log E a T ∧
    ∀ c, cnt = some c → data.length < c

variable {cnt : Option Nat} {alive : Bool} {data : List Val} {log : List Notif} {E : List Val}
  {a T : Bool}

/-- `next(v)`: the item joins the buffer. -/
theorem BufCore.push (I : BufCore cnt alive data log E true false) (v : Val) :
    BufCore cnt true (data ++ [v]) log (E ++ [v]) true false := by
  obtain ⟨he, hal⟩ := I.full rfl rfl
  subst hal
  refine ⟨?_, fun _ _ => ⟨?_, rfl⟩, I.bufs, I.wf, I.unterminated, fun h => ?_⟩
  · rw [← List.append_assoc, he]; exact List.prefix_refl _
  · rw [← List.append_assoc, he]
  · exact absurd (I.compl h).2 (by simp)

/-- The buffer is handed downstream (flush task, count limit, completion). -/
theorem BufCore.flush (I : BufCore cnt true data log E a T)
    (hlen : ∀ c, cnt = some c → data.length ≤ c) :
    BufCore cnt true [] (log ++ flushBuf data) E a T := by
  have hnt := I.unterminated rfl
  rcases flushBuf_cases data with ⟨rfl, e⟩ | ⟨hne, e⟩ <;> rw [e]
  · simpa using I
  · have hw := WF_snoc_next I.wf hnt (Val.ofList data)
    refine ⟨?_, fun h1 h2 => ⟨?_, rfl⟩, ?_, hw.1, fun _ => hw.2, fun h => ?_⟩
    · simpa [released_snoc_next] using I.pre
    · simpa [released_snoc_next] using (I.full h1 h2).1
    · intro b hb
      rw [items_snoc_next, List.mem_append, List.mem_singleton] at hb
      rcases hb with hb | rfl
      · exact I.bufs b hb
      · simpa using ⟨hne, hlen⟩
    · have hc : Notif.complete ∈ log := by simpa using h
      have := I.compl hc
      have hp := I.pre
      rw [this.1] at hp
      have hd : data = [] := by
        have := hp.length_le
        simp at this
        exact List.eq_nil_of_length_eq_zero (by omega)
      exact absurd hd hne

/-- `complete()` after the final flush. -/
theorem BufCore.complete (I : BufCore cnt true [] log E true false) :
    BufCore cnt false [] (log ++ [.complete]) E false true := by
  have hnt := I.unterminated rfl
  have he := (I.full rfl rfl).1
  refine ⟨?_, fun h => by simp at h, ?_, WF_snoc_term I.wf hnt _, fun h => by simp at h,
    fun _ => ⟨?_, rfl⟩⟩
  · simpa [released_snoc_complete] using I.pre
  · intro b hb; rw [items_snoc_complete] at hb; exact I.bufs b hb
  · simpa [released_snoc_complete] using he

/-- `error(e)`: the slot is emptied, the buffer stays where it is. -/
theorem BufCore.error (I : BufCore cnt true data log E true false) (e : Err) :
    BufCore cnt false data (log ++ [.error e]) E false true := by
  have hnt := I.unterminated rfl
  refine ⟨?_, fun h => by simp at h, ?_, WF_snoc_term I.wf hnt _, fun h => by simp at h, fun h => ?_⟩
  · simpa [released_snoc_error] using I.pre
  · intro b hb; rw [items_snoc_error] at hb; exact I.bufs b hb
  · have hc : Notif.complete ∈ log := by simpa using h
    exact absurd (I.compl hc).2 (by simp)

theorem PBuf.spec (cnt : Option Nat) : RateSpec (PBuf cnt) where
  next := by
    rintro st log E v s ⟨d, alive, data, task, rfl, I, hroom⟩
    have hal := (I.full rfl rfl).2
    subst hal
    have I1 := I.push v
    cases cnt with
    | none =>
      simp only [Stage.feed, Stage.onNotif, Stage.afterEmit, if_true, List.append_nil]
      exact ⟨d, true, _, task, rfl, I1, by simp⟩
    | some c =>
      have hlt := hroom c rfl
      by_cases hge : (data ++ [v]).length ≥ c
      · simp only [Stage.feed, Stage.onNotif, Stage.afterEmit, if_true, hge]
        refine ⟨d, true, [], task, rfl, I1.flush ?_, ?_⟩
        · intro c' hc'; cases hc'; simp; omega
        · intro c' hc'; cases hc'; simp; omega
      · simp only [Stage.feed, Stage.onNotif, Stage.afterEmit, if_true, hge, if_false, List.append_nil]
        refine ⟨d, true, _, task, rfl, I1, ?_⟩
        intro c' hc'; cases hc'; omega
  skip := by
    rintro st log E v ⟨d, alive, data, task, rfl, I, hroom⟩
    refine ⟨d, alive, data, task, rfl, ⟨?_, fun h => by simp at h, I.bufs, I.wf, I.unterminated, ?_⟩, hroom⟩
    · exact I.pre.trans (List.prefix_append _ _)
    · intro h; exact absurd (I.compl h).2 (by simp)
  term := by
    rintro st log E n s hn ⟨d, alive, data, task, rfl, I, hroom⟩
    have hal := (I.full rfl rfl).2
    subst hal
    cases n with
    | next v => simp [Notif.isTerm] at hn
    | error er =>
      simp only [Stage.feed, Stage.onNotif, Stage.afterEmit, if_true]
      exact ⟨d, false, data, task, rfl, I.error er, hroom⟩
    | complete =>
      simp only [Stage.feed, Stage.onNotif, Stage.afterEmit, if_true]
      have I1 := (I.flush (fun c hc => Nat.le_of_lt (hroom c hc))).complete
      rw [List.append_assoc] at I1
      refine ⟨d, false, [], task, rfl, I1, ?_⟩
      intro c hc
      have := hroom c hc
      simp; omega
  termDead := by
    rintro st log E ⟨d, alive, data, task, rfl, I, hroom⟩
    refine ⟨d, alive, data, task, rfl, ⟨I.pre, fun h => by simp at h, I.bufs, I.wf, I.unterminated, ?_⟩, hroom⟩
    intro h; exact absurd (I.compl h).2 (by simp)
  unsub := by
    rintro st log E a T ⟨d, alive, data, task, rfl, I, hroom⟩
    exact ⟨d, alive, data, task, rfl, ⟨I.pre, fun h => by simp at h, I.bufs, I.wf, I.unterminated, I.compl⟩, hroom⟩
  body := by
    rintro st log E a T ⟨d, alive, data, task, rfl, I, hroom⟩
    cases alive with
    | false =>
      show PBuf cnt (Stage.bufTime d cnt false data task) (log ++ []) E a T
      rw [List.append_nil]
      exact ⟨d, false, data, task, rfl, I, hroom⟩
    | true =>
      simp only [Stage.bodyStep]
      refine ⟨d, true, [], task, rfl, I.flush (fun c hc => Nat.le_of_lt (hroom c hc)), ?_⟩
      intro c hc
      have := hroom c hc
      simp; omega

end Rx.T
