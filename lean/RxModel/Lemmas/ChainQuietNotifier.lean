import RxModel.Lemmas.ChainQuietPushB
/-
  C02 / C17 over the chain model, part 8: `subscribeNotifier`.
-/
namespace Rx.T
open Rx

/-- What subscribing the second input of stage `j` keeps. -/
structure FrN (j : Nat) (w w' : TW) : Prop where
  subH : w'.stages.map Stage.subH = w.stages.map Stage.subH
  n2 : ∀ i, i ≠ j → (w'.stages[i]?).map Stage.n2 = (w.stages[i]?).map Stage.n2
  keep : SubKeep w.sched w'.sched
  info : w'.info = w.info
  fl : Fl w w'
  low : ∀ i, i < j → w'.stages[i]? = w.stages[i]?

theorem Fr.toN {w w' : TW} (f : Fr w w') (j : Nat) (low : ∀ i, i < j → w'.stages[i]? = w.stages[i]?) :
    FrN j w w' :=
  ⟨f.subH, fun i _ => map_get _ f.n2 i, f.keep, f.info, f.fl, low⟩

theorem FrN.refl (j : Nat) (w : TW) : FrN j w w := (Fr.refl w).toN j (fun _ _ => rfl)

theorem scheduleRepeat_tasks (s : Sched) (b : Body) (p : Nat) (d : Option Nat) (f : Nat) :
    (s.scheduleRepeat b p d f).1.tasks =
      s.tasks ++ [{ body := b, outerDelay := d, rep := some (s.timers.length, p, 0) }] := rfl
theorem scheduleRepeat_id (s : Sched) (b : Body) (p : Nat) (d : Option Nat) (f : Nat) :
    (s.scheduleRepeat b p d f).2 = s.tasks.length := rfl

theorem map_set_other {α β} (f : α → β) (l : List α) (j i : Nat) (y : α) (h : i ≠ j) :
    ((l.set j y)[i]?).map f = (l[i]?).map f := by
  rw [set_get_ne _ _ _ _ h]

theorem subscribeNotifier_good {r : Option TaskId} {w : TW} (j : Nat) (g : GoodW r w)
    (hr : ReachedW r w (j + 1))
    (hnt : ∀ st ns na nt, w.stages[j]? = some (.op2n st ns na nt) → nt = none) :
    GoodW r (w.subscribeNotifier j) ∧ FrN j w (w.subscribeNotifier j) := by
  unfold TW.subscribeNotifier
  split
  · rename_i st nsrc na nt hj
    have hn : nt = none := hnt _ _ _ _ hj
    subst hn
    split
    · -- hot
      rename_i i
      refine ⟨?_, ?_⟩
      · exact Good.stage_same g hj (fun h hm => hm) (fun h hm _ _ _ => hm) rfl (by simp [Stage.wf])
          (Or.inr hr) rfl
      · exact ⟨map_set_same _ _ _ _ _ hj rfl, fun i hi => map_set_other _ _ _ _ _ hi,
          SubKeep.refl _, rfl, ⟨rfl, rfl, rfl⟩, fun i hi => setStage_low _ _ _ _ (by omega)⟩
    · -- cold
      obtain ⟨g1, f1⟩ := pushB_good j _ g hr
      exact ⟨g1, f1.toN j (fun i hi => pushB_low _ _ _ _ hi)⟩
    · -- interval
      rename_i delay period
      refine ⟨?_, ?_⟩
      · exact Good.stage_spawn g hj (scheduleRepeat_tasks _ _ _ _ _) rfl rfl rfl rfl
          (by simp [Stage.handles]) (by simp [Stage.handles])
          (by simp [Stage.handles]) rfl (by simp [Stage.wf, TSrc.hasTask]) hr (Or.inl rfl)
      · exact ⟨map_set_same _ _ _ _ _ hj rfl, fun i hi => map_set_other _ _ _ _ _ hi,
          SubKeep.of_append (scheduleRepeat_tasks _ _ _ _ _), rfl, ⟨rfl, rfl, rfl⟩,
          fun i hi => setStage_low _ _ _ _ (by omega)⟩
    · -- timer
      rename_i v dur
      refine ⟨?_, ?_⟩
      · exact Good.stage_spawn g hj (scheduleOnce_tasks _ _ _) rfl rfl rfl rfl
          (by simp [Stage.handles]) (by simp [Stage.handles])
          (by simp [Stage.handles]) rfl (by simp [Stage.wf, TSrc.hasTask]) hr (Or.inl rfl)
      · exact ⟨map_set_same _ _ _ _ _ hj rfl, fun i hi => map_set_other _ _ _ _ _ hi,
          SubKeep.of_append (scheduleOnce_tasks _ _ _), rfl, ⟨rfl, rfl, rfl⟩,
          fun i hi => setStage_low _ _ _ _ (by omega)⟩
    · -- iterc
      rename_i n
      obtain ⟨g1, f1, l1⟩ := loopB_good (r := r) j n (n + 1) 0 w g hr
      exact ⟨g1, f1.toN j l1⟩
    · exact ⟨g, FrN.refl _ _⟩
    · exact ⟨g, FrN.refl _ _⟩
  · exact ⟨g, FrN.refl _ _⟩

end Rx.T
