import RxModel.Lemmas.ChainWFSub
/-
  C01 over the chain model, part 8: the bodies of the critical tasks and of the
  `interval` tick; polling a task keeps the invariant.
-/
namespace Rx.T
open Rx Rx.Spec

/-- What is known while a live source task (critical, not subscribing) exists. -/
theorem SrcOK.srcTask_ctx {w : TW} {up : List Notif} {k : TaskId} {b : Body} (hs : SrcOK none w up)
    (hl : w.sched.Live k b) (hc : b.critical = true) (hns : b.isSub = false) :
    w.srcSubscribed = true ∧ terminated up = false ∧ Only (some k) w := by
  refine ⟨?_, ?_, hs.only_of_live hl hc⟩
  · cases hss : w.srcSubscribed with
    | true => rfl
    | false => have := (hs.nosrc hss).2 k b hl hc; rw [hns] at this; cases this
  · cases ht : terminated up with
    | false => rfl
    | true => cases hs.term ht k b hl hc

theorem SrcOK.okFor_of_live {r : Option TaskId} {w : TW} {up : List Notif} {k : TaskId} {b : Body}
    (hs : SrcOK r w up) (hl : w.sched.Live k b) : b.okFor w.src := by
  obtain ⟨t, ht, _, rfl⟩ := hl
  exact hs.bodies t (List.mem_of_getElem? ht)

namespace TW

/-- The ghost state of a running source task. -/
def Lk (k : TaskId) (w : TW) (up : List Notif) : Prop :=
  WInvU none w up ∧ Rx.terminated up = false ∧ w.srcSubscribed = true ∧ Only (some k) w ∧
    (∀ i, w.src ≠ .hot i) ∧ (∀ d p, w.src ≠ .interval d p)

theorem Lk.ofEq {k : TaskId} {w w' : TW} {up : List Notif} (h : Lk k w up)
    (h1 : w'.src = w.src) (h2 : w'.srcSubscribed = w.srcSubscribed)
    (h3 : w'.subscribed = w.subscribed) (h4 : w'.terminated = w.terminated)
    (h5 : w'.sched = w.sched) (h6 : w'.stages = w.stages) (h7 : w'.log = w.log) : Lk k w' up := by
  obtain ⟨a, b, c, d, e, f⟩ := h
  refine ⟨a.ofEq h1 h2 h3 h4 h5 h6 h7, b, h2.trans c, ?_, ?_, ?_⟩
  · exact Only.mono d (by rw [h5]; exact Sched.Le.refl _)
  · intro i; rw [h1]; exact e i
  · intro d p; rw [h1]; exact f d p

theorem Lk.inv {k : TaskId} {w : TW} {up : List Notif} (h : Lk k w up) : WInv none w := ⟨up, h.1⟩

theorem Lk.pushNext {k : TaskId} {w : TW} {up : List Notif} (h : Lk k w up) (v : Val) :
    Lk k (w.push 0 [.next v]) (up ++ [.next v]) := by
  obtain ⟨a, b, c, d, e, f⟩ := h
  have := a.pushNext v b
  exact ⟨this.1, this.2, c, Only.mono d (push_ext _ 0 _).le, e, f⟩

theorem Lk.pushLast {k : TaskId} {w : TW} {up : List Notif} (h : Lk k w up) (ns : List Notif)
    (hns : WF ns) : WInv (some k) (w.push 0 ns) := by
  obtain ⟨a, b, c, d, e, f⟩ := h
  have a' : WInvU (some k) w up := ⟨a.1, a.2.weaken _⟩
  exact ⟨_, a'.pushLast ns b hns d c (fun i hi => absurd hi (e i)) f⟩

theorem Lk.of_live {k : TaskId} {w : TW} {up : List Notif} {b : Body} (h : WInvU none w up)
    (hl : w.sched.Live k b) (hc : b.critical = true) (hns : b.isSub = false)
    (hh : ∀ i, w.src ≠ .hot i) (hiv : ∀ d p, w.src ≠ .interval d p) : Lk k w up := by
  obtain ⟨c1, c2, c3⟩ := h.2.srcTask_ctx hl hc hns
  exact ⟨h, c2, c1, c3, hh, hiv⟩

/-! ### timer, subscribe_on, interval -/

theorem timerSrc_inv {w : TW} {k : TaskId} {v : Val} (h : WInv none w)
    (hl : w.sched.Live k (.timerSrc v)) : WInv (some k) (w.runBody (.timerSrc v)) := by
  obtain ⟨up, h⟩ := h
  obtain ⟨v', d', hsrc⟩ := h.2.okFor_of_live hl
  have lk : Lk k w up := Lk.of_live h hl rfl rfl (fun i hi => by rw [hsrc] at hi; cases hi)
    (fun d p hi => by rw [hsrc] at hi; cases hi)
  exact lk.pushLast _ (by simp)

theorem subscribeBody_inv {w : TW} {k : TaskId} {j : Nat} (h : WInv none w)
    (hl : w.sched.Live k (.subscribe j)) : WInv (some k) (w.runBody (.subscribe j)) := by
  obtain ⟨up, hc, hs⟩ := h
  have hss : w.srcSubscribed = false := by
    cases hss : w.srcSubscribed with
    | false => rfl
    | true => cases hs.subd hss k _ hl rfl
  have hsub : w.subscribed = true := by
    cases hsub : w.subscribed with
    | true => rfl
    | false => have := (hs.unsubd hsub).2 k _ hl; cases this
  exact subscribeFrom_inv j w ⟨up, hc, hs.weaken _⟩ (hs.only_of_live hl rfl) hss hsub

theorem tick_inv {w : TW} {k : TaskId} (seq : Nat) (h : WInv none w) (hl : w.sched.Live k .tick) :
    WInv none (w.runTick .tick seq).1 := by
  obtain ⟨up, h⟩ := h
  obtain ⟨d, p, hsrc⟩ := h.2.okFor_of_live hl
  have hnt := h.2.interval d p hsrc
  simp only [runTick]
  split
  · exact ⟨up, h⟩
  · exact ⟨_, (h.pushNext _ hnt).1⟩

/-! ### from_future, from_stream -/

theorem pollFuture_inv {w : TW} {k : TaskId} {up : List Notif} (res : Bool) (h : Lk k w up) :
    WInv (some k) (w.pollFuture res).1 ∧
      (∀ wk, (w.pollFuture res).2 = .pending wk → WInv none (w.pollFuture res).1) := by
  unfold pollFuture
  split
  · exact ⟨h.inv.weaken _, fun _ _ => h.inv⟩
  · exact ⟨h.inv.weaken _, fun _ _ => h.inv⟩
  · next r hr =>
    have h' : Lk k { w with srcRest := r } up := h.ofEq rfl rfl rfl rfl rfl rfl rfl
    exact ⟨h'.inv.weaken _, fun _ _ => h'.inv⟩
  · next v r hr =>
    have h' : Lk k { w with srcRest := r } up := h.ofEq rfl rfl rfl rfl rfl rfl rfl
    exact ⟨h'.pushLast _ (by simp), fun _ hx => by cases hx⟩
  · next e r hr =>
    have h' : Lk k { w with srcRest := r } up := h.ofEq rfl rfl rfl rfl rfl rfl rfl
    refine ⟨?_, fun _ hx => by cases hx⟩
    dsimp only
    split
    · exact h'.pushLast _ (by simp)
    · exact h'.pushLast _ (by simp)

theorem streamLap_inv {k : TaskId} (res : Bool) : ∀ (l : List AStep) (w : TW) (up : List Notif),
    Lk k w up → WInv (some k) (streamLap res l w).1 ∧
      ((streamLap res l w).2 ≠ .done → ∃ up', Lk k (streamLap res l w).1 up') := by
  intro l
  induction l with
  | nil =>
    intro w up h
    have h' : Lk k { w with srcRest := [] } up := h.ofEq rfl rfl rfl rfl rfl rfl rfl
    simp only [streamLap]
    exact ⟨h'.inv.weaken _, fun _ => ⟨up, h'⟩⟩
  | cons st r ih =>
    intro w up h
    unfold streamLap
    split
    · have h' : Lk k { w with srcRest := st :: r } up := h.ofEq rfl rfl rfl rfl rfl rfl rfl
      exact ⟨h'.inv.weaken _, fun hx => absurd rfl hx⟩
    · cases st with
      | ready v =>
        have h' : Lk k { w with pulls := w.pulls + 1 } up := h.ofEq rfl rfl rfl rfl rfl rfl rfl
        exact ih _ _ (h'.pushNext v)
      | err e =>
        dsimp only
        split
        · have h' : Lk k { w with pulls := w.pulls + 1, srcRest := r } up :=
            h.ofEq rfl rfl rfl rfl rfl rfl rfl
          exact ⟨h'.pushLast _ (by simp), fun hx => absurd rfl hx⟩
        · have h' : Lk k { w with pulls := w.pulls + 1 } up := h.ofEq rfl rfl rfl rfl rfl rfl rfl
          exact ih _ _ (h'.pushNext _)
      | pending =>
        have h' : Lk k { w with srcRest := r } up := h.ofEq rfl rfl rfl rfl rfl rfl rfl
        exact ⟨h'.inv.weaken _, fun _ => ⟨up, h'⟩⟩
      | hang =>
        have h' : Lk k { w with srcRest := .hang :: r } up := h.ofEq rfl rfl rfl rfl rfl rfl rfl
        exact ⟨h'.inv.weaken _, fun _ => ⟨up, h'⟩⟩

theorem pollStream_inv {k : TaskId} (res : Bool) (script : List AStep) (cyc : Bool) (f : Nat) :
    ∀ (w : TW) (up : List Notif), Lk k w up →
      WInv (some k) (pollStream res script cyc f w).1 ∧
      (∀ wk, (pollStream res script cyc f w).2 = .pending wk →
        WInv none (pollStream res script cyc f w).1) := by
  induction f with
  | zero => intro w up h; exact ⟨h.inv.weaken _, fun _ _ => h.inv⟩
  | succ f ih =>
    intro w up h
    have hl := streamLap_inv (k := k) res w.srcRest w up h
    unfold pollStream
    rcases hlap : streamLap res w.srcRest w with ⟨w1, o⟩
    rw [hlap] at hl
    cases o with
    | exhausted =>
      obtain ⟨up', h1⟩ := hl.2 (by simp)
      dsimp only
      split
      · exact ih _ up' (h1.ofEq rfl rfl rfl rfl rfl rfl rfl)
      · exact ⟨h1.pushLast _ (by simp), fun _ hx => by cases hx⟩
    | done => exact ⟨hl.1, fun _ hx => by cases hx⟩
    | pending wk =>
      obtain ⟨up', h1⟩ := hl.2 (by simp)
      exact ⟨hl.1, fun _ _ => h1.inv⟩

theorem runAsync_inv {w : TW} {k : TaskId} {b : Body} (h : WInv none w) (hl : w.sched.Live k b)
    (hb : b.isAsync = true) :
    WInv (some k) (w.runAsync b).1 ∧
      (∀ wk, (w.runAsync b).2 = .pending wk → WInv none (w.runAsync b).1) := by
  obtain ⟨up, h⟩ := h
  have triv : WInv (some k) w ∧ (∀ wk, AOut.done = .pending wk → WInv none w) :=
    ⟨WInv.weaken ⟨up, h⟩ _, fun _ hx => by cases hx⟩
  have lk : ∀ b', b = b' → b'.critical = true → b'.isSub = false →
      (∀ i, w.src ≠ .hot i) → (∀ d p, w.src ≠ .interval d p) → Lk k w up := by
    intro b' e c1 c2 c3 c4; subst e; exact Lk.of_live h hl c1 c2 c3 c4
  obtain ⟨sched, src, stages, sa, ss, st, term, sub, unsub, pulls, rest, log⟩ := w
  cases b with
  | futureSrc =>
    cases src with
    | future res sc =>
      exact pollFuture_inv res (lk _ rfl rfl rfl (fun i hi => by cases hi) (fun d p hi => by cases hi))
    | _ => exact triv
  | streamSrc =>
    cases src with
    | stream res sc cyc =>
      exact pollStream_inv res sc cyc _ _ up
        (lk _ rfl rfl rfl (fun i hi => by cases hi) (fun d p hi => by cases hi))
    | _ => exact triv
  | _ => simp [Body.isAsync] at hb

end TW
end Rx.T
