import RxModel.Lemmas.ChainRetireRun
/-
  C16 over the chain model, part 12: histories.  Every world reached from
  `TW.start src stages` satisfies `WI`; from a world whose source observer is
  finished, `adv d; run` with `d` at least the interval's longest wait retires
  every `interval_task` of the source, and `run` retires the stream driver if it
  is marked ready.
-/
namespace Rx.T
open Rx

/-- The world `Driver/SuiteTime.lean` builds. -/
def TW.start (src : TSrc) (stages : List Stage) : TW := { src := src, stages := stages }

theorem start_WI (src : TSrc) (stages : List Stage) : WI (TW.start src stages) := SInvX.init src

theorem reach_WI (src : TSrc) (stages : List Stage) (evs : List TW.Ev) :
    WI ((TW.start src stages).runEvs evs) := (runEvs_ok evs (start_WI src stages)).1

theorem reach_src (src : TSrc) (stages : List Stage) (evs : List TW.Ev) :
    ((TW.start src stages).runEvs evs).src = src := (runEvs_ok evs (start_WI src stages)).2.src

theorem step_run_eq (w : TW) : w.step .run = TW.runLoop (9999 + 1) w := rfl

/-- The interval source: `adv d; run` with `d ≥ bound`. -/
theorem tick_retires {w : TW} (hI : WI w) (hfin : fin w.stages = true) (d : Nat) (hd : w.src.bound ≤ d)
    {k : TaskId} {t : Task} (ht : w.sched.tasks[k]? = some t) (hb : t.body = .tick) :
    doneAt ((w.step (.adv d)).step .run).sched k := by
  have hIa : WI (w.step (.adv d)) := (step_ok hI (.adv d)).1
  -- the task is a RepeatTask; its timer is due once `d` has passed
  obtain ⟨fur, iv, seq, hrep⟩ : ∃ fur iv seq, t.rep = some (fur, iv, seq) := by
    have := hI.tickRep k t ht hb
    cases hr : t.rep with
    | none => exact absurd hr this
    | some r => exact ⟨r.1, r.2.1, r.2.2, rfl⟩
  obtain ⟨_, _, tm, htm, _, _, hbound⟩ := hI.rep k t fur iv seq ht hrep
  have hdue : tm.due ≤ w.sched.now + d :=
    Nat.le_trans (hI.due fur tm htm) (Nat.add_le_add_left (Nat.le_trans (hbound hb).2 hd) _)
  rw [step_run_eq]
  generalize hwa : w.step (.adv d) = wa at hIa
  have hsa : wa.sched = { w.sched with now := w.sched.now + d } := by rw [← hwa]; rfl
  have hstages : wa.stages = w.stages := by rw [← hwa]; rfl
  have hta : wa.sched.tasks[k]? = some t := by rw [hsa]; exact ht
  have htma : wa.sched.timers[fur]? = some tm := by rw [hsa]; exact htm
  have hnow : wa.sched.now = w.sched.now + d := by rw [hsa]
  have hk := fireAll_keep wa.sched.dueTimers k wa.sched
  obtain ⟨t1, ht1, hr1, hb1, _, _⟩ := hk.task t hta
  have hfired : (wa.sched.dueTimers.foldl Sched.fire wa.sched).timerFired fur = true := by
    cases hf : tm.fired with
    | true =>
      refine fireAll_fired_mono _ _ _ ?_
      unfold Sched.timerFired; rw [htma]; exact hf
    | false =>
      exact fireAll_fires _ _ _ (mem_dueTimers wa.sched fur tm htma hf (by rw [hnow]; exact hdue))
        (Sched.get_lt htma)
  have hI1 := (fireAll_ok hIa wa.sched.dueTimers).1
  refine runLoop_retires 9999 hIa ?_ ?_
  · refine Or.inr (Or.inl ⟨t1, fur, iv, seq, ht1, hr1.trans hrep, hfired, ?_⟩)
    rw [hb1, hb]
    show fin wa.stages = true
    rw [hstages]; exact hfin
  · intro t' ht' hd'
    rw [ht1] at ht'; cases ht'
    obtain ⟨_, _, tm1, htm1, _, hw1, _⟩ := hI1.rep k t1 fur iv seq ht1 (hr1.trans hrep)
    rcases hw1 hd' (by simp) with h | h
    · exact h
    · have : tm1.fired = true := by
        have hx := hfired
        unfold Sched.timerFired at hx
        rw [show (wa.sched.dueTimers.foldl Sched.fire wa.sched).timers[fur]? = some tm1 from htm1] at hx
        exact hx
      rw [this] at h; cases h.2

/-- The stream driver: marked ready, it is polled by the next `run` and returns `Ready`. -/
theorem stream_retires {w : TW} (hI : WI w) (hfin : fin w.stages = true)
    {k : TaskId} {t : Task} (ht : w.sched.tasks[k]? = some t) (hb : t.body = .streamSrc)
    (hw : t.woken = true) : doneAt (w.step .run).sched k := by
  rw [step_run_eq]
  have hk := fireAll_keep w.sched.dueTimers k w.sched
  obtain ⟨t1, ht1, _, hb1, _, hw1⟩ := hk.task t ht
  refine runLoop_retires 9999 hI ?_ ?_
  · exact Or.inr (Or.inr ⟨t1, ht1, hb1.trans hb, hfin⟩)
  · intro t' ht' _
    rw [ht1] at ht'; cases ht'
    exact hw1 hw

/-- … any RepeatTask (interval in second-input position, buffer_with_time's flush
    task, the source's interval_task) whose observer is finished and whose period
    timer is due. -/
theorem repeat_retires {w : TW} (hI : WI w) {k : TaskId} {t : Task} {fur iv seq : Nat} {tm : Timer}
    (ht : w.sched.tasks[k]? = some t) (hrep : t.rep = some (fur, iv, seq))
    (htm : w.sched.timers[fur]? = some tm) (hdue : tm.due ≤ w.sched.now)
    (hobs : w.obsFin t.body = true) : doneAt (w.step .run).sched k := by
  rw [step_run_eq]
  have hk := fireAll_keep w.sched.dueTimers k w.sched
  obtain ⟨t1, ht1, hr1, hb1, _, _⟩ := hk.task t ht
  have hfired : (w.sched.dueTimers.foldl Sched.fire w.sched).timerFired fur = true := by
    cases hf : tm.fired with
    | true =>
      refine fireAll_fired_mono _ _ _ ?_
      unfold Sched.timerFired; rw [htm]; exact hf
    | false => exact fireAll_fires _ _ _ (mem_dueTimers w.sched fur tm htm hf hdue) (Sched.get_lt htm)
  have hI1 := (fireAll_ok hI w.sched.dueTimers).1
  refine runLoop_retires 9999 hI ?_ ?_
  · refine Or.inr (Or.inl ⟨t1, fur, iv, seq, ht1, hr1.trans hrep, hfired, ?_⟩)
    rw [hb1]; exact hobs
  · intro t' ht' hd'
    rw [ht1] at ht'; cases ht'
    obtain ⟨_, _, tm1, htm1, _, hw1, _⟩ := hI1.rep k t1 fur iv seq ht1 (hr1.trans hrep)
    rcases hw1 hd' (by simp) with h | h
    · exact h
    · have : tm1.fired = true := by
        have hx := hfired
        unfold Sched.timerFired at hx
        rw [show (w.sched.dueTimers.foldl Sched.fire w.sched).timers[fur]? = some tm1 from htm1] at hx
        exact hx
      rw [this] at h; cases h.2

end Rx.T
