import RxModel.Lemmas.ShareInstr
/-
  Helper lemmas for C01M (share / publish / ref_count): every selection `p` of
  the tagged deliveries that picks at most one live subscription at a time has
  a well-formed log.  `p = (cell id = i)` gives the per-subscription grammar,
  `p = (label = k)` the per-probe grammar (under the harness discipline).
-/
namespace Rx.Share
namespace W

/-- The notifications of the selected deliveries. -/
def sel (p : Nat × Nat → Bool) (ds : List IDlv) : List Notif :=
  ds.filterMap fun d => if p (d.1, d.2.1) then some d.2.2 else none

@[simp] theorem sel_nil (p : Nat × Nat → Bool) : sel p [] = [] := rfl
theorem sel_append (p : Nat × Nat → Bool) (a b : List IDlv) : sel p (a ++ b) = sel p a ++ sel p b := by
  simp [sel, List.filterMap_append]

/-- Entries of a subject. -/
def ents (s : Subj) : List Nat := s.observers.getD [] ++ s.chamber.getD []

theorem entries_eq (w : W) : w.entries = ents w.subj := rfl

theorem load_observers_none (s : Subj) : (load s).observers = none ↔ s.observers = none := by
  cases s with
  | mk o c => cases o <;> simp [load]

theorem ents_load (s : Subj) : ents (load s) = ents s := by
  cases s with
  | mk o c => cases o <;> simp [load, ents]

theorem load_observers_some (s : Subj) (obs : List Nat) (h : (load s).observers = some obs) :
    obs = ents s ∧ (load s).chamber = some [] := by
  cases s with
  | mk o c =>
    cases o with
    | none => simp [load] at h
    | some o' =>
      simp only [load, Option.some.injEq] at h
      subst h
      simp [ents, load]

/-- Invariant: entry ids are allocated cells, no entry twice, and `p` selects
    at most one live cell. -/
structure Inv (p : Nat × Nat → Bool) (w : W) : Prop where
  bound : ∀ id ∈ ents w.subj, id < w.cells.length
  nodup : (ents w.subj).Nodup
  uniq : ∀ id id' l l', (w.cells[id]?).join = some l → (w.cells[id']?).join = some l' →
    p (id, l) = true → p (id', l') = true → id = id'

theorem Inv.congr {p : Nat × Nat → Bool} {w w' : W} (h : Inv p w)
    (hs : w'.subj = w.subj) (hc : w'.cells = w.cells) : Inv p w' :=
  ⟨by rw [hs, hc]; exact h.bound, by rw [hs]; exact h.nodup, by rw [hc]; exact h.uniq⟩

/-- One transition seen through the selection. -/
structure Tr (p : Nat × Nat → Bool) (w w' : W) (d : List IDlv) : Prop where
  wf : WF (sel p d)
  term : terminated (sel p d) = true → w'.subj.observers = none
  dead : w.subj.observers = none → d = [] ∧ w'.subj.observers = none

theorem Tr.comp {p : Nat × Nat → Bool} {w w1 w2 : W} {d1 d2 : List IDlv}
    (h1 : Tr p w w1 d1) (h2 : Tr p w1 w2 d2) : Tr p w w2 (d1 ++ d2) := by
  refine ⟨?_, ?_, ?_⟩
  · rw [sel_append, WF_append_iff]
    refine ⟨h1.wf, ?_, h2.wf⟩
    intro ht
    rw [(h2.dead (h1.term ht)).1]; rfl
  · rw [sel_append, terminated_append, Bool.or_eq_true]
    rintro (ht | ht)
    · exact (h2.dead (h1.term ht)).2
    · exact h2.term ht
  · intro hd
    have a := h1.dead hd
    have b := h2.dead a.2
    simp [a.1, b.1, b.2]

theorem Tr.silent {p : Nat × Nat → Bool} {w w' : W}
    (h : w.subj.observers = none → w'.subj.observers = none) : Tr p w w' [] :=
  ⟨by simp, by simp [terminated], fun hd => ⟨rfl, h hd⟩⟩

/-! ### broadcasts -/

theorem bcast_next (p : Nat × Nat → Bool) (cells : List (Option Nat)) (v : Val) (obs : List Nat) :
    WF (sel p (bcastI cells obs (.next v))) ∧
      terminated (sel p (bcastI cells obs (.next v))) = false := by
  induction obs with
  | nil => simp [bcastI, terminated]
  | cons id r ih =>
    simp only [bcastI, List.filterMap_cons] at ih ⊢
    cases h : (cells[id]?).join with
    | none => simpa using ih
    | some l =>
      simp only [Option.map_some, sel, List.filterMap_cons]
      cases hp : p (id, l)
      · simpa [sel] using ih
      · simpa [sel, terminated] using ih

theorem bcast_none (p : Nat × Nat → Bool) (cells : List (Option Nat)) (n : Notif) (obs : List Nat)
    (h : ∀ id ∈ obs, ∀ l, (cells[id]?).join = some l → p (id, l) = false) :
    sel p (bcastI cells obs n) = [] := by
  induction obs with
  | nil => rfl
  | cons id r ih =>
    have ih' := ih (fun i hi => h i (List.mem_cons_of_mem _ hi))
    simp only [bcastI, List.filterMap_cons] at ih' ⊢
    cases hc : (cells[id]?).join with
    | none => simpa using ih'
    | some l =>
      have := h id (List.mem_cons_self) l hc
      simp only [Option.map_some, sel, List.filterMap_cons, this]
      simpa [sel] using ih'

theorem bcast_le_one (p : Nat × Nat → Bool) (cells : List (Option Nat)) (n : Notif) (obs : List Nat)
    (hnd : obs.Nodup)
    (hu : ∀ id id' l l', (cells[id]?).join = some l → (cells[id']?).join = some l' →
      p (id, l) = true → p (id', l') = true → id = id') :
    sel p (bcastI cells obs n) = [] ∨ sel p (bcastI cells obs n) = [n] := by
  induction obs with
  | nil => exact Or.inl rfl
  | cons id r ih =>
    have hnd' := List.nodup_cons.1 hnd
    have ih' := ih hnd'.2
    simp only [bcastI, List.filterMap_cons] at ih' ⊢
    cases hc : (cells[id]?).join with
    | none => simpa using ih'
    | some l =>
      simp only [Option.map_some, sel, List.filterMap_cons]
      cases hp : p (id, l)
      · simpa [sel] using ih'
      · right
        have hr := bcast_none p cells n r (by
          intro i hi l' hl'
          cases hq : p (i, l') with
          | false => rfl
          | true =>
            have := hu id i l l' hc hl' hp hq
            subst this
            exact absurd hi hnd'.1)
        simp only [bcastI, sel] at hr
        simp [hr]

/-! ### the inner subject is called -/

theorem tapCall_next_fst (w : W) (v : Val) :
    (w.tapCall (.next v)).1 = { w with tap := w.tap + 1, subj := load w.subj } := by
  simp only [tapCall, subjNext]
  split <;> rfl

theorem tapCall_term_eq (w : W) (t : Notif) (ht : t.isTerm = true) :
    w.tapCall t = w.subjTerminal t := by
  cases t <;> simp_all [tapCall, Notif.isTerm]

theorem tapCall_next_inv {p : Nat × Nat → Bool} (w : W) (v : Val) (h : Inv p w) :
    Inv p (w.tapCall (.next v)).1 := by
  rw [tapCall_next_fst]
  exact ⟨by simpa [ents_load] using h.bound, by simpa [ents_load] using h.nodup, h.uniq⟩

theorem tapCall_next_tr (p : Nat × Nat → Bool) (w : W) (v : Val) :
    Tr p w (w.tapCall (.next v)).1 (subjCallI w (.next v)) := by
  rw [tapCall_next_fst]
  simp only [subjCallI]
  cases ho : (load w.subj).observers with
  | none =>
    exact ⟨by simp, by simp [terminated], fun _ => ⟨rfl, ho⟩⟩
  | some obs =>
    have hb := bcast_next p w.cells v obs
    refine ⟨hb.1, by simp [hb.2], ?_⟩
    intro hd
    rw [(load_observers_none _).2 hd] at ho
    cases ho

theorem cell_foldl_none (obs : List Nat) : ∀ (cs : List (Option Nat)) (id l : Nat),
    (((obs.foldl (fun cs id => cs.set id none) cs)[id]?).join = some l) → (cs[id]?).join = some l := by
  induction obs with
  | nil => intro cs id l h; exact h
  | cons o r ih =>
    intro cs id l h
    have := ih _ id l h
    simp only [List.foldl_cons] at h
    rw [List.getElem?_set] at this
    split at this
    · split at this <;> simp at this
    · exact this

theorem subjTerminal_inv {p : Nat × Nat → Bool} (w : W) (t : Notif) (h : Inv p w) :
    Inv p (w.subjTerminal t).1 := by
  simp only [subjTerminal]
  cases ho : (load w.subj).observers with
  | none =>
    simp only
    exact ⟨by simpa [ents_load] using h.bound, by simpa [ents_load] using h.nodup, h.uniq⟩
  | some obs =>
    have hl := load_observers_some _ _ ho
    refine ⟨?_, ?_, ?_⟩
    · simp [ents, hl.2]
    · simp [ents, hl.2]
    · intro id id' l l' h1 h2
      exact h.uniq id id' l l' (cell_foldl_none _ _ _ _ h1) (cell_foldl_none _ _ _ _ h2)

theorem subjTerminal_tr {p : Nat × Nat → Bool} (w : W) (t : Notif) (h : Inv p w) :
    Tr p w (w.subjTerminal t).1 (subjCallI w t) := by
  simp only [subjTerminal, subjCallI]
  cases ho : (load w.subj).observers with
  | none =>
    exact ⟨by simp, by simp [terminated], fun _ => ⟨rfl, ho⟩⟩
  | some obs =>
    have hl := load_observers_some _ _ ho
    have hb := bcast_le_one p w.cells t obs (by rw [hl.1]; exact h.nodup) h.uniq
    refine ⟨?_, fun _ => rfl, ?_⟩
    · rcases hb with hb | hb <;> rw [hb]
      · simp
      · exact WF_single t
    · intro hd
      rw [(load_observers_none _).2 hd] at ho
      cases ho

theorem coldEmit_inv {p : Nat × Nat → Bool} (xs : List Val) : ∀ w : W, Inv p w →
    Inv p (w.coldEmit xs).1 ∧ Tr p w (w.coldEmit xs).1 (coldEmitI w xs) := by
  induction xs with
  | nil =>
    intro w h
    simp only [coldEmit, coldEmitI]
    rw [tapCall_term_eq w .complete rfl]
    exact ⟨subjTerminal_inv w _ h, subjTerminal_tr w _ h⟩
  | cons v r ih =>
    intro w h
    simp only [coldEmit, coldEmitI]
    have h1 := tapCall_next_inv w v h
    have t1 := tapCall_next_tr p w v
    have := ih _ h1
    exact ⟨this.1, Tr.comp t1 this.2⟩

theorem doConnect_inv {p : Nat × Nat → Bool} (w : W) (keep : Bool) (h : Inv p w) :
    Inv p (w.doConnect keep).1 ∧ Tr p w (w.doConnect keep).1 (doConnectI w) := by
  cases hc : w.cold with
  | none =>
    simp only [doConnect, doConnectI, hc]
    exact ⟨h.congr rfl rfl, Tr.silent (fun hd => hd)⟩
  | some xs =>
    have := coldEmit_inv (p := p) xs { w with connected := true, srcSubs := w.srcSubs + 1 }
      (h.congr rfl rfl)
    simp only [hc] at this
    simp only [doConnect, doConnectI, hc]
    exact ⟨this.1, ⟨this.2.wf, this.2.term, this.2.dead⟩⟩

end W
end Rx.Share
