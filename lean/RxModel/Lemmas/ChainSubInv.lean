import RxModel.Lemmas.ChainSubWorld
/-
  C09 over whole chains, part 5: the world invariant and every event.

  `W9 ks E T w`: the world `hot 0 → stages → probe` has been subscribed, every task
  in the scheduler carries a benign body, and there is a ghost history `up` of
  what subject 0 has handed to stage 0 whose items are a sublist of `E` and with
  `Chain9 up w.stages w.log`.  `(E, T)` is the ghost state of ChainRateInv.lean:
  the items subject 0 emitted before its first terminal, and whether that
  terminal has been emitted (then subject 0 is in `w.terminated`).
-/
namespace Rx.T
open Rx Rx.Spec

theorem Sched.Ext.benign {s s' : Sched} (h : s.Ext s') (hb : s.Benign) : s'.Benign :=
  h.le.body (P := fun b => b.benign = true) (fun _ h => h) hb

/-! ### ghost facts -/

theorem ghost_sub (E : List Val) (T : Bool) (ev : TW.Ev) : E.Sublist (ghost (E, T) ev).1 := by
  cases ev with
  | emit i n =>
    simp only [ghost]
    split
    · cases n <;> simp
    · exact List.Sublist.refl _
  | _ => exact List.Sublist.refl _

theorem ghost_next (E : List Val) (v : Val) : ghost (E, false) (.emit 0 (.next v)) = (E ++ [v], false) := by
  simp [ghost]

theorem ghost_T (E : List Val) (T : Bool) (i : Nat) (n : Notif)
    (h : (ghost (E, T) (.emit i n)).2 = true) : T = true ∨ (i = 0 ∧ n.isTerm = true) := by
  simp only [ghost] at h
  split at h
  · next hc => cases n <;> simp_all [Notif.isTerm]
  · exact Or.inl h

structure W9 (ks : List Bool) (E : List Val) (T : Bool) (w : TW) : Prop where
  src : w.src = .hot 0
  subscribed : w.subscribed = true
  srcSubscribed : w.srcSubscribed = true
  term : T = true → 0 ∈ w.terminated
  benign : w.sched.Benign
  chain : ∃ up, (items up).Sublist E ∧ Chain9K ks up w.stages w.log

variable {ks : List Bool} {E E' : List Val} {T T' : Bool} {w w' : TW}

theorem W9.setSched (I : W9 ks E T w) (s' : Sched) (hs : s'.Benign) : W9 ks E T { w with sched := s' } :=
  ⟨I.src, I.subscribed, I.srcSubscribed, I.term, hs, I.chain⟩

/-- A move that does not involve the source. -/
theorem W9.quiet (I : W9 ks E T w) (q : Quiet w w') (k : TW.Keep9 w w') : W9 ks E T w' := by
  obtain ⟨up, hs, hc⟩ := I.chain
  exact ⟨q.src.trans I.src, q.subscribed.trans I.subscribed, q.srcSubscribed.trans I.srcSubscribed,
    fun h => q.term 0 (I.term h), q.sched.benign I.benign, up, hs, k ks up hc⟩

theorem W9.weaken (I : W9 ks E T w) (hE : E.Sublist E') (hT : T' = true → 0 ∈ w.terminated) :
    W9 ks E' T' w := by
  obtain ⟨up, hs, hc⟩ := I.chain
  exact ⟨I.src, I.subscribed, I.srcSubscribed, hT, I.benign, up, hs.trans hE, hc⟩

/-- Subject 0 hands `n` to stage 0. -/
theorem W9.push0 (I : W9 ks E T w) (n : Notif)
    (hE : ∀ up : List Notif, (items up).Sublist E → (items (up ++ [n])).Sublist E')
    (hT : T' = true → 0 ∈ w.terminated) : W9 ks E' T' (w.push 0 [n]) := by
  obtain ⟨up, hs, hc⟩ := I.chain
  exact ⟨I.src, I.subscribed, I.srcSubscribed, hT, (TW.push_ext w 0 [n]).benign I.benign,
    up ++ [n], hE up hs, TW.push_zero_chain9 w [n] ks up hc⟩

/-! ### tasks -/

theorem benign_not_critical {b : Body} (h : b.benign = true) : b.critical = false := by
  cases b <;> first | rfl | (simp [Body.benign] at h)

theorem benign_ne_tick {b : Body} (h : b.benign = true) : b ≠ .tick := by
  rintro rfl; simp [Body.benign] at h

theorem W9.pollTask (I : W9 ks E T w) (k : TaskId) : W9 ks E T (w.pollTask k) := by
  have hp := I.benign.pollPre k
  unfold TW.pollTask
  generalize w.sched.pollPre k = r at hp
  obtain ⟨s1, p⟩ := r
  obtain ⟨hs1, hp⟩ := hp
  have I1 : W9 ks E T { w with sched := s1 } := I.setSched s1 hs1
  cases p with
  | none => exact I1
  | runOnce b =>
    have hb : b.benign = true := hp
    have hna : b.isAsync = false := by
      cases b <;> first | rfl | (simp [Body.benign] at hb)
    have I2 := I1.quiet (TW.runBody_quiet _ b (benign_not_critical hb)) (TW.runBody_keep9 _ b hb)
    dsimp only
    rw [if_neg (by simp [hna])]
    exact I2.setSched _ (I2.benign.finishOnce k)
  | runTick b seq =>
    have hb : b.benign = true := hp
    have I2 := I1.quiet (TW.runTick_quiet _ b seq (benign_ne_tick hb)) (TW.runTick_keep9 _ b seq hb)
    dsimp only
    split
    · exact I2.setSched _ (I2.benign.continueRepeat k)
    · exact I2.setSched _ (I2.benign.finishOnce k)

theorem W9.pollAll (l : List TaskId) (I : W9 ks E T w) : W9 ks E T (w.pollAll l) := by
  induction l generalizing w with
  | nil => exact I
  | cons k r ih =>
    unfold TW.pollAll
    dsimp only
    repeat' split
    all_goals first | exact ih (I.pollTask k) | exact ih I

theorem W9.runLoop (fuel : Nat) (I : W9 ks E T w) : W9 ks E T (TW.runLoop fuel w) := by
  induction fuel generalizing w with
  | zero => exact I
  | succ f ih =>
    unfold TW.runLoop
    dsimp only
    have I1 := I.setSched _ (I.benign.fireAll w.sched.dueTimers)
    split
    · exact I1
    · exact ih (I1.pollAll _)

/-! ### emissions of the subjects -/

/-- The part of `emit` that concerns the chain's own source. -/
theorem W9.emitSrc (I : W9 ks E T w) (i : Nat) (n : Notif) (hni : ¬ i ∈ w.terminated)
    (hE : E.Sublist E') (hv : ∀ v, n = .next v → i = 0 → E' = E ++ [v])
    (hT : T' = true → T = true ∨ (i = 0 ∧ n.isTerm = true)) :
    W9 ks E' T' (
      let w1 := if n.isTerm then { w with terminated := i :: w.terminated } else w
      match w.src with
      | .hot j =>
        if i = j && w.srcSubscribed && w.srcAlive then
          match (generalizing := false) n with
          | .next _ => w1.push 0 [n]
          | _ => { w1 with srcAlive := false }.push 0 [n]
        else w1
      | _ => w1) := by
  have hsrc0 := I.src
  have hot_ctx : ∀ j, w.src = .hot j → (i = j && w.srcSubscribed && w.srcAlive) = true → i = 0 := by
    intro j hsrc hcond
    simp only [Bool.and_eq_true, decide_eq_true_eq] at hcond
    rw [hsrc0] at hsrc; cases hsrc
    exact hcond.1.1
  -- the world with subject `i` marked as terminated
  have mark : n.isTerm = true → W9 ks E' T' { w with terminated := i :: w.terminated } := by
    intro hn
    obtain ⟨up, hs, hc⟩ := I.chain
    refine ⟨I.src, I.subscribed, I.srcSubscribed, fun h => ?_, I.benign, up, hs.trans hE, hc⟩
    rcases hT h with h' | ⟨h', _⟩
    · exact List.mem_cons_of_mem _ (I.term h')
    · subst h'; exact List.mem_cons_self ..
  have markPush : n.isTerm = true → items [n] = [] →
      W9 ks E' T' (({ w with terminated := i :: w.terminated, srcAlive := false } : TW).push 0 [n]) := by
    intro hn hi
    have I1 := mark hn
    have I2 : W9 ks E' T' { w with terminated := i :: w.terminated, srcAlive := false } :=
      ⟨I1.src, I1.subscribed, I1.srcSubscribed, I1.term, I1.benign, I1.chain⟩
    exact I2.push0 n (fun up h => by rw [items_append, hi]; simpa using h) I2.term
  cases n with
  | next v =>
    have hT' : T' = true → 0 ∈ w.terminated := by
      intro h
      rcases hT h with h' | ⟨_, h'⟩
      · exact I.term h'
      · simp [Notif.isTerm] at h'
    simp only [Notif.isTerm, Bool.false_eq_true, if_false]
    split
    · next j hsrc =>
      split
      · next hcond =>
        have hi := hot_ctx j hsrc hcond
        rw [hv v rfl hi]
        exact I.push0 (.next v)
          (fun up h => by rw [items_snoc_next]; exact List.Sublist.append h (List.Sublist.refl _))
          hT'
      · exact I.weaken hE hT'
    · exact I.weaken hE hT'
  | error e =>
    simp only [Notif.isTerm, if_true]
    split
    · next j hsrc =>
      split
      · exact markPush rfl rfl
      · exact mark rfl
    · exact mark rfl
  | complete =>
    simp only [Notif.isTerm, if_true]
    split
    · next j hsrc =>
      split
      · exact markPush rfl rfl
      · exact mark rfl
    · exact mark rfl

/-- One event. -/
theorem W9.step (I : W9 ks E T w) (ev : TW.Ev) :
    W9 ks (ghost (E, T) ev).1 (ghost (E, T) ev).2 (w.step ev) := by
  cases ev with
  | sub => simpa [TW.step, I.subscribed, ghost] using I
  | adv d => exact I.setSched _ (I.benign.now _)
  | fire i =>
    simp only [TW.step, ghost]
    split
    · exact I.setSched _ (I.benign.fire _)
    · exact I
  | poll i =>
    simp only [TW.step, ghost]
    split
    · exact I.pollTask _
    · exact I
  | run => exact I.runLoop _
  | unsub =>
    simp only [TW.step, ghost]
    split
    · have q2 : Quiet (TW.unsubFrom w w.stages.length)
          { TW.unsubFrom w w.stages.length with unsubscribed := true } :=
        TW.Quiet.ofEq rfl rfl rfl rfl rfl rfl rfl
      exact (I.quiet (TW.unsubFrom_quiet _ w) (TW.unsubFrom_keep9 _ w)).quiet q2 (TW.Keep9.ofEq rfl rfl)
    · exact I
  | emit i n =>
    simp only [TW.step]
    split
    · next hc =>
      have hc : i ∈ w.terminated := by simpa using hc
      refine I.weaken (ghost_sub E T _) (fun h => ?_)
      rcases ghost_T E T i n h with h' | ⟨h', _⟩
      · exact I.term h'
      · subst h'; exact hc
    · next hni =>
      have hni : ¬ i ∈ w.terminated := by simpa using hni
      have hv : ∀ v, n = .next v → i = 0 → (ghost (E, T) (.emit i n)).1 = E ++ [v] := by
        intro v hn hi
        subst hn; subst hi
        have hT : T = false := by
          cases T with
          | false => rfl
          | true => exact absurd (I.term rfl) hni
        subst hT
        rw [ghost_next]
      have I1 := I.emitSrc i n hni (ghost_sub E T _) hv (ghost_T E T i n)
      exact I1.quiet (TW.deliverNotifiers_quiet _ i n _) (TW.deliverNotifiers_keep9 _ i n _)

/-- Every event list. -/
theorem W9.fold (evs : List TW.Ev) (g : List Val × Bool) (w : TW) (I : W9 ks g.1 g.2 w) :
    W9 ks (evs.foldl ghost g).1 (evs.foldl ghost g).2 (evs.foldl TW.step w) := by
  induction evs generalizing g w with
  | nil => exact I
  | cons e r ih => exact ih _ _ (I.step e)

/-- The world `hot 0 → stages → probe`, subscribed, then driven by `evs`. -/
def chainRun (stages : List Stage) (evs : List TW.Ev) : TW :=
  evs.foldl TW.step (TW.step { src := .hot 0, stages := stages } .sub)

theorem chainRun_eq (stages : List Stage) (evs : List TW.Ev) :
    chainRun stages evs = (TW.Ev.sub :: evs).foldl TW.step { src := .hot 0, stages := stages } := rfl

/-- The first `sub`: `actual_subscribe` of every stage, then of the subject. -/
theorem W9.init (stages : List Stage) (hs : ∀ st ∈ stages, st.Start9) :
    W9 (stages.map Stage.isBuf) [] false (TW.step { src := .hot 0, stages := stages } .sub) := by
  have e : TW.step { src := .hot 0, stages := stages } .sub
      = TW.subscribeFrom { src := .hot 0, stages := stages, subscribed := true } stages.length := rfl
  rw [e]
  obtain ⟨r, c⟩ := TW.subscribeFrom_9 (stages.map Stage.isBuf) stages.length
    { src := .hot 0, stages := stages, subscribed := true } [] rfl ⟨rfl, Chain9.initial stages hs⟩
  refine ⟨r.src, r.subscribed, r.srcSubscribed, fun h => (by cases h), r.sched.benign ?_,
    [], List.Sublist.refl _, c⟩
  intro t ht
  simp at ht

/-- From a fresh subscription: `E` is `itemsEmitted`. -/
theorem W9.run (stages : List Stage) (hs : ∀ st ∈ stages, st.Start9) (evs : List TW.Ev) :
    ∃ T, W9 (stages.map Stage.isBuf) (itemsEmitted evs) T (chainRun stages evs) := by
  have := W9.fold evs ([], false) _ (W9.init stages hs)
  rw [ghost_fold_false] at this
  exact ⟨_, by simpa [chainRun] using this⟩

end Rx.T
