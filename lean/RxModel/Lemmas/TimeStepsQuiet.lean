import RxModel.Lemmas.TimeStepsEv
/-
  Helper lemmas for Props/C02S.lean, part 3: debounce and throttle (handler-cell operators) with the
  ORIGINAL order of their subscription.  Invariants of all schedules, and from them: nothing is
  delivered after the marker `R`.
-/
namespace Rx.Conc.TS
open Rx

/-- what a thread standing at a program counter knows -/
def Assert (s : St) : Pc → Prop
  | .hc_store k => k < s.tasks.length ∧ ∀ h, s.hcell = some h → s.armed h = false
  | .th_ltrail _ => ∀ h, s.hcell = some h → s.armed h = false
  | .th_ldown _ => ∀ h, s.hcell = some h → s.armed h = false
  | .th_closed h _ => s.hcell = some h
  | .db_cancel _ => s.hcell = none
  | .p_trail k _ => s.armed k = true
  | .p_down k _ _ => s.armed k = true
  | .u_hcell _ => s.slotOpen = false
  | .u_cancel _ _ => s.slotOpen = false ∧ s.hcell = none
  | .u_end => s.slotOpen = false ∧ s.hcell = none ∧ ∀ k, s.armed k = false
  | _ => True

/-- after `unsubscribe()` has returned -/
structure Quiet (s : St) (f : Nat → Pc) : Prop where
  slot : s.slotOpen = false
  hcell : s.hcell = none
  dead : ∀ k, s.armed k = false
  out : ∀ j, Cell.slot ∉ (f j).holds

/-- the clauses that do not talk about `locks` -/
structure DData (s : St) (f : Nat → Pc) : Prop where
  ok : ∀ j, (f j).okH = true
  body : ∀ t ∈ s.tasks, t.body = .trailing
  as : ∀ j, Assert s (f j)
  poll : PollInv s f
  /-- the handler cell holds the handle of an existing task -/
  t4 : ∀ h, s.hcell = some h → h < s.tasks.length
  /-- an armed task is the one in the handler cell, or about to be stored / cancelled -/
  t1 : ∀ k, s.armed k = true →
    s.hcell = some k ∨ ∃ j, f j = .hc_store k ∨ f j = .db_cancel k ∨ f j = .tc_cancel k ∨ f j = .te_cancel k ∨
      f j = .u_cancel k false
  /-- once the source half is closed nobody is inside the slot section -/
  u1 : ∀ j j', (f j).uLate = true → Cell.slot ∉ (f j').holds
  q : Item.R ∈ s.log → Quiet s f
  ql : quietAfterR s.log = true

structure DInv (s : St) (f : Nat → Pc) : Prop where
  ld : LD s f
  dd : DData s f

/-- debounce or throttle, the order of the code -/
structure HConf (K : Conf) : Prop where
  kind : K.kind.isH = true
  order : K.order = .original

theorem task_body (s : St) (hb : ∀ t ∈ s.tasks, t.body = .trailing) (k : Nat) : (s.task k).body = .trailing := by
  rw [task_eq]
  cases h : s.tasks[k]? with
  | none => rfl
  | some t => exact hb t (List.mem_of_getElem? h)

theorem step_okH {K : Conf} (hK : HConf K) (s : St) (p : Pc) (hb : ∀ t ∈ s.tasks, t.body = .trailing)
    (hp : p.okH = true) : (step K s p).2.okH = true := by
  have tb := task_body s hb
  have h1 := hK.kind
  have h2 := hK.order
  cases p <;> simp only [step, nextEntry, termEntry, afterTrail, thOver, uSecond, uAfter, retPc] <;>
    (repeat' split) <;> simp_all [Pc.okH, Kind.isH]

theorem entry_okH {q : Pc} (h : q.isEntry = true) : q.okH = true := by
  cases q <;> simp_all [Pc.isEntry, Pc.okH]

theorem entry_assert (s : St) {q : Pc} (h : q.isEntry = true) : Assert s q := by
  cases q <;> simp_all [Pc.isEntry, Assert]

theorem entry_uLate {q : Pc} (h : q.isEntry = true) : q.uLate = false := by
  cases q <;> simp_all [Pc.isEntry, Pc.uLate]

/-! ### non-interference: what thread j ≠ i knows survives a step of thread i -/

section frame
variable {K : Conf} {s : St} {f : Nat → Pc} {i : Nat}

/-- a step that needs a cell some other thread holds is not enabled -/
theorem blocked_of_held (h : LD s f) {j : Nat} {c : Cell} (hc : c ∈ (f j).holds)
    (hp : (f i).cell = some c) : s.enabled (f i) = false := by
  unfold St.enabled; rw [hp]; exact h.not_free hc

/-- no step re-arms a task; a fresh armed one comes from inside the slot section -/
theorem armed_mono {k : Nat} (hx : (step K s (f i)).1.armed k = true) :
    s.armed k = true ∨ (s.tasks[k]? = none ∧ Cell.slot ∈ (f i).holds) :=
  ev_armed _ _ _ _ hx

theorem unarmed_keep {k : Nat} (hk : k < s.tasks.length) (hu : s.armed k = false) :
    (step K s (f i)).1.armed k = false := by
  cases hx : (step K s (f i)).1.armed k with
  | false => rfl
  | true =>
    rcases armed_mono hx with e | ⟨e, _⟩
    · rw [hu] at e; cases e
    · rw [List.getElem?_eq_getElem hk] at e; cases e

theorem assert_frame (h : DInv s f) (he : s.enabled (f i) = true) {j : Nat} (hj : j ≠ i) :
    Assert (step K s (f i)).1 (f j) := by
  have a := h.dd.as j
  have hstore : ∀ k', f i = .hc_store k' → Cell.slot ∈ (f j).holds ∨ (f j).uLate = true → False := by
    intro k' e hsl
    have hi : Cell.slot ∈ (f i).holds := by rw [e]; simp [Pc.holds]
    rcases hsl with hsl | hsl
    · exact hj (h.ld.excl _ _ _ hsl hi)
    · exact h.dd.u1 j i hsl hi
  have hcell : s.hcell = none → Cell.slot ∈ (f j).holds ∨ (f j).uLate = true →
      (step K s (f i)).1.hcell = none := by
    intro hn hsl
    cases hx : (step K s (f i)).1.hcell with
    | none => rfl
    | some k' =>
      rcases ev_hcell_some _ _ _ _ hx with e | e
      · rw [hn] at e; cases e
      · exact (hstore k' e hsl).elim
  have hun : (∀ h', s.hcell = some h' → s.armed h' = false) → Cell.slot ∈ (f j).holds →
      ∀ h', (step K s (f i)).1.hcell = some h' → (step K s (f i)).1.armed h' = false := by
    intro hu hsl h' hx
    rcases ev_hcell_some _ _ _ _ hx with e | e
    · exact unarmed_keep (h.dd.t4 h' e) (hu h' e)
    · exact (hstore h' e (Or.inl hsl)).elim
  have hslot : s.slotOpen = false → (step K s (f i)).1.slotOpen = false := by
    intro hn
    cases hx : (step K s (f i)).1.slotOpen with
    | false => rfl
    | true => rw [ev_slot _ _ _ hx] at hn; cases hn
  have harm : ∀ k, Cell.handle k ∈ (f j).holds → s.armed k = true → (step K s (f i)).1.armed k = true := by
    intro k hh ha
    obtain ⟨t, ht, hk, hv⟩ := (armed_iff _ _).mp ha
    obtain ⟨t', ht', _, hkeep, _, hval⟩ := ev_old K s (f i) k t ht
    have hk' : t'.keep = true := by
      rcases hkeep with e | ⟨_, e⟩
      · rw [e, hk]
      · rw [blocked_of_held h.ld hh e] at he; cases he
    refine (armed_iff _ _).mpr ⟨t', ht', hk', ?_⟩
    rcases hval with e | ⟨_, e⟩ | ⟨_, e⟩
    · rw [e, hv]
    · rw [hk'] at e; cases e
    · exact absurd (h.ld.excl _ _ _ hh e) hj
  cases hfj : f j <;> rw [hfj] at a <;> simp only [Assert] at a ⊢
  case hc_store k =>
    exact ⟨Nat.lt_of_lt_of_le a.1 (len_mono _ _ _), hun a.2 (by rw [hfj]; simp [Pc.holds])⟩
  case th_ltrail v => exact hun a (by rw [hfj]; simp [Pc.holds])
  case th_ldown v => exact hun a (by rw [hfj]; simp [Pc.holds])
  case th_closed h0 v =>
    rcases ev_hcell K s (f i) with e | e
    · rw [e]; exact a
    · rw [blocked_of_held h.ld (j := j) (c := .hcell) (by rw [hfj]; simp [Pc.holds]) e] at he; cases he
  case db_cancel k => exact hcell a (Or.inl (by rw [hfj]; simp [Pc.holds]))
  case p_trail k ret => exact harm k (by rw [hfj]; simp [Pc.holds]) a
  case p_down k v ret => exact harm k (by rw [hfj]; simp [Pc.holds]) a
  case u_hcell b => exact hslot a
  case u_cancel k b => exact ⟨hslot a.1, hcell a.2 (Or.inr (by rw [hfj]; rfl))⟩
  case u_end =>
    refine ⟨hslot a.1, hcell a.2.1 (Or.inr (by rw [hfj]; rfl)), fun k => ?_⟩
    cases hx : (step K s (f i)).1.armed k with
    | false => rfl
    | true =>
      rcases armed_mono hx with e | ⟨_, e⟩
      · rw [a.2.2 k] at e; cases e
      · exact absurd e (h.dd.u1 j i (by rw [hfj]; rfl))

/-- when the unsubscribing thread finds the handler cell empty, no task is armed -/
theorem unarmed_of_empty (h : DInv s f) (he : s.enabled (f i) = true) {b : Bool} (hp : f i = .u_hcell b)
    (hn : s.hcell = none) : ∀ k, s.armed k = false := by
  intro k
  cases hx : s.armed k with
  | false => rfl
  | true =>
    have late : (f i).uLate = true := by rw [hp]; rfl
    rcases h.dd.t1 k hx with e | ⟨j, e | e | e | e | e⟩
    · rw [hn] at e; cases e
    · exact absurd (by rw [e]; simp [Pc.holds]) (h.dd.u1 i j late)
    · exact absurd (by rw [e]; simp [Pc.holds]) (h.dd.u1 i j late)
    · exact absurd (by rw [e]; simp [Pc.holds]) (h.dd.u1 i j late)
    · exact absurd (by rw [e]; simp [Pc.holds]) (h.dd.u1 i j late)
    · have : s.enabled (f i) = false :=
        blocked_of_held h.ld (j := j) (c := .hcell) (by rw [e]; simp [Pc.holds]) (by rw [hp]; rfl)
      rw [this] at he; cases he

/-- … and after it has cancelled the one it found, none is -/
theorem unarmed_after_cancel (h : DInv s f) {h0 : Nat} {b : Bool} (hp : f i = .u_cancel h0 b) :
    ∀ k, (s.upd h0 cancel).armed k = false := by
  intro k
  have a := h.dd.as i
  rw [hp] at a
  simp only [Assert] at a
  have late : (f i).uLate = true := by rw [hp]; rfl
  cases hx : (s.upd h0 cancel).armed k with
  | false => rfl
  | true =>
    obtain ⟨t', ht', hk', hd'⟩ := (armed_iff _ _).mp hx
    simp only [St.upd, getElem?_updT] at ht'
    by_cases e : h0 = k
    · rw [if_pos e] at ht'
      cases ht0 : s.tasks[k]? with
      | none => rw [ht0] at ht'; cases ht'
      | some t => rw [ht0] at ht'; cases ht'; simp [cancel] at hk'
    · rw [if_neg e] at ht'
      have ha : s.armed k = true := (armed_iff _ _).mpr ⟨t', ht', hk', hd'⟩
      rcases h.dd.t1 k ha with e1 | ⟨j, e1 | e1 | e1 | e1 | e1⟩
      · rw [a.2] at e1; cases e1
      · exact absurd (by rw [e1]; simp [Pc.holds]) (h.dd.u1 i j late)
      · exact absurd (by rw [e1]; simp [Pc.holds]) (h.dd.u1 i j late)
      · exact absurd (by rw [e1]; simp [Pc.holds]) (h.dd.u1 i j late)
      · exact absurd (by rw [e1]; simp [Pc.holds]) (h.dd.u1 i j late)
      · have hji : j = i := h.ld.excl .hcell j i (by rw [e1]; simp [Pc.holds]) (by rw [hp]; simp [Pc.holds])
        subst hji
        rw [hp] at e1
        cases e1
        exact absurd rfl e

theorem spawn_armed_old (s : St) (dur : Option Nat) (b : Body) (k : Nat) (hk : k < s.tasks.length) :
    (s.spawn dur b).1.armed k = s.armed k := by
  unfold St.armed St.spawn
  simp only []
  rw [List.getElem?_append_left hk]

theorem deliver_armed (s : St) (n : Notif) (k : Nat) : (s.deliver n).armed k = s.armed k := by
  unfold St.armed; rw [deliver_tasks]

theorem armed_congr {s s' : St} (e : s'.tasks = s.tasks) (k : Nat) : s'.armed k = s.armed k := by
  unfold St.armed; rw [e]

theorem unarmed_of_value (s : St) (k : Nat) (hv : (s.task k).value = true) : s.armed k = false := by
  unfold St.armed
  rw [task_eq] at hv
  cases h : s.tasks[k]? with
  | none => rfl
  | some t => rw [h] at hv; simp at hv; simp [hv]

theorem assert_self (hK : HConf K) (h : DInv s f) (he : s.enabled (f i) = true) :
    Assert (step K s (f i)).1 (step K s (f i)).2 := by
  have a := h.dd.as i
  have ok := h.dd.ok i
  have tb := task_body s h.dd.body
  have h1 := hK.kind
  have h2 := hK.order
  cases hp : f i
  case p_handle k ret =>
    have := armed_at_body h.dd.poll hp
    simp only [step]
    (repeat' split) <;> simp_all [Assert]
  case u_hcell b =>
    have := unarmed_of_empty h he hp
    rw [hp] at a ok
    simp only [step, uAfter]
    (repeat' split) <;> simp_all [Assert, Pc.okH]
  case u_cancel h0 b =>
    have := unarmed_after_cancel h hp
    rw [hp] at a ok
    simp only [step, uAfter]
    (repeat' split) <;> simp_all [Assert, Pc.okH, St.upd]
  case p_trail k ret =>
    rw [hp] at a
    simp only [step]
    split
    · simp only [Assert]; rw [armed_congr rfl]; exact a
    · simp [Assert]
  case th_ltrail v =>
    rw [hp] at a
    simp only [Assert] at a
    by_cases c : (s.trailing.isSome || !K.tail || K.order == .leadAlways) = true
    · simp only [step, c, if_true, Assert]
      intro h' e; rw [armed_congr rfl]; exact a h' e
    · simp only [step, c, Bool.false_eq_true, if_false, Assert]
      refine ⟨by simp [St.spawn], ?_⟩
      intro h' e
      have e' : s.hcell = some h' := by simpa [St.spawn] using e
      rw [spawn_armed_old _ _ _ _ (by simpa using h.dd.t4 h' e')]
      exact (armed_congr (s := s) rfl h').trans (a h' e')
  case th_ldown v =>
    rw [hp] at a
    simp only [step, Assert] at a ⊢
    refine ⟨by simp [St.spawn], ?_⟩
    intro h' e
    have e' : s.hcell = some h' := by simpa [St.spawn] using e
    rw [spawn_armed_old _ _ _ _ (by simpa using h.dd.t4 h' e'), deliver_armed]
    exact a h' e'
  case th_closed h0 v =>
    rw [hp] at a
    simp only [Assert] at a
    simp only [step, thOver]
    (repeat' split)
    · simp only [Assert]
      intro h' e; rw [a] at e; cases e; exact unarmed_of_value s _ ‹_›
    · simp only [Assert]
      refine ⟨by simp [St.spawn], ?_⟩
      intro h' e
      have e' : s.hcell = some h' := by simpa [St.spawn] using e
      rw [spawn_armed_old _ _ _ _ (h.dd.t4 h' e')]
      rw [a] at e'; cases e'; exact unarmed_of_value s _ ‹_›
    all_goals simp [Assert]
  all_goals
    rw [hp] at a ok
    simp only [step, nextEntry, termEntry, afterTrail, thOver, uSecond, uAfter, retPc]
    (repeat' split) <;> simp_all [Assert, Pc.okH, St.spawn, St.upd, Kind.isH]

theorem uLate_holds {q : Pc} (h : q.uLate = true) : Cell.slot ∉ q.holds := by
  cases q <;> simp_all [Pc.uLate, Pc.holds]

theorem uLate_assert {p : Pc} (hl : p.uLate = true) (a : Assert s p) : s.slotOpen = false := by
  cases p <;> simp_all [Pc.uLate, Assert]

theorem quiet_preserved (hq : Quiet s f) {q : Pc} (ha : After (step K s (f i)).2 q) :
    Quiet (step K s (f i)).1 (fun j => if j = i then q else f j) := by
  refine ⟨?_, ?_, ?_, ?_⟩
  · cases hx : (step K s (f i)).1.slotOpen with
    | false => rfl
    | true => have := ev_slot _ _ _ hx; rw [hq.slot] at this; cases this
  · cases hx : (step K s (f i)).1.hcell with
    | none => rfl
    | some k' =>
      rcases ev_hcell_some _ _ _ _ hx with e | e
      · rw [hq.hcell] at e; cases e
      · exact absurd (by rw [e]; simp [Pc.holds]) (hq.out i)
  · intro k
    cases hx : (step K s (f i)).1.armed k with
    | false => rfl
    | true =>
      rcases armed_mono hx with e | ⟨_, e⟩
      · rw [hq.dead k] at e; cases e
      · exact absurd e (hq.out i)
  · intro j
    by_cases hj : j = i
    · simp only [hj, if_true]
      rcases ha with rfl | ⟨_, hent⟩
      · intro hm
        rcases ev_enter _ _ _ hm with e | e
        · exact hq.out i e
        · rw [hq.slot] at e; cases e
      · rw [isEntry_holds hent]; simp
    · simp only [hj, if_false]; exact hq.out j

/-- One step of thread `i` preserves the data clauses. -/
theorem ddata_preserved (hK : HConf K) (h : DInv s f) (he : s.enabled (f i) = true) {q : Pc}
    (ha : After (step K s (f i)).2 q) :
    DData (step K s (f i)).1 (fun j => if j = i then q else f j) := by
  have hb' : ∀ t ∈ (step K s (f i)).1.tasks, t.body = .trailing := by
    intro t' hm
    obtain ⟨k, ht'⟩ := List.getElem?_of_mem hm
    rcases ev_new K s (f i) k t' ht' with ⟨t, ht⟩ | ⟨_, _, _, _, _, _, hbody⟩
    · obtain ⟨t'', ht'', hbd, _, _⟩ := ev_old K s (f i) k t ht
      rw [ht'] at ht''; cases ht''
      rw [hbd]; exact h.dd.body t (List.mem_of_getElem? ht)
    · rcases hbody with e | ⟨n, e⟩
      · exact e
      · have := h.dd.ok i; rw [e] at this; simp [Pc.okH] at this
  -- facts about q
  have hq_ok : q.okH = true := by
    rcases ha with rfl | ⟨_, hent⟩
    · exact step_okH hK s (f i) h.dd.body (h.dd.ok i)
    · exact entry_okH hent
  have hq_as : Assert (step K s (f i)).1 q := by
    rcases ha with rfl | ⟨_, hent⟩
    · exact assert_self hK h he
    · exact entry_assert _ hent
  refine ⟨?_, hb', ?_, ?_, ?_, ?_, ?_, ?_, ?_⟩
  · -- ok
    intro j
    by_cases hj : j = i
    · simp only [hj, if_true]; exact hq_ok
    · simp only [hj, if_false]; exact h.dd.ok j
  · -- as
    intro j
    by_cases hj : j = i
    · simp only [hj, if_true]; exact hq_as
    · simp only [hj, if_false]; exact assert_frame h he hj
  · exact h.dd.poll.preserved ha
  · -- t4
    intro h' hx
    rcases ev_hcell_some _ _ _ _ hx with e | e
    · exact Nat.lt_of_lt_of_le (h.dd.t4 h' e) (len_mono _ _ _)
    · have a := h.dd.as i
      rw [e] at a
      simp only [Assert] at a
      rw [e]; exact Nat.lt_of_lt_of_le a.1 (len_mono _ _ _)
  · -- t1
    intro k hx
    rcases armed_mono hx with e | ⟨h0, _⟩
    · have hlt : k < s.tasks.length := by
        obtain ⟨t, ht, _⟩ := (armed_iff _ _).mp e
        exact (List.getElem?_eq_some_iff.mp ht).1
      rcases h.dd.t1 k e with hc | ⟨j, hj⟩
      · rcases ev_hcell K s (f i) with e1 | e1
        · exact Or.inl (by rw [e1]; exact hc)
        · rcases ev_take K s (f i) k e1 (h.dd.ok i) hc with e2 | e2 | e2 | e2 | e2 | ⟨k', e2⟩
          · exact Or.inl e2
          · exact Or.inr ⟨i, Or.inr (Or.inl (by simp only [if_true]; exact after_eq ha e2 (by simp)))⟩
          · exact Or.inr ⟨i, Or.inr (Or.inr (Or.inr (Or.inr (by simp only [if_true]; exact after_eq ha e2 (by simp)))))⟩
          · exact Or.inr ⟨i, Or.inr (Or.inr (Or.inl (by simp only [if_true]; exact after_eq ha e2 (by simp))))⟩
          · exact Or.inr ⟨i, Or.inr (Or.inr (Or.inr (Or.inl (by simp only [if_true]; exact after_eq ha e2 (by simp)))))⟩
          · -- a store over an armed handle: excluded by what the storing thread knows
            have a := h.dd.as i
            rw [e2] at a
            simp only [Assert] at a
            rw [a.2 k hc] at e; cases e
      · by_cases hji : j = i
        · subst hji
          rcases hj with e1 | e1 | e1 | e1 | e1
          · left; rw [e1]; simp [step]
          · rw [cancel_unarmed K s (f j) k (Or.inl e1) hlt] at hx; cases hx
          · rw [cancel_unarmed K s (f j) k (Or.inr (Or.inl e1)) hlt] at hx; cases hx
          · rw [cancel_unarmed K s (f j) k (Or.inr (Or.inr (Or.inl e1))) hlt] at hx; cases hx
          · rw [cancel_unarmed K s (f j) k (Or.inr (Or.inr (Or.inr ⟨false, e1⟩))) hlt] at hx; cases hx
        · exact Or.inr ⟨j, by simp only [hji, if_false]; exact hj⟩
    · obtain ⟨t', ht', _⟩ := (armed_iff _ _).mp hx
      have e2 := ev_fresh K s (f i) k t' ht' h0 (h.dd.ok i)
      exact Or.inr ⟨i, Or.inl (by simp only [if_true]; exact after_eq ha e2 (by simp))⟩
  · -- u1
    intro j j' hl
    by_cases hj : j = i <;> by_cases hj' : j' = i
    · simp only [hj, hj', if_true] at hl ⊢; exact uLate_holds hl
    · simp only [hj, hj', if_true, if_false] at hl ⊢
      rcases ha with rfl | ⟨_, hent⟩
      · rcases ev_uLate K hK.order s (f i) hl with e | ⟨b, e⟩ | e
        · exact h.dd.u1 i j' e
        · intro hm
          have : s.enabled (f i) = false := blocked_of_held h.ld hm (by rw [e]; rfl)
          rw [this] at he; cases he
        · rw [h.dd.ok i] at e; cases e
      · rw [entry_uLate hent] at hl; cases hl
    · simp only [hj, hj', if_true, if_false] at hl ⊢
      rcases ha with rfl | ⟨_, hent⟩
      · intro hm
        rcases ev_enter _ _ _ hm with e | e
        · exact h.dd.u1 j i hl e
        · rw [uLate_assert hl (h.dd.as j)] at e; cases e
      · rw [isEntry_holds hent]; simp
    · simp only [hj, hj', if_false] at hl ⊢; exact h.dd.u1 j j' hl
  · -- q
    intro hR
    have hq : Quiet s f := by
      rcases ev_log K s (f i) with e | ⟨e1, _⟩ | ⟨_, n, e2⟩
      · rw [e] at hR; exact h.dd.q hR
      · have a := h.dd.as i
        rw [e1] at a
        simp only [Assert] at a
        exact ⟨a.1, a.2.1, a.2.2, fun j => h.dd.u1 i j (by rw [e1]; rfl)⟩
      · rw [e2] at hR
        simp only [List.mem_append, List.mem_singleton] at hR
        rcases hR with hR | hR
        · exact h.dd.q hR
        · cases hR
    exact quiet_preserved hq ha
  · -- ql
    rcases ev_log K s (f i) with e | ⟨_, e2⟩ | ⟨hc, n, e2⟩
    · rw [e]; exact h.dd.ql
    · rw [e2, quiet_append_R]; exact h.dd.ql
    · rw [e2]
      by_cases hR : Item.R ∈ s.log
      · have hq := h.dd.q hR
        rcases down_cases (f i) hc with e | ⟨k, v, ret, e⟩ | e
        · exact absurd e (hq.out i)
        · have a := h.dd.as i
          rw [e] at a
          simp only [Assert] at a
          rw [hq.dead k] at a; cases a
        · rw [h.dd.ok i] at e; cases e
      · exact quiet_append_n _ _ hR

end frame

theorem DData.setHeld {s : St} {f : Nat → Pc} (h : DData s f) (i : Tid) (c : List Cell) :
    DData (s.setHeld i c) f :=
  ⟨h.ok, h.body, h.as, ⟨h.poll.p1, h.poll.p2, h.poll.v⟩, h.t4, h.t1, h.u1,
    fun hR => ⟨(h.q hR).slot, (h.q hR).hcell, (h.q hR).dead, (h.q hR).out⟩, h.ql⟩

theorem DInv.preserved {K : Conf} (hK : HConf K) {s : St} {f : Nat → Pc} (h : DInv s f) (i : Nat) (q : Pc)
    (he : s.enabled (f i) = true) (ha : After (step K s (f i)).2 q) :
    DInv ((step K s (f i)).1.setHeld i q.holds) (fun j => if j = i then q else f j) :=
  ⟨h.ld.preserved K i q he ha, (ddata_preserved hK h he ha).setHeld i q.holds⟩

theorem DInv.init (live : Bool) (progs : List (List Op)) :
    DInv (St.subscribed live) (Cfg.init (St.subscribed live) progs).pcOf := by
  have hpc := init_pcOf (St.subscribed live) progs
  have hno : ∀ k, (St.subscribed live).armed k = false := by intro k; rfl
  refine ⟨LD.init _ rfl progs, ⟨?_, ?_, ?_, PollInv.init live progs, ?_, ?_, ?_, ?_, rfl⟩⟩
  · intro j; rcases hpc j with e | e
    · rw [e]; rfl
    · exact entry_okH e
  · intro t ht; cases ht
  · intro j; rcases hpc j with e | e
    · rw [e]; trivial
    · exact entry_assert _ e
  · intro h' e; cases e
  · intro k hk; rw [hno k] at hk; cases hk
  · intro j j' h1; rcases hpc j with e | e
    · rw [e] at h1; cases h1
    · rw [entry_uLate e] at h1; cases h1
  · intro hR; cases hR

/-- The invariant holds along every schedule of every set of threads. -/
theorem DInv.exec {K : Conf} (hK : HConf K) (live : Bool) (progs : List (List Op)) (sched : List Nat) :
    DInv (exec K (Cfg.init (St.subscribed live) progs) sched).st
      (exec K (Cfg.init (St.subscribed live) progs) sched).pcOf :=
  view_induction K DInv (fun _ _ i q h he ha => h.preserved hK i q he ha) sched _ (DInv.init live progs)

theorem hconf_debounce (d : Nat) : HConf ⟨.debounce d, .original⟩ := ⟨rfl, rfl⟩
theorem hconf_throttle (d : Nat) (e : Edge) : HConf ⟨.throttle d e, .original⟩ := ⟨rfl, rfl⟩

end Rx.Conc.TS
