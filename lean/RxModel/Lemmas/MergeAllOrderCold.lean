import RxModel.Lemmas.MergeAllOrderHot
import RxModel.Lemmas.MergeAllOrderErr
/-
  C05O — concatenation of cold inners.  When every inner observable the outer
  stream delivers is cold and terminates inside its subscription, the output
  is — for every limit ≥ 1, both codes, every history — the scripts one after
  the other in arrival order, cut at the first error, followed by the outer
  stream's terminal.
-/
namespace Rx.MergeAll

/-- Expected output: `t` = arrival number of the next inner observable. -/
def coldExpected (inner : Nat → Inner) : Nat → List Ev → List Out
  | _, [] => []
  | t, .outerNext k :: r =>
      match inner k with
      | .cold xs .complete => xs.map (Out.item t) ++ coldExpected inner (t + 1) r
      | .cold xs (.error e) => xs.map (Out.item t) ++ [.error e]
      | _ => []
  | _, .outerError e :: _ => [.error e]
  | _, .outerComplete :: _ => [.complete]
  | _, .unsub :: _ => []
  | t, .innerNext _ _ :: r => coldExpected inner t r
  | t, .innerError _ _ :: r => coldExpected inner t r
  | t, .innerComplete _ :: r => coldExpected inner t r

/-- Between two events nothing is subscribed, queued or held by a subject. -/
structure ColdIdle (s : St) : Prop where
  ns : s.stuck = false
  al : s.alive = true
  oo : s.outerOpen = true
  sub : s.subscribed = 0
  qu : s.queue = []
  sb : s.subs = []
  oc : s.outsideCompleted = false
  conc : 1 ≤ s.concurrent

theorem runG_cutO (f : Bool) (evs : List Ev) : ∀ s : St, s.outerOpen = false → s.subs = [] →
    (runG f s evs).2 = [] := by
  induction evs with
  | nil => intro s _ _; rfl
  | cons ev r ih =>
    intro s ho hs
    have h1 := stepG_cutO f s ev ho hs
    simp only [runG, h1.1, ih _ h1.2.1 h1.2.2, List.append_nil]

theorem init_coldIdle (inners : List Inner) (n : Nat) (hn : 1 ≤ n) : ColdIdle (init inners n) :=
  ⟨rfl, rfl, rfl, rfl, rfl, rfl, rfl, hn⟩

/-- A cold inner that completes: its script, and the operator is idle again. -/
theorem cold_step_complete (f : Bool) (s : St) (k : Nat) (xs : List Val) (h : ColdIdle s)
    (hk : s.inner k = .cold xs .complete) :
    (stepG f s (.outerNext k)).2 = xs.map (Out.item s.arrivals) ∧
    ColdIdle (stepG f s (.outerNext k)).1 ∧
    (stepG f s (.outerNext k)).1.arrivals = s.arrivals + 1 ∧
    (stepG f s (.outerNext k)).1.inners = s.inners := by
  have hlt : s.subscribed < s.concurrent := by have := h.sub; have := h.conc; omega
  unfold stepG
  rw [if_neg (by simp [h.ns])]
  simp only [outerNext]
  rw [if_neg (by simp [h.oo]), if_neg (by simp [h.al]), if_pos hlt]
  simp only [startTop]
  have hinner : St.inner
      { s with arrivals := s.arrivals + 1, subscribed := s.subscribed + 1,
               started := s.started + 1 } k = .cold xs .complete := hk
  rw [hinner]
  simp only
  rw [h.qu]
  simp only [drain]
  have hz : ¬ (s.subscribed + 1 - 1 = 0 ∧ s.outsideCompleted = true) := by
    rw [h.oc]; simp
  rw [if_neg hz]
  refine ⟨by simp, ⟨h.ns, h.al, h.oo, ?_, rfl, h.sb, h.oc, h.conc⟩, rfl, rfl⟩
  show s.subscribed + 1 - 1 = 0
  have := h.sub; omega

/-- A cold inner that fails: its script, the error, and the cell is empty. -/
theorem cold_step_error (f : Bool) (s : St) (k : Nat) (xs : List Val) (e : Err) (h : ColdIdle s)
    (hk : s.inner k = .cold xs (.error e)) :
    (stepG f s (.outerNext k)).2 = xs.map (Out.item s.arrivals) ++ [.error e] ∧
    (stepG f s (.outerNext k)).1.alive = false := by
  have hlt : s.subscribed < s.concurrent := by have := h.sub; have := h.conc; omega
  unfold stepG
  rw [if_neg (by simp [h.ns])]
  simp only [outerNext]
  rw [if_neg (by simp [h.oo]), if_neg (by simp [h.al]), if_pos hlt]
  simp only [startTop]
  have hinner : St.inner
      { s with arrivals := s.arrivals + 1, subscribed := s.subscribed + 1,
               started := s.started + 1 } k = .cold xs (.error e) := hk
  rw [hinner]
  exact ⟨rfl, rfl⟩

/-- Events of the hot subjects do nothing: nobody is subscribed to them. -/
theorem cold_step_inner (f : Bool) (s : St) (ev : Ev) (h : ColdIdle s)
    (hev : (∃ j v, ev = .innerNext j v) ∨ (∃ j e, ev = .innerError j e) ∨ ∃ j, ev = .innerComplete j) :
    (stepG f s ev).2 = [] ∧ ColdIdle (stepG f s ev).1 ∧
    (stepG f s ev).1.arrivals = s.arrivals ∧ (stepG f s ev).1.inners = s.inners := by
  have ht : ∀ j, targets s j = [] := fun j => by simp [targets, h.sb]
  unfold stepG
  rw [if_neg (by simp [h.ns])]
  rcases hev with ⟨j, v, rfl⟩ | ⟨j, e, rfl⟩ | ⟨j, rfl⟩
  · simp only [hotNext, ht]
    split
    · exact ⟨rfl, h, rfl, rfl⟩
    · exact ⟨by simp, h, rfl, rfl⟩
  · simp only [hotError, ht, errorAll]
    split
    · exact ⟨rfl, h, rfl, rfl⟩
    · exact ⟨rfl, ⟨h.ns, h.al, h.oo, h.sub, h.qu, by simp [h.sb], h.oc, h.conc⟩, rfl, rfl⟩
  · simp only [hotComplete, ht, completeAll]
    split
    · exact ⟨rfl, h, rfl, rfl⟩
    · exact ⟨rfl, ⟨h.ns, h.al, h.oo, h.sub, h.qu, by simp [h.sb], h.oc, h.conc⟩, rfl, rfl⟩

theorem coldExpected_congr (i1 i2 : Nat → Inner) (h : ∀ k, i1 k = i2 k) (t : Nat) (evs : List Ev) :
    coldExpected i1 t evs = coldExpected i2 t evs := by
  have : i1 = i2 := funext h
  rw [this]

theorem runG_cold (f : Bool) (evs : List Ev) : ∀ s : St, ColdIdle s →
    (∀ k, Ev.outerNext k ∈ evs → ∃ xs fin, s.inner k = .cold xs fin ∧ fin ≠ .open_) →
    (runG f s evs).2 = coldExpected s.inner s.arrivals evs := by
  induction evs with
  | nil => intro s _ _; rfl
  | cons ev r ih =>
    intro s h hc
    have hc' : ∀ s' : St, s'.inners = s.inners →
        ∀ k, Ev.outerNext k ∈ r → ∃ xs fin, s'.inner k = .cold xs fin ∧ fin ≠ .open_ := by
      intro s' hi k hk
      rw [inner_of_inners hi]
      exact hc k (List.mem_cons_of_mem _ hk)
    simp only [runG]
    cases ev with
    | outerNext k =>
      obtain ⟨xs, fin, hk, hfin⟩ := hc k (List.mem_cons_self ..)
      cases fin with
      | open_ => exact absurd rfl hfin
      | complete =>
        have h1 := cold_step_complete f s k xs h hk
        rw [h1.1, ih _ h1.2.1 (hc' _ h1.2.2.2), h1.2.2.1]
        simp only [coldExpected, hk]
        rw [coldExpected_congr _ s.inner (fun k => inner_of_inners h1.2.2.2 k)]
      | error e =>
        have h1 := cold_step_error f s k xs e h hk
        rw [h1.1, (runG_deadO f r _ h1.2).2.1]
        simp only [coldExpected, hk, List.append_nil]
    | outerError e =>
      have h1 : (stepG f s (.outerError e)).2 = [.error e] ∧
          (stepG f s (.outerError e)).1.alive = false := by
        simp [stepG, outerError, h.ns, h.oo, h.al]
      rw [h1.1, (runG_deadO f r _ h1.2).2.1]
      rfl
    | outerComplete =>
      have h1 : (stepG f s .outerComplete).2 = [.complete] ∧
          (stepG f s .outerComplete).1.alive = false := by
        simp [stepG, outerComplete, h.ns, h.oo, h.al, h.sub, h.qu]
      rw [h1.1, (runG_deadO f r _ h1.2).2.1]
      rfl
    | innerNext j v =>
      have h1 := cold_step_inner f s (.innerNext j v) h (Or.inl ⟨j, v, rfl⟩)
      rw [h1.1, ih _ h1.2.1 (hc' _ h1.2.2.2), h1.2.2.1]
      simp only [coldExpected, List.nil_append]
      rw [coldExpected_congr _ s.inner (fun k => inner_of_inners h1.2.2.2 k)]
    | innerError j e =>
      have h1 := cold_step_inner f s (.innerError j e) h (Or.inr (Or.inl ⟨j, e, rfl⟩))
      rw [h1.1, ih _ h1.2.1 (hc' _ h1.2.2.2), h1.2.2.1]
      simp only [coldExpected, List.nil_append]
      rw [coldExpected_congr _ s.inner (fun k => inner_of_inners h1.2.2.2 k)]
    | innerComplete j =>
      have h1 := cold_step_inner f s (.innerComplete j) h (Or.inr (Or.inr ⟨j, rfl⟩))
      rw [h1.1, ih _ h1.2.1 (hc' _ h1.2.2.2), h1.2.2.1]
      simp only [coldExpected, List.nil_append]
      rw [coldExpected_congr _ s.inner (fun k => inner_of_inners h1.2.2.2 k)]
    | unsub =>
      have h1 : (stepG f s .unsub).2 = [] ∧ (stepG f s .unsub).1.outerOpen = false ∧
          (stepG f s .unsub).1.subs = [] := by
        simp [stepG, unsub, h.ns]
      rw [h1.1, runG_cutO f r _ h1.2.1 h1.2.2]
      rfl

end Rx.MergeAll
