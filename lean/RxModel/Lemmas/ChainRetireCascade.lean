import RxModel.Lemmas.ChainRetireStage
/-
  C16 over the chain model, part 5: a whole cascade, for every fuel value.
  The stages only move towards finished, the scheduler only sees `BE` moves, and
  a cascade that enters a chain whose head observer is finished delivers nothing
  to the probe.
-/
namespace Rx.T
open Rx

theorem cascadeF_nil_ns (f : Nat) (stages : List Stage) (j : Nat) (s : Sched) :
    cascadeF f stages j [] s = (stages, [], s) := by
  cases f with
  | zero => rfl
  | succ f => cases stages <;> rfl

theorem cascadeF_step (f : Nat) (st : Stage) (rest : List Stage) (j : Nat) (n : Notif)
    (ns : List Notif) (s : Sched) :
    cascadeF (f + 1) (st :: rest) j (n :: ns) s =
      (let r1 := st.onNotif j n s
       let r2 := cascadeF f rest (j + 1) r1.2.1 r1.2.2
       let r3 := r1.1.afterEmit j r2.2.2
       let r4 := cascadeF f (r3.1 :: r2.1) j ns r3.2
       (r4.1, r2.2.1 ++ r4.2.1, r4.2.2)) := rfl

structure CEff (src : TSrc) (a : Bool) (stages : List Stage) (s : Sched)
    (r : List Stage × List Notif × Sched) : Prop where
  stg : SLe stages r.1
  sch : BE src a s r.2.2
  out : fin stages = true → r.2.1 = []

theorem cascadeF_eff (src : TSrc) (a : Bool) (f : Nat) :
    ∀ (stages : List Stage) (j : Nat) (ns : List Notif) (s : Sched),
      CEff src a stages s (cascadeF f stages j ns s) := by
  induction f with
  | zero => intro stages j ns s; exact ⟨SLe.refl _, BE.refl _, fun _ => rfl⟩
  | succ f ih =>
    intro stages j ns s
    cases stages with
    | nil => exact ⟨trivial, BE.refl _, fun h => by simp [fin] at h⟩
    | cons st rest =>
      cases ns with
      | nil => exact ⟨SLe.refl _, BE.refl _, fun _ => rfl⟩
      | cons n ns =>
        rw [cascadeF_step]
        have e2 := ih rest (j + 1) (st.onNotif j n s).2.1 (st.onNotif j n s).2.2
        have e4 := ih (((st.onNotif j n s).1.afterEmit j
            (cascadeF f rest (j + 1) (st.onNotif j n s).2.1 (st.onNotif j n s).2.2).2.2).1 ::
            (cascadeF f rest (j + 1) (st.onNotif j n s).2.1 (st.onNotif j n s).2.2).1) j ns
          ((st.onNotif j n s).1.afterEmit j
            (cascadeF f rest (j + 1) (st.onNotif j n s).2.1 (st.onNotif j n s).2.2).2.2).2
        have hmid : SLe (st :: rest)
            (((st.onNotif j n s).1.afterEmit j
              (cascadeF f rest (j + 1) (st.onNotif j n s).2.1 (st.onNotif j n s).2.2).2.2).1 ::
              (cascadeF f rest (j + 1) (st.onNotif j n s).2.1 (st.onNotif j n s).2.2).1) :=
          ⟨(onNotif_le st j n s).trans (afterEmit_le _ j _), e2.stg⟩
        refine ⟨hmid.trans e4.stg, ?_, ?_⟩
        · exact (((onNotif_be src a st j n s).trans e2.sch).trans (afterEmit_be src a _ j _)).trans e4.sch
        · intro hf
          have h4 := e4.out (hmid.fin hf)
          have h2 : (cascadeF f rest (j + 1) (st.onNotif j n s).2.1 (st.onNotif j n s).2.2).2.1 = [] := by
            rw [fin_cons] at hf
            cases hsf : st.sf with
            | true => rw [onNotif_blocked st j n s hsf, cascadeF_nil_ns]
            | false => rw [hsf] at hf; exact e2.out (by simpa using hf)
          simp only [h2, h4, List.append_nil]

theorem cascade_eff (src : TSrc) (a : Bool) (stages : List Stage) (j : Nat) (ns : List Notif) (s : Sched) :
    CEff src a stages s (cascade stages j ns s) := cascadeF_eff src a _ stages j ns s

theorem cascade_nil_ns (stages : List Stage) (j : Nat) (s : Sched) :
    cascade stages j [] s = (stages, [], s) := cascadeF_nil_ns _ stages j s

end Rx.T
