import RxModel.Sched.Chain
import RxModel.Lemmas.SchedExec
/-
  Helper lemmas for C08, part 1: worlds with NO stages (`stages = []`) whose
  source is a timed source (`interval`, `interval_at`, `timer`).

  * `TW.start`, `TW.run`, `TW.ticks`: vocabulary of Props/C08.lean;
  * `pollTask_src`: on such a world `TW.pollTask k` is `Sched.poll k c` (the
    scheduler-only poll of Sched/Exec.lean) plus the notifications of the body
    appended to the probe log;
  * `Bare`: the shape of such a world once `sub` has happened, and what every
    event does to it (`step_*`);
  * `run_induction`: an invariant of the four scheduler moves (advance, fire a
    due timer, poll a task, cancel the source task) holds after every event list.
-/
namespace Rx.T
open Rx

namespace TW

/-- The world of a case with source `src` and no operator: the probe is subscribed
    directly to the source. -/
def start (src : TSrc) : TW := { src := src, stages := [] }

/-- Run a list of events. -/
def run (w : TW) (evs : List Ev) : TW := evs.foldl step w

/-- The clock of a world. -/
def clock (w : TW) : Nat := w.sched.now

/-- `next 0, next 1, …, next (n-1)`. -/
def ticks (n : Nat) : List Notif := (List.range n).map fun (i : Nat) => Notif.next (Val.int i)

@[simp] theorem run_nil (w : TW) : run w [] = w := rfl
@[simp] theorem run_cons (w : TW) (e es) : run w (e :: es) = run (step w e) es := rfl
theorem run_append (w : TW) (as bs : List Ev) : run w (as ++ bs) = run (run w as) bs := by
  simp [run, List.foldl_append]

theorem ticks_succ (n : Nat) : ticks (n + 1) = ticks n ++ [Notif.next (Val.int n)] := by
  simp [ticks, List.range_succ]
@[simp] theorem ticks_length (n : Nat) : (ticks n).length = n := by simp [ticks]
@[simp] theorem ticks_zero : ticks 0 = [] := rfl

/-! ### no stages: the cascade is the identity -/
theorem cascade_nil (j : Nat) (ns : List Notif) (s : Sched) : cascade [] j ns s = ([], ns, s) := by
  simp [cascade, cascadeF]

theorem push_nil (w : TW) (h : w.stages = []) (ns : List Notif) :
    w.push 0 ns = { w with log := w.log ++ ns } := by
  cases w; simp only at h; subst h
  simp [push, cascade_nil]

/-- What the body of the source task sends to the probe for one run of `Sched.poll`. -/
def emitOf (b : Body) (r : Run) : List Notif :=
  match b, r.seq with
  | .tick, some n => [.next (.int n)]
  | .timerSrc v, none => [.next v, .complete]
  | _, _ => []

/-- The answer of the tick body when nothing is downstream: `interval` always continues. -/
def contOf (b : Body) : Bool :=
  match b with
  | .tick => true
  | _ => false

/-- A source body. -/
def srcBody (b : Body) : Prop := b = .tick ∨ ∃ v, b = .timerSrc v

/-- The body that `pollPre` hands out is the body of the polled task. -/
theorem pollPre_body (s : Sched) (k : TaskId) (t : Task) (ht : s.tasks[k]? = some t) :
    (∀ b, (s.pollPre k).2 = .runOnce b → b = t.body) ∧
    (∀ b n, (s.pollPre k).2 = .runTick b n → b = t.body) := by
  refine Sched.pollPre_elim s k (motive := fun r =>
    (∀ b, r.2 = .runOnce b → b = t.body) ∧ (∀ b n, r.2 = .runTick b n → b = t.body))
    ?_ ?_ ?_ ?_ ?_ ?_ ?_ ?_
  · intro h; rw [ht] at h; cases h
  · intro t0 h0 _; exact ⟨fun _ h => (by cases h), fun _ _ h => (by cases h)⟩
  · intro t0 h0 _ _; exact ⟨fun _ h => (by cases h), fun _ _ h => (by cases h)⟩
  · intro t0 d h0 _ _ _; exact ⟨fun _ h => (by cases h), fun _ _ h => (by cases h)⟩
  · intro t0 tm h0 _ _ _ _ _; exact ⟨fun _ h => (by cases h), fun _ _ h => (by cases h)⟩
  · intro t0 h0 _ _ _ _ _; rw [ht] at h0; cases h0
    exact ⟨fun _ h => (by cases h; rfl), fun _ _ h => (by cases h)⟩
  · intro t0 fur iv seq h0 _ _ _ _ _ _; exact ⟨fun _ h => (by cases h), fun _ _ h => (by cases h)⟩
  · intro t0 fur iv seq h0 _ _ _ _ _ _; rw [ht] at h0; cases h0
    exact ⟨fun _ h => (by cases h), fun _ _ h => (by cases h; rfl)⟩

/-- On a world without stages, polling a source task is the scheduler-only poll plus the
    body's notifications on the probe log. -/
theorem pollTask_src (w : TW) (h : w.stages = []) (k : TaskId) (t : Task)
    (ht : w.sched.tasks[k]? = some t) (hb : srcBody t.body) :
    w.pollTask k = { w with sched := (w.sched.poll k (contOf t.body)).1,
                            log := w.log ++ (w.sched.poll k (contOf t.body)).2.flatMap (emitOf t.body) } := by
  have hbody := pollPre_body w.sched k t ht
  cases w with
  | mk sched src stages sa ss st term sub unsub pulls log =>
  simp only at h ht hbody; subst h
  unfold pollTask Sched.poll
  cases hp : sched.pollPre k with
  | mk s1 p =>
    rw [hp] at hbody
    cases p with
    | none => simp
    | runOnce b =>
      have := hbody.1 b rfl; subst this
      rcases hb with hb | ⟨v, hb⟩
      · simp [hb, runBody, emitOf, Body.isAsync]
      · simp [hb, runBody, push, cascade_nil, emitOf, Body.isAsync]
    | runTick b n =>
      have := hbody.2 b n rfl; subst this
      rcases hb with hb | ⟨v, hb⟩
      · simp [hb, runTick, fin, contOf, push, cascade_nil, emitOf]
      · simp [hb, runTick, contOf, emitOf]

theorem pollTask_absent (w : TW) (k : TaskId) (ht : w.sched.tasks[k]? = none) : w.pollTask k = w := by
  simp [pollTask, Sched.pollPre, ht]

/-! ### the shape of a subscribed world without stages -/

/-- A subscribed world without stages whose source is not a subject and whose source task
    (if any) is task 0. -/
structure Bare (w : TW) : Prop where
  stages : w.stages = []
  notHot : ∀ i, w.src ≠ .hot i
  subscribed : w.subscribed = true
  srcTask : w.srcTask = some 0

/-- Timer `tm` exists and its due time has come. -/
def Due (s : Sched) (tm : TimerId) : Prop := ∃ d, s.tdue tm = some d ∧ d ≤ s.now

theorem due_of_mem (s : Sched) (tm : TimerId) (h : tm ∈ s.dueTimers) : Due s tm := by
  obtain ⟨d, h1, h2, _⟩ := Sched.mem_dueTimers s tm h
  exact ⟨d, h1, h2⟩

theorem due_fire (s : Sched) (tm tm' : TimerId) (h : Due s tm') : Due (s.fire tm) tm' := by
  obtain ⟨d, h1, h2⟩ := h
  exact ⟨d, by simpa using h1, by simpa using h2⟩

theorem step_sub (w : TW) (b : Bare w) : step w .sub = w := by
  simp [step, b.subscribed]

theorem step_emit (w : TW) (b : Bare w) (i n) :
    ∃ term, step w (.emit i n) = { w with terminated := term } := by
  cases w with
  | mk sched src stages sa ss st term sub unsub pulls log =>
  have hs := b.stages; have hh := b.notHot
  simp only at hs hh; subst hs
  simp only [step]
  split
  · exact ⟨term, rfl⟩
  · cases src with
    | hot j => exact absurd rfl (hh j)
    | _ =>
      refine ⟨if n.isTerm then i :: term else term, ?_⟩
      cases n <;> rfl

theorem step_unsub (w : TW) (b : Bare w) :
    step w .unsub = if w.unsubscribed then w
      else { w with srcAlive := false, sched := w.sched.cancel 0, unsubscribed := true } := by
  cases w with
  | mk sched src stages sa ss st term sub unsub pulls log =>
  have hs := b.stages; have h1 := b.subscribed; have h2 := b.srcTask
  simp only at hs h1 h2; subst hs h1 h2
  cases unsub <;> simp [step, unsubFrom]

/-- An invariant of the scheduler moves holds after every event list. -/
theorem run_induction (P : TW → Prop)
    (bare : ∀ w, P w → Bare w)
    (hterm : ∀ w term, P w → P { w with terminated := term })
    (hadv : ∀ w d, P w → P { w with sched := { w.sched with now := w.sched.now + d } })
    (hfire : ∀ w tm, P w → Due w.sched tm → P { w with sched := w.sched.fire tm })
    (hpoll : ∀ w k, P w → P (w.pollTask k))
    (hunsub : ∀ w, P w → w.unsubscribed = false →
      P { w with srcAlive := false, sched := w.sched.cancel 0, unsubscribed := true }) :
    ∀ (evs : List Ev) (w : TW), P w → P (run w evs) := by
  have fires : ∀ (l : List TimerId) (w : TW), P w → (∀ tm ∈ l, Due w.sched tm) →
      P { w with sched := l.foldl Sched.fire w.sched } := by
    intro l
    induction l with
    | nil => intro w hw _; exact hw
    | cons tm l ih =>
      intro w hw hd
      have h1 := hfire w tm hw (hd tm (by simp))
      have := ih _ h1 (fun tm' hm => due_fire _ _ _ (hd tm' (by simp [hm])))
      exact this
  have polls : ∀ (l : List TaskId) (w : TW), P w → P (w.pollAll l) := by
    intro l
    induction l with
    | nil => intro w hw; exact hw
    | cons k l ih =>
      intro w hw
      simp only [pollAll]
      apply ih
      split <;> (try split) <;> first | exact hw | exact hpoll w k hw
  have loop : ∀ (fuel : Nat) (w : TW), P w → P (runLoop fuel w) := by
    intro fuel
    induction fuel with
    | zero => intro w hw; exact hw
    | succ f ih =>
      intro w hw
      have h1 := fires w.sched.dueTimers w hw (fun tm hm => due_of_mem _ _ hm)
      simp only [runLoop]
      split
      · exact h1
      · exact ih _ (polls _ _ h1)
  intro evs
  induction evs with
  | nil => intro w hw; exact hw
  | cons e es ih =>
    intro w hw
    rw [run_cons]
    apply ih
    have b := bare w hw
    cases e with
    | sub => rw [step_sub w b]; exact hw
    | emit i n =>
      obtain ⟨term, h⟩ := step_emit w b i n
      rw [h]; exact hterm w term hw
    | unsub =>
      rw [step_unsub w b]
      split
      · exact hw
      · rename_i hu
        exact hunsub w hw (by simpa using hu)
    | adv d => exact hadv w d hw
    | fire i =>
      simp only [step]
      split
      · rename_i tm htm
        exact hfire w tm hw (due_of_mem _ _ (List.mem_of_getElem? htm))
      · exact hw
    | poll i =>
      simp only [step]
      split
      · exact hpoll w _ hw
      · exact hw
    | run => exact loop _ w hw

/-! ### before `sub` -/

/-- The world before `sub`: nothing but a clock value (and the subjects that terminated). -/
def idle (src : TSrc) (c : Nat) (term : List Nat) : TW :=
  { src := src, stages := [], sched := { now := c }, terminated := term }

theorem start_eq_idle (src : TSrc) : start src = idle src 0 [] := rfl

theorem runLoop_succ (f : Nat) (w : TW) : runLoop (f + 1) w =
    (let due := w.sched.dueTimers
     let w1 := { w with sched := due.foldl Sched.fire w.sched }
     let ready := w1.sched.liveTasks.filter fun k =>
       match w1.sched.tasks[k]? with | some t => t.woken | none => false
     if due.isEmpty && ready.isEmpty then w1 else runLoop f (w1.pollAll ready)) := rfl

theorem step_run (w : TW) : step w .run = runLoop (9999 + 1) w := rfl

theorem step_idle (src : TSrc) (hsrc : ∀ i, src ≠ .hot i) (c term) (e : Ev) (he : e ≠ .sub) :
    ∃ c' term', c ≤ c' ∧ step (idle src c term) e = idle src c' term' := by
  cases e with
  | sub => exact absurd rfl he
  | emit i n =>
    cases src with
    | hot j => exact absurd rfl (hsrc j)
    | _ =>
      by_cases hc : i ∈ term
      · exact ⟨c, term, Nat.le_refl _, by simp [step, idle, hc]⟩
      · cases n with
        | next v => exact ⟨c, term, Nat.le_refl _, by simp [step, idle, hc, Notif.isTerm, deliverNotifiers]⟩
        | error e =>
          exact ⟨c, i :: term, Nat.le_refl _, by simp [step, idle, hc, Notif.isTerm, deliverNotifiers]⟩
        | complete =>
          exact ⟨c, i :: term, Nat.le_refl _, by simp [step, idle, hc, Notif.isTerm, deliverNotifiers]⟩
  | unsub => exact ⟨c, term, Nat.le_refl _, rfl⟩
  | adv d => exact ⟨c + d, term, Nat.le_add_right _ _, rfl⟩
  | fire i => exact ⟨c, term, Nat.le_refl _, rfl⟩
  | poll i => exact ⟨c, term, Nat.le_refl _, rfl⟩
  | run =>
    refine ⟨c, term, Nat.le_refl _, ?_⟩
    rw [step_run, runLoop_succ]
    rfl

theorem run_idle (src : TSrc) (hsrc : ∀ i, src ≠ .hot i) (pre : List Ev) (hpre : ∀ e ∈ pre, e ≠ .sub) :
    ∀ c term, ∃ c' term', c ≤ c' ∧ run (idle src c term) pre = idle src c' term' := by
  induction pre with
  | nil => intro c term; exact ⟨c, term, Nat.le_refl _, rfl⟩
  | cons e es ih =>
    intro c term
    obtain ⟨c1, t1, hle, h1⟩ := step_idle src hsrc c term e (hpre e (by simp))
    obtain ⟨c2, t2, hle2, h2⟩ := ih (fun e' h => hpre e' (by simp [h])) c1 t1
    exact ⟨c2, t2, Nat.le_trans hle hle2, by rw [run_cons, h1, h2]⟩

/-- An event list has no `sub`, or splits at its first `sub`. -/
theorem split_sub (evs : List Ev) :
    (∀ e ∈ evs, e ≠ .sub) ∨ ∃ pre post, evs = pre ++ .sub :: post ∧ ∀ e ∈ pre, e ≠ .sub := by
  induction evs with
  | nil => left; simp
  | cons e es ih =>
    by_cases he : e = .sub
    · subst he; exact Or.inr ⟨[], es, rfl, by simp⟩
    · rcases ih with h | ⟨pre, post, h1, h2⟩
      · left; intro e' h'
        simp only [List.mem_cons] at h'
        rcases h' with h' | h'
        · rw [h']; exact he
        · exact h e' h'
      · right
        refine ⟨e :: pre, post, by rw [h1]; rfl, ?_⟩
        intro e' h'
        simp only [List.mem_cons] at h'
        rcases h' with h' | h'
        · rw [h']; exact he
        · exact h2 e' h'

/-- Any list `pre ++ sub :: mid` splits at its first `sub`. -/
theorem split_first_sub (pre mid : List Ev) :
    ∃ pre' mid', pre ++ .sub :: mid = pre' ++ .sub :: mid' ∧ ∀ e ∈ pre', e ≠ .sub := by
  rcases split_sub (pre ++ .sub :: mid) with h | h
  · exact absurd rfl (h .sub (by simp))
  · exact h

/-- Before `sub` the world is idle: the log is empty. -/
theorem run_presub (src : TSrc) (hsrc : ∀ i, src ≠ .hot i) (pre : List Ev) (hpre : ∀ e ∈ pre, e ≠ .sub) :
    ∃ term, run (start src) pre = idle src (run (start src) pre).clock term := by
  obtain ⟨c, term, _, h⟩ := run_idle src hsrc pre hpre 0 []
  rw [start_eq_idle, h]
  exact ⟨term, rfl⟩

end TW
end Rx.T

