import RxModel.Lemmas.ChainWFOps
/-
  C01 over the chain model, part 6: the source side.  What the source hands to
  stage 0 stays well formed: subscription happens once (the subscribing tasks are
  critical), every source task is critical or (interval) only emits items.
-/
namespace Rx.T
open Rx Rx.Spec

theorem Only.mono {r : Option TaskId} {w w' : TW} (h : Only r w) (hle : w.sched.Le w'.sched) :
    Only r w' :=
  fun k b hl hc => h k b (hle.live hl (Body.benign_of_critical hc)) hc

theorem SrcOK.weaken {w : TW} {up : List Notif} (h : SrcOK none w up) (r : Option TaskId) :
    SrcOK r w up := by
  refine ⟨h.wf, h.bodies, ?_, h.unsubd, h.nosrc, ?_, ?_, h.hot, h.interval⟩
  · intro k1 b1 k2 b2 l1 c1 l2 c2
    rcases h.uniq k1 b1 k2 b2 l1 c1 l2 c2 with e | e | e
    · exact Or.inl e
    · cases e
    · cases e
  · intro hs k b hl hb; cases h.subd hs k b hl hb
  · intro ht k b hl hc; cases h.term ht k b hl hc

theorem WInv.weaken {w : TW} (h : WInv none w) (r : Option TaskId) : WInv r w := by
  obtain ⟨up, hc, hs⟩ := h
  exact ⟨up, hc, hs.weaken r⟩

/-- From the uniqueness of critical tasks: while critical task `k` is live it is the only one. -/
theorem SrcOK.only_of_live {w : TW} {up : List Notif} (h : SrcOK none w up) {k : TaskId} {b : Body}
    (hl : w.sched.Live k b) (hc : b.critical = true) : Only (some k) w := by
  intro k' b' hl' hc'
  rcases h.uniq k' b' k b hl' hc' hl hc with e | e | e
  · rw [e]
  · cases e
  · cases e

theorem SrcOK.extend {r : Option TaskId} {w : TW} {up : List Notif} (ns : List Notif)
    (h : SrcOK r w up) (hwf : WF (up ++ ns))
    (hns : w.srcSubscribed = false → terminated (up ++ ns) = false)
    (ht : terminated (up ++ ns) = true →
      Only r w ∧ (∀ i, w.src = .hot i → i ∈ w.terminated) ∧ (∀ d p, w.src ≠ .interval d p)) :
    SrcOK r w (up ++ ns) := by
  refine ⟨hwf, h.bodies, h.uniq, h.unsubd, ?_, h.subd, ?_, ?_, ?_⟩
  · intro hs; exact ⟨hns hs, (h.nosrc hs).2⟩
  · intro ht' k b hl hc; exact (ht ht').1 k b hl hc
  · intro i hi ht'; exact (ht ht').2.1 i hi
  · intro d p hi
    cases ht' : terminated (up ++ ns) with
    | false => rfl
    | true => exact absurd hi ((ht ht').2.2 d p)

theorem SrcOK.invU {r : Option TaskId} {w : TW} {up : List Notif} (hs : SrcOK r w up)
    (hc : Chain up w.stages w.log) : WInvU r w up := ⟨hc, hs⟩

theorem WInvU.push0 {r : Option TaskId} {w : TW} {up : List Notif} (ns : List Notif)
    (h : WInvU r w up) (hs : SrcOK r w (up ++ ns)) : WInvU r (w.push 0 ns) (up ++ ns) :=
  ⟨TW.push_zero_chain w ns up h.1, hs.frame rfl rfl rfl (fun _ h => h) (TW.push_ext w 0 ns).le⟩

theorem WInvU.pushNext {r : Option TaskId} {w : TW} {up : List Notif} (v : Val)
    (h : WInvU r w up) (hnt : terminated up = false) :
    WInvU r (w.push 0 [.next v]) (up ++ [.next v]) ∧ terminated (up ++ [.next v]) = false := by
  have ht : terminated (up ++ [.next v]) = false := by simp [terminated_append, hnt, terminated]
  refine ⟨h.push0 _ (h.2.extend _ (WF_append h.2.wf hnt (by simp)) (fun _ => ht) ?_), ht⟩
  intro h'; rw [ht] at h'; cases h'

/-- The last thing the source does while `Only r`. -/
theorem WInvU.pushLast {r : Option TaskId} {w : TW} {up : List Notif} (ns : List Notif)
    (h : WInvU r w up) (hnt : terminated up = false) (hns : WF ns) (ho : Only r w)
    (hss : w.srcSubscribed = true) (hhot : ∀ i, w.src = .hot i → i ∈ w.terminated)
    (hiv : ∀ d p, w.src ≠ .interval d p) : WInvU r (w.push 0 ns) (up ++ ns) := by
  refine h.push0 _ (h.2.extend _ (WF_append h.2.wf hnt hns) ?_ (fun _ => ⟨ho, hhot, hiv⟩))
  intro hs; rw [hss] at hs; cases hs

theorem WInvU.ofEq {r : Option TaskId} {w w' : TW} {up : List Notif} (h : WInvU r w up)
    (h1 : w'.src = w.src) (h2 : w'.srcSubscribed = w.srcSubscribed)
    (h3 : w'.subscribed = w.subscribed) (h4 : w'.terminated = w.terminated)
    (h5 : w'.sched = w.sched) (h6 : w'.stages = w.stages) (h7 : w'.log = w.log) : WInvU r w' up :=
  (TW.Quiet.ofEq h1 h2 h3 h4 h5 h6 h7).invU h

/-- The running critical task finishes. -/
theorem WInv.finish {k : TaskId} {w : TW} (h : WInv (some k) w) :
    WInv none { w with sched := w.sched.finishOnce k } := by
  obtain ⟨up, hc, hs⟩ := h
  have hs' : SrcOK (some k) { w with sched := w.sched.finishOnce k } up :=
    hs.frame rfl rfl rfl (fun _ h => h) (Sched.Le.finishOnce _ _)
  have nk : ∀ {k' b}, (w.sched.finishOnce k).Live k' b → some k' ≠ some k := by
    intro k' b hl e
    cases e
    exact Sched.finishOnce_not_live _ _ _ hl
  refine ⟨up, hc, hs'.wf, hs'.bodies, ?_, hs'.unsubd, hs'.nosrc, ?_, ?_, hs'.hot, hs'.interval⟩
  · intro k1 b1 k2 b2 l1 c1 l2 c2
    rcases hs'.uniq k1 b1 k2 b2 l1 c1 l2 c2 with e | e | e
    · exact Or.inl e
    · exact absurd e (nk l1)
    · exact absurd e (nk l2)
  · intro hss k' b hl hb; exact absurd (hs'.subd hss k' b hl hb) (nk hl)
  · intro ht k' b hl hb; exact absurd (hs'.term ht k' b hl hb) (nk hl)

/-! ### tasks appended to the scheduler -/

theorem Sched.live_append {s s' : Sched} {t : Task} (e : s'.tasks = s.tasks ++ [t]) {k : TaskId}
    {b : Body} (hl : s'.Live k b) : s.Live k b ∨ (k = s.tasks.length ∧ b = t.body) := by
  obtain ⟨t', h', hd, hb⟩ := hl
  rw [e] at h'
  rcases Nat.lt_or_ge k s.tasks.length with hk | hk
  · rw [List.getElem?_append_left hk] at h'
    exact Or.inl ⟨t', h', hd, hb⟩
  · rw [List.getElem?_append_right hk] at h'
    cases hx : k - s.tasks.length with
    | zero =>
      have hk' : k = s.tasks.length := Nat.le_antisymm (Nat.le_of_sub_eq_zero hx) hk
      rw [hx] at h'
      simp at h'
      subst h'
      exact Or.inr ⟨hk', hb.symm⟩
    | succ m => rw [hx] at h'; simp at h'

/-- A new task that is not critical. -/
theorem SrcOK.addTask {r : Option TaskId} {w : TW} {up : List Notif} (h : SrcOK r w up)
    (s' : Sched) (t : Task) (e : s'.tasks = w.sched.tasks ++ [t]) (hc : t.body.critical = false)
    (hok : t.body.okFor w.src) : SrcOK r { w with sched := s' } up := by
  refine h.frame' rfl rfl rfl (fun _ h => h) ?_ ?_
  · intro k b hl hcb
    rcases Sched.live_append e hl with h1 | ⟨_, h2⟩
    · exact h1
    · rw [h2, hc] at hcb; cases hcb
  · intro t' ht'
    have ht' : t' ∈ s'.tasks := ht'
    rw [e] at ht'
    rcases List.mem_append.mp ht' with h1 | h1
    · exact h.bodies t' h1
    · simp at h1; subst h1; exact hok

/-- A new critical task while all live critical tasks are the running one. -/
theorem SrcOK.addCrit {r : Option TaskId} {w : TW} {up : List Notif} (h : SrcOK r w up)
    (ho : Only r w) (hnt : terminated up = false) (hsub : w.subscribed = true)
    (s' : Sched) (t : Task) (e : s'.tasks = w.sched.tasks ++ [t]) (hok : t.body.okFor w.src)
    (h1 : w.srcSubscribed = false → t.body.isSub = true)
    (h2 : w.srcSubscribed = true → t.body.isSub = false) : SrcOK r { w with sched := s' } up := by
  have la : ∀ {k b}, s'.Live k b → w.sched.Live k b ∨ (k = w.sched.tasks.length ∧ b = t.body) :=
    fun hl => Sched.live_append e hl
  refine ⟨h.wf, ?_, ?_, ?_, ?_, ?_, ?_, h.hot, h.interval⟩
  · intro t' ht'
    have ht' : t' ∈ s'.tasks := ht'
    rw [e] at ht'
    rcases List.mem_append.mp ht' with h1 | h1
    · exact h.bodies t' h1
    · simp at h1; subst h1; exact hok
  · intro k1 b1 k2 b2 l1 c1 l2 c2
    rcases la l1 with o1 | ⟨n1, _⟩
    · exact Or.inr (Or.inl (ho k1 b1 o1 c1))
    · rcases la l2 with o2 | ⟨n2, _⟩
      · exact Or.inr (Or.inr (ho k2 b2 o2 c2))
      · exact Or.inl (n1.trans n2.symm)
  · intro hs
    have : w.subscribed = false := hs
    rw [hsub] at this; cases this
  · intro hs
    refine ⟨hnt, fun k b hl hc => ?_⟩
    rcases la hl with o | ⟨_, hb⟩
    · exact (h.nosrc hs).2 k b o hc
    · rw [hb]; exact h1 hs
  · intro hs k b hl hb
    rcases la hl with o | ⟨_, hb'⟩
    · exact h.subd hs k b o hb
    · rw [hb', h2 hs] at hb; cases hb
  · intro ht; rw [hnt] at ht; cases ht

/-- The source gets subscribed. -/
theorem SrcOK.subscribed0 {r : Option TaskId} {w : TW} {up : List Notif} (h : SrcOK r w up)
    (ho : Only r w) (hsub : w.subscribed = true) : SrcOK r { w with srcSubscribed := true } up := by
  refine ⟨h.wf, h.bodies, h.uniq, ?_, ?_, ?_, h.term, h.hot, h.interval⟩
  · intro hs
    have : w.subscribed = false := hs
    rw [hsub] at this; cases this
  · intro hs; cases hs
  · intro _ k b hl hb; exact ho k b hl (Body.critical_of_isSub hb)

end Rx.T
